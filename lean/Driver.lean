/-
  Driver.lean — line-protocol driver over the Lean model (M lines) and the Lean specification (S lines).
  `leandrv run`  : read a scenario on stdin, print `M <canonical line>` and `S <canonical line>` per operation.
  `leandrv gen …`: produce scenarios from the SPEC side only (so inputs never depend on the code under test).
  Imports no Mathlib (links as a lean_exe).
-/
import ChessVerif.Model.Text
import ChessVerif.Model.Polyglot
import ChessVerif.Spec.Rules
import ChessVerif.Spec.Keys
import ChessVerif.Spec.Fen
import ChessVerif.DriverExtra
open Chess

-- PRNG -------------------------------------------------------------------------------------------
def splitmix (s : UInt64) : UInt64 × UInt64 :=
  let s := s + 0x9E3779B97F4A7C15
  let z := s
  let z := (z ^^^ (z >>> 30)) * 0xBF58476D1CE4E5B9
  let z := (z ^^^ (z >>> 27)) * 0x94D049BB133111EB
  (s, z ^^^ (z >>> 31))

structure Rng where
  s : UInt64

def Rng.next (r : Rng) : Rng × Nat := let (s, z) := splitmix r.s; (⟨s⟩, z.toNat)
def Rng.below (r : Rng) (n : Nat) : Rng × Nat := let (r, z) := r.next; (r, if n = 0 then 0 else z % n)

def mkZTable (seed : Nat) : ZTable :=
  let n := 13 * 64 + 16 + 1 + 8
  let (arr, _) := (List.range n).foldl (fun (st : Array Nat × UInt64) _ =>
    let (s, z) := splitmix st.2; (st.1.push z.toNat, s)) (Array.mkEmpty n, UInt64.ofNat seed)
  { piece := fun pc sq => arr.getD (pc * 64 + sq) 0,
    castling := fun i => arr.getD (832 + i) 0,
    side := arr.getD 848 0,
    ep := fun f => arr.getD (849 + f) 0 }

def hex16 (n : Nat) : String :=
  let ds := (Nat.toDigits 16 n)
  String.ofList (List.replicate (16 - ds.length) '0' ++ ds)

def b2s (b : Bool) : String := if b then "1" else "0"

-- state lines -------------------------------------------------------------------------------------
def modelState (T : ZTable) (p : Position) : String :=
  let f := fen p
  let fresh := ofFen T f
  "fen=" ++ f ++ "|key=" ++ hex16 p.hash.key ++ "|pkey=" ++ hex16 p.hash.pawnK ++
  "|fkey=" ++ hex16 fresh.hash.key ++ "|fpkey=" ++ hex16 fresh.hash.pawnK ++
  "|chk=" ++ b2s (isInCheck p p.side) ++ "|mate=" ++ b2s (isCheckmate p) ++ "|stale=" ++ b2s (isStalemate p) ++
  "|rep=" ++ b2s (isRepeated p) ++ "|three=" ++ b2s (threefold p) ++ "|r50=" ++ b2s (rule50 p) ++
  "|mat=" ++ b2s (enoughMaterial p) ++ "|draw=" ++ b2s (isDraw p) ++
  "|poly=" ++ hex16 (polyKey p) ++ "|hist=" ++ toString p.history.length ++ "|sync=ok"

structure SState where
  cur : Spec.SPos
  past : List Spec.SPos          -- earlier positions of the game, newest first
  deriving Inhabited

def specState (T : ZTable) (s : SState) : String :=
  let p := s.cur
  let key := Spec.scratchKey T.piece T.castling T.side T.ep p
  let pkey := Spec.scratchPawnKey T.piece p
  let e := Spec.earlier p s.past
  let r50 := decide (100 ≤ p.halfmove)
  let mat := !Spec.insufficientMaterial p.board
  "fen=" ++ Spec.toFen p ++ "|key=" ++ hex16 key ++ "|pkey=" ++ hex16 pkey ++
  "|fkey=" ++ hex16 key ++ "|fpkey=" ++ hex16 pkey ++
  "|chk=" ++ b2s (Spec.inCheck p.board p.side) ++ "|mate=" ++ b2s (Spec.isMate p) ++ "|stale=" ++ b2s (Spec.isStalemate p) ++
  "|rep=" ++ b2s (decide (1 ≤ e)) ++ "|three=" ++ b2s (decide (2 ≤ e)) ++ "|r50=" ++ b2s r50 ++
  "|mat=" ++ b2s mat ++ "|draw=" ++ b2s (r50 || decide (2 ≤ e) || !mat) ++
  "|poly=" ++ hex16 (Spec.polyKey p) ++ "|hist=" ++ toString (s.past.length + 1) ++ "|sync=ok"

def insertSorted (x : String × Nat × String) : List (String × Nat × String) → List (String × Nat × String)
  | [] => [x]
  | y :: ys => if x.1 < y.1 ∨ (x.1 = y.1 ∧ x.2.1 ≤ y.2.1) then x :: y :: ys else y :: insertSorted x ys

def sortRows (l : List (String × Nat × String)) : List (String × Nat × String) := l.foldl (fun acc x => insertSorted x acc) []

def countDup : List (String × Nat × String) → Nat
  | a :: b :: rest => (if a.2.1 = b.2.1 then 1 else 0) + countDup (b :: rest)
  | _ => 0

def modelMoves (p : Position) (detail : Bool) : String :=
  let ms := genMoves p
  let rows := ms.map (fun m =>
    let u := uci p m
    if detail then
      let s := san p m
      (u, m, u ++ ":" ++ toString m ++ ":" ++ s ++ ":" ++ b2s (moveIsCapture p m) ++ b2s (moveIsQuiet p m) ++ b2s (moveGivesCheck p m) ++
        ":" ++ b2s (parseUci p u == some m) ++ b2s (parseSan p s == some m))
    else (u, m, u))
  let rows := sortRows rows
  (if detail then "moves" else "gen") ++ " n=" ++ toString ms.length ++ " dup=" ++ toString (countDup rows) ++
    rows.foldl (fun acc r => acc ++ " " ++ r.2.2) ""

/-- the packed code the engine uses for a rules-level move (the C16 encoding, written as arithmetic) -/
def specCode (p : Spec.SPos) (m : Spec.SMove) : Nat :=
  if Spec.isCastle p.board m then (if m.dst = m.src + 2 then 32768 else 65536)
  else m.src + 64 * m.dst + 4096 * m.promo

def specMoves (p : Spec.SPos) (detail : Bool) : String :=
  let ms := Spec.legalMoves p
  let rows := ms.map (fun m =>
    let u := Spec.uciOf m
    let code := specCode p m
    if detail then
      let cap := Spec.isCaptureMove p m
      let quiet := !cap && m.promo = 0
      let chk := Spec.inCheck (Spec.apply p m).board (1 - p.side)
      (u, code, u ++ ":" ++ toString code ++ "::" ++ b2s cap ++ b2s quiet ++ b2s chk ++ ":11")
    else (u, code, u))
  let rows := sortRows rows
  (if detail then "moves" else "gen") ++ " n=" ++ toString ms.length ++ " dup=" ++ toString (countDup rows) ++
    rows.foldl (fun acc r => acc ++ " " ++ r.2.2) ""

partial def modelPerft (T : ZTable) (p : Position) (d : Nat) : Nat :=
  if d = 0 then 1 else
  let ms := genMoves p
  if d = 1 then ms.length else ms.foldl (fun acc m => acc + modelPerft T (doMove T p m).1 (d - 1)) 0

partial def specPerft (p : Spec.SPos) (d : Nat) : Nat :=
  if d = 0 then 1 else
  let ms := Spec.legalMoves p
  if d = 1 then ms.length else ms.foldl (fun acc m => acc + specPerft (Spec.apply p m) (d - 1)) 0

-- run mode ------------------------------------------------------------------------------------------
structure Run where
  T : ZTable
  mp : Position
  mstack : List (Nat × Nat)             -- (move, moveinfo); move 0 = null move
  ss : SState
  sstack : List SState
  x : ExtraState

def specNull (p : Spec.SPos) : Spec.SPos :=
  { p with side := 1 - p.side, ep := 64, halfmove := p.halfmove + 1,
           fullmove := if p.side = 1 then p.fullmove + 1 else p.fullmove }

def out (m s : String) : IO Unit := do
  IO.println ("M " ++ m)
  IO.println ("S " ++ s)

def stepLine (r : Run) (line : String) : IO Run := do
  let ws := Spec.words line
  match ws with
  | [] => IO.println line; return r
  | op :: args =>
    if op.startsWith "#" then IO.println line; return r
    else if op = "ztab" then
      out "ztab ok" "ztab ok"
      return { r with T := mkZTable ((args.getD 0 "0").toNat?.getD 0) }
    else if op = "pos" then
      let f := String.intercalate " " args
      let mp := ofFen r.T f
      let ss : SState := { cur := Spec.ofFen f, past := [] }
      out (modelState r.T mp) (specState r.T ss)
      return { r with mp := mp, mstack := [], ss := ss, sstack := [] }
    else if op = "do" then
      let u := args.getD 0 ""
      match parseUci r.mp u with
      | none => out "err bad-move" "err bad-move"; return r
      | some m =>
        let (mp, mi) := doMove r.T r.mp m
        let ss : SState := { cur := Spec.apply r.ss.cur (Spec.moveOfUci u), past := r.ss.cur :: r.ss.past }
        out (modelState r.T mp) (specState r.T ss)
        return { r with mp := mp, mstack := (m, mi) :: r.mstack, ss := ss, sstack := r.ss :: r.sstack }
    else if op = "undo" then
      match r.mstack, r.sstack with
      | (m, mi) :: mrest, s :: srest =>
        let mp := if m = 0 then undoNull r.T r.mp mi else undoMove r.T r.mp m mi
        out (modelState r.T mp) (specState r.T s)
        return { r with mp := mp, mstack := mrest, ss := s, sstack := srest }
      | _, _ => out "err empty" "err empty"; return r
    else if op = "null" then
      let (mp, mi) := doNull r.T r.mp
      let ss : SState := { cur := specNull r.ss.cur, past := r.ss.past }
      out (modelState r.T mp) (specState r.T ss)
      return { r with mp := mp, mstack := (0, mi) :: r.mstack, ss := ss, sstack := r.ss :: r.sstack }
    else if op = "wf" then
      let ab : Spec.SPos := { board := r.mp.board, side := r.mp.side, castling := r.mp.castling, ep := r.mp.ep,
                              halfmove := r.mp.halfmove, fullmove := (Int.tdiv (r.mp.ply - 1) 2 + 1).toNat }
      out ("wf " ++ b2s (Spec.wf ab)) ("wf " ++ b2s (Spec.wf r.ss.cur)); return r
    else if op = "state" then out (modelState r.T r.mp) (specState r.T r.ss); return r
    else if op = "gen" then out (modelMoves r.mp false) (specMoves r.ss.cur false); return r
    else if op = "moves" then out (modelMoves r.mp true) (specMoves r.ss.cur true); return r
    else if op = "perft" then
      let d := (args.getD 0 "1").toNat?.getD 1
      out ("perft " ++ toString d ++ " " ++ toString (modelPerft r.T r.mp d))
          ("perft " ++ toString d ++ " " ++ toString (specPerft r.ss.cur d))
      return r
    else
      match extraOp r.x r.mp r.ss.cur op args with
      | some (x, m, s) => out m s; return { r with x := x }
      | none => out ("err unknown-op " ++ op) ("err unknown-op " ++ op); return r

partial def runLoop (h : IO.FS.Stream) (r : Run) : IO Unit := do
  let line ← h.getLine
  if line.isEmpty then return ()
  let line := String.ofList (line.toList.reverse.dropWhile (fun c => c = '\n' || c = '\r')).reverse
  let r ← stepLine r line
  runLoop h r

-- scenario generation (spec side only) ----------------------------------------------------------------
def moveWeight (p : Spec.SPos) (m : Spec.SMove) : Nat :=
  let k := Spec.kindOfPc (Spec.pcAt p.board m.src)
  if Spec.isEpCapture p m then 12
  else if Spec.isCastle p.board m then 10
  else if m.promo ≠ 0 then (if m.promo = 5 then 6 else 3)
  else if Spec.isCaptureMove p m then 3
  else if k = 1 ∧ (m.dst = m.src + 16 ∨ m.dst + 16 = m.src) then 3
  else if k = 6 then 1
  else 2

def pickWeighted (r : Rng) (p : Spec.SPos) (ms : List Spec.SMove) : Rng × Option Spec.SMove :=
  match ms with
  | [] => (r, none)
  | _ =>
    let ws := ms.map (moveWeight p)
    let total := ws.foldl (· + ·) 0
    let (r, x) := r.below total
    let rec go : List Spec.SMove → List Nat → Nat → Option Spec.SMove
      | m :: ms, w :: ws, x => if x < w then some m else go ms ws (x - w)
      | _, _, _ => none
    (r, go ms ws x)

/-- emit a random excursion: `depth` moves forward, then as many undos -/
partial def excursion (r : Rng) (p : Spec.SPos) (depth : Nat) (acc : List String) : Rng × List String × Nat :=
  if depth = 0 then (r, acc, 0) else
  let ms := Spec.legalMoves p
  match pickWeighted r p ms with
  | (r, none) => (r, acc, 0)
  | (r, some m) =>
    let (r, acc, n) := excursion r (Spec.apply p m) (depth - 1) (("do " ++ Spec.uciOf m) :: acc)
    (r, acc, n + 1)

partial def playGame (r : Rng) (p : Spec.SPos) (last : Option Spec.SMove) (plies : Nat) (detailEvery : Nat) (acc : List String) :
    Rng × List String :=
  if plies = 0 then (r, acc) else
  let ms := Spec.legalMoves p
  if ms.isEmpty then (r, "moves" :: acc) else
  -- excursions and null moves leave the game position unchanged
  let (r, e) := r.below 8
  let (r, acc) :=
    if e = 0 then
      let (r, d) := r.below 4
      let (r, acc, n) := excursion r p (d + 1) acc
      (r, (List.replicate n "undo") ++ acc)
    else if e = 1 ∧ !Spec.inCheck p.board p.side then (r, "undo" :: "null" :: acc)
    else (r, acc)
  let (r, d) := r.below detailEvery
  let acc := if d = 0 then "moves" :: acc else acc
  -- sometimes undo the mover's previous move to provoke repetitions
  let (r, back) := r.below 5
  let rev : Option Spec.SMove :=
    match last with
    | some lm => let c : Spec.SMove := ⟨lm.dst, lm.src, 0⟩; if back = 0 ∧ ms.contains c then some c else none
    | none => none
  let (r, choice) := match rev with
    | some c => (r, some c)
    | none => pickWeighted r p ms
  match choice with
  | none => (r, acc)
  | some m =>
    -- `last` for the next ply is the move made two plies ago by the same side: keep a 2-slot memory via recursion
    playGame2 r (Spec.apply p m) m last (plies - 1) detailEvery (("do " ++ Spec.uciOf m) :: acc)
where
  playGame2 (r : Rng) (p : Spec.SPos) (_mine : Spec.SMove) (theirs : Option Spec.SMove) (plies detailEvery : Nat) (acc : List String) :
      Rng × List String :=
    playGame r p theirs plies detailEvery acc

def genPlay (seed ngames maxPlies detailEvery : Nat) (fens : Array String) : IO Unit := do
  IO.println s!"ztab {seed}"
  let mut r : Rng := ⟨UInt64.ofNat (seed * 7919 + 13)⟩
  for _ in [0:ngames] do
    let (r1, i) := r.below fens.size
    let f := fens.getD i startFen
    let (r2, len) := r1.below maxPlies
    let (r3, lines) := playGame r2 (Spec.ofFen f) none (len + 4) detailEvery ["moves", "pos " ++ f]
    r := r3
    for l in lines.reverse do IO.println l

def readLines (path : String) : IO (Array String) := do
  let txt ← IO.FS.readFile path
  return (txt.splitOn "\n").toArray.filter (fun l => l.trimAscii.toString ≠ "" ∧ !l.startsWith "#")

def main (args : List String) : IO Unit := do
  match args with
  | ["run"] =>
    let h ← IO.getStdin
    let T := mkZTable 0
    let mp := ofFen T startFen
    runLoop h { T := T, mp := mp, mstack := [], ss := { cur := Spec.ofFen startFen, past := [] }, sstack := [], x := {} }
  | ["gen", "play", seed, ngames, maxPlies, detailEvery, fenfile] =>
    let fens ← readLines fenfile
    genPlay seed.toNat! ngames.toNat! maxPlies.toNat! detailEvery.toNat! fens
  | "gen" :: rest => genExtra rest
  | _ => IO.eprintln "usage: leandrv run | gen play <seed> <ngames> <maxplies> <detailEvery> <fenfile> | gen <profile> …"
