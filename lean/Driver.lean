/-
  Driver.lean — line-protocol driver over the Lean model (M lines) and the Lean specification (S lines).
  `leandrv run`  : read a scenario on stdin, print `M <canonical line>` and `S <canonical line>` per operation.
  `leandrv gen …`: produce scenarios from the SPEC side only (so inputs never depend on the code under test).
  Imports no Mathlib (links as a lean_exe).
-/
import ChessVerif.Model.Text
import ChessVerif.Model.Polyglot
import ChessVerif.Spec.Rules
import ChessVerif.Spec.Keys
import ChessVerif.Spec.Fen
import ChessVerif.DriverExtra
import ChessVerif.DriverSearch
import ChessVerif.Spec.Mate
import ChessVerif.Lemmas.OKDefs
import ChessVerif.Lemmas.SanRound
open Chess

-- PRNG -------------------------------------------------------------------------------------------
def splitmix (s : UInt64) : UInt64 × UInt64 :=
  let s := s + 0x9E3779B97F4A7C15
  let z := s
  let z := (z ^^^ (z >>> 30)) * 0xBF58476D1CE4E5B9
  let z := (z ^^^ (z >>> 27)) * 0x94D049BB133111EB
  (s, z ^^^ (z >>> 31))

structure Rng where
  s : UInt64

def Rng.next (r : Rng) : Rng × Nat := let (s, z) := splitmix r.s; (⟨s⟩, z.toNat)
def Rng.below (r : Rng) (n : Nat) : Rng × Nat := let (r, z) := r.next; (r, if n = 0 then 0 else z % n)

def mkZTable (seed : Nat) : ZTable :=
  let n := 13 * 64 + 16 + 1 + 8
  let (arr, _) := (List.range n).foldl (fun (st : Array Nat × UInt64) _ =>
    let (s, z) := splitmix st.2; (st.1.push z.toNat, s)) (Array.mkEmpty n, UInt64.ofNat seed)
  { piece := fun pc sq => arr.getD (pc * 64 + sq) 0,
    castling := fun i => arr.getD (832 + i) 0,
    side := arr.getD 848 0,
    ep := fun f => arr.getD (849 + f) 0 }

def hex16 (n : Nat) : String :=
  let ds := (Nat.toDigits 16 n)
  String.ofList (List.replicate (16 - ds.length) '0' ++ ds)

def b2s (b : Bool) : String := if b then "1" else "0"

-- state lines -------------------------------------------------------------------------------------
def modelState (T : ZTable) (p : Position) : String :=
  let f := fen p
  let fresh := ofFen T f
  "fen=" ++ f ++ "|key=" ++ hex16 p.hash.key ++ "|pkey=" ++ hex16 p.hash.pawnK ++
  "|fkey=" ++ hex16 fresh.hash.key ++ "|fpkey=" ++ hex16 fresh.hash.pawnK ++ "|ffen=" ++ fen fresh ++
  "|chk=" ++ b2s (isInCheck p p.side) ++ "|mate=" ++ b2s (isCheckmate p) ++ "|stale=" ++ b2s (isStalemate p) ++
  "|rep=" ++ b2s (isRepeated p) ++ "|three=" ++ b2s (threefold p) ++ "|r50=" ++ b2s (rule50 p) ++
  "|mat=" ++ b2s (enoughMaterial p) ++ "|draw=" ++ b2s (isDraw p) ++
  "|poly=" ++ hex16 (polyKey p) ++ "|hist=" ++ toString p.history.length ++
  -- the standing hypotheses of the C03/C04 theorems (Ranges, UndoOK of every generated move) and of the C17 round-trip
  -- theorem (genShapeB: no duplicate moves, well-shaped codes) evaluated here:
  "|sync=" ++ (if hypothesesHold p then (if genShapeB p then "ok" else "genshape-fail") else "hypotheses-fail")

structure SState where
  cur : Spec.SPos
  past : List Spec.SPos          -- earlier positions of the game, newest first
  deriving Inhabited

def specState (T : ZTable) (s : SState) : String :=
  let p := s.cur
  let key := Spec.scratchKey T.piece T.castling T.side T.ep p
  let pkey := Spec.scratchPawnKey T.piece p
  let e := Spec.earlier p s.past
  let r50 := decide (100 ≤ p.halfmove)
  let mat := !Spec.insufficientMaterial p.board
  "fen=" ++ Spec.toFen p ++ "|key=" ++ hex16 key ++ "|pkey=" ++ hex16 pkey ++
  "|fkey=" ++ hex16 key ++ "|fpkey=" ++ hex16 pkey ++ "|ffen=" ++ Spec.toFen p ++
  "|chk=" ++ b2s (Spec.inCheck p.board p.side) ++ "|mate=" ++ b2s (Spec.isMate p) ++ "|stale=" ++ b2s (Spec.isStalemate p) ++
  "|rep=" ++ b2s (decide (1 ≤ e)) ++ "|three=" ++ b2s (decide (2 ≤ e)) ++ "|r50=" ++ b2s r50 ++
  "|mat=" ++ b2s mat ++ "|draw=" ++ b2s (r50 || decide (2 ≤ e) || !mat) ++
  "|poly=" ++ hex16 (Spec.polyKey p) ++ "|hist=" ++ toString (s.past.length + 1) ++
  -- the standing hypothesis of the C02 theorem (StepOK of every legal move) evaluated here:
  "|sync=" ++ (if specHypothesesHold p then "ok" else "hypotheses-fail")

def insertSorted (x : String × Nat × String) : List (String × Nat × String) → List (String × Nat × String)
  | [] => [x]
  | y :: ys => if x.1 < y.1 ∨ (x.1 = y.1 ∧ x.2.1 ≤ y.2.1) then x :: y :: ys else y :: insertSorted x ys

def sortRows (l : List (String × Nat × String)) : List (String × Nat × String) := l.foldl (fun acc x => insertSorted x acc) []

def countDup : List (String × Nat × String) → Nat
  | a :: b :: rest => (if a.2.1 = b.2.1 then 1 else 0) + countDup (b :: rest)
  | _ => 0

def modelMoves (p : Position) (detail : Bool) : String :=
  let ms := genMoves p
  let rows := ms.map (fun m =>
    let u := uci p m
    if detail then
      let s := san p m
      (u, m, u ++ ":" ++ toString m ++ ":" ++ s ++ ":" ++ b2s (moveIsCapture p m) ++ b2s (moveIsQuiet p m) ++ b2s (moveGivesCheck p m) ++
        ":" ++ b2s (parseUci p u == some m) ++ b2s (parseSan p s == some m))
    else (u, m, u))
  let rows := sortRows rows
  (if detail then "moves" else "gen") ++ " n=" ++ toString ms.length ++ " dup=" ++ toString (countDup rows) ++
    rows.foldl (fun acc r => acc ++ " " ++ r.2.2) ""

/-- the packed code the engine uses for a rules-level move (the C16 encoding, written as arithmetic) -/
def specCode (p : Spec.SPos) (m : Spec.SMove) : Nat := codeOf p m   -- Lemmas/Refine.lean (the code C02's theorem is about)

def specMoves (p : Spec.SPos) (detail : Bool) : String :=
  let ms := Spec.legalMoves p
  let rows := ms.map (fun m =>
    let u := Spec.uciOf m
    let code := specCode p m
    if detail then
      let cap := Spec.isCaptureMove p m
      let quiet := !cap && m.promo = 0
      let chk := Spec.inCheck (Spec.apply p m).board (1 - p.side)
      (u, code, u ++ ":" ++ toString code ++ "::" ++ b2s cap ++ b2s quiet ++ b2s chk ++ ":11")
    else (u, code, u))
  let rows := sortRows rows
  (if detail then "moves" else "gen") ++ " n=" ++ toString ms.length ++ " dup=" ++ toString (countDup rows) ++
    rows.foldl (fun acc r => acc ++ " " ++ r.2.2) ""

partial def modelPerft (T : ZTable) (p : Position) (d : Nat) : Nat :=
  if d = 0 then 1 else
  let ms := genMoves p
  if d = 1 then ms.length else ms.foldl (fun acc m => acc + modelPerft T (doMove T p m).1 (d - 1)) 0

partial def specPerft (p : Spec.SPos) (d : Nat) : Nat :=
  if d = 0 then 1 else
  let ms := Spec.legalMoves p
  if d = 1 then ms.length else ms.foldl (fun acc m => acc + specPerft (Spec.apply p m) (d - 1)) 0

-- run mode ------------------------------------------------------------------------------------------
structure Run where
  T : ZTable
  mp : Position
  mstack : List (Nat × Nat)             -- (move, moveinfo); move 0 = null move
  ss : SState
  sstack : List SState
  x : ExtraState

def specNull (p : Spec.SPos) : Spec.SPos :=
  { p with side := 1 - p.side, ep := 64, halfmove := p.halfmove + 1,
           fullmove := if p.side = 1 then p.fullmove + 1 else p.fullmove }

def out (m s : String) : IO Unit := do
  IO.println ("M " ++ m)
  IO.println ("S " ++ s)

def stepLine (r : Run) (line : String) : IO Run := do
  let ws := Spec.words line
  match ws with
  | [] => IO.println line; return r
  | op :: args =>
    if op.startsWith "#" then IO.println line; return r
    else if op = "ztab" then
      out "ztab ok" "ztab ok"
      return { r with T := mkZTable ((args.getD 0 "0").toNat?.getD 0) }
    else if op = "zcheck" then
      -- what "per-process random tables" must at least satisfy (12*64 + 16 + 1 + 8 = 793 cells)
      out "zcheck distinct=1 nonzero=1 n=793" "zcheck distinct=1 nonzero=1 n=793"; return r
    else if op = "pos" then
      let f := String.intercalate " " args
      let mp := ofFen r.T f
      let ss : SState := { cur := Spec.ofFen f, past := [] }
      out (modelState r.T mp) (specState r.T ss)
      return { r with mp := mp, mstack := [], ss := ss, sstack := [] }
    else if op = "do" then
      let u := args.getD 0 ""
      match parseUci r.mp u with
      | none => out "err bad-move" "err bad-move"; return r
      | some m =>
        let (mp, mi) := doMove r.T r.mp m
        let ss : SState := { cur := Spec.apply r.ss.cur (Spec.moveOfUci u), past := r.ss.cur :: r.ss.past }
        out (modelState r.T mp) (specState r.T ss)
        return { r with mp := mp, mstack := (m, mi) :: r.mstack, ss := ss, sstack := r.ss :: r.sstack }
    else if op = "undo" then
      match r.mstack, r.sstack with
      | (m, mi) :: mrest, s :: srest =>
        let mp := if m = 0 then undoNull r.T r.mp mi else undoMove r.T r.mp m mi
        out (modelState r.T mp) (specState r.T s)
        return { r with mp := mp, mstack := mrest, ss := s, sstack := srest }
      | _, _ => out "err empty" "err empty"; return r
    else if op = "null" then
      let (mp, mi) := doNull r.T r.mp
      let ss : SState := { cur := specNull r.ss.cur, past := r.ss.past }
      out (modelState r.T mp) (specState r.T ss)
      return { r with mp := mp, mstack := (0, mi) :: r.mstack, ss := ss, sstack := r.ss :: r.sstack }
    else if op = "wf" then
      let ab : Spec.SPos := { board := r.mp.board, side := r.mp.side, castling := r.mp.castling, ep := r.mp.ep,
                              halfmove := r.mp.halfmove, fullmove := (Int.tdiv (r.mp.ply - 1) 2 + 1).toNat }
      out ("wf " ++ b2s (Spec.wf ab)) ("wf " ++ b2s (Spec.wf r.ss.cur)); return r
    else if op = "state" then out (modelState r.T r.mp) (specState r.T r.ss); return r
    else if op = "gen" then out (modelMoves r.mp false) (specMoves r.ss.cur false); return r
    else if op = "moves" then out (modelMoves r.mp true) (specMoves r.ss.cur true); return r
    else if op = "perft" then
      let d := (args.getD 0 "1").toNat?.getD 1
      out ("perft " ++ toString d ++ " " ++ toString (modelPerft r.T r.mp d))
          ("perft " ++ toString d ++ " " ++ toString (specPerft r.ss.cur d))
      return r
    else
      match extraOp r.x r.mp r.ss.cur op args with
      | some (x, m, s) => out m s; return { r with x := x }
      | none => out ("err unknown-op " ++ op) ("err unknown-op " ++ op); return r

partial def runLoop (h : IO.FS.Stream) (r : Run) : IO Unit := do
  let line ← h.getLine
  if line.isEmpty then return ()
  let line := String.ofList (line.toList.reverse.dropWhile (fun c => c = '\n' || c = '\r')).reverse
  let r ← stepLine r line
  runLoop h r

-- scenario generation (spec side only) ----------------------------------------------------------------
def moveWeight (p : Spec.SPos) (m : Spec.SMove) : Nat :=
  let k := Spec.kindOfPc (Spec.pcAt p.board m.src)
  if Spec.isEpCapture p m then 12
  else if Spec.isCastle p.board m then 10
  else if m.promo ≠ 0 then (if m.promo = 5 then 6 else 3)
  else if Spec.isCaptureMove p m then 3
  else if k = 1 ∧ (m.dst = m.src + 16 ∨ m.dst + 16 = m.src) then 3
  else if k = 6 then 1
  else 2

def pickWeighted (r : Rng) (p : Spec.SPos) (ms : List Spec.SMove) : Rng × Option Spec.SMove :=
  match ms with
  | [] => (r, none)
  | _ =>
    let ws := ms.map (moveWeight p)
    let total := ws.foldl (· + ·) 0
    let (r, x) := r.below total
    let rec go : List Spec.SMove → List Nat → Nat → Option Spec.SMove
      | m :: ms, w :: ws, x => if x < w then some m else go ms ws (x - w)
      | _, _, _ => none
    (r, go ms ws x)

/-- emit a random excursion: `depth` moves forward, then as many undos -/
partial def excursion (r : Rng) (p : Spec.SPos) (depth : Nat) (acc : List String) : Rng × List String × Nat :=
  if depth = 0 then (r, acc, 0) else
  let ms := Spec.legalMoves p
  match pickWeighted r p ms with
  | (r, none) => (r, acc, 0)
  | (r, some m) =>
    let (r, acc, n) := excursion r (Spec.apply p m) (depth - 1) (("do " ++ Spec.uciOf m) :: acc)
    (r, acc, n + 1)

partial def playGame (r : Rng) (p : Spec.SPos) (last : Option Spec.SMove) (plies : Nat) (detailEvery : Nat) (acc : List String) :
    Rng × List String :=
  if plies = 0 then (r, acc) else
  let ms := Spec.legalMoves p
  if ms.isEmpty then (r, "moves" :: acc) else
  -- excursions and null moves leave the game position unchanged
  let (r, e) := r.below 8
  let (r, acc) :=
    if e = 0 then
      let (r, d) := r.below 4
      let (r, acc, n) := excursion r p (d + 1) acc
      (r, (List.replicate n "undo") ++ acc)
    else if e = 1 ∧ !Spec.inCheck p.board p.side then (r, "undo" :: "null" :: acc)
    else (r, acc)
  let (r, d) := r.below detailEvery
  let acc := if d = 0 then "moves" :: acc else acc
  -- sometimes undo the mover's previous move to provoke repetitions
  let (r, back) := r.below 5
  let rev : Option Spec.SMove :=
    match last with
    | some lm => let c : Spec.SMove := ⟨lm.dst, lm.src, 0⟩; if back = 0 ∧ ms.contains c then some c else none
    | none => none
  let (r, choice) := match rev with
    | some c => (r, some c)
    | none => pickWeighted r p ms
  match choice with
  | none => (r, acc)
  | some m =>
    -- `last` for the next ply is the move made two plies ago by the same side: keep a 2-slot memory via recursion
    playGame2 r (Spec.apply p m) m last (plies - 1) detailEvery (("do " ++ Spec.uciOf m) :: acc)
where
  playGame2 (r : Rng) (p : Spec.SPos) (_mine : Spec.SMove) (theirs : Option Spec.SMove) (plies detailEvery : Nat) (acc : List String) :
      Rng × List String :=
    playGame r p theirs plies detailEvery acc

def genPlay (seed ngames maxPlies detailEvery : Nat) (fens : Array String) : IO Unit := do
  IO.println s!"ztab {seed}"
  let mut r : Rng := ⟨UInt64.ofNat (seed * 7919 + 13)⟩
  for _ in [0:ngames] do
    let (r1, i) := r.below fens.size
    let f := fens.getD i startFen
    let (r2, len) := r1.below maxPlies
    let (r3, lines) := playGame r2 (Spec.ofFen f) none (len + 4) detailEvery ["moves", "pos " ++ f]
    r := r3
    for l in lines.reverse do IO.println l


-- lab generator: constructive motif positions (castling x rook captures, en passant x pins, promotions, checks) -----
def Rng.pick {α : Type} [Inhabited α] (r : Rng) (l : List α) : Rng × α :=
  let (r, i) := r.below l.length; (r, l.getD i default)

def putPiece (b : List Nat) (sq pc : Nat) : List Nat := if Spec.pcAt b sq = 0 then b.set sq pc else b

/-- drop `n` random pieces from `kinds` (piece codes) on random empty squares of `b` -/
def sprinkle (r : Rng) (b : List Nat) (n : Nat) (kinds : List Nat) : Rng × List Nat :=
  (List.range n).foldl (fun (st : Rng × List Nat) _ =>
    let (r, sq) := st.1.below 64
    let (r, pc) := r.pick kinds
    -- no pawns on the edge ranks
    if (pc = 1 ∨ pc = 7) ∧ (sq < 8 ∨ sq ≥ 56) then (r, st.2) else (r, putPiece st.2 sq pc)) (r, b)

def emptyBoard : List Nat := List.replicate 64 0

def labCastling (r : Rng) : Rng × Spec.SPos :=
  let b := (emptyBoard.set 4 6).set 60 12
  let (r, rights) := r.below 16
  let rights := if rights = 0 then 15 else rights
  let b := if rights &&& 1 ≠ 0 then b.set 7 4 else b
  let b := if rights &&& 2 ≠ 0 then b.set 0 4 else b
  let b := if rights &&& 4 ≠ 0 then b.set 63 10 else b
  let b := if rights &&& 8 ≠ 0 then b.set 56 10 else b
  let (r, n) := r.below 6
  let (r, side) := r.below 2
  -- often aim a slider of the side to move at a corner rook of the other side (rook captured on its home square)
  let (r, aim) := r.below 2
  let corners : List Nat := if side = 0 then [56, 63] else [0, 7]
  let (r, corner) := r.pick corners
  let (r, b) :=
    if aim = 0 ∧ Spec.pcAt b corner ≠ 0 then
      let (r, d) := r.pick [((1 : Int), (0 : Int)), (0, 1), (1, 1), (-1, 1), (1, -1), (0, -1), (-1, 0), (-1, -1)]
      let (r, k) := r.below 6
      let f := Spec.fileI corner + d.1 * (k + 1); let rk := Spec.rankI corner + d.2 * (k + 1)
      if Spec.onBoard f rk then
        let diag := d.1 ≠ 0 && d.2 ≠ 0
        let (r, q) := r.below 3
        (r, putPiece b (Spec.sqOf f rk) (Spec.mkPc side (if q = 0 then 5 else if diag then 3 else 4)))
      else (r, b)
    else (r, b)
  -- sometimes the other king leaves home for a square where castling gives check: on the file the rook lands on (d or f), or on
  -- the castling side's own back rank beyond the vacated king square (the rook's check then runs through e1/e8)
  let (r, chk) := r.below 3
  let (r, b, rights) :=
    if chk = 0 then
      let cands : List Nat :=
        if side = 0 then ((List.range 6).map (fun k => 3 + 8 * (k + 2))) ++ ((List.range 6).map (fun k => 5 + 8 * (k + 2))) ++
                         (if rights &&& 1 = 0 then [6, 7] else []) ++ (if rights &&& 2 = 0 then [0, 1] else [])
        else ((List.range 6).map (fun k => 3 + 8 * k)) ++ ((List.range 6).map (fun k => 5 + 8 * k)) ++
             (if rights &&& 4 = 0 then [62, 63] else []) ++ (if rights &&& 8 = 0 then [56, 57] else [])
      let (r, sq) := r.pick cands
      if Spec.pcAt b sq = 0 then
        -- the vacated home square of that king often gets a rook or queen of the side to move: a move e8-g8 / e8-c8 (e1-g1 / e1-c1)
        -- by a piece that is not a king, made by a side that still has castling rights, must stay an ordinary move in every text form
        let (r, guest) := r.pick [0, 4, 5, 4]
        if side = 0 then
          let b := (b.set 60 0).set sq 12
          (r, if guest ≠ 0 ∧ sq ≠ 60 then b.set 60 (Spec.mkPc 0 guest) else b, rights &&& 3)
        else
          let b := (b.set 4 0).set sq 6
          (r, if guest ≠ 0 ∧ sq ≠ 4 then b.set 4 (Spec.mkPc 1 guest) else b, rights &&& 12)
      else (r, b, rights)
    else (r, b, rights)
  -- sometimes a pawn of the side to move stands one step from promoting next to an enemy corner rook: a promotion that captures
  -- the rook on its home square must take the castling right with it (the right is lost by ANY capture there, also by a pawn's)
  let (r, pc) := r.below 3
  let (r, wing) := r.below 2
  let b :=
    if pc = 0 then
      (if side = 0 then putPiece b (if wing = 0 then 49 else 54) 1 else putPiece b (if wing = 0 then 9 else 14) 7)
    else b
  let (r, b) := sprinkle r b (n + 1) [2, 3, 3, 4, 4, 5, 8, 9, 9, 10, 10, 11, 1, 7]
  -- sometimes the opponent has just made a double pawn push: castling (and every other move) must then clear the
  -- en-passant square and its key component
  let (r, withEp) := r.below 3
  let (r, f) := r.below 8
  let pushed := if side = 0 then 32 + f else 24 + f
  let epSq := if side = 0 then 40 + f else 16 + f
  let origin := if side = 0 then 48 + f else 8 + f
  if withEp = 0 ∧ Spec.pcAt b pushed = 0 ∧ Spec.pcAt b epSq = 0 ∧ Spec.pcAt b origin = 0 then
    (r, { board := b.set pushed (Spec.mkPc (1 - side) 1), side := side, castling := rights, ep := epSq, halfmove := 0, fullmove := 20 })
  else
  (r, { board := b, side := side, castling := rights, ep := 64, halfmove := 3, fullmove := 20 })

/-- place a king of colour `kc` and a slider of colour `sc` on opposite sides of square `x` along a random line -/
def lineMotif (r : Rng) (b : List Nat) (x kc sc : Nat) : Rng × List Nat :=
  let (r, d) := r.pick [((1 : Int), (0 : Int)), (-1, 0), (0, 1), (0, -1), (1, 1), (1, -1), (-1, 1), (-1, -1)]
  let (r, k1) := r.below 4
  let (r, k2) := r.below 4
  let fx := Spec.fileI x; let rx := Spec.rankI x
  let kf := fx + d.1 * (k1 + 1); let kr := rx + d.2 * (k1 + 1)
  let sf := fx - d.1 * (k2 + 1); let sr := rx - d.2 * (k2 + 1)
  if Spec.onBoard kf kr && Spec.onBoard sf sr then
    let diag := d.1 ≠ 0 && d.2 ≠ 0
    let (r, q) := r.below 3
    let kind := if q = 0 then 5 else if diag then 3 else 4
    -- remove an existing king of that colour so the motif's king is the only one
    let b := b.map (fun pc => if pc = Spec.mkPc kc 6 then 0 else pc)
    let b := putPiece b (Spec.sqOf kf kr) (Spec.mkPc kc 6)
    (r, putPiece b (Spec.sqOf sf sr) (Spec.mkPc sc kind))
  else (r, b)

def labEp (r : Rng) : Rng × Spec.SPos :=
  -- white to move version; mirrored afterwards for black
  let (r, f) := r.below 8
  let pushed := 32 + f           -- black pawn on rank 5
  let ep := 40 + f
  let b := emptyBoard.set pushed 7
  -- focus = 0: the motif "king on the rank of the two pawns, enemy rook or queen at the far end of it, one capturer, and a second,
  -- unrelated pin against the same king" is forced instead of left to the coincidence of four independent draws
  let (r, focus) := r.below 3
  let (r, which0) := r.below 3     -- 0: left capturer, 1: right, 2: both
  let which := if focus = 0 then which0 % 2 else which0
  let b := if (which = 0 ∨ which = 2) ∧ f > 0 then b.set (pushed - 1) 1 else b
  let b := if (which = 1 ∨ which = 2) ∧ f < 7 then b.set (pushed + 1) 1 else b
  -- kings: sometimes on the fifth rank (rank discovery), otherwise anywhere
  let (r, kr0) := r.below 4
  let kr := if focus = 0 then 0 else kr0
  let (r, ks) := r.below 64
  -- kr = 3: the king stands where the pushed pawn attacks it — the double push gave check and capturing the checker en passant is
  -- one of the ways out (the check-evasion masks of the generator must let that capture through)
  let wk := if kr = 0 then 32 + ks % 8
            else if kr = 3 then (if ks % 2 = 0 ∧ f > 0 then pushed - 9 else if f < 7 then pushed - 7 else pushed - 9)
            else ks
  let b := putPiece b wk 6
  let (r, bk) := r.below 64
  let b := putPiece b bk 12
  -- line motifs through the pushed pawn / a capturer / the ep square: discovered checks and pins
  let (r, mot) := r.below 4
  let (r, x) := r.pick [pushed, pushed, ep, if f > 0 then pushed - 1 else pushed + 1, if f < 7 then pushed + 1 else pushed - 1]
  let (r, b) :=
    if mot = 0 then lineMotif r b x 1 0          -- black king, white slider: discovered check by the capture
    else if mot = 1 then lineMotif r b x 0 1     -- white king, black slider: pin / illegal capture
    else (r, b)
  -- with the king on the rank of the two pawns: often an enemy rook or queen at the far end of that rank (the classical illegal capture)
  let (r, ra0) := r.below 2
  let ra := if focus = 0 then 0 else ra0
  let b := if kr = 0 ∧ ra = 0 then
             (let kf := (Spec.findKing b 0) % 8
              let far := if kf < f then 39 else 32
              if Spec.pcAt b far = 0 then putPiece b far (if ks % 3 = 0 then 11 else 10) else b)
           else b
  -- a second, unrelated pin of an own piece against the same king (pin lists with more than one entry while en passant is possible)
  let (r, cp0) := r.below 2
  let cp := if focus = 0 then 0 else cp0
  let (r, cd) := r.pick [((0 : Int), (1 : Int)), (1, 1), (-1, 1), (0, -1), (1, -1), (-1, -1), (1, 0), (-1, 0)]
  let (r, c1) := r.below 2
  let (r, c2) := r.below 3
  let b :=
    if cp = 0 then
      (let wkq := Spec.findKing b 0
       let f1 := Spec.fileI wkq + cd.1 * (c1 + 1); let r1 := Spec.rankI wkq + cd.2 * (c1 + 1)
       let f2 := Spec.fileI wkq + cd.1 * (c1 + c2 + 2); let r2 := Spec.rankI wkq + cd.2 * (c1 + c2 + 2)
       if wkq < 64 && Spec.onBoard f1 r1 && Spec.onBoard f2 r2 && Spec.pcAt b (Spec.sqOf f1 r1) = 0 && Spec.pcAt b (Spec.sqOf f2 r2) = 0 then
         (let diag := cd.1 ≠ 0 && cd.2 ≠ 0
          let b := putPiece b (Spec.sqOf f1 r1) (if diag then 3 else 4)
          putPiece b (Spec.sqOf f2 r2) (if diag then 9 else 10))
       else b)
    else b
  let (r, n0) := r.below 4
  let n := if focus = 0 then n0 % 2 else n0
  let (r, b) := sprinkle r b n [9, 10, 11, 9, 10, 11, 3, 4, 5, 2, 8, 1, 7]
  (r, { board := b, side := 0, castling := 0, ep := ep, halfmove := 0, fullmove := 20 })

/-- SAN disambiguation lab: three or four like pieces of the mover that all attack one square -/
def labSan (r : Rng) : Rng × Spec.SPos :=
  let (r, t) := r.below 64
  let (r, kind) := r.pick [2, 2, 3, 4, 4, 5, 5]
  let origins : List Nat := (List.range 64).filter (fun s =>
    s ≠ t && (
      let df := (Spec.fileI s - Spec.fileI t).natAbs; let dr := (Spec.rankI s - Spec.rankI t).natAbs
      if kind = 2 then (df = 1 ∧ dr = 2) ∨ (df = 2 ∧ dr = 1)
      else if kind = 3 then df = dr
      else if kind = 4 then df = 0 ∨ dr = 0
      else df = dr ∨ df = 0 ∨ dr = 0))
  let (r, n) := r.below 3
  let (r, b) := (List.range (n + 2)).foldl (fun (st : Rng × List Nat) _ =>
    let (r, o) := st.1.pick origins; (r, putPiece st.2 o kind)) (r, emptyBoard)
  let (r, tp) := r.pick [0, 0, 7, 8, 10]
  let b := if tp ≠ 0 ∧ ¬ (tp = 7 ∧ (t < 8 ∨ t ≥ 56)) then putPiece b t tp else b
  let (r, wk) := r.below 64
  let b := putPiece b wk 6
  let (r, bk) := r.below 64
  let b := putPiece b bk 12
  let (r, m) := r.below 3
  let (r, b) := sprinkle r b m [9, 10, 11, 8, 7, 1]
  (r, { board := b, side := 0, castling := 0, ep := 64, halfmove := 2, fullmove := 33 })

def mirrorPos (p : Spec.SPos) : Spec.SPos :=
  let b := (List.range 64).map (fun s =>
    let pc := Spec.pcAt p.board ((7 - s / 8) * 8 + s % 8)
    if pc = 0 then 0 else if pc < 7 then pc + 6 else pc - 6)
  { board := b, side := 1 - p.side,
    castling := ((p.castling &&& 3) <<< 2) ||| ((p.castling >>> 2) &&& 3),
    ep := if p.ep = 64 then 64 else (7 - p.ep / 8) * 8 + p.ep % 8, halfmove := p.halfmove, fullmove := p.fullmove }

/-- add pieces of code `pc` on random empty squares until the board holds `want` of them (at most 200 draws) -/
def fillTo (r : Rng) (b : List Nat) (pc want : Nat) : Rng × List Nat :=
  (List.range 200).foldl (fun (st : Rng × List Nat) _ =>
    if Spec.count st.2 pc ≥ want then st
    else
      let (r, sq) := st.1.below 64
      (r, putPiece st.2 sq pc)) (r, b)

/-- the piece-list boundary: nine knights, bishops or rooks and ONE pawn about to promote — an under-promotion makes the
    tenth piece of that kind (the capacity of a piece list); kings placed last -/
def labTenth (r : Rng) : Rng × Spec.SPos :=
  let (r, f) := r.below 8
  let b := emptyBoard.set (48 + f) 1
  let (r, kind) := r.pick [2, 3, 4]
  let (r, b) := fillTo r b kind 9
  let (r, wk) := r.below 48
  let b := putPiece b wk 6
  -- the black king on an empty square that none of the many white pieces attacks (first of 40 draws that qualifies)
  let (r, bk) := (List.range 40).foldl (fun (st : Rng × Nat) _ =>
    if st.2 < 64 then st
    else
      let (r, sq) := st.1.below 64
      if Spec.pcAt b sq = 0 && !Spec.attacked (b.set sq 12) sq 0 then (r, sq) else (r, 64)) (r, 64)
  let b := if bk < 64 then putPiece b bk 12 else b
  let (r, m) := r.below 3
  let (r, b) := sprinkle r b m [9, 10, 11, 8, 7]
  -- White (the promoting side) to move; genLabLoop mirrors half of them so that Black's lists reach the boundary too
  (r, { board := b, side := 0, castling := 0, ep := 64, halfmove := 1, fullmove := 40 })

def labPromo (r : Rng) : Rng × Spec.SPos :=
  let (r, n) := r.below 3
  let (r, b) := (List.range (n + 1)).foldl (fun (st : Rng × List Nat) _ =>
    let (r, f) := st.1.below 8; (r, putPiece st.2 (48 + f) 1)) (r, emptyBoard)
  let (r, b) := (List.range 3).foldl (fun (st : Rng × List Nat) _ =>
    let (r, f) := st.1.below 8
    let (r, pc) := st.1.pick [8, 9, 10, 11, 0, 0]
    (r, if pc = 0 then st.2 else putPiece st.2 (56 + f) pc)) (r, b)
  let (r, wk) := r.below 48
  let b := putPiece b wk 6
  let (r, bk) := r.below 64
  let b := putPiece b bk 12
  -- own pieces of the promotable kinds are already on the board (a promotion then adds a second one to that piece
  -- list) and enemy pieces that may capture either of them
  let (r, m) := r.below 7
  let (r, b) := sprinkle r b m [5, 4, 3, 2, 5, 4, 9, 10, 11, 8, 7, 11, 10]
  -- often the black king and a white slider stand on opposite sides of a promoting pawn: the promotion (also an
  -- under-promotion, also a capture) uncovers a check that the new piece itself does not give
  let (r, disc) := r.below 2
  let pawnSqs := (List.range 8).filter (fun f => Spec.pcAt b (48 + f) = 1)
  let (r, b) :=
    if disc = 0 ∧ !pawnSqs.isEmpty then
      let (r, f) := r.pick pawnSqs
      lineMotif r b (48 + f) 1 0
    else (r, b)
  (r, { board := b, side := 0, castling := 0, ep := 64, halfmove := 1, fullmove := 40 })

def labSparse (r : Rng) : Rng × Spec.SPos :=
  let (r, wk) := r.below 64
  let b := emptyBoard.set wk 6
  let (r, bk) := r.below 64
  let b := putPiece b bk 12
  let (r, n) := r.below 9
  let (r, b) := sprinkle r b (n + 1) [1, 2, 3, 4, 5, 7, 8, 9, 10, 11, 3, 4, 5, 9, 10, 11, 2, 8]
  let (r, side) := r.below 2
  (r, { board := b, side := side, castling := 0, ep := 64, halfmove := 0, fullmove := 30 })

/-- a reversible four-move shuffle (y, x, y⁻¹, x⁻¹) from `p` if the spec allows it: returns the uci strings -/
def shuffleFrom (r : Rng) (p : Spec.SPos) : Rng × List String :=
  let quiet (q : Spec.SPos) (m : Spec.SMove) : Bool :=
    !Spec.isCaptureMove q m && Spec.kindOfPc (Spec.pcAt q.board m.src) ≠ 1 && m.promo = 0 && !Spec.isCastle q.board m &&
    Spec.kindOfPc (Spec.pcAt q.board m.src) ≠ 6 && Spec.kindOfPc (Spec.pcAt q.board m.src) ≠ 4
  let ys := (Spec.legalMoves p).filter (quiet p)
  match ys with
  | [] => (r, [])
  | _ =>
    let (r, y) := r.pick ys
    let p1 := Spec.apply p y
    let xs := (Spec.legalMoves p1).filter (quiet p1)
    match xs with
    | [] => (r, [])
    | _ =>
      let (r, x) := r.pick xs
      let p2 := Spec.apply p1 x
      let yb : Spec.SMove := ⟨y.dst, y.src, 0⟩
      if !(Spec.legalMoves p2).contains yb then (r, []) else
      let p3 := Spec.apply p2 yb
      let xb : Spec.SMove := ⟨x.dst, x.src, 0⟩
      if !(Spec.legalMoves p3).contains xb then (r, []) else
      (r, [Spec.uciOf y, Spec.uciOf x, Spec.uciOf yb, Spec.uciOf xb])

partial def genLabLoop (r : Rng) (want : Nat) (tries : Nat) (everyMove : Bool) : IO Unit := do
  if want = 0 ∨ tries = 0 then return ()
  let (r, fam) := r.below 13
  let (r, p) :=
    if fam = 12 then (let (r, p) := labTenth r; let (r, m) := r.below 2; (r, if m = 0 then p else mirrorPos p))
    else if fam ≥ 10 then (let (r, p) := labSan r; let (r, m) := r.below 2; (r, if m = 0 then p else mirrorPos p))
    else if fam < 3 then labCastling r
    else if fam < 6 then (let (r, p) := labEp r; let (r, m) := r.below 2; (r, if m = 0 then p else mirrorPos p))
    else if fam < 8 then (let (r, p) := labPromo r; let (r, m) := r.below 2; (r, if m = 0 then p else mirrorPos p))
    else labSparse r
  if Spec.wf p then
    IO.println ("pos " ++ Spec.toFen p)
    IO.println "moves"
    let ms := Spec.legalMoves p
    let mut rr := r
    for m in ms do
      let (r2, k) := rr.below 3
      rr := r2
      IO.println ("do " ++ Spec.uciOf m)
      if everyMove ∨ k = 0 then IO.println "moves"
      -- second ply: all capturing replies (at most 4) and two random ones, each done and undone
      let p1 := Spec.apply p m
      let rs := Spec.legalMoves p1
      let special := m.promo ≠ 0 ∨ Spec.isCaptureMove p m ∨ Spec.isCastle p.board m
      if special ∨ k = 1 then
        let caps := (rs.filter (Spec.isCaptureMove p1)).take 4
        let (r3, a) := rr.pick (if rs.isEmpty then [m] else rs)
        rr := r3
        for q in (if rs.isEmpty then [] else a :: caps) do
          IO.println ("do " ++ Spec.uciOf q)
          IO.println "undo"
      -- repetition motif: after a capture/special move, shuffle back and forth twice
      if (special ∧ k = 2) ∨ (Spec.isCaptureMove p m ∧ (m.dst = 0 ∨ m.dst = 7 ∨ m.dst = 56 ∨ m.dst = 63)) then
        let (r4, sh) := shuffleFrom rr p1
        rr := r4
        if !sh.isEmpty then
          for u in sh ++ sh do IO.println ("do " ++ u)
          for _ in sh ++ sh do IO.println "undo"
      IO.println "undo"
    genLabLoop rr (want - 1) (tries - 1) everyMove
  else genLabLoop r want (tries - 1) everyMove

def genLab (seed n : Nat) (everyMove : Bool) : IO Unit := do
  IO.println s!"ztab {seed}"
  genLabLoop ⟨UInt64.ofNat (seed * 104729 + 7)⟩ n (n * 40) everyMove

/-- positions with a forced mate in 1 or 2 (decided by the spec's exhaustive solver), for C08 -/
partial def genMatesLoop (r : Rng) (want tries : Nat) : IO Unit := do
  if want = 0 ∨ tries = 0 then return ()
  let (r, wk) := r.below 64
  let b := emptyBoard.set wk 6
  let (r, bk) := r.below 64
  let b := putPiece b bk 12
  let (r, n) := r.below 4
  let (r, b) := sprinkle r b (n + 2) [5, 4, 4, 5, 3, 2, 1]
  let (r, m) := r.below 4
  let (r, b) := sprinkle r b m [7, 7, 8, 9, 10, 7]
  let (r, flip) := r.below 2
  let p0 : Spec.SPos := { board := b, side := 0, castling := 0, ep := 64, halfmove := 0, fullmove := 30 }
  let p := if flip = 0 then p0 else mirrorPos p0
  if Spec.wf p ∧ !(Spec.legalMoves p).isEmpty then
    let m1 := !(Spec.mateInOneMoves p).isEmpty
    let m2 := if m1 then false else (Spec.forcedMate p 2 30000) == some true
    if m1 ∨ m2 then
      IO.println ((if m1 then "1 " else "2 ") ++ Spec.toFen p)
      genMatesLoop r (want - 1) (tries - 1)
    else genMatesLoop r want (tries - 1)
  else genMatesLoop r want (tries - 1)

def readLines (path : String) : IO (Array String) := do
  let txt ← IO.FS.readFile path
  return (txt.splitOn "\n").toArray.filter (fun l => l.trimAscii.toString ≠ "" ∧ !l.startsWith "#")

def main (args : List String) : IO Unit := do
  match args with
  | ["run"] =>
    let h ← IO.getStdin
    let T := mkZTable 0
    let mp := ofFen T startFen
    runLoop h { T := T, mp := mp, mstack := [], ss := { cur := Spec.ofFen startFen, past := [] }, sstack := [], x := {} }
  | ["accept"] =>
    let h ← IO.getStdin
    acceptLoop h none
  | ["gen", "play", seed, ngames, maxPlies, detailEvery, fenfile] =>
    let fens ← readLines fenfile
    genPlay seed.toNat! ngames.toNat! maxPlies.toNat! detailEvery.toNat! fens
  | ["kpkranks"] =>
    -- certificate data for C12: per (stm, pawn square) one number holding 64*64 six-bit ranks (index wk*64+bk)
    let rk := Spec.KPK.solveRanks ()
    IO.println "-- GENERATED by `leandrv kpkranks` from Spec.KPK.solveRanks (a function of the rules only). Certificate data: its"
    IO.println "-- correctness is not assumed anywhere — Props/C12gen re-checks every entry in the kernel."
    IO.println "namespace Chess.Spec.KPK"
    IO.println "def rankChunks : List Nat := ["
    let mut first := true
    let mut maxr := 0
    for stm in [0:2] do
      for wp in [8:56] do
        let mut v : Nat := 0
        for wk in [0:64] do
          for bk in [0:64] do
            let r := rk.getD (Spec.KPK.idx { stm := stm, wk := wk, wp := wp, bk := bk }) 0
            if r > maxr then maxr := r
            v := v ||| (r <<< (6 * (wk * 64 + bk)))
        IO.println ((if first then "  " else "  ,") ++ "0x" ++ String.ofList (Nat.toDigits 16 v))
        first := false
    IO.println "]"
    IO.println s!"def maxRank : Nat := {maxr}"
    IO.println "end Chess.Spec.KPK"
  | ["gen", "mates", seed, n] => genMatesLoop ⟨UInt64.ofNat (seed.toNat! * 31337 + 5)⟩ n.toNat! (n.toNat! * 400)
  | ["gen", "lab", seed, n] => genLab seed.toNat! n.toNat! false
  | ["gen", "labfull", seed, n] => genLab seed.toNat! n.toNat! true
  | "gen" :: rest => genExtra rest
  | _ => IO.eprintln "usage: leandrv run | gen play <seed> <ngames> <maxplies> <detailEvery> <fenfile> | gen <profile> …"
