/-
  DriverSearch.lean — `leandrv accept`: reads the blocks the harness prints for each `go`
  (GO / R / E… / INFO… / BESTMOVE… / END) and prints, per block,
    ACC  … the verdict of the trace acceptor (model side: Model/SearchTrace.lean)
    SPEC … the properties decided directly on the output by the rules specification
           (bestmove legal, every pv legal, one bestmove, depths consecutive and within the limit,
            bestmove among searchmoves, mate announcements checked by the exhaustive mate solver).
-/
import ChessVerif.Model.SearchTrace
import ChessVerif.Spec.Fen
import ChessVerif.Spec.Mate
open Chess

def toInt (s : String) : Int :=
  if s.startsWith "-" then -((s.drop 1).toString.toNat?.getD 0 : Nat) else (s.toNat?.getD 0 : Nat)

def parseEv (ws : List String) : Option Ev :=
  match ws with
  | "E" :: k :: ply :: rest =>
    let ply := ply.toNat?.getD 0
    let a := toInt (rest.getD 0 "0")
    let b := toInt (rest.getD 1 "0")
    match k.toNat?.getD 99 with
    | 0 => some (.enter ply a (b = 1))
    | 1 => some (.exit ply a)
    | 2 => some (.moves ply ((rest.drop 1).map (fun w => w.toNat?.getD 0)))
    | 3 => some (.doMv ply a.toNat)
    | 4 => some (.undoMv ply a.toNat)
    | 5 => some (.nullDo ply)
    | 6 => some (.nullUndo ply)
    | 7 => some (.pvClear ply)
    | 8 => some (.pvSet ply a.toNat)
    | 9 => some (.pvAdd ply a.toNat)
    | 10 => some (.ttCut ply a.toNat b.toNat)
    | 11 => some (.iterStart a.toNat)
    | 12 => some (.iterDone a.toNat b)
    | 13 => some (.bestSet a.toNat)
    | 14 => some (.bestMove a.toNat)
    | 15 => some (.stopSeen ply)
    | 16 => some (.aspiration a b)
    | 17 => some .stopDelivered
    | _ => none
  | _ => none

structure Block where
  fen : String := ""
  goLine : List String := []
  rootMoves : List Nat := []
  events : Array Ev := #[]
  infos : Array (List String) := #[]
  bests : Array String := #[]
  endLine : String := ""

def afterTok (ws : List String) (tok : String) : Option String :=
  match ws.dropWhile (· ≠ tok) with
  | _ :: v :: _ => some v
  | _ => none

def listAfter (ws : List String) (tok : String) : List String := (ws.dropWhile (· ≠ tok)).drop 1

/-- is the line of uci moves playable under the rules from p? -/
def specLineLegal : Spec.SPos → List String → Bool
  | _, [] => true
  | p, u :: us =>
      let m := Spec.moveOfUci u
      (Spec.legalMoves p).contains m && specLineLegal (Spec.apply p m) us

def verdicts (b : Block) : String × String :=
  let root := ofFen T0 b.fen
  let sp := Spec.ofFen b.fen
  -- model side: the acceptor
  let acc := acceptTrace root b.rootMoves b.events.toList
  let accLine := match acc with
    | .ok s =>
        "ACC ok iters=" ++ toString s.iterStarted.reverse ++ " done=" ++ toString s.iterDone.reverse ++
        " best=" ++ toString (s.best.getD 0) ++ " bestgen=" ++ (if s.rootMoves.contains (s.best.getD 0) then "1" else "0") ++
        " pvsModelLegal=" ++ (if s.reportedPVs.all (legalLine root) then "1" else "0") ++
        " maxply=" ++ toString s.maxPly ++ " maxpv=" ++ toString s.maxPvLen ++ " worst=" ++ toString s.worstExit ++
        " expandedAfterStop=" ++ toString s.expandedAfterStop ++ " visitsAfterStop=" ++ toString s.visitsAfterStop ++
        " stopSeen=" ++ (if s.stopSeen then "1" else "0")
    | .error (msg, i) => "ACC reject:" ++ msg ++ "@" ++ toString i
  -- spec side
  let legalU := (Spec.legalMoves sp).map Spec.uciOf
  let best := b.bests.toList.headD "none"
  let bestLegal := legalU.contains best
  let pvs := b.infos.toList.map (fun ws => listAfter ws "pv")
  let pvLegal := pvs.all (specLineLegal sp)
  let depths := b.infos.toList.map (fun ws => ((afterTok ws "depth").getD "0").toNat?.getD 0)
  let depthsOk := depths == (List.range depths.length).map (· + 1)
  let limitDepth := ((afterTok b.goLine "depth").getD "0").toNat?.getD 0
  let inDepth := limitDepth = 0 || depths.all (· ≤ limitDepth)
  let sm := listAfter b.goLine "searchmoves"
  let inSm := sm.isEmpty || sm.contains best
  let stoppedEarly := (afterTok b.goLine "stopvisit").isSome || (afterTok b.goLine "stoppoint").isSome || (afterTok b.goLine "stopinfo").isSome
  -- mate announcement on the final info line
  let mate :=
    match b.infos.toList.getLast? with
    | none => "none"
    | some ws =>
      match (ws.dropWhile (· ≠ "score")) with
      | _ :: "mate" :: y :: _ =>
          let yi := toInt y
          if yi = 0 then "bad:mate0"
          else if yi.natAbs > 3 then "unchecked:" ++ y
          else
            let r := if yi > 0 then Spec.forcedMate sp yi.natAbs 400000 else Spec.matedWithin sp yi.natAbs 400000
            match r with
            | some true => "ok:" ++ y
            | some false => "bad:" ++ y
            | none => "unknown:" ++ y
      | _ => "none"
  -- mate in one must be played by any search that completed an iteration (searchmoves may exclude it)
  let m1 := (Spec.mateInOneMoves sp).map Spec.uciOf
  let m1ok :=
    if m1.isEmpty || b.infos.isEmpty then "na"
    else if !sm.isEmpty && !(m1.any (sm.contains ·)) then "na"
    else if m1.contains best then "ok" else (if stoppedEarly then "na" else "bad")
  let specLine := "SPEC bestlegal=" ++ (if bestLegal then "1" else "0") ++ " pvlegal=" ++ (if pvLegal then "1" else "0") ++
    " onebest=" ++ (if b.bests.size = 1 then "1" else "0") ++ " depthsok=" ++ (if depthsOk then "1" else "0") ++
    " indepth=" ++ (if inDepth then "1" else "0") ++ " insearchmoves=" ++ (if inSm then "1" else "0") ++
    " mate=" ++ mate ++ " mate1=" ++ m1ok ++ " hasmoves=" ++ (if legalU.isEmpty then "0" else "1") ++
    " lastdepth=" ++ toString (depths.getLast?.getD 0)
  (accLine, specLine)

partial def acceptLoop (h : IO.FS.Stream) (cur : Option Block) : IO Unit := do
  let line ← h.getLine
  if line.isEmpty then
    return ()
  let line := String.ofList (line.toList.reverse.dropWhile (fun c => c = '\n' || c = '\r')).reverse
  let ws := Spec.words line
  match ws with
  | "GO" :: rest =>
      let fenWs := rest.takeWhile (· ≠ "|")
      let go := (rest.dropWhile (· ≠ "|")).drop 1
      acceptLoop h (some { fen := String.intercalate " " fenWs, goLine := go })
  | "R" :: rest =>
      acceptLoop h (cur.map (fun b => { b with rootMoves := rest.map (fun w => w.toNat?.getD 0) }))
  | "E" :: _ =>
      match parseEv ws with
      | some e => acceptLoop h (cur.map (fun b => { b with events := b.events.push e }))
      | none => acceptLoop h cur
  | "INFO" :: rest => acceptLoop h (cur.map (fun b => { b with infos := b.infos.push rest }))
  | "BESTMOVE" :: u :: _ => acceptLoop h (cur.map (fun b => { b with bests := b.bests.push u }))
  | "END" :: _ =>
      match cur with
      | some b =>
          let (a, s) := verdicts { b with endLine := line }
          IO.println a
          IO.println s
          acceptLoop h none
      | none => acceptLoop h none
  | _ => acceptLoop h cur
