/-
  Lemmas/EvalSide.lean — bounds of one pawn, of a side's pieces and pawns, and of the tapered combination.
-/
import ChessVerif.Lemmas.EvalPieces
import ChessVerif.Lemmas.EvalCounts
namespace Chess

def connB : Int := lbnd Gen.CONNECTED_PAWNS_BONUS * 2 + 640
def pawnB : Int := (pieceValue PAWN).bnd + PAWN_CONTROL_CENTER_BONUS.bnd * 64 + DOUBLE_PAWN_PENALTY.bnd +
  max connB (max ISOLATED_PAWN_PENALTY.bnd (max BACKWARD_PAWN_PENALTY.bnd 0)) + PASSED_PAWN_BONUS.bnd * lbnd Gen.PASSED_PAWN_RANK_WEIGHT

theorem conn_within (r : Nat) (c1 c2 : Prop) [Decidable c1] [Decidable c2] (x : BB) :
    (Sc.ofV (connectedPawnsBonus r * (1 + (if c1 then 1 else 0) - (if c2 then 1 else 0))) + Sc.ofV (10 * pc x)).within connB := by
  unfold connB
  apply within_add
  · have hb := getD_lbnd Gen.CONNECTED_PAWNS_BONUS r
    have hm := mul_bound_abs (connectedPawnsBonus r) (lbnd Gen.CONNECTED_PAWNS_BONUS) (1 + (if c1 then 1 else 0) - (if c2 then 1 else 0)) 2
      hb.1 hb.2 (by split <;> split <;> omega) (by split <;> split <;> omega)
    exact within_ofV _ _ hm.1 hm.2
  · have := pc_bounds x
    exact within_ofV _ _ (by omega) (by omega)

theorem pawnTerm_within (b : BBs) (side sq : Nat) : (pawnTerm b side sq).within pawnB := by
  unfold pawnTerm pawnB
  simp only []
  refine within_add (within_add (within_add (within_add (within_bnd _) (within_scale_pc (within_bnd _) _)) (within_opt _ (within_bnd _))) ?_) ?_
  · exact within_ite _ (conn_within _ _ _ _) (within_ite _ (within_bnd _) (within_ite _ (within_bnd _) within_zero))
  · apply within_opt
    have hb := getD_lbnd Gen.PASSED_PAWN_RANK_WEIGHT (if side = 0 then rankOf sq else 7 - rankOf sq)
    exact within_scale_abs (within_bnd _) _ _ hb.1 hb.2


theorem pawnB_nonneg : 0 ≤ pawnB := by
  unfold pawnB connB
  have := bnd_nonneg (pieceValue PAWN); have := bnd_nonneg PAWN_CONTROL_CENTER_BONUS; have := bnd_nonneg DOUBLE_PAWN_PENALTY
  have := bnd_nonneg PASSED_PAWN_BONUS; have := lbnd_nonneg Gen.PASSED_PAWN_RANK_WEIGHT
  have := Int.mul_nonneg (bnd_nonneg PASSED_PAWN_BONUS) (lbnd_nonneg Gen.PASSED_PAWN_RANK_WEIGHT)
  omega
theorem knightB_nonneg : 0 ≤ knightB := by
  unfold knightB
  have := bnd_nonneg (pieceValue KNIGHT); have := bnd_nonneg SAFE_KNIGHT; have := bnd_nonneg (controlSpace KNIGHT)
  have := bnd_nonneg CONTROL_CENTER_KNIGHT; have := bnd_nonneg (kingProtectorPenalty KNIGHT); have := bnd_nonneg (kingAttackerPenalty KNIGHT)
  have := bnd_nonneg (mobilityBonus KNIGHT); have := bnd_nonneg OUTPOST_KNIGHT_BONUS
  omega
theorem bishopB_nonneg : 0 ≤ bishopB := by
  unfold bishopB
  have := bnd_nonneg (pieceValue BISHOP); have := bnd_nonneg (controlSpace BISHOP); have := bnd_nonneg (mobilityBonus BISHOP)
  have := bnd_nonneg (kingProtectorPenalty BISHOP); have := bnd_nonneg (kingAttackerPenalty BISHOP)
  have := bnd_nonneg PAWNS_ON_SAME_COLOR_AS_BISHOP_PENALTY; have := bnd_nonneg OUTPOST_BISHOP_BONUS
  omega
theorem rookB_nonneg : 0 ≤ rookB := by
  unfold rookB
  have := bnd_nonneg (pieceValue ROOK); have := bnd_nonneg (controlSpace ROOK); have := bnd_nonneg ROOK_OPEN_FILE_BONUS
  have := bnd_nonneg ROOK_SEMIOPEN_FILE_BONUS; have := bnd_nonneg (⟨10, 5⟩ : Sc); have := bnd_nonneg (mobilityBonus ROOK)
  have := bnd_nonneg TRAPPED_ROOK_PENALTY
  omega
theorem queenB_nonneg : 0 ≤ queenB := by
  unfold queenB
  have := bnd_nonneg (pieceValue QUEEN); have := bnd_nonneg (controlSpace QUEEN); have := bnd_nonneg VULNERABLE_QUEEN_PENALTY
  have := bnd_nonneg (mobilityBonus QUEEN)
  omega

/-- the bound of a whole side's piece score, given how many pieces of each kind it has -/
def piecesB (nN nB nR nQ : Nat) : Int := nN * knightB + (nB * bishopB + BISHOP_PAIR_BONUS.bnd) + nR * rookB + nQ * queenB + kingB


theorem scorePieces_within (b : BBs) (board : List Nat) (castling side : Nat) (own opp : Setup) (nN nB nR nQ : Nat)
    (hN : (bitsOf (b.ck side KNIGHT)).length ≤ nN) (hB : (bitsOf (b.ck side BISHOP)).length ≤ nB)
    (hR : (bitsOf (b.ck side ROOK)).length ≤ nR) (hQ : (bitsOf (b.ck side QUEEN)).length ≤ nQ) :
    (scorePiecesForSide b board castling side own opp).within (piecesB nN nB nR nQ) := by
  unfold scorePiecesForSide piecesB
  simp only []
  have hk := kingSq_le board side
  have hok := kingSq_le board (1 - side)
  refine within_add (within_add (within_add (within_add ?_ (within_add ?_ (within_opt _ (within_bnd _)))) ?_) ?_) (scoreKing_within _ _ _ _ _ _)
  · exact within_foldl_n _ (fun sq => knightScore b board side own opp (kingSq board side) (kingSq board (1 - side)) sq) _ knightB_nonneg nN hN
      (fun x hx => knightScore_within _ _ _ _ _ _ _ _ hk hok (by have := ((mem_bitsOf _ x).1 hx).1; omega))
  · exact within_foldl_n _ (fun sq => bishopScore b board side own opp (kingSq board side) (kingSq board (1 - side)) sq) _ bishopB_nonneg nB hB
      (fun x hx => bishopScore_within _ _ _ _ _ _ _ _ hk hok (by have := ((mem_bitsOf _ x).1 hx).1; omega))
  · exact within_foldl_n _ (fun sq => rookScore b board castling side own opp (kingSq board side) sq) _ rookB_nonneg nR hR
      (fun x _ => rookScore_within _ _ _ _ _ _ _ _)
  · exact within_foldl_n _ (fun sq => queenScore b board side own opp sq) _ queenB_nonneg nQ hQ
      (fun x _ => queenScore_within _ _ _ _ _ _)

theorem scorePawns_within (b : BBs) (side : Nat) (nP : Nat) (hP : (bitsOf (b.ck side PAWN)).length ≤ nP) :
    (scorePawnsForSide b side).within (nP * pawnB) := by
  unfold scorePawnsForSide
  exact within_foldl_n _ (fun sq => pawnTerm b side sq) _ pawnB_nonneg nP hP (fun x _ => pawnTerm_within _ _ _)

-- the tapered combination ---------------------------------------------------------------------------------
theorem tdiv_bound (x B : Int) (h1 : -(24 * B) ≤ x) (h2 : x ≤ 24 * B) : -B ≤ Int.tdiv x 24 ∧ Int.tdiv x 24 ≤ B := by
  by_cases hx : 0 ≤ x
  · rw [Int.tdiv_eq_ediv_of_nonneg hx]; omega
  · have e : x = -(-x) := by omega
    rw [e, Int.neg_tdiv, Int.tdiv_eq_ediv_of_nonneg (by omega)]
    omega

theorem combine_bound (s : Sc) (B w : Int) (hs : s.within B) (hw0 : 0 ≤ w) (hw : w ≤ 24) : -B ≤ combine s w ∧ combine s w ≤ B := by
  unfold combine MAX_PIECE_WEIGHTS
  unfold Sc.within at hs
  have m1 := mul_bound s.mg B w w hs.1 hs.2.1 hw0 (Int.le_refl _)
  have m2 := mul_bound s.eg B (24 - w) (24 - w) hs.2.2.1 hs.2.2.2 (by omega) (Int.le_refl _)
  have e : B * (24 - w) = 24 * B - B * w := by rw [Int.mul_sub, Int.mul_comm B 24]
  apply tdiv_bound <;> omega

theorem phase_bounds (board : List Nat) : 0 ≤ gamePhaseWeight board ∧ gamePhaseWeight board ≤ 24 := by
  unfold gamePhaseWeight MAX_PIECE_WEIGHTS
  simp only []
  omega

end Chess
