/-
  Lemmas/SpecNodup.lean — the rules' move lists contain no move twice (so that counting them, as perft does, counts moves).
-/
import ChessVerif.Lemmas.WfStep
namespace Chess

theorem sqOf_inj (f r f' r' : Int) (h : Spec.onBoard f r = true) (h' : Spec.onBoard f' r' = true) (e : Spec.sqOf f r = Spec.sqOf f' r') :
    f = f' ∧ r = r' := by
  obtain ⟨a1, a2, _⟩ := rankI_sqOf f r h
  obtain ⟨b1, b2, _⟩ := rankI_sqOf f' r' h'
  rw [e] at a1 a2
  exact ⟨by rw [← a2, b2], by rw [← a1, b1]⟩

/-- the eight compass directions -/
def IsDir (d : Int × Int) : Prop := (d.1 = -1 ∨ d.1 = 0 ∨ d.1 = 1) ∧ (d.2 = -1 ∨ d.2 = 0 ∨ d.2 = 1) ∧ ¬ (d.1 = 0 ∧ d.2 = 0)

theorem slide_nodup (b : List Nat) (c : Nat) (d : Int × Int) (hd : IsDir d) (n : Nat) (f r : Int) : (Spec.slide b c d n f r).Nodup := by
  induction n generalizing f r with
  | zero => unfold Spec.slide; exact List.Pairwise.nil
  | succ n ih =>
    unfold Spec.slide
    simp only []
    by_cases hon : Spec.onBoard (f + d.1) (r + d.2) = true
    · rw [if_pos hon]
      by_cases h0 : Spec.pcAt b (Spec.sqOf (f + d.1) (r + d.2)) = 0
      · rw [if_pos h0]
        apply List.Pairwise.cons _ (ih _ _)
        intro t ht e
        obtain ⟨j, j1, _, hon', ht', _⟩ := mem_slide b c d n _ _ t ht
        rw [ht'] at e
        obtain ⟨e1, e2⟩ := sqOf_inj _ _ _ _ hon hon' e
        obtain ⟨d1, d2, d0⟩ := hd
        have hj : (1 : Int) ≤ j := by exact_mod_cast j1
        rcases d1 with a | a | a <;> rcases d2 with c' | c' | c' <;> rw [a] at e1 <;> rw [c'] at e2 <;> rw [a, c'] at d0 <;> simp at d0 <;> omega
      · rw [if_neg h0]
        split
        · exact List.pairwise_singleton _ _
        · exact List.Pairwise.nil
    · rw [if_neg hon]; exact List.Pairwise.nil

end Chess

namespace Chess

theorem dirs_isDir (d : Int × Int) (h : d ∈ Spec.diagDirs ++ Spec.orthoDirs) : IsDir d := by
  simp [Spec.diagDirs, Spec.orthoDirs] at h
  rcases h with rfl | rfl | rfl | rfl | rfl | rfl | rfl | rfl <;> simp [IsDir]

theorem slideMoves_nodup (s : Spec.SPos) (sq : Nat) (dirs : List (Int × Int)) (hnd : dirs.Nodup) (hdir : ∀ d, d ∈ dirs → IsDir d) :
    (Spec.slideMoves s sq dirs).Nodup := by
  unfold Spec.slideMoves
  apply nodup_flatMap _ _ hnd
  · intro d hd
    apply nodup_map_of_inj _ _ (slide_nodup _ _ d (hdir d hd) _ _ _)
    intro a _ b _ e
    injection e
  · intro d hd d' hd' hne x hx y hy e
    simp only [List.mem_map] at hx hy
    obtain ⟨t, ht, rfl⟩ := hx
    obtain ⟨t', ht', rfl⟩ := hy
    have ett : t = t' := by injection e
    obtain ⟨j, j1, _, hon, htv, _⟩ := mem_slide _ _ d _ _ _ t ht
    obtain ⟨j', j1', _, hon', htv', _⟩ := mem_slide _ _ d' _ _ _ t' ht'
    rw [htv, htv'] at ett
    obtain ⟨e1, e2⟩ := sqOf_inj _ _ _ _ hon hon' ett
    obtain ⟨a1, a2, a0⟩ := hdir d hd
    obtain ⟨b1, b2, b0⟩ := hdir d' hd'
    have hj : (1 : Int) ≤ j := by exact_mod_cast j1
    have hj' : (1 : Int) ≤ j' := by exact_mod_cast j1'
    apply hne
    have hd1 : d.1 = d'.1 := by
      rcases a1 with a | a | a <;> rcases b1 with b | b | b <;> rw [a, b] at e1 <;> (try omega) <;> rw [a, b]
    have hd2 : d.2 = d'.2 := by
      rcases a2 with a | a | a <;> rcases b2 with b | b | b <;> rw [a, b] at e2 <;> (try omega) <;> rw [a, b]
    exact Prod.ext hd1 hd2

theorem stepMoves_nodup (s : Spec.SPos) (sq : Nat) (offs : List (Int × Int)) (hnd : offs.Nodup) : (Spec.stepMoves s sq offs).Nodup := by
  unfold Spec.stepMoves
  induction offs with
  | nil => exact List.Pairwise.nil
  | cons d ds ih =>
    have hnd' : List.Pairwise (· ≠ ·) (d :: ds) := hnd
    rw [List.pairwise_cons] at hnd'
    rw [List.filterMap_cons]
    by_cases hc : (Spec.onBoard (Spec.fileI sq + d.1) (Spec.rankI sq + d.2) &&
        !Spec.isOwn (Spec.pcAt s.board (Spec.sqOf (Spec.fileI sq + d.1) (Spec.rankI sq + d.2))) s.side) = true
    · simp only [hc, if_true]
      apply List.Pairwise.cons _ (ih hnd'.2)
      intro y hy e
      rw [List.mem_filterMap] at hy
      obtain ⟨d', hd', hy'⟩ := hy
      by_cases hc' : (Spec.onBoard (Spec.fileI sq + d'.1) (Spec.rankI sq + d'.2) &&
          !Spec.isOwn (Spec.pcAt s.board (Spec.sqOf (Spec.fileI sq + d'.1) (Spec.rankI sq + d'.2))) s.side) = true
      · simp only [hc', if_true, Option.some.injEq] at hy'
        rw [← hy'] at e
        have et : Spec.sqOf (Spec.fileI sq + d.1) (Spec.rankI sq + d.2) = Spec.sqOf (Spec.fileI sq + d'.1) (Spec.rankI sq + d'.2) := by injection e
        simp only [Bool.and_eq_true] at hc hc'
        obtain ⟨e1, e2⟩ := sqOf_inj _ _ _ _ hc.1 hc'.1 et
        exact hnd'.1 d' hd' (Prod.ext (by omega) (by omega))
      · simp only [hc', Bool.false_eq_true, if_false] at hy'
        cases hy'
    · simp only [hc, Bool.false_eq_true, if_false]
      exact ih hnd'.2

end Chess

namespace Chess

theorem mk_nodup (s t : Nat) (last : Int) :
    (if Spec.rankI t = last then Spec.promoKinds.map (fun k => (⟨s, t, k⟩ : Spec.SMove)) else [⟨s, t, 0⟩]).Nodup := by
  split
  · apply nodup_map_of_inj
    · unfold Spec.promoKinds; decide
    · intro a _ b _ e; injection e
  · exact List.pairwise_singleton _ _

theorem mk_dst (s t : Nat) (last : Int) (m : Spec.SMove)
    (h : m ∈ (if Spec.rankI t = last then Spec.promoKinds.map (fun k => (⟨s, t, k⟩ : Spec.SMove)) else [⟨s, t, 0⟩])) : m.dst = t :=
  (mem_mk s t last m h).2.1

theorem pawnMoves_nodup (s : Spec.SPos) (sq : Nat) (hsq : sq < 64) : (Spec.pawnMoves s sq).Nodup := by
  unfold Spec.pawnMoves
  simp only []
  generalize hdr : (if s.side = 0 then (1 : Int) else -1) = dr
  generalize hst : (if s.side = 0 then (1 : Int) else 6) = st
  generalize hla : (if s.side = 0 then (7 : Int) else 0) = la
  have hdr1 : dr = 1 ∨ dr = -1 := by rw [← hdr]; split <;> simp
  have hst1 : (dr = 1 → st = 1) ∧ (dr = -1 → st = 6) := by rw [← hdr, ← hst]; split <;> simp
  have hf : 0 ≤ Spec.fileI sq ∧ Spec.fileI sq < 8 ∧ 0 ≤ Spec.rankI sq ∧ Spec.rankI sq < 8 := by unfold Spec.fileI Spec.rankI; omega
  -- destinations of the three parts
  have d1 : ∀ m, m ∈ (if (Spec.onBoard (Spec.fileI sq) (Spec.rankI sq + dr) && decide (Spec.pcAt s.board (Spec.sqOf (Spec.fileI sq) (Spec.rankI sq + dr)) = 0)) = true
      then (if Spec.rankI (Spec.sqOf (Spec.fileI sq) (Spec.rankI sq + dr)) = la then Spec.promoKinds.map (fun k => (⟨sq, Spec.sqOf (Spec.fileI sq) (Spec.rankI sq + dr), k⟩ : Spec.SMove))
        else [⟨sq, Spec.sqOf (Spec.fileI sq) (Spec.rankI sq + dr), 0⟩]) else []) →
      Spec.onBoard (Spec.fileI sq) (Spec.rankI sq + dr) = true ∧ m.dst = Spec.sqOf (Spec.fileI sq) (Spec.rankI sq + dr) := by
    intro m hm
    split at hm
    · rename_i c; simp only [Bool.and_eq_true] at c; exact ⟨c.1, mk_dst _ _ _ m hm⟩
    · cases hm
  have d2 : ∀ m, m ∈ (if (decide (Spec.rankI sq = st) && decide (Spec.pcAt s.board (Spec.sqOf (Spec.fileI sq) (Spec.rankI sq + dr)) = 0) &&
        decide (Spec.pcAt s.board (Spec.sqOf (Spec.fileI sq) (Spec.rankI sq + 2 * dr)) = 0)) = true then [(⟨sq, Spec.sqOf (Spec.fileI sq) (Spec.rankI sq + 2 * dr), 0⟩ : Spec.SMove)] else []) →
      Spec.onBoard (Spec.fileI sq) (Spec.rankI sq + 2 * dr) = true ∧ m.dst = Spec.sqOf (Spec.fileI sq) (Spec.rankI sq + 2 * dr) := by
    intro m hm
    split at hm
    · rename_i c; simp only [Bool.and_eq_true, decide_eq_true_eq] at c
      rw [List.mem_singleton.1 hm]
      refine ⟨?_, rfl⟩
      unfold Spec.onBoard; simp only [Bool.and_eq_true, decide_eq_true_eq]
      rcases hdr1 with e | e
      · have := hst1.1 e; omega
      · have := hst1.2 e; omega
    · cases hm
  have d3 : ∀ cf, ∀ m, m ∈ (if Spec.onBoard cf (Spec.rankI sq + dr) = true then
        (if Spec.isEnemy (Spec.pcAt s.board (Spec.sqOf cf (Spec.rankI sq + dr))) s.side = true then
          (if Spec.rankI (Spec.sqOf cf (Spec.rankI sq + dr)) = la then Spec.promoKinds.map (fun k => (⟨sq, Spec.sqOf cf (Spec.rankI sq + dr), k⟩ : Spec.SMove))
            else [⟨sq, Spec.sqOf cf (Spec.rankI sq + dr), 0⟩])
         else if (s.ep ≠ 64 && decide (Spec.sqOf cf (Spec.rankI sq + dr) = s.ep)) = true then [(⟨sq, Spec.sqOf cf (Spec.rankI sq + dr), 0⟩ : Spec.SMove)] else [])
      else []) → Spec.onBoard cf (Spec.rankI sq + dr) = true ∧ m.dst = Spec.sqOf cf (Spec.rankI sq + dr) := by
    intro cf m hm
    split at hm
    · rename_i c
      refine ⟨c, ?_⟩
      split at hm
      · exact mk_dst _ _ _ m hm
      · split at hm
        · rw [List.mem_singleton.1 hm]
        · cases hm
    · cases hm
  have n3 : ∀ cf, (if Spec.onBoard cf (Spec.rankI sq + dr) = true then
        (if Spec.isEnemy (Spec.pcAt s.board (Spec.sqOf cf (Spec.rankI sq + dr))) s.side = true then
          (if Spec.rankI (Spec.sqOf cf (Spec.rankI sq + dr)) = la then Spec.promoKinds.map (fun k => (⟨sq, Spec.sqOf cf (Spec.rankI sq + dr), k⟩ : Spec.SMove))
            else [⟨sq, Spec.sqOf cf (Spec.rankI sq + dr), 0⟩])
         else if (s.ep ≠ 64 && decide (Spec.sqOf cf (Spec.rankI sq + dr) = s.ep)) = true then [(⟨sq, Spec.sqOf cf (Spec.rankI sq + dr), 0⟩ : Spec.SMove)] else [])
      else []).Nodup := by
    intro cf
    split
    · split
      · exact mk_nodup _ _ _
      · split
        · exact List.pairwise_singleton _ _
        · exact List.Pairwise.nil
    · exact List.Pairwise.nil
  apply nodup_append'
  · apply nodup_append'
    · split
      · exact mk_nodup _ _ _
      · exact List.Pairwise.nil
    · split
      · exact List.pairwise_singleton _ _
      · exact List.Pairwise.nil
    · intro a ha b hb e
      obtain ⟨o1, e1⟩ := d1 a ha
      obtain ⟨o2, e2⟩ := d2 b hb
      rw [e, e2] at e1
      have := (sqOf_inj _ _ _ _ o2 o1 e1).2
      rcases hdr1 with h | h <;> omega
  · simp only [List.flatMap_cons, List.flatMap_nil, List.append_nil]
    apply nodup_append' _ _ (n3 _) (n3 _)
    intro a ha b hb e
    obtain ⟨o1, e1⟩ := d3 _ a ha
    obtain ⟨o2, e2⟩ := d3 _ b hb
    rw [e, e2] at e1
    have := (sqOf_inj _ _ _ _ o2 o1 e1).1
    omega
  · intro a ha b hb e
    simp only [List.flatMap_cons, List.flatMap_nil, List.append_nil, List.mem_append] at hb
    have hbd : ∃ cf, (cf = Spec.fileI sq - 1 ∨ cf = Spec.fileI sq + 1) ∧ Spec.onBoard cf (Spec.rankI sq + dr) = true ∧ b.dst = Spec.sqOf cf (Spec.rankI sq + dr) := by
      rcases hb with hb | hb
      · obtain ⟨o, e'⟩ := d3 _ b hb; exact ⟨_, Or.inl rfl, o, e'⟩
      · obtain ⟨o, e'⟩ := d3 _ b hb; exact ⟨_, Or.inr rfl, o, e'⟩
    obtain ⟨cf, hcf, o2, e2⟩ := hbd
    rw [List.mem_append] at ha
    rcases ha with ha | ha
    · obtain ⟨o1, e1⟩ := d1 a ha
      rw [e, e2] at e1
      have := (sqOf_inj _ _ _ _ o2 o1 e1).1
      omega
    · obtain ⟨o1, e1⟩ := d2 a ha
      rw [e, e2] at e1
      have := (sqOf_inj _ _ _ _ o2 o1 e1).2
      rcases hdr1 with h | h <;> omega

end Chess

namespace Chess

theorem ite_list_nodup {α : Type} (c : Prop) [Decidable c] (x : α) : (if c then [x] else []).Nodup := by
  split
  · exact List.pairwise_singleton _ _
  · exact List.Pairwise.nil

theorem castleMoves_nodup (s : Spec.SPos) : (Spec.castleMoves s).Nodup := by
  unfold Spec.castleMoves
  simp only []
  generalize (if s.side = 0 then 0 else 56) = r0
  apply nodup_append' _ _ (ite_list_nodup _ _) (ite_list_nodup _ _)
  intro a ha b hb e
  by_cases c1 : (decide (Spec.pcAt s.board (r0 + 4) = Spec.mkPc s.side 6) && decide (s.castling &&& (if s.side = 0 then 1 else 4) ≠ 0) &&
      decide (Spec.pcAt s.board (r0 + 7) = Spec.mkPc s.side 4) && decide (Spec.pcAt s.board (r0 + 5) = 0) && decide (Spec.pcAt s.board (r0 + 6) = 0) &&
      !Spec.attacked s.board (r0 + 4) (1 - s.side) && !Spec.attacked s.board (r0 + 5) (1 - s.side) && !Spec.attacked s.board (r0 + 6) (1 - s.side)) = true
  · rw [if_pos c1] at ha
    by_cases c2 : (decide (Spec.pcAt s.board (r0 + 4) = Spec.mkPc s.side 6) && decide (s.castling &&& (if s.side = 0 then 2 else 8) ≠ 0) &&
        decide (Spec.pcAt s.board r0 = Spec.mkPc s.side 4) && decide (Spec.pcAt s.board (r0 + 1) = 0) && decide (Spec.pcAt s.board (r0 + 2) = 0) &&
        decide (Spec.pcAt s.board (r0 + 3) = 0) &&
        !Spec.attacked s.board (r0 + 4) (1 - s.side) && !Spec.attacked s.board (r0 + 3) (1 - s.side) && !Spec.attacked s.board (r0 + 2) (1 - s.side)) = true
    · rw [if_pos c2] at hb
      rw [List.mem_singleton.1 ha, List.mem_singleton.1 hb] at e
      have : r0 + 6 = r0 + 2 := by injection e
      omega
    · rw [if_neg c2] at hb; cases hb
  · rw [if_neg c1] at ha; cases ha

theorem src_of_square_moves (s : Spec.SPos) (sq : Nat) (m : Spec.SMove)
    (h : m ∈ (if Spec.isOwn (Spec.pcAt s.board sq) s.side = true then
      (match Spec.kindOfPc (Spec.pcAt s.board sq) with
        | 1 => Spec.pawnMoves s sq
        | 2 => Spec.stepMoves s sq Spec.knightOffs
        | 3 => Spec.slideMoves s sq Spec.diagDirs
        | 4 => Spec.slideMoves s sq Spec.orthoDirs
        | 5 => Spec.slideMoves s sq (Spec.diagDirs ++ Spec.orthoDirs)
        | 6 => Spec.stepMoves s sq Spec.kingOffs
        | _ => []) else [])) : m.src = sq := by
  split at h
  · split at h
    · exact (mem_pawnMoves s sq m h).1
    · obtain ⟨_, _, _, hm, _⟩ := mem_stepMoves s sq _ m h; rw [hm]
    · obtain ⟨_, _, _, _, hm⟩ := mem_slideMoves s sq _ m h; rw [hm]
    · obtain ⟨_, _, _, _, hm⟩ := mem_slideMoves s sq _ m h; rw [hm]
    · obtain ⟨_, _, _, _, hm⟩ := mem_slideMoves s sq _ m h; rw [hm]
    · obtain ⟨_, _, _, hm, _⟩ := mem_stepMoves s sq _ m h; rw [hm]
    · cases h
  · cases h

/-- THE RULES LIST NO PSEUDO-LEGAL MOVE TWICE -/
theorem pseudoMoves_nodup (s : Spec.SPos) : (Spec.pseudoMoves s).Nodup := by
  unfold Spec.pseudoMoves
  apply nodup_append'
  · apply nodup_flatMap
    · exact List.nodup_range
    · intro sq hsq
      have hsq64 : sq < 64 := List.mem_range.1 hsq
      simp only []
      split
      · split
        · exact pawnMoves_nodup s sq hsq64
        · exact stepMoves_nodup s sq _ (by unfold Spec.knightOffs; decide)
        · exact slideMoves_nodup s sq _ (by unfold Spec.diagDirs; decide) (fun d hd => dirs_isDir d (List.mem_append_left _ hd))
        · exact slideMoves_nodup s sq _ (by unfold Spec.orthoDirs; decide) (fun d hd => dirs_isDir d (List.mem_append_right _ hd))
        · exact slideMoves_nodup s sq _ (by unfold Spec.diagDirs Spec.orthoDirs; decide) (fun d hd => dirs_isDir d hd)
        · exact stepMoves_nodup s sq _ (by unfold Spec.kingOffs; decide)
        · exact List.Pairwise.nil
      · exact List.Pairwise.nil
    · intro a _ b _ hab x hx y hy e
      have h1 := src_of_square_moves s a x hx
      have h2 := src_of_square_moves s b y hy
      rw [e] at h1
      exact hab (h1.symm.trans h2)
  · exact castleMoves_nodup s
  · -- a castling move is a king move over two files: not among the one-step king moves, and no other piece stands on the king's square
    intro a ha b hb e
    rw [List.mem_flatMap] at ha
    obtain ⟨sq, hsq, ha'⟩ := ha
    have hsq64 : sq < 64 := List.mem_range.1 hsq
    have hsrc := src_of_square_moves s sq a ha'
    obtain ⟨hk6, hcc⟩ := mem_castleMoves s b hb
    have hbsrc : b.src = (if s.side = 0 then 0 else 56) + 4 := by rcases hcc with ⟨rfl, _⟩ | ⟨rfl, _⟩ <;> rfl
    have hbd : b.dst = b.src + 2 ∨ b.dst + 2 = b.src := by rcases hcc with ⟨rfl, _⟩ | ⟨rfl, _⟩ <;> simp <;> omega
    rw [← e] at hbsrc hbd
    rw [hsrc] at hbsrc hbd
    simp only [] at ha'
    have hkind : Spec.kindOfPc (Spec.pcAt s.board sq) = 6 := by
      rw [hbsrc, hk6]; unfold Spec.kindOfPc Spec.mkPc; split <;> simp <;> omega
    split at ha'
    · rw [hkind] at ha'
      simp only [] at ha'
      obtain ⟨d, hd, hon, hm, _⟩ := mem_stepMoves s sq _ a ha'
      have hdst : a.dst = Spec.sqOf (Spec.fileI sq + d.1) (Spec.rankI sq + d.2) := by rw [hm]
      obtain ⟨_, _, r3⟩ := rankI_sqOf _ _ hon
      rw [← hdst] at r3
      simp [Spec.kingOffs] at hd
      unfold Spec.fileI Spec.rankI at r3
      rcases hd with rfl | rfl | rfl | rfl | rfl | rfl | rfl | rfl <;> simp at r3 <;> omega
    · cases ha'

/-- THE RULES LIST NO LEGAL MOVE TWICE -/
theorem legalMoves_nodup (s : Spec.SPos) : (Spec.legalMoves s).Nodup := by
  unfold Spec.legalMoves
  exact List.Nodup.sublist List.filter_sublist (pseudoMoves_nodup s)

end Chess
