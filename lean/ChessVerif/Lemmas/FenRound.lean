/-
  Lemmas/FenRound.lean — the FEN printer and the FEN reader of Model/Position.lean are inverse on the six fields:
  placement (rank by rank: digit runs and piece letters against `placeLoop`), token splitting, rights, en-passant square, clocks.
-/
import ChessVerif.Model.Position
import ChessVerif.Lemmas.Undo
import Std.Data.String.ToNat
namespace Chess

def nows (c : Char) : Prop := ¬ (c = ' ' ∨ c = '\t' ∨ c = '\n' ∨ c = '\r')

theorem digit_facts (n : Nat) (h1 : 1 ≤ n) (h8 : n ≤ 8) :
    Char.ofNat (48 + n) ≠ '/' ∧ ('0' ≤ Char.ofNat (48 + n) ∧ Char.ofNat (48 + n) ≤ '9') ∧
    (Char.ofNat (48 + n)).toNat - 48 = n ∧ nows (Char.ofNat (48 + n)) := by
  have : n = 1 ∨ n = 2 ∨ n = 3 ∨ n = 4 ∨ n = 5 ∨ n = 6 ∨ n = 7 ∨ n = 8 := by omega
  rcases this with rfl | rfl | rfl | rfl | rfl | rfl | rfl | rfl <;> (unfold nows; decide)

theorem piece_facts (pc : Nat) (h1 : 1 ≤ pc) (h12 : pc ≤ 12) :
    pieceChar pc ≠ '/' ∧ ¬ ('0' ≤ pieceChar pc ∧ pieceChar pc ≤ '9') ∧ charToPiece (pieceChar pc) = pc ∧ nows (pieceChar pc) := by
  have : pc = 1 ∨ pc = 2 ∨ pc = 3 ∨ pc = 4 ∨ pc = 5 ∨ pc = 6 ∨ pc = 7 ∨ pc = 8 ∨ pc = 9 ∨ pc = 10 ∨ pc = 11 ∨ pc = 12 := by omega
  rcases this with rfl | rfl | rfl | rfl | rfl | rfl | rfl | rfl | rfl | rfl | rfl | rfl <;> (unfold nows; decide)

/-- one file of `fenRank`'s loop -/
def rankStep (board : List Nat) (r : Nat) (acc : String × Nat) (f : Nat) : String × Nat :=
  let pc := board.getD (mkSquare r f) 0
  if pc = 0 then (acc.1, acc.2 + 1)
  else ((if acc.2 > 0 then acc.1.push (Char.ofNat (48 + acc.2)) else acc.1).push (pieceChar pc), 0)

theorem fenRank_eq (board : List Nat) (r : Nat) :
    fenRank board r =
      (if ((List.range 8).foldl (rankStep board r) ("", 0)).2 > 0
       then ((List.range 8).foldl (rankStep board r) ("", 0)).1.push (Char.ofNat (48 + ((List.range 8).foldl (rankStep board r) ("", 0)).2))
       else ((List.range 8).foldl (rankStep board r) ("", 0)).1) := by
  unfold fenRank
  have e : (fun (acc : String × Nat) f =>
      let pc := board.getD (mkSquare r f) 0
      if pc = 0 then (acc.1, acc.2 + 1)
      else ((if acc.2 > 0 then acc.1.push (Char.ofNat (48 + acc.2)) else acc.1).push (pieceChar pc), 0)) = rankStep board r := rfl
  rw [e]

theorem placeLoop_digit (n : Nat) (h1 : 1 ≤ n) (h8 : n ≤ 8) (cs : List Char) (sq : Int) (b : List Nat) :
    placeLoop (Char.ofNat (48 + n) :: cs) sq b = placeLoop cs (sq + (n : Int)) b := by
  obtain ⟨a, d, e, _⟩ := digit_facts n h1 h8
  rw [placeLoop, if_neg a, if_pos d, e]

theorem placeLoop_piece (pc : Nat) (h1 : 1 ≤ pc) (h12 : pc ≤ 12) (cs : List Char) (sq : Int) (b : List Nat) :
    placeLoop (pieceChar pc :: cs) sq b = placeLoop cs (sq + 1) (b.set sq.toNat pc) := by
  obtain ⟨a, d, e, _⟩ := piece_facts pc h1 h12
  rw [placeLoop, if_neg a, if_neg d, e]

/-- the invariant of the rank loop after `f` files -/
def RankInv (board : List Nat) (r : Nat) (b : List Nat) (f : Nat) (acc : String × Nat) : Prop :=
  acc.2 ≤ f ∧ (∀ c, c ∈ acc.1.toList → nows c) ∧
  ∃ b' : List Nat, b'.length = 64 ∧
    (∀ i, gd b' i = if 8 * r ≤ i ∧ i < 8 * r + f then gd board i else gd b i) ∧
    ∀ rest, placeLoop (acc.1.toList ++ rest) ((8 * r : Nat) : Int) b = placeLoop rest ((8 * r + f - acc.2 : Nat) : Int) b'

theorem rankInv_step (board : List Nat) (hb12 : ∀ i, gd board i ≤ 12) (r : Nat) (hr : r < 8) (b : List Nat)
    (hb0 : ∀ i, 8 * r ≤ i → i < 8 * r + 8 → gd b i = 0) (f : Nat) (hf : f < 8) (acc : String × Nat)
    (h : RankInv board r b f acc) : RankInv board r b (f + 1) (rankStep board r acc f) := by
  obtain ⟨hc, hn, b', hl, hg, hp⟩ := h
  unfold rankStep
  have hsq : mkSquare r f = 8 * r + f := by unfold mkSquare; omega
  simp only [hsq]
  by_cases h0 : board.getD (8 * r + f) 0 = 0
  · rw [if_pos h0]
    refine ⟨by simp; omega, hn, b', hl, ?_, ?_⟩
    · intro i
      rw [hg i]
      by_cases hi : i = 8 * r + f
      · subst hi
        rw [if_neg (by omega), if_pos (by omega)]
        rw [hb0 _ (by omega) (by omega)]; exact h0.symm
      · by_cases h1 : 8 * r ≤ i ∧ i < 8 * r + f
        · rw [if_pos h1, if_pos (by omega)]
        · rw [if_neg h1, if_neg (by omega)]
    · intro rest
      rw [hp rest]
      have : 8 * r + f - acc.2 = 8 * r + (f + 1) - (acc.2 + 1) := by omega
      simp only [this]
  · rw [if_neg h0]
    have hpc1 : 1 ≤ board.getD (8 * r + f) 0 := by omega
    have hpc12 : board.getD (8 * r + f) 0 ≤ 12 := hb12 _
    obtain ⟨_, _, _, hnw⟩ := piece_facts _ hpc1 hpc12
    refine ⟨by simp, ?_, b'.set (8 * r + f) (board.getD (8 * r + f) 0), by simp [hl], ?_, ?_⟩
    · intro c hcm
      rw [String.toList_push, List.mem_append, List.mem_singleton] at hcm
      rcases hcm with hcm | rfl
      · by_cases hz : acc.2 > 0
        · rw [if_pos hz, String.toList_push, List.mem_append, List.mem_singleton] at hcm
          rcases hcm with hcm | rfl
          · exact hn c hcm
          · exact (digit_facts acc.2 hz (by omega)).2.2.2
        · rw [if_neg hz] at hcm; exact hn c hcm
      · exact hnw
    · intro i
      rw [gd_set, hl, hg i]
      by_cases hi : 8 * r + f = i
      · subst hi
        rw [if_pos ⟨rfl, by omega⟩, if_pos (by omega)]; rfl
      · rw [if_neg (by omega)]
        by_cases h1 : 8 * r ≤ i ∧ i < 8 * r + f
        · rw [if_pos h1, if_pos (by omega)]
        · rw [if_neg h1, if_neg (by omega)]
    · intro rest
      have e1 : (8 * r + (f + 1) - 0 : Nat) = 8 * r + f + 1 := by omega
      rw [String.toList_push, List.append_assoc, List.singleton_append]
      by_cases hz : acc.2 > 0
      · rw [if_pos hz, String.toList_push, List.append_assoc, List.singleton_append, hp,
          placeLoop_digit acc.2 hz (by omega), placeLoop_piece _ hpc1 hpc12]
        have e2 : ((8 * r + f - acc.2 : Nat) : Int) + (acc.2 : Int) = ((8 * r + f : Nat) : Int) := by omega
        rw [e2, Int.toNat_natCast, e1]
        congr 1
      · rw [if_neg hz, hp, placeLoop_piece _ hpc1 hpc12]
        have e2 : (8 * r + f - acc.2 : Nat) = 8 * r + f := by omega
        rw [e2, Int.toNat_natCast, e1]
        congr 1

theorem rankInv_all (board : List Nat) (hb12 : ∀ i, gd board i ≤ 12) (r : Nat) (hr : r < 8) (b : List Nat) (hlen : b.length = 64)
    (hb0 : ∀ i, 8 * r ≤ i → i < 8 * r + 8 → gd b i = 0) (f : Nat) (hf : f ≤ 8) :
    RankInv board r b f ((List.range f).foldl (rankStep board r) ("", 0)) := by
  induction f with
  | zero =>
    refine ⟨Nat.le_refl _, by simp, b, hlen, ?_, ?_⟩
    · intro i; rw [if_neg (by omega)]
    · intro rest; simp
  | succ f ih =>
    rw [List.range_succ, List.foldl_append]
    exact rankInv_step board hb12 r hr b hb0 f (by omega) _ (ih (by omega))

/-- one rank of the placement field, read back -/
theorem fenRank_place (board : List Nat) (hb12 : ∀ i, gd board i ≤ 12) (r : Nat) (hr : r < 8) (b : List Nat) (hlen : b.length = 64)
    (hb0 : ∀ i, 8 * r ≤ i → i < 8 * r + 8 → gd b i = 0) :
    (∀ c, c ∈ (fenRank board r).toList → nows c) ∧
    ∃ b' : List Nat, b'.length = 64 ∧ (∀ i, gd b' i = if 8 * r ≤ i ∧ i < 8 * r + 8 then gd board i else gd b i) ∧
      ∀ rest, placeLoop ((fenRank board r).toList ++ rest) ((8 * r : Nat) : Int) b = placeLoop rest ((8 * r + 8 : Nat) : Int) b' := by
  obtain ⟨hc, hn, b', hl, hg, hp⟩ := rankInv_all board hb12 r hr b hlen hb0 8 (Nat.le_refl _)
  rw [fenRank_eq]
  generalize (List.range 8).foldl (rankStep board r) ("", 0) = acc at *
  by_cases hz : acc.2 > 0
  · rw [if_pos hz]
    refine ⟨?_, b', hl, hg, ?_⟩
    · intro c hcm
      rw [String.toList_push, List.mem_append, List.mem_singleton] at hcm
      rcases hcm with hcm | rfl
      · exact hn c hcm
      · exact (digit_facts acc.2 hz hc).2.2.2
    · intro rest
      rw [String.toList_push, List.append_assoc, List.singleton_append, hp, placeLoop_digit acc.2 hz hc]
      have e2 : ((8 * r + 8 - acc.2 : Nat) : Int) + (acc.2 : Int) = ((8 * r + 8 : Nat) : Int) := by omega
      rw [e2]
  · rw [if_neg hz]
    refine ⟨hn, b', hl, hg, ?_⟩
    intro rest
    rw [hp]
    have : 8 * r + 8 - acc.2 = 8 * r + 8 := by omega
    rw [this]

theorem gd_rep0 (i : Nat) : gd (List.replicate 64 0) i = 0 := by
  unfold gd
  rw [List.getD_eq_getElem?_getD, List.getElem?_replicate]
  split <;> rfl

/-- the placement text from rank `r` down to rank 0 -/
def placeTail (board : List Nat) : Nat → List Char
  | 0 => (fenRank board 0).toList
  | r + 1 => (fenRank board (r + 1)).toList ++ '/' :: placeTail board r

theorem placeLoop_slash (cs : List Char) (sq : Int) (b : List Nat) : placeLoop ('/' :: cs) sq b = placeLoop cs (sq - 16) b := by
  rw [placeLoop, if_pos rfl]

theorem placeTail_nows (board : List Nat) (hb12 : ∀ i, gd board i ≤ 12) (r : Nat) (hr : r < 8) :
    ∀ c, c ∈ placeTail board r → nows c := by
  induction r with
  | zero =>
    intro c hc
    exact (fenRank_place board hb12 0 (by omega) (List.replicate 64 0) (by simp) (fun i _ _ => gd_rep0 i)).1 c hc
  | succ r ih =>
    intro c hc
    unfold placeTail at hc
    rw [List.mem_append, List.mem_cons] at hc
    rcases hc with hc | rfl | hc
    · exact (fenRank_place board hb12 (r + 1) hr (List.replicate 64 0) (by simp) (fun i _ _ => gd_rep0 i)).1 c hc
    · unfold nows; decide
    · exact ih (by omega) c hc

theorem placeTail_place (board : List Nat) (hb12 : ∀ i, gd board i ≤ 12) (r : Nat) (hr : r < 8) (b : List Nat) (hlen : b.length = 64)
    (hb0 : ∀ i, i < 8 * r + 8 → gd b i = 0) :
    (placeLoop (placeTail board r) ((8 * r : Nat) : Int) b).length = 64 ∧
    ∀ i, gd (placeLoop (placeTail board r) ((8 * r : Nat) : Int) b) i = if i < 8 * r + 8 then gd board i else gd b i := by
  induction r generalizing b with
  | zero =>
    obtain ⟨_, b', hl, hg, hp⟩ := fenRank_place board hb12 0 (by omega) b hlen (fun i _ h => hb0 i (by omega))
    have := hp []
    rw [List.append_nil, placeLoop] at this
    unfold placeTail
    rw [this]
    refine ⟨hl, fun i => ?_⟩
    rw [hg i]
    by_cases h : i < 8 <;> simp [h]
  | succ r ih =>
    obtain ⟨_, b', hl, hg, hp⟩ := fenRank_place board hb12 (r + 1) hr b hlen (fun i _ h => hb0 i (by omega))
    unfold placeTail
    rw [hp, placeLoop_slash]
    have e : ((8 * (r + 1) + 8 : Nat) : Int) - 16 = ((8 * r : Nat) : Int) := by omega
    rw [e]
    have hb0' : ∀ i, i < 8 * r + 8 → gd b' i = 0 := by
      intro i hi
      rw [hg i, if_neg (by omega)]
      exact hb0 i (by omega)
    obtain ⟨l2, g2⟩ := ih (by omega) b' hl hb0'
    refine ⟨l2, fun i => ?_⟩
    rw [g2 i]
    by_cases h1 : i < 8 * r + 8
    · rw [if_pos h1, if_pos (by omega)]
    · rw [if_neg h1, hg i]
      by_cases h2 : i < 8 * (r + 1) + 8
      · rw [if_pos ⟨by omega, h2⟩, if_pos h2]
      · rw [if_neg (by omega), if_neg h2]

/-- the placement field of `fen` -/
def placementOf (board : List Nat) : String := String.intercalate "/" ([7, 6, 5, 4, 3, 2, 1, 0].map (fenRank board))

theorem placementOf_toList (board : List Nat) : (placementOf board).toList = placeTail board 7 := by
  unfold placementOf
  rw [String.toList_intercalate]
  simp [placeTail, List.intercalate]

/-- **placement round trip**: reading the printed placement onto an empty board gives the board back -/
theorem placement_roundtrip (board : List Nat) (hlen : board.length = 64) (hb12 : ∀ i, gd board i ≤ 12) :
    placeLoop (placementOf board).toList 56 (List.replicate 64 0) = board := by
  rw [placementOf_toList]
  obtain ⟨l, g⟩ := placeTail_place board hb12 7 (by omega) (List.replicate 64 0) (by simp)
    (fun i _ => gd_rep0 i)
  have e56 : ((8 * 7 : Nat) : Int) = 56 := by decide
  rw [e56] at l g
  apply list_ext_gd _ _ (by rw [hlen]; exact l)
  intro i
  have := g i
  by_cases h : i < 64
  · rw [if_pos (by omega)] at this; exact this
  · rw [if_neg (by omega)] at this
    rw [this, gd_rep0]
    simp only [gd]
    rw [List.getD_eq_getElem?_getD, List.getElem?_eq_none (by omega)]; rfl

theorem placement_nows (board : List Nat) (hb12 : ∀ i, gd board i ≤ 12) : ∀ c, c ∈ (placementOf board).toList → nows c := by
  rw [placementOf_toList]; exact placeTail_nows board hb12 7 (by omega)

-- token splitting -------------------------------------------------------------------------------------------
theorem tokensAux_word (w : List Char) (hw : ∀ c, c ∈ w → nows c) (cs cur : List Char) (acc : List String) :
    tokensAux (w ++ cs) cur acc = tokensAux cs (w.reverse ++ cur) acc := by
  induction w generalizing cur with
  | nil => rfl
  | cons c w ih =>
    have hc : ¬ (c = ' ' ∨ c = '\t' ∨ c = '\n' ∨ c = '\r') := hw c (List.mem_cons_self ..)
    rw [List.cons_append, tokensAux, if_neg hc, ih (fun d hd => hw d (List.mem_cons_of_mem _ hd))]
    simp

theorem tokensAux_sep (w : String) (hw : ∀ c, c ∈ w.toList → nows c) (hne : w.toList ≠ []) (cs : List Char) (acc : List String) :
    tokensAux (w.toList ++ ' ' :: cs) [] acc = tokensAux cs [] (w :: acc) := by
  rw [tokensAux_word _ hw, tokensAux, if_pos (Or.inl rfl), List.append_nil]
  have : w.toList.reverse.isEmpty = false := by
    cases h : w.toList with
    | nil => exact absurd h hne
    | cons a l => simp
  rw [this]
  simp [String.ofList_toList]

theorem tokensAux_last (w : String) (hw : ∀ c, c ∈ w.toList → nows c) (hne : w.toList ≠ []) (acc : List String) :
    tokensAux w.toList [] acc = (w :: acc).reverse := by
  have := tokensAux_word w.toList hw [] [] acc
  rw [List.append_nil] at this
  rw [this, tokensAux, List.append_nil]
  have : w.toList.reverse.isEmpty = false := by
    cases h : w.toList with
    | nil => exact absurd h hne
    | cons a l => simp
  rw [this]
  simp [String.ofList_toList]

structure Word (w : String) : Prop where
  nows : ∀ c, c ∈ w.toList → nows c
  ne : w.toList ≠ []

theorem tokens_six (a b c d e f : String) (ha : Word a) (hb : Word b) (hc : Word c) (hd : Word d) (he : Word e) (hf : Word f) :
    tokens (a ++ " " ++ b ++ " " ++ c ++ " " ++ d ++ " " ++ e ++ " " ++ f) = [a, b, c, d, e, f] := by
  unfold tokens
  have sp : " ".toList = [' '] := rfl
  simp only [String.toList_append, sp, List.append_assoc, List.cons_append, List.nil_append]
  rw [tokensAux_sep a ha.nows ha.ne, tokensAux_sep b hb.nows hb.ne, tokensAux_sep c hc.nows hc.ne, tokensAux_sep d hd.nows hd.ne,
    tokensAux_sep e he.nows he.ne, tokensAux_last f hf.nows hf.ne]
  rfl

-- the small fields -------------------------------------------------------------------------------------------
def rightsStr (c : Nat) : String :=
  if c ≠ 0 then
    (if c &&& W_OO ≠ 0 then "K" else "") ++ (if c &&& W_OOO ≠ 0 then "Q" else "") ++
    (if c &&& B_OO ≠ 0 then "k" else "") ++ (if c &&& B_OOO ≠ 0 then "q" else "")
  else "-"

def parseRights (s : String) : Nat :=
  s.toList.foldl (fun acc c =>
    match c with
    | 'K' => acc ||| W_OO | 'Q' => acc ||| W_OOO | 'k' => acc ||| B_OO | 'q' => acc ||| B_OOO | _ => acc) 0

def nowsB (c : Char) : Bool := !(c == ' ' || c == '\t' || c == '\n' || c == '\r')
theorem nows_of_B (c : Char) (h : nowsB c = true) : nows c := by
  unfold nowsB at h; unfold nows
  simp only [Bool.not_eq_true', Bool.or_eq_false_iff, beq_eq_false_iff_ne] at h
  intro hc; rcases hc with rfl | rfl | rfl | rfl <;> simp at h
def wordB (w : String) : Bool := w.toList.all nowsB && !w.toList.isEmpty
theorem word_of_B (w : String) (h : wordB w = true) : Word w := by
  unfold wordB at h
  simp only [Bool.and_eq_true, List.all_eq_true, Bool.not_eq_true'] at h
  exact ⟨fun c hc => nows_of_B c (h.1 c hc), fun he => by simp [he] at h⟩

def rightsOK : Bool := (List.range 16).all fun c => parseRights (rightsStr c) == c && wordB (rightsStr c)
theorem rightsOK_true : rightsOK = true := by decide +kernel
theorem rights_roundtrip (c : Nat) (hc : c < 16) : parseRights (rightsStr c) = c ∧ Word (rightsStr c) := by
  have h := rightsOK_true
  simp only [rightsOK, List.all_eq_true, List.mem_range, Bool.and_eq_true, beq_iff_eq] at h
  exact ⟨(h c hc).1, word_of_B _ (h c hc).2⟩

def epOK : Bool := (List.range 64).all fun e => notationToSquare (sqName e) == e && wordB (sqName e) && (sqName e != "-")
theorem epOK_true : epOK = true := by decide +kernel
theorem ep_roundtrip (e : Nat) (he : e < 64) : notationToSquare (sqName e) = e ∧ Word (sqName e) ∧ sqName e ≠ "-" := by
  have h := epOK_true
  simp only [epOK, List.all_eq_true, List.mem_range, Bool.and_eq_true, beq_iff_eq, bne_iff_ne] at h
  exact ⟨(h e he).1.1, word_of_B _ (h e he).1.2, (h e he).2⟩

theorem word_repr (n : Nat) : Word (Nat.repr n) := by
  refine ⟨fun c hc => ?_, ?_⟩
  · rw [Nat.toList_repr] at hc
    have hd := Nat.isDigit_of_mem_toDigits (by omega) (by omega) hc
    unfold nows
    intro h
    rcases h with rfl | rfl | rfl | rfl <;> simp [Char.isDigit] at hd
  · rw [Nat.toList_repr]
    intro h
    have hp := Nat.length_toDigits_pos (b := 10) (n := n)
    rw [h] at hp
    exact absurd hp (by simp)

-- assembly ---------------------------------------------------------------------------------------------------
theorem fen_eq (p : Position) :
    fen p = placementOf p.board ++ " " ++ (if p.side = 0 then "w" else "b") ++ " " ++ rightsStr p.castling ++ " " ++
      (if p.ep ≠ 64 then sqName p.ep else "-") ++ " " ++ toString p.halfmove ++ " " ++ toString (Int.tdiv (p.ply - 1) 2 + 1) := rfl

theorem toString_nonneg (z : Int) (h : 0 ≤ z) : toString z = Nat.repr z.toNat := by
  obtain ⟨n, rfl⟩ := Int.eq_ofNat_of_zero_le h
  rfl

theorem word_placement (board : List Nat) (hb12 : ∀ i, gd board i ≤ 12) : Word (placementOf board) := by
  refine ⟨placement_nows board hb12, ?_⟩
  rw [placementOf_toList]
  unfold placeTail
  intro h
  have := congrArg List.length h
  simp at this

theorem word_side (c : Nat) : Word (if c = 0 then "w" else "b") := by
  split <;> exact word_of_B _ (by decide)

theorem word_ep (e : Nat) (he : e ≤ 64) : Word (if e ≠ 64 then sqName e else "-") := by
  split
  · exact (ep_roundtrip e (by omega)).2.1
  · exact word_of_B _ (by decide)

/-- the tokens of a printed FEN are its six fields -/
theorem tokens_fen (p : Position) (hb12 : ∀ i, gd p.board i ≤ 12) (hc : p.castling < 16) (hep : p.ep ≤ 64) (hply : 1 ≤ p.ply) :
    tokens (fen p) = [placementOf p.board, (if p.side = 0 then "w" else "b"), rightsStr p.castling,
      (if p.ep ≠ 64 then sqName p.ep else "-"), Nat.repr p.halfmove, Nat.repr (Int.tdiv (p.ply - 1) 2 + 1).toNat] := by
  have hz : 0 ≤ Int.tdiv (p.ply - 1) 2 + 1 := by
    have : 0 ≤ Int.tdiv (p.ply - 1) 2 := Int.tdiv_nonneg (by omega) (by omega)
    omega
  rw [fen_eq, toString_nonneg _ hz]
  exact tokens_six _ _ _ _ _ _ (word_placement _ hb12) (word_side _) (rights_roundtrip _ hc).2 (word_ep _ hep) (word_repr _) (word_repr _)

/-- **FEN round trip on the six fields** -/
theorem fen_fields (T : ZTable) (p : Position) (hlen : p.board.length = 64) (hb12 : ∀ i, gd p.board i ≤ 12) (hs : p.side ≤ 1)
    (hc : p.castling < 16) (hep : p.ep ≤ 64) (hply : 1 ≤ p.ply) (hhm : p.halfmove < 65536) :
    (ofFen T (fen p)).board = p.board ∧ (ofFen T (fen p)).side = p.side ∧ (ofFen T (fen p)).castling = p.castling ∧
    (ofFen T (fen p)).ep = p.ep ∧ (ofFen T (fen p)).halfmove = p.halfmove ∧
    (ofFen T (fen p)).ply = 2 * (Int.tdiv (p.ply - 1) 2 + 1) - 1 + (if p.side = 1 then 1 else 0) ∧
    (ofFen T (fen p)).hash = HashKey.init T p.board p.side p.castling p.ep := by
  have htk := tokens_fen p hb12 hc hep hply
  have hz : 0 ≤ Int.tdiv (p.ply - 1) 2 + 1 := by
    have : 0 ≤ Int.tdiv (p.ply - 1) 2 := Int.tdiv_nonneg (by omega) (by omega)
    omega
  have hboard : placeLoop (placementOf p.board).toList 56 (List.replicate 64 0) = p.board := placement_roundtrip _ hlen hb12
  have hside : (if (if p.side = 0 then "w" else "b") = "w" then 0 else 1) = p.side := by
    have : p.side = 0 ∨ p.side = 1 := by omega
    rcases this with h | h <;> rw [h] <;> decide
  have hrights := (rights_roundtrip _ hc).1
  unfold parseRights at hrights
  have hepv : (if (if p.ep ≠ 64 then sqName p.ep else "-") = "-" then 64 else notationToSquare (if p.ep ≠ 64 then sqName p.ep else "-")) = p.ep := by
    by_cases h : p.ep = 64
    · simp [h]
    · have := ep_roundtrip p.ep (by omega)
      rw [if_pos h, if_neg this.2.2, this.1]
  unfold ofFen
  simp only [htk, List.getD_cons_zero, List.getD_cons_succ, hboard, hside, hepv, Nat.toNat?_repr, Option.getD_some]
  refine ⟨trivial, trivial, hrights, trivial, Nat.mod_eq_of_lt hhm, ?_, ?_⟩
  · rw [Int.toNat_of_nonneg hz]
  · exact congrArg (fun c => HashKey.init T p.board p.side c p.ep) hrights

end Chess
