/-
  Lemmas/SingleCheckTab.lean — finite geometry for check evasions: a knight's squares are on no ray from the king, a checking pawn's
  square is the first square of its ray, and `LINES[k][c]` without its end points is the set of squares strictly between k and c on
  the ray that contains c.  Tables evaluated in the kernel.
-/
import ChessVerif.Lemmas.PinnedSlider
namespace Chess

def leaperRayOK : Bool :=
  (List.range 64).all fun k => (List.range 64).all fun c =>
    (!(knightMask k).testBit c || (List.range 8).all fun r => !(rayList k r).contains c) &&
    (!((pawnAttacks 0 (sqBB k)).testBit c || (pawnAttacks 1 (sqBB k)).testBit c) ||
      (List.range 8).all fun r => !(rayList k r).contains c || (rayList k r).head? == some c)
theorem leaperRayOK_true : leaperRayOK = true := by decide +kernel

/-- the squares strictly between k and c: on the ray list of k that contains c, the squares before c -/
def betweenOK : Bool :=
  (List.range 64).all fun k => (List.range 64).all fun c => (List.range 8).all fun r =>
    !(rayList k r).contains c ||
      (List.range 64).all fun t => (lines k c ^^^ sqBB k ^^^ sqBB c).testBit t == thru (rayList k r) t c
theorem betweenOK_true : betweenOK = true := by decide +kernel

end Chess
