/-
  Lemmas/MirrorBB.lean — bitboards related by the vertical flip (`Y` has bit s iff `X` has bit `flipV s`): closed under the Boolean
  operations, same population count.  The vocabulary in which the per-colour bitboard terms of the evaluator compare under C13's mirror.
-/
import ChessVerif.Lemmas.MirrorCount
import ChessVerif.Lemmas.GenBasics
import ChessVerif.Lemmas.Bits
import ChessVerif.Model.Eval
namespace Chess

/-- `Y` is the vertical flip of `X` (on the 64 squares) -/
def MirrorBB (X Y : BB) : Prop := ∀ s, s < 64 → Y.testBit s = X.testBit (flipV s)

theorem MirrorBB.and {X Y X' Y' : BB} (h : MirrorBB X Y) (h' : MirrorBB X' Y') : MirrorBB (X &&& X') (Y &&& Y') := by
  intro s hs; rw [Nat.testBit_and, Nat.testBit_and, h s hs, h' s hs]
theorem MirrorBB.or {X Y X' Y' : BB} (h : MirrorBB X Y) (h' : MirrorBB X' Y') : MirrorBB (X ||| X') (Y ||| Y') := by
  intro s hs; rw [Nat.testBit_or, Nat.testBit_or, h s hs, h' s hs]
theorem MirrorBB.xor {X Y X' Y' : BB} (h : MirrorBB X Y) (h' : MirrorBB X' Y') : MirrorBB (X ^^^ X') (Y ^^^ Y') := by
  intro s hs; rw [Nat.testBit_xor, Nat.testBit_xor, h s hs, h' s hs]

theorem popcountAux_filter (b : BB) (n : Nat) : popcountAux b n = ((List.range n).filter (fun i => b.testBit i)).length := by
  induction n with
  | zero => rfl
  | succ n ih =>
    rw [popcountAux, ih, List.range_succ, List.filter_append, List.length_append]
    by_cases h : b.testBit n = true
    · simp [h]; omega
    · simp [h]

/-- flipped bitboards have the same population count -/
theorem MirrorBB.popcount {X Y : BB} (h : MirrorBB X Y) : popcount Y = popcount X := by
  unfold Chess.popcount
  rw [popcountAux_filter, popcountAux_filter]
  have e1 : (List.range 64).filter (fun i => Y.testBit i) = (List.range 64).filter (fun i => X.testBit (flipV i)) := by
    apply List.filter_congr
    intro s hs
    exact h s (List.mem_range.1 hs)
  have e2 : ((List.range 64).filter (fun i => X.testBit (flipV i))).length = (((List.range 64).map flipV).filter (fun i => X.testBit i)).length := by
    rw [List.filter_map, List.length_map]; rfl
  rw [e1, e2]
  exact (flip_perm.filter _).length_eq

theorem flipV_lt (s : Nat) (hs : s < 64) : flipV s < 64 := by unfold flipV mkSquare rankOf fileOf; omega
theorem flipV_flipV (s : Nat) (hs : s < 64) : flipV (flipV s) = s := (Props.C13_geometry s s hs hs).1

theorem MirrorBB.symm {X Y : BB} (h : MirrorBB X Y) : MirrorBB Y X := by
  intro s hs
  rw [h (flipV s) (flipV_lt s hs), flipV_flipV s hs]

/-- the index arithmetic of "shift up by n on the mirror = shift down by m on the board" under the file mask `M`, square by square -/
def shiftTabOK (n m : Nat) (M : BB) : Bool := (List.range 64).all fun s =>
  (M.testBit s == M.testBit (flipV s)) &&
  (if n ≤ s then
    (if M.testBit (s - n) then (flipV (s - n) == flipV s + m) else (!(M.testBit (flipV s + m)) || decide (64 ≤ flipV s + m)))
   else (decide (64 ≤ flipV s + m) || !(M.testBit (flipV s + m))))

theorem shift_mirror (n m : Nat) (M : BB) (htab : shiftTabOK n m M = true) (X Y : BB) (hX : X < two64) (h : MirrorBB X Y)
    (s : Nat) (hs : s < 64) : (shl (Y &&& M) n).testBit s = ((X &&& M) >>> m).testBit (flipV s) := by
  simp only [shiftTabOK, List.all_eq_true, List.mem_range, Bool.and_eq_true, beq_iff_eq] at htab
  obtain ⟨_, ht⟩ := htab s hs
  have hbig : ∀ t, 64 ≤ t → X.testBit t = false := by
    intro t ht
    apply Nat.testBit_lt_two_pow
    rw [two64_eq] at hX
    exact Nat.lt_of_lt_of_le hX (Nat.pow_le_pow_right (by omega) ht)
  unfold shl
  rw [two64_eq, Nat.testBit_mod_two_pow, Nat.testBit_shiftLeft, Nat.testBit_shiftRight, Nat.testBit_and, Nat.testBit_and]
  rw [Nat.add_comm m (flipV s)]
  by_cases hn : n ≤ s
  · rw [if_pos hn] at ht
    have hsn : s - n < 64 := by omega
    by_cases hM : M.testBit (s - n) = true
    · rw [if_pos hM] at ht
      have e : flipV (s - n) = flipV s + m := by simpa using ht
      have hM2 : M.testBit (flipV s + m) = true := by
        rw [← e]
        have := (htab (s - n) hsn).1
        rw [← this]; exact hM
      rw [h (s - n) hsn, e, hM, hM2]
      simp [hs, hn]
    · rw [if_neg hM] at ht
      have hM' : M.testBit (s - n) = false := by simpa using hM
      rw [hM']
      simp only [Bool.or_eq_true, Bool.not_eq_true', decide_eq_true_eq] at ht
      rcases ht with ht | ht
      · rw [ht]; simp
      · rw [hbig _ ht]; simp
  · rw [if_neg hn] at ht
    simp only [Bool.or_eq_true, Bool.not_eq_true', decide_eq_true_eq] at ht
    have : decide (s ≥ n) = false := by simpa using hn
    rw [this]
    rcases ht with ht | ht
    · rw [hbig _ ht]; simp
    · rw [ht]; simp

def allOnes : BB := 18446744073709551615
theorem tabN : shiftTabOK 8 8 allOnes = true := by decide +kernel
theorem tabNE : shiftTabOK 9 7 (bnot fileH) = true := by decide +kernel
theorem tabNW : shiftTabOK 7 9 (bnot fileA) = true := by decide +kernel

theorem and_allOnes (X : BB) (hX : X < two64) : X &&& allOnes = X := by
  apply Nat.eq_of_testBit_eq
  intro i
  rw [Nat.testBit_and]
  by_cases hi : i < 64
  · have : allOnes.testBit i = true := by
      have h : ∀ j, j < 64 → allOnes.testBit j = true := by decide +kernel
      exact h i hi
    rw [this, Bool.and_true]
  · have : X.testBit i = false := by
      apply Nat.testBit_lt_two_pow
      rw [two64_eq] at hX
      exact Nat.lt_of_lt_of_le hX (Nat.pow_le_pow_right (by omega) (by omega))
    rw [this, Bool.false_and]

/-- the pawn-attack set of the other colour on the flipped bitboard is the flip of the pawn-attack set -/
theorem MirrorBB.pawnAttacks {X Y : BB} (hX : X < two64) (hY : Y < two64) (h : MirrorBB X Y) (c : Nat) (hc : c ≤ 1) :
    MirrorBB (Chess.pawnAttacks c X) (Chess.pawnAttacks (1 - c) Y) := by
  have hc' : c = 0 ∨ c = 1 := by omega
  rcases hc' with rfl | rfl
  · -- white on the board (NW | NE of X)  ↔  black on the mirror (SW | SE of Y): use the symmetric direction
    intro s hs
    have hs' := flipV_lt s hs
    have a := shift_mirror 9 7 (bnot fileH) tabNE Y X hY h.symm (flipV s) hs'
    have b := shift_mirror 7 9 (bnot fileA) tabNW Y X hY h.symm (flipV s) hs'
    rw [flipV_flipV s hs] at a b
    show (Chess.pawnAttacks 1 Y).testBit s = (Chess.pawnAttacks 0 X).testBit (flipV s)
    unfold Chess.pawnAttacks shift
    simp only [if_neg (show ¬ (1 : Nat) = 0 by decide), ↓reduceIte]
    rw [Nat.testBit_or, Nat.testBit_or, a, b]
  · intro s hs
    have a := shift_mirror 9 7 (bnot fileH) tabNE X Y hX h s hs
    have b := shift_mirror 7 9 (bnot fileA) tabNW X Y hX h s hs
    show (Chess.pawnAttacks 0 Y).testBit s = (Chess.pawnAttacks 1 X).testBit (flipV s)
    unfold Chess.pawnAttacks shift
    simp only [if_neg (show ¬ (1 : Nat) = 0 by decide), ↓reduceIte]
    rw [Nat.testBit_or, Nat.testBit_or, a, b]

/-- the squares of the flipped bitboard are the flipped squares of the bitboard, up to order -/
theorem MirrorBB.bits_perm {X Y : BB} (h : MirrorBB X Y) : (bitsOf Y).Perm ((bitsOf X).map flipV) := by
  have inj : ∀ a, a ∈ bitsOf X → ∀ b, b ∈ bitsOf X → flipV a = flipV b → a = b := by
    intro a ha b hb e
    have ha' := ((mem_bitsOf X a).1 ha).1
    have hb' := ((mem_bitsOf X b).1 hb).1
    rw [← flipV_flipV a ha', ← flipV_flipV b hb', e]
  have nd : ((bitsOf X).map flipV).Nodup := by
    have := bitsOf_nodup X
    rw [List.nodup_iff_pairwise_ne] at this ⊢
    rw [List.pairwise_map]
    have hp : (bitsOf X).Pairwise (fun a b => a ∈ bitsOf X ∧ b ∈ bitsOf X ∧ a ≠ b) := by
      rw [List.pairwise_iff_forall_sublist] at this ⊢
      intro a b hab
      have hs := hab.subset
      exact ⟨hs (by simp), hs (by simp), this hab⟩
    exact hp.imp (fun ⟨ha, hb, hne⟩ e => hne (inj _ ha _ hb e))
  apply (List.perm_ext_iff_of_nodup (bitsOf_nodup Y) nd).2
  intro s
  rw [mem_bitsOf, List.mem_map]
  constructor
  · intro ⟨hs, ht⟩
    refine ⟨flipV s, (mem_bitsOf X _).2 ⟨flipV_lt s hs, ?_⟩, flipV_flipV s hs⟩
    rw [← h s hs]; exact ht
  · intro ⟨t, ht, e⟩
    obtain ⟨ht1, ht2⟩ := (mem_bitsOf X t).1 ht
    subst e
    refine ⟨flipV_lt t ht1, ?_⟩
    rw [h _ (flipV_lt t ht1), flipV_flipV t ht1]; exact ht2

theorem sc_add_comm3 (z a b : Sc) : z + a + b = z + b + a := by
  show (⟨z.mg + a.mg + b.mg, z.eg + a.eg + b.eg⟩ : Sc) = ⟨z.mg + b.mg + a.mg, z.eg + b.eg + a.eg⟩
  congr 1 <;> omega

/-- a sum of per-square scores over the squares of a flipped bitboard = the sum of the flipped terms over the bitboard -/
theorem MirrorBB.sum_eq {X Y : BB} (h : MirrorBB X Y) (f g : Nat → Sc) (hfg : ∀ s, s ∈ bitsOf X → f (flipV s) = g s) (init : Sc) :
    (bitsOf Y).foldl (fun acc s => acc + f s) init = (bitsOf X).foldl (fun acc s => acc + g s) init := by
  rw [List.Perm.foldl_eq' h.bits_perm (fun x _ y _ z => sc_add_comm3 z (f x) (f y)) init, List.foldl_map]
  have : ∀ (l : List Nat) (i : Sc), (∀ s, s ∈ l → s ∈ bitsOf X) →
      l.foldl (fun acc s => acc + f (flipV s)) i = l.foldl (fun acc s => acc + g s) i := by
    intro l
    induction l with
    | nil => intros; rfl
    | cons a l ih =>
      intro i hl
      simp only [List.foldl_cons]
      rw [hfg a (hl a (List.mem_cons_self ..))]
      exact ih _ (fun s hs => hl s (List.mem_cons_of_mem _ hs))
  exact this _ _ (fun s hs => hs)

end Chess
