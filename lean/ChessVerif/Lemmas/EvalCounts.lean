/-
  Lemmas/EvalCounts.lean — how many pieces a loop of the evaluator visits: the length of `bitsOf (bbOfPiece board pc)` is
  the number of occurrences of `pc` on a 64-square board, and a well-formed position has at most 8 pawns, 10 knights,
  10 bishops, 10 rooks and 9 queens per side (Spec.materialOK).
-/
import ChessVerif.Lemmas.Bridge
import ChessVerif.Lemmas.WfHyp
import ChessVerif.Lemmas.EvalBound
namespace Chess

theorem bitsAux_length_eq (b : BB) (n : Nat) (acc : List Nat) : (bitsAux b n acc).length = acc.length + popcountAux b n := by
  induction n generalizing acc with
  | zero => simp [bitsAux, popcountAux]
  | succ n ih =>
    unfold bitsAux popcountAux
    by_cases h : b.testBit n = true
    · rw [if_pos h, if_pos h, ih, List.length_cons]; omega
    · rw [if_neg h, if_neg h, ih]; omega

theorem bitsOf_length_eq (b : BB) : (bitsOf b).length = popcount b := by
  unfold bitsOf popcount
  rw [bitsAux_length_eq]; simp

theorem countOf_take_succ (board : List Nat) (pc n : Nat) :
    countOf (board.take (n + 1)) pc = countOf (board.take n) pc + (if n < board.length ∧ board.getD n 0 = pc then 1 else 0) := by
  unfold countOf
  by_cases hn : n < board.length
  · rw [List.take_succ_eq_append_getElem hn, List.filter_append, List.length_append]
    have e : board.getD n 0 = board[n] := by simp [List.getD, hn]
    rw [e]
    by_cases hp : board[n] = pc
    · rw [List.filter_cons_of_pos (by simpa using hp), if_pos ⟨hn, hp⟩]; simp
    · rw [List.filter_cons_of_neg (by simpa using hp), if_neg (fun h => hp h.2)]; simp
  · rw [if_neg (fun h => hn h.1)]
    rw [List.take_of_length_le (by omega), List.take_of_length_le (by omega)]
    simp

theorem popcountAux_bbOfPiece (board : List Nat) (pc n : Nat) :
    popcountAux (bbOfPiece board pc) n = countOf (board.take n) pc := by
  induction n with
  | zero => simp [popcountAux, countOf]
  | succ n ih =>
    unfold popcountAux
    rw [countOf_take_succ, ih, bbOfPiece_testBit]
    by_cases h : n < board.length ∧ board.getD n 0 = pc
    · rw [if_pos h, if_pos (by simp only [Bool.and_eq_true, decide_eq_true_eq]; exact h)]; omega
    · rw [if_neg h, if_neg (by
        intro hh
        simp only [Bool.and_eq_true, decide_eq_true_eq] at hh
        exact h hh)]; omega

theorem bitsOf_bbOfPiece_length (board : List Nat) (pc : Nat) (hlen : board.length = 64) :
    (bitsOf (bbOfPiece board pc)).length = countOf board pc := by
  rw [bitsOf_length_eq]
  unfold popcount
  rw [popcountAux_bbOfPiece, List.take_of_length_le (by omega)]

/-- the material bounds of a well-formed position, per piece code -/
theorem wf_material (s : Spec.SPos) (h : Spec.wf s = true) :
    s.board.length = 64 ∧
    countOf s.board 1 ≤ 8 ∧ countOf s.board 2 ≤ 10 ∧ countOf s.board 3 ≤ 10 ∧ countOf s.board 4 ≤ 10 ∧ countOf s.board 5 ≤ 9 ∧
    countOf s.board 7 ≤ 8 ∧ countOf s.board 8 ≤ 10 ∧ countOf s.board 9 ≤ 10 ∧ countOf s.board 10 ≤ 10 ∧ countOf s.board 11 ≤ 9 := by
  unfold Spec.wf at h
  simp only [Bool.and_eq_true, decide_eq_true_eq] at h
  obtain ⟨⟨⟨⟨⟨⟨⟨⟨⟨hlen, _⟩, _⟩, _⟩, hmat⟩, _⟩, _⟩, _⟩, _⟩, _⟩ := h
  unfold Spec.materialOK at hmat
  simp only [List.all_cons, List.all_nil, Bool.and_true, Bool.and_eq_true, decide_eq_true_eq, count_eq_countOf] at hmat
  obtain ⟨⟨⟨⟨⟨⟨_, w1⟩, w2⟩, w3⟩, w4⟩, w5⟩, ⟨⟨⟨⟨⟨_, b1⟩, b2⟩, b3⟩, b4⟩, b5⟩⟩ := hmat
  have mk : ∀ c k, Spec.mkPc c k = k + 6 * c := fun _ _ => rfl
  simp only [mk] at w1 w2 w3 w4 w5 b1 b2 b3 b4 b5
  have w1 : countOf s.board 1 ≤ 8 := of_decide_eq_true w1
  have w2 : countOf s.board 2 + countOf s.board 1 ≤ 10 := of_decide_eq_true w2
  have w3 : countOf s.board 3 + countOf s.board 1 ≤ 10 := of_decide_eq_true w3
  have w4 : countOf s.board 4 + countOf s.board 1 ≤ 10 := of_decide_eq_true w4
  have w5 : countOf s.board 5 + countOf s.board 1 ≤ 9 := of_decide_eq_true w5
  have b1 : countOf s.board 7 ≤ 8 := of_decide_eq_true b1
  have b2 : countOf s.board 8 + countOf s.board 7 ≤ 10 := of_decide_eq_true b2
  have b3 : countOf s.board 9 + countOf s.board 7 ≤ 10 := of_decide_eq_true b3
  have b4 : countOf s.board 10 + countOf s.board 7 ≤ 10 := of_decide_eq_true b4
  have b5 : countOf s.board 11 + countOf s.board 7 ≤ 9 := of_decide_eq_true b5
  refine ⟨hlen, ?_, ?_, ?_, ?_, ?_, ?_, ?_, ?_, ?_, ?_⟩ <;> omega

end Chess
