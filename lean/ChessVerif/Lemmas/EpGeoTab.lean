/-
  Lemmas/EpGeoTab.lean — finite geometry for en-passant legality: the squares of a ray from k are aligned with k in the ray's
  direction, and two neighbouring squares of a line stand in the same order to every third square of a ray.  Kernel tables.
-/
import ChessVerif.Lemmas.SingleCheckTab
namespace Chess

/-- x and y are on one line of the direction of ray r (r % 4: 0 anti-diagonal NW–SE, 1 file, 2 diagonal NE–SW, 3 rank) -/
def onLine (r x y : Nat) : Bool :=
  if r % 4 = 0 then x % 8 + x / 8 == y % 8 + y / 8
  else if r % 4 = 1 then x % 8 == y % 8
  else if r % 4 = 2 then x % 8 + y / 8 == y % 8 + x / 8
  else x / 8 == y / 8

def lineOK : Bool := (List.range 64).all fun k => (List.range 8).all fun r => (rayList k r).all fun x => onLine r k x && decide (x ≠ k)
theorem lineOK_true : lineOK = true := by decide +kernel

/-- b is the neighbour of a on a line of the direction of ray r -/
def lineStep (r a b : Nat) : Bool :=
  if r % 4 = 0 then (b == a + 7 && a % 8 != 0) || (a == b + 7 && b % 8 != 0)
  else if r % 4 = 1 then b == a + 8 || a == b + 8
  else if r % 4 = 2 then (b == a + 9 && a % 8 != 7) || (a == b + 9 && b % 8 != 7)
  else (b == a + 1 && a % 8 != 7) || (a == b + 1 && b % 8 != 7)

def adjOK : Bool :=
  (List.range 64).all fun k => (List.range 8).all fun r => (rayList k r).all fun a =>
    [a + 1, a - 1, a + 7, a - 7, a + 8, a - 8, a + 9, a - 9].all fun b =>
      !(decide (b < 64) && decide (b ≠ k) && lineStep r a b) ||
        ((rayList k r).contains b && (rayList k r).all fun c => c == a || c == b || thru (rayList k r) a c == thru (rayList k r) b c)
theorem adjOK_true : adjOK = true := by decide +kernel

theorem ray_aligned (k r x : Nat) (hk : k < 64) (hr : r < 8) (h : x ∈ rayList k r) : onLine r k x = true ∧ x ≠ k := by
  have ht := lineOK_true
  simp only [lineOK, List.all_eq_true, List.mem_range, Bool.and_eq_true, decide_eq_true_eq] at ht
  exact ht k hk r hr x h

theorem ray_adjacent (k r a b : Nat) (hk : k < 64) (hr : r < 8) (ha : a ∈ rayList k r) (hb : b < 64) (hbk : b ≠ k) (hstep : lineStep r a b = true) :
    b ∈ rayList k r ∧ ∀ c, c ∈ rayList k r → c ≠ a → c ≠ b → thru (rayList k r) a c = thru (rayList k r) b c := by
  have ht := adjOK_true
  simp only [adjOK, List.all_eq_true, List.mem_range] at ht
  have hcand : b ∈ [a + 1, a - 1, a + 7, a - 7, a + 8, a - 8, a + 9, a - 9] := by
    unfold lineStep at hstep
    simp only [List.mem_cons, List.not_mem_nil, or_false]
    split at hstep
    · simp only [Bool.or_eq_true, Bool.and_eq_true, beq_iff_eq, bne_iff_ne] at hstep; omega
    · split at hstep
      · simp only [Bool.or_eq_true, beq_iff_eq] at hstep; omega
      · split at hstep
        · simp only [Bool.or_eq_true, Bool.and_eq_true, beq_iff_eq, bne_iff_ne] at hstep; omega
        · simp only [Bool.or_eq_true, Bool.and_eq_true, beq_iff_eq, bne_iff_ne] at hstep; omega
  have h := ht k hk r hr a ha b hcand
  simp only [Bool.or_eq_true, Bool.not_eq_true', Bool.and_eq_true, Bool.and_eq_false_iff, decide_eq_true_eq, decide_eq_false_iff_not,
    List.all_eq_true, beq_iff_eq, List.contains_iff_mem] at h
  rcases h with ((h | h) | h) | h
  · exact absurd hb h
  · exact absurd hbk h
  · rw [hstep] at h; cases h
  · refine ⟨h.1, ?_⟩
    intro c hc hca hcb
    rcases h.2 c hc with (e | e) | e
    · exact absurd e hca
    · exact absurd e hcb
    · exact e

end Chess
