/-
  Lemmas/EpAttack.lean — who attacks the king after an en-passant capture: the bitboard attack test on the position with the capturer
  moved and the captured pawn removed, expressed through the pieces of the position before it and the changed occupancy.
-/
import ChessVerif.Lemmas.EpLegal
import ChessVerif.Lemmas.EpGeoTab
namespace Chess

theorem walk_reach_gen (L : List Nat) (occ : BB) (c : Nat) (hc : c ∈ L) (h : ∀ x, thru L x c = true → occ.testBit x = false) :
    (Spec.walk L occ).testBit c = true := by
  induction L with
  | nil => cases hc
  | cons x xs ih =>
    unfold Spec.walk
    rw [Nat.testBit_or, sqBB_testBit]
    by_cases hxc : x = c
    · simp [hxc]
    · have hcx : c ∈ xs := by
        rcases List.mem_cons.1 hc with e | e
        · exact absurd e.symm hxc
        · exact e
      have hx : occ.testBit x = false := by
        apply h
        unfold thru
        rw [if_neg hxc, if_pos rfl]; simpa using hcx
      rw [hx]
      simp only [Bool.false_eq_true, if_false, Bool.or_eq_true, decide_eq_true_eq]
      right
      apply ih hcx
      intro y hy
      apply h
      unfold thru
      rw [if_neg hxc]
      by_cases hxy : x = y
      · rw [if_pos hxy]; simpa using hcx
      · rw [if_neg hxy]; exact hy

/-- a ray walk reaches c exactly when c is on the ray and nothing before it is occupied -/
theorem walk_iff (L : List Nat) (occ : BB) (c : Nat) :
    (Spec.walk L occ).testBit c = true ↔ (c ∈ L ∧ ∀ x, thru L x c = true → occ.testBit x = false) := by
  constructor
  · intro h
    refine ⟨walk_mem L occ c h, ?_⟩
    intro x hx
    apply Bool.eq_false_iff.2
    intro ho
    have := walk_blocked L occ x c ho h
    rw [hx] at this; cases this
  · rintro ⟨h1, h2⟩; exact walk_reach_gen L occ c h1 h2

/-- the occupancy after an en-passant capture -/
def occEp (occ : BB) (f t cap : Nat) : BB := ((occ ^^^ sqBB f) ||| sqBB t) ^^^ sqBB cap

theorem occEp_testBit (occ : BB) (f t cap x : Nat) (hf : occ.testBit f = true) (hcap : occ.testBit cap = true) (ht : occ.testBit t = false)
    (hcf : cap ≠ f) (hct : cap ≠ t) :
    (occEp occ f t cap).testBit x = (decide (x = t) || (occ.testBit x && decide (x ≠ f) && decide (x ≠ cap))) := by
  unfold occEp
  rw [Nat.testBit_xor, Nat.testBit_or, Nat.testBit_xor, sqBB_testBit, sqBB_testBit, sqBB_testBit]
  by_cases e1 : x = t
  · subst e1
    have : ¬ cap = x := hct
    have h2 : ¬ f = x := by intro e; rw [e] at hf; rw [hf] at ht; cases ht
    simp [this, h2, ht]
  · by_cases e2 : x = f
    · subst e2
      have : ¬ cap = x := hcf
      have : ¬ t = x := fun e => e1 e.symm
      simp [*]
    · by_cases e3 : x = cap
      · subst e3
        have : ¬ f = x := fun e => e2 e.symm
        have : ¬ t = x := fun e => e1 e.symm
        simp [*]
      · have : ¬ f = x := fun e => e2 e.symm
        have : ¬ t = x := fun e => e1 e.symm
        have : ¬ cap = x := fun e => e3 e.symm
        simp [*]

/-- what it means for the piece on c to attack k over the occupancy occ -/
inductive ChecksOn (p : Position) (occ : BB) (k c : Nat) : Prop
  | pawn : (pawnAttacks p.side (sqBB k)).testBit c = true → ((BBs.of p).ck (1 - p.side) PAWN).testBit c = true → ChecksOn p occ k c
  | knight : (knightMask k).testBit c = true → ((BBs.of p).ck (1 - p.side) KNIGHT).testBit c = true → ChecksOn p occ k c
  | diag (r : Nat) : r < 8 → r % 2 = 0 → (Spec.walk (rayList k r) occ).testBit c = true →
      ((BBs.of p).ck (1 - p.side) BISHOP ||| (BBs.of p).ck (1 - p.side) QUEEN).testBit c = true → ChecksOn p occ k c
  | orth (r : Nat) : r < 8 → r % 2 = 1 → (Spec.walk (rayList k r) occ).testBit c = true →
      ((BBs.of p).ck (1 - p.side) ROOK ||| (BBs.of p).ck (1 - p.side) QUEEN).testBit c = true → ChecksOn p occ k c

theorem checksOn_all (p : Position) (k c : Nat) : ChecksOn p (BBs.of p).all k c ↔ Checks p k c := by
  constructor
  · intro h
    cases h with
    | pawn a b => exact Checks.pawn a b
    | knight a b => exact Checks.knight a b
    | diag r a b c d => exact Checks.diag r a b c d
    | orth r a b c d => exact Checks.orth r a b c d
  · intro h
    cases h with
    | pawn a b => exact ChecksOn.pawn a b
    | knight a b => exact ChecksOn.knight a b
    | diag r a b c d => exact ChecksOn.diag r a b c d
    | orth r a b c d => exact ChecksOn.orth r a b c d

end Chess

namespace Chess

/-- the bitboard attack test, as the existence of an attacking piece -/
theorem attacked_iff_checks (q : Position) (k : Nat) (hk : k < 64) : attackedBB q k q.side = true ↔ ∃ c, Checks q k c := by
  have hb := Props.C11_slider BISHOP k hk (BBs.of q).all
  have hr := Props.C11_slider ROOK k hk (BBs.of q).all
  simp [sliderAttack, Spec.rayWalk] at hb
  simp [sliderAttack, Spec.rayWalk, ROOK, BISHOP] at hr
  have hb' : bishopAttack k (BBs.of q).all = Spec.walkDirs Spec.bishopDirs k (BBs.of q).all := hb
  have hr' : rookAttack k (BBs.of q).all = Spec.walkDirs Spec.rookDirs k (BBs.of q).all := hr
  unfold attackedBB
  simp only [Bool.or_eq_true, decide_eq_true_eq]
  constructor
  · rintro (((h | h) | h) | h)
    · obtain ⟨c, h1, h2⟩ := (meets_iff _ _).1 h; exact ⟨c, Checks.pawn h1 h2⟩
    · obtain ⟨c, h1, h2⟩ := (meets_iff _ _).1 h; exact ⟨c, Checks.knight h1 h2⟩
    · obtain ⟨c, h1, h2⟩ := (meets_iff _ _).1 h
      rw [hb'] at h1
      unfold Spec.walkDirs at h1
      rw [walkDirs_testBit] at h1
      rcases h1 with h0 | ⟨d, hd, hw⟩
      · simp at h0
      · obtain ⟨r, hr8, hev, hrd⟩ := dir_ray_bishop d hd
        exact ⟨c, Checks.diag r hr8 hev (by unfold rayList; rw [hrd]; exact hw) h2⟩
    · obtain ⟨c, h1, h2⟩ := (meets_iff _ _).1 h
      rw [hr'] at h1
      unfold Spec.walkDirs at h1
      rw [walkDirs_testBit] at h1
      rcases h1 with h0 | ⟨d, hd, hw⟩
      · simp at h0
      · obtain ⟨r, hr8, hodd, hrd⟩ := dir_ray_rook d hd
        exact ⟨c, Checks.orth r hr8 hodd (by unfold rayList; rw [hrd]; exact hw) h2⟩
  · rintro ⟨c, hc⟩
    cases hc with
    | pawn h1 h2 => exact Or.inl (Or.inl (Or.inl (and_ne_zero_of_testBit _ _ c h1 h2)))
    | knight h1 h2 => exact Or.inl (Or.inl (Or.inr (and_ne_zero_of_testBit _ _ c h1 h2)))
    | diag r hr8 hev hw h2 =>
      refine Or.inl (Or.inr (and_ne_zero_of_testBit _ _ c ?_ h2))
      rw [hb']
      unfold Spec.walkDirs
      rw [walkDirs_testBit]
      exact Or.inr ⟨rayDirI r, (ray_dir_mem r hr8).1 hev, hw⟩
    | orth r hr8 hodd hw h2 =>
      refine Or.inr (and_ne_zero_of_testBit _ _ c ?_ h2)
      rw [hr']
      unfold Spec.walkDirs
      rw [walkDirs_testBit]
      exact Or.inr ⟨rayDirI r, (ray_dir_mem r hr8).2 hodd, hw⟩

/-- enemy pieces after the en-passant capture: the same, without the captured pawn -/
theorem ck_afterEp_enemy (p : Position) (ok : BoardOK p.board) (hs : p.side ≤ 1) (f t cap : Nat) (h : EpMove p f t cap) (K s : Nat) (hK : 1 ≤ K ∧ K ≤ 6) :
    ((BBs.of (afterPosEp p f t cap (mkPiece p.side PAWN))).ck (1 - p.side) K).testBit s =
      (((BBs.of p).ck (1 - p.side) K).testBit s && decide (s ≠ cap)) := by
  have hpc12 : mkPiece p.side PAWN ≤ 12 := by unfold mkPiece PAWN; rw [if_neg (by omega)]; omega
  have ho : 1 - p.side ≤ 1 := by omega
  rw [ck_afterEp p f t cap _ (1 - p.side) K s ok h.f64 h.t64 h.cap64 hpc12 ho hK, ck_testBit p (1 - p.side) K s ho hK.2 ok]
  have notOpp : ¬ (mkPiece p.side PAWN = mkPiece (1 - p.side) K) := by
    intro e
    have := (mkPiece_inj p.side PAWN (1 - p.side) K hs ho (by decide) hK e).1
    omega
  by_cases h3 : cap = s
  · subst h3; simp
  · have h3' : s ≠ cap := fun e => h3 e.symm
    by_cases h1 : t = s
    · subst h1
      have : ¬ (p.board[t]?.getD 0 = mkPiece (1 - p.side) K) := by rw [← List.getD_eq_getElem?_getD, h.empty]; exact fun e => mkPiece_ne_zero _ _ (by omega) e.symm
      simp [h3, h3', notOpp, this]
    · by_cases h2 : f = s
      · subst h2
        have : ¬ (p.board[f]?.getD 0 = mkPiece (1 - p.side) K) := by rw [← List.getD_eq_getElem?_getD, h.own]; exact notOpp
        simp [h3, h3', h1, this]
      · simp [h3, h3', h1, h2]

theorem all_afterEp' (p : Position) (ok : BoardOK p.board) (hs : p.side ≤ 1) (f t cap : Nat) (h : EpMove p f t cap) :
    (BBs.of (afterPosEp p f t cap (mkPiece p.side PAWN))).all = occEp (BBs.of p).all f t cap := by
  have hpc12 : mkPiece p.side PAWN ≤ 12 := by unfold mkPiece PAWN; rw [if_neg (by omega)]; omega
  exact all_afterEp p f t cap _ ok h.f64 h.t64 h.cap64 hpc12 (mkPiece_ne_zero _ _ (by decide)) (by rw [h.own]; exact mkPiece_ne_zero _ _ (by decide))
    (by rw [h.victim]; exact mkPiece_ne_zero _ _ (by decide)) h.ft h.capf h.capt

/-- THE ATTACKERS AFTER AN EN-PASSANT CAPTURE: pieces of the position before it other than the captured pawn, over the new occupancy -/
theorem attackers_afterEp (p : Position) (ok : BoardOK p.board) (hs : p.side ≤ 1) (f t cap : Nat) (h : EpMove p f t cap) (k : Nat) (hk : k < 64) :
    attackedBB (afterPosEp p f t cap (mkPiece p.side PAWN)) k p.side = true ↔
      ∃ c, c ≠ cap ∧ ChecksOn p (occEp (BBs.of p).all f t cap) k c := by
  have hq : (afterPosEp p f t cap (mkPiece p.side PAWN)).side = p.side := rfl
  have := attacked_iff_checks (afterPosEp p f t cap (mkPiece p.side PAWN)) k hk
  rw [hq] at this
  rw [this]
  have hall := all_afterEp' p ok hs f t cap h
  have ckq := fun K s hK => ck_afterEp_enemy p ok hs f t cap h K s hK
  have two : ∀ K1 K2 c, (1 ≤ K1 ∧ K1 ≤ 6) → (1 ≤ K2 ∧ K2 ≤ 6) →
      (((BBs.of (afterPosEp p f t cap (mkPiece p.side PAWN))).ck (1 - p.side) K1 ||| (BBs.of (afterPosEp p f t cap (mkPiece p.side PAWN))).ck (1 - p.side) K2).testBit c =
        ((((BBs.of p).ck (1 - p.side) K1 ||| (BBs.of p).ck (1 - p.side) K2).testBit c) && decide (c ≠ cap))) := by
    intro K1 K2 c h1 h2
    rw [Nat.testBit_or, Nat.testBit_or, ckq K1 c h1, ckq K2 c h2]
    cases ((BBs.of p).ck (1 - p.side) K1).testBit c <;> cases ((BBs.of p).ck (1 - p.side) K2).testBit c <;> simp
  constructor
  · rintro ⟨c, hc⟩
    cases hc with
    | pawn h1 h2 =>
      rw [hq, ckq PAWN c (by decide)] at h2
      simp only [Bool.and_eq_true, decide_eq_true_eq] at h2
      exact ⟨c, h2.2, ChecksOn.pawn h1 h2.1⟩
    | knight h1 h2 =>
      rw [hq, ckq KNIGHT c (by decide)] at h2
      simp only [Bool.and_eq_true, decide_eq_true_eq] at h2
      exact ⟨c, h2.2, ChecksOn.knight h1 h2.1⟩
    | diag r hr8 hev hw h2 =>
      rw [hq, two BISHOP QUEEN c (by decide) (by decide)] at h2
      simp only [Bool.and_eq_true, decide_eq_true_eq] at h2
      rw [hall] at hw
      exact ⟨c, h2.2, ChecksOn.diag r hr8 hev hw h2.1⟩
    | orth r hr8 hodd hw h2 =>
      rw [hq, two ROOK QUEEN c (by decide) (by decide)] at h2
      simp only [Bool.and_eq_true, decide_eq_true_eq] at h2
      rw [hall] at hw
      exact ⟨c, h2.2, ChecksOn.orth r hr8 hodd hw h2.1⟩
  · rintro ⟨c, hcc, hc⟩
    refine ⟨c, ?_⟩
    cases hc with
    | pawn h1 h2 => exact Checks.pawn h1 (by rw [hq, ckq PAWN c (by decide), h2]; simpa using hcc)
    | knight h1 h2 => exact Checks.knight h1 (by rw [hq, ckq KNIGHT c (by decide), h2]; simpa using hcc)
    | diag r hr8 hev hw h2 => exact Checks.diag r hr8 hev (by rw [hall]; exact hw) (by rw [hq, two BISHOP QUEEN c (by decide) (by decide), h2]; simpa using hcc)
    | orth r hr8 hodd hw h2 => exact Checks.orth r hr8 hodd (by rw [hall]; exact hw) (by rw [hq, two ROOK QUEEN c (by decide) (by decide), h2]; simpa using hcc)

end Chess
