/-
  Lemmas/Forbidden.lean — the generator's "forbidden squares" (squares attacked by the opponent with the own king x-rayed
  out, built as the UNION of every enemy piece's attack set) characterised per target square as the engine's four
  attacker tests on the occupancy without the king, plus the enemy king's neighbourhood.
-/
import ChessVerif.Lemmas.AttackSym
import ChessVerif.Lemmas.Undo
import ChessVerif.Model.Movegen
namespace Chess

/-- OR of `f s` over the set squares of X -/
theorem foldOr_testBit (X : BB) (f : Nat → BB) (acc : BB) (t : Nat) :
    ((bitsOf X).foldl (fun acc s => acc ||| f s) acc).testBit t = true ↔
      (acc.testBit t = true ∨ ∃ s, s < 64 ∧ X.testBit s = true ∧ (f s).testBit t = true) := by
  have gen : ∀ (l : List Nat) (acc : BB), (l.foldl (fun acc s => acc ||| f s) acc).testBit t = true ↔
      (acc.testBit t = true ∨ ∃ s, s ∈ l ∧ (f s).testBit t = true) := by
    intro l
    induction l with
    | nil => intro acc; simp
    | cons x xs ih =>
      intro acc
      simp only [List.foldl_cons]
      rw [ih, Nat.testBit_or]
      simp only [Bool.or_eq_true, List.mem_cons]
      constructor
      · rintro ((h | h) | ⟨s, hs, h⟩)
        · exact Or.inl h
        · exact Or.inr ⟨x, Or.inl rfl, h⟩
        · exact Or.inr ⟨s, Or.inr hs, h⟩
      · rintro (h | ⟨s, (rfl | hs), h⟩)
        · exact Or.inl (Or.inl h)
        · exact Or.inl (Or.inr h)
        · exact Or.inr ⟨s, hs, h⟩
  rw [gen]
  constructor
  · rintro (h | ⟨s, hs, h⟩)
    · exact Or.inl h
    · have := (mem_bitsOf X s).1 hs
      exact Or.inr ⟨s, this.1, this.2, h⟩
  · rintro (h | ⟨s, hs, hx, h⟩)
    · exact Or.inl h
    · exact Or.inr ⟨s, (mem_bitsOf X s).2 ⟨hs, hx⟩, h⟩

/-- symmetric leaper relations on all 64×64 pairs: knight and king masks, and "a pawn of colour c on s attacks t" vs
    "a pawn of the other colour on t attacks s" -/
def leaperSymOK : Bool :=
  (List.range 64).all fun s => (List.range 64).all fun t =>
    (knightMask s).testBit t == (knightMask t).testBit s && (kingMask s).testBit t == (kingMask t).testBit s &&
    (pawnAttacks 0 (sqBB s)).testBit t == (pawnAttacks 1 (sqBB t)).testBit s &&
    (pawnAttacks 1 (sqBB s)).testBit t == (pawnAttacks 0 (sqBB t)).testBit s

theorem leaperSymOK_true : leaperSymOK = true := by decide +kernel

theorem leaper_sym (s t : Nat) (hs : s < 64) (ht : t < 64) :
    (knightMask s).testBit t = (knightMask t).testBit s ∧ (kingMask s).testBit t = (kingMask t).testBit s ∧
    (pawnAttacks 0 (sqBB s)).testBit t = (pawnAttacks 1 (sqBB t)).testBit s ∧
    (pawnAttacks 1 (sqBB s)).testBit t = (pawnAttacks 0 (sqBB t)).testBit s := by
  have h := leaperSymOK_true
  simp only [leaperSymOK, List.all_eq_true, List.mem_range, Bool.and_eq_true, beq_iff_eq] at h
  obtain ⟨⟨⟨a, b⟩, c⟩, d⟩ := h s hs t ht
  exact ⟨a, b, c, d⟩

/-- masks only have bits on the board -/
def maskRangeOK : Bool :=
  (List.range 64).all fun s => decide (knightMask s < two64) && decide (kingMask s < two64) &&
    decide (pawnAttacks 0 (sqBB s) < two64) && decide (pawnAttacks 1 (sqBB s) < two64)
theorem maskRangeOK_true : maskRangeOK = true := by decide +kernel

/-- "some set square s of X has t in g s"  ⇔  "the reverse set of t meets X" -/
theorem exists_iff_meets (X : BB) (g g' : Nat → BB) (t : Nat) (hsym : ∀ s, s < 64 → (g s).testBit t = (g' t).testBit s)
    (hrange : ∀ s, (g' t).testBit s = true → s < 64) :
    (∃ s, s < 64 ∧ X.testBit s = true ∧ (g s).testBit t = true) ↔ (g' t &&& X ≠ 0) := by
  constructor
  · rintro ⟨s, hs, hx, hg⟩
    exact and_ne_zero_of_testBit _ _ s (by rw [← hsym s hs]; exact hg) hx
  · intro h
    obtain ⟨s, hb⟩ := Nat.exists_testBit_of_ne_zero h
    rw [Nat.testBit_and] at hb
    simp only [Bool.and_eq_true] at hb
    have hs := hrange s hb.1
    exact ⟨s, hs, hb.2, by rw [hsym s hs]; exact hb.1⟩

theorem testBit_lt_of_lt_two64 (x : Nat) (h : x < two64) (s : Nat) (hb : x.testBit s = true) : s < 64 := by
  by_cases hs : s < 64
  · exact hs
  · exfalso
    have : x.testBit s = false := by
      apply Nat.testBit_lt_two_pow
      have e : two64 = 2 ^ 64 := by decide
      rw [e] at h
      exact Nat.lt_of_lt_of_le h (Nat.pow_le_pow_right (by decide) (by omega))
    rw [this] at hb; cases hb

end Chess

namespace Chess

theorem orOver_testBit_gen (bb : BB) (g : Nat → BB) (l : List Nat) (acc : BB) (j : Nat) :
    (orOver bb g l acc).testBit j = true ↔ (acc.testBit j = true ∨ ∃ s, s ∈ l ∧ bb.testBit s = true ∧ (g s).testBit j = true) := by
  induction l generalizing acc with
  | nil => simp [orOver]
  | cons x xs ih =>
    unfold orOver at *
    simp only [List.foldl_cons]
    rw [ih]
    by_cases hx : bb.testBit x = true
    · rw [if_pos hx, Nat.testBit_or]
      simp only [Bool.or_eq_true, List.mem_cons]
      constructor
      · rintro ((h | h) | ⟨s, hs, hb, h⟩)
        · exact Or.inl h
        · exact Or.inr ⟨x, Or.inl rfl, hx, h⟩
        · exact Or.inr ⟨s, Or.inr hs, hb, h⟩
      · rintro (h | ⟨s, (rfl | hs), hb, h⟩)
        · exact Or.inl (Or.inl h)
        · exact Or.inl (Or.inr h)
        · exact Or.inr ⟨s, hs, hb, h⟩
    · rw [if_neg hx]
      simp only [List.mem_cons]
      constructor
      · rintro (h | ⟨s, hs, hb, h⟩)
        · exact Or.inl h
        · exact Or.inr ⟨s, Or.inr hs, hb, h⟩
      · rintro (h | ⟨s, (rfl | hs), hb, h⟩)
        · exact Or.inl h
        · exact absurd hb hx
        · exact Or.inr ⟨s, hs, hb, h⟩

/-- pawn attacks of a set of pawns, per target square -/
theorem pawnAttacks_testBit (c : Nat) (bb : BB) (hb : bb < two64) (t : Nat) :
    (pawnAttacks c bb).testBit t = true ↔ ∃ s, s < 64 ∧ bb.testBit s = true ∧ (pawnAttacks c (sqBB s)).testBit t = true := by
  have := orOver_hom bb c (List.range 64) 0
  rw [bb_as_union bb hb, pawnAttacks_zero] at this
  rw [this, orOver_testBit_gen]
  simp only [Nat.zero_testBit, List.mem_range]
  constructor
  · rintro (h | ⟨s, hs, a, b⟩)
    · cases h
    · exact ⟨s, hs, a, b⟩
  · rintro ⟨s, hs, a, b⟩; exact Or.inr ⟨s, hs, a, b⟩

theorem bbOfPiece_lt (board : List Nat) (pc : Nat) (hl : board.length = 64) : bbOfPiece board pc < two64 := by
  have e : two64 = 2 ^ 64 := by decide
  rw [e]
  apply Nat.lt_pow_two_of_testBit
  intro j hj
  rw [bbOfPiece_testBit, hl]
  have : ¬ j < 64 := by omega
  simp [this]

end Chess

namespace Chess

theorem slider_range (s occ : BB) (hs : s < 64) (t : Nat) :
    ((bishopAttack s occ).testBit t = true → t < 64) ∧ ((rookAttack s occ).testBit t = true → t < 64) := by
  have hb : bishopAttack s occ = Spec.bishopWalk s occ := by
    have := Props.C11_slider BISHOP s hs occ; simpa [sliderAttack, Spec.rayWalk] using this
  have hr : rookAttack s occ = Spec.rookWalk s occ := by
    have := Props.C11_slider ROOK s hs occ; simpa [sliderAttack, Spec.rayWalk, ROOK, BISHOP] using this
  have key : ∀ dirs, (∀ d, d ∈ dirs → d ∈ allDirs) → (Spec.walkDirs dirs s occ).testBit t = true → t < 64 := by
    intro dirs hsub h
    unfold Spec.walkDirs at h
    rw [walkDirs_testBit] at h
    rcases h with h | ⟨d, hd, h⟩
    · simp at h
    · obtain ⟨i, hi, hti, _⟩ := (walk_testBit _ _ _).1 h
      have := (ray_rev s hs d (hsub d hd) i hi).1
      rw [getD_inrange _ i 64 0 hi, hti] at this
      exact this
  constructor
  · rw [hb]; exact key Spec.bishopDirs (by intro d hd; simp [Spec.bishopDirs] at hd; rcases hd with rfl | rfl | rfl | rfl <;> decide)
  · rw [hr]; exact key Spec.rookDirs (by intro d hd; simp [Spec.rookDirs] at hd; rcases hd with rfl | rfl | rfl | rfl <;> decide)

/-- FORBIDDEN SQUARES, per target square: t is forbidden for the king iff one of the engine's four attacker tests fires at t
    on the occupancy without the own king, or t is next to the enemy king -/
theorem forbidden_testBit (p : Position) (side t : Nat) (hside : side ≤ 1) (ht : t < 64) (ok : BoardOK p.board) :
    let b := BBs.of p
    let opp := 1 - side
    let blockers := b.all ^^^ sqBB (kingSq p.board side)
    (forbiddenSquares b p.board side).testBit t = true ↔
      ((pawnAttacks side (sqBB t) &&& b.ck opp PAWN ≠ 0) ∨ (knightMask t &&& b.ck opp KNIGHT ≠ 0) ∨
       (bishopAttack t blockers &&& (b.ck opp BISHOP ||| b.ck opp QUEEN) ≠ 0) ∨
       (rookAttack t blockers &&& (b.ck opp ROOK ||| b.ck opp QUEEN) ≠ 0) ∨
       (kingMask (kingSq p.board (1 - side))).testBit t = true) := by
  intro b opp blockers
  have hopp : opp ≤ 1 := by show 1 - side ≤ 1; omega
  have hmr := maskRangeOK_true
  simp only [maskRangeOK, List.all_eq_true, List.mem_range, Bool.and_eq_true, decide_eq_true_eq] at hmr
  obtain ⟨⟨⟨mk1, mk2⟩, mp0⟩, mp1⟩ := hmr t ht
  have ckb : ∀ k, k ≤ 6 → b.ck opp k < two64 := by
    intro k hk; rw [ck_eq p opp k hopp hk]; exact bbOfPiece_lt _ _ ok.len
  unfold forbiddenSquares
  simp only []
  rw [Nat.testBit_or, Bool.or_eq_true, foldOr_testBit, foldOr_testBit, foldOr_testBit, foldOr_testBit]
  -- the pawn part
  have hpawn : (if side = 1 then shift .NW (b.ck (1 - side) PAWN) ||| shift .NE (b.ck (1 - side) PAWN)
                else shift .SE (b.ck (1 - side) PAWN) ||| shift .SW (b.ck (1 - side) PAWN)).testBit t = true ↔
      (pawnAttacks side (sqBB t) &&& b.ck opp PAWN ≠ 0) := by
    have e : (if side = 1 then shift .NW (b.ck (1 - side) PAWN) ||| shift .NE (b.ck (1 - side) PAWN)
                else shift .SE (b.ck (1 - side) PAWN) ||| shift .SW (b.ck (1 - side) PAWN)) = pawnAttacks opp (b.ck opp PAWN) := by
      have : side = 0 ∨ side = 1 := by omega
      rcases this with rfl | rfl
      · show shift .SE _ ||| shift .SW _ = pawnAttacks 1 _
        unfold pawnAttacks; simp [Nat.or_comm]; rfl
      · show shift .NW _ ||| shift .NE _ = pawnAttacks 0 _
        unfold pawnAttacks; simp; rfl
    rw [e, pawnAttacks_testBit opp _ (ckb PAWN (by decide))]
    apply exists_iff_meets (b.ck opp PAWN) (fun s => pawnAttacks opp (sqBB s)) (fun t => pawnAttacks side (sqBB t)) t
    · intro s hs
      obtain ⟨_, _, s0, s1⟩ := leaper_sym s t hs ht
      have : side = 0 ∨ side = 1 := by omega
      rcases this with rfl | rfl
      · exact s1
      · exact s0
    · intro s hb
      have : side = 0 ∨ side = 1 := by omega
      rcases this with rfl | rfl
      · exact testBit_lt_of_lt_two64 _ mp0 s hb
      · exact testBit_lt_of_lt_two64 _ mp1 s hb
  have hknight : (∃ s, s < 64 ∧ (b.ck (1 - side) KNIGHT).testBit s = true ∧ (knightMask s).testBit t = true) ↔
      (knightMask t &&& b.ck opp KNIGHT ≠ 0) :=
    exists_iff_meets (b.ck opp KNIGHT) knightMask knightMask t (fun s hs => (leaper_sym s t hs ht).1)
      (fun s hb => testBit_lt_of_lt_two64 _ mk1 s hb)
  have hslider : ∀ (X : BB) (att : Nat → BB → BB), (∀ s, s < 64 → (att s blockers).testBit t = (att t blockers).testBit s) →
      (∀ s, (att t blockers).testBit s = true → s < 64) →
      ((∃ s, s < 64 ∧ X.testBit s = true ∧ (att s blockers).testBit t = true) ↔ (att t blockers &&& X ≠ 0)) :=
    fun X att h1 h2 => exists_iff_meets X (fun s => att s blockers) (fun t => att t blockers) t h1 h2
  have hB := hslider (b.ck (1 - side) BISHOP) bishopAttack (fun s hs => bishopAttack_sym s t hs ht blockers) (fun s hb => (slider_range t blockers ht s).1 hb)
  have hR := hslider (b.ck (1 - side) ROOK) rookAttack (fun s hs => rookAttack_sym s t hs ht blockers) (fun s hb => (slider_range t blockers ht s).2 hb)
  have hQ : (∃ s, s < 64 ∧ (b.ck (1 - side) QUEEN).testBit s = true ∧ (queenAttack s blockers).testBit t = true) ↔
      ((bishopAttack t blockers &&& b.ck opp QUEEN ≠ 0) ∨ (rookAttack t blockers &&& b.ck opp QUEEN ≠ 0)) := by
    have hQB := hslider (b.ck (1 - side) QUEEN) bishopAttack (fun s hs => bishopAttack_sym s t hs ht blockers) (fun s hb => (slider_range t blockers ht s).1 hb)
    have hQR := hslider (b.ck (1 - side) QUEEN) rookAttack (fun s hs => rookAttack_sym s t hs ht blockers) (fun s hb => (slider_range t blockers ht s).2 hb)
    rw [← hQB, ← hQR]
    unfold queenAttack
    constructor
    · rintro ⟨s, hs, hx, hq⟩
      rw [Nat.testBit_or, Bool.or_eq_true] at hq
      rcases hq with h | h
      · exact Or.inl ⟨s, hs, hx, h⟩
      · exact Or.inr ⟨s, hs, hx, h⟩
    · rintro (⟨s, hs, hx, h⟩ | ⟨s, hs, hx, h⟩)
      · exact ⟨s, hs, hx, by rw [Nat.testBit_or, h]; rfl⟩
      · exact ⟨s, hs, hx, by rw [Nat.testBit_or, h]; simp⟩
  rw [hpawn, hknight, hB, hR, hQ]
  have sB : (bishopAttack t blockers &&& (b.ck opp BISHOP ||| b.ck opp QUEEN) ≠ 0) ↔
      ((bishopAttack t blockers &&& b.ck opp BISHOP ≠ 0) ∨ (bishopAttack t blockers &&& b.ck opp QUEEN ≠ 0)) := by
    rw [Nat.and_comm, or_and_ne_zero, Nat.and_comm, Nat.and_comm (b.ck opp QUEEN)]
  have sR : (rookAttack t blockers &&& (b.ck opp ROOK ||| b.ck opp QUEEN) ≠ 0) ↔
      ((rookAttack t blockers &&& b.ck opp ROOK ≠ 0) ∨ (rookAttack t blockers &&& b.ck opp QUEEN ≠ 0)) := by
    rw [Nat.and_comm, or_and_ne_zero, Nat.and_comm, Nat.and_comm (b.ck opp QUEEN)]
  rw [sB, sR]
  show _ ↔ _
  constructor
  · rintro (((((h | h) | h) | h) | (h | h)) | h)
    · exact Or.inl h
    · exact Or.inr (Or.inl h)
    · exact Or.inr (Or.inr (Or.inl (Or.inl h)))
    · exact Or.inr (Or.inr (Or.inr (Or.inl (Or.inl h))))
    · exact Or.inr (Or.inr (Or.inl (Or.inr h)))
    · exact Or.inr (Or.inr (Or.inr (Or.inl (Or.inr h))))
    · exact Or.inr (Or.inr (Or.inr (Or.inr h)))
  · rintro (h | h | (h | h) | (h | h) | h)
    · exact Or.inl (Or.inl (Or.inl (Or.inl (Or.inl h))))
    · exact Or.inl (Or.inl (Or.inl (Or.inl (Or.inr h))))
    · exact Or.inl (Or.inl (Or.inl (Or.inr h)))
    · exact Or.inl (Or.inr (Or.inl h))
    · exact Or.inl (Or.inl (Or.inr h))
    · exact Or.inl (Or.inr (Or.inr h))
    · exact Or.inr h

end Chess

namespace Chess

/-- the position with the own king lifted off the board -/
def withoutKing (p : Position) (k : Nat) : Position := { p with board := p.board.set k 0 }

theorem withoutKing_boardOK (p : Position) (k : Nat) (ok : BoardOK p.board) : BoardOK (withoutKing p k).board := by
  refine ⟨by show (p.board.set k 0).length = 64; simp [ok.len], ?_⟩
  intro s
  show (p.board.set k 0).getD s 0 ≤ 12
  have : (p.board.set k 0).getD s 0 = gd (p.board.set k 0) s := rfl
  rw [this, gd_set]
  split
  · omega
  · exact ok.codes s

theorem withoutKing_ck (p : Position) (side k kind : Nat) (hside : side ≤ 1) (hkind : 1 ≤ kind ∧ kind ≤ 6)
    (hk : p.board.getD k 0 = mkPiece side KING) :
    (BBs.of (withoutKing p k)).ck (1 - side) kind = (BBs.of p).ck (1 - side) kind := by
  rw [ck_eq _ _ _ (by omega) hkind.2, ck_eq _ _ _ (by omega) hkind.2]
  apply Nat.eq_of_testBit_eq
  intro s
  rw [bbOfPiece_testBit, bbOfPiece_testBit]
  show (decide (s < (p.board.set k 0).length) && decide ((p.board.set k 0).getD s 0 = _)) = _
  have e : (p.board.set k 0).getD s 0 = gd (p.board.set k 0) s := rfl
  rw [e, gd_set, List.length_set]
  by_cases hks : k = s ∧ k < p.board.length
  · rw [if_pos hks]
    obtain ⟨rfl, _⟩ := hks
    have h1 : ¬ (0 = mkPiece (1 - side) kind) := by unfold mkPiece; rw [if_neg (by omega)]; omega
    have h2 : ¬ (p.board.getD k 0 = mkPiece (1 - side) kind) := by
      rw [hk]; intro he
      have := mkPiece_inj side KING (1 - side) kind hside (by omega) (by decide) hkind he
      omega
    have h2' : ¬ (p.board[k]?.getD 0 = mkPiece (1 - side) kind) := by rw [← List.getD_eq_getElem?_getD]; exact h2
    simp [h1, h2']
  · rw [if_neg hks]; rfl

theorem withoutKing_all (p : Position) (side k : Nat) (hside : side ≤ 1) (ok : BoardOK p.board) (hk : KingAt p.board side k) :
    (BBs.of (withoutKing p k)).all = (BBs.of p).all ^^^ sqBB k := by
  apply Nat.eq_of_testBit_eq
  intro s
  rw [all_testBit _ s (withoutKing_boardOK p k ok), Nat.testBit_xor, all_testBit p s ok, sqBB_testBit]
  show (decide (s < 64) && decide ((p.board.set k 0).getD s 0 ≠ 0)) = _
  have e : (p.board.set k 0).getD s 0 = gd (p.board.set k 0) s := rfl
  rw [e, gd_set]
  by_cases hks : k = s
  · subst hks
    have hne : p.board.getD k 0 ≠ 0 := by rw [hk.here]; exact mkPiece_ne_zero _ _ (by decide)
    have hl : k < p.board.length := by rw [ok.len]; exact hk.lt
    have hne' : ¬ p.board[k] = 0 := by
      have : p.board.getD k 0 = p.board[k] := by simp [List.getD, hl]
      rw [← this]; exact hne
    simp [hk.lt, hl, hne']
  · have : ¬ (k = s ∧ k < p.board.length) := fun h => hks h.1
    rw [if_neg this]
    simp [hks]; rfl

/-- "next to the enemy king", rules-level = mask-level -/
theorem kingNear_iff_mask (b : List Nat) (t c kq : Nat) (ht : t < 64) (hk : KingAt b c kq) :
    kingNear b t c = (kingMask kq).testBit t := by
  have hm : Spec.mkPc c 6 = mkPiece c KING := mkPc_eq' _ 6 (by decide)
  have hsym := (leaper_sym kq t hk.lt ht).2.1
  rw [hsym, (Props.C11_leapers t ht).2]
  unfold Spec.kingSet
  apply Bool.eq_iff_iff.2
  have hmeet := leaperSet_meets Spec.kingSteps t (sqBB kq)
  rw [Nat.and_comm, sqBB_and_ne_zero] at hmeet
  rw [hmeet]
  unfold kingNear
  have hks : Spec.kingSteps = Spec.kingOffs := rfl
  rw [hks]
  simp only [List.any_eq_true, Bool.and_eq_true, decide_eq_true_eq]
  constructor
  · rintro ⟨d, hd, hon, hpc⟩
    refine ⟨d, hd, hon, ?_⟩
    rw [hm, pcAt_eq'] at hpc
    have := hk.only _ (sqOf_lt' _ _ hon) hpc
    rw [this, sqBB_testBit]; simp
  · rintro ⟨d, hd, hon, hbit⟩
    refine ⟨d, hd, hon, ?_⟩
    rw [sqBB_testBit] at hbit
    have : kq = Spec.sqOf (Spec.fileI t + d.1) (Spec.rankI t + d.2) := by simpa using hbit
    rw [← this, hm, pcAt_eq']; exact hk.here
where
  sqOf_lt' : ∀ (f r : Int), Spec.onBoard f r = true → Spec.sqOf f r < 64 := by
    intro f r h
    unfold Spec.onBoard at h
    simp only [Bool.and_eq_true, decide_eq_true_eq] at h
    unfold Spec.sqOf; omega

/-- FORBIDDEN = ATTACKED WITH THE KING X-RAYED: the generator's forbidden-squares set, per target square, is the rules'
    "attacked by the opponent" on the board from which the own king has been lifted -/
theorem forbidden_eq_attacked (p : Position) (side t k kq : Nat) (hside : side ≤ 1) (ht : t < 64) (ok : BoardOK p.board)
    (hk : KingAt p.board side k) (hkq : KingAt p.board (1 - side) kq) :
    (forbiddenSquares (BBs.of p) p.board side).testBit t = Spec.attacked (p.board.set k 0) t (1 - side) := by
  have hks : kingSq p.board side = k := kingSq_eq p.board side k ok.len hk
  have hkqs : kingSq p.board (1 - side) = kq := kingSq_eq p.board (1 - side) kq ok.len hkq
  have hne : k ≠ kq := by
    intro e; rw [e] at hk
    have := hk.here; rw [hkq.here] at this
    have := mkPiece_inj (1 - side) KING side KING (by omega) hside (by decide) (by decide) this
    omega
  have hkq' : KingAt (withoutKing p k).board (1 - side) kq := by
    refine ⟨hkq.lt, ?_, ?_⟩
    · show (p.board.set k 0).getD kq 0 = _
      have e : (p.board.set k 0).getD kq 0 = gd (p.board.set k 0) kq := rfl
      rw [e, gd_set, if_neg (fun h => hne h.1)]; exact hkq.here
    · intro s hs hpc
      apply hkq.only s hs
      have e : (p.board.set k 0).getD s 0 = gd (p.board.set k 0) s := rfl
      have hpc' : gd (p.board.set k 0) s = mkPiece (1 - side) KING := hpc
      rw [gd_set] at hpc'
      by_cases hc : k = s ∧ k < p.board.length
      · rw [if_pos hc] at hpc'
        exact absurd hpc'.symm (mkPiece_ne_zero _ _ (by decide))
      · rw [if_neg hc] at hpc'; exact hpc'
  have hA := attacked_eq (withoutKing p k) t side hside ht (withoutKing_boardOK p k ok)
  show _ = Spec.attacked (withoutKing p k).board t (1 - side)
  rw [← hA]
  apply Bool.eq_iff_iff.2
  have hF := forbidden_testBit p side t hside ht ok
  simp only [] at hF
  rw [hF]
  simp only [hks, hkqs]
  unfold attackedBB
  simp only [Bool.or_eq_true, decide_eq_true_eq]
  rw [withoutKing_ck p side k PAWN hside (by decide) hk.here, withoutKing_ck p side k KNIGHT hside (by decide) hk.here,
    withoutKing_ck p side k BISHOP hside (by decide) hk.here, withoutKing_ck p side k ROOK hside (by decide) hk.here,
    withoutKing_ck p side k QUEEN hside (by decide) hk.here, withoutKing_all p side k hside ok hk,
    kingNear_iff_mask _ t (1 - side) kq ht hkq']
  constructor
  · rintro (h | h | h | h | h)
    · exact Or.inl (Or.inl (Or.inl (Or.inl h)))
    · exact Or.inl (Or.inl (Or.inl (Or.inr h)))
    · exact Or.inl (Or.inl (Or.inr h))
    · exact Or.inl (Or.inr h)
    · exact Or.inr h
  · rintro ((((h | h) | h) | h) | h)
    · exact Or.inl h
    · exact Or.inr (Or.inl h)
    · exact Or.inr (Or.inr (Or.inl h))
    · exact Or.inr (Or.inr (Or.inr (Or.inl h)))
    · exact Or.inr (Or.inr (Or.inr (Or.inr h)))

end Chess
