/-
  Lemmas/SliderExact.lean — when the side to move is not in check, the moves the generator emits for a bishop, rook or queen that the
  pin scan does not name are exactly the rules' legal moves of that piece: the rules' coordinate walk (`Spec.slide`) and the bitboard
  ray walk reach the same squares once own pieces are filtered out.
-/
import ChessVerif.Lemmas.KnightExact
namespace Chess

theorem isEnemy_iff_notOwn (pc c : Nat) (h : pc ≠ 0) : Spec.isEnemy pc c = !Spec.isOwn pc c := by
  unfold Spec.isEnemy Spec.isOwn
  simp [h]

/-- the rules' walk along one direction against the bitboard walk over the same coordinates -/
theorem slide_walk (b : List Nat) (occ : BB) (c : Nat) (d : Int × Int) (n : Nat) (f r : Int) (t : Nat)
    (hocc : ∀ s, s < 64 → (occ.testBit s = true ↔ b.getD s 0 ≠ 0)) :
    t ∈ Spec.slide b c d n f r ↔ ((Spec.walk (Spec.rayCoords d.1 d.2 n f r) occ).testBit t = true ∧ Spec.isOwn (Spec.pcAt b t) c = false) := by
  induction n generalizing f r with
  | zero => simp [Spec.slide, Spec.rayCoords, Spec.walk]
  | succ n ih =>
    unfold Spec.slide Spec.rayCoords
    simp only []
    have hon : Spec.onBoard (f + d.1) (r + d.2) = true ↔ (0 ≤ f + d.1 ∧ f + d.1 < 8 ∧ 0 ≤ r + d.2 ∧ r + d.2 < 8) := by
      unfold Spec.onBoard
      simp only [Bool.and_eq_true, decide_eq_true_eq]
      constructor
      · rintro ⟨⟨⟨a, b⟩, c⟩, d⟩; exact ⟨a, b, c, d⟩
      · rintro ⟨a, b, c, d⟩; exact ⟨⟨⟨a, b⟩, c⟩, d⟩
    by_cases hb : (0 ≤ f + d.1 ∧ f + d.1 < 8 ∧ 0 ≤ r + d.2 ∧ r + d.2 < 8)
    · rw [if_pos (hon.2 hb), if_pos hb]
      have hsq : Spec.sqOf (f + d.1) (r + d.2) = ((r + d.2) * 8 + (f + d.1)).toNat := rfl
      have hlt : ((r + d.2) * 8 + (f + d.1)).toNat < 64 := by omega
      rw [hsq]
      generalize ((r + d.2) * 8 + (f + d.1)).toNat = sq at *
      unfold Spec.walk
      rw [Nat.testBit_or, sqBB_testBit]
      by_cases hz : Spec.pcAt b sq = 0
      · rw [if_pos hz]
        have hno : ¬ occ.testBit sq = true := fun h => ((hocc sq hlt).1 h) hz
        rw [if_neg hno, List.mem_cons, ih]
        constructor
        · rintro (rfl | ⟨h1, h2⟩)
          · exact ⟨by simp, by rw [hz]; exact notOwn_of_empty c⟩
          · exact ⟨by rw [h1]; simp, h2⟩
        · rintro ⟨h1, h2⟩
          by_cases e : sq = t
          · left; exact e.symm
          · right
            have : decide (sq = t) = false := by simp [e]
            rw [this, Bool.false_or] at h1
            exact ⟨h1, h2⟩
      · rw [if_neg hz]
        have hyes : occ.testBit sq = true := (hocc sq hlt).2 hz
        rw [if_pos hyes]
        by_cases he : Spec.isEnemy (Spec.pcAt b sq) c = true
        · rw [if_pos he, List.mem_singleton]
          constructor
          · rintro rfl
            refine ⟨by simp, ?_⟩
            rw [isEnemy_iff_notOwn _ _ hz] at he
            simpa using he
          · rintro ⟨h1, _⟩
            simp at h1
            exact h1.symm
        · rw [if_neg he]
          constructor
          · intro h; simp at h
          · rintro ⟨h1, h2⟩
            exfalso
            simp at h1
            rw [← h1] at h2
            rw [isEnemy_iff_notOwn _ _ hz, h2] at he
            simp at he
    · rw [if_neg (fun h => hb (hon.1 h)), if_neg hb]
      simp [Spec.walk]

theorem occ_board (p : Position) (ok : BoardOK p.board) : ∀ s, s < 64 → (((BBs.of p).all).testBit s = true ↔ p.board.getD s 0 ≠ 0) := by
  intro s hs
  rw [all_testBit p s ok]
  simp [hs]

/-- squares reached by the generator for a slider of kind K = squares the rules reach along the directions of that kind -/
theorem slider_targets (p : Position) (ok : BoardOK p.board) (hs : p.side ≤ 1) (K s t : Nat) (hK : K = BISHOP ∨ K = ROOK ∨ K = QUEEN)
    (hs64 : s < 64) (ht : t < 64) :
    (sliderAttack K s (BBs.of p).all &&& ((BBs.of p).color (1 - p.side) ||| bnot (BBs.of p).all)).testBit t = true ↔
      ∃ d, d ∈ (if K = BISHOP then Spec.diagDirs else if K = ROOK then Spec.orthoDirs else Spec.diagDirs ++ Spec.orthoDirs) ∧
        t ∈ Spec.slide p.board p.side d 7 (Spec.fileI s) (Spec.rankI s) := by
  rw [Nat.testBit_and, target_testBit p ok hs t ht, Props.C11_slider K s hs64]
  have hw : ∀ d, (t ∈ Spec.slide p.board p.side d 7 (Spec.fileI s) (Spec.rankI s) ↔
      ((Spec.walk (Spec.raySquares s d.1 d.2) (BBs.of p).all).testBit t = true ∧ Spec.isOwn (Spec.pcAt p.board t) p.side = false)) := by
    intro d
    exact slide_walk p.board (BBs.of p).all p.side d 7 _ _ t (occ_board p ok)
  have hB : ∀ X : BB, (Spec.walkDirs Spec.bishopDirs s X).testBit t = true ↔ ∃ d, d ∈ Spec.diagDirs ∧ (Spec.walk (Spec.raySquares s d.1 d.2) X).testBit t = true := by
    intro X
    unfold Spec.walkDirs
    rw [walkDirs_testBit]
    simp only [Nat.zero_testBit, Bool.false_eq_true, false_or]
    constructor
    · rintro ⟨d, hd, h⟩
      refine ⟨d, ?_, h⟩
      simp [Spec.bishopDirs] at hd
      simp [Spec.diagDirs]
      rcases hd with rfl | rfl | rfl | rfl <;> simp
    · rintro ⟨d, hd, h⟩
      refine ⟨d, ?_, h⟩
      simp [Spec.diagDirs] at hd
      simp [Spec.bishopDirs]
      rcases hd with rfl | rfl | rfl | rfl <;> simp
  have hR : ∀ X : BB, (Spec.walkDirs Spec.rookDirs s X).testBit t = true ↔ ∃ d, d ∈ Spec.orthoDirs ∧ (Spec.walk (Spec.raySquares s d.1 d.2) X).testBit t = true := by
    intro X
    unfold Spec.walkDirs
    rw [walkDirs_testBit]
    simp only [Nat.zero_testBit, Bool.false_eq_true, false_or]
    constructor
    · rintro ⟨d, hd, h⟩
      refine ⟨d, ?_, h⟩
      simp [Spec.rookDirs] at hd
      simp [Spec.orthoDirs]
      rcases hd with rfl | rfl | rfl | rfl <;> simp
    · rintro ⟨d, hd, h⟩
      refine ⟨d, ?_, h⟩
      simp [Spec.orthoDirs] at hd
      simp [Spec.rookDirs]
      rcases hd with rfl | rfl | rfl | rfl <;> simp
  simp only [Bool.and_eq_true, Bool.not_eq_true']
  rcases hK with rfl | rfl | rfl
  · simp only [Spec.rayWalk, Spec.bishopWalk, if_true]
    rw [hB]
    constructor
    · rintro ⟨⟨d, hd, h⟩, h2⟩; exact ⟨d, hd, (hw d).2 ⟨h, h2⟩⟩
    · rintro ⟨d, hd, h⟩; exact ⟨⟨d, hd, ((hw d).1 h).1⟩, ((hw d).1 h).2⟩
  · have e1 : ¬ (ROOK = BISHOP) := by decide
    simp only [Spec.rayWalk, Spec.rookWalk, e1, if_false, if_true]
    rw [hR]
    constructor
    · rintro ⟨⟨d, hd, h⟩, h2⟩; exact ⟨d, hd, (hw d).2 ⟨h, h2⟩⟩
    · rintro ⟨d, hd, h⟩; exact ⟨⟨d, hd, ((hw d).1 h).1⟩, ((hw d).1 h).2⟩
  · have e1 : ¬ (QUEEN = BISHOP) := by decide
    have e2 : ¬ (QUEEN = ROOK) := by decide
    simp only [Spec.rayWalk, Spec.queenWalk, Spec.bishopWalk, Spec.rookWalk, e1, e2, if_false]
    rw [Nat.testBit_or, Bool.or_eq_true, hB, hR]
    constructor
    · rintro ⟨(⟨d, hd, h⟩ | ⟨d, hd, h⟩), h2⟩
      · exact ⟨d, List.mem_append_left _ hd, (hw d).2 ⟨h, h2⟩⟩
      · exact ⟨d, List.mem_append_right _ hd, (hw d).2 ⟨h, h2⟩⟩
    · rintro ⟨d, hd, h⟩
      rcases List.mem_append.1 hd with hd | hd
      · exact ⟨Or.inl ⟨d, hd, ((hw d).1 h).1⟩, ((hw d).1 h).2⟩
      · exact ⟨Or.inr ⟨d, hd, ((hw d).1 h).1⟩, ((hw d).1 h).2⟩

end Chess

namespace Chess

def dirsOf (K : Nat) : List (Int × Int) := if K = BISHOP then Spec.diagDirs else if K = ROOK then Spec.orthoDirs else Spec.diagDirs ++ Spec.orthoDirs

/-- C01 for unpinned bishops, rooks and queens out of check: generated = legal -/
theorem slider_exact (p : Position) (hwf : Spec.wf (absPos p) = true) (hnic : Spec.inCheck p.board p.side = false)
    (K : Nat) (hK : K = BISHOP ∨ K = ROOK ∨ K = QUEEN)
    (s : Nat) (hs : s < 64) (hN : p.board.getD s 0 = mkPiece p.side K)
    (hunp : ∀ pin, pin ∈ genPins (BBs.of p) p.board p.side → pinSquare pin ≠ s) (code : Nat) :
    code ∈ genPieceMoves (BBs.of p) K s ((BBs.of p).color (1 - p.side) ||| bnot (BBs.of p).all) ↔
      ∃ m, m ∈ Spec.legalMoves (absPos p) ∧ m.src = s ∧ codeOf (absPos p) m = code := by
  obtain ⟨hbo, hside, _, _, _⟩ := wf_board_hyps _ hwf
  have hbo' : BoardOK p.board := hbo
  have hside' : p.side ≤ 1 := hside
  have hK16 : 1 ≤ K ∧ K ≤ 6 := by rcases hK with rfl | rfl | rfl <;> decide
  have hKn : K ≠ KNIGHT := by rcases hK with rfl | rfl | rfl <;> decide
  have hkN : kindOf (p.board.getD s 0) = K := by rw [hN]; exact kindOf_mkPiece _ _ hside' hK16
  have hkN' : Spec.kindOfPc (Spec.pcAt (absPos p).board s) = K := hkN
  have hownS : Spec.isOwn (Spec.pcAt (absPos p).board s) (absPos p).side = true := by
    show Spec.isOwn (p.board.getD s 0) p.side = true
    rw [hN]
    have hs01 : p.side = 0 ∨ p.side = 1 := by omega
    rcases hs01 with e | e <;> rw [e] <;> rcases hK with rfl | rfl | rfl <;> decide
  have hnotcastle : ∀ t, Spec.isCastle (absPos p).board ⟨s, t, 0⟩ = false := by
    intro t
    unfold Spec.isCastle
    simp only []
    rw [hkN']
    rcases hK with rfl | rfl | rfl <;> simp [BISHOP, ROOK, QUEEN]
  have hnotep : ∀ t, Spec.isEpCapture (absPos p) ⟨s, t, 0⟩ = false := by
    intro t
    unfold Spec.isEpCapture
    simp only []
    rw [hkN']
    rcases hK with rfl | rfl | rfl <;> simp [BISHOP, ROOK, QUEEN]
  have hcodeOf : ∀ t, codeOf (absPos p) ⟨s, t, 0⟩ = mkMove s t := by
    intro t
    unfold codeOf
    rw [hnotcastle t]
    simp only [Bool.false_eq_true, if_false]
    exact (mkMove_eq_promo s t).symm
  have hslideMoves : ∀ t, (∃ d, d ∈ dirsOf K ∧ t ∈ Spec.slide p.board p.side d 7 (Spec.fileI s) (Spec.rankI s)) ↔
      (⟨s, t, 0⟩ : Spec.SMove) ∈ Spec.slideMoves (absPos p) s (dirsOf K) := by
    intro t
    unfold Spec.slideMoves
    simp only [List.mem_flatMap, List.mem_map]
    constructor
    · rintro ⟨d, hd, ht⟩; exact ⟨d, hd, t, ht, rfl⟩
    · rintro ⟨d, hd, t', ht, e⟩
      have : t' = t := by injection e
      rw [this] at ht
      exact ⟨d, hd, ht⟩
  have hpseudo : ∀ m, m ∈ Spec.slideMoves (absPos p) s (dirsOf K) → m ∈ Spec.pseudoMoves (absPos p) := by
    intro m hm
    rcases hK with rfl | rfl | rfl
    · exact mem_pseudo_of_piece (absPos p) s hs hownS m 3 hkN' hm
    · exact mem_pseudo_of_piece (absPos p) s hs hownS m 4 hkN' hm
    · exact mem_pseudo_of_piece (absPos p) s hs hownS m 5 hkN' hm
  constructor
  · intro h
    unfold genPieceMoves at h
    simp only [if_neg hKn, List.mem_map, mem_bitsOf] at h
    obtain ⟨t, ⟨ht, hb⟩, rfl⟩ := h
    have hex := (slider_targets p hbo' hside' K s t hK hs ht).1 hb
    have hm := (hslideMoves t).1 hex
    refine ⟨_, unpinned_legal p hwf hnic _ (hpseudo _ hm) (hnotcastle t) (hnotep t) ?_ hunp, rfl, hcodeOf t⟩
    show kindOf (p.board.getD s 0) ≠ KING
    rw [hkN]; rcases hK with rfl | rfl | rfl <;> decide
  · rintro ⟨m, hm, hsrc, rfl⟩
    have hps : m ∈ Spec.pseudoMoves (absPos p) := by unfold Spec.legalMoves at hm; exact (List.mem_filter.1 hm).1
    have key : ∃ t, m = ⟨s, t, 0⟩ ∧ (⟨s, t, 0⟩ : Spec.SMove) ∈ Spec.slideMoves (absPos p) s (dirsOf K) := by
      rcases pseudo_cases (absPos p) m hps with hc | ⟨sq, hsq, _, h | h | h | h | h | h⟩
      · exfalso
        obtain ⟨hk, hc⟩ := mem_castleMoves (absPos p) m hc
        have hsrc4 : m.src = (if (absPos p).side = 0 then 0 else 56) + 4 := by rcases hc with ⟨rfl, _⟩ | ⟨rfl, _⟩ <;> rfl
        have hkb : p.board.getD ((if p.side = 0 then 0 else 56) + 4) 0 = Spec.mkPc p.side 6 := hk
        have e4 : (if p.side = 0 then 0 else 56) + 4 = s := by rw [← hsrc]; exact hsrc4.symm
        rw [e4, hN, mkPc_eq' _ 6 (by decide)] at hkb
        have := (mkPiece_inj p.side K p.side KING hside' hside' hK16 (by decide) hkb).2
        rcases hK with rfl | rfl | rfl <;> cases this
      · exfalso
        obtain ⟨e, _⟩ := mem_pawnMoves (absPos p) sq m h.2
        have : sq = s := by rw [← e, hsrc]
        rw [this] at h
        have h1 : kindOf (p.board.getD s 0) = 1 := h.1
        rw [hkN] at h1; rcases hK with rfl | rfl | rfl <;> cases h1
      · exfalso
        obtain ⟨d, _, _, hmv, _⟩ := mem_stepMoves (absPos p) sq _ m h.2
        have : sq = s := by rw [← hsrc, hmv]
        rw [this] at h
        have h1 : kindOf (p.board.getD s 0) = 2 := h.1
        rw [hkN] at h1; rcases hK with rfl | rfl | rfl <;> cases h1
      · obtain ⟨d, hd, t, ht, hmv⟩ := mem_slideMoves (absPos p) sq _ m h.2
        have e : sq = s := by rw [← hsrc, hmv]
        subst e
        have h1 : kindOf (p.board.getD sq 0) = 3 := h.1
        have hK3 : K = BISHOP := by rw [← hkN, h1]; rfl
        subst hK3
        exact ⟨t, hmv, by rw [← hmv]; exact h.2⟩
      · obtain ⟨d, hd, t, ht, hmv⟩ := mem_slideMoves (absPos p) sq _ m h.2
        have e : sq = s := by rw [← hsrc, hmv]
        subst e
        have h1 : kindOf (p.board.getD sq 0) = 4 := h.1
        have hK4 : K = ROOK := by rw [← hkN, h1]; rfl
        subst hK4
        exact ⟨t, hmv, by rw [← hmv]; exact h.2⟩
      · obtain ⟨d, hd, t, ht, hmv⟩ := mem_slideMoves (absPos p) sq _ m h.2
        have e : sq = s := by rw [← hsrc, hmv]
        subst e
        have h1 : kindOf (p.board.getD sq 0) = 5 := h.1
        have hK5 : K = QUEEN := by rw [← hkN, h1]; rfl
        subst hK5
        exact ⟨t, hmv, by rw [← hmv]; exact h.2⟩
      · exfalso
        obtain ⟨d, _, _, hmv, _⟩ := mem_stepMoves (absPos p) sq _ m h.2
        have : sq = s := by rw [← hsrc, hmv]
        rw [this] at h
        have h1 : kindOf (p.board.getD s 0) = 6 := h.1
        rw [hkN] at h1; rcases hK with rfl | rfl | rfl <;> cases h1
    obtain ⟨t, rfl, hmem⟩ := key
    rw [hcodeOf]
    obtain ⟨d, hd, hsl⟩ := (hslideMoves t).2 hmem
    have ht : t < 64 := by
      obtain ⟨j, _, _, hon, rfl, _⟩ := mem_slide _ _ _ _ _ _ _ hsl
      exact sqOf_lt _ _ hon
    unfold genPieceMoves
    simp only [if_neg hKn, List.mem_map, mem_bitsOf]
    exact ⟨t, ⟨ht, (slider_targets p hbo' hside' K s t hK hs ht).2 ⟨d, hd, hsl⟩⟩, rfl⟩

end Chess
