/-
  Lemmas/Refine.lean — do_move refines the rules (C02): abstraction map from the model position to the rules-level
  position, the hypotheses under which a rules-level move is played (decidable: `StepOK`), and the field lemmas.
-/
import ChessVerif.Lemmas.Undo
import ChessVerif.Spec.Rules
import ChessVerif.Props.C16
namespace Chess

/-- full-move number as `Position::fen` prints it -/
def plyFull (ply : Int) : Nat := (Int.tdiv (ply - 1) 2 + 1).toNat

/-- abstraction: the six FEN fields of the model position, as a rules-level position -/
def absPos (p : Position) : Spec.SPos :=
  { board := p.board, side := p.side, castling := p.castling, ep := p.ep, halfmove := p.halfmove, fullmove := plyFull p.ply }

/-- the engine's packed code of a rules-level move (castling is a code of its own) -/
def codeOf (s : Spec.SPos) (m : Spec.SMove) : Nat :=
  if Spec.isCastle s.board m then (if m.dst = m.src + 2 then mkCastling KING_CASTLING else mkCastling QUEEN_CASTLING)
  else mkPromotion m.src m.dst m.promo

/-- the ply counter and the side to move are in step (true after every FEN load, kept by every move) -/
def PlyOK (p : Position) : Prop := 1 ≤ p.ply ∧ p.ply % 2 = (if p.side = 0 then 1 else 0)

/-- castling rights only where king and rook stand on their home squares (`Spec.rightsConsistent`) -/
def RightsInv (b : List Nat) (c : Nat) : Prop :=
  (c &&& 1 ≠ 0 → gd b 4 = 6 ∧ gd b 7 = 4) ∧ (c &&& 2 ≠ 0 → gd b 4 = 6 ∧ gd b 0 = 4) ∧
  (c &&& 4 ≠ 0 → gd b 60 = 12 ∧ gd b 63 = 10) ∧ (c &&& 8 ≠ 0 → gd b 60 = 12 ∧ gd b 56 = 10)

instance (p : Position) : Decidable (PlyOK p) := by unfold PlyOK; infer_instance
instance (b : List Nat) (c : Nat) : Decidable (RightsInv b c) := by unfold RightsInv; infer_instance

/-- what is true of a rules-level legal move in a well-formed position, as far as do_move's outcome depends on it.
    Decidable; evaluated by the correspondence run on every legal move of every visited position. -/
structure StepOK (s : Spec.SPos) (m : Spec.SMove) : Prop where
  len : s.board.length = 64
  side : s.side ≤ 1
  cast : s.castling < 16
  rights : RightsInv s.board s.castling
  src : m.src < 64
  dst : m.dst < 64
  ne : m.src ≠ m.dst
  own : gd s.board m.src ≠ 0 ∧ gd s.board m.src = mkPiece s.side (kindOf (gd s.board m.src))
  target : gd s.board m.dst ≠ 0 → gd s.board m.dst = mkPiece (1 - s.side) (kindOf (gd s.board m.dst))
  promo : m.promo < 7 ∧ (m.promo ≠ 0 → kindOf (gd s.board m.src) = PAWN ∧ m.dst ≠ s.ep)
  /-- pawn geometry: single step, double step from the home rank, or a diagonal step to the next rank -/
  pawn : kindOf (gd s.board m.src) = PAWN →
    (s.side = 0 → (m.dst = m.src + 8 ∨ (m.dst = m.src + 16 ∧ m.src / 8 = 1) ∨ ((m.dst = m.src + 7 ∨ m.dst = m.src + 9) ∧ m.dst / 8 = m.src / 8 + 1))) ∧
    (s.side = 1 → (m.dst + 8 = m.src ∨ (m.dst + 16 = m.src ∧ m.src / 8 = 6) ∨ ((m.dst + 7 = m.src ∨ m.dst + 9 = m.src) ∧ m.dst / 8 + 1 = m.src / 8)))
  /-- a pawn arriving on the en-passant square captures en passant: diagonal, target empty, victim behind it -/
  ep : (kindOf (gd s.board m.src) = PAWN ∧ m.dst = s.ep) →
    s.ep ≠ 64 ∧ m.src % 8 ≠ m.dst % 8 ∧ gd s.board m.dst = 0 ∧ m.promo = 0 ∧ 16 ≤ m.dst ∧ m.dst < 48 ∧
    gd s.board (if s.side = 0 then m.dst - 8 else m.dst + 8) = mkPiece (1 - s.side) PAWN ∧
    (if s.side = 0 then m.dst - 8 else m.dst + 8) ≠ m.src
  /-- a king moving two files castles: from its home square, over empty squares, with its own rook in the corner -/
  castle : (kindOf (gd s.board m.src) = KING ∧ (m.dst = m.src + 2 ∨ m.dst + 2 = m.src)) →
    m.src = (if s.side = 0 then 4 else 60) ∧ m.promo = 0 ∧
    (m.dst = m.src + 2 → gd s.board (m.src + 1) = 0 ∧ gd s.board (m.src + 2) = 0 ∧ gd s.board (m.src + 3) = mkPiece s.side ROOK) ∧
    (m.dst + 2 = m.src → gd s.board (m.src - 1) = 0 ∧ gd s.board (m.src - 2) = 0 ∧ gd s.board (m.src - 4) = mkPiece s.side ROOK)

-- small bridges between the two vocabularies ---------------------------------------------------------
theorem kindOfPc_eq (pc : Nat) : Spec.kindOfPc pc = kindOf pc := rfl
theorem pcAt_eq (b : List Nat) (s : Nat) : Spec.pcAt b s = gd b s := rfl
theorem clearRight_eq (c m : Nat) : Spec.clearRight c m = clearBits c m := rfl
theorem mkPc_eq (c k : Nat) (hk : k ≠ 0) : Spec.mkPc c k = mkPiece c k := by simp [Spec.mkPc, mkPiece, hk]
theorem kindOf_eq_zero (pc : Nat) : kindOf pc = 0 ↔ pc = 0 := by
  unfold kindOf; split <;> simp_all

/-- full-move number after one more ply -/
theorem plyFull_succ (ply : Int) (side : Nat) (h1 : 1 ≤ ply) (h2 : ply % 2 = (if side = 0 then 1 else 0)) (hs : side ≤ 1) :
    plyFull (ply + 1) = if side = 1 then plyFull ply + 1 else plyFull ply := by
  unfold plyFull
  have e1 : Int.tdiv (ply + 1 - 1) 2 = (ply + 1 - 1) / 2 := Int.tdiv_eq_ediv_of_nonneg (by omega)
  have e2 : Int.tdiv (ply - 1) 2 = (ply - 1) / 2 := Int.tdiv_eq_ediv_of_nonneg (by omega)
  rw [e1, e2]
  by_cases h : side = 0
  · subst h; simp at h2 ⊢; omega
  · have : side = 1 := by omega
    subst this; simp at h2 ⊢; omega

end Chess

namespace Chess

-- castling rights: the engine's five clauses against the rules' five clauses ----------------------------
/-- 0 none, 1 = a1, 2 = h1, 3 = a8, 4 = h8 -/
def cornerOf (s : Nat) : Nat := if s = 0 then 1 else if s = 7 then 2 else if s = 56 then 3 else if s = 63 then 4 else 0

def modelR (c side : Nat) (kK kR : Bool) (fc tc : Nat) (capR : Bool) : Nat :=
  let c := if kK then clearBits c (castlingRightsOf side) else c
  let c := if kR ∧ fc = (if side = 0 then 2 else 4) then clearBits c (castlingRightsOf side &&& KING_CASTLING) else c
  let c := if kR ∧ fc = (if side = 0 then 1 else 3) then clearBits c (castlingRightsOf side &&& QUEEN_CASTLING) else c
  let c := if capR ∧ tc = (if side = 0 then 4 else 2) then clearBits c (castlingRightsOf (1 - side) &&& KING_CASTLING) else c
  let c := if capR ∧ tc = (if side = 0 then 3 else 1) then clearBits c (castlingRightsOf (1 - side) &&& QUEEN_CASTLING) else c
  c

def specR (c side : Nat) (kK : Bool) (fc tc : Nat) : Nat :=
  let r := if kK then clearBits c (if side = 0 then 3 else 12) else c
  let r := if fc = 2 ∨ tc = 2 then clearBits r 1 else r
  let r := if fc = 1 ∨ tc = 1 then clearBits r 2 else r
  let r := if fc = 4 ∨ tc = 4 then clearBits r 4 else r
  let r := if fc = 3 ∨ tc = 3 then clearBits r 8 else r
  r

def rightsPremises (c side : Nat) (kK kR : Bool) (fc tc : Nat) (capR : Bool) : Bool :=
  (!(c &&& 1 ≠ 0 && fc = 2) || (side = 0 && kR)) && (!(c &&& 1 ≠ 0 && tc = 2) || (side = 1 && capR)) &&
  (!(c &&& 2 ≠ 0 && fc = 1) || (side = 0 && kR)) && (!(c &&& 2 ≠ 0 && tc = 1) || (side = 1 && capR)) &&
  (!(c &&& 4 ≠ 0 && fc = 4) || (side = 1 && kR)) && (!(c &&& 4 ≠ 0 && tc = 4) || (side = 0 && capR)) &&
  (!(c &&& 8 ≠ 0 && fc = 3) || (side = 1 && kR)) && (!(c &&& 8 ≠ 0 && tc = 3) || (side = 0 && capR))

def rightsTableOK : Bool :=
  (List.range 16).all fun c => (List.range 2).all fun side => [false, true].all fun kK => [false, true].all fun kR =>
  (List.range 5).all fun fc => (List.range 5).all fun tc => [false, true].all fun capR =>
    !(rightsPremises c side kK kR fc tc capR) || modelR c side kK kR fc tc capR == specR c side kK fc tc

theorem rightsTableOK_true : rightsTableOK = true := by decide +kernel

theorem rights_table (c side : Nat) (kK kR : Bool) (fc tc : Nat) (capR : Bool) (hc : c < 16) (hs : side < 2) (hf : fc < 5) (ht : tc < 5)
    (hp : rightsPremises c side kK kR fc tc capR = true) : modelR c side kK kR fc tc capR = specR c side kK fc tc := by
  have h := rightsTableOK_true
  simp only [rightsTableOK, List.all_eq_true, List.mem_range] at h
  have := h c hc side hs kK (by cases kK <;> simp) kR (by cases kR <;> simp) fc hf tc ht capR (by cases capR <;> simp)
  rw [hp] at this
  simpa using this

theorem cornerOf_lt (s : Nat) : cornerOf s < 5 := by unfold cornerOf; (repeat' split) <;> omega
theorem cornerOf_1 (s : Nat) : cornerOf s = 1 ↔ s = 0 := by unfold cornerOf; (repeat' split) <;> omega
theorem cornerOf_2 (s : Nat) : cornerOf s = 2 ↔ s = 7 := by unfold cornerOf; (repeat' split) <;> omega
theorem cornerOf_3 (s : Nat) : cornerOf s = 3 ↔ s = 56 := by unfold cornerOf; (repeat' split) <;> omega
theorem cornerOf_4 (s : Nat) : cornerOf s = 4 ↔ s = 63 := by unfold cornerOf; (repeat' split) <;> omega

theorem updateRights_eq_modelR (c side moved cap f t : Nat) (hs : side ≤ 1) :
    updateRights c side moved cap f t =
      modelR c side (decide (kindOf moved = KING)) (decide (kindOf moved = ROOK)) (cornerOf f) (cornerOf t) (decide (cap = ROOK)) := by
  have : side = 0 ∨ side = 1 := by omega
  rcases this with h | h <;> subst h <;>
    simp [updateRights, modelR, cornerOf_1, cornerOf_2, cornerOf_3, cornerOf_4]

end Chess

namespace Chess

-- what do_move leaves in each of the six FEN-visible fields, by pure unfolding -------------------------------
theorem two_moves_rest (T : ZTable) (x : Position) (a b c d : Nat) : SameRest x (movePiece T (movePiece T x a b) c d) :=
  sameRest_trans (sameRest_move T x a b) (sameRest_move T _ c d)

theorem two_moves_board (T : ZTable) (x : Position) (a b c d : Nat) (hca : c ≠ a) (hcb : c ≠ b) :
    (movePiece T (movePiece T x a b) c d).board = (((x.board.set a 0).set b (gd x.board a)).set c 0).set d (gd x.board c) := by
  rw [movePiece_board, movePiece_board]
  have : gd ((x.board.set a 0).set b (gd x.board a)) c = gd x.board c := by
    simp only [gd_set, List.length_set]
    rw [if_neg (by omega), if_neg (by omega)]
  rw [this]

theorem doMove_castle_fields (T : ZTable) (p : Position) (m : Nat) (hc : moveCastling m ≠ 0) :
    let q := (doMove T p m).1
    let r := if p.side = 0 then 0 else 7
    q.side = 1 - p.side ∧ q.ply = p.ply + 1 ∧ q.castling = clearBits p.castling (castlingRightsOf p.side) ∧ q.ep = 64 ∧
    q.halfmove = (p.halfmove + 1) % 65536 ∧
    q.board = (if moveCastling m = KING_CASTLING then
        (((p.board.set (mkSquare r 4) 0).set (mkSquare r 6) (gd p.board (mkSquare r 4))).set (mkSquare r 7) 0).set (mkSquare r 5) (gd p.board (mkSquare r 7))
      else
        (((p.board.set (mkSquare r 4) 0).set (mkSquare r 2) (gd p.board (mkSquare r 4))).set (mkSquare r 0) 0).set (mkSquare r 3) (gd p.board (mkSquare r 0))) := by
  intro q r
  have hq : q = withHistory (doMoveCastle T (preMove T p) p.side m) := by
    show (doMove T p m).1 = _
    unfold doMove; simp only []; rw [if_pos hc]
  have key : ∀ a b c d, c ≠ a → c ≠ b →
      let x : Position := { (preMove T p) with halfmove := ((preMove T p).halfmove + 1) % 65536 }
      let y := movePiece T (movePiece T x a b) c d
      let z : Position := withHistory { (setCastlingKey T { y with castling := clearBits y.castling (castlingRightsOf p.side) }) with ep := 64 }
      z.side = 1 - p.side ∧ z.ply = p.ply + 1 ∧ z.castling = clearBits p.castling (castlingRightsOf p.side) ∧ z.ep = 64 ∧
      z.halfmove = (p.halfmove + 1) % 65536 ∧
      z.board = (((p.board.set a 0).set b (gd p.board a)).set c 0).set d (gd p.board c) := by
    intro a b c d h1 h2 x y z
    have sr : SameRest x y := two_moves_rest T x a b c d
    refine ⟨?_, ?_, ?_, rfl, ?_, ?_⟩
    · show y.side = _; rw [sr.side]; rfl
    · show y.ply = _; rw [sr.ply]; rfl
    · show clearBits y.castling _ = _; rw [sr.castling]; rfl
    · show y.halfmove = _; rw [sr.halfmove]; rfl
    · show y.board = _; exact two_moves_board T x a b c d h1 h2
  rw [hq]
  unfold doMoveCastle
  simp only []
  have hr : r < 8 := by show (if p.side = 0 then 0 else 7) < 8; split <;> omega
  by_cases hK : moveCastling m = KING_CASTLING
  · rw [if_pos hK, if_pos hK]
    exact key (mkSquare r 4) (mkSquare r 6) (mkSquare r 7) (mkSquare r 5) (by unfold mkSquare; omega) (by unfold mkSquare; omega)
  · rw [if_neg hK, if_neg hK]
    exact key (mkSquare r 4) (mkSquare r 2) (mkSquare r 0) (mkSquare r 3) (by unfold mkSquare; omega) (by unfold mkSquare; omega)

theorem set_set_over (b : List Nat) (f t x v : Nat) (hft : f ≠ t) :
    ((b.set t x).set f 0).set t v = (b.set f 0).set t v := by
  apply list_ext_gd
  · simp
  · intro i
    simp only [gd_set, List.length_set]
    by_cases h1 : t = i
    · subst h1; by_cases hl : t < b.length <;> simp [hl, hft]
    · by_cases h2 : f = i
      · subst h2; simp [h1]
      · simp [h1, h2]

theorem setEpAfter_more (T : ZTable) (p : Position) (side moved f t : Nat) :
    (setEpAfter T p side moved f t).castling = p.castling ∧ (setEpAfter T p side moved f t).halfmove = p.halfmove ∧
    (setEpAfter T p side moved f t).ep =
      (if kindOf moved = PAWN ∧ rankOf f = (if side = 0 then 1 else 6) ∧ rankOf t = (if side = 0 then 3 else 4)
       then (if side = 0 then t - 8 else t + 8) else 64) := by
  unfold setEpAfter; simp only []
  by_cases h : kindOf moved = PAWN ∧ rankOf f = (if side = 0 then 1 else 6) ∧ rankOf t = (if side = 0 then 3 else 4)
  · rw [if_pos h, if_pos h]; exact ⟨rfl, rfl, rfl⟩
  · rw [if_neg h, if_neg h]; exact ⟨rfl, rfl, rfl⟩

theorem clockStep_halfmove (q : Position) (m : Nat) :
    (clockStep q m).halfmove = (if kindOf (q.at (moveFrom m)) ≠ PAWN ∧ kindOf (q.at (moveTo m)) = 0 then (q.halfmove + 1) % 65536 else 0) := by
  unfold clockStep
  by_cases h : kindOf (q.at (moveFrom m)) ≠ PAWN ∧ kindOf (q.at (moveTo m)) = 0
  · rw [if_pos h, if_pos h]
  · rw [if_neg h, if_neg h]

theorem doMove_normal_fields (T : ZTable) (p : Position) (m : Nat) (hc0 : moveCastling m = 0) (hft : moveFrom m ≠ moveTo m) :
    let q := (doMove T p m).1
    let f := moveFrom m
    let t := moveTo m
    q.side = 1 - p.side ∧ q.ply = p.ply + 1 ∧
    q.halfmove = (if kindOf (p.at f) ≠ PAWN ∧ kindOf (p.at t) = 0 then (p.halfmove + 1) % 65536 else 0) ∧
    q.ep = (if kindOf (p.at f) = PAWN ∧ rankOf f = (if p.side = 0 then 1 else 6) ∧ rankOf t = (if p.side = 0 then 3 else 4)
            then (if p.side = 0 then t - 8 else t + 8) else 64) ∧
    ((kindOf (p.at f) = PAWN ∧ t = p.ep) →
        q.board = ((p.board.set f 0).set t (gd p.board f)).set (if p.side = 0 then t - 8 else t + 8) 0 ∧ q.castling = p.castling) ∧
    (¬ (kindOf (p.at f) = PAWN ∧ t = p.ep) →
        q.board = (p.board.set f 0).set t (if movePromo m ≠ 0 then mkPiece p.side (movePromo m) else gd p.board f) ∧
        q.castling = updateRights p.castling p.side (p.at f) (kindOf (p.at t)) f t) := by
  intro q f t
  have hc : ¬ moveCastling m ≠ 0 := by simp [hc0]
  have hq : q = withHistory (setEpAfter T (doMovePieces T (clockStep (preMove T p) m) p.side m) p.side (p.at f) f t) := by
    show (doMove T p m).1 = _
    unfold doMove; simp only []; rw [if_neg hc]; rfl
  have sc1 := sameCore_clock (preMove T p) m
  have hb1 : (clockStep (preMove T p) m).board = p.board := sc1.board
  have he1 : (clockStep (preMove T p) m).ep = p.ep := by unfold clockStep; split <;> rfl
  have hc1 : (clockStep (preMove T p) m).castling = p.castling := by unfold clockStep; split <;> rfl
  have hh1 : (clockStep (preMove T p) m).halfmove =
      (if kindOf (p.at f) ≠ PAWN ∧ kindOf (p.at t) = 0 then (p.halfmove + 1) % 65536 else 0) := by
    exact clockStep_halfmove (preMove T p) m
  have hat : ∀ s, (clockStep (preMove T p) m).at s = p.at s := by
    intro s; unfold Position.at; rw [hb1]
  generalize hp1 : clockStep (preMove T p) m = p1 at *
  have sc2 := sameCore_setEp T (doMovePieces T p1 p.side m) p.side (p.at f) f t
  obtain ⟨s1, s2, hep⟩ := setEpAfter_more T (doMovePieces T p1 p.side m) p.side (p.at f) f t
  -- doMovePieces by branch
  have hD : (doMovePieces T p1 p.side m).side = p1.side ∧ (doMovePieces T p1 p.side m).ply = p1.ply ∧
      (doMovePieces T p1 p.side m).halfmove = p1.halfmove ∧
      ((kindOf (p.at f) = PAWN ∧ t = p.ep) →
        (doMovePieces T p1 p.side m).board = ((p.board.set f 0).set t (gd p.board f)).set (if p.side = 0 then t - 8 else t + 8) 0 ∧
        (doMovePieces T p1 p.side m).castling = p.castling) ∧
      (¬ (kindOf (p.at f) = PAWN ∧ t = p.ep) →
        (doMovePieces T p1 p.side m).board = (p.board.set f 0).set t (if movePromo m ≠ 0 then mkPiece p.side (movePromo m) else gd p.board f) ∧
        (doMovePieces T p1 p.side m).castling = updateRights p.castling p.side (p.at f) (kindOf (p.at t)) f t) := by
    by_cases he : kindOf (p.at f) = PAWN ∧ t = p.ep
    · have he' : kindOf (p1.at (moveFrom m)) = PAWN ∧ moveTo m = p1.ep := by rw [hat, he1]; exact he
      have hDe : doMovePieces T p1 p.side m = removePiece T (movePiece T p1 f t) (if p.side = 0 then t - 8 else t + 8) := by
        unfold doMovePieces; simp only []; rw [if_pos he']
      have sr : SameRest p1 (doMovePieces T p1 p.side m) := by
        rw [hDe]; exact sameRest_trans (sameRest_move T _ _ _) (sameRest_remove T _ _)
      refine ⟨sr.side, sr.ply, sr.halfmove, fun _ => ⟨?_, ?_⟩, fun h => absurd he h⟩
      · rw [hDe, removePiece_board, movePiece_board, hb1]
      · rw [sr.castling, hc1]
    · have he' : ¬ (kindOf (p1.at (moveFrom m)) = PAWN ∧ moveTo m = p1.ep) := by rw [hat, he1]; exact he
      have hDn : doMovePieces T p1 p.side m =
          setCastlingKey T { (placeMoved T (removeCaptured T p1 t) p.side m) with
            castling := updateRights (placeMoved T (removeCaptured T p1 t) p.side m).castling p.side (p1.at f) (kindOf (p1.at t)) f t } := by
        unfold doMovePieces; simp only []; rw [if_neg he']
      have sr1 : SameRest p1 (removeCaptured T p1 t) := by
        unfold removeCaptured; split
        · exact sameRest_remove T _ _
        · exact sameRest_refl _
      have sr2 : SameRest (removeCaptured T p1 t) (placeMoved T (removeCaptured T p1 t) p.side m) := by
        unfold placeMoved; split
        · exact sameRest_trans (sameRest_remove T _ _) (sameRest_add T _ _ _)
        · exact sameRest_move T _ _ _
      have sr := sameRest_trans sr1 sr2
      have rcb : (removeCaptured T p1 t).board = if gd p.board t ≠ 0 then p.board.set t 0 else p.board := by
        unfold removeCaptured
        rw [hat, at_eq_gd]
        by_cases h0 : gd p.board t ≠ 0
        · rw [if_pos h0, if_pos h0, removePiece_board, hb1]
        · rw [if_neg h0, if_neg h0, hb1]
      have rcf : gd (removeCaptured T p1 t).board f = gd p.board f := by
        rw [rcb]; split
        · rw [gd_set]; rw [if_neg (by intro h; exact hft h.1.symm)]
        · rfl
      refine ⟨?_, ?_, ?_, fun h => absurd h he, fun _ => ⟨?_, ?_⟩⟩
      · rw [hDn]; show (placeMoved T _ _ _).side = _; exact sr.side
      · rw [hDn]; show (placeMoved T _ _ _).ply = _; exact sr.ply
      · rw [hDn]; show (placeMoved T _ _ _).halfmove = _; exact sr.halfmove
      · rw [hDn]; show (placeMoved T _ _ _).board = _
        unfold placeMoved
        by_cases hpr : movePromo m ≠ 0
        · rw [if_pos hpr, if_pos hpr, addPiece_board, removePiece_board, rcb]
          split
          · exact set_set_over _ _ _ _ _ hft
          · rfl
        · rw [if_neg hpr, if_neg hpr, movePiece_board, rcf, rcb]
          split
          · exact set_set_over _ _ _ _ _ hft
          · rfl
      · rw [hDn]; show updateRights (placeMoved T _ _ _).castling _ _ _ _ _ = _
        rw [sr.castling, hc1, hat, hat]
  obtain ⟨d1, d2, d3, d4, d5⟩ := hD
  rw [hq]
  refine ⟨?_, ?_, ?_, hep, ?_, ?_⟩
  · show (setEpAfter T _ _ _ _ _).side = _
    rw [sc2.side, d1, sc1.side]; rfl
  · show (setEpAfter T _ _ _ _ _).ply = _
    rw [sc2.ply, d2, sc1.ply]; rfl
  · show (setEpAfter T _ _ _ _ _).halfmove = _
    rw [s2, d3, hh1]
  · intro he
    obtain ⟨x1, x2⟩ := d4 he
    exact ⟨by show (setEpAfter T _ _ _ _ _).board = _; rw [sc2.board, x1], by show (setEpAfter T _ _ _ _ _).castling = _; rw [s1, x2]⟩
  · intro he
    obtain ⟨x1, x2⟩ := d5 he
    exact ⟨by show (setEpAfter T _ _ _ _ _).board = _; rw [sc2.board, x1], by show (setEpAfter T _ _ _ _ _).castling = _; rw [s1, x2]⟩

end Chess

namespace Chess

-- the rules-level `apply`, field by field (definitional) -------------------------------------------------------
theorem apply_side (s : Spec.SPos) (m : Spec.SMove) : (Spec.apply s m).side = 1 - s.side := rfl
theorem apply_full (s : Spec.SPos) (m : Spec.SMove) :
    (Spec.apply s m).fullmove = if s.side = 1 then s.fullmove + 1 else s.fullmove := rfl
theorem apply_half (s : Spec.SPos) (m : Spec.SMove) :
    (Spec.apply s m).halfmove = if (kindOf (gd s.board m.src) = 1 || Spec.isCaptureMove s m) then 0 else s.halfmove + 1 := rfl
theorem apply_ep (s : Spec.SPos) (m : Spec.SMove) :
    (Spec.apply s m).ep = if (kindOf (gd s.board m.src) = 1 && (m.dst = m.src + 16 || m.dst + 16 = m.src)) then (m.src + m.dst) / 2 else 64 := rfl
theorem apply_castling (s : Spec.SPos) (m : Spec.SMove) :
    (Spec.apply s m).castling =
      (let r := s.castling
       let r := if kindOf (gd s.board m.src) = 6 then clearBits r (if s.side = 0 then 3 else 12) else r
       let r := if m.src = 7 || m.dst = 7 then clearBits r 1 else r
       let r := if m.src = 0 || m.dst = 0 then clearBits r 2 else r
       let r := if m.src = 63 || m.dst = 63 then clearBits r 4 else r
       let r := if m.src = 56 || m.dst = 56 then clearBits r 8 else r
       r) := rfl
theorem apply_board (s : Spec.SPos) (m : Spec.SMove) :
    (Spec.apply s m).board =
      (let b1 := (s.board.set m.src 0).set m.dst (if m.promo ≠ 0 then Spec.mkPc s.side m.promo else gd s.board m.src)
       let b2 := if Spec.isEpCapture s m then b1.set (if s.side = 0 then m.dst - 8 else m.dst + 8) 0 else b1
       if Spec.isCastle s.board m then
         if m.dst = m.src + 2 then (b2.set (m.src + 3) 0).set (m.src + 1) (Spec.mkPc s.side 4)
         else (b2.set (m.src - 4) 0).set (m.src - 1) (Spec.mkPc s.side 4)
       else b2) := rfl

theorem spos_ext (a b : Spec.SPos) (h1 : a.board = b.board) (h2 : a.side = b.side) (h3 : a.castling = b.castling)
    (h4 : a.ep = b.ep) (h5 : a.halfmove = b.halfmove) (h6 : a.fullmove = b.fullmove) : a = b := by
  cases a; cases b; simp_all

theorem apply_castling_specR (s : Spec.SPos) (m : Spec.SMove) :
    (Spec.apply s m).castling = specR s.castling s.side (decide (kindOf (gd s.board m.src) = KING)) (cornerOf m.src) (cornerOf m.dst) := by
  rw [apply_castling]
  by_cases hk : kindOf (gd s.board m.src) = 6 <;>
    simp [specR, cornerOf_1, cornerOf_2, cornerOf_3, cornerOf_4, KING, hk]

end Chess

namespace Chess

theorem isCastle_iff (b : List Nat) (m : Spec.SMove) :
    Spec.isCastle b m = true ↔ (kindOf (gd b m.src) = KING ∧ (m.dst = m.src + 2 ∨ m.dst + 2 = m.src)) := by
  show (decide (kindOf (gd b m.src) = 6) && (decide (m.dst = m.src + 2) || decide (m.dst + 2 = m.src))) = true ↔ _
  simp [KING]

theorem fileI_ne (a b : Nat) : Spec.fileI a ≠ Spec.fileI b ↔ a % 8 ≠ b % 8 := by unfold Spec.fileI; omega

theorem isEp_iff (s : Spec.SPos) (m : Spec.SMove) :
    Spec.isEpCapture s m = true ↔ (kindOf (gd s.board m.src) = PAWN ∧ m.dst = s.ep ∧ s.ep ≠ 64 ∧ m.src % 8 ≠ m.dst % 8) := by
  show (decide (kindOf (gd s.board m.src) = 1) && decide (m.dst = s.ep) && decide (s.ep ≠ 64) && decide (Spec.fileI m.src ≠ Spec.fileI m.dst)) = true ↔ _
  simp only [Bool.and_eq_true, decide_eq_true_eq, fileI_ne, PAWN, and_assoc]

theorem isCapture_eq (s : Spec.SPos) (m : Spec.SMove) :
    Spec.isCaptureMove s m = (decide (gd s.board m.dst ≠ 0) || Spec.isEpCapture s m) := rfl

theorem mkSquare_castle (side : Nat) (k : Nat) :
    mkSquare (if side = 0 then 0 else 7) k = (if side = 0 then 4 else 60) + k - 4 := by
  unfold mkSquare; split <;> omega

end Chess

namespace Chess

@[simp] theorem absPos_board (p : Position) : (absPos p).board = p.board := rfl
@[simp] theorem absPos_side (p : Position) : (absPos p).side = p.side := rfl
@[simp] theorem absPos_castling (p : Position) : (absPos p).castling = p.castling := rfl
@[simp] theorem absPos_ep (p : Position) : (absPos p).ep = p.ep := rfl
@[simp] theorem absPos_halfmove (p : Position) : (absPos p).halfmove = p.halfmove := rfl
@[simp] theorem absPos_fullmove (p : Position) : (absPos p).fullmove = plyFull p.ply := rfl

theorem C16_castle_code_local :
    moveCastling (mkCastling KING_CASTLING) = KING_CASTLING ∧ moveCastling (mkCastling QUEEN_CASTLING) = QUEEN_CASTLING := by
  decide

theorem plyOK_succ (p q : Position) (hp : PlyOK p) (hs : p.side ≤ 1) (h1 : q.side = 1 - p.side) (h2 : q.ply = p.ply + 1) : PlyOK q := by
  obtain ⟨a, b⟩ := hp
  unfold PlyOK
  rw [h1, h2]
  have : p.side = 0 ∨ p.side = 1 := by omega
  rcases this with h | h <;> simp [h] at b ⊢ <;> omega

theorem refine_castle (T : ZTable) (p : Position) (sm : Spec.SMove) (ok : StepOK (absPos p) sm) (hp : PlyOK p) (hh : p.halfmove < 65535)
    (hcs : kindOf (gd p.board sm.src) = KING ∧ (sm.dst = sm.src + 2 ∨ sm.dst + 2 = sm.src)) :
    absPos (doMove T p (codeOf (absPos p) sm)).1 = Spec.apply (absPos p) sm ∧ PlyOK (doMove T p (codeOf (absPos p) sm)).1 := by
  have hside : p.side ≤ 1 := ok.side
  obtain ⟨hsrc, hpromo, hKs, hQs⟩ := ok.castle hcs
  have hsrc' : sm.src = if p.side = 0 then 4 else 60 := hsrc
  have hcast : Spec.isCastle (absPos p).board sm = true := (isCastle_iff _ _).2 hcs
  have hnotep : Spec.isEpCapture (absPos p) sm = false := by
    apply Bool.eq_false_iff.2
    intro h
    have := ((isEp_iff _ _).1 h).1
    have h6 := hcs.1
    show False
    have e : kindOf (gd p.board sm.src) = PAWN := this
    rw [h6] at e; exact absurd e (by decide)
  have hk1 : ¬ kindOf (gd p.board sm.src) = 1 := by rw [hcs.1]; decide
  have cc := C16_castle_code_local
  have rook : Spec.mkPc p.side 4 = mkPiece p.side ROOK := mkPc_eq _ _ (by decide)
  have hsq : ∀ k, mkSquare (if p.side = 0 then 0 else 7) k = sm.src + k - 4 := by
    intro k; rw [hsrc']; exact mkSquare_castle p.side k
  have srcge : 4 ≤ sm.src := by rw [hsrc']; split <;> omega
  have hcr : castlingRightsOf p.side = (if p.side = 0 then 3 else 12) := rfl
  rcases hcs.2 with hd | hd
  · -- king side
    obtain ⟨e1, e2, e3⟩ := hKs hd
    simp only [absPos_board, absPos_side] at e1 e2 e3
    have hcode : codeOf (absPos p) sm = mkCastling KING_CASTLING := by
      unfold codeOf; rw [if_pos hcast, if_pos hd]
    rw [hcode]
    have hmc : moveCastling (mkCastling KING_CASTLING) ≠ 0 := by rw [cc.1]; decide
    obtain ⟨f1, f2, f3, f4, f5, f6⟩ := doMove_castle_fields T p _ hmc
    rw [if_pos cc.1] at f6
    refine ⟨spos_ext _ _ ?_ ?_ ?_ ?_ ?_ ?_, plyOK_succ p _ hp hside f1 f2⟩
    · show (doMove T p _).1.board = _
      rw [f6, apply_board]
      simp only []
      rw [hnotep, if_pos hcast, if_pos hd, if_neg (c := sm.promo ≠ 0) (by simp [hpromo])]
      simp only [absPos_board, absPos_side]
      rw [rook, if_neg (c := false = true) (by decide)]
      show _ = ((((p.board.set sm.src 0).set sm.dst (gd p.board sm.src)).set (sm.src + 3) 0).set (sm.src + 1) (mkPiece p.side ROOK))
      rw [hsq 4, hsq 6, hsq 7, hsq 5, hd]
      have a1 : sm.src + 4 - 4 = sm.src := by omega
      have a2 : sm.src + 6 - 4 = sm.src + 2 := by omega
      have a3 : sm.src + 7 - 4 = sm.src + 3 := by omega
      have a4 : sm.src + 5 - 4 = sm.src + 1 := by omega
      rw [a1, a2, a3, a4, e3]
    · show (doMove T p _).1.side = _
      rw [f1, apply_side]; rfl
    · show (doMove T p _).1.castling = _
      rw [f3, apply_castling_specR]
      have c1 : cornerOf sm.src = 0 := by rw [hsrc']; unfold cornerOf; split <;> simp
      have c2 : cornerOf sm.dst = 0 := by rw [hd, hsrc']; unfold cornerOf; split <;> simp
      rw [c1, c2]
      show _ = specR p.castling p.side (decide (kindOf (gd p.board sm.src) = KING)) 0 0
      rw [hcs.1]
      simp [specR, hcr]
    · show (doMove T p _).1.ep = _
      rw [f4, apply_ep]
      show 64 = if (decide (kindOf (gd p.board sm.src) = 1) && _) = true then _ else 64
      simp [hk1]
    · show (doMove T p _).1.halfmove = _
      rw [f5, apply_half, isCapture_eq, hnotep]
      show _ = if (decide (kindOf (gd p.board sm.src) = 1) || (decide (gd p.board sm.dst ≠ 0) || false)) = true then 0 else p.halfmove + 1
      have : gd p.board sm.dst = 0 := by rw [hd]; exact e2
      simp [hk1, this]; omega
    · show plyFull (doMove T p _).1.ply = _
      rw [f2, apply_full]
      exact plyFull_succ p.ply p.side hp.1 hp.2 hside
  · -- queen side
    obtain ⟨e1, e2, e3⟩ := hQs hd
    simp only [absPos_board, absPos_side] at e1 e2 e3
    have hd' : ¬ sm.dst = sm.src + 2 := by omega
    have hcode : codeOf (absPos p) sm = mkCastling QUEEN_CASTLING := by
      unfold codeOf; rw [if_pos hcast, if_neg hd']
    rw [hcode]
    have hmc : moveCastling (mkCastling QUEEN_CASTLING) ≠ 0 := by rw [cc.2]; decide
    have hnk : ¬ moveCastling (mkCastling QUEEN_CASTLING) = KING_CASTLING := by rw [cc.2]; decide
    obtain ⟨f1, f2, f3, f4, f5, f6⟩ := doMove_castle_fields T p _ hmc
    rw [if_neg hnk] at f6
    refine ⟨spos_ext _ _ ?_ ?_ ?_ ?_ ?_ ?_, plyOK_succ p _ hp hside f1 f2⟩
    · show (doMove T p _).1.board = _
      rw [f6, apply_board]
      simp only []
      rw [hnotep, if_pos hcast, if_neg hd', if_neg (c := sm.promo ≠ 0) (by simp [hpromo])]
      simp only [absPos_board, absPos_side]
      rw [rook, if_neg (c := false = true) (by decide)]
      show _ = ((((p.board.set sm.src 0).set sm.dst (gd p.board sm.src)).set (sm.src - 4) 0).set (sm.src - 1) (mkPiece p.side ROOK))
      rw [hsq 4, hsq 2, hsq 0, hsq 3]
      have a1 : sm.src + 4 - 4 = sm.src := by omega
      have a2 : sm.src + 2 - 4 = sm.dst := by omega
      have a3 : sm.src + 0 - 4 = sm.src - 4 := by omega
      have a4 : sm.src + 3 - 4 = sm.src - 1 := by omega
      rw [a1, a2, a3, a4, e3]
    · show (doMove T p _).1.side = _
      rw [f1, apply_side]; rfl
    · show (doMove T p _).1.castling = _
      rw [f3, apply_castling_specR]
      have c1 : cornerOf sm.src = 0 := by rw [hsrc']; unfold cornerOf; split <;> simp
      have c2 : cornerOf sm.dst = 0 := by
        have : sm.dst = sm.src - 2 := by omega
        rw [this, hsrc']; unfold cornerOf; split <;> simp
      rw [c1, c2]
      show _ = specR p.castling p.side (decide (kindOf (gd p.board sm.src) = KING)) 0 0
      rw [hcs.1]
      simp [specR, hcr]
    · show (doMove T p _).1.ep = _
      rw [f4, apply_ep]
      show 64 = if (decide (kindOf (gd p.board sm.src) = 1) && _) = true then _ else 64
      simp [hk1]
    · show (doMove T p _).1.halfmove = _
      rw [f5, apply_half, isCapture_eq, hnotep]
      show _ = if (decide (kindOf (gd p.board sm.src) = 1) || (decide (gd p.board sm.dst ≠ 0) || false)) = true then 0 else p.halfmove + 1
      have : gd p.board sm.dst = 0 := by
        have : sm.dst = sm.src - 2 := by omega
        rw [this]; exact e2
      simp [hk1, this]; omega
    · show plyFull (doMove T p _).1.ply = _
      rw [f2, apply_full]
      exact plyFull_succ p.ply p.side hp.1 hp.2 hside

end Chess

namespace Chess

theorem kindOf_le6 (pc : Nat) : kindOf pc ≤ 6 := by unfold kindOf; split <;> omega

/-- the eight premises of the rights table, from the rights invariant and the ownership of the two squares -/
theorem rights_premises (b : List Nat) (c side src dst : Nat) (hs : side ≤ 1) (inv : RightsInv b c)
    (own : gd b src = mkPiece side (kindOf (gd b src)))
    (target : gd b dst ≠ 0 → gd b dst = mkPiece (1 - side) (kindOf (gd b dst))) :
    rightsPremises c side (decide (kindOf (gd b src) = KING)) (decide (kindOf (gd b src) = ROOK)) (cornerOf src) (cornerOf dst)
      (decide (kindOf (gd b dst) = ROOK)) = true := by
  obtain ⟨i1, i2, i4, i8⟩ := inv
  have k4 : kindOf 4 = 4 := by decide
  have k10 : kindOf 10 = 4 := by decide
  have mover : ∀ sq v, gd b sq = v → src = sq → v = 4 ∨ v = 10 → (v = 4 → side = 0 ∧ kindOf (gd b src) = ROOK) ∧ (v = 10 → side = 1 ∧ kindOf (gd b src) = ROOK) := by
    intro sq v hv hsq hv2
    subst hsq
    rw [hv] at own ⊢
    rcases hv2 with h | h <;> subst h
    · rw [k4] at own; unfold mkPiece at own; simp at own
      exact ⟨fun _ => ⟨by omega, by decide⟩, fun h => absurd h (by decide)⟩
    · rw [k10] at own; unfold mkPiece at own; simp at own
      exact ⟨fun h => absurd h (by decide), fun _ => ⟨by omega, by decide⟩⟩
  have victim : ∀ sq v, gd b sq = v → dst = sq → v = 4 ∨ v = 10 → (v = 4 → side = 1 ∧ kindOf (gd b dst) = ROOK) ∧ (v = 10 → side = 0 ∧ kindOf (gd b dst) = ROOK) := by
    intro sq v hv hsq hv2
    subst hsq
    have t := target (by rw [hv]; rcases hv2 with h | h <;> omega)
    rw [hv] at t ⊢
    rcases hv2 with h | h <;> subst h
    · rw [k4] at t; unfold mkPiece at t; simp at t
      exact ⟨fun _ => ⟨by omega, by decide⟩, fun h => absurd h (by decide)⟩
    · rw [k10] at t; unfold mkPiece at t; simp at t
      exact ⟨fun h => absurd h (by decide), fun _ => ⟨by omega, by decide⟩⟩
  unfold rightsPremises
  simp only [Bool.and_eq_true, Bool.or_eq_true, Bool.not_eq_true', Bool.and_eq_false_iff, decide_eq_true_eq, decide_eq_false_iff_not,
    cornerOf_1, cornerOf_2, cornerOf_3, cornerOf_4, ROOK]
  refine ⟨⟨⟨⟨⟨⟨⟨?_, ?_⟩, ?_⟩, ?_⟩, ?_⟩, ?_⟩, ?_⟩, ?_⟩
  · by_cases h1 : c &&& 1 ≠ 0
    · by_cases h2 : src = 7
      · right; exact (fun h => ⟨h.1, decide_eq_true h.2⟩) ((mover 7 4 (i1 h1).2 h2 (Or.inl rfl)).1 rfl)
      · left; right; exact h2
    · left; left; exact h1
  · by_cases h1 : c &&& 1 ≠ 0
    · by_cases h2 : dst = 7
      · right; exact (fun h => ⟨h.1, decide_eq_true h.2⟩) ((victim 7 4 (i1 h1).2 h2 (Or.inl rfl)).1 rfl)
      · left; right; exact h2
    · left; left; exact h1
  · by_cases h1 : c &&& 2 ≠ 0
    · by_cases h2 : src = 0
      · right; exact (fun h => ⟨h.1, decide_eq_true h.2⟩) ((mover 0 4 (i2 h1).2 h2 (Or.inl rfl)).1 rfl)
      · left; right; exact h2
    · left; left; exact h1
  · by_cases h1 : c &&& 2 ≠ 0
    · by_cases h2 : dst = 0
      · right; exact (fun h => ⟨h.1, decide_eq_true h.2⟩) ((victim 0 4 (i2 h1).2 h2 (Or.inl rfl)).1 rfl)
      · left; right; exact h2
    · left; left; exact h1
  · by_cases h1 : c &&& 4 ≠ 0
    · by_cases h2 : src = 63
      · right; exact (fun h => ⟨h.1, decide_eq_true h.2⟩) ((mover 63 10 (i4 h1).2 h2 (Or.inr rfl)).2 rfl)
      · left; right; exact h2
    · left; left; exact h1
  · by_cases h1 : c &&& 4 ≠ 0
    · by_cases h2 : dst = 63
      · right; exact (fun h => ⟨h.1, decide_eq_true h.2⟩) ((victim 63 10 (i4 h1).2 h2 (Or.inr rfl)).2 rfl)
      · left; right; exact h2
    · left; left; exact h1
  · by_cases h1 : c &&& 8 ≠ 0
    · by_cases h2 : src = 56
      · right; exact (fun h => ⟨h.1, decide_eq_true h.2⟩) ((mover 56 10 (i8 h1).2 h2 (Or.inr rfl)).2 rfl)
      · left; right; exact h2
    · left; left; exact h1
  · by_cases h1 : c &&& 8 ≠ 0
    · by_cases h2 : dst = 56
      · right; exact (fun h => ⟨h.1, decide_eq_true h.2⟩) ((victim 56 10 (i8 h1).2 h2 (Or.inr rfl)).2 rfl)
      · left; right; exact h2
    · left; left; exact h1

end Chess

namespace Chess

theorem refine_normal (T : ZTable) (p : Position) (sm : Spec.SMove) (ok : StepOK (absPos p) sm) (hp : PlyOK p) (hh : p.halfmove < 65535)
    (hcs : ¬ (kindOf (gd p.board sm.src) = KING ∧ (sm.dst = sm.src + 2 ∨ sm.dst + 2 = sm.src))) :
    absPos (doMove T p (codeOf (absPos p) sm)).1 = Spec.apply (absPos p) sm ∧ PlyOK (doMove T p (codeOf (absPos p) sm)).1 := by
  have hside : p.side ≤ 1 := ok.side
  have hs01 : p.side = 0 ∨ p.side = 1 := by omega
  have hsrc : sm.src < 64 := ok.src
  have hdst : sm.dst < 64 := ok.dst
  have hne : sm.src ≠ sm.dst := ok.ne
  obtain ⟨own0, own1⟩ := ok.own
  have htarget := ok.target
  obtain ⟨hpr8, hpr⟩ := ok.promo
  have hpawn := ok.pawn
  have hepc := ok.ep
  have hinv := ok.rights
  have hcast16 : p.castling < 16 := ok.cast
  simp only [absPos_board, absPos_side, absPos_castling, absPos_ep] at own0 own1 htarget hpr hpawn hepc hinv
  have hcast : Spec.isCastle (absPos p).board sm = false := by
    apply Bool.eq_false_iff.2
    intro h; exact hcs ((isCastle_iff _ _).1 h)
  have hcode : codeOf (absPos p) sm = mkPromotion sm.src sm.dst sm.promo := by
    unfold codeOf; rw [hcast]; rfl
  rw [hcode]
  obtain ⟨c1, c2, c3, c4⟩ := Props.C16_encoding sm.src sm.dst sm.promo hsrc hdst (by omega)
  have flds := doMove_normal_fields T p (mkPromotion sm.src sm.dst sm.promo) c4 (by rw [c1, c2]; exact hne)
  simp only [c1, c2, c3, at_eq_gd] at flds
  obtain ⟨f1, f2, f3, f4, f5, f6⟩ := flds
  have hk6 : Spec.isCastle (absPos p).board sm = false := hcast
  refine ⟨spos_ext _ _ ?_ ?_ ?_ ?_ ?_ ?_, plyOK_succ p _ hp hside f1 f2⟩
  · -- board
    show (doMove T p _).1.board = _
    rw [apply_board]
    simp only []
    rw [hk6, if_neg (c := false = true) (by decide)]
    by_cases he : kindOf (gd p.board sm.src) = PAWN ∧ sm.dst = p.ep
    · obtain ⟨e1, e2, e3, e4, _⟩ := hepc he
      have hisep : Spec.isEpCapture (absPos p) sm = true := (isEp_iff _ _).2 ⟨he.1, he.2, e1, e2⟩
      rw [(f5 he).1, hisep, if_pos rfl, if_neg (c := sm.promo ≠ 0) (by simp [e4])]
      rfl
    · have hisep : Spec.isEpCapture (absPos p) sm = false := by
        apply Bool.eq_false_iff.2
        intro h; exact he ⟨((isEp_iff _ _).1 h).1, ((isEp_iff _ _).1 h).2.1⟩
      rw [(f6 he).1, hisep, if_neg (c := false = true) (by decide)]
      by_cases hp0 : sm.promo ≠ 0
      · rw [if_pos hp0, if_pos hp0, mkPc_eq _ _ hp0]; rfl
      · rw [if_neg hp0, if_neg hp0]; rfl
  · show (doMove T p _).1.side = _
    rw [f1, apply_side]; rfl
  · -- castling rights
    show (doMove T p _).1.castling = _
    rw [apply_castling_specR]
    simp only [absPos_board, absPos_side, absPos_castling]
    by_cases he : kindOf (gd p.board sm.src) = PAWN ∧ sm.dst = p.ep
    · obtain ⟨e1, e2, e3, e4, e5, e6, _⟩ := hepc he
      rw [(f5 he).2]
      have hk : ¬ kindOf (gd p.board sm.src) = KING := by rw [he.1]; decide
      have c2' : cornerOf sm.dst = 0 := by unfold cornerOf; (repeat' split) <;> omega
      have c1' : cornerOf sm.src = 0 := by
        have sh := hpawn he.1
        unfold cornerOf
        rcases hs01 with h | h
        · have := sh.1 h; (repeat' split) <;> omega
        · have := sh.2 h; (repeat' split) <;> omega
      rw [c1', c2']
      simp [specR, hk]
    · rw [(f6 he).2, updateRights_eq_modelR _ _ _ _ _ _ hside]
      have hkk : decide (kindOf (gd p.board sm.dst) = ROOK) = decide (kindOf (gd p.board sm.dst) = ROOK) := rfl
      exact rights_table p.castling p.side _ _ _ _ _ hcast16 (by omega) (cornerOf_lt _) (cornerOf_lt _)
        (rights_premises p.board p.castling p.side sm.src sm.dst hside hinv own1 htarget)
  · -- en-passant square
    show (doMove T p _).1.ep = _
    rw [f4, apply_ep]
    show (if kindOf (gd p.board sm.src) = PAWN ∧ rankOf sm.src = (if p.side = 0 then 1 else 6) ∧ rankOf sm.dst = (if p.side = 0 then 3 else 4)
          then (if p.side = 0 then sm.dst - 8 else sm.dst + 8) else 64) =
      if (decide (kindOf (gd p.board sm.src) = 1) && (decide (sm.dst = sm.src + 16) || decide (sm.dst + 16 = sm.src))) = true
      then (sm.src + sm.dst) / 2 else 64
    have hcondR : ((decide (kindOf (gd p.board sm.src) = 1) && (decide (sm.dst = sm.src + 16) || decide (sm.dst + 16 = sm.src))) = true) ↔
        (kindOf (gd p.board sm.src) = PAWN ∧ (sm.dst = sm.src + 16 ∨ sm.dst + 16 = sm.src)) := by simp [PAWN]
    have r1 : rankOf sm.src = sm.src / 8 := rfl
    have r2 : rankOf sm.dst = sm.dst / 8 := rfl
    by_cases hA : kindOf (gd p.board sm.src) = PAWN ∧ (sm.dst = sm.src + 16 ∨ sm.dst + 16 = sm.src)
    · rw [if_pos (hcondR.2 hA)]
      have sh := hpawn hA.1
      rcases hs01 with h | h
      · have s0 := sh.1 h
        rw [h]
        rw [if_pos (c := kindOf (gd p.board sm.src) = PAWN ∧ rankOf sm.src = (if 0 = 0 then 1 else 6) ∧ rankOf sm.dst = (if 0 = 0 then 3 else 4))
          ⟨hA.1, by rw [r1, if_pos rfl]; omega, by rw [r2, if_pos rfl]; omega⟩, if_pos rfl]
        omega
      · have s1 := sh.2 h
        rw [h]
        rw [if_pos (c := kindOf (gd p.board sm.src) = PAWN ∧ rankOf sm.src = (if 1 = 0 then 1 else 6) ∧ rankOf sm.dst = (if 1 = 0 then 3 else 4))
          ⟨hA.1, by rw [r1, if_neg (by decide)]; omega, by rw [r2, if_neg (by decide)]; omega⟩, if_neg (by decide)]
        omega
    · rw [if_neg (mt hcondR.1 hA)]
      by_cases hk : kindOf (gd p.board sm.src) = PAWN
      · have sh := hpawn hk
        have hA' : ¬ (sm.dst = sm.src + 16 ∨ sm.dst + 16 = sm.src) := fun h => hA ⟨hk, h⟩
        rcases hs01 with h | h
        · have s0 := sh.1 h
          rw [h]
          rw [if_neg (c := kindOf (gd p.board sm.src) = PAWN ∧ rankOf sm.src = (if 0 = 0 then 1 else 6) ∧ rankOf sm.dst = (if 0 = 0 then 3 else 4))
            (by rw [r1, r2, if_pos rfl, if_pos rfl]; intro hh; omega)]
        · have s1 := sh.2 h
          rw [h]
          rw [if_neg (c := kindOf (gd p.board sm.src) = PAWN ∧ rankOf sm.src = (if 1 = 0 then 1 else 6) ∧ rankOf sm.dst = (if 1 = 0 then 3 else 4))
            (by rw [r1, r2, if_neg (by decide), if_neg (by decide)]; intro hh; omega)]
      · rw [if_neg (by intro h; exact hk h.1)]
  · -- half-move clock
    show (doMove T p _).1.halfmove = _
    rw [f3, apply_half, isCapture_eq]
    show (if kindOf (gd p.board sm.src) ≠ PAWN ∧ kindOf (gd p.board sm.dst) = 0 then (p.halfmove + 1) % 65536 else 0) =
      if (decide (kindOf (gd p.board sm.src) = 1) || (decide (gd p.board sm.dst ≠ 0) || Spec.isEpCapture (absPos p) sm)) = true then 0 else p.halfmove + 1
    by_cases hk : kindOf (gd p.board sm.src) = PAWN
    · have hk1 : kindOf (gd p.board sm.src) = 1 := hk
      rw [if_neg (by intro h; exact h.1 hk)]
      simp [hk1]
    · have hk1 : ¬ kindOf (gd p.board sm.src) = 1 := hk
      have hisep : Spec.isEpCapture (absPos p) sm = false := by
        apply Bool.eq_false_iff.2
        intro h; exact hk ((isEp_iff _ _).1 h).1
      rw [hisep]
      by_cases ht : gd p.board sm.dst = 0
      · rw [if_pos ⟨hk, (kindOf_eq_zero _).2 ht⟩]
        simp [hk1, ht]; omega
      · rw [if_neg (by intro h; exact ht ((kindOf_eq_zero _).1 h.2))]
        simp [hk1, ht]
  · show plyFull (doMove T p _).1.ply = _
    rw [f2, apply_full]
    exact plyFull_succ p.ply p.side hp.1 hp.2 hside

/-- C02 core: one move of the model is one move of the rules -/
theorem refine_step (T : ZTable) (p : Position) (sm : Spec.SMove) (ok : StepOK (absPos p) sm) (hp : PlyOK p) (hh : p.halfmove < 65535) :
    absPos (doMove T p (codeOf (absPos p) sm)).1 = Spec.apply (absPos p) sm ∧ PlyOK (doMove T p (codeOf (absPos p) sm)).1 := by
  by_cases hcs : kindOf (gd p.board sm.src) = KING ∧ (sm.dst = sm.src + 2 ∨ sm.dst + 2 = sm.src)
  · exact refine_castle T p sm ok hp hh hcs
  · exact refine_normal T p sm ok hp hh hcs

end Chess
