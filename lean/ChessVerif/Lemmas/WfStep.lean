/-
  Lemmas/WfStep.lean — well-formedness is an invariant of legal play: the position the rules give after a legal move of a well-formed
  position is well-formed again (so every position reachable from the initial position by legal moves is in the quantifier of the
  position theorems).
-/
import ChessVerif.Lemmas.EpExact
namespace Chess

/-- the three shapes of the board after a move -/
inductive ApplyShape (s : Spec.SPos) (m : Spec.SMove) : List Nat → Prop
  | ordinary : Spec.isCastle s.board m = false → Spec.isEpCapture s m = false →
      ApplyShape s m (afterBoard s.board m.src m.dst (if m.promo ≠ 0 then Spec.mkPc s.side m.promo else gd s.board m.src))
  | ep : Spec.isEpCapture s m = true → m.promo = 0 → gd s.board m.src = mkPiece s.side PAWN →
      ApplyShape s m (afterBoardEp s.board m.src m.dst (if s.side = 0 then m.dst - 8 else m.dst + 8) (mkPiece s.side PAWN))
  | castleK : Spec.isCastle s.board m = true → m.dst = m.src + 2 → m.src = (if s.side = 0 then 4 else 60) →
      gd s.board m.src = mkPiece s.side KING → gd s.board (m.src + 1) = 0 → gd s.board (m.src + 2) = 0 → gd s.board (m.src + 3) = mkPiece s.side ROOK →
      ApplyShape s m (afterBoard (afterBoard s.board m.src (m.src + 2) (mkPiece s.side KING)) (m.src + 3) (m.src + 1) (mkPiece s.side ROOK))
  | castleQ : Spec.isCastle s.board m = true → m.dst + 2 = m.src → m.src = (if s.side = 0 then 4 else 60) →
      gd s.board m.src = mkPiece s.side KING → gd s.board (m.src - 1) = 0 → gd s.board (m.src - 2) = 0 → gd s.board (m.src - 4) = mkPiece s.side ROOK →
      ApplyShape s m (afterBoard (afterBoard s.board m.src (m.src - 2) (mkPiece s.side KING)) (m.src - 4) (m.src - 1) (mkPiece s.side ROOK))

theorem applyShape (s : Spec.SPos) (m : Spec.SMove) (ok : StepOK s m) : ApplyShape s m (Spec.apply s m).board := by
  have hs := ok.side
  by_cases hc : Spec.isCastle s.board m = true
  · obtain ⟨hk, hdir⟩ := (isCastle_iff s.board m).1 hc
    obtain ⟨hsrc, hpromo, hks, hqs⟩ := ok.castle ⟨hk, hdir⟩
    have hown : gd s.board m.src = mkPiece s.side KING := by have := ok.own.2; rw [hk] at this; exact this
    have hnep : Spec.isEpCapture s m = false := by
      apply Bool.eq_false_iff.2
      intro he
      have := ((isEp_iff s m).1 he).1
      rw [hk] at this; cases this
    have hmkR : Spec.mkPc s.side 4 = mkPiece s.side ROOK := mkPc_eq' _ 4 (by decide)
    have hp0 : ¬ (m.promo ≠ 0) := by simp [hpromo]
    rcases hdir with hd | hd
    · obtain ⟨e1, e2, e3⟩ := hks hd
      have hboard : (Spec.apply s m).board =
          afterBoard (afterBoard s.board m.src (m.src + 2) (mkPiece s.side KING)) (m.src + 3) (m.src + 1) (mkPiece s.side ROOK) := by
        rw [apply_board]
        simp only []
        rw [hc, hnep, if_neg hp0, hown, hmkR, hd]
        simp only [Bool.false_eq_true, if_false, if_true]
        rfl
      rw [hboard]
      exact ApplyShape.castleK hc hd hsrc hown e1 e2 e3
    · obtain ⟨e1, e2, e3⟩ := hqs hd
      have hne : ¬ m.dst = m.src + 2 := by omega
      have hdst : m.dst = m.src - 2 := by omega
      have hboard : (Spec.apply s m).board =
          afterBoard (afterBoard s.board m.src (m.src - 2) (mkPiece s.side KING)) (m.src - 4) (m.src - 1) (mkPiece s.side ROOK) := by
        rw [apply_board]
        simp only []
        rw [hc, hnep, if_neg hp0, hown, hmkR, if_neg hne, hdst]
        simp only [Bool.false_eq_true, if_false, if_true]
        rfl
      rw [hboard]
      exact ApplyShape.castleQ hc hd hsrc hown e1 e2 e3
  · have hc' : Spec.isCastle s.board m = false := by simpa using hc
    by_cases he : Spec.isEpCapture s m = true
    · obtain ⟨hkP, hdep, _, _⟩ := (isEp_iff s m).1 he
      obtain ⟨_, _, _, hpromo, _, _, _, _⟩ := ok.ep ⟨hkP, hdep⟩
      have hown : gd s.board m.src = mkPiece s.side PAWN := by have := ok.own.2; rw [hkP] at this; exact this
      have hboard : (Spec.apply s m).board = afterBoardEp s.board m.src m.dst (if s.side = 0 then m.dst - 8 else m.dst + 8) (mkPiece s.side PAWN) := by
        rw [apply_board]
        simp only []
        rw [hc', he]
        simp only [Bool.false_eq_true, if_false, if_true]
        rw [if_neg (by simp [hpromo]), hown]; rfl
      rw [hboard]
      exact ApplyShape.ep he hpromo hown
    · have he' : Spec.isEpCapture s m = false := by simpa using he
      rw [apply_board_ordinary s m hc' he']
      exact ApplyShape.ordinary hc' he'

end Chess

namespace Chess

/-- a board after a list of writes (square, new content), applied in order -/
def applyWrites (b : List Nat) (ws : List (Nat × Nat)) : List Nat := ws.foldl (fun b w => b.set w.1 w.2) b

theorem applyWrites_length (b : List Nat) (ws : List (Nat × Nat)) : (applyWrites b ws).length = b.length := by
  induction ws generalizing b with
  | nil => rfl
  | cons w ws ih => unfold applyWrites; rw [List.foldl_cons]; exact (ih (b.set w.1 w.2)).trans (by simp)

/-- reading a board after writes to pairwise distinct squares -/
theorem applyWrites_at (b : List Nat) (ws : List (Nat × Nat)) (hd : (ws.map (·.1)).Nodup) (hlt : ∀ w, w ∈ ws → w.1 < b.length) (i : Nat) :
    gd (applyWrites b ws) i = match ws.find? (fun w => w.1 = i) with | some w => w.2 | none => gd b i := by
  induction ws generalizing b with
  | nil => rfl
  | cons w ws ih =>
    have hd' : List.Pairwise (· ≠ ·) ((w :: ws).map (·.1)) := hd
    rw [List.map_cons, List.pairwise_cons] at hd'
    unfold applyWrites
    rw [List.foldl_cons]
    have := ih (b.set w.1 w.2) hd'.2 (fun x hx => by rw [List.length_set]; exact hlt x (List.mem_cons_of_mem _ hx))
    unfold applyWrites at this
    rw [this, List.find?_cons]
    by_cases hw : w.1 = i
    · subst hw
      have hnone : ws.find? (fun x => decide (x.1 = w.1)) = none := by
        rw [List.find?_eq_none]
        intro x hx
        simp only [decide_eq_true_eq]
        intro e
        exact hd'.1 x.1 (List.mem_map.2 ⟨x, hx, rfl⟩) e.symm
      rw [hnone]
      simp only [decide_true]
      rw [gd_set, if_pos ⟨rfl, hlt w List.mem_cons_self⟩]
    · simp only [hw, decide_false]
      cases hf : ws.find? (fun x => decide (x.1 = i)) with
      | some x => rfl
      | none => simp only []; rw [gd_set, if_neg (fun h => hw h.1)]

theorem countOf_cons (y : Nat) (l : List Nat) (pc : Nat) : countOf (y :: l) pc = (if y = pc then 1 else 0) + countOf l pc := by
  unfold countOf
  rw [List.filter_cons]
  by_cases h : y = pc
  · simp [h]; omega
  · simp [h]

theorem gd_cons_succ (y : Nat) (l : List Nat) (j : Nat) : gd (y :: l) (j + 1) = gd l j := by
  unfold gd; simp

theorem gd_cons_zero (y : Nat) (l : List Nat) : gd (y :: l) 0 = y := by
  unfold gd; simp

theorem countOf_set (b : List Nat) (i x pc : Nat) (hi : i < b.length) :
    countOf (b.set i x) pc + (if gd b i = pc then 1 else 0) = countOf b pc + (if x = pc then 1 else 0) := by
  induction b generalizing i with
  | nil => simp at hi
  | cons y ys ih =>
    cases i with
    | zero =>
      rw [List.set_cons_zero, countOf_cons, countOf_cons, gd_cons_zero]
      omega
    | succ j =>
      have hj : j < ys.length := by simpa using hi
      have := ih j hj
      rw [List.set_cons_succ, countOf_cons, countOf_cons, gd_cons_succ]
      omega

/-- counting a piece code after writes to pairwise distinct squares -/
theorem countOf_writes (b : List Nat) (ws : List (Nat × Nat)) (hd : (ws.map (·.1)).Nodup) (hlt : ∀ w, w ∈ ws → w.1 < b.length) (pc : Nat) :
    countOf (applyWrites b ws) pc + (ws.filter (fun w => gd b w.1 = pc)).length = countOf b pc + (ws.filter (fun w => w.2 = pc)).length := by
  induction ws generalizing b with
  | nil => rfl
  | cons w ws ih =>
    have hd' : List.Pairwise (· ≠ ·) ((w :: ws).map (·.1)) := hd
    rw [List.map_cons, List.pairwise_cons] at hd'
    unfold applyWrites
    rw [List.foldl_cons]
    have h1 := ih (b.set w.1 w.2) hd'.2 (fun x hx => by rw [List.length_set]; exact hlt x (List.mem_cons_of_mem _ hx))
    unfold applyWrites at h1
    have h2 := countOf_set b w.1 w.2 pc (hlt w List.mem_cons_self)
    -- the later writes go to other squares: their old contents are those of b
    have hsame : (ws.filter (fun x => gd (b.set w.1 w.2) x.1 = pc)) = (ws.filter (fun x => gd b x.1 = pc)) := by
      apply List.filter_congr
      intro x hx
      have : w.1 ≠ x.1 := fun e => hd'.1 x.1 (List.mem_map.2 ⟨x, hx, rfl⟩) e
      rw [gd_set, if_neg (fun h => this h.1)]
    rw [hsame] at h1
    have fl : ∀ (q : Nat × Nat → Bool), ((w :: ws).filter q).length = (if q w = true then 1 else 0) + (ws.filter q).length := by
      intro q
      rw [List.filter_cons]
      by_cases hq : q w = true
      · rw [if_pos hq, if_pos hq, List.length_cons]; omega
      · rw [if_neg hq, if_neg hq]; omega
    rw [fl, fl]
    simp only [decide_eq_true_eq]
    by_cases a1 : gd b w.1 = pc
    · by_cases a2 : w.2 = pc
      · rw [if_pos a1, if_pos a2] at h2; rw [if_pos a1, if_pos a2]; omega
      · rw [if_pos a1, if_neg a2] at h2; rw [if_pos a1, if_neg a2]; omega
    · by_cases a2 : w.2 = pc
      · rw [if_neg a1, if_pos a2] at h2; rw [if_neg a1, if_pos a2]; omega
      · rw [if_neg a1, if_neg a2] at h2; rw [if_neg a1, if_neg a2]; omega

end Chess

namespace Chess

theorem applyShape' (s : Spec.SPos) (m : Spec.SMove) (ok : StepOK s m) : ∃ b', (Spec.apply s m).board = b' ∧ ApplyShape s m b' :=
  ⟨_, rfl, applyShape s m ok⟩

theorem mkPiece_le12 (c k : Nat) (hc : c ≤ 1) (hk : k ≤ 6) : mkPiece c k ≤ 12 := by
  unfold mkPiece; split <;> omega

/-- the board after a legal move: 64 squares, piece codes 0..12 -/
theorem boardOK_apply (s : Spec.SPos) (hwf : Spec.wf s = true) (m : Spec.SMove) (hm : m ∈ Spec.legalMoves s) : BoardOK (Spec.apply s m).board := by
  have ok := stepOK_of_legal s hwf m hm
  obtain ⟨hbo, hs, _, _, _⟩ := wf_board_hyps s hwf
  have hX : (if m.promo ≠ 0 then Spec.mkPc s.side m.promo else gd s.board m.src) ≤ 12 := by
    split
    · have := ok.promo.1; unfold Spec.mkPc; omega
    · exact hbo.codes m.src
  obtain ⟨b', hb, sh⟩ := applyShape' s m ok
  rw [hb]
  cases sh with
  | ordinary _ _ => exact afterOK s.board _ _ _ hbo ok.src ok.dst hX
  | ep he _ _ =>
    obtain ⟨hkP, hdep, _, _⟩ := (isEp_iff s m).1 he
    obtain ⟨_, _, _, _, h16, h48, _, _⟩ := ok.ep ⟨hkP, hdep⟩
    exact afterEpOK s.board _ _ _ _ hbo ok.src ok.dst (by split <;> omega) (mkPiece_le12 _ _ hs (by decide))
  | castleK _ hd hsrc _ _ _ _ =>
    have h4 : m.src + 3 < 64 := by rw [hsrc]; split <;> omega
    exact afterOK _ _ _ _ (afterOK s.board _ _ _ hbo ok.src (by omega) (mkPiece_le12 _ _ hs (by decide))) h4 (by omega) (mkPiece_le12 _ _ hs (by decide))
  | castleQ _ hd hsrc _ _ _ _ =>
    exact afterOK _ _ _ _ (afterOK s.board _ _ _ hbo ok.src (by have := ok.src; omega) (mkPiece_le12 _ _ hs (by decide))) (by have := ok.src; omega) (by have := ok.src; omega) (mkPiece_le12 _ _ hs (by decide))

theorem all_le_of_boardOK (b : List Nat) (h : BoardOK b) : b.all (· ≤ 12) = true := by
  rw [List.all_eq_true]
  intro x hx
  obtain ⟨i, hi, rfl⟩ := List.mem_iff_getElem.1 hx
  have := h.codes i
  unfold gd at this
  rw [List.getD_eq_getElem?_getD, List.getElem?_eq_getElem hi] at this
  simpa using this

end Chess

namespace Chess

/-- `Spec.materialOK` as inequalities between piece counts -/
def MatCond (cnt : Nat → Nat) : Prop :=
  (cnt 6 = 1 ∧ cnt 1 ≤ 8 ∧ cnt 2 + cnt 1 ≤ 10 ∧ cnt 3 + cnt 1 ≤ 10 ∧ cnt 4 + cnt 1 ≤ 10 ∧ cnt 5 + cnt 1 ≤ 9) ∧
  (cnt 12 = 1 ∧ cnt 7 ≤ 8 ∧ cnt 8 + cnt 7 ≤ 10 ∧ cnt 9 + cnt 7 ≤ 10 ∧ cnt 10 + cnt 7 ≤ 10 ∧ cnt 11 + cnt 7 ≤ 9)

theorem materialOK_iff (b : List Nat) : Spec.materialOK b = true ↔ MatCond (countOf b) := by
  unfold Spec.materialOK MatCond
  simp only [List.all_cons, List.all_nil, Bool.and_true, Bool.and_eq_true, decide_eq_true_eq, count_eq_countOf]
  have mk : ∀ c k, Spec.mkPc c k = k + 6 * c := fun _ _ => rfl
  simp only [mk]
  constructor
  · rintro ⟨⟨⟨⟨⟨⟨w6, w1⟩, w2⟩, w3⟩, w4⟩, w5⟩, ⟨⟨⟨⟨⟨b6, b1⟩, b2⟩, b3⟩, b4⟩, b5⟩⟩
    exact ⟨⟨of_decide_eq_true w6, of_decide_eq_true w1, of_decide_eq_true w2, of_decide_eq_true w3, of_decide_eq_true w4, of_decide_eq_true w5⟩,
      ⟨of_decide_eq_true b6, of_decide_eq_true b1, of_decide_eq_true b2, of_decide_eq_true b3, of_decide_eq_true b4, of_decide_eq_true b5⟩⟩
  · rintro ⟨⟨w6, w1, w2, w3, w4, w5⟩, ⟨b6, b1, b2, b3, b4, b5⟩⟩
    exact ⟨⟨⟨⟨⟨⟨decide_eq_true w6, decide_eq_true w1⟩, decide_eq_true w2⟩, decide_eq_true w3⟩, decide_eq_true w4⟩, decide_eq_true w5⟩,
      ⟨⟨⟨⟨⟨decide_eq_true b6, decide_eq_true b1⟩, decide_eq_true b2⟩, decide_eq_true b3⟩, decide_eq_true b4⟩, decide_eq_true b5⟩⟩

/-- no piece count grows, the king counts stay: the material condition survives -/
theorem matCond_mono (cnt cnt' : Nat → Nat) (h : MatCond cnt) (hle : ∀ pc, pc ≠ 0 → cnt' pc ≤ cnt pc) (hk : cnt' 6 = cnt 6 ∧ cnt' 12 = cnt 12) :
    MatCond cnt' := by
  obtain ⟨⟨w6, w1, w2, w3, w4, w5⟩, ⟨b6, b1, b2, b3, b4, b5⟩⟩ := h
  have l1 := hle 1 (by decide); have l2 := hle 2 (by decide); have l3 := hle 3 (by decide); have l4 := hle 4 (by decide); have l5 := hle 5 (by decide)
  have l7 := hle 7 (by decide); have l8 := hle 8 (by decide); have l9 := hle 9 (by decide); have l10 := hle 10 (by decide); have l11 := hle 11 (by decide)
  refine ⟨⟨?_, ?_, ?_, ?_, ?_, ?_⟩, ⟨?_, ?_, ?_, ?_, ?_, ?_⟩⟩ <;> omega

/-- a promotion: one pawn less, one piece of the promoted kind more -/
theorem matCond_promo (cnt cnt' : Nat → Nat) (side X : Nat) (hs : side ≤ 1) (h : MatCond cnt)
    (hX : X = 2 + 6 * side ∨ X = 3 + 6 * side ∨ X = 4 + 6 * side ∨ X = 5 + 6 * side)
    (hle : ∀ pc, pc ≠ 0 → pc ≠ X → cnt' pc ≤ cnt pc) (hXle : cnt' X ≤ cnt X + 1) (hp : cnt' (1 + 6 * side) + 1 ≤ cnt (1 + 6 * side))
    (hk : cnt' 6 = cnt 6 ∧ cnt' 12 = cnt 12) : MatCond cnt' := by
  obtain ⟨⟨w6, w1, w2, w3, w4, w5⟩, ⟨b6, b1, b2, b3, b4, b5⟩⟩ := h
  have hs01 : side = 0 ∨ side = 1 := by omega
  rcases hs01 with rfl | rfl <;> rcases hX with rfl | rfl | rfl | rfl <;> simp only [Nat.reduceMul, Nat.reduceAdd] at hle hXle hp <;>
    (have l1 := hle 1 (by decide); have l2 := hle 2 (by decide); have l3 := hle 3 (by decide); have l4 := hle 4 (by decide); have l5 := hle 5 (by decide)
     have l7 := hle 7 (by decide); have l8 := hle 8 (by decide); have l9 := hle 9 (by decide); have l10 := hle 10 (by decide); have l11 := hle 11 (by decide)
     refine ⟨⟨?_, ?_, ?_, ?_, ?_, ?_⟩, ⟨?_, ?_, ?_, ?_, ?_, ?_⟩⟩ <;> omega)

end Chess

namespace Chess

theorem flen2 (q : Nat × Nat → Bool) (w1 w2 : Nat × Nat) :
    ([w1, w2].filter q).length = (if q w1 = true then 1 else 0) + (if q w2 = true then 1 else 0) := by
  by_cases h1 : q w1 = true <;> by_cases h2 : q w2 = true <;> simp [List.filter_cons, h1, h2]
theorem flen3 (q : Nat × Nat → Bool) (w1 w2 w3 : Nat × Nat) :
    ([w1, w2, w3].filter q).length = (if q w1 = true then 1 else 0) + (if q w2 = true then 1 else 0) + (if q w3 = true then 1 else 0) := by
  by_cases h1 : q w1 = true <;> by_cases h2 : q w2 = true <;> by_cases h3 : q w3 = true <;> simp [List.filter_cons, h1, h2, h3]
theorem flen4 (q : Nat × Nat → Bool) (w1 w2 w3 w4 : Nat × Nat) :
    ([w1, w2, w3, w4].filter q).length =
      (if q w1 = true then 1 else 0) + (if q w2 = true then 1 else 0) + (if q w3 = true then 1 else 0) + (if q w4 = true then 1 else 0) := by
  by_cases h1 : q w1 = true <;> by_cases h2 : q w2 = true <;> by_cases h3 : q w3 = true <;> by_cases h4 : q w4 = true <;>
    simp [List.filter_cons, h1, h2, h3, h4]

/-- the captured piece of a legal move is never a king -/
theorem victim_not_king (s : Spec.SPos) (hwf : Spec.wf s = true) (m : Spec.SMove) (hm : m ∈ Spec.legalMoves s) :
    gd s.board m.dst ≠ 6 ∧ gd s.board m.dst ≠ 12 := by
  have ok := stepOK_of_legal s hwf m hm
  have hps : m ∈ Spec.pseudoMoves s := by unfold Spec.legalMoves at hm; exact (List.mem_filter.1 hm).1
  obtain ⟨hbo, hs, hkk, _, _⟩ := wf_board_hyps s hwf
  obtain ⟨kq, hkq, _⟩ := hkk (1 - s.side) (by omega)
  -- the side not to move is not in check
  have hnc : Spec.inCheck s.board (1 - s.side) = false := by
    unfold Spec.wf at hwf
    simp only [Bool.and_eq_true, Bool.not_eq_true'] at hwf
    exact hwf.1.1.1.2
  have hsafe : Spec.attacked s.board kq s.side = false := by
    unfold Spec.inCheck at hnc
    rw [findKing_eq _ _ kq hkq] at hnc
    have : 1 - (1 - s.side) = s.side := by omega
    rw [this] at hnc; exact hnc
  have hdk := dst_ne_king s hwf m hps kq hkq hsafe
  by_cases h0 : gd s.board m.dst = 0
  · rw [h0]; decide
  · have ht := ok.target h0
    have hk1 := kindOf_pos _ h0
    have hk6 := kindOf_le (gd s.board m.dst)
    have hnk : kindOf (gd s.board m.dst) ≠ KING := by
      intro e
      rw [e] at ht
      exact hdk (hkq.only m.dst ok.dst ht)
    have hKv : KING = 6 := rfl
    rw [ht]
    unfold mkPiece
    rw [if_neg (by omega)]
    have hs01 : s.side = 0 ∨ s.side = 1 := by omega
    rcases hs01 with e | e <;> rw [e] <;> omega

end Chess

namespace Chess

/-- MATERIAL: the counts of a well-formed position stay within the material condition after a legal move -/
theorem material_apply (s : Spec.SPos) (hwf : Spec.wf s = true) (m : Spec.SMove) (hm : m ∈ Spec.legalMoves s) :
    MatCond (countOf (Spec.apply s m).board) := by
  have ok := stepOK_of_legal s hwf m hm
  have hps : m ∈ Spec.pseudoMoves s := by unfold Spec.legalMoves at hm; exact (List.mem_filter.1 hm).1
  obtain ⟨hbo, hs, _, _, _⟩ := wf_board_hyps s hwf
  have hs' : s.side ≤ 1 := hs
  have hmat : MatCond (countOf s.board) := by
    apply (materialOK_iff s.board).1
    unfold Spec.wf at hwf
    simp only [Bool.and_eq_true] at hwf
    exact hwf.1.1.1.1.1.2
  obtain ⟨vk6, vk12⟩ := victim_not_king s hwf m hm
  have hlen := hbo.len
  have ha0 := ok.own.1
  have haown := ok.own.2
  have hka1 := kindOf_pos _ ha0
  have hka6 := kindOf_le (gd s.board m.src)
  obtain ⟨b', hb, sh⟩ := applyShape' s m ok
  rw [hb]
  cases sh with
  | ordinary _ _ =>
    generalize hXdef : (if m.promo ≠ 0 then Spec.mkPc s.side m.promo else gd s.board m.src) = X
    have E : ∀ pc, countOf (afterBoard s.board m.src m.dst X) pc +
        ((if gd s.board m.src = pc then 1 else 0) + (if gd s.board m.dst = pc then 1 else 0)) =
        countOf s.board pc + ((if 0 = pc then 1 else 0) + (if X = pc then 1 else 0)) := by
      intro pc
      have := countOf_writes s.board [(m.src, 0), (m.dst, X)]
        (by simp; exact ok.ne) (by intro w hw; simp at hw; rcases hw with rfl | rfl; exact hlen ▸ ok.src; exact hlen ▸ ok.dst) pc
      rw [flen2, flen2] at this
      simp only [decide_eq_true_eq] at this
      exact this
    by_cases hp0 : m.promo = 0
    · -- no promotion: the mover keeps its code, the victim (if any) disappears
      have hX : X = gd s.board m.src := by rw [← hXdef, if_neg (by simp [hp0])]
      rw [hX] at E ⊢
      apply matCond_mono _ _ hmat
      · intro pc hpc
        have e := E pc
        have hz : ¬ (0 = pc) := fun h => hpc h.symm
        rw [if_neg hz] at e
        by_cases a1 : gd s.board m.src = pc
        · rw [if_pos a1] at e; omega
        · rw [if_neg a1] at e; omega
      · constructor
        · have e := E 6
          have hz : ¬ ((0 : Nat) = 6) := by decide
          rw [if_neg vk6, if_neg hz] at e
          by_cases a1 : gd s.board m.src = 6
          · rw [if_pos a1] at e; omega
          · rw [if_neg a1] at e; omega
        · have e := E 12
          have hz : ¬ ((0 : Nat) = 12) := by decide
          rw [if_neg vk12, if_neg hz] at e
          by_cases a1 : gd s.board m.src = 12
          · rw [if_pos a1] at e; omega
          · rw [if_neg a1] at e; omega
    · -- promotion
      obtain ⟨hkP, _⟩ := ok.promo.2 hp0
      obtain ⟨p5, p1⟩ := promo_of_pseudo s m hps
      have hX : X = m.promo + 6 * s.side := by rw [← hXdef, if_pos hp0]; rfl
      have ha : gd s.board m.src = 1 + 6 * s.side := by
        rw [haown, hkP]; unfold mkPiece PAWN; rw [if_neg (by decide)]
      rw [hX] at E ⊢
      rw [ha] at E
      apply matCond_promo _ _ s.side (m.promo + 6 * s.side) hs' hmat (by omega)
      · intro pc hpc hpx
        have e := E pc
        have hz : ¬ (0 = pc) := fun h => hpc h.symm
        have hx : ¬ (m.promo + 6 * s.side = pc) := fun h => hpx h.symm
        rw [if_neg hz, if_neg hx] at e
        omega
      · have e := E (m.promo + 6 * s.side)
        have hz : ¬ (0 = m.promo + 6 * s.side) := by omega
        have hx : m.promo + 6 * s.side = m.promo + 6 * s.side := rfl
        rw [if_neg hz, if_pos hx] at e
        omega
      · have e := E (1 + 6 * s.side)
        have hz : ¬ (0 = 1 + 6 * s.side) := by omega
        have hx : ¬ (m.promo + 6 * s.side = 1 + 6 * s.side) := by omega
        have ha1 : 1 + 6 * s.side = 1 + 6 * s.side := rfl
        rw [if_pos ha1, if_neg hz, if_neg hx] at e
        omega
      · constructor
        · have e := E 6
          have hz : ¬ ((0 : Nat) = 6) := by decide
          have hx : ¬ (m.promo + 6 * s.side = 6) := by omega
          have ha6 : ¬ (1 + 6 * s.side = 6) := by omega
          rw [if_neg ha6, if_neg vk6, if_neg hz, if_neg hx] at e
          omega
        · have e := E 12
          have hz : ¬ ((0 : Nat) = 12) := by decide
          have hx : ¬ (m.promo + 6 * s.side = 12) := by omega
          have ha6 : ¬ (1 + 6 * s.side = 12) := by omega
          rw [if_neg ha6, if_neg vk12, if_neg hz, if_neg hx] at e
          omega
  | ep he hpr hown =>
    obtain ⟨hkP, hdep, _, _⟩ := (isEp_iff s m).1 he
    obtain ⟨_, _, htgt, _, h16, h48, hvic, hcs⟩ := ok.ep ⟨hkP, hdep⟩
    have hc64 : (if s.side = 0 then m.dst - 8 else m.dst + 8) < 64 := by split <;> omega
    have hcd : (if s.side = 0 then m.dst - 8 else m.dst + 8) ≠ m.dst := by split <;> omega
    have E : ∀ pc, countOf (afterBoardEp s.board m.src m.dst (if s.side = 0 then m.dst - 8 else m.dst + 8) (mkPiece s.side PAWN)) pc +
        ((if mkPiece s.side PAWN = pc then 1 else 0) + (if 0 = pc then 1 else 0) + (if mkPiece (1 - s.side) PAWN = pc then 1 else 0)) =
        countOf s.board pc + ((if 0 = pc then 1 else 0) + (if mkPiece s.side PAWN = pc then 1 else 0) + (if 0 = pc then 1 else 0)) := by
      intro pc
      have := countOf_writes s.board [(m.src, 0), (m.dst, mkPiece s.side PAWN), ((if s.side = 0 then m.dst - 8 else m.dst + 8), 0)]
        (by simp; exact ⟨⟨ok.ne, fun e => hcs e.symm⟩, fun e => hcd e.symm⟩)
        (by intro w hw; simp at hw; rcases hw with rfl | rfl | rfl; exact hlen ▸ ok.src; exact hlen ▸ ok.dst; exact hlen ▸ hc64) pc
      rw [flen3, flen3] at this
      simp only [decide_eq_true_eq] at this
      rw [hown, htgt, hvic] at this
      exact this
    apply matCond_mono _ _ hmat
    · intro pc hpc
      have e := E pc
      have hz : ¬ (0 = pc) := fun h => hpc h.symm
      simp only [if_neg hz] at e
      by_cases a1 : mkPiece s.side PAWN = pc
      · simp only [if_pos a1] at e; omega
      · simp only [if_neg a1] at e; omega
    · have n1 : ∀ c, c ≤ 1 → mkPiece c PAWN ≠ 6 ∧ mkPiece c PAWN ≠ 12 := by
        intro c hc; unfold mkPiece PAWN; rw [if_neg (by decide)]; omega
      constructor
      · have e := E 6
        have hz : ¬ ((0 : Nat) = 6) := by decide
        simp only [if_neg (n1 s.side hs').1, if_neg (n1 (1 - s.side) (by omega)).1, if_neg hz] at e
        omega
      · have e := E 12
        have hz : ¬ ((0 : Nat) = 12) := by decide
        simp only [if_neg (n1 s.side hs').2, if_neg (n1 (1 - s.side) (by omega)).2, if_neg hz] at e
        omega
  | castleK _ hd hsrc hK e1 e2 e3 =>
    have h4 : m.src + 3 < 64 := by rw [hsrc]; split <;> omega
    have E : ∀ pc, countOf (afterBoard (afterBoard s.board m.src (m.src + 2) (mkPiece s.side KING)) (m.src + 3) (m.src + 1) (mkPiece s.side ROOK)) pc =
        countOf s.board pc := by
      intro pc
      have := countOf_writes s.board [(m.src, 0), (m.src + 2, mkPiece s.side KING), (m.src + 3, 0), (m.src + 1, mkPiece s.side ROOK)]
        (by simp <;> omega) (by intro w hw; simp at hw; rw [hlen]; rcases hw with rfl | rfl | rfl | rfl <;> simp <;> omega) pc
      rw [flen4, flen4] at this
      simp only [decide_eq_true_eq] at this
      rw [hK, e1, e2, e3] at this
      have : countOf (applyWrites s.board [(m.src, 0), (m.src + 2, mkPiece s.side KING), (m.src + 3, 0), (m.src + 1, mkPiece s.side ROOK)]) pc = countOf s.board pc := by omega
      exact this
    exact matCond_mono _ _ hmat (fun pc _ => by rw [E pc]; exact Nat.le_refl _) ⟨E 6, E 12⟩
  | castleQ _ hd hsrc hK e1 e2 e3 =>
    have h4 : 4 ≤ m.src := by rw [hsrc]; split <;> omega
    have hsrc64 := ok.src
    have E : ∀ pc, countOf (afterBoard (afterBoard s.board m.src (m.src - 2) (mkPiece s.side KING)) (m.src - 4) (m.src - 1) (mkPiece s.side ROOK)) pc =
        countOf s.board pc := by
      intro pc
      have := countOf_writes s.board [(m.src, 0), (m.src - 2, mkPiece s.side KING), (m.src - 4, 0), (m.src - 1, mkPiece s.side ROOK)]
        (by simp <;> omega) (by intro w hw; simp at hw; rw [hlen]; rcases hw with rfl | rfl | rfl | rfl <;> simp <;> omega) pc
      rw [flen4, flen4] at this
      simp only [decide_eq_true_eq] at this
      rw [hK, e1, e2, e3] at this
      have : countOf (applyWrites s.board [(m.src, 0), (m.src - 2, mkPiece s.side KING), (m.src - 4, 0), (m.src - 1, mkPiece s.side ROOK)]) pc = countOf s.board pc := by omega
      exact this
    exact matCond_mono _ _ hmat (fun pc _ => by rw [E pc]; exact Nat.le_refl _) ⟨E 6, E 12⟩

end Chess

namespace Chess

/-- two kings on neighbouring squares: each is "near" the other -/
theorem kingNear_of_adjacent (b : List Nat) (c k k' : Nat) (hk : k < 64) (hk' : KingAt b c k') (hne : k ≠ k')
    (hadj : (Spec.fileI k - Spec.fileI k').natAbs ≤ 1 ∧ (Spec.rankI k - Spec.rankI k').natAbs ≤ 1) : kingNear b k c = true := by
  unfold kingNear
  rw [List.any_eq_true]
  have hk'64 := hk'.lt
  refine ⟨(Spec.fileI k' - Spec.fileI k, Spec.rankI k' - Spec.rankI k), ?_, ?_⟩
  · unfold Spec.fileI Spec.rankI at hadj ⊢
    have h1 : ((k' % 8 : Nat) : Int) - ((k % 8 : Nat) : Int) = -1 ∨ ((k' % 8 : Nat) : Int) - ((k % 8 : Nat) : Int) = 0 ∨ ((k' % 8 : Nat) : Int) - ((k % 8 : Nat) : Int) = 1 := by omega
    have h2 : ((k' / 8 : Nat) : Int) - ((k / 8 : Nat) : Int) = -1 ∨ ((k' / 8 : Nat) : Int) - ((k / 8 : Nat) : Int) = 0 ∨ ((k' / 8 : Nat) : Int) - ((k / 8 : Nat) : Int) = 1 := by omega
    have h3 : ¬ (((k' % 8 : Nat) : Int) - ((k % 8 : Nat) : Int) = 0 ∧ ((k' / 8 : Nat) : Int) - ((k / 8 : Nat) : Int) = 0) := by omega
    rcases h1 with e1 | e1 | e1 <;> rcases h2 with e2 | e2 | e2 <;> rw [e1, e2] <;> simp [Spec.kingOffs] <;> omega
  · have hf : Spec.fileI k + (Spec.fileI k' - Spec.fileI k) = Spec.fileI k' := by omega
    have hr : Spec.rankI k + (Spec.rankI k' - Spec.rankI k) = Spec.rankI k' := by omega
    simp only [hf, hr, Bool.and_eq_true, decide_eq_true_eq]
    have hsq : Spec.sqOf (Spec.fileI k') (Spec.rankI k') = k' := by unfold Spec.sqOf Spec.fileI Spec.rankI; omega
    refine ⟨?_, ?_⟩
    · unfold Spec.onBoard Spec.fileI Spec.rankI; simp only [Bool.and_eq_true, decide_eq_true_eq]; omega
    · rw [hsq, mkPc_eq' _ 6 (by decide)]; exact hk'.here

/-- the kings of the position after a legal move, and that they do not stand next to each other -/
theorem kings_apply (s : Spec.SPos) (hwf : Spec.wf s = true) (m : Spec.SMove) (hm : m ∈ Spec.legalMoves s) :
    (∃ kw, KingAt (Spec.apply s m).board 0 kw) ∧ (∃ kb, KingAt (Spec.apply s m).board 1 kb) ∧
    Spec.kingsAdjacent (Spec.apply s m).board = false := by
  have hbo := boardOK_apply s hwf m hm
  have hmat := material_apply s hwf m hm
  obtain ⟨_, hs, _, _, _⟩ := wf_board_hyps s hwf
  have hs' : s.side ≤ 1 := hs
  obtain ⟨kw, hkw⟩ := kingAt_of_count (Spec.apply s m).board 0 hbo.len (by show countOf _ 6 = 1; exact hmat.1.1)
  obtain ⟨kb, hkb⟩ := kingAt_of_count (Spec.apply s m).board 1 hbo.len (by show countOf _ 12 = 1; exact hmat.2.1)
  refine ⟨⟨kw, hkw⟩, ⟨kb, hkb⟩, ?_⟩
  -- the mover's king is not attacked after the move, in particular not by the other king
  have hsafe : Spec.inCheck (Spec.apply s m).board s.side = false := by
    unfold Spec.legalMoves at hm
    have := (List.mem_filter.1 hm).2
    simpa using this
  have hne : kw ≠ kb := by
    intro e
    have h1 := hkw.here; have h2 := hkb.here
    rw [e, h2] at h1; revert h1; decide
  apply Bool.eq_false_iff.2
  intro hadj
  unfold Spec.kingsAdjacent at hadj
  simp only [Bool.and_eq_true, decide_eq_true_eq] at hadj
  rw [findKing_eq _ _ kw hkw, findKing_eq _ _ kb hkb] at hadj
  let p' : Position := { board := (Spec.apply s m).board }
  have hs01 : s.side = 0 ∨ s.side = 1 := by omega
  rcases hs01 with e | e
  · -- white moved: its king kw must not be near kb
    unfold Spec.inCheck at hsafe
    rw [e, findKing_eq _ _ kw hkw] at hsafe
    have hatt := attacked_eq p' kw 0 (by decide) hkw.lt hbo
    have hb : p'.board = (Spec.apply s m).board := rfl
    rw [hb, hsafe] at hatt
    simp only [Bool.or_eq_false_iff] at hatt
    have := kingNear_of_adjacent (Spec.apply s m).board 1 kw kb hkw.lt hkb hne hadj
    rw [hatt.2] at this; cases this
  · unfold Spec.inCheck at hsafe
    rw [e, findKing_eq _ _ kb hkb] at hsafe
    have hatt := attacked_eq p' kb 1 (by decide) hkb.lt hbo
    have hb : p'.board = (Spec.apply s m).board := rfl
    rw [hb, hsafe] at hatt
    simp only [Bool.or_eq_false_iff] at hatt
    have hadj' : (Spec.fileI kb - Spec.fileI kw).natAbs ≤ 1 ∧ (Spec.rankI kb - Spec.rankI kw).natAbs ≤ 1 := by omega
    have := kingNear_of_adjacent (Spec.apply s m).board 0 kb kw hkb.lt hkw (fun e => hne e.symm) hadj'
    rw [hatt.2] at this; cases this

end Chess

namespace Chess

/-- the squares a move writes -/
def Touched (s : Spec.SPos) (m : Spec.SMove) (i : Nat) : Prop :=
  i = m.src ∨ i = m.dst ∨ (Spec.isEpCapture s m = true ∧ i = (if s.side = 0 then m.dst - 8 else m.dst + 8)) ∨
  (Spec.isCastle s.board m = true ∧ (i = m.src + 1 ∨ i = m.src + 3 ∨ i = m.src - 1 ∨ i = m.src - 4))

/-- reading the board after a move: an untouched square keeps its content; a written square holds 0, the arriving piece (on the
    destination of a move that is not castling), or the castled king or rook -/
theorem apply_gd (s : Spec.SPos) (m : Spec.SMove) (ok : StepOK s m) (i : Nat) :
    (¬ Touched s m i → gd (Spec.apply s m).board i = gd s.board i) ∧
    (gd (Spec.apply s m).board i = gd s.board i ∨ gd (Spec.apply s m).board i = 0 ∨
      (i = m.dst ∧ Spec.isCastle s.board m = false ∧
        gd (Spec.apply s m).board i = (if m.promo ≠ 0 then Spec.mkPc s.side m.promo else gd s.board m.src)) ∨
      (Spec.isCastle s.board m = true ∧ (gd (Spec.apply s m).board i = mkPiece s.side KING ∨ gd (Spec.apply s m).board i = mkPiece s.side ROOK))) := by
  have hlen := ok.len
  obtain ⟨b', hb, sh⟩ := applyShape' s m ok
  rw [hb]
  unfold Touched
  cases sh with
  | ordinary hc he =>
    have h := after_at s.board m.src m.dst (if m.promo ≠ 0 then Spec.mkPc s.side m.promo else gd s.board m.src) i hlen ok.src ok.dst
    have h' : gd (afterBoard s.board m.src m.dst (if m.promo ≠ 0 then Spec.mkPc s.side m.promo else gd s.board m.src)) i = _ := h
    rw [h']
    by_cases h1 : m.dst = i
    · rw [if_pos h1]
      exact ⟨fun hn => absurd (Or.inr (Or.inl h1.symm)) hn, Or.inr (Or.inr (Or.inl ⟨h1.symm, hc, rfl⟩))⟩
    · rw [if_neg h1]
      by_cases h2 : m.src = i
      · rw [if_pos h2]; exact ⟨fun hn => absurd (Or.inl h2.symm) hn, Or.inr (Or.inl rfl)⟩
      · rw [if_neg h2]; exact ⟨fun _ => rfl, Or.inl rfl⟩
  | ep he hpr hown =>
    obtain ⟨hkP, hdep, _, _⟩ := (isEp_iff s m).1 he
    obtain ⟨_, _, _, _, h16, h48, _, _⟩ := ok.ep ⟨hkP, hdep⟩
    have hnc : Spec.isCastle s.board m = false := by
      apply Bool.eq_false_iff.2
      intro hc
      have := ((isCastle_iff s.board m).1 hc).1
      rw [hkP] at this; cases this
    have h := afterEp_at s.board m.src m.dst (if s.side = 0 then m.dst - 8 else m.dst + 8) (mkPiece s.side PAWN) i hlen ok.src ok.dst (by split <;> omega)
    have h' : gd (afterBoardEp s.board m.src m.dst (if s.side = 0 then m.dst - 8 else m.dst + 8) (mkPiece s.side PAWN)) i = _ := h
    rw [h']
    by_cases h3 : (if s.side = 0 then m.dst - 8 else m.dst + 8) = i
    · rw [if_pos h3]; exact ⟨fun hn => absurd (Or.inr (Or.inr (Or.inl ⟨he, h3.symm⟩))) hn, Or.inr (Or.inl rfl)⟩
    · rw [if_neg h3]
      by_cases h1 : m.dst = i
      · rw [if_pos h1]
        refine ⟨fun hn => absurd (Or.inr (Or.inl h1.symm)) hn, Or.inr (Or.inr (Or.inl ⟨h1.symm, hnc, ?_⟩))⟩
        rw [if_neg (by simp [hpr]), hown]
      · rw [if_neg h1]
        by_cases h2 : m.src = i
        · rw [if_pos h2]; exact ⟨fun hn => absurd (Or.inl h2.symm) hn, Or.inr (Or.inl rfl)⟩
        · rw [if_neg h2]; exact ⟨fun _ => rfl, Or.inl rfl⟩
  | castleK hc hd hsrc hK e1 e2 e3 =>
    have h4 : m.src + 3 < 64 := by rw [hsrc]; split <;> omega
    have hl1 : (afterBoard s.board m.src (m.src + 2) (mkPiece s.side KING)).length = 64 := by unfold afterBoard; simp [hlen]
    have ha := after_at (afterBoard s.board m.src (m.src + 2) (mkPiece s.side KING)) (m.src + 3) (m.src + 1) (mkPiece s.side ROOK) i hl1 h4 (by omega)
    have hb1 := after_at s.board m.src (m.src + 2) (mkPiece s.side KING) i hlen ok.src (by omega)
    have h' : gd (afterBoard (afterBoard s.board m.src (m.src + 2) (mkPiece s.side KING)) (m.src + 3) (m.src + 1) (mkPiece s.side ROOK)) i = _ := ha
    rw [h', hb1]
    by_cases c1 : m.src + 1 = i
    · rw [if_pos c1]; exact ⟨fun hn => absurd (Or.inr (Or.inr (Or.inr ⟨hc, Or.inl c1.symm⟩))) hn, Or.inr (Or.inr (Or.inr ⟨hc, Or.inr rfl⟩))⟩
    · rw [if_neg c1]
      by_cases c2 : m.src + 3 = i
      · rw [if_pos c2]; exact ⟨fun hn => absurd (Or.inr (Or.inr (Or.inr ⟨hc, Or.inr (Or.inl c2.symm)⟩))) hn, Or.inr (Or.inl rfl)⟩
      · rw [if_neg c2]
        by_cases c3 : m.src + 2 = i
        · rw [if_pos c3]; exact ⟨fun hn => absurd (Or.inr (Or.inl (by rw [hd]; exact c3.symm))) hn, Or.inr (Or.inr (Or.inr ⟨hc, Or.inl rfl⟩))⟩
        · rw [if_neg c3]
          by_cases c4 : m.src = i
          · rw [if_pos c4]; exact ⟨fun hn => absurd (Or.inl c4.symm) hn, Or.inr (Or.inl rfl)⟩
          · rw [if_neg c4]; exact ⟨fun _ => rfl, Or.inl rfl⟩
  | castleQ hc hd hsrc hK e1 e2 e3 =>
    have h4 : 4 ≤ m.src := by rw [hsrc]; split <;> omega
    have hs64 := ok.src
    have hl1 : (afterBoard s.board m.src (m.src - 2) (mkPiece s.side KING)).length = 64 := by unfold afterBoard; simp [hlen]
    have ha := after_at (afterBoard s.board m.src (m.src - 2) (mkPiece s.side KING)) (m.src - 4) (m.src - 1) (mkPiece s.side ROOK) i hl1 (by omega) (by omega)
    have hb1 := after_at s.board m.src (m.src - 2) (mkPiece s.side KING) i hlen ok.src (by omega)
    have h' : gd (afterBoard (afterBoard s.board m.src (m.src - 2) (mkPiece s.side KING)) (m.src - 4) (m.src - 1) (mkPiece s.side ROOK)) i = _ := ha
    rw [h', hb1]
    by_cases c1 : m.src - 1 = i
    · rw [if_pos c1]; exact ⟨fun hn => absurd (Or.inr (Or.inr (Or.inr ⟨hc, Or.inr (Or.inr (Or.inl c1.symm))⟩))) hn, Or.inr (Or.inr (Or.inr ⟨hc, Or.inr rfl⟩))⟩
    · rw [if_neg c1]
      by_cases c2 : m.src - 4 = i
      · rw [if_pos c2]; exact ⟨fun hn => absurd (Or.inr (Or.inr (Or.inr ⟨hc, Or.inr (Or.inr (Or.inr c2.symm))⟩))) hn, Or.inr (Or.inl rfl)⟩
      · rw [if_neg c2]
        by_cases c3 : m.src - 2 = i
        · rw [if_pos c3]; exact ⟨fun hn => absurd (Or.inr (Or.inl (by omega))) hn, Or.inr (Or.inr (Or.inr ⟨hc, Or.inl rfl⟩))⟩
        · rw [if_neg c3]
          by_cases c4 : m.src = i
          · rw [if_pos c4]; exact ⟨fun hn => absurd (Or.inl c4.symm) hn, Or.inr (Or.inl rfl)⟩
          · rw [if_neg c4]; exact ⟨fun _ => rfl, Or.inl rfl⟩

end Chess

namespace Chess

theorem noPawnsOnEdge_iff (b : List Nat) : Spec.noPawnsOnEdge b = true ↔ ∀ i, (i < 8 ∨ (56 ≤ i ∧ i < 64)) → kindOf (gd b i) ≠ 1 := by
  unfold Spec.noPawnsOnEdge
  simp only [List.all_eq_true, List.mem_range, Bool.and_eq_true, decide_eq_true_eq]
  constructor
  · intro h i hi
    rcases hi with hi | ⟨h1, h2⟩
    · exact (h i hi).1
    · have := (h (i - 56) (by omega)).2
      have e : 56 + (i - 56) = i := by omega
      rw [e] at this; exact this
  · intro h f hf
    exact ⟨h f (Or.inl hf), h (56 + f) (Or.inr ⟨by omega, by omega⟩)⟩

/-- a pawn move onto an end rank promotes -/
theorem pawn_edge_promo (s : Spec.SPos) (hwf : Spec.wf s = true) (m : Spec.SMove) (hps : m ∈ Spec.pseudoMoves s)
    (hk : kindOf (gd s.board m.src) = PAWN) (hedge : m.dst < 8 ∨ (56 ≤ m.dst ∧ m.dst < 64)) : m.promo ≠ 0 := by
  have ok := stepOK_of_pseudo s hwf m hps
  obtain ⟨_, hs, _, _, _⟩ := wf_board_hyps s hwf
  have hs01 : s.side = 0 ∨ s.side = 1 := by omega
  have hsrc64 := ok.src
  -- the pawn is not on an end rank itself
  have hnoedge : ¬ (m.src < 8 ∨ (56 ≤ m.src ∧ m.src < 64)) := by
    intro he
    have hn : Spec.noPawnsOnEdge s.board = true := by
      unfold Spec.wf at hwf
      simp only [Bool.and_eq_true] at hwf
      exact hwf.1.1.2
    exact (noPawnsOnEdge_iff s.board).1 hn m.src he hk
  rcases pseudo_cases s m hps with hc | ⟨sq, hsq, _, h | h | h | h | h | h⟩
  · exfalso
    obtain ⟨hk6, hcc⟩ := mem_castleMoves s m hc
    have hsrc : m.src = (if s.side = 0 then 0 else 56) + 4 := by rcases hcc with ⟨rfl, _⟩ | ⟨rfl, _⟩ <;> rfl
    have : kindOf (gd s.board m.src) = 6 := by
      rw [hsrc]; show kindOf (Spec.pcAt s.board _) = 6
      rw [hk6]; rcases hs01 with e | e <;> rw [e] <;> decide
    rw [hk] at this; cases this
  · obtain ⟨hsrc, shape⟩ := mem_pawnMoves s sq m h.2
    subst hsrc
    have hr := h.1
    cases shape with
    | push1 hon hdst _ hpr =>
      unfold pawnDr at hon hdst; unfold pawnLast at hpr
      rcases hpr with ⟨_, hp⟩ | ⟨hnl, _⟩
      · omega
      · exfalso
        obtain ⟨r1, _, r3⟩ := rankI_sqOf _ _ hon
        rw [← hdst] at r1 r3
        simp only [Spec.rankI, Spec.fileI] at r1 r3 hnl
        rcases hs01 with e | e <;> rw [e] at r1 r3 hnl <;> simp at r1 r3 hnl <;> omega
    | push2 hr2 hdst _ hp => 
      exfalso
      unfold pawnStart at hr2
      have hon : Spec.onBoard (Spec.fileI m.src) (Spec.rankI m.src + 2 * pawnDr s.side) = true := by
        unfold Spec.onBoard Spec.fileI Spec.rankI pawnDr at *
        simp only [Bool.and_eq_true, decide_eq_true_eq]
        rcases hs01 with e | e <;> rw [e] at hr2 ⊢ <;> simp at hr2 ⊢ <;> omega
      obtain ⟨r1, _, r3⟩ := rankI_sqOf _ _ hon
      rw [← hdst] at r1 r3
      simp only [Spec.rankI, Spec.fileI, pawnDr] at r1 r3 hr2
      rcases hs01 with e | e <;> rw [e] at r1 r3 hr2 <;> simp at r1 r3 hr2 <;> omega
    | capture cf _ hon hdst _ hpr =>
      unfold pawnDr at hon hdst; unfold pawnLast at hpr
      rcases hpr with ⟨_, hp⟩ | ⟨hnl, _⟩
      · omega
      · exfalso
        obtain ⟨r1, _, r3⟩ := rankI_sqOf _ _ hon
        rw [← hdst] at r1 r3
        simp only [Spec.rankI, Spec.fileI] at r1 r3 hnl
        rcases hs01 with e | e <;> rw [e] at r1 r3 hnl <;> simp at r1 r3 hnl <;> omega
    | ep cf _ hon hdst _ he64 hde _ =>
      exfalso
      obtain ⟨hrank, _, _⟩ := ep_facts s hwf he64
      rw [← hde] at hrank
      rcases hs01 with e | e <;> rw [e] at hrank <;> simp at hrank <;> omega
  · exfalso
    obtain ⟨d, _, _, hmv, _⟩ := mem_stepMoves s sq _ m h.2
    have : m.src = sq := by rw [hmv]
    rw [this, h.1] at hk; cases hk
  · exfalso
    obtain ⟨d, _, t, _, hmv⟩ := mem_slideMoves s sq _ m h.2
    have : m.src = sq := by rw [hmv]
    rw [this, h.1] at hk; cases hk
  · exfalso
    obtain ⟨d, _, t, _, hmv⟩ := mem_slideMoves s sq _ m h.2
    have : m.src = sq := by rw [hmv]
    rw [this, h.1] at hk; cases hk
  · exfalso
    obtain ⟨d, _, t, _, hmv⟩ := mem_slideMoves s sq _ m h.2
    have : m.src = sq := by rw [hmv]
    rw [this, h.1] at hk; cases hk
  · exfalso
    obtain ⟨d, _, _, hmv, _⟩ := mem_stepMoves s sq _ m h.2
    have : m.src = sq := by rw [hmv]
    rw [this, h.1] at hk; cases hk

end Chess

namespace Chess

theorem kindOf_mkPiece' (c K : Nat) (hc : c ≤ 1) (hK : 1 ≤ K ∧ K ≤ 6) : kindOf (mkPiece c K) = K := kindOf_mkPiece c K hc hK

/-- no pawn stands on an end rank after a legal move -/
theorem noPawnsOnEdge_apply (s : Spec.SPos) (hwf : Spec.wf s = true) (m : Spec.SMove) (hm : m ∈ Spec.legalMoves s) :
    Spec.noPawnsOnEdge (Spec.apply s m).board = true := by
  have ok := stepOK_of_legal s hwf m hm
  have hps : m ∈ Spec.pseudoMoves s := by unfold Spec.legalMoves at hm; exact (List.mem_filter.1 hm).1
  obtain ⟨_, hs, _, _, _⟩ := wf_board_hyps s hwf
  have hs' : s.side ≤ 1 := hs
  have hold : ∀ i, (i < 8 ∨ (56 ≤ i ∧ i < 64)) → kindOf (gd s.board i) ≠ 1 := by
    apply (noPawnsOnEdge_iff s.board).1
    unfold Spec.wf at hwf
    simp only [Bool.and_eq_true] at hwf
    exact hwf.1.1.2
  rw [noPawnsOnEdge_iff]
  intro i hi
  rcases (apply_gd s m ok i).2 with h | h | ⟨hid, _, h⟩ | ⟨_, h | h⟩
  · rw [h]; exact hold i hi
  · rw [h]; decide
  · rw [h]
    by_cases hp0 : m.promo = 0
    · rw [if_neg (by simp [hp0])]
      intro hk
      exact pawn_edge_promo s hwf m hps hk (by rw [← hid]; exact hi) hp0
    · rw [if_pos hp0]
      obtain ⟨p5, p1⟩ := promo_of_pseudo s m hps
      have : Spec.mkPc s.side m.promo = mkPiece s.side m.promo := mkPc_eq' _ _ hp0
      rw [this, kindOf_mkPiece' s.side m.promo hs' ⟨by omega, by omega⟩]
      exact p1
  · rw [h, kindOf_mkPiece' s.side KING hs' (by decide)]; decide
  · rw [h, kindOf_mkPiece' s.side ROOK hs' (by decide)]; decide

end Chess

namespace Chess

/-- which castling rights can survive a move: the bit was set, the king of that colour did not move, and neither end of the move is the
    rook's corner -/
def rightsTabOK : Bool :=
  (List.range 16).all fun c => (List.range 2).all fun side => [true, false].all fun kK => (List.range 5).all fun fc => (List.range 5).all fun tc =>
    (specR c side kK fc tc &&& 1 == 0 || (c &&& 1 != 0 && !(kK && side == 0) && fc != 2 && tc != 2)) &&
    (specR c side kK fc tc &&& 2 == 0 || (c &&& 2 != 0 && !(kK && side == 0) && fc != 1 && tc != 1)) &&
    (specR c side kK fc tc &&& 4 == 0 || (c &&& 4 != 0 && !(kK && side == 1) && fc != 4 && tc != 4)) &&
    (specR c side kK fc tc &&& 8 == 0 || (c &&& 8 != 0 && !(kK && side == 1) && fc != 3 && tc != 3)) &&
    decide (specR c side kK fc tc < 16)
theorem rightsTabOK_true : rightsTabOK = true := by decide +kernel

theorem rights_after (c side : Nat) (kK : Bool) (fc tc : Nat) (hc : c < 16) (hs : side ≤ 1) (hf : fc < 5) (ht : tc < 5) :
    (specR c side kK fc tc &&& 1 ≠ 0 → c &&& 1 ≠ 0 ∧ ¬ (kK = true ∧ side = 0) ∧ fc ≠ 2 ∧ tc ≠ 2) ∧
    (specR c side kK fc tc &&& 2 ≠ 0 → c &&& 2 ≠ 0 ∧ ¬ (kK = true ∧ side = 0) ∧ fc ≠ 1 ∧ tc ≠ 1) ∧
    (specR c side kK fc tc &&& 4 ≠ 0 → c &&& 4 ≠ 0 ∧ ¬ (kK = true ∧ side = 1) ∧ fc ≠ 4 ∧ tc ≠ 4) ∧
    (specR c side kK fc tc &&& 8 ≠ 0 → c &&& 8 ≠ 0 ∧ ¬ (kK = true ∧ side = 1) ∧ fc ≠ 3 ∧ tc ≠ 3) ∧
    specR c side kK fc tc < 16 := by
  have ht' := rightsTabOK_true
  simp only [rightsTabOK, List.all_eq_true, List.mem_range, List.mem_cons, List.not_mem_nil, or_false] at ht'
  have h := ht' c hc side (by omega) kK (by cases kK <;> simp) fc hf tc ht
  simp only [Bool.and_eq_true, Bool.or_eq_true, beq_iff_eq, bne_iff_ne, Bool.not_eq_true', Bool.and_eq_false_iff, decide_eq_true_eq, ne_eq] at h
  obtain ⟨⟨⟨⟨h1, h2⟩, h4⟩, h8⟩, hlt⟩ := h
  refine ⟨?_, ?_, ?_, ?_, hlt⟩
  · intro hb
    rcases h1 with e | ⟨⟨⟨a, b⟩, c'⟩, d⟩
    · exact absurd e hb
    · refine ⟨a, ?_, c', d⟩
      rintro ⟨k1, k2⟩; rcases b with b | b
      · rw [k1] at b; cases b
      · rw [k2] at b; revert b; decide
  · intro hb
    rcases h2 with e | ⟨⟨⟨a, b⟩, c'⟩, d⟩
    · exact absurd e hb
    · refine ⟨a, ?_, c', d⟩
      rintro ⟨k1, k2⟩; rcases b with b | b
      · rw [k1] at b; cases b
      · rw [k2] at b; revert b; decide
  · intro hb
    rcases h4 with e | ⟨⟨⟨a, b⟩, c'⟩, d⟩
    · exact absurd e hb
    · refine ⟨a, ?_, c', d⟩
      rintro ⟨k1, k2⟩; rcases b with b | b
      · rw [k1] at b; cases b
      · rw [k2] at b; revert b; decide
  · intro hb
    rcases h8 with e | ⟨⟨⟨a, b⟩, c'⟩, d⟩
    · exact absurd e hb
    · refine ⟨a, ?_, c', d⟩
      rintro ⟨k1, k2⟩; rcases b with b | b
      · rw [k1] at b; cases b
      · rw [k2] at b; revert b; decide

end Chess

namespace Chess

/-- a square of an end rank that is neither end of the move, and not on the mover's back rank when the move is castling, is untouched -/
theorem untouched_edge (s : Spec.SPos) (m : Spec.SMove) (ok : StepOK s m) (i : Nat) (hi : i < 8 ∨ (56 ≤ i ∧ i < 64))
    (h1 : i ≠ m.src) (h2 : i ≠ m.dst) (h3 : Spec.isCastle s.board m = true → (if s.side = 0 then 56 ≤ i else i < 8)) : ¬ Touched s m i := by
  unfold Touched
  rintro (h | h | ⟨he, h⟩ | ⟨hc, h⟩)
  · exact h1 h
  · exact h2 h
  · obtain ⟨hkP, hdep, _, _⟩ := (isEp_iff s m).1 he
    obtain ⟨_, _, _, _, h16, h48, _, _⟩ := ok.ep ⟨hkP, hdep⟩
    split at h <;> omega
  · obtain ⟨hk, hdir⟩ := (isCastle_iff s.board m).1 hc
    obtain ⟨hsrc, _, _, _⟩ := ok.castle ⟨hk, hdir⟩
    have := h3 hc
    by_cases h0 : s.side = 0
    · rw [if_pos h0] at hsrc this; omega
    · rw [if_neg h0] at hsrc this; omega

theorem rightsConsistent_apply (s : Spec.SPos) (hwf : Spec.wf s = true) (m : Spec.SMove) (hm : m ∈ Spec.legalMoves s) :
    Spec.rightsConsistent (Spec.apply s m) = true ∧ (Spec.apply s m).castling < 16 := by
  have ok := stepOK_of_legal s hwf m hm
  obtain ⟨_, hs, _, _, _⟩ := wf_board_hyps s hwf
  have hs' : s.side ≤ 1 := hs
  obtain ⟨vk6, vk12⟩ := victim_not_king s hwf m hm
  obtain ⟨i1, i2, i4, i8⟩ := ok.rights
  obtain ⟨r1, r2, r4, r8, rlt⟩ := rights_after s.castling s.side (decide (kindOf (gd s.board m.src) = KING)) (cornerOf m.src) (cornerOf m.dst)
    ok.cast hs' (cornerOf_lt _) (cornerOf_lt _)
  rw [← apply_castling_specR] at r1 r2 r4 r8 rlt
  refine ⟨?_, rlt⟩
  have haown := ok.own.2
  -- the mover standing on a king's home square with the king's code is that king
  have moverK : ∀ sq v c, gd s.board sq = v → v = mkPiece c KING → c ≤ 1 → m.src = sq → kindOf (gd s.board m.src) = KING ∧ s.side = c := by
    intro sq v c hv hvc hc1 hsq
    rw [hsq, hv, hvc]
    refine ⟨kindOf_mkPiece c KING hc1 (by decide), ?_⟩
    rw [hsq, hv, hvc, kindOf_mkPiece c KING hc1 (by decide)] at haown
    exact ((mkPiece_inj c KING s.side KING hc1 hs' (by decide) (by decide) haown).1).symm
  -- a castling move is a king move of the side to move
  have castleK : Spec.isCastle s.board m = true → kindOf (gd s.board m.src) = KING := fun hc => ((isCastle_iff s.board m).1 hc).1
  have keep : ∀ i, (i < 8 ∨ (56 ≤ i ∧ i < 64)) → i ≠ m.src → i ≠ m.dst →
      (Spec.isCastle s.board m = true → (if s.side = 0 then 56 ≤ i else i < 8)) → Spec.pcAt (Spec.apply s m).board i = gd s.board i := by
    intro i hi a b c
    exact (apply_gd s m ok i).1 (untouched_edge s m ok i hi a b c)
  unfold Spec.rightsConsistent
  simp only [Bool.and_eq_true, Bool.or_eq_true, decide_eq_true_eq]
  have c2 : ∀ x, cornerOf x ≠ 2 → x ≠ 7 := fun x h e => h ((cornerOf_2 x).2 e)
  have c1 : ∀ x, cornerOf x ≠ 1 → x ≠ 0 := fun x h e => h ((cornerOf_1 x).2 e)
  have c4 : ∀ x, cornerOf x ≠ 4 → x ≠ 63 := fun x h e => h ((cornerOf_4 x).2 e)
  have c3 : ∀ x, cornerOf x ≠ 3 → x ≠ 56 := fun x h e => h ((cornerOf_3 x).2 e)
  refine ⟨⟨⟨?_, ?_⟩, ?_⟩, ?_⟩
  · by_cases hb : (Spec.apply s m).castling &&& 1 = 0
    · exact Or.inl hb
    · right
      obtain ⟨hold, hnk, hf, ht⟩ := r1 hb
      obtain ⟨o4, o7⟩ := i1 hold
      have hnk' : ¬ (kindOf (gd s.board m.src) = KING ∧ s.side = 0) := fun h => hnk ⟨by simp [h.1], h.2⟩
      have hcas : Spec.isCastle s.board m = true → (if s.side = 0 then 56 ≤ 4 else 4 < 8) ∧ (if s.side = 0 then 56 ≤ 7 else 7 < 8) := by
        intro hc
        have hside : s.side ≠ 0 := fun e => hnk' ⟨castleK hc, e⟩
        rw [if_neg hside, if_neg hside]; omega
      have s4 : (4 : Nat) ≠ m.src := fun e => hnk' (moverK 4 6 0 o4 (by decide) (by decide) e.symm)
      have d4 : (4 : Nat) ≠ m.dst := fun e => vk6 (by rw [← e]; exact o4)
      rw [keep 4 (by omega) s4 d4 (fun hc => (hcas hc).1), keep 7 (by omega) (fun e => c2 _ hf e.symm) (fun e => c2 _ ht e.symm) (fun hc => (hcas hc).2)]
      exact ⟨o4, o7⟩
  · by_cases hb : (Spec.apply s m).castling &&& 2 = 0
    · exact Or.inl hb
    · right
      obtain ⟨hold, hnk, hf, ht⟩ := r2 hb
      obtain ⟨o4, o0⟩ := i2 hold
      have hnk' : ¬ (kindOf (gd s.board m.src) = KING ∧ s.side = 0) := fun h => hnk ⟨by simp [h.1], h.2⟩
      have hcas : Spec.isCastle s.board m = true → (if s.side = 0 then 56 ≤ 4 else 4 < 8) ∧ (if s.side = 0 then 56 ≤ 0 else 0 < 8) := by
        intro hc
        have hside : s.side ≠ 0 := fun e => hnk' ⟨castleK hc, e⟩
        rw [if_neg hside, if_neg hside]; omega
      have s4 : (4 : Nat) ≠ m.src := fun e => hnk' (moverK 4 6 0 o4 (by decide) (by decide) e.symm)
      have d4 : (4 : Nat) ≠ m.dst := fun e => vk6 (by rw [← e]; exact o4)
      rw [keep 4 (by omega) s4 d4 (fun hc => (hcas hc).1), keep 0 (by omega) (fun e => c1 _ hf e.symm) (fun e => c1 _ ht e.symm) (fun hc => (hcas hc).2)]
      exact ⟨o4, o0⟩
  · by_cases hb : (Spec.apply s m).castling &&& 4 = 0
    · exact Or.inl hb
    · right
      obtain ⟨hold, hnk, hf, ht⟩ := r4 hb
      obtain ⟨o60, o63⟩ := i4 hold
      have hnk' : ¬ (kindOf (gd s.board m.src) = KING ∧ s.side = 1) := fun h => hnk ⟨by simp [h.1], h.2⟩
      have hcas : Spec.isCastle s.board m = true → (if s.side = 0 then 56 ≤ 60 else 60 < 8) ∧ (if s.side = 0 then 56 ≤ 63 else 63 < 8) := by
        intro hc
        have hside : s.side = 0 := by
          apply Decidable.byContradiction
          intro e; exact hnk' ⟨castleK hc, by omega⟩
        rw [if_pos hside, if_pos hside]; omega
      have s60 : (60 : Nat) ≠ m.src := fun e => hnk' (moverK 60 12 1 o60 (by decide) (by decide) e.symm)
      have d60 : (60 : Nat) ≠ m.dst := fun e => vk12 (by rw [← e]; exact o60)
      rw [keep 60 (by omega) s60 d60 (fun hc => (hcas hc).1), keep 63 (by omega) (fun e => c4 _ hf e.symm) (fun e => c4 _ ht e.symm) (fun hc => (hcas hc).2)]
      exact ⟨o60, o63⟩
  · by_cases hb : (Spec.apply s m).castling &&& 8 = 0
    · exact Or.inl hb
    · right
      obtain ⟨hold, hnk, hf, ht⟩ := r8 hb
      obtain ⟨o60, o56⟩ := i8 hold
      have hnk' : ¬ (kindOf (gd s.board m.src) = KING ∧ s.side = 1) := fun h => hnk ⟨by simp [h.1], h.2⟩
      have hcas : Spec.isCastle s.board m = true → (if s.side = 0 then 56 ≤ 60 else 60 < 8) ∧ (if s.side = 0 then 56 ≤ 56 else 56 < 8) := by
        intro hc
        have hside : s.side = 0 := by
          apply Decidable.byContradiction
          intro e; exact hnk' ⟨castleK hc, by omega⟩
        rw [if_pos hside, if_pos hside]; omega
      have s60 : (60 : Nat) ≠ m.src := fun e => hnk' (moverK 60 12 1 o60 (by decide) (by decide) e.symm)
      have d60 : (60 : Nat) ≠ m.dst := fun e => vk12 (by rw [← e]; exact o60)
      rw [keep 60 (by omega) s60 d60 (fun hc => (hcas hc).1), keep 56 (by omega) (fun e => c3 _ hf e.symm) (fun e => c3 _ ht e.symm) (fun hc => (hcas hc).2)]
      exact ⟨o60, o56⟩

end Chess

namespace Chess

/-- a pseudo-legal double step of a pawn: from its start rank, over an empty square, onto an empty square, no promotion -/
theorem double_push_facts (s : Spec.SPos) (hwf : Spec.wf s = true) (m : Spec.SMove) (hps : m ∈ Spec.pseudoMoves s)
    (hk : kindOf (gd s.board m.src) = PAWN) (hd : m.dst = m.src + 16 ∨ m.dst + 16 = m.src) :
    m.promo = 0 ∧ gd s.board m.dst = 0 ∧ gd s.board ((m.src + m.dst) / 2) = 0 ∧
    (if s.side = 0 then m.dst = m.src + 16 ∧ m.src / 8 = 1 else m.dst + 16 = m.src ∧ m.src / 8 = 6) := by
  have ok := stepOK_of_pseudo s hwf m hps
  obtain ⟨_, hs, _, _, _⟩ := wf_board_hyps s hwf
  have hs01 : s.side = 0 ∨ s.side = 1 := by omega
  have hgeo := ok.pawn hk
  have hsrc64 := ok.src
  have hdst64 := ok.dst
  have hside : (if s.side = 0 then m.dst = m.src + 16 ∧ m.src / 8 = 1 else m.dst + 16 = m.src ∧ m.src / 8 = 6) := by
    rcases hs01 with e | e
    · rw [if_pos e]; have := hgeo.1 e; omega
    · rw [if_neg (by omega)]; have := hgeo.2 e; omega
  rcases pseudo_cases s m hps with hc | ⟨sq, hsq, _, h | h | h | h | h | h⟩
  · exfalso
    obtain ⟨hk6, hcc⟩ := mem_castleMoves s m hc
    have hsrc : m.src = (if s.side = 0 then 0 else 56) + 4 := by rcases hcc with ⟨rfl, _⟩ | ⟨rfl, _⟩ <;> rfl
    have : kindOf (gd s.board m.src) = 6 := by
      rw [hsrc]; show kindOf (Spec.pcAt s.board _) = 6
      rw [hk6]; rcases hs01 with e | e <;> rw [e] <;> decide
    rw [hk] at this; cases this
  · have hsrcEq := (mem_pawnMoves s sq m h.2).1
    subst hsrcEq
    have hmem := h.2
    unfold Spec.pawnMoves at hmem
    simp only [List.mem_append] at hmem
    -- file and rank of the origin
    have hfr : Spec.fileI m.src = ((m.src % 8 : Nat) : Int) ∧ Spec.rankI m.src = ((m.src / 8 : Nat) : Int) := ⟨rfl, rfl⟩
    rcases hmem with (h1 | h2) | h3
    · -- a single step does not go two ranks
      exfalso
      by_cases c : (Spec.onBoard (Spec.fileI m.src) (Spec.rankI m.src + if s.side = 0 then 1 else -1) &&
          decide (Spec.pcAt s.board (Spec.sqOf (Spec.fileI m.src) (Spec.rankI m.src + if s.side = 0 then 1 else -1)) = 0)) = true
      · rw [if_pos c] at h1
        simp only [Bool.and_eq_true, decide_eq_true_eq] at c
        obtain ⟨_, hdst, _⟩ := mem_mk _ _ _ m h1
        obtain ⟨_, _, r3⟩ := rankI_sqOf _ _ c.1
        rw [← hdst] at r3
        simp only [Spec.rankI, Spec.fileI] at r3
        rcases hs01 with e | e <;> rw [e] at r3 hside <;> simp at r3 hside <;> omega
      · rw [if_neg c] at h1; cases h1
    · by_cases c : (decide (Spec.rankI m.src = if s.side = 0 then 1 else 6) &&
          decide (Spec.pcAt s.board (Spec.sqOf (Spec.fileI m.src) (Spec.rankI m.src + if s.side = 0 then 1 else -1)) = 0) &&
          decide (Spec.pcAt s.board (Spec.sqOf (Spec.fileI m.src) (Spec.rankI m.src + 2 * if s.side = 0 then 1 else -1)) = 0)) = true
      · rw [if_pos c] at h2
        simp only [Bool.and_eq_true, decide_eq_true_eq] at c
        obtain ⟨⟨cr, cmid⟩, cdst⟩ := c
        have hm2 := List.mem_singleton.1 h2
        have hpr : m.promo = 0 := by rw [hm2]
        have hdst : m.dst = Spec.sqOf (Spec.fileI m.src) (Spec.rankI m.src + 2 * if s.side = 0 then 1 else -1) := by rw [hm2]
        refine ⟨hpr, ?_, ?_, hside⟩
        · show Spec.pcAt s.board m.dst = 0
          rw [hdst]; exact cdst
        · show Spec.pcAt s.board ((m.src + m.dst) / 2) = 0
          have : (m.src + m.dst) / 2 = Spec.sqOf (Spec.fileI m.src) (Spec.rankI m.src + if s.side = 0 then 1 else -1) := by
            simp only [Spec.rankI, Spec.fileI, Spec.sqOf] at cr ⊢
            rcases hs01 with e | e <;> rw [e] at cr hside ⊢ <;> simp at cr hside ⊢ <;> omega
          rw [this]; exact cmid
      · rw [if_neg c] at h2; cases h2
    · -- a capture step changes the file
      exfalso
      simp only [List.mem_flatMap] at h3
      obtain ⟨cf, hcf, hm3⟩ := h3
      by_cases hon : Spec.onBoard cf (Spec.rankI m.src + if s.side = 0 then 1 else -1) = true
      · rw [if_pos hon] at hm3
        have hdst : m.dst = Spec.sqOf cf (Spec.rankI m.src + if s.side = 0 then 1 else -1) := by
          by_cases hen : Spec.isEnemy (Spec.pcAt s.board (Spec.sqOf cf (Spec.rankI m.src + if s.side = 0 then 1 else -1))) s.side = true
          · rw [if_pos hen] at hm3; exact (mem_mk _ _ _ m hm3).2.1
          · rw [if_neg hen] at hm3
            by_cases hep : (s.ep ≠ 64 && decide (Spec.sqOf cf (Spec.rankI m.src + if s.side = 0 then 1 else -1) = s.ep)) = true
            · rw [if_pos hep] at hm3; rw [List.mem_singleton.1 hm3]
            · rw [if_neg hep] at hm3; cases hm3
        obtain ⟨_, _, r3⟩ := rankI_sqOf _ _ hon
        rw [← hdst] at r3
        simp only [Spec.rankI, Spec.fileI] at r3
        simp only [List.mem_cons, List.not_mem_nil, or_false] at hcf
        rw [Bool.eq_iff_iff] at hon
        simp only [Spec.onBoard, Bool.and_eq_true, decide_eq_true_eq, true_iff] at hon
        rcases hs01 with e | e <;> rw [e] at r3 hside <;> simp at r3 hside <;> omega
      · rw [if_neg hon] at hm3; cases hm3
  · exfalso
    obtain ⟨d, _, _, hmv, _⟩ := mem_stepMoves s sq _ m h.2
    have : m.src = sq := by rw [hmv]
    rw [this, h.1] at hk; cases hk
  · exfalso
    obtain ⟨d, _, t, _, hmv⟩ := mem_slideMoves s sq _ m h.2
    have : m.src = sq := by rw [hmv]
    rw [this, h.1] at hk; cases hk
  · exfalso
    obtain ⟨d, _, t, _, hmv⟩ := mem_slideMoves s sq _ m h.2
    have : m.src = sq := by rw [hmv]
    rw [this, h.1] at hk; cases hk
  · exfalso
    obtain ⟨d, _, t, _, hmv⟩ := mem_slideMoves s sq _ m h.2
    have : m.src = sq := by rw [hmv]
    rw [this, h.1] at hk; cases hk
  · exfalso
    obtain ⟨d, _, _, hmv, _⟩ := mem_stepMoves s sq _ m h.2
    have : m.src = sq := by rw [hmv]
    rw [this, h.1] at hk; cases hk

end Chess

namespace Chess

/-- the en-passant square after a legal move is consistent: it is set exactly by a double step, whose origin and passed square are
    empty, and before which the side now to move was not in check (that is the well-formedness of the position moved from) -/
theorem epConsistent_apply (s : Spec.SPos) (hwf : Spec.wf s = true) (m : Spec.SMove) (hm : m ∈ Spec.legalMoves s) :
    Spec.epConsistent (Spec.apply s m) = true := by
  have ok := stepOK_of_legal s hwf m hm
  have hps : m ∈ Spec.pseudoMoves s := by unfold Spec.legalMoves at hm; exact (List.mem_filter.1 hm).1
  obtain ⟨hbo, hs, _, _, _⟩ := wf_board_hyps s hwf
  have hs' : s.side ≤ 1 := hs
  unfold Spec.epConsistent
  by_cases he : (Spec.apply s m).ep = 64
  · rw [if_pos he]
  · rw [if_neg he]
    rw [apply_ep] at he
    by_cases hcond : (decide (kindOf (gd s.board m.src) = 1) && (decide (m.dst = m.src + 16) || decide (m.dst + 16 = m.src))) = true
    · simp only [Bool.and_eq_true, Bool.or_eq_true, decide_eq_true_eq] at hcond
      obtain ⟨hk, hd⟩ := hcond
      obtain ⟨hpr, hdst0, hmid0, hgeo⟩ := double_push_facts s hwf m hps hk hd
      have hown : gd s.board m.src = mkPiece s.side PAWN := by have := ok.own.2; rw [hk] at this; exact this
      have hnc : Spec.isCastle s.board m = false := by
        apply Bool.eq_false_iff.2
        intro hc
        have := ((isCastle_iff s.board m).1 hc).1
        rw [hk] at this; cases this
      have hnep : Spec.isEpCapture s m = false := by
        apply Bool.eq_false_iff.2
        intro hep
        have := ((isEp_iff s m).1 hep).2.2.2
        rcases hd with e | e <;> omega
      have hboard : (Spec.apply s m).board = afterBoard s.board m.src m.dst (mkPiece s.side PAWN) := by
        rw [apply_board_ordinary s m hnc hnep, if_neg (by simp [hpr]), hown]
      have hepv : (Spec.apply s m).ep = (m.src + m.dst) / 2 := by
        rw [apply_ep, if_pos (by simp only [Bool.and_eq_true, Bool.or_eq_true, decide_eq_true_eq]; exact ⟨hk, hd⟩)]
      have hsidev : (Spec.apply s m).side = 1 - s.side := rfl
      have hsrc64 := ok.src
      have hdst64 := ok.dst
      have hat := fun i => after_at s.board m.src m.dst (mkPiece s.side PAWN) i hbo.len hsrc64 hdst64
      have hs01 : s.side = 0 ∨ s.side = 1 := by omega
      have hb0 : Spec.beforeDoublePush (Spec.apply s m) = s.board := by
        unfold Spec.beforeDoublePush
        simp only []
        rw [hepv, hsidev, hboard]
        have q : (if 1 - s.side = 0 then (m.src + m.dst) / 2 - 8 else (m.src + m.dst) / 2 + 8) = m.dst ∧
            (if 1 - s.side = 0 then (m.src + m.dst) / 2 + 8 else (m.src + m.dst) / 2 - 8) = m.src := by
          rcases hs01 with e | e
          · rw [e] at hgeo ⊢; simp only [if_true] at hgeo; simp only [show (1 - 0 : Nat) = 1 from rfl, show ¬ ((1 : Nat) = 0) from by decide, if_false]; omega
          · rw [e] at hgeo ⊢; simp only [show ¬ ((1 : Nat) = 0) from by decide, if_false] at hgeo; simp only [show (1 - 1 : Nat) = 0 from rfl, if_true]; omega
        rw [q.1, q.2]
        apply list_ext_gd
        · unfold afterBoard; simp
        · intro i
          have e1 : 1 - (1 - s.side) = s.side := by omega
          rw [gd_set, gd_set, e1, mkPc_eq' _ 1 (by decide)]
          have hl : (afterBoard s.board m.src m.dst (mkPiece s.side PAWN)).length = 64 := by unfold afterBoard; simp [hbo.len]
          by_cases i1 : m.src = i
          · rw [if_pos ⟨i1, by simp [hl]; exact hsrc64⟩, ← i1]; exact hown.symm
          · rw [if_neg (fun h => i1 h.1)]
            by_cases i2 : m.dst = i
            · rw [if_pos ⟨i2, by rw [hl]; exact hdst64⟩, ← i2]; exact hdst0.symm
            · rw [if_neg (fun h => i2 h.1)]
              have := hat i
              rw [if_neg i2, if_neg i1] at this
              exact this
      rw [hb0, hepv, hsidev, hboard]
      -- the squares of the double step
      have sq : (if 1 - s.side = 0 then (m.src + m.dst) / 2 - 8 else (m.src + m.dst) / 2 + 8) = m.dst ∧
          (if 1 - s.side = 0 then (m.src + m.dst) / 2 + 8 else (m.src + m.dst) / 2 - 8) = m.src ∧
          (if 1 - s.side = 0 then (m.src + m.dst) / 2 / 8 = 5 else (m.src + m.dst) / 2 / 8 = 2) ∧
          (m.src + m.dst) / 2 ≠ m.src ∧ (m.src + m.dst) / 2 ≠ m.dst := by
        rcases hs01 with e | e
        · rw [e] at hgeo ⊢; simp only [if_true] at hgeo; simp only [show (1 - 0 : Nat) = 1 from rfl, show ¬ ((1 : Nat) = 0) from by decide, if_false]; omega
        · rw [e] at hgeo ⊢; simp only [show ¬ ((1 : Nat) = 0) from by decide, if_false] at hgeo; simp only [show (1 - 1 : Nat) = 0 from rfl, if_true]; omega
      obtain ⟨q1, q2, q3, q4, q5⟩ := sq
      simp only [Bool.and_eq_true, decide_eq_true_eq, Bool.not_eq_true']
      refine ⟨⟨⟨⟨?_, ?_⟩, ?_⟩, ?_⟩, ?_⟩
      · -- rank of the en-passant square
        by_cases h0 : 1 - s.side = 0
        · rw [if_pos h0] at q3 ⊢; exact q3
        · rw [if_neg h0] at q3 ⊢; exact q3
      · show (afterBoard s.board m.src m.dst (mkPiece s.side PAWN)).getD ((m.src + m.dst) / 2) 0 = 0
        rw [hat, if_neg (fun e => q5 e.symm), if_neg (fun e => q4 e.symm)]; exact hmid0
      · rw [q2]
        show (afterBoard s.board m.src m.dst (mkPiece s.side PAWN)).getD m.src 0 = 0
        rw [hat, if_neg (fun e => ok.ne e.symm), if_pos rfl]
      · rw [q1]
        show (afterBoard s.board m.src m.dst (mkPiece s.side PAWN)).getD m.dst 0 = Spec.mkPc (1 - (1 - s.side)) 1
        rw [hat, if_pos rfl]
        have : 1 - (1 - s.side) = s.side := by omega
        rw [this, mkPc_eq' _ 1 (by decide)]; rfl
      · -- before the double step: the position moved from
        have hold : Spec.inCheck s.board (1 - s.side) = false := by
          unfold Spec.wf at hwf
          simp only [Bool.and_eq_true, Bool.not_eq_true'] at hwf
          exact hwf.1.1.1.2
        exact hold
    · rw [if_neg hcond] at he; exact absurd rfl he

end Chess

namespace Chess

/-- **WELL-FORMEDNESS IS AN INVARIANT OF LEGAL PLAY**: the position the rules give after a legal move of a well-formed position is
    well-formed -/
theorem wf_apply (s : Spec.SPos) (hwf : Spec.wf s = true) (m : Spec.SMove) (hm : m ∈ Spec.legalMoves s) : Spec.wf (Spec.apply s m) = true := by
  have hbo := boardOK_apply s hwf m hm
  have hmat := material_apply s hwf m hm
  obtain ⟨_, _, hadj⟩ := kings_apply s hwf m hm
  have hedge := noPawnsOnEdge_apply s hwf m hm
  obtain ⟨hrights, hcast⟩ := rightsConsistent_apply s hwf m hm
  have hepc := epConsistent_apply s hwf m hm
  obtain ⟨_, hs, _, _, _⟩ := wf_board_hyps s hwf
  have hsafe : Spec.inCheck (Spec.apply s m).board s.side = false := by
    unfold Spec.legalMoves at hm
    have := (List.mem_filter.1 hm).2
    simpa using this
  unfold Spec.wf
  simp only [Bool.and_eq_true, decide_eq_true_eq, Bool.not_eq_true']
  refine ⟨⟨⟨⟨⟨⟨⟨⟨⟨hbo.len, all_le_of_boardOK _ hbo⟩, ?_⟩, hcast⟩, (materialOK_iff _).2 hmat⟩, hadj⟩, ?_⟩, hedge⟩, hrights⟩, hepc⟩
  · show 1 - s.side ≤ 1; omega
  · show Spec.inCheck (Spec.apply s m).board (1 - (1 - s.side)) = false
    have : 1 - (1 - s.side) = s.side := by have : s.side ≤ 1 := hs; omega
    rw [this]; exact hsafe

/-- a game: a sequence of moves each legal in the position reached so far -/
def LegalGame : Spec.SPos → List Spec.SMove → Prop
  | _, [] => True
  | s, m :: ms => m ∈ Spec.legalMoves s ∧ LegalGame (Spec.apply s m) ms

/-- every position reached from a well-formed position by a legal game is well-formed -/
theorem wf_game (s : Spec.SPos) (hwf : Spec.wf s = true) (ms : List Spec.SMove) (h : LegalGame s ms) : Spec.wf (ms.foldl Spec.apply s) = true := by
  induction ms generalizing s with
  | nil => exact hwf
  | cons m ms ih =>
    obtain ⟨h1, h2⟩ := h
    exact ih (Spec.apply s m) (wf_apply s hwf m h1) h2

/-- the initial position of chess -/
def startSPos : Spec.SPos :=
  { board := [4, 2, 3, 5, 6, 3, 2, 4, 1, 1, 1, 1, 1, 1, 1, 1] ++ List.replicate 32 0 ++ [7, 7, 7, 7, 7, 7, 7, 7, 10, 8, 9, 11, 12, 9, 8, 10],
    side := 0, castling := 15, ep := 64, halfmove := 0, fullmove := 1 }

theorem wf_start : Spec.wf startSPos = true := by decide +kernel

/-- **EVERY POSITION OF EVERY LEGAL GAME FROM THE INITIAL POSITION IS WELL-FORMED** -/
theorem wf_reachable (ms : List Spec.SMove) (h : LegalGame startSPos ms) : Spec.wf (ms.foldl Spec.apply startSPos) = true :=
  wf_game startSPos wf_start ms h

end Chess
