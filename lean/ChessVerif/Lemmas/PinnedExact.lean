/-
  Lemmas/PinnedExact.lean — out of check, the moves the generator emits for a pinned knight, bishop, rook or queen are exactly the
  rules' legal moves of that piece (none for a knight; for a slider the squares of the pin ray, if the piece moves that way at all).
-/
import ChessVerif.Lemmas.PinnedSlider
import ChessVerif.Lemmas.OrdinaryLegal
import ChessVerif.Lemmas.ExactQuiet
namespace Chess

theorem dir_ray_diag (d : Int × Int) (h : d ∈ Spec.diagDirs) : ∃ r, r < 8 ∧ r % 2 = 0 ∧ rayDirI r = d := by
  simp [Spec.diagDirs] at h
  rcases h with rfl | rfl | rfl | rfl
  · exact ⟨2, by decide, by decide, rfl⟩
  · exact ⟨0, by decide, by decide, rfl⟩
  · exact ⟨4, by decide, by decide, rfl⟩
  · exact ⟨6, by decide, by decide, rfl⟩
theorem dir_ray_ortho (d : Int × Int) (h : d ∈ Spec.orthoDirs) : ∃ r, r < 8 ∧ r % 2 = 1 ∧ rayDirI r = d := by
  simp [Spec.orthoDirs] at h
  rcases h with rfl | rfl | rfl | rfl
  · exact ⟨1, by decide, by decide, rfl⟩
  · exact ⟨5, by decide, by decide, rfl⟩
  · exact ⟨3, by decide, by decide, rfl⟩
  · exact ⟨7, by decide, by decide, rfl⟩

theorem ray_in_dirs (r : Nat) (hr : r < 8) : (r % 2 = 0 → rayDirI r ∈ Spec.diagDirs) ∧ (r % 2 = 1 → rayDirI r ∈ Spec.orthoDirs) := by
  have : r = 0 ∨ r = 1 ∨ r = 2 ∨ r = 3 ∨ r = 4 ∨ r = 5 ∨ r = 6 ∨ r = 7 := by omega
  rcases this with rfl | rfl | rfl | rfl | rfl | rfl | rfl | rfl <;> simp [rayDirI, Spec.diagDirs, Spec.orthoDirs]

theorem opposite_parity (r : Nat) (hr : r < 8) : oppositeRay r % 2 = r % 2 := by unfold oppositeRay; omega

/-- which rays a slider of kind K moves along -/
theorem dirsOf_ray (K : Nat) (hK : K = BISHOP ∨ K = ROOK ∨ K = QUEEN) (d : Int × Int) :
    d ∈ dirsOf K ↔ ∃ r, r < 8 ∧ rayDirI r = d ∧ allowedRay K r = true := by
  unfold dirsOf allowedRay
  rcases hK with rfl | rfl | rfl
  · simp only [if_true]
    constructor
    · intro h; obtain ⟨r, a, b, c⟩ := dir_ray_diag d h; exact ⟨r, a, c, by simp [b]⟩
    · rintro ⟨r, a, b, c⟩; rw [← b]; exact (ray_in_dirs r a).1 (by simpa using c)
  · have e : ¬ (ROOK = BISHOP) := by decide
    simp only [e, if_false, if_true]
    constructor
    · intro h; obtain ⟨r, a, b, c⟩ := dir_ray_ortho d h; exact ⟨r, a, c, by simp [b]⟩
    · rintro ⟨r, a, b, c⟩; rw [← b]; exact (ray_in_dirs r a).2 (by simpa using c)
  · have e1 : ¬ (QUEEN = BISHOP) := by decide
    have e2 : ¬ (QUEEN = ROOK) := by decide
    simp only [e1, e2, if_false, List.mem_append]
    constructor
    · rintro (h | h)
      · obtain ⟨r, a, _, c⟩ := dir_ray_diag d h; exact ⟨r, a, c, trivial⟩
      · obtain ⟨r, a, _, c⟩ := dir_ray_ortho d h; exact ⟨r, a, c, trivial⟩
    · rintro ⟨r, a, b, _⟩
      rw [← b]
      by_cases hp : r % 2 = 0
      · exact Or.inl ((ray_in_dirs r a).1 hp)
      · exact Or.inr ((ray_in_dirs r a).2 (by omega))

end Chess

namespace Chess

theorem pin_scan_of_mem (p : Position) (ok : BoardOK p.board) (hs : p.side ≤ 1) (k : Nat) (hking : KingAt p.board p.side k) (pin : Nat)
    (h : pin ∈ genPins (BBs.of p) p.board p.side) :
    ∃ r s rest, PinAt p k r (pinSquare pin) s rest ∧ pinRay pin = r ∧ pinSquare pin < 64 ∧ pinKind pin = kindOf (p.board.getD (pinSquare pin) 0) := by
  have hks : kingSq p.board p.side = k := kingSq_eq p.board p.side k ok.len hking
  have hk64 : kingSq p.board p.side < 64 := by rw [hks]; exact hking.lt
  unfold genPins at h
  rw [List.mem_filterMap] at h
  obtain ⟨r, hr, hp⟩ := h
  have hr8 : r < 8 := by simp at hr; omega
  obtain ⟨pok, hray⟩ := genPinInRay_ok p ok hs hk64 r hr8 pin hp
  obtain ⟨s, rest, hpa⟩ := pinAt_of_scan p k r hks hking.lt hr8 pin hp
  exact ⟨r, s, rest, hpa, hray, pok.sq, pok.kind⟩

/-- C01 for a pinned knight, bishop, rook or queen out of check: generated = legal -/
theorem pinned_piece_exact (p : Position) (hwf : Spec.wf (absPos p) = true) (hnic : Spec.inCheck p.board p.side = false)
    (pin : Nat) (hmem : pin ∈ genPins (BBs.of p) p.board p.side)
    (hK : pinKind pin = KNIGHT ∨ pinKind pin = BISHOP ∨ pinKind pin = ROOK ∨ pinKind pin = QUEEN) (code : Nat) :
    code ∈ genPinnedPieceMoves (BBs.of p) p.side pin (bnot (BBs.of p).all ||| (BBs.of p).color (1 - p.side)) p.ep ↔
      ∃ m, m ∈ Spec.legalMoves (absPos p) ∧ m.src = pinSquare pin ∧ codeOf (absPos p) m = code := by
  obtain ⟨hbo, hside, hkk, _, _⟩ := wf_board_hyps _ hwf
  have ok : BoardOK p.board := hbo
  have hs : p.side ≤ 1 := hside
  obtain ⟨k, hk, _⟩ := hkk p.side hs
  have hking : KingAt p.board p.side k := hk
  obtain ⟨r, s, rest, hpa, hray, ha64, hkind⟩ := pin_scan_of_mem p ok hs k hking pin hmem
  generalize hadef : pinSquare pin = a at *
  generalize hKdef : pinKind pin = K at *
  have hr := hpa.r8
  obtain ⟨_, hbf, _, _⟩ := own_piece p ok hs a hpa.own
  have hbK : p.board.getD a 0 = mkPiece p.side K := by rw [hbf, ← hkind]
  have hK16 : 1 ≤ K ∧ K ≤ 6 := by rcases hK with rfl | rfl | rfl | rfl <;> decide
  have hkN : kindOf (p.board.getD a 0) = K := hkind.symm
  have hownS : Spec.isOwn (Spec.pcAt (absPos p).board a) (absPos p).side = true := by
    show Spec.isOwn (p.board.getD a 0) p.side = true
    rw [hbK]
    have hs01 : p.side = 0 ∨ p.side = 1 := by omega
    rcases hs01 with e | e <;> rw [e] <;> rcases hK with rfl | rfl | rfl | rfl <;> decide
  have hnk : kindOf (p.board.getD a 0) ≠ KING := by rw [hkN]; rcases hK with rfl | rfl | rfl | rfl <;> decide
  have hnotcastle : ∀ t, Spec.isCastle p.board ⟨a, t, 0⟩ = false := by
    intro t
    unfold Spec.isCastle
    have : Spec.kindOfPc (Spec.pcAt p.board a) = K := hkN
    simp only []
    rw [this]
    rcases hK with rfl | rfl | rfl | rfl <;> simp [KNIGHT, BISHOP, ROOK, QUEEN]
  have hnotep : ∀ t, Spec.isEpCapture (absPos p) ⟨a, t, 0⟩ = false := by
    intro t
    unfold Spec.isEpCapture
    have : Spec.kindOfPc (Spec.pcAt (absPos p).board a) = K := hkN
    simp only []
    rw [this]
    rcases hK with rfl | rfl | rfl | rfl <;> simp [KNIGHT, BISHOP, ROOK, QUEEN]
  have hcodeOf : ∀ t, codeOf (absPos p) ⟨a, t, 0⟩ = mkMove a t := by
    intro t
    rw [codeOf_plain p ⟨a, t, 0⟩ hnk]
    exact (mkMove_eq_promo a t).symm
  -- legality of an ordinary move of this piece = staying on the pin ray
  have legal_iff : ∀ t, (⟨a, t, 0⟩ : Spec.SMove) ∈ Spec.pseudoMoves (absPos p) →
      ((⟨a, t, 0⟩ : Spec.SMove) ∈ Spec.legalMoves (absPos p) ↔ (t = s ∨ thru (rayList k r) t s = true)) := by
    intro t hps
    have sok := stepOK_of_pseudo _ hwf _ hps
    obtain ⟨k2, k', hk2, h1, h6, hsk, _, hsafe, hiff⟩ := ordinary_legal_iff p hwf hnic ⟨a, t, 0⟩ hps (hnotcastle t) (hnotep t) hnk
    have ek : k2 = k := kingAt_unique _ _ _ _ hk2 hking
    subst ek
    rw [hiff]
    constructor
    · intro hsf
      apply Decidable.byContradiction
      intro hnot
      simp only [not_or] at hnot
      have := pinned_exposed_off_ray p k2 r a s rest t k' hs ok hpa ha64 sok.dst sok.ne ⟨h1, h6⟩ hking ⟨hnot.1, by simpa using hnot.2⟩
      rw [hsf] at this; cases this
    · intro hon
      exact pinned_safe_on_ray p k2 r a s rest t k' hs ok hpa ha64 sok.dst sok.ne ⟨h1, h6⟩ hking hsk hsafe hon
  unfold genPinnedPieceMoves
  simp only []
  rw [hadef, hKdef, hray]
  rcases hK with rfl | hKs
  · -- a pinned knight never moves
    rw [if_pos rfl]
    constructor
    · intro h; simp at h
    · rintro ⟨m, hm, hsrc, _⟩
      exfalso
      have hps : m ∈ Spec.pseudoMoves (absPos p) := by unfold Spec.legalMoves at hm; exact (List.mem_filter.1 hm).1
      have key : ∃ t, m = ⟨a, t, 0⟩ ∧ t ∈ knightTargets a := by
        rcases pseudo_cases (absPos p) m hps with hc | ⟨sq, hsq, _, h | h | h | h | h | h⟩
        · exfalso
          obtain ⟨hkc, hc⟩ := mem_castleMoves (absPos p) m hc
          have hsrc4 : m.src = (if (absPos p).side = 0 then 0 else 56) + 4 := by rcases hc with ⟨rfl, _⟩ | ⟨rfl, _⟩ <;> rfl
          have hkb : p.board.getD ((if p.side = 0 then 0 else 56) + 4) 0 = Spec.mkPc p.side 6 := hkc
          have e4 : (if p.side = 0 then 0 else 56) + 4 = a := by rw [← hsrc]; exact hsrc4.symm
          rw [e4, hbK, mkPc_eq' _ 6 (by decide)] at hkb
          have := (mkPiece_inj p.side KNIGHT p.side KING hs hs (by decide) (by decide) hkb).2
          cases this
        · exfalso
          obtain ⟨e, _⟩ := mem_pawnMoves (absPos p) sq m h.2
          have : sq = a := by rw [← e, hsrc]
          rw [this] at h
          have h1 : kindOf (p.board.getD a 0) = 1 := h.1
          rw [hkN] at h1; cases h1
        · obtain ⟨d, hd, hon, hmv, _⟩ := mem_stepMoves (absPos p) sq _ m h.2
          have e : sq = a := by rw [← hsrc, hmv]
          subst e
          refine ⟨_, hmv, ?_⟩
          unfold knightTargets
          rw [List.mem_filterMap]
          exact ⟨d, hd, by rw [if_pos hon]⟩
        · exfalso
          obtain ⟨d, _, t, _, hmv⟩ := mem_slideMoves (absPos p) sq _ m h.2
          have : sq = a := by rw [← hsrc, hmv]
          rw [this] at h
          have h1 : kindOf (p.board.getD a 0) = 3 := h.1
          rw [hkN] at h1; cases h1
        · exfalso
          obtain ⟨d, _, t, _, hmv⟩ := mem_slideMoves (absPos p) sq _ m h.2
          have : sq = a := by rw [← hsrc, hmv]
          rw [this] at h
          have h1 : kindOf (p.board.getD a 0) = 4 := h.1
          rw [hkN] at h1; cases h1
        · exfalso
          obtain ⟨d, _, t, _, hmv⟩ := mem_slideMoves (absPos p) sq _ m h.2
          have : sq = a := by rw [← hsrc, hmv]
          rw [this] at h
          have h1 : kindOf (p.board.getD a 0) = 5 := h.1
          rw [hkN] at h1; cases h1
        · exfalso
          obtain ⟨d, _, _, hmv, _⟩ := mem_stepMoves (absPos p) sq _ m h.2
          have : sq = a := by rw [← hsrc, hmv]
          rw [this] at h
          have h1 : kindOf (p.board.getD a 0) = 6 := h.1
          rw [hkN] at h1; cases h1
      obtain ⟨t, rfl, hkt⟩ := key
      have ha_mem : a ∈ rayList k r := by
        have : a ∈ (rayList k r).filter (fun y => (BBs.of p).all.testBit y) := by rw [hpa.fil]; exact List.mem_cons_self
        exact (List.mem_filter.1 this).1
      have hs_mem : s ∈ rayList k r := by
        have : s ∈ (rayList k r).filter (fun y => (BBs.of p).all.testBit y) := by rw [hpa.fil]; simp
        exact (List.mem_filter.1 this).1
      obtain ⟨_, _, _, g4, _⟩ := pinGeo k r a hking.lt hr ha_mem
      have hnot := g4 t hkt
      rcases (legal_iff t hps).1 hm with e | e
      · rw [e] at hnot; exact hnot hs_mem
      · exact hnot (thru_mem _ _ _ e).1
  · -- sliders
    have hKn : K ≠ KNIGHT := by rcases hKs with rfl | rfl | rfl <;> decide
    have hKp : K ≠ PAWN := by rcases hKs with rfl | rfl | rfl <;> decide
    rw [if_neg hKn, if_neg hKp]
    have hpseudo : ∀ m, m ∈ Spec.slideMoves (absPos p) a (dirsOf K) → m ∈ Spec.pseudoMoves (absPos p) := by
      intro m hm
      have hkN' : Spec.kindOfPc (Spec.pcAt (absPos p).board a) = K := hkN
      rcases hKs with rfl | rfl | rfl
      · exact mem_pseudo_of_piece (absPos p) a ha64 hownS m 3 hkN' hm
      · exact mem_pseudo_of_piece (absPos p) a ha64 hownS m 4 hkN' hm
      · exact mem_pseudo_of_piece (absPos p) a ha64 hownS m 5 hkN' hm
    have hslideMoves : ∀ t d, d ∈ dirsOf K → t ∈ Spec.slide p.board p.side d 7 (Spec.fileI a) (Spec.rankI a) →
        (⟨a, t, 0⟩ : Spec.SMove) ∈ Spec.slideMoves (absPos p) a (dirsOf K) := by
      intro t d hd ht
      unfold Spec.slideMoves
      simp only [List.mem_flatMap, List.mem_map]
      exact ⟨d, hd, t, ht, rfl⟩
    -- every legal move of the piece slides along the pin ray, one way or the other
    have legal_on_line : ∀ m, m ∈ Spec.legalMoves (absPos p) → m.src = a →
        ∃ t, m = ⟨a, t, 0⟩ ∧ allowedRay K r = true ∧
          (t ∈ Spec.slide p.board p.side (rayDirI r) 7 (Spec.fileI a) (Spec.rankI a) ∨
           t ∈ Spec.slide p.board p.side (rayDirI (oppositeRay r)) 7 (Spec.fileI a) (Spec.rankI a)) := by
      intro m hm hsrc
      have hps : m ∈ Spec.pseudoMoves (absPos p) := by unfold Spec.legalMoves at hm; exact (List.mem_filter.1 hm).1
      have key : ∃ t d, m = ⟨a, t, 0⟩ ∧ d ∈ dirsOf K ∧ t ∈ Spec.slide p.board p.side d 7 (Spec.fileI a) (Spec.rankI a) := by
        rcases pseudo_cases (absPos p) m hps with hc | ⟨sq, hsq, _, h | h | h | h | h | h⟩
        · exfalso
          obtain ⟨hkc, hc⟩ := mem_castleMoves (absPos p) m hc
          have hsrc4 : m.src = (if (absPos p).side = 0 then 0 else 56) + 4 := by rcases hc with ⟨rfl, _⟩ | ⟨rfl, _⟩ <;> rfl
          have hkb : p.board.getD ((if p.side = 0 then 0 else 56) + 4) 0 = Spec.mkPc p.side 6 := hkc
          have e4 : (if p.side = 0 then 0 else 56) + 4 = a := by rw [← hsrc]; exact hsrc4.symm
          rw [e4, hbK, mkPc_eq' _ 6 (by decide)] at hkb
          have := (mkPiece_inj p.side K p.side KING hs hs hK16 (by decide) hkb).2
          rcases hKs with rfl | rfl | rfl <;> cases this
        · exfalso
          obtain ⟨e, _⟩ := mem_pawnMoves (absPos p) sq m h.2
          have : sq = a := by rw [← e, hsrc]
          rw [this] at h
          have h1 : kindOf (p.board.getD a 0) = 1 := h.1
          rw [hkN] at h1; rcases hKs with rfl | rfl | rfl <;> cases h1
        · exfalso
          obtain ⟨d, _, _, hmv, _⟩ := mem_stepMoves (absPos p) sq _ m h.2
          have : sq = a := by rw [← hsrc, hmv]
          rw [this] at h
          have h1 : kindOf (p.board.getD a 0) = 2 := h.1
          rw [hkN] at h1; rcases hKs with rfl | rfl | rfl <;> cases h1
        · obtain ⟨d, hd, t, ht, hmv⟩ := mem_slideMoves (absPos p) sq _ m h.2
          have e : sq = a := by rw [← hsrc, hmv]
          subst e
          have h1 : kindOf (p.board.getD sq 0) = 3 := h.1
          have hK3 : K = BISHOP := by rw [← hkN, h1]; rfl
          subst hK3
          exact ⟨t, d, hmv, hd, ht⟩
        · obtain ⟨d, hd, t, ht, hmv⟩ := mem_slideMoves (absPos p) sq _ m h.2
          have e : sq = a := by rw [← hsrc, hmv]
          subst e
          have h1 : kindOf (p.board.getD sq 0) = 4 := h.1
          have hK4 : K = ROOK := by rw [← hkN, h1]; rfl
          subst hK4
          exact ⟨t, d, hmv, hd, ht⟩
        · obtain ⟨d, hd, t, ht, hmv⟩ := mem_slideMoves (absPos p) sq _ m h.2
          have e : sq = a := by rw [← hsrc, hmv]
          subst e
          have h1 : kindOf (p.board.getD sq 0) = 5 := h.1
          have hK5 : K = QUEEN := by rw [← hkN, h1]; rfl
          subst hK5
          exact ⟨t, d, hmv, hd, ht⟩
        · exfalso
          obtain ⟨d, _, _, hmv, _⟩ := mem_stepMoves (absPos p) sq _ m h.2
          have : sq = a := by rw [← hsrc, hmv]
          rw [this] at h
          have h1 : kindOf (p.board.getD a 0) = 6 := h.1
          rw [hkN] at h1; rcases hKs with rfl | rfl | rfl <;> cases h1
      obtain ⟨t, d, rfl, hd, hsl⟩ := key
      obtain ⟨r', hr', hrd, hall⟩ := (dirsOf_ray K hKs d).1 hd
      have hon := (legal_iff t hps).1 hm
      by_cases e1 : r' = r
      · subst e1
        exact ⟨t, rfl, hall, Or.inl (by rw [hrd]; exact hsl)⟩
      · by_cases e2 : r' = oppositeRay r
        · subst e2
          refine ⟨t, rfl, ?_, Or.inr (by rw [hrd]; exact hsl)⟩
          unfold allowedRay at hall ⊢
          rw [opposite_parity r hr] at hall
          exact hall
        · exfalso
          have := slide_off_seg p ok k r a s rest hpa hking r' hr' e1 e2 t (by rw [hrd]; exact hsl)
          rcases hon with e | e
          · exact this.1 e
          · rw [this.2] at e; cases e
    by_cases hA : (!allowedRay K r) = true
    · rw [if_pos hA]
      constructor
      · intro h; simp at h
      · rintro ⟨m, hm, hsrc, _⟩
        exfalso
        obtain ⟨_, _, hall, _⟩ := legal_on_line m hm hsrc
        rw [hall] at hA; simp at hA
    · rw [if_neg hA]
      have hall : allowedRay K r = true := by simpa using hA
      have hd1 : rayDirI r ∈ dirsOf K := (dirsOf_ray K hKs _).2 ⟨r, hr, rfl, hall⟩
      have hd2 : rayDirI (oppositeRay r) ∈ dirsOf K := by
        apply (dirsOf_ray K hKs _).2
        refine ⟨oppositeRay r, oppositeRay_lt r, rfl, ?_⟩
        unfold allowedRay at hall ⊢
        rw [opposite_parity r hr]
        exact hall
      constructor
      · intro h
        simp only [List.mem_map, mem_bitsOf] at h
        obtain ⟨t, ⟨ht, hb⟩, rfl⟩ := h
        have hsl := (pinned_line_targets p ok hs a r t ha64 hr ht).1 hb
        have hon := slide_on_seg p ok hs k r a s rest hpa hking t hsl
        have hmem : (⟨a, t, 0⟩ : Spec.SMove) ∈ Spec.slideMoves (absPos p) a (dirsOf K) := by
          rcases hsl with h | h
          · exact hslideMoves t _ hd1 h
          · exact hslideMoves t _ hd2 h
        have hps := hpseudo _ hmem
        exact ⟨⟨a, t, 0⟩, (legal_iff t hps).2 hon, rfl, hcodeOf t⟩
      · rintro ⟨m, hm, hsrc, rfl⟩
        obtain ⟨t, rfl, _, hsl⟩ := legal_on_line m hm hsrc
        rw [hcodeOf]
        have ht : t < 64 := by
          rcases hsl with h | h
          · obtain ⟨j, _, _, hon, rfl, _⟩ := mem_slide _ _ _ _ _ _ _ h; exact sqOf_lt _ _ hon
          · obtain ⟨j, _, _, hon, rfl, _⟩ := mem_slide _ _ _ _ _ _ _ h; exact sqOf_lt _ _ hon
        simp only [List.mem_map, mem_bitsOf]
        exact ⟨t, ⟨ht, (pinned_line_targets p ok hs a r t ha64 hr ht).2 hsl⟩, rfl⟩

end Chess
