/-
  Lemmas/OrdinaryLegal.lean — the rules' legality filter for an ordinary non-king move, in bitboard terms.
-/
import ChessVerif.Lemmas.UnpinnedSpec
namespace Chess

/-- legality of an ordinary non-king pseudo-legal move when not in check = the own king is not attacked on the bitboards after the move -/
theorem ordinary_legal_iff (p : Position) (hwf : Spec.wf (absPos p) = true) (hnic : Spec.inCheck p.board p.side = false)
    (m : Spec.SMove) (hm : m ∈ Spec.pseudoMoves (absPos p))
    (hnc : Spec.isCastle p.board m = false) (hnep : Spec.isEpCapture (absPos p) m = false)
    (hnk : kindOf (p.board.getD m.src 0) ≠ KING) :
    ∃ k k', KingAt p.board p.side k ∧ 1 ≤ k' ∧ k' ≤ 6 ∧ m.src ≠ k ∧ ((BBs.of p).color p.side).testBit m.src = true ∧
      attackedBB p k p.side = false ∧
      (m ∈ Spec.legalMoves (absPos p) ↔ attackedBB (afterPos p m.src m.dst (mkPiece p.side k')) k p.side = false) := by
  have ok := stepOK_of_pseudo _ hwf m hm
  obtain ⟨hbo, hs, hk, _, _⟩ := wf_board_hyps _ hwf
  have hside : p.side ≤ 1 := hs
  have hbo' : BoardOK p.board := hbo
  obtain ⟨k, hkk, hnear⟩ := hk p.side hside
  have hking : KingAt p.board p.side k := hkk
  have hnear' : kingNear p.board k (1 - p.side) = false := hnear
  obtain ⟨kq, hkq, _⟩ := hk (1 - p.side) (by omega)
  have hkingE : KingAt p.board (1 - p.side) kq := hkq
  have hsrc : m.src < 64 := ok.src
  have hdst : m.dst < 64 := ok.dst
  have hown : p.board.getD m.src 0 = mkPiece p.side (kindOf (p.board.getD m.src 0)) := ok.own.2
  have hown0 : p.board.getD m.src 0 ≠ 0 := ok.own.1
  have hkpos := kindOf_pos _ hown0
  have hk6 := kindOf_le (p.board.getD m.src 0)
  obtain ⟨p5, p1⟩ := promo_of_pseudo _ m hm
  -- not in check, in bitboard terms
  have hfk : Spec.findKing p.board p.side = k := findKing_eq p.board p.side k hking
  have hsafe : attackedBB p k p.side = false := by
    unfold Spec.inCheck at hnic
    rw [hfk] at hnic
    have h := attacked_eq p k p.side hside hking.lt hbo'
    rw [hnic] at h
    simp only [Bool.or_eq_false_iff] at h
    exact h.1
  -- the mover is an own piece, not the king
  have hcol : ((BBs.of p).color p.side).testBit m.src = true := by
    rw [color_testBit p p.side m.src hside hbo']
    simp only [Bool.and_eq_true, decide_eq_true_eq]
    refine ⟨hsrc, hown0, ?_⟩
    rw [hown]
    have hs01 : p.side = 0 ∨ p.side = 1 := by omega
    generalize kindOf (p.board.getD m.src 0) = K at *
    have hK : K = 1 ∨ K = 2 ∨ K = 3 ∨ K = 4 ∨ K = 5 ∨ K = 6 := by omega
    rcases hs01 with e | e <;> rw [e] <;> rcases hK with rfl | rfl | rfl | rfl | rfl | rfl <;> decide
  have hsk : m.src ≠ k := by
    intro e
    have h1 := hking.here
    rw [← e, hown] at h1
    have := (mkPiece_inj p.side _ p.side KING hside hside ⟨hkpos, hk6⟩ (by decide) h1).2
    exact hnk this
  have hdk : m.dst ≠ k := by
    intro e
    have h1 := hking.here
    rw [← e] at h1
    have h0 : p.board.getD m.dst 0 ≠ 0 := by rw [h1]; exact mkPiece_ne_zero _ _ (by decide)
    have ht : p.board.getD m.dst 0 = mkPiece (1 - p.side) (kindOf (p.board.getD m.dst 0)) := ok.target h0
    rw [h1] at ht
    have hkk' : kindOf (mkPiece p.side KING) = KING := kindOf_mkPiece _ _ hside (by decide)
    rw [hkk'] at ht
    have := (mkPiece_inj p.side KING (1 - p.side) KING hside (by omega) (by decide) (by decide) ht).1
    omega
  -- the arriving piece
  generalize hk'def : (if m.promo ≠ 0 then m.promo else kindOf (p.board.getD m.src 0)) = k'
  have hk' : 1 ≤ k' ∧ k' ≤ 6 := by
    rw [← hk'def]; split
    · omega
    · exact ⟨hkpos, hk6⟩
  have hk'K : k' ≠ KING := by
    rw [← hk'def]; split
    · have : KING = 6 := rfl
      omega
    · exact hnk
  have hboard : (Spec.apply (absPos p) m).board = afterBoard p.board m.src m.dst (mkPiece p.side k') := by
    rw [apply_board_ordinary (absPos p) m hnc hnep, ← hk'def]
    by_cases hp0 : m.promo = 0
    · rw [if_neg (by simp [hp0]), if_neg (by simp [hp0])]
      have : gd (absPos p).board m.src = mkPiece p.side (kindOf (p.board.getD m.src 0)) := hown
      rw [this]; rfl
    · rw [if_pos hp0, if_pos hp0, mkPc_eq' _ _ hp0]; rfl
  have hpcK : mkPiece p.side k' ≠ mkPiece p.side KING := by
    intro h
    exact hk'K (mkPiece_inj p.side k' p.side KING hside hside hk' (by decide) h).2
  have hpcE : mkPiece p.side k' ≠ mkPiece (1 - p.side) KING := by
    intro h
    have := (mkPiece_inj p.side k' (1 - p.side) KING hside (by omega) hk' (by decide) h).1
    omega
  -- after the move
  have hkingAfter := kingAt_after p.board m.src m.dst (mkPiece p.side k') p.side k hbo'.len hsrc hdst hking (fun e => hsk e.symm) (fun e => hdk e.symm) hpcK
  have hnearAfter := kingNear_after p.board m.src m.dst (mkPiece p.side k') (1 - p.side) k hbo'.len hsrc hdst hpcE hnear'
  have hpc12 : mkPiece p.side k' ≤ 12 := by unfold mkPiece; rw [if_neg (by omega)]; omega
  have okAfter : BoardOK (afterPos p m.src m.dst (mkPiece p.side k')).board := afterOK p.board _ _ _ hbo' hsrc hdst hpc12
  refine ⟨k, k', hking, hk'.1, hk'.2, hsk, hcol, hsafe, ?_⟩
  unfold Spec.legalMoves
  rw [List.mem_filter]
  have h := attacked_eq (afterPos p m.src m.dst (mkPiece p.side k')) k p.side hside hking.lt okAfter
  have hb2 : (afterPos p m.src m.dst (mkPiece p.side k')).board = afterBoard p.board m.src m.dst (mkPiece p.side k') := rfl
  rw [hb2, hnearAfter, Bool.or_false] at h
  have hin : Spec.inCheck (Spec.apply (absPos p) m).board p.side = attackedBB (afterPos p m.src m.dst (mkPiece p.side k')) k p.side := by
    unfold Spec.inCheck
    rw [hboard, findKing_eq _ _ k hkingAfter]
    exact h.symm
  constructor
  · rintro ⟨_, h2⟩
    simp only [Bool.not_eq_true'] at h2
    have h2' : Spec.inCheck (Spec.apply (absPos p) m).board p.side = false := h2
    rw [hin] at h2'; exact h2'
  · intro h2
    refine ⟨hm, ?_⟩
    simp only [Bool.not_eq_true']
    show Spec.inCheck (Spec.apply (absPos p) m).board p.side = false
    rw [hin]; exact h2

/-- the same without assuming that the side to move is not in check -/
theorem ordinary_legal_iff' (p : Position) (hwf : Spec.wf (absPos p) = true)
    (m : Spec.SMove) (hm : m ∈ Spec.pseudoMoves (absPos p))
    (hnc : Spec.isCastle p.board m = false) (hnep : Spec.isEpCapture (absPos p) m = false)
    (hnk : kindOf (p.board.getD m.src 0) ≠ KING) :
    ∃ k k', KingAt p.board p.side k ∧ 1 ≤ k' ∧ k' ≤ 6 ∧ m.src ≠ k ∧ ((BBs.of p).color p.side).testBit m.src = true ∧
      (m ∈ Spec.legalMoves (absPos p) ↔ attackedBB (afterPos p m.src m.dst (mkPiece p.side k')) k p.side = false) := by
  have ok := stepOK_of_pseudo _ hwf m hm
  obtain ⟨hbo, hs, hk, _, _⟩ := wf_board_hyps _ hwf
  have hside : p.side ≤ 1 := hs
  have hbo' : BoardOK p.board := hbo
  obtain ⟨k, hkk, hnear⟩ := hk p.side hside
  have hking : KingAt p.board p.side k := hkk
  have hnear' : kingNear p.board k (1 - p.side) = false := hnear
  obtain ⟨kq, hkq, _⟩ := hk (1 - p.side) (by omega)
  have hkingE : KingAt p.board (1 - p.side) kq := hkq
  have hsrc : m.src < 64 := ok.src
  have hdst : m.dst < 64 := ok.dst
  have hown : p.board.getD m.src 0 = mkPiece p.side (kindOf (p.board.getD m.src 0)) := ok.own.2
  have hown0 : p.board.getD m.src 0 ≠ 0 := ok.own.1
  have hkpos := kindOf_pos _ hown0
  have hk6 := kindOf_le (p.board.getD m.src 0)
  obtain ⟨p5, p1⟩ := promo_of_pseudo _ m hm
  -- the mover is an own piece, not the king
  have hcol : ((BBs.of p).color p.side).testBit m.src = true := by
    rw [color_testBit p p.side m.src hside hbo']
    simp only [Bool.and_eq_true, decide_eq_true_eq]
    refine ⟨hsrc, hown0, ?_⟩
    rw [hown]
    have hs01 : p.side = 0 ∨ p.side = 1 := by omega
    generalize kindOf (p.board.getD m.src 0) = K at *
    have hK : K = 1 ∨ K = 2 ∨ K = 3 ∨ K = 4 ∨ K = 5 ∨ K = 6 := by omega
    rcases hs01 with e | e <;> rw [e] <;> rcases hK with rfl | rfl | rfl | rfl | rfl | rfl <;> decide
  have hsk : m.src ≠ k := by
    intro e
    have h1 := hking.here
    rw [← e, hown] at h1
    have := (mkPiece_inj p.side _ p.side KING hside hside ⟨hkpos, hk6⟩ (by decide) h1).2
    exact hnk this
  have hdk : m.dst ≠ k := by
    intro e
    have h1 := hking.here
    rw [← e] at h1
    have h0 : p.board.getD m.dst 0 ≠ 0 := by rw [h1]; exact mkPiece_ne_zero _ _ (by decide)
    have ht : p.board.getD m.dst 0 = mkPiece (1 - p.side) (kindOf (p.board.getD m.dst 0)) := ok.target h0
    rw [h1] at ht
    have hkk' : kindOf (mkPiece p.side KING) = KING := kindOf_mkPiece _ _ hside (by decide)
    rw [hkk'] at ht
    have := (mkPiece_inj p.side KING (1 - p.side) KING hside (by omega) (by decide) (by decide) ht).1
    omega
  -- the arriving piece
  generalize hk'def : (if m.promo ≠ 0 then m.promo else kindOf (p.board.getD m.src 0)) = k'
  have hk' : 1 ≤ k' ∧ k' ≤ 6 := by
    rw [← hk'def]; split
    · omega
    · exact ⟨hkpos, hk6⟩
  have hk'K : k' ≠ KING := by
    rw [← hk'def]; split
    · have : KING = 6 := rfl
      omega
    · exact hnk
  have hboard : (Spec.apply (absPos p) m).board = afterBoard p.board m.src m.dst (mkPiece p.side k') := by
    rw [apply_board_ordinary (absPos p) m hnc hnep, ← hk'def]
    by_cases hp0 : m.promo = 0
    · rw [if_neg (by simp [hp0]), if_neg (by simp [hp0])]
      have : gd (absPos p).board m.src = mkPiece p.side (kindOf (p.board.getD m.src 0)) := hown
      rw [this]; rfl
    · rw [if_pos hp0, if_pos hp0, mkPc_eq' _ _ hp0]; rfl
  have hpcK : mkPiece p.side k' ≠ mkPiece p.side KING := by
    intro h
    exact hk'K (mkPiece_inj p.side k' p.side KING hside hside hk' (by decide) h).2
  have hpcE : mkPiece p.side k' ≠ mkPiece (1 - p.side) KING := by
    intro h
    have := (mkPiece_inj p.side k' (1 - p.side) KING hside (by omega) hk' (by decide) h).1
    omega
  -- after the move
  have hkingAfter := kingAt_after p.board m.src m.dst (mkPiece p.side k') p.side k hbo'.len hsrc hdst hking (fun e => hsk e.symm) (fun e => hdk e.symm) hpcK
  have hnearAfter := kingNear_after p.board m.src m.dst (mkPiece p.side k') (1 - p.side) k hbo'.len hsrc hdst hpcE hnear'
  have hpc12 : mkPiece p.side k' ≤ 12 := by unfold mkPiece; rw [if_neg (by omega)]; omega
  have okAfter : BoardOK (afterPos p m.src m.dst (mkPiece p.side k')).board := afterOK p.board _ _ _ hbo' hsrc hdst hpc12
  refine ⟨k, k', hking, hk'.1, hk'.2, hsk, hcol, ?_⟩
  unfold Spec.legalMoves
  rw [List.mem_filter]
  have h := attacked_eq (afterPos p m.src m.dst (mkPiece p.side k')) k p.side hside hking.lt okAfter
  have hb2 : (afterPos p m.src m.dst (mkPiece p.side k')).board = afterBoard p.board m.src m.dst (mkPiece p.side k') := rfl
  rw [hb2, hnearAfter, Bool.or_false] at h
  have hin : Spec.inCheck (Spec.apply (absPos p) m).board p.side = attackedBB (afterPos p m.src m.dst (mkPiece p.side k')) k p.side := by
    unfold Spec.inCheck
    rw [hboard, findKing_eq _ _ k hkingAfter]
    exact h.symm
  constructor
  · rintro ⟨_, h2⟩
    simp only [Bool.not_eq_true'] at h2
    have h2' : Spec.inCheck (Spec.apply (absPos p) m).board p.side = false := h2
    rw [hin] at h2'; exact h2'
  · intro h2
    refine ⟨hm, ?_⟩
    simp only [Bool.not_eq_true']
    show Spec.inCheck (Spec.apply (absPos p) m).board p.side = false
    rw [hin]; exact h2

end Chess
