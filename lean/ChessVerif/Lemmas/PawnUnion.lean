/-
  Lemmas/PawnUnion.lean — pawn attack sets distribute over unions of pawns, and a 64-bit board is the union of its bits
  (lifts the per-square table of C11 to arbitrary sets of pawns).
-/
import ChessVerif.Lemmas.Bits
import ChessVerif.Spec.Attacks
namespace Chess

theorem shl_or (a b n : Nat) : shl (a ||| b) n = shl a n ||| shl b n := by
  unfold shl
  apply Nat.eq_of_testBit_eq
  intro i
  have e : two64 = 2 ^ 64 := by decide
  rw [e, Nat.testBit_mod_two_pow, Nat.testBit_or, Nat.testBit_mod_two_pow, Nat.testBit_mod_two_pow,
    Nat.testBit_shiftLeft, Nat.testBit_shiftLeft, Nat.testBit_shiftLeft, Nat.testBit_or]
  cases decide (i < 64) <;> cases decide (i ≥ n) <;> simp

theorem shr_or (a b n : Nat) : (a ||| b) >>> n = a >>> n ||| b >>> n := by
  apply Nat.eq_of_testBit_eq
  intro i
  simp [Nat.testBit_shiftRight, Nat.testBit_or]

theorem and_or_right (a b m : Nat) : (a ||| b) &&& m = (a &&& m) ||| (b &&& m) := Nat.and_or_distrib_right ..

theorem shift_or (d : Dir) (a b : BB) : shift d (a ||| b) = shift d a ||| shift d b := by
  cases d <;> simp only [shift, shl_or, shr_or, and_or_right]

theorem shift_zero (d : Dir) : shift d 0 = 0 := by cases d <;> decide

theorem pawnAttacks_or (c : Nat) (a b : BB) : pawnAttacks c (a ||| b) = pawnAttacks c a ||| pawnAttacks c b := by
  unfold pawnAttacks
  split <;> simp only [shift_or] <;> ac_rfl

theorem pawnAttacks_zero (c : Nat) : pawnAttacks c 0 = 0 := by
  unfold pawnAttacks; split <;> simp [shift_zero]

/-- OR of g s over the squares s of `l` that are set in bb -/
def orOver (bb : BB) (g : Nat → BB) (l : List Nat) (acc : BB) : BB :=
  l.foldl (fun acc s => if bb.testBit s then acc ||| g s else acc) acc

theorem orOver_hom (bb : BB) (c : Nat) (l : List Nat) (acc : BB) :
    pawnAttacks c (orOver bb sqBB l acc) = orOver bb (fun s => pawnAttacks c (sqBB s)) l (pawnAttacks c acc) := by
  induction l generalizing acc with
  | nil => rfl
  | cons x xs ih =>
    unfold orOver at *
    simp only [List.foldl_cons]
    split
    · rw [ih, pawnAttacks_or]
    · rw [ih]

theorem orOver_testBit (bb : BB) (l : List Nat) (acc : BB) (j : Nat) :
    (orOver bb sqBB l acc).testBit j = (acc.testBit j || (decide (j ∈ l) && bb.testBit j)) := by
  induction l generalizing acc with
  | nil => simp [orOver]
  | cons x xs ih =>
    unfold orOver at *
    simp only [List.foldl_cons]
    rw [ih]
    by_cases hx : bb.testBit x = true
    · rw [if_pos hx, Nat.testBit_or, sqBB_testBit]
      by_cases hj : x = j
      · subst hj; simp [hx]
      · have : ¬ j = x := fun h => hj h.symm
        simp [hj, this]
    · rw [if_neg hx]
      by_cases hj : x = j
      · subst hj
        have : bb.testBit x = false := by simpa using hx
        simp [this]
      · have : ¬ j = x := fun h => hj h.symm
        simp [this]

/-- a 64-bit board is the union of its set squares -/
theorem bb_as_union (bb : BB) (h : bb < two64) : orOver bb sqBB (List.range 64) 0 = bb := by
  apply Nat.eq_of_testBit_eq
  intro j
  rw [orOver_testBit]
  simp only [Nat.zero_testBit, Bool.false_or, List.mem_range]
  by_cases hj : j < 64
  · simp [hj]
  · have : bb.testBit j = false := by
      apply Nat.testBit_lt_two_pow
      have e : two64 = 2 ^ 64 := by decide
      rw [e] at h
      exact Nat.lt_of_lt_of_le h (Nat.pow_le_pow_right (by decide) (by omega))
    simp [hj, this]

theorem orOver_congr (bb : BB) (g g' : Nat → BB) (l : List Nat) (acc : BB) (h : ∀ s, s ∈ l → g s = g' s) :
    orOver bb g l acc = orOver bb g' l acc := by
  induction l generalizing acc with
  | nil => rfl
  | cons x xs ih =>
    unfold orOver at *
    simp only [List.foldl_cons]
    rw [h x (by simp)]
    exact ih _ (fun s hs => h s (by simp [hs]))

end Chess
