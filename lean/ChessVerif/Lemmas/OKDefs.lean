/-
  Lemmas/OKDefs.lean — the DEFINITIONS the driver evaluates at every state line (the standing hypotheses of the C02/C03/C04/C07
  theorems as Bool functions, with the Decidable instances they need).  No theorem about generated data is imported here, so the
  driver still builds when a proof over Gen/*.lean breaks; the soundness theorems are in Lemmas/OKDec.lean.
-/
import ChessVerif.Lemmas.Ranges
import ChessVerif.Lemmas.Refine
import ChessVerif.Spec.Near
import ChessVerif.Model.Movegen
namespace Chess

set_option synthInstance.maxSize 2048 in
set_option synthInstance.maxHeartbeats 200000 in
instance (p : Position) (m : Nat) : Decidable (MoveOK p m) :=
  decidable_of_iff
    (p.board.length = 64 ∧ p.side ≤ 1 ∧
     (moveCastling m ≠ 0 →
        p.board.getD (mkSquare (if p.side = 0 then 0 else 7) 4) 0 ≠ 0 ∧
        (moveCastling m = KING_CASTLING → p.board.getD (mkSquare (if p.side = 0 then 0 else 7) 6) 0 = 0 ∧
           p.board.getD (mkSquare (if p.side = 0 then 0 else 7) 5) 0 = 0 ∧ p.board.getD (mkSquare (if p.side = 0 then 0 else 7) 7) 0 ≠ 0) ∧
        (moveCastling m ≠ KING_CASTLING → p.board.getD (mkSquare (if p.side = 0 then 0 else 7) 2) 0 = 0 ∧
           p.board.getD (mkSquare (if p.side = 0 then 0 else 7) 3) 0 = 0 ∧ p.board.getD (mkSquare (if p.side = 0 then 0 else 7) 0) 0 ≠ 0)) ∧
     (moveCastling m = 0 →
        moveFrom m < 64 ∧ moveTo m < 64 ∧ moveFrom m ≠ moveTo m ∧ p.at (moveFrom m) ≠ 0 ∧
        (movePromo m ≠ 0 → movePromo m ≤ 6) ∧
        ((kindOf (p.at (moveFrom m)) = PAWN ∧ moveTo m = p.ep) →
           p.at (moveTo m) = 0 ∧
           ((if p.side = 0 then moveTo m - 8 else moveTo m + 8) < 64 ∧ (if p.side = 0 then moveTo m - 8 else moveTo m + 8) ≠ moveFrom m ∧
            (if p.side = 0 then moveTo m - 8 else moveTo m + 8) ≠ moveTo m ∧ p.at (if p.side = 0 then moveTo m - 8 else moveTo m + 8) ≠ 0))))
    ⟨fun ⟨a, b, c, d⟩ => ⟨a, b, c, d⟩, fun h => ⟨h.len, h.side, h.castle, h.normal⟩⟩

instance (p : Position) (m : Nat) : Decidable (UndoOK p m) :=
  decidable_of_iff
    (MoveOK p m ∧
     (moveCastling m = 0 →
      (p.at (moveTo m) ≠ 0 → p.at (moveTo m) = mkPiece (1 - p.side) (kindOf (p.at (moveTo m)))) ∧
      (movePromo m ≠ 0 → p.at (moveFrom m) = mkPiece p.side PAWN ∧ moveTo m ≠ p.ep) ∧
      ((kindOf (p.at (moveFrom m)) = PAWN ∧ moveTo m = p.ep) →
          p.at (if p.side = 0 then moveTo m - 8 else moveTo m + 8) = mkPiece (1 - p.side) PAWN ∧ movePromo m = 0)))
    ⟨fun ⟨a, b⟩ => ⟨a, b⟩, fun h => ⟨h.toMoveOK, h.normal2⟩⟩

instance (p : Position) : Decidable (Ranges p) :=
  decidable_of_iff (p.castling < 16 ∧ p.ep < 65 ∧ p.halfmove < 65536 ∧ p.side ≤ 1)
    ⟨fun ⟨a, b, c, d⟩ => ⟨a, b, c, d⟩, fun h => ⟨h.castling, h.ep, h.halfmove, h.side⟩⟩

/-- board shape the bitboard view needs: 64 squares, codes 0..12 -/
def boardHypb (b : List Nat) : Bool := decide (b.length = 64) && b.all (fun x => decide (x ≤ 12))

/-- no piece kind occurs 16 or more times (the packed count vector has a nibble per kind) -/
def countsHypb (b : List Nat) : Bool :=
  [1, 2, 3, 4, 5, 7, 8, 9, 10, 11].all (fun k => decide (countOf b k < 16))

/-- exactly one king of colour c (on the square the engine's king lookup returns), no enemy king beside it -/
def kingHypb (b : List Nat) (c : Nat) : Bool :=
  decide (kingSq b c < 64) && decide (b.getD (kingSq b c) 0 = mkPiece c KING) &&
  (List.range 64).all (fun s => decide (b.getD s 0 = mkPiece c KING → s = kingSq b c)) &&
  !kingNear b (kingSq b c) (1 - c)

/-- evaluated by the driver at every state line: ranges and ply parity hold, EVERY generated move satisfies UndoOK, the
    board has the shape the bitboard lemmas assume and each side has exactly one king with no enemy king beside it -/
def hypothesesHold (p : Position) : Bool :=
  decide (Ranges p) && decide (PlyOK p) && (genMoves p).all (fun m => decide (UndoOK p m)) &&
  boardHypb p.board && kingHypb p.board 0 && kingHypb p.board 1 && countsHypb p.board

set_option synthInstance.maxSize 4096 in
set_option synthInstance.maxHeartbeats 400000 in
instance (s : Spec.SPos) (m : Spec.SMove) : Decidable (StepOK s m) :=
  decidable_of_iff
    ((s.board.length = 64 ∧ s.side ≤ 1 ∧ s.castling < 16 ∧ RightsInv s.board s.castling ∧ m.src < 64 ∧ m.dst < 64 ∧ m.src ≠ m.dst) ∧
     (gd s.board m.src ≠ 0 ∧ gd s.board m.src = mkPiece s.side (kindOf (gd s.board m.src))) ∧
     (gd s.board m.dst ≠ 0 → gd s.board m.dst = mkPiece (1 - s.side) (kindOf (gd s.board m.dst))) ∧
     (m.promo < 7 ∧ (m.promo ≠ 0 → kindOf (gd s.board m.src) = PAWN ∧ m.dst ≠ s.ep)) ∧
     (kindOf (gd s.board m.src) = PAWN →
       (s.side = 0 → (m.dst = m.src + 8 ∨ (m.dst = m.src + 16 ∧ m.src / 8 = 1) ∨ ((m.dst = m.src + 7 ∨ m.dst = m.src + 9) ∧ m.dst / 8 = m.src / 8 + 1))) ∧
       (s.side = 1 → (m.dst + 8 = m.src ∨ (m.dst + 16 = m.src ∧ m.src / 8 = 6) ∨ ((m.dst + 7 = m.src ∨ m.dst + 9 = m.src) ∧ m.dst / 8 + 1 = m.src / 8)))) ∧
     ((kindOf (gd s.board m.src) = PAWN ∧ m.dst = s.ep) →
       s.ep ≠ 64 ∧ m.src % 8 ≠ m.dst % 8 ∧ gd s.board m.dst = 0 ∧ m.promo = 0 ∧ 16 ≤ m.dst ∧ m.dst < 48 ∧
       gd s.board (if s.side = 0 then m.dst - 8 else m.dst + 8) = mkPiece (1 - s.side) PAWN ∧
       (if s.side = 0 then m.dst - 8 else m.dst + 8) ≠ m.src) ∧
     ((kindOf (gd s.board m.src) = KING ∧ (m.dst = m.src + 2 ∨ m.dst + 2 = m.src)) →
       m.src = (if s.side = 0 then 4 else 60) ∧ m.promo = 0 ∧
       (m.dst = m.src + 2 → gd s.board (m.src + 1) = 0 ∧ gd s.board (m.src + 2) = 0 ∧ gd s.board (m.src + 3) = mkPiece s.side ROOK) ∧
       (m.dst + 2 = m.src → gd s.board (m.src - 1) = 0 ∧ gd s.board (m.src - 2) = 0 ∧ gd s.board (m.src - 4) = mkPiece s.side ROOK)))
    ⟨fun ⟨⟨a1, a2, a3, a4, a5, a6, a7⟩, b, c, d, e, f, g⟩ => ⟨a1, a2, a3, a4, a5, a6, a7, b, c, d, e, f, g⟩,
     fun h => ⟨⟨h.len, h.side, h.cast, h.rights, h.src, h.dst, h.ne⟩, h.own, h.target, h.promo, h.pawn, h.ep, h.castle⟩⟩

/-- the three side conditions of C15_gives_check_ordinary, per legal move: promotions are to N/B/R/Q, the enemy king is not the
    target, and the kings are not adjacent afterwards (each would follow from deeper facts about legal play; they are evaluated) -/
def givesCheckHypB (s : Spec.SPos) (m : Spec.SMove) : Bool :=
  decide (m.promo ≤ 5) && decide (m.promo ≠ 1) && decide (m.dst ≠ Spec.findKing s.board (1 - s.side)) &&
  !kingNear (Spec.apply s m).board (Spec.findKing s.board (1 - s.side)) s.side

/-- evaluated by the driver at every state line of the RULES side: every legal move has the shape C02's theorem assumes and meets the side conditions of C15_gives_check_ordinary -/
def specHypothesesHold (s : Spec.SPos) : Bool :=
  decide (65534 < s.halfmove) || (Spec.legalMoves s).all (fun m => decide (StepOK s m) && givesCheckHypB s m)

end Chess
