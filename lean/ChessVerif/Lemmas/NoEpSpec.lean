/-
  Lemmas/NoEpSpec.lean — the rules without the en-passant square: clearing it removes exactly the en-passant captures from the
  pseudo-legal and from the legal moves, and keeps the position well-formed.
-/
import ChessVerif.Lemmas.NoEpGen
namespace Chess

def clearEp (s : Spec.SPos) : Spec.SPos := { s with ep := 64 }

theorem absPos_noEp (p : Position) : absPos (noEp p) = clearEp (absPos p) := rfl

theorem wf_clearEp (s : Spec.SPos) (h : Spec.wf s = true) : Spec.wf (clearEp s) = true := by
  unfold Spec.wf at h ⊢
  simp only [Bool.and_eq_true] at h ⊢
  obtain ⟨⟨⟨⟨⟨⟨⟨⟨⟨a1, a2⟩, a3⟩, a4⟩, a5⟩, a6⟩, a7⟩, a8⟩, a9⟩, _⟩ := h
  refine ⟨⟨⟨⟨⟨⟨⟨⟨⟨a1, a2⟩, a3⟩, a4⟩, a5⟩, a6⟩, a7⟩, a8⟩, a9⟩, ?_⟩
  unfold Spec.epConsistent clearEp
  simp

theorem pawnMoves_clearEp (s : Spec.SPos) (sq : Nat) (m : Spec.SMove) :
    (m ∈ Spec.pawnMoves (clearEp s) sq → m ∈ Spec.pawnMoves s sq) ∧
    (m ∈ Spec.pawnMoves s sq → m ∈ Spec.pawnMoves (clearEp s) sq ∨
      (s.ep ≠ 64 ∧ m.dst = s.ep ∧ m.src = sq ∧ Spec.fileI sq ≠ Spec.fileI m.dst)) := by
  have hb : (clearEp s).board = s.board := rfl
  have hsd : (clearEp s).side = s.side := rfl
  have he : (clearEp s).ep = 64 := rfl
  unfold Spec.pawnMoves
  simp only []
  rw [hb, hsd, he]
  simp only [List.mem_append, List.mem_flatMap]
  constructor
  · rintro ((h | h) | ⟨cf, hcf, h⟩)
    · exact Or.inl (Or.inl h)
    · exact Or.inl (Or.inr h)
    · right
      refine ⟨cf, hcf, ?_⟩
      by_cases hon : Spec.onBoard cf (Spec.rankI sq + if s.side = 0 then 1 else -1) = true
      · rw [if_pos hon] at h ⊢
        by_cases hen : Spec.isEnemy (Spec.pcAt s.board (Spec.sqOf cf (Spec.rankI sq + if s.side = 0 then 1 else -1))) s.side = true
        · rw [if_pos hen] at h ⊢; exact h
        · rw [if_neg hen] at h
          simp at h
      · rw [if_neg hon] at h; cases h
  · rintro ((h | h) | ⟨cf, hcf, h⟩)
    · exact Or.inl (Or.inl (Or.inl h))
    · exact Or.inl (Or.inl (Or.inr h))
    · by_cases hon : Spec.onBoard cf (Spec.rankI sq + if s.side = 0 then 1 else -1) = true
      · rw [if_pos hon] at h
        by_cases hen : Spec.isEnemy (Spec.pcAt s.board (Spec.sqOf cf (Spec.rankI sq + if s.side = 0 then 1 else -1))) s.side = true
        · rw [if_pos hen] at h
          left; right
          refine ⟨cf, hcf, ?_⟩
          rw [if_pos hon]
          rw [if_pos hen]; exact h
        · rw [if_neg hen] at h
          by_cases hep : (s.ep ≠ 64 && decide (Spec.sqOf cf (Spec.rankI sq + if s.side = 0 then 1 else -1) = s.ep)) = true
          · rw [if_pos hep] at h
            have hm := List.mem_singleton.1 h
            simp only [Bool.and_eq_true, decide_eq_true_eq, bne_iff_ne, ne_eq] at hep
            right
            refine ⟨by simpa using hep.1, by rw [hm]; exact hep.2, by rw [hm], ?_⟩
            rw [hm]
            show Spec.fileI sq ≠ Spec.fileI (Spec.sqOf cf _)
            have hv := (rankI_sqOf cf _ hon).2.1
            rw [hv]
            simp only [List.mem_cons, List.not_mem_nil, or_false] at hcf
            rcases hcf with rfl | rfl <;> omega
          · rw [if_neg hep] at h; cases h
      · rw [if_neg hon] at h; cases h

end Chess

namespace Chess

theorem isEp_parts (s : Spec.SPos) (m : Spec.SMove) (h : Spec.isEpCapture s m = true) :
    Spec.kindOfPc (Spec.pcAt s.board m.src) = 1 ∧ m.dst = s.ep ∧ s.ep ≠ 64 ∧ Spec.fileI m.src ≠ Spec.fileI m.dst := by
  unfold Spec.isEpCapture at h
  simp only [Bool.and_eq_true, decide_eq_true_eq] at h
  exact ⟨h.1.1.1, h.1.1.2, h.1.2, h.2⟩

theorem isEp_clearEp (s : Spec.SPos) (m : Spec.SMove) : Spec.isEpCapture (clearEp s) m = false := by
  unfold Spec.isEpCapture clearEp; simp

theorem apply_board_clearEp (s : Spec.SPos) (m : Spec.SMove) (h : Spec.isEpCapture s m = false) :
    (Spec.apply (clearEp s) m).board = (Spec.apply s m).board := by
  have h' := isEp_clearEp s m
  unfold Spec.apply
  simp only []
  rw [h, h']
  rfl

theorem onBoard_file (sq : Nat) (r : Int) (hr : 0 ≤ r ∧ r < 8) : Spec.onBoard (Spec.fileI sq) r = true := by
  unfold Spec.onBoard Spec.fileI
  simp only [Bool.and_eq_true, decide_eq_true_eq]
  omega

/-- pseudo-legal moves without the en-passant square = the pseudo-legal moves that are not en-passant captures -/
theorem pseudo_clearEp (s : Spec.SPos) (hwf : Spec.wf s = true) (m : Spec.SMove) :
    (m ∈ Spec.pseudoMoves (clearEp s) → m ∈ Spec.pseudoMoves s ∧ Spec.isEpCapture s m = false) ∧
    (m ∈ Spec.pseudoMoves s → Spec.isEpCapture s m = false → m ∈ Spec.pseudoMoves (clearEp s)) := by
  constructor
  · intro h
    rcases pseudo_cases (clearEp s) m h with hc | ⟨sq, hsq, hown, hk⟩
    · have hc' : m ∈ Spec.castleMoves s := hc
      refine ⟨by unfold Spec.pseudoMoves; exact List.mem_append_right _ hc', ?_⟩
      apply Bool.eq_false_iff.2
      intro he
      obtain ⟨k1, _, _, _⟩ := isEp_parts s m he
      obtain ⟨hk6, hcc⟩ := mem_castleMoves s m hc'
      have hsrc : m.src = (if s.side = 0 then 0 else 56) + 4 := by rcases hcc with ⟨rfl, _⟩ | ⟨rfl, _⟩ <;> rfl
      rw [hsrc, hk6] at k1
      have : s.side = 0 ∨ s.side ≠ 0 := by omega
      obtain ⟨_, hs, _⟩ := wf_board_hyps _ hwf
      have hs01 : s.side = 0 ∨ s.side = 1 := by omega
      rcases hs01 with e | e <;> rw [e] at k1 <;> revert k1 <;> decide
    · have hown' : Spec.isOwn (Spec.pcAt s.board sq) s.side = true := hown
      rcases hk with ⟨k, hm⟩ | ⟨k, hm⟩ | ⟨k, hm⟩ | ⟨k, hm⟩ | ⟨k, hm⟩ | ⟨k, hm⟩
      · -- a pawn
        have hk' : Spec.kindOfPc (Spec.pcAt s.board sq) = 1 := k
        have hin := (pawnMoves_clearEp s sq m).1 hm
        refine ⟨mem_pseudo_of_piece s sq hsq hown' m 1 hk' hin, ?_⟩
        apply Bool.eq_false_iff.2
        intro he
        obtain ⟨_, hd, he64, hfile⟩ := isEp_parts s m he
        obtain ⟨_, hempty, _⟩ := ep_facts s hwf he64
        obtain ⟨hsrc, shape⟩ := mem_pawnMoves (clearEp s) sq m hm
        rw [hsrc] at hfile
        have hsd : (clearEp s).side = s.side := rfl
        have hbd : (clearEp s).board = s.board := rfl
        cases shape with
        | push1 hon hdst _ _ =>
          rw [hdst] at hfile
          exact hfile (rankI_sqOf _ _ hon).2.1.symm
        | push2 hr hdst _ _ =>
          rw [hdst] at hfile
          have hon : Spec.onBoard (Spec.fileI sq) (Spec.rankI sq + 2 * pawnDr (clearEp s).side) = true := by
            apply onBoard_file
            rw [hr]
            unfold pawnStart pawnDr
            split <;> omega
          exact hfile (rankI_sqOf _ _ hon).2.1.symm
        | capture cf _ _ _ hen _ =>
          rw [hbd, hsd, hd, hempty] at hen
          revert hen; unfold Spec.isEnemy; simp
        | ep cf _ _ _ _ h64 _ _ => exact h64 rfl
      · have : Spec.kindOfPc (Spec.pcAt s.board sq) = 2 := k
        refine ⟨mem_pseudo_of_piece s sq hsq hown' m 2 this hm, ?_⟩
        obtain ⟨d, _, _, hmv, _⟩ := mem_stepMoves (clearEp s) sq _ m hm
        unfold Spec.isEpCapture; rw [hmv]; simp only []; rw [this]; simp
      · have : Spec.kindOfPc (Spec.pcAt s.board sq) = 3 := k
        refine ⟨mem_pseudo_of_piece s sq hsq hown' m 3 this hm, ?_⟩
        obtain ⟨d, _, t, _, hmv⟩ := mem_slideMoves (clearEp s) sq _ m hm
        unfold Spec.isEpCapture; rw [hmv]; simp only []; rw [this]; simp
      · have : Spec.kindOfPc (Spec.pcAt s.board sq) = 4 := k
        refine ⟨mem_pseudo_of_piece s sq hsq hown' m 4 this hm, ?_⟩
        obtain ⟨d, _, t, _, hmv⟩ := mem_slideMoves (clearEp s) sq _ m hm
        unfold Spec.isEpCapture; rw [hmv]; simp only []; rw [this]; simp
      · have : Spec.kindOfPc (Spec.pcAt s.board sq) = 5 := k
        refine ⟨mem_pseudo_of_piece s sq hsq hown' m 5 this hm, ?_⟩
        obtain ⟨d, _, t, _, hmv⟩ := mem_slideMoves (clearEp s) sq _ m hm
        unfold Spec.isEpCapture; rw [hmv]; simp only []; rw [this]; simp
      · have : Spec.kindOfPc (Spec.pcAt s.board sq) = 6 := k
        refine ⟨mem_pseudo_of_piece s sq hsq hown' m 6 this hm, ?_⟩
        obtain ⟨d, _, _, hmv, _⟩ := mem_stepMoves (clearEp s) sq _ m hm
        unfold Spec.isEpCapture; rw [hmv]; simp only []; rw [this]; simp
  · intro h hne
    rcases pseudo_cases s m h with hc | ⟨sq, hsq, hown, hk⟩
    · have hc' : m ∈ Spec.castleMoves (clearEp s) := hc
      unfold Spec.pseudoMoves; exact List.mem_append_right _ hc'
    · have hown' : Spec.isOwn (Spec.pcAt (clearEp s).board sq) (clearEp s).side = true := hown
      rcases hk with ⟨k, hm⟩ | ⟨k, hm⟩ | ⟨k, hm⟩ | ⟨k, hm⟩ | ⟨k, hm⟩ | ⟨k, hm⟩
      · have hk' : Spec.kindOfPc (Spec.pcAt (clearEp s).board sq) = 1 := k
        rcases (pawnMoves_clearEp s sq m).2 hm with hin | ⟨e64, hd, hsrc, hfile⟩
        · exact mem_pseudo_of_piece (clearEp s) sq hsq hown' m 1 hk' hin
        · exfalso
          have : Spec.isEpCapture s m = true := by
            unfold Spec.isEpCapture
            simp only [Bool.and_eq_true, decide_eq_true_eq]
            rw [hsrc]
            exact ⟨⟨⟨k, hd⟩, e64⟩, hfile⟩
          rw [hne] at this; cases this
      · exact mem_pseudo_of_piece (clearEp s) sq hsq hown' m 2 k hm
      · exact mem_pseudo_of_piece (clearEp s) sq hsq hown' m 3 k hm
      · exact mem_pseudo_of_piece (clearEp s) sq hsq hown' m 4 k hm
      · exact mem_pseudo_of_piece (clearEp s) sq hsq hown' m 5 k hm
      · exact mem_pseudo_of_piece (clearEp s) sq hsq hown' m 6 k hm

/-- legal moves without the en-passant square = the legal moves that are not en-passant captures -/
theorem legal_clearEp (s : Spec.SPos) (hwf : Spec.wf s = true) (m : Spec.SMove) :
    m ∈ Spec.legalMoves (clearEp s) ↔ (m ∈ Spec.legalMoves s ∧ Spec.isEpCapture s m = false) := by
  unfold Spec.legalMoves
  simp only [List.mem_filter]
  have hsd : (clearEp s).side = s.side := rfl
  constructor
  · rintro ⟨hp, hsafe⟩
    obtain ⟨hp', hne⟩ := (pseudo_clearEp s hwf m).1 hp
    rw [apply_board_clearEp s m hne, hsd] at hsafe
    exact ⟨⟨hp', hsafe⟩, hne⟩
  · rintro ⟨⟨hp, hsafe⟩, hne⟩
    refine ⟨(pseudo_clearEp s hwf m).2 hp hne, ?_⟩
    rw [apply_board_clearEp s m hne, hsd]
    exact hsafe

end Chess
