/-
  Lemmas/GivesCheckEp.lean — `move_gives_check` for an en-passant capture: three squares change (the capturing pawn leaves f, arrives
  on t, the captured pawn disappears from cap).  The engine adds to the ordinary tests a second discovered-check test on the occupancy
  with the captured pawn removed as well; that occupancy is the real one after the move, and the first test is contained in the second
  (removing a blocker only lengthens rays).
-/
import ChessVerif.Lemmas.GivesCheck
namespace Chess

-- rays grow when blockers are removed ------------------------------------------------------------------------------------
theorem walk_anti (L : List Nat) (occ occ' : BB) (hsub : ∀ x, occ'.testBit x = true → occ.testBit x = true) (s : Nat)
    (h : (Spec.walk L occ).testBit s = true) : (Spec.walk L occ').testBit s = true := by
  induction L with
  | nil => simp [Spec.walk] at h
  | cons x xs ih =>
    unfold Spec.walk at h ⊢
    rw [Nat.testBit_or] at h ⊢
    simp only [Bool.or_eq_true] at h ⊢
    rcases h with h | h
    · exact Or.inl h
    · right
      by_cases ho : occ.testBit x = true
      · rw [if_pos ho] at h; simp at h
      · rw [if_neg ho] at h
        have ho' : ¬ occ'.testBit x = true := fun hh => ho (hsub x hh)
        rw [if_neg ho']
        exact ih h

theorem walkDirs_anti (dirs : List (Int × Int)) (k : Nat) (occ occ' : BB) (hsub : ∀ x, occ'.testBit x = true → occ.testBit x = true) (s : Nat)
    (h : (Spec.walkDirs dirs k occ).testBit s = true) : (Spec.walkDirs dirs k occ').testBit s = true := by
  unfold Spec.walkDirs at h ⊢
  rw [walkDirs_testBit] at h ⊢
  rcases h with h | ⟨d, hd, h⟩
  · simp at h
  · exact Or.inr ⟨d, hd, walk_anti _ occ occ' hsub s h⟩

theorem bishopAttack_anti (k : Nat) (hk : k < 64) (occ occ' : BB) (hsub : ∀ x, occ'.testBit x = true → occ.testBit x = true) (s : Nat)
    (h : (bishopAttack k occ).testBit s = true) : (bishopAttack k occ').testBit s = true := by
  have h1 := Props.C11_slider BISHOP k hk occ
  have h2 := Props.C11_slider BISHOP k hk occ'
  simp [sliderAttack, Spec.rayWalk] at h1 h2
  rw [h1] at h; rw [h2]
  exact walkDirs_anti _ k occ occ' hsub s h

theorem rookAttack_anti (k : Nat) (hk : k < 64) (occ occ' : BB) (hsub : ∀ x, occ'.testBit x = true → occ.testBit x = true) (s : Nat)
    (h : (rookAttack k occ).testBit s = true) : (rookAttack k occ').testBit s = true := by
  have h1 := Props.C11_slider ROOK k hk occ
  have h2 := Props.C11_slider ROOK k hk occ'
  simp [sliderAttack, Spec.rayWalk, ROOK, BISHOP] at h1 h2
  rw [h1] at h; rw [h2]
  exact walkDirs_anti _ k occ occ' hsub s h

theorem xor_sq_sub (occ : BB) (c : Nat) (hc : occ.testBit c = true) : ∀ x, (occ ^^^ sqBB c).testBit x = true → occ.testBit x = true := by
  intro x h
  rw [Nat.testBit_xor, sqBB_testBit] at h
  by_cases e : c = x
  · rw [← e]; exact hc
  · have : decide (c = x) = false := by simp [e]
    rw [this] at h; simpa using h

-- the board after an en-passant capture -----------------------------------------------------------------------------------
def afterBoardEp (b : List Nat) (f t cap pc' : Nat) : List Nat := (afterBoard b f t pc').set cap 0
def afterPosEp (p : Position) (f t cap pc' : Nat) : Position := { p with board := afterBoardEp p.board f t cap pc' }

theorem afterEp_at (b : List Nat) (f t cap pc' s : Nat) (hl : b.length = 64) (hf : f < 64) (ht : t < 64) (hcap : cap < 64) :
    (afterBoardEp b f t cap pc').getD s 0 = if cap = s then 0 else if t = s then pc' else if f = s then 0 else b.getD s 0 := by
  show gd ((afterBoard b f t pc').set cap 0) s = _
  rw [gd_set]
  have hl' : (afterBoard b f t pc').length = 64 := by unfold afterBoard; simp [hl]
  by_cases h : cap = s
  · rw [if_pos ⟨h, by omega⟩, if_pos h]
  · rw [if_neg (fun hh => h hh.1), if_neg h]
    exact after_at b f t pc' s hl hf ht

theorem afterEpOK (b : List Nat) (f t cap pc' : Nat) (ok : BoardOK b) (hf : f < 64) (ht : t < 64) (hcap : cap < 64) (hpc : pc' ≤ 12) :
    BoardOK (afterBoardEp b f t cap pc') := by
  refine ⟨by unfold afterBoardEp afterBoard; simp [ok.len], ?_⟩
  intro s
  rw [afterEp_at b f t cap pc' s ok.len hf ht hcap]
  split
  · omega
  · split
    · exact hpc
    · split
      · omega
      · exact ok.codes s

theorem ck_afterEp (p : Position) (f t cap pc' c K s : Nat) (ok : BoardOK p.board) (hf : f < 64) (ht : t < 64) (hcap : cap < 64)
    (hpc : pc' ≤ 12) (hc : c ≤ 1) (hK : 1 ≤ K ∧ K ≤ 6) :
    ((BBs.of (afterPosEp p f t cap pc')).ck c K).testBit s =
      (decide (s < 64) && (if cap = s then false else if t = s then decide (pc' = mkPiece c K) else if f = s then false
        else decide (p.board.getD s 0 = mkPiece c K))) := by
  have ok' : BoardOK (afterPosEp p f t cap pc').board := afterEpOK p.board f t cap pc' ok hf ht hcap hpc
  rw [ck_testBit _ c K s hc hK.2 ok']
  show (decide (s < 64) && decide ((afterBoardEp p.board f t cap pc').getD s 0 = mkPiece c K)) = _
  rw [afterEp_at p.board f t cap pc' s ok.len hf ht hcap]
  have h0 : ¬ (0 = mkPiece c K) := fun h => mkPiece_ne_zero c K (by omega) h.symm
  by_cases h3 : cap = s
  · simp [h3, h0]
  · by_cases h1 : t = s
    · simp [h1, h3]
    · by_cases h2 : f = s
      · simp [h1, h2, h3, h0]
      · simp [h1, h2, h3]

theorem all_afterEp (p : Position) (f t cap pc' : Nat) (ok : BoardOK p.board) (hf : f < 64) (ht : t < 64) (hcap : cap < 64)
    (hpc : pc' ≤ 12) (hpc0 : pc' ≠ 0) (hmover : p.board.getD f 0 ≠ 0) (hvictim : p.board.getD cap 0 ≠ 0)
    (hft : f ≠ t) (hcf : cap ≠ f) (hct : cap ≠ t) :
    (BBs.of (afterPosEp p f t cap pc')).all = (((BBs.of p).all ^^^ sqBB f) ||| sqBB t) ^^^ sqBB cap := by
  have ok' : BoardOK (afterPosEp p f t cap pc').board := afterEpOK p.board f t cap pc' ok hf ht hcap hpc
  apply Nat.eq_of_testBit_eq
  intro s
  rw [all_testBit _ s ok', Nat.testBit_xor, Nat.testBit_or, Nat.testBit_xor, sqBB_testBit, sqBB_testBit, sqBB_testBit, all_testBit p s ok]
  show (decide (s < 64) && decide ((afterBoardEp p.board f t cap pc').getD s 0 ≠ 0)) = _
  rw [afterEp_at p.board f t cap pc' s ok.len hf ht hcap]
  by_cases h3 : cap = s
  · subst h3
    have hv' : ¬ p.board[cap]?.getD 0 = 0 := by rw [← List.getD_eq_getElem?_getD]; exact hvictim
    have e1 : ¬ f = cap := fun e => hcf e.symm
    have e2 : ¬ t = cap := fun e => hct e.symm
    simp [hcap, hv', e1, e2]
  · by_cases h1 : t = s
    · subst h1; simp [ht, hpc0, h3]
    · by_cases h2 : f = s
      · subst h2
        have hm' : ¬ p.board[f]?.getD 0 = 0 := by rw [← List.getD_eq_getElem?_getD]; exact hmover
        simp [h1, hf, hm', h3]
      · simp [h1, h2, h3]

end Chess

namespace Chess

/-- the Boolean the engine computes for an en-passant capture -/
def givesCheckExprEp (p : Position) (f t cap kq : Nat) : Bool :=
  let b := BBs.of p
  let side := p.side
  let kBB := sqBB kq
  let bl := (b.all ^^^ sqBB f) ||| sqBB t
  let direct := (pawnAttacks side (sqBB t) &&& kBB) ≠ 0
  let bq := b.ck side BISHOP ||| b.ck side QUEEN
  let rq := b.ck side ROOK ||| b.ck side QUEEN
  let disc := (bishopAttack kq bl &&& bq) ≠ 0 || (rookAttack kq bl &&& rq) ≠ 0
  let bl2 := bl ^^^ sqBB cap
  let epc := (bishopAttack kq bl2 &&& bq) ≠ 0 || (rookAttack kq bl2 &&& rq) ≠ 0
  direct || disc || epc

theorem gives_check_ep_core (p : Position) (f t cap kq : Nat) (hc : p.side ≤ 1) (ok : BoardOK p.board) (hf : f < 64) (ht : t < 64) (hcap : cap < 64)
    (hne : f ≠ t) (hcf : cap ≠ f) (hct : cap ≠ t)
    (hmover : p.board.getD f 0 = mkPiece p.side PAWN) (htarget : p.board.getD t 0 = 0)
    (hvictim : p.board.getD cap 0 = mkPiece (1 - p.side) PAWN)
    (hking : KingAt p.board (1 - p.side) kq)
    (hsafe : attackedBB p kq (1 - p.side) = false) :
    givesCheckExprEp p f t cap kq = attackedBB (afterPosEp p f t cap (mkPiece p.side PAWN)) kq (1 - p.side) := by
  have hkq := hking.lt
  have hpc : mkPiece p.side PAWN ≤ 12 := by unfold mkPiece PAWN; rw [if_neg (by omega)]; omega
  have hpc0 : mkPiece p.side PAWN ≠ 0 := mkPiece_ne_zero _ _ (by decide)
  have hmover0 : p.board.getD f 0 ≠ 0 := by rw [hmover]; exact hpc0
  have hvictim0 : p.board.getD cap 0 ≠ 0 := by rw [hvictim]; exact mkPiece_ne_zero _ _ (by decide)
  have hall := all_afterEp p f t cap _ ok hf ht hcap hpc hpc0 hmover0 hvictim0 hne hcf hct
  have hopp : 1 - (1 - p.side) = p.side := by omega
  unfold attackedBB at hsafe
  simp only [hopp, Bool.or_eq_false_iff, decide_eq_false_iff_not, ne_eq, Decidable.not_not] at hsafe
  obtain ⟨⟨⟨sP, sN⟩, _⟩, _⟩ := hsafe
  -- own knights, bishops, rooks and queens are where they were
  have ckEq : ∀ K, 2 ≤ K → K ≤ 6 → (BBs.of (afterPosEp p f t cap (mkPiece p.side PAWN))).ck p.side K = (BBs.of p).ck p.side K := by
    intro K h2 h6
    apply Nat.eq_of_testBit_eq
    intro s
    rw [ck_afterEp p f t cap _ p.side K s ok hf ht hcap hpc hc ⟨by omega, h6⟩, ck_testBit p p.side K s hc h6 ok]
    have npawn : ¬ mkPiece p.side PAWN = mkPiece p.side K := by
      intro h
      have := (mkPiece_inj p.side PAWN p.side K hc hc (by decide) ⟨by omega, h6⟩ h).2
      have e : PAWN = 1 := rfl
      omega
    by_cases h3 : cap = s
    · subst h3
      have : ¬ p.board.getD cap 0 = mkPiece p.side K := by
        rw [hvictim]; intro h
        have := (mkPiece_inj (1 - p.side) PAWN p.side K (by omega) hc (by decide) ⟨by omega, h6⟩ h).1
        omega
      have this' : ¬ p.board[cap]?.getD 0 = mkPiece p.side K := by rw [← List.getD_eq_getElem?_getD]; exact this
      simp [this']
    · by_cases h1 : t = s
      · subst h1
        have : ¬ p.board.getD t 0 = mkPiece p.side K := by
          rw [htarget]; exact fun h => mkPiece_ne_zero p.side K (by omega) h.symm
        have this' : ¬ p.board[t]?.getD 0 = mkPiece p.side K := by rw [← List.getD_eq_getElem?_getD]; exact this
        simp [h3, npawn, this']
      · by_cases h2' : f = s
        · subst h2'
          have : ¬ p.board.getD f 0 = mkPiece p.side K := by rw [hmover]; exact npawn
          have this' : ¬ p.board[f]?.getD 0 = mkPiece p.side K := by rw [← List.getD_eq_getElem?_getD]; exact this
          simp [h1, h3, this']
        · simp [h1, h2', h3]
  -- own pawns: the capturing pawn on its new square, the others where they were
  have pawnIff : (pawnAttacks (1 - p.side) (sqBB kq) &&& (BBs.of (afterPosEp p f t cap (mkPiece p.side PAWN))).ck p.side PAWN ≠ 0) ↔
      (pawnAttacks (1 - p.side) (sqBB kq)).testBit t = true := by
    rw [meets_iff]
    constructor
    · rintro ⟨s, hx, hck⟩
      rw [ck_afterEp p f t cap _ p.side PAWN s ok hf ht hcap hpc hc ⟨by decide, by decide⟩] at hck
      simp only [Bool.and_eq_true, decide_eq_true_eq] at hck
      obtain ⟨hs, hck⟩ := hck
      by_cases h3 : cap = s
      · rw [if_pos h3] at hck; cases hck
      · rw [if_neg h3] at hck
        by_cases h1 : t = s
        · rw [← h1] at hx; exact hx
        · rw [if_neg h1] at hck
          by_cases h2 : f = s
          · rw [if_pos h2] at hck; cases hck
          · rw [if_neg h2] at hck
            exfalso
            have hold : ((BBs.of p).ck p.side PAWN).testBit s = true := by
              rw [ck_testBit p p.side PAWN s hc (by decide) ok]
              simp only [Bool.and_eq_true, decide_eq_true_eq]
              exact ⟨hs, of_decide_eq_true hck⟩
            exact and_ne_zero_of_testBit _ _ s hx hold sP
    · intro hx
      refine ⟨t, hx, ?_⟩
      rw [ck_afterEp p f t cap _ p.side PAWN t ok hf ht hcap hpc hc ⟨by decide, by decide⟩]
      simp [ht, fun e : cap = t => hct e]
  have symP : (pawnAttacks p.side (sqBB t) &&& sqBB kq ≠ 0) ↔ (pawnAttacks (1 - p.side) (sqBB kq)).testBit t = true := by
    rw [testBit_and_sqBB]
    have hs := leaper_sym t kq ht hkq
    have : p.side = 0 ∨ p.side = 1 := by omega
    rcases this with e | e <;> rw [e]
    · rw [hs.2.2.1]
    · rw [hs.2.2.2]
  -- the first discovered-check test is contained in the second
  have hcapOcc : ((((BBs.of p).all ^^^ sqBB f) ||| sqBB t)).testBit cap = true := by
    rw [Nat.testBit_or, Nat.testBit_xor, sqBB_testBit, sqBB_testBit, all_testBit p cap ok]
    have e1 : decide (f = cap) = false := by simp; exact fun e => hcf e.symm
    have hv' : ¬ p.board[cap]?.getD 0 = 0 := by rw [← List.getD_eq_getElem?_getD]; exact hvictim0
    simp [hcap, hv', e1]
  have hsub := xor_sq_sub _ cap hcapOcc
  have monoB : ∀ Y, (bishopAttack kq (((BBs.of p).all ^^^ sqBB f) ||| sqBB t) &&& Y ≠ 0) →
      (bishopAttack kq ((((BBs.of p).all ^^^ sqBB f) ||| sqBB t) ^^^ sqBB cap) &&& Y ≠ 0) := by
    intro Y h
    rw [meets_iff] at h ⊢
    obtain ⟨s, h1, h2⟩ := h
    exact ⟨s, bishopAttack_anti kq hkq _ _ hsub s h1, h2⟩
  have monoR : ∀ Y, (rookAttack kq (((BBs.of p).all ^^^ sqBB f) ||| sqBB t) &&& Y ≠ 0) →
      (rookAttack kq ((((BBs.of p).all ^^^ sqBB f) ||| sqBB t) ^^^ sqBB cap) &&& Y ≠ 0) := by
    intro Y h
    rw [meets_iff] at h ⊢
    obtain ⟨s, h1, h2⟩ := h
    exact ⟨s, rookAttack_anti kq hkq _ _ hsub s h1, h2⟩
  have hN : ¬ (knightMask kq &&& (BBs.of p).ck p.side KNIGHT ≠ 0) := by simpa using sN
  apply Bool.eq_iff_iff.2
  unfold givesCheckExprEp attackedBB
  simp only [hopp, hall, Bool.or_eq_true, decide_eq_true_eq]
  rw [ckEq KNIGHT (by decide) (by decide), ckEq BISHOP (by decide) (by decide), ckEq ROOK (by decide) (by decide), ckEq QUEEN (by decide) (by decide),
    pawnIff, symP]
  have mB := monoB ((BBs.of p).ck p.side BISHOP ||| (BBs.of p).ck p.side QUEEN)
  have mR := monoR ((BBs.of p).ck p.side ROOK ||| (BBs.of p).ck p.side QUEEN)
  constructor
  · rintro ((h | h | h) | h | h)
    · exact Or.inl (Or.inl (Or.inl h))
    · exact Or.inl (Or.inr (mB h))
    · exact Or.inr (mR h)
    · exact Or.inl (Or.inr h)
    · exact Or.inr h
  · rintro (((h | h) | h) | h)
    · exact Or.inl (Or.inl h)
    · exact absurd h hN
    · exact Or.inr (Or.inl h)
    · exact Or.inr (Or.inr h)

end Chess
