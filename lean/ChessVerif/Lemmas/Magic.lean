/-
  Lemmas/Magic.lean — correctness of the "fill with all-ones, first writer wins" magic-table initialisation.

  `insertOK` / `fillOK` state the C++ `assert(TABLE[key] == moves)` (compiled out in release builds) as a Bool;
  `insertCheckK` / `checkFillK` are continuation-passing versions that a lazy evaluator (the kernel, in
  `decide +kernel`) can run without building deep thunk chains, proved equal to the direct versions.
  Main result: if the check passes, every slot addressed by a subset of the mask holds that subset's attack set.
-/
import ChessVerif.Model.Tables
import ChessVerif.Lemmas.Bits
namespace Chess

/-- complete trie of depth d -/
def Trie.WF : Trie → Nat → Prop
  | .leaf _, 0 => True
  | .node l r, d+1 => l.WF d ∧ r.WF d
  | _, _ => False

theorem Trie.full_WF (v : BB) (d : Nat) : (Trie.full v d).WF d := by
  induction d with
  | zero => simp [Trie.full, Trie.WF]
  | succ d ih => simp [Trie.full, Trie.WF, ih]

theorem Trie.force_eq {α : Type} (t : Trie) (k : Trie → α) : t.force k = k t := by
  cases t <;> rfl

theorem Trie.insertFirst_WF (t : Trie) (d key : Nat) (v : BB) (h : t.WF d) : (t.insertFirst d key v).WF d := by
  induction t generalizing d with
  | leaf cur =>
    cases d with
    | zero => simp only [Trie.insertFirst]; split <;> simp [Trie.WF]
    | succ d => simp [Trie.WF] at h
  | node l r ihl ihr =>
    cases d with
    | zero => simp [Trie.WF] at h
    | succ d =>
      simp only [Trie.WF] at h
      simp only [Trie.insertFirst]
      split
      · exact ⟨h.1, ihr d h.2⟩
      · exact ⟨ihl d h.1, h.2⟩

/-- keys agree on the `d` index bits the trie looks at -/
def lowEq (d k k' : Nat) : Prop := ∀ i, i < d → k.testBit i = k'.testBit i

theorem lowEq_succ {d k k' : Nat} : lowEq (d+1) k k' ↔ (k.testBit d = k'.testBit d ∧ lowEq d k k') := by
  constructor
  · intro h; exact ⟨h d (by omega), fun i hi => h i (by omega)⟩
  · intro h i hi
    by_cases e : i = d
    · subst e; exact h.1
    · exact h.2 i (by omega)

theorem Trie.get_congr (t : Trie) (d k k' : Nat) (hw : t.WF d) (h : lowEq d k k') : t.get d k = t.get d k' := by
  induction t generalizing d with
  | leaf v => simp [Trie.get]
  | node l r ihl ihr =>
    cases d with
    | zero => simp [Trie.WF] at hw
    | succ d =>
      simp only [Trie.WF] at hw
      have h' := lowEq_succ.1 h
      simp only [Trie.get, h'.1]
      split
      · exact ihr d hw.2 h'.2
      · exact ihl d hw.1 h'.2

/-- slot hit by the insertion: written iff it was empty -/
theorem Trie.get_insertFirst_same (t : Trie) (d k k' : Nat) (v : BB) (hw : t.WF d) (h : lowEq d k k') :
    (t.insertFirst d k v).get d k' = if t.get d k = allSquares then v else t.get d k := by
  induction t generalizing d with
  | leaf cur =>
    simp only [Trie.insertFirst, Trie.get]
    by_cases hc : cur = allSquares
    · simp [hc, Trie.get]
    · simp [hc, Trie.get]
  | node l r ihl ihr =>
    cases d with
    | zero => simp [Trie.WF] at hw
    | succ d =>
      simp only [Trie.WF] at hw
      have h' := lowEq_succ.1 h
      simp only [Trie.insertFirst, Trie.get]
      by_cases hb : k.testBit d = true
      · have hb' : k'.testBit d = true := by rw [← h'.1]; exact hb
        simp only [hb, hb', if_true, Trie.get]
        exact ihr d hw.2 h'.2
      · have hbf : k.testBit d = false := by simpa using hb
        have hbf' : k'.testBit d = false := by rw [← h'.1]; exact hbf
        simp only [hbf, hbf', Bool.false_eq_true, if_false, Trie.get]
        exact ihl d hw.1 h'.2

/-- other slots are untouched -/
theorem Trie.get_insertFirst_other (t : Trie) (d k k' : Nat) (v : BB) (hw : t.WF d) (h : ¬ lowEq d k k') :
    (t.insertFirst d k v).get d k' = t.get d k' := by
  induction t generalizing d with
  | leaf cur =>
    cases d with
    | zero => exact absurd (fun i hi => absurd hi (Nat.not_lt_zero i)) h
    | succ d => simp [Trie.WF] at hw
  | node l r ihl ihr =>
    cases d with
    | zero => simp [Trie.WF] at hw
    | succ d =>
      simp only [Trie.WF] at hw
      simp only [Trie.insertFirst]
      by_cases hb : k.testBit d = true
      · by_cases hb' : k'.testBit d = true
        · simp only [hb, hb', if_true, Trie.get]
          apply ihr d hw.2
          intro hl; exact h (lowEq_succ.2 ⟨by rw [hb, hb'], hl⟩)
        · simp [hb, hb', Trie.get]
      · by_cases hb' : k'.testBit d = true
        · simp [hb, hb', Trie.get]
        · have a : k.testBit d = false := by simpa using hb
          have b : k'.testBit d = false := by simpa using hb'
          simp only [a, b, Bool.false_eq_true, if_false, Trie.get]
          apply ihl d hw.1
          intro hl
          exact h (lowEq_succ.2 ⟨by rw [a, b], hl⟩)

/-- the C++ assert as a Bool: the slot is empty (and the value is not the empty marker) or already holds `v` -/
def Trie.insertOK : Trie → Nat → Nat → BB → Bool
  | .leaf cur, _, _, v => if cur == allSquares then v != allSquares else cur == v
  | .node _ _, 0, _, _ => false
  | .node l r, d+1, key, v => if key.testBit d then r.insertOK d key v else l.insertOK d key v

theorem Trie.insertOK_spec (t : Trie) (d k : Nat) (v : BB) (hw : t.WF d) (h : t.insertOK d k v = true) :
    (t.get d k = allSquares ∧ v ≠ allSquares) ∨ (t.get d k ≠ allSquares ∧ t.get d k = v) := by
  induction t generalizing d with
  | leaf cur =>
    simp only [Trie.insertOK] at h
    simp only [Trie.get]
    by_cases hc : cur = allSquares
    · left; simp [hc] at h; exact ⟨hc, h⟩
    · right; simp [hc] at h; exact ⟨hc, h⟩
  | node l r ihl ihr =>
    cases d with
    | zero => simp [Trie.WF] at hw
    | succ d =>
      simp only [Trie.WF] at hw
      simp only [Trie.insertOK] at h
      simp only [Trie.get]
      split at h
      · rename_i hb; simp only [hb, if_true]; exact ihr d hw.2 h
      · rename_i hb; simp only [hb]; exact ihl d hw.1 h

/-- continuation-passing insertion with the assert; equals the direct definitions -/
def Trie.insertCheckK : Trie → Nat → Nat → BB → (Trie → Bool) → Bool
  | .leaf cur, _, _, v, k =>
      if cur == allSquares then (if v != allSquares then k (.leaf v) else false)
      else (if cur == v then k (.leaf cur) else false)
  | .node _ _, 0, _, _, _ => false
  | .node l r, d+1, key, v, k =>
      if key.testBit d then r.insertCheckK d key v (fun r' => k (.node l r'))
      else l.insertCheckK d key v (fun l' => k (.node l' r))

theorem Trie.insertCheckK_eq (t : Trie) (d key : Nat) (v : BB) (k : Trie → Bool) :
    t.insertCheckK d key v k = (t.insertOK d key v && k (t.insertFirst d key v)) := by
  induction t generalizing d k with
  | leaf cur =>
    simp only [Trie.insertCheckK, Trie.insertOK, Trie.insertFirst]
    by_cases hc : cur = allSquares
    · by_cases hv : v = allSquares <;> simp [hc, hv]
    · by_cases hv : cur = v
      · subst hv; simp [hc]
      · simp [hc, hv]
  | node l r ihl ihr =>
    cases d with
    | zero => simp [Trie.insertCheckK, Trie.insertOK]
    | succ d =>
      simp only [Trie.insertCheckK, Trie.insertOK, Trie.insertFirst]
      split
      · rw [ihr]
      · rw [ihl]

variable (maskBits : List Nat) (magic bits : Nat) (att : BB → BB)

/-- key and value written for table index `i` -/
def idxKey (i : Nat) : Nat := magicKey (blockersFromIndex i maskBits) magic bits
def idxVal (i : Nat) : BB := att (blockersFromIndex i maskBits)

/-- all asserts of the fill loop over indices `[index, index + 2^d)` pass -/
def fillOK : Nat → Nat → Trie → Bool
  | 0, index, t => t.insertOK bits (idxKey maskBits magic bits index) (idxVal maskBits att index)
  | d+1, index, t =>
      fillOK d index t && fillOK d (index + 2 ^ d) (fillTable maskBits magic bits att d index t)

def checkFillK : Nat → Nat → Trie → (Trie → Bool) → Bool
  | 0, index, t, k => t.insertCheckK bits (idxKey maskBits magic bits index) (idxVal maskBits att index) k
  | d+1, index, t, k =>
      checkFillK d index t (fun t' => checkFillK d (index + 2 ^ d) t' k)

theorem checkFillK_eq (d index : Nat) (t : Trie) (k : Trie → Bool) :
    checkFillK maskBits magic bits att d index t k =
      (fillOK maskBits magic bits att d index t && k (fillTable maskBits magic bits att d index t)) := by
  induction d generalizing index t k with
  | zero => simp [checkFillK, fillOK, fillTable, Trie.insertCheckK_eq, idxKey, idxVal]
  | succ d ih =>
    simp only [checkFillK, fillOK, fillTable, Trie.force_eq]
    rw [ih, ih, Bool.and_assoc]

theorem fillTable_WF (d index : Nat) (t : Trie) (h : t.WF bits) :
    (fillTable maskBits magic bits att d index t).WF bits := by
  induction d generalizing index t with
  | zero => exact Trie.insertFirst_WF _ _ _ _ h
  | succ d ih =>
    simp only [fillTable, Trie.force_eq]
    exact ih _ _ (ih _ _ h)

/-- invariant: every index in [lo, hi) finds its own value in its slot, and no value is the empty marker -/
def FillInv (t : Trie) (lo hi : Nat) : Prop :=
  ∀ i, lo ≤ i → i < hi →
    t.get bits (idxKey maskBits magic bits i) = idxVal maskBits att i ∧ idxVal maskBits att i ≠ allSquares

theorem fill_step (t : Trie) (lo j : Nat) (hw : t.WF bits) (hlo : lo ≤ j)
    (inv : FillInv maskBits magic bits att t lo j)
    (ok : t.insertOK bits (idxKey maskBits magic bits j) (idxVal maskBits att j) = true) :
    FillInv maskBits magic bits att (t.insertFirst bits (idxKey maskBits magic bits j) (idxVal maskBits att j)) lo (j + 1) := by
  have spec := Trie.insertOK_spec t bits _ _ hw ok
  intro i h1 h2
  by_cases e : i = j
  · subst e
    have hs := Trie.get_insertFirst_same t bits (idxKey maskBits magic bits i) (idxKey maskBits magic bits i)
      (idxVal maskBits att i) hw (fun _ _ => rfl)
    rw [hs]
    rcases spec with ⟨h3, h4⟩ | ⟨h3, h4⟩
    · simp [h3, h4]
    · simp only [h3, if_false]; exact ⟨h4, by rw [← h4]; exact h3⟩
  · have hi := inv i h1 (by omega)
    refine ⟨?_, hi.2⟩
    by_cases hl : lowEq bits (idxKey maskBits magic bits j) (idxKey maskBits magic bits i)
    · rw [Trie.get_insertFirst_same t bits _ _ _ hw hl]
      have hg : t.get bits (idxKey maskBits magic bits j) = t.get bits (idxKey maskBits magic bits i) :=
        Trie.get_congr t bits _ _ hw hl
      rw [hg, hi.1]
      simp [hi.2]
    · rw [Trie.get_insertFirst_other t bits _ _ _ hw hl]; exact hi.1

theorem fill_inv (d lo index : Nat) (t : Trie) (hw : t.WF bits) (hlo : lo ≤ index)
    (inv : FillInv maskBits magic bits att t lo index)
    (ok : fillOK maskBits magic bits att d index t = true) :
    FillInv maskBits magic bits att (fillTable maskBits magic bits att d index t) lo (index + 2 ^ d) := by
  induction d generalizing index t with
  | zero =>
    simp only [fillOK] at ok
    simpa [fillTable, idxKey, idxVal] using fill_step maskBits magic bits att t lo index hw hlo inv ok
  | succ d ih =>
    simp only [fillOK, Bool.and_eq_true] at ok
    simp only [fillTable, Trie.force_eq]
    have h1 := ih index t hw hlo inv ok.1
    have hw1 := fillTable_WF maskBits magic bits att d index t hw
    have h2 := ih (index + 2 ^ d) _ hw1 (Nat.le_trans hlo (Nat.le_add_right _ _)) h1 ok.2
    have e : index + 2 ^ d + 2 ^ d = index + 2 ^ (d + 1) := by rw [Nat.pow_succ]; omega
    rw [e] at h2
    exact h2

/-- every subset of the mask squares is `blockersFromIndex i` for some `i < 2^|maskBits|` -/
theorem exists_index (occ : BB) : ∃ i, i < 2 ^ maskBits.length ∧ blockersFromIndex i maskBits = restrict maskBits occ := by
  induction maskBits with
  | nil => exact ⟨0, by simp, by simp [blockersFromIndex, restrict]⟩
  | cons b bs ih =>
    obtain ⟨i, hi, he⟩ := ih
    by_cases hb : occ.testBit b = true
    · refine ⟨2 * i + 1, ?_, ?_⟩
      · simp only [List.length_cons, Nat.pow_succ]; omega
      · have h1 : (2 * i + 1) % 2 = 1 := by omega
        have h2 : (2 * i + 1) / 2 = i := by omega
        simp [blockersFromIndex, restrict, h1, h2, he, hb]
    · refine ⟨2 * i, ?_, ?_⟩
      · simp only [List.length_cons, Nat.pow_succ]; omega
      · have h1 : (2 * i) % 2 = 0 := by omega
        have h2 : (2 * i) / 2 = i := by omega
        simp [blockersFromIndex, restrict, h1, h2, he, hb]

/-- Main lemma: a passed check means the table answers every masked occupancy with its attack set. -/
theorem table_correct (mask : BB) (hm : mask < two64) (hlen : (bitsOf mask).length ≤ bits)
    (ok : checkFillK (bitsOf mask) magic bits att bits 0 (Trie.full allSquares bits) (fun _ => true) = true)
    (occ : BB) :
    (fillTable (bitsOf mask) magic bits att bits 0 (Trie.full allSquares bits)).get bits
        (magicKey (occ &&& mask) magic bits) = att (occ &&& mask) := by
  rw [checkFillK_eq] at ok
  simp only [Bool.and_true] at ok
  have inv := fill_inv (bitsOf mask) magic bits att bits 0 0 (Trie.full allSquares bits) (Trie.full_WF _ _)
    (Nat.le_refl 0) (fun i _ h => absurd h (Nat.not_lt_zero i)) ok
  obtain ⟨i, hi, he⟩ := exists_index (bitsOf mask) occ
  rw [restrict_bitsOf mask occ hm] at he
  have hlt : i < 0 + 2 ^ bits := by
    have : 2 ^ (bitsOf mask).length ≤ 2 ^ bits := Nat.pow_le_pow_right (by decide) hlen
    omega
  have := (inv i (Nat.zero_le i) hlt).1
  simpa [idxKey, idxVal, he] using this

end Chess
