/-
  Lemmas/ExactQuiet.lean — group by group, "generated ⇒ legal" and "legal ⇒ generated" for the not-in-check branch of the generator,
  for pieces the pin scan does not name; assembled into exactness of the whole list on positions without check, pins and en-passant
  square.
-/
import ChessVerif.Lemmas.PawnExact2
import ChessVerif.Lemmas.CastleSafe
import ChessVerif.Lemmas.KingMoves
namespace Chess


theorem in_check_test' (p : Position) (hwf : Spec.wf (absPos p) = true) :
    (checkersBB (BBs.of p) p.board p.side ≠ 0) ↔ Spec.inCheck p.board p.side = true := by
  obtain ⟨hbo, hside, hk, _, _⟩ := wf_board_hyps _ hwf
  obtain ⟨k, hka, hnear⟩ := hk p.side hside
  rw [checkers_ne_zero_iff, isInCheck_eq p p.side k hside hbo hka hnear]

theorem castling_exact' (p : Position) (hwf : Spec.wf (absPos p) = true) (hnc : Spec.inCheck p.board p.side = false) :
    let taken := forbiddenSquares (BBs.of p) p.board p.side ||| (BBs.of p).all
    (p.side = 0 →
      ((p.castling &&& W_OO ≠ 0 ∧ (taken &&& castlingPath W_OO) = 0) ↔ (⟨4, 6, 0⟩ : Spec.SMove) ∈ Spec.castleMoves (absPos p)) ∧
      ((p.castling &&& W_OOO ≠ 0 ∧ (taken &&& castlingPath W_OOO) = 0 ∧ (queenCastlingBlock 0 &&& (BBs.of p).all) = 0) ↔
        (⟨4, 2, 0⟩ : Spec.SMove) ∈ Spec.castleMoves (absPos p))) ∧
    (p.side = 1 →
      ((p.castling &&& B_OO ≠ 0 ∧ (taken &&& castlingPath B_OO) = 0) ↔ (⟨60, 62, 0⟩ : Spec.SMove) ∈ Spec.castleMoves (absPos p)) ∧
      ((p.castling &&& B_OOO ≠ 0 ∧ (taken &&& castlingPath B_OOO) = 0 ∧ (queenCastlingBlock 1 &&& (BBs.of p).all) = 0) ↔
        (⟨60, 58, 0⟩ : Spec.SMove) ∈ Spec.castleMoves (absPos p))) ∧
    (∀ m, m ∈ Spec.castleMoves (absPos p) → m ∈ Spec.legalMoves (absPos p)) := by
  intro taken
  exact ⟨fun hs => ⟨castle_cond_WK p hwf hnc hs, castle_cond_WQ p hwf hnc hs⟩,
         fun hs => ⟨castle_cond_BK p hwf hnc hs, castle_cond_BQ p hwf hnc hs⟩,
         fun m hm => castleMoves_legal _ hwf m hm⟩

/-- the pinned-squares bitboard of the generator -/
def pinnedBB (p : Position) : BB := (genPins (BBs.of p) p.board p.side).foldl (fun acc pin => acc ||| sqBB (pinSquare pin)) 0

theorem unpinned_of_bit (p : Position) (s : Nat) (h : (pinnedBB p).testBit s = false) :
    ∀ pin, pin ∈ genPins (BBs.of p) p.board p.side → pinSquare pin ≠ s := by
  intro pin hp e
  have : (pinnedBB p).testBit s = true := by
    unfold pinnedBB; rw [pinned_testBit]; exact Or.inr ⟨pin, hp, e⟩
  rw [h] at this; cases this

theorem codeOf_plain (p : Position) (m : Spec.SMove) (h : kindOf (p.board.getD m.src 0) ≠ KING) :
    codeOf (absPos p) m = mkPromotion m.src m.dst m.promo := by
  unfold codeOf
  have : Spec.isCastle (absPos p).board m = false := by
    unfold Spec.isCastle
    have hk : Spec.kindOfPc (Spec.pcAt (absPos p).board m.src) = kindOf (p.board.getD m.src 0) := rfl
    rw [hk]
    simp only [Bool.and_eq_false_iff, decide_eq_false_iff_not]
    exact Or.inl h
  rw [this]; simp

/-- GENERATED ⇒ LEGAL, pawn groups (not in check) -/
theorem pawn_gen_legal (p : Position) (hwf : Spec.wf (absPos p) = true) (hnic : Spec.inCheck p.board p.side = false) (code : Nat)
    (h : code ∈ genP p ((BBs.of p).ck p.side PAWN &&& bnot (pinnedBB p))) :
    ∃ m, m ∈ Spec.legalMoves (absPos p) ∧ codeOf (absPos p) m = code := by
  obtain ⟨hbo, hside, _, _, _⟩ := wf_board_hyps _ hwf
  have ok : BoardOK p.board := hbo
  have hs : p.side ≤ 1 := hside
  obtain ⟨idx, f, t, k, hP⟩ := mem_genPawnMoves p.side hs _ _ _ _ (fun j hj => (pawnSrc p ok hs (pinnedBB p) j hj).1) code h
  obtain ⟨hf64, hbf, hunp⟩ := pawnSrc p ok hs (pinnedBB p) f hP.pawn
  have hlisted := pawn_gen_listed p ok hs _ code idx f t k hP
  have hkP : kindOf (p.board.getD f 0) = PAWN := by rw [hbf]; exact kindOf_mkPiece _ _ hs (by decide)
  have hown : Spec.isOwn (Spec.pcAt (absPos p).board f) (absPos p).side = true := by
    show Spec.isOwn (p.board.getD f 0) p.side = true
    rw [hbf]
    have : p.side = 0 ∨ p.side = 1 := by omega
    rcases this with e | e <;> rw [e] <;> decide
  have hps := mem_pseudo_of_piece (absPos p) f hf64 hown _ 1 hkP hlisted
  have hnc : Spec.isCastle p.board ⟨f, t, k⟩ = false := by
    unfold Spec.isCastle
    have : Spec.kindOfPc (Spec.pcAt p.board f) = 1 := hkP
    simp only []
    rw [this]; simp
  have hnep : Spec.isEpCapture (absPos p) ⟨f, t, k⟩ = false := by
    apply Bool.eq_false_iff.2
    intro hep
    obtain ⟨_, hd, he64, hfile⟩ := (isEp_iff (absPos p) ⟨f, t, k⟩).1 hep
    have hd' : t = p.ep := hd
    have he64' : p.ep ≠ 64 := he64
    have hfile' : f % 8 ≠ t % 8 := hfile
    obtain ⟨_, hempty, _⟩ := ep_facts (absPos p) hwf he64
    have hempty' : p.board.getD p.ep 0 = 0 := hempty
    -- a capture lands on an occupied square, a push stays on its file
    have hoff := hP.off
    have hcap := hP.cap
    have hi := hP.idx7
    have hcases : idx = 0 ∨ idx = 1 ∨ idx = 2 ∨ idx = 3 ∨ idx = 4 ∨ idx = 5 ∨ idx = 6 := by omega
    have hoccupied : (pawnOff idx = 9 ∨ pawnOff idx = 7) → False := by
      intro h97
      have := hcap h97
      rw [color_testBit p (1 - p.side) t (by omega) ok] at this
      simp only [Bool.and_eq_true, decide_eq_true_eq] at this
      rw [hd', hempty'] at this
      exact this.2.1 rfl
    have hs01 : p.side = 0 ∨ p.side = 1 := by omega
    rcases hs01 with e | e <;> rw [e] at hoff <;>
      rcases hcases with rfl | rfl | rfl | rfl | rfl | rfl | rfl <;> simp [pawnOff] at hoff hoccupied <;> omega
  refine ⟨⟨f, t, k⟩, unpinned_legal p hwf hnic _ hps hnc hnep (by show kindOf (p.board.getD f 0) ≠ KING; rw [hkP]; decide)
    (unpinned_of_bit p f hunp), ?_⟩
  rw [codeOf_plain p ⟨f, t, k⟩ (by show kindOf (p.board.getD f 0) ≠ KING; rw [hkP]; decide)]
  exact hP.mv.eq.symm

/-- GENERATED ⇒ LEGAL, knights and sliders (not in check) -/
theorem piece_gen_legal (p : Position) (hwf : Spec.wf (absPos p) = true) (hnic : Spec.inCheck p.board p.side = false) (K : Nat)
    (hK : K = KNIGHT ∨ K = BISHOP ∨ K = ROOK ∨ K = QUEEN) (code : Nat)
    (h : code ∈ (bitsOf ((BBs.of p).ck p.side K &&& bnot (pinnedBB p))).flatMap
      (fun s => genPieceMoves (BBs.of p) K s ((BBs.of p).color (1 - p.side) ||| bnot (BBs.of p).all))) :
    ∃ m, m ∈ Spec.legalMoves (absPos p) ∧ codeOf (absPos p) m = code := by
  obtain ⟨hbo, hside, _, _, _⟩ := wf_board_hyps _ hwf
  have ok : BoardOK p.board := hbo
  have hs : p.side ≤ 1 := hside
  rw [List.mem_flatMap] at h
  obtain ⟨s, hsq, hm⟩ := h
  obtain ⟨h64, hb⟩ := (mem_bitsOf _ _).1 hsq
  have h1 := and_testBit_left _ _ _ hb
  have h2 := and_testBit_right _ _ _ hb
  have hK6 : K ≤ 6 := by rcases hK with rfl | rfl | rfl | rfl <;> decide
  rw [ck_testBit p p.side K s hs hK6 ok] at h1
  rw [bnot_testBit _ _ h64] at h2
  simp only [Bool.and_eq_true, decide_eq_true_eq] at h1
  have hunp := unpinned_of_bit p s (by simpa using h2)
  rcases hK with rfl | hK
  · obtain ⟨m, a, _, c⟩ := (knight_exact p hwf hnic s h64 h1.2 hunp code).1 hm
    exact ⟨m, a, c⟩
  · obtain ⟨m, a, _, c⟩ := (slider_exact p hwf hnic K hK s h64 h1.2 hunp code).1 hm
    exact ⟨m, a, c⟩

end Chess

namespace Chess

/-- GENERATED ⇒ LEGAL, king steps -/
theorem king_gen_legal (p : Position) (hwf : Spec.wf (absPos p) = true) (k : Nat) (hk : KingAt p.board p.side k) (code : Nat)
    (h : code ∈ genKingMoves k (forbiddenSquares (BBs.of p) p.board p.side ||| (BBs.of p).color p.side)) :
    ∃ m, m ∈ Spec.legalMoves (absPos p) ∧ codeOf (absPos p) m = code := by
  obtain ⟨_, hside, hkk, _, _⟩ := wf_board_hyps _ hwf
  have hs : p.side ≤ 1 := hside
  obtain ⟨kq, hkq, _⟩ := hkk (1 - p.side) (by omega)
  have hm := h
  unfold genKingMoves at hm
  simp only [List.mem_map, mem_bitsOf] at hm
  obtain ⟨t, ⟨ht, _⟩, rfl⟩ := hm
  obtain ⟨hl, h1, h2⟩ := (king_moves_exact p hwf k kq t ht hk hkq).1 h
  refine ⟨⟨k, t, 0⟩, hl, ?_⟩
  unfold codeOf
  have : Spec.isCastle (absPos p).board ⟨k, t, 0⟩ = false := by
    unfold Spec.isCastle
    simp only [Bool.and_eq_false_iff, Bool.or_eq_false_iff, decide_eq_false_iff_not]
    exact Or.inr ⟨h1, h2⟩
  rw [this]
  simp only [Bool.false_eq_true, if_false]
  exact (mkMove_eq_promo k t).symm

theorem castle_code (p : Position) (r0 : Nat) (hk : Spec.pcAt p.board (r0 + 4) = Spec.mkPc p.side 6) (hs : p.side ≤ 1) :
    codeOf (absPos p) ⟨r0 + 4, r0 + 6, 0⟩ = mkCastling KING_CASTLING ∧ codeOf (absPos p) ⟨r0 + 4, r0 + 2, 0⟩ = mkCastling QUEEN_CASTLING := by
  have hkind : Spec.kindOfPc (Spec.pcAt (absPos p).board (r0 + 4)) = 6 := by
    have : Spec.pcAt (absPos p).board (r0 + 4) = Spec.mkPc p.side 6 := hk
    rw [this]
    have : p.side = 0 ∨ p.side = 1 := by omega
    rcases this with e | e <;> rw [e] <;> decide
  constructor
  · unfold codeOf Spec.isCastle
    simp only []
    rw [hkind]
    have : r0 + 6 = r0 + 4 + 2 := by omega
    simp [this]
  · unfold codeOf Spec.isCastle
    simp only []
    rw [hkind]
    have h1 : ¬ (r0 + 2 = r0 + 4 + 2) := by omega
    have h2 : r0 + 2 + 2 = r0 + 4 := by omega
    simp [h1, h2]

/-- GENERATED ⇒ LEGAL and LEGAL ⇒ GENERATED for the castling codes (not in check) -/
theorem castle_exact (p : Position) (hwf : Spec.wf (absPos p) = true) (hnic : Spec.inCheck p.board p.side = false) :
    let taken := forbiddenSquares (BBs.of p) p.board p.side ||| (BBs.of p).all
    let cK := if p.side = 0 then (p.castling &&& W_OO ≠ 0 ∧ (taken &&& castlingPath W_OO) = 0) else (p.castling &&& B_OO ≠ 0 ∧ (taken &&& castlingPath B_OO) = 0)
    let cQ := if p.side = 0 then (p.castling &&& W_OOO ≠ 0 ∧ (taken &&& castlingPath W_OOO) = 0 ∧ (queenCastlingBlock 0 &&& (BBs.of p).all) = 0)
              else (p.castling &&& B_OOO ≠ 0 ∧ (taken &&& castlingPath B_OOO) = 0 ∧ (queenCastlingBlock 1 &&& (BBs.of p).all) = 0)
    (cK ↔ ∃ m, m ∈ Spec.castleMoves (absPos p) ∧ codeOf (absPos p) m = mkCastling KING_CASTLING) ∧
    (cQ ↔ ∃ m, m ∈ Spec.castleMoves (absPos p) ∧ codeOf (absPos p) m = mkCastling QUEEN_CASTLING) := by
  intro taken cK cQ
  obtain ⟨_, hside, _, _, _⟩ := wf_board_hyps _ hwf
  have hs : p.side ≤ 1 := hside
  obtain ⟨hW, hB, _⟩ := castling_exact' p hwf hnic
  have key : ∀ m, m ∈ Spec.castleMoves (absPos p) →
      (m = ⟨(if p.side = 0 then 0 else 56) + 4, (if p.side = 0 then 0 else 56) + 6, 0⟩ ∧ codeOf (absPos p) m = mkCastling KING_CASTLING) ∨
      (m = ⟨(if p.side = 0 then 0 else 56) + 4, (if p.side = 0 then 0 else 56) + 2, 0⟩ ∧ codeOf (absPos p) m = mkCastling QUEEN_CASTLING) := by
    intro m hm
    obtain ⟨hk, hc⟩ := mem_castleMoves (absPos p) m hm
    have hk' : Spec.pcAt p.board ((if p.side = 0 then 0 else 56) + 4) = Spec.mkPc p.side 6 := hk
    obtain ⟨c1, c2⟩ := castle_code p _ hk' hs
    rcases hc with ⟨rfl, _⟩ | ⟨rfl, _⟩
    · exact Or.inl ⟨rfl, c1⟩
    · exact Or.inr ⟨rfl, c2⟩
  have hne : mkCastling KING_CASTLING ≠ mkCastling QUEEN_CASTLING := by decide
  by_cases h0 : p.side = 0
  · obtain ⟨wK, wQ⟩ := hW h0
    have r0 : (if p.side = 0 then 0 else 56) = 0 := if_pos h0
    constructor
    · show (if p.side = 0 then _ else _) ↔ _
      rw [if_pos h0, wK]
      constructor
      · intro h
        rcases key _ h with ⟨_, c⟩ | ⟨e, _⟩
        · exact ⟨_, h, c⟩
        · rw [r0] at e; injection e with _ e2; omega
      · rintro ⟨m, hm, c⟩
        rcases key m hm with ⟨e, _⟩ | ⟨_, c'⟩
        · rw [r0] at e; rw [e] at hm; exact hm
        · rw [c] at c'; exact absurd c' hne
    · show (if p.side = 0 then _ else _) ↔ _
      rw [if_pos h0, wQ]
      constructor
      · intro h
        rcases key _ h with ⟨e, _⟩ | ⟨_, c⟩
        · rw [r0] at e; injection e with _ e2; omega
        · exact ⟨_, h, c⟩
      · rintro ⟨m, hm, c⟩
        rcases key m hm with ⟨_, c'⟩ | ⟨e, _⟩
        · rw [c] at c'; exact absurd c'.symm hne
        · rw [r0] at e; rw [e] at hm; exact hm
  · have h1 : p.side = 1 := by omega
    obtain ⟨bK, bQ⟩ := hB h1
    have r0 : (if p.side = 0 then 0 else 56) = 56 := if_neg h0
    constructor
    · show (if p.side = 0 then _ else _) ↔ _
      rw [if_neg h0, bK]
      constructor
      · intro h
        rcases key _ h with ⟨_, c⟩ | ⟨e, _⟩
        · exact ⟨_, h, c⟩
        · rw [r0] at e; injection e with _ e2; omega
      · rintro ⟨m, hm, c⟩
        rcases key m hm with ⟨e, _⟩ | ⟨_, c'⟩
        · rw [r0] at e; rw [e] at hm; exact hm
        · rw [c] at c'; exact absurd c' hne
    · show (if p.side = 0 then _ else _) ↔ _
      rw [if_neg h0, bQ]
      constructor
      · intro h
        rcases key _ h with ⟨e, _⟩ | ⟨_, c⟩
        · rw [r0] at e; injection e with _ e2; omega
        · exact ⟨_, h, c⟩
      · rintro ⟨m, hm, c⟩
        rcases key m hm with ⟨_, c'⟩ | ⟨e, _⟩
        · rw [c] at c'; exact absurd c'.symm hne
        · rw [r0] at e; rw [e] at hm; exact hm

end Chess

namespace Chess

abbrev pieceList (p : Position) (K : Nat) : List Nat :=
  (bitsOf ((BBs.of p).ck p.side K &&& bnot (pinnedBB p))).flatMap
    (fun s => genPieceMoves (BBs.of p) K s ((BBs.of p).color (1 - p.side) ||| bnot (BBs.of p).all))

theorem src_in_set (p : Position) (ok : BoardOK p.board) (hs : p.side ≤ 1) (K s : Nat) (hK : 1 ≤ K ∧ K ≤ 6) (hs64 : s < 64)
    (hb : p.board.getD s 0 = mkPiece p.side K) (hunp : (pinnedBB p).testBit s = false) :
    ((BBs.of p).ck p.side K &&& bnot (pinnedBB p)).testBit s = true := by
  apply and_testBit_of
  · rw [ck_testBit p p.side K s hs hK.2 ok, hb]; simp [hs64]
  · rw [bnot_testBit _ _ hs64, hunp]; rfl

/-- LEGAL ⇒ GENERATED (not in check; the mover is not pinned; not an en-passant capture): which group of the generator holds the code -/
theorem legal_gen_unpinned (p : Position) (hwf : Spec.wf (absPos p) = true) (hnic : Spec.inCheck p.board p.side = false)
    (k : Nat) (hk : KingAt p.board p.side k)
    (m : Spec.SMove) (hm : m ∈ Spec.legalMoves (absPos p)) (hunp : (pinnedBB p).testBit m.src = false)
    (hnep : Spec.isEpCapture (absPos p) m = false) :
    codeOf (absPos p) m ∈ genP p ((BBs.of p).ck p.side PAWN &&& bnot (pinnedBB p)) ∨
    codeOf (absPos p) m ∈ pieceList p KNIGHT ∨ codeOf (absPos p) m ∈ pieceList p BISHOP ∨
    codeOf (absPos p) m ∈ pieceList p ROOK ∨ codeOf (absPos p) m ∈ pieceList p QUEEN ∨
    codeOf (absPos p) m ∈ genKingMoves k (forbiddenSquares (BBs.of p) p.board p.side ||| (BBs.of p).color p.side) ∨
    m ∈ Spec.castleMoves (absPos p) := by
  obtain ⟨hbo, hside, hkk, _, _⟩ := wf_board_hyps _ hwf
  have ok : BoardOK p.board := hbo
  have hs : p.side ≤ 1 := hside
  obtain ⟨kq, hkq, _⟩ := hkk (1 - p.side) (by omega)
  have hps : m ∈ Spec.pseudoMoves (absPos p) := by unfold Spec.legalMoves at hm; exact (List.mem_filter.1 hm).1
  have sok := stepOK_of_pseudo _ hwf m hps
  have hownb : p.board.getD m.src 0 = mkPiece p.side (kindOf (p.board.getD m.src 0)) := sok.own.2
  have hunpin := unpinned_of_bit p m.src hunp
  rcases pseudo_cases (absPos p) m hps with hc | ⟨sq, hsq, _, h | h | h | h | h | h⟩
  · exact Or.inr (Or.inr (Or.inr (Or.inr (Or.inr (Or.inr hc)))))
  · -- pawn
    left
    have hsrc := (mem_pawnMoves (absPos p) sq m h.2).1
    have hkind : kindOf (p.board.getD sq 0) = 1 := h.1
    rw [← hsrc] at hkind
    have hbP : p.board.getD m.src 0 = mkPiece p.side PAWN := by rw [hownb, hkind]; rfl
    have hset := src_in_set p ok hs PAWN m.src (by decide) sok.src hbP hunp
    rw [← hsrc] at h
    obtain ⟨_, hgen⟩ : m.src = m.src ∧ mkPromotion m.src m.dst m.promo ∈ genP p _ := by
      have hs01 : p.side = 0 ∨ p.side = 1 := by omega
      have hne : ¬ (p.ep ≠ 64 ∧ m.dst = p.ep ∧ Spec.isEnemy (Spec.pcAt p.board m.dst) p.side = false ∧ Spec.fileI m.src ≠ Spec.fileI m.dst) := by
        rintro ⟨a, b, _, d⟩
        have : Spec.isEpCapture (absPos p) m = true := by
          rw [isEp_iff]
          refine ⟨hkind, b, a, ?_⟩
          unfold Spec.fileI at d
          omega
        rw [hnep] at this; cases this
      rcases hs01 with e | e
      · exact pawn_listed_gen_white p e ok _ m.src sok.src hset m h.2 hne
      · exact pawn_listed_gen_black p e ok _ m.src sok.src hset m h.2 hne
    rw [codeOf_plain p m (by rw [hkind]; decide)]
    exact hgen
  · -- knight
    right; left
    obtain ⟨d, _, _, hmv, _⟩ := mem_stepMoves (absPos p) sq _ m h.2
    have hsrc : m.src = sq := by rw [hmv]
    have hkind : kindOf (p.board.getD m.src 0) = KNIGHT := by rw [hsrc]; exact h.1
    have hb : p.board.getD m.src 0 = mkPiece p.side KNIGHT := by rw [hownb, hkind]
    have hg := (knight_exact p hwf hnic m.src sok.src hb hunpin (codeOf (absPos p) m)).2 ⟨m, hm, rfl, rfl⟩
    rw [List.mem_flatMap]
    exact ⟨m.src, (mem_bitsOf _ _).2 ⟨sok.src, src_in_set p ok hs KNIGHT m.src (by decide) sok.src hb hunp⟩, hg⟩
  · right; right; left
    obtain ⟨d, _, t, _, hmv⟩ := mem_slideMoves (absPos p) sq _ m h.2
    have hsrc : m.src = sq := by rw [hmv]
    have hkind : kindOf (p.board.getD m.src 0) = BISHOP := by rw [hsrc]; exact h.1
    have hb : p.board.getD m.src 0 = mkPiece p.side BISHOP := by rw [hownb, hkind]
    have hg := (slider_exact p hwf hnic BISHOP (Or.inl rfl) m.src sok.src hb hunpin (codeOf (absPos p) m)).2 ⟨m, hm, rfl, rfl⟩
    rw [List.mem_flatMap]
    exact ⟨m.src, (mem_bitsOf _ _).2 ⟨sok.src, src_in_set p ok hs BISHOP m.src (by decide) sok.src hb hunp⟩, hg⟩
  · right; right; right; left
    obtain ⟨d, _, t, _, hmv⟩ := mem_slideMoves (absPos p) sq _ m h.2
    have hsrc : m.src = sq := by rw [hmv]
    have hkind : kindOf (p.board.getD m.src 0) = ROOK := by rw [hsrc]; exact h.1
    have hb : p.board.getD m.src 0 = mkPiece p.side ROOK := by rw [hownb, hkind]
    have hg := (slider_exact p hwf hnic ROOK (Or.inr (Or.inl rfl)) m.src sok.src hb hunpin (codeOf (absPos p) m)).2 ⟨m, hm, rfl, rfl⟩
    rw [List.mem_flatMap]
    exact ⟨m.src, (mem_bitsOf _ _).2 ⟨sok.src, src_in_set p ok hs ROOK m.src (by decide) sok.src hb hunp⟩, hg⟩
  · right; right; right; right; left
    obtain ⟨d, _, t, _, hmv⟩ := mem_slideMoves (absPos p) sq _ m h.2
    have hsrc : m.src = sq := by rw [hmv]
    have hkind : kindOf (p.board.getD m.src 0) = QUEEN := by rw [hsrc]; exact h.1
    have hb : p.board.getD m.src 0 = mkPiece p.side QUEEN := by rw [hownb, hkind]
    have hg := (slider_exact p hwf hnic QUEEN (Or.inr (Or.inr rfl)) m.src sok.src hb hunpin (codeOf (absPos p) m)).2 ⟨m, hm, rfl, rfl⟩
    rw [List.mem_flatMap]
    exact ⟨m.src, (mem_bitsOf _ _).2 ⟨sok.src, src_in_set p ok hs QUEEN m.src (by decide) sok.src hb hunp⟩, hg⟩
  · -- king step
    right; right; right; right; right; left
    obtain ⟨d, hd, hon, hmv, _⟩ := mem_stepMoves (absPos p) sq _ m h.2
    have hsrc : m.src = sq := by rw [hmv]
    have hkind : kindOf (p.board.getD sq 0) = KING := h.1
    have hbK : p.board.getD sq 0 = mkPiece p.side KING := by rw [← hsrc, hownb, hsrc, hkind]
    have hsqk : sq = k := hk.only sq hsq hbK
    subst hsqk
    obtain ⟨v1, v2, v3, v4, v5, v6⟩ := sqOf_val sq hsq d.1 d.2 hon
    have hstep : Spec.sqOf (Spec.fileI sq + d.1) (Spec.rankI sq + d.2) ≠ sq + 2 ∧ Spec.sqOf (Spec.fileI sq + d.1) (Spec.rankI sq + d.2) + 2 ≠ sq := by
      simp [Spec.kingOffs] at hd
      rcases hd with rfl | rfl | rfl | rfl | rfl | rfl | rfl | rfl <;> simp at v1 v3 v4 v5 v6 ⊢ <;> omega
    have hleg : (⟨sq, Spec.sqOf (Spec.fileI sq + d.1) (Spec.rankI sq + d.2), 0⟩ : Spec.SMove) ∈ Spec.legalMoves (absPos p) := by rw [← hmv]; exact hm
    have hg := (king_moves_exact p hwf sq kq _ v2 hk hkq).2 ⟨hleg, hstep.1, hstep.2⟩
    rw [hmv]
    unfold codeOf
    have : Spec.isCastle (absPos p).board ⟨sq, Spec.sqOf (Spec.fileI sq + d.1) (Spec.rankI sq + d.2), 0⟩ = false := by
      unfold Spec.isCastle
      simp only [Bool.and_eq_false_iff, Bool.or_eq_false_iff, decide_eq_false_iff_not]
      exact Or.inr ⟨hstep.1, hstep.2⟩
    rw [this]
    simp only [Bool.false_eq_true, if_false]
    rw [← mkMove_eq_promo]
    exact hg

end Chess

namespace Chess

theorem castle_code_cases (p : Position) (hs : p.side ≤ 1) (m : Spec.SMove) (hm : m ∈ Spec.castleMoves (absPos p)) :
    codeOf (absPos p) m = mkCastling KING_CASTLING ∨ codeOf (absPos p) m = mkCastling QUEEN_CASTLING := by
  obtain ⟨hk, hc⟩ := mem_castleMoves (absPos p) m hm
  have hk' : Spec.pcAt p.board ((if p.side = 0 then 0 else 56) + 4) = Spec.mkPc p.side 6 := hk
  obtain ⟨c1, c2⟩ := castle_code p _ hk' hs
  rcases hc with ⟨rfl, _⟩ | ⟨rfl, _⟩
  · exact Or.inl c1
  · exact Or.inr c2

/-- **C01, exact on quiet positions**: on a well-formed position whose side to move is not in check, with no pinned piece and no
    en-passant square, the generated list contains exactly the codes of the rules' legal moves -/
theorem exact_quiet (p : Position) (hwf : Spec.wf (absPos p) = true) (hnic : Spec.inCheck p.board p.side = false)
    (hnopin : genPins (BBs.of p) p.board p.side = []) (hep : p.ep = 64) (code : Nat) :
    code ∈ genMoves p ↔ ∃ m, m ∈ Spec.legalMoves (absPos p) ∧ codeOf (absPos p) m = code := by
  obtain ⟨hbo, hside, hkk, _, _⟩ := wf_board_hyps _ hwf
  have ok : BoardOK p.board := hbo
  have hs : p.side ≤ 1 := hside
  obtain ⟨k, hk, _⟩ := hkk p.side hs
  have hk' : KingAt p.board p.side k := hk
  have hkq : kingSq p.board p.side = k := kingSq_eq p.board p.side k ok.len hk'
  have hchk : checkersBB (BBs.of p) p.board p.side = 0 := by
    apply Decidable.byContradiction
    intro h
    have := (in_check_test' p hwf).1 h
    rw [hnic] at this; cases this
  have hdbl : ¬ (checkersBB (BBs.of p) p.board p.side ≠ 0 ∧ moreThanOne (checkersBB (BBs.of p) p.board p.side) = true) := by
    rw [hchk]; simp
  have hne : ¬ (checkersBB (BBs.of p) p.board p.side ≠ 0) := by rw [hchk]; simp
  have hpin0 : pinnedBB p = 0 := by unfold pinnedBB; rw [hnopin]; rfl
  have hunpAll : ∀ s, (pinnedBB p).testBit s = false := by intro s; rw [hpin0]; simp
  obtain ⟨cK, cQ⟩ := castle_exact p hwf hnic
  -- the list, written with the abbreviations of this file
  have hlist : genMoves p =
      (((((((((genP p ((BBs.of p).ck p.side PAWN &&& bnot (pinnedBB p)) ++ pieceList p KNIGHT) ++ pieceList p BISHOP) ++ pieceList p ROOK) ++
        pieceList p QUEEN) ++ ([] : List Nat)) ++ genKingMoves k (forbiddenSquares (BBs.of p) p.board p.side ||| (BBs.of p).color p.side)) ++ ([] : List Nat)) ++
        (if p.side = 0 then
          (if p.castling &&& W_OO ≠ 0 ∧ ((forbiddenSquares (BBs.of p) p.board p.side ||| (BBs.of p).all) &&& castlingPath W_OO) = 0 then [mkCastling KING_CASTLING] else [])
         else
          (if p.castling &&& B_OO ≠ 0 ∧ ((forbiddenSquares (BBs.of p) p.board p.side ||| (BBs.of p).all) &&& castlingPath B_OO) = 0 then [mkCastling KING_CASTLING] else []))) ++
        (if p.side = 0 then
          (if p.castling &&& W_OOO ≠ 0 ∧ ((forbiddenSquares (BBs.of p) p.board p.side ||| (BBs.of p).all) &&& castlingPath W_OOO) = 0 ∧
              (queenCastlingBlock 0 &&& (BBs.of p).all) = 0 then [mkCastling QUEEN_CASTLING] else [])
         else
          (if p.castling &&& B_OOO ≠ 0 ∧ ((forbiddenSquares (BBs.of p) p.board p.side ||| (BBs.of p).all) &&& castlingPath B_OOO) = 0 ∧
              (queenCastlingBlock 1 &&& (BBs.of p).all) = 0 then [mkCastling QUEEN_CASTLING] else []))) := by
    unfold genMoves
    simp only []
    rw [if_neg hdbl]
    simp only [if_neg hne]
    rw [hkq]
    have e1 : (if p.ep ≠ 64 then genEnpassant (BBs.of p) p.board p.side ((BBs.of p).ck p.side PAWN &&&
        bnot ((genPins (BBs.of p) p.board p.side).foldl (fun acc pin => acc ||| sqBB (pinSquare pin)) 0)) (bnot (BBs.of p).all) ((BBs.of p).color (1 - p.side)) p.ep else []) = [] := by
      rw [if_neg (by simp [hep])]
    have e2 : (genPins (BBs.of p) p.board p.side).flatMap (fun pin => genPinnedPieceMoves (BBs.of p) p.side pin
        (bnot (BBs.of p).all ||| (BBs.of p).color (1 - p.side)) p.ep) = [] := by rw [hnopin]; rfl
    rw [e1, e2]
    rfl
  rw [hlist]
  simp only [List.append_nil, List.mem_append, or_assoc]
  constructor
  · rintro (h | h | h | h | h | h | h | h)
    · exact pawn_gen_legal p hwf hnic code h
    · exact piece_gen_legal p hwf hnic KNIGHT (Or.inl rfl) code h
    · exact piece_gen_legal p hwf hnic BISHOP (Or.inr (Or.inl rfl)) code h
    · exact piece_gen_legal p hwf hnic ROOK (Or.inr (Or.inr (Or.inl rfl))) code h
    · exact piece_gen_legal p hwf hnic QUEEN (Or.inr (Or.inr (Or.inr rfl))) code h
    · exact king_gen_legal p hwf k hk' code h
    · -- king-side castling code
      have hcond : (if p.side = 0 then (p.castling &&& W_OO ≠ 0 ∧ ((forbiddenSquares (BBs.of p) p.board p.side ||| (BBs.of p).all) &&& castlingPath W_OO) = 0)
          else (p.castling &&& B_OO ≠ 0 ∧ ((forbiddenSquares (BBs.of p) p.board p.side ||| (BBs.of p).all) &&& castlingPath B_OO) = 0)) ∧ code = mkCastling KING_CASTLING := by
        by_cases h0 : p.side = 0
        · rw [if_pos h0] at h ⊢
          by_cases c : p.castling &&& W_OO ≠ 0 ∧ ((forbiddenSquares (BBs.of p) p.board p.side ||| (BBs.of p).all) &&& castlingPath W_OO) = 0
          · rw [if_pos c] at h; exact ⟨c, List.mem_singleton.1 h⟩
          · rw [if_neg c] at h; simp at h
        · rw [if_neg h0] at h ⊢
          by_cases c : p.castling &&& B_OO ≠ 0 ∧ ((forbiddenSquares (BBs.of p) p.board p.side ||| (BBs.of p).all) &&& castlingPath B_OO) = 0
          · rw [if_pos c] at h; exact ⟨c, List.mem_singleton.1 h⟩
          · rw [if_neg c] at h; simp at h
      obtain ⟨m, hm, hc⟩ := cK.1 hcond.1
      exact ⟨m, (castling_exact' p hwf hnic).2.2 m hm, by rw [hc, hcond.2]⟩
    · have hcond : (if p.side = 0 then (p.castling &&& W_OOO ≠ 0 ∧ ((forbiddenSquares (BBs.of p) p.board p.side ||| (BBs.of p).all) &&& castlingPath W_OOO) = 0 ∧
            (queenCastlingBlock 0 &&& (BBs.of p).all) = 0)
          else (p.castling &&& B_OOO ≠ 0 ∧ ((forbiddenSquares (BBs.of p) p.board p.side ||| (BBs.of p).all) &&& castlingPath B_OOO) = 0 ∧
            (queenCastlingBlock 1 &&& (BBs.of p).all) = 0)) ∧ code = mkCastling QUEEN_CASTLING := by
        by_cases h0 : p.side = 0
        · rw [if_pos h0] at h ⊢
          by_cases c : p.castling &&& W_OOO ≠ 0 ∧ ((forbiddenSquares (BBs.of p) p.board p.side ||| (BBs.of p).all) &&& castlingPath W_OOO) = 0 ∧
              (queenCastlingBlock 0 &&& (BBs.of p).all) = 0
          · rw [if_pos c] at h; exact ⟨c, List.mem_singleton.1 h⟩
          · rw [if_neg c] at h; simp at h
        · rw [if_neg h0] at h ⊢
          by_cases c : p.castling &&& B_OOO ≠ 0 ∧ ((forbiddenSquares (BBs.of p) p.board p.side ||| (BBs.of p).all) &&& castlingPath B_OOO) = 0 ∧
              (queenCastlingBlock 1 &&& (BBs.of p).all) = 0
          · rw [if_pos c] at h; exact ⟨c, List.mem_singleton.1 h⟩
          · rw [if_neg c] at h; simp at h
      obtain ⟨m, hm, hc⟩ := cQ.1 hcond.1
      exact ⟨m, (castling_exact' p hwf hnic).2.2 m hm, by rw [hc, hcond.2]⟩
  · rintro ⟨m, hm, rfl⟩
    have hnep : Spec.isEpCapture (absPos p) m = false := by
      unfold Spec.isEpCapture
      have : (absPos p).ep = 64 := hep
      rw [this]; simp
    rcases legal_gen_unpinned p hwf hnic k hk' m hm (hunpAll _) hnep with h | h | h | h | h | h | h
    · exact Or.inl h
    · exact Or.inr (Or.inl h)
    · exact Or.inr (Or.inr (Or.inl h))
    · exact Or.inr (Or.inr (Or.inr (Or.inl h)))
    · exact Or.inr (Or.inr (Or.inr (Or.inr (Or.inl h))))
    · exact Or.inr (Or.inr (Or.inr (Or.inr (Or.inr (Or.inl h)))))
    · rcases castle_code_cases p hs m h with c | c
      · refine Or.inr (Or.inr (Or.inr (Or.inr (Or.inr (Or.inr (Or.inl ?_))))))
        have hcond := cK.2 ⟨m, h, c⟩
        rw [c]
        by_cases h0 : p.side = 0
        · rw [if_pos h0] at hcond ⊢; rw [if_pos hcond]; exact List.mem_singleton.2 rfl
        · rw [if_neg h0] at hcond ⊢; rw [if_pos hcond]; exact List.mem_singleton.2 rfl
      · refine Or.inr (Or.inr (Or.inr (Or.inr (Or.inr (Or.inr (Or.inr ?_))))))
        have hcond := cQ.2 ⟨m, h, c⟩
        rw [c]
        by_cases h0 : p.side = 0
        · rw [if_pos h0] at hcond ⊢; rw [if_pos hcond]; exact List.mem_singleton.2 rfl
        · rw [if_neg h0] at hcond ⊢; rw [if_pos hcond]; exact List.mem_singleton.2 rfl

end Chess
