/- back-rank geometry table of one castling, evaluated in the kernel (see Lemmas/GivesCheckCastle.lean: castleGeoB) -/
import ChessVerif.Lemmas.GivesCheckCastle
namespace Chess
theorem castleGeo_BQ : castleGeoB 60 58 59 56 = true := by decide +kernel
end Chess
