/-
  Lemmas/SanShapes.lean — the SAN matcher on EVERY text shape `san` can produce, exhaustively (kernel evaluation):
  piece letter × optional file × optional rank × optional 'x' × all 64 targets × suffix, and pawn moves with
  optional capture file, all targets, optional promotion, suffix.  Independent of the position model and of Gen.
-/
import ChessVerif.Model.SanMatch
namespace Chess

/-- the text `san_without_check` + suffix produces, from its fields -/
def sanText (pl : Option Char) (df dr : Option Nat) (cap : Bool) (t : Nat) (promo : Option Char) (sfx : List Char) : List Char :=
  (match pl with | some c => [c] | none => []) ++
  (match df with | some f => [fileChar f] | none => []) ++
  (match dr with | some r => [rankChar r] | none => []) ++
  (if cap then ['x'] else []) ++ [fileChar (t % 8), rankChar (t / 8)] ++
  (match promo with | some c => ['=', c] | none => []) ++ sfx

def sanExpected (pl : Option Char) (df dr : Option Nat) (t : Nat) (promo : Option Char) :
    Option (Option Char × Option Char × Option Char × Char × Char × Option Char) :=
  some (pl, df.map fileChar, dr.map rankChar, fileChar (t % 8), rankChar (t / 8), promo)

def optRange (n : Nat) : List (Option Nat) := none :: (List.range n).map some
def sanSuffixes : List (List Char) := [[], ['+'], ['#']]
def promoLetters : List (Option Char) := [none, some 'N', some 'B', some 'R', some 'Q']

def pieceShapeOK (c : Char) : Bool :=
  (optRange 8).all fun df => (optRange 8).all fun dr => [true, false].all fun cap => (List.range 64).all fun t => sanSuffixes.all fun sfx =>
    sanMatch (sanText (some c) df dr cap t none sfx) == sanExpected (some c) df dr t none

def pawnShapeOK : Bool :=
  (optRange 8).all fun df => [true, false].all fun cap => (List.range 64).all fun t => promoLetters.all fun pr => sanSuffixes.all fun sfx =>
    sanMatch (sanText none df none cap t pr sfx) == sanExpected none df none t pr

theorem shapesN : pieceShapeOK 'N' = true := by decide +kernel
theorem shapesB : pieceShapeOK 'B' = true := by decide +kernel
theorem shapesR : pieceShapeOK 'R' = true := by decide +kernel
theorem shapesQ : pieceShapeOK 'Q' = true := by decide +kernel
theorem shapesK : pieceShapeOK 'K' = true := by decide +kernel
theorem shapesPawn : pawnShapeOK = true := by decide +kernel

end Chess
