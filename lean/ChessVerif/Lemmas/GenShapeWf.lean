/-
  Lemmas/GenShapeWf.lean — on every well-formed position the generated list has the shape the SAN round trip assumes (`genShapeB`),
  in particular no move appears twice.
-/
import ChessVerif.Lemmas.GenShape
import ChessVerif.Lemmas.WfHyp
import ChessVerif.Lemmas.LegalShape
namespace Chess

theorem genHyp_of_wf (p : Position) (hwf : Spec.wf (absPos p) = true) : ∃ k, GenHyp p k := by
  obtain ⟨hbo, hs, hk, _, _⟩ := wf_board_hyps _ hwf
  have hs' : p.side ≤ 1 := hs
  obtain ⟨k, hkk, _⟩ := hk p.side hs'
  refine ⟨k, hbo, hs', hkk, ?_⟩
  by_cases he : p.ep = 64
  · exact Or.inl he
  · right
    obtain ⟨a, b, _⟩ := ep_facts (absPos p) hwf he
    have a' : if p.side = 0 then p.ep / 8 = 5 else p.ep / 8 = 2 := a
    have b' : p.board.getD p.ep 0 = 0 := b
    refine ⟨?_, a', b'⟩
    by_cases h0 : p.side = 0
    · rw [if_pos h0] at a'; omega
    · rw [if_neg h0] at a'; omega

/-- **no move appears twice** in the generated list of a well-formed position -/
theorem genMoves_nodup (p : Position) (hwf : Spec.wf (absPos p) = true) : (genMoves p).Nodup := by
  obtain ⟨k, H⟩ := genHyp_of_wf p hwf
  obtain ⟨pinned, cs, g⟩ := genMoves_good p k H
  exact g.nd

/-- the decidable shape evaluated by the driver is a theorem on well-formed positions -/
theorem genShapeB_of_wf (p : Position) (hwf : Spec.wf (absPos p) = true) : genShapeB p = true := by
  obtain ⟨k, H⟩ := genHyp_of_wf p hwf
  obtain ⟨pinned, cs, g⟩ := genMoves_good p k H
  unfold genShapeB
  simp only [Bool.and_eq_true, decide_eq_true_eq, List.all_eq_true]
  refine ⟨g.nd, ?_⟩
  intro m hm
  rcases (g.el m hm).1 with hc | ⟨K, pin, hg⟩
  · have hne : moveCastling m ≠ 0 := by rcases hc with rfl | rfl <;> decide
    rw [if_pos hne]
    rcases hc with rfl | rfl <;> simp
  · obtain ⟨sh, hc0⟩ := hg.shape H.side
    rw [if_neg (by rw [hc0]; simp)]
    simp only [Bool.and_eq_true, decide_eq_true_eq, beq_iff_eq]
    refine ⟨⟨⟨⟨⟨sh.lt, sh.k1⟩, sh.k6⟩, sh.p1⟩, sh.p5⟩, ?_⟩
    have hpr := sh.pr
    by_cases h1 : movePromo m ≠ 0
    · have := hpr.1 h1
      simp [h1, this.1, this.2]
    · have h2 : ¬ (kindOf (p.at (moveFrom m)) = PAWN ∧ (rankOf (moveTo m) = 0 ∨ rankOf (moveTo m) = 7)) := fun h => h1 (hpr.2 h)
      simp only [h1, decide_false]
      by_cases hk : kindOf (p.at (moveFrom m)) = PAWN
      · have : ¬ (rankOf (moveTo m) = 0 ∨ rankOf (moveTo m) = 7) := fun h => h2 ⟨hk, h⟩
        simp only [not_or] at this
        simp [hk, this.1, this.2]
      · simp [hk]

end Chess
