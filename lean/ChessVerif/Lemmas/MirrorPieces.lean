/-
  Lemmas/MirrorPieces.lean — the per-piece terms of `score_pieces_for_side` (score.cpp) under the colour mirror, given that the two
  `Setup` records are flips of each other.
-/
import ChessVerif.Lemmas.MirrorSetup
namespace Chess
open Chess.Props

theorem pc_mirror {X Y : BB} (h : MirrorBB X Y) : pc Y = pc X := by unfold pc; rw [h.popcount]

theorem optSc_congr {P Q : Prop} [Decidable P] [Decidable Q] (h : P ↔ Q) (k : Sc) : optSc P k = optSc Q k := by
  unfold optSc
  by_cases hp : P
  · rw [if_pos hp, if_pos (h.1 hp)]
  · rw [if_neg hp, if_neg (fun hq => hp (h.2 hq))]

/-- constant masks of (colour, square) against (other colour, flipped square) -/
def pieceConstOne (c s : Nat) : Bool :=
  mirB (opponentRanks c) (opponentRanks (1 - c)) && mirB centerBB centerBB &&
  mirB (colorSquares (sqColor s)) (colorSquares (sqColor (flipV s))) &&
  mirB (fileBB (fileOf s)) (fileBB (fileOf (flipV s))) && mirB (rankBB (rankOf s)) (rankBB (rankOf (flipV s))) &&
  mirB whiteSquares blackSquares && mirB blackSquares whiteSquares
def pieceConstOK : Bool := [0, 1].all fun c => (List.range 64).all fun s => pieceConstOne c s
set_option maxRecDepth 100000 in
theorem pieceConstOK_true : pieceConstOK = true := by decide +kernel

structure PieceConst (c s : Nat) : Prop where
  ranks : MirrorBB (opponentRanks c) (opponentRanks (1 - c))
  center : MirrorBB centerBB centerBB
  colour : MirrorBB (colorSquares (sqColor s)) (colorSquares (sqColor (flipV s)))
  file : MirrorBB (fileBB (fileOf s)) (fileBB (fileOf (flipV s)))
  rank : MirrorBB (rankBB (rankOf s)) (rankBB (rankOf (flipV s)))
  wb : MirrorBB whiteSquares blackSquares
  bw : MirrorBB blackSquares whiteSquares

theorem pieceConst (c s : Nat) (hc : c ≤ 1) (hs : s < 64) : PieceConst c s := by
  have h := pieceConstOK_true
  simp only [pieceConstOK, List.all_eq_true, List.mem_range] at h
  have hcm : c ∈ [0, 1] := by
    have : c = 0 ∨ c = 1 := by omega
    rcases this with rfl | rfl <;> simp
  have h1 := h c hcm s hs
  simp only [pieceConstOne, Bool.and_eq_true] at h1
  obtain ⟨⟨⟨⟨⟨⟨a1, a2⟩, a3⟩, a4⟩, a5⟩, a6⟩, a7⟩ := h1
  exact ⟨mirB_sound a1, mirB_sound a2, mirB_sound a3, mirB_sound a4, mirB_sound a5, mirB_sound a6, mirB_sound a7⟩

/-- one knight -/
theorem knightScore_mirror {p q : Position} (m : MirrorPos p q) (c : Nat) (hc : c ≤ 1) (kk : Nat) (hkk : KingAt p.board c kk)
    (own own' opp opp' : Setup) (ho : SetupMirror own own') (hp : SetupMirror opp opp')
    (k ok sq : Nat) (hk : k < 64) (hok : ok < 64) (hsq : sq < 64) :
    knightScore (BBs.of q) q.board (1 - c) own' opp' (flipV k) (flipV ok) (flipV sq) = knightScore (BBs.of p) p.board c own opp k ok sq := by
  have K := pieceConst c sq hc hsq
  obtain ⟨_, _, msq⟩ := pseudo_mirror sq hsq
  have matt := (leaper_mirror sq hsq).1
  have z1 := (msq.and ho.attPawn).eq_zero_iff (and_lt (sqBB_lt sq hsq)) (and_lt (sqBB_lt _ (flipV_lt sq hsq)))
  have z2 : (own'.outposts &&& sqBB (flipV sq)) = 0 ↔ (own.outposts &&& sqBB sq) = 0 := by
    rw [Nat.and_comm own'.outposts, Nat.and_comm own.outposts]
    exact (msq.and ho.outposts).eq_zero_iff (and_lt (sqBB_lt sq hsq)) (and_lt (sqBB_lt _ (flipV_lt sq hsq)))
  have d1 := (C13_geometry k sq hk hsq).2.2.2.2.2
  have d2 := (C13_geometry ok sq hok hsq).2.2.2.2.2
  have r := realMoves_mirror m c hc kk hkk own own' opp opp' ho hp sq hsq _ _ matt
  unfold knightScore
  simp only []
  rw [optSc_congr (not_congr z1), optSc_congr (not_congr z2), pc_mirror (matt.and K.ranks), pc_mirror (matt.and K.center), d1, d2, pc_mirror r]

/-- one bishop -/
theorem bishopScore_mirror {p q : Position} (m : MirrorPos p q) (c : Nat) (hc : c ≤ 1) (kk : Nat) (hkk : KingAt p.board c kk)
    (own own' opp opp' : Setup) (ho : SetupMirror own own') (hp : SetupMirror opp opp')
    (k ok sq : Nat) (hk : k < 64) (hok : ok < 64) (hsq : sq < 64) :
    bishopScore (BBs.of q) q.board (1 - c) own' opp' (flipV k) (flipV ok) (flipV sq) = bishopScore (BBs.of p) p.board c own opp k ok sq := by
  have K := pieceConst c sq hc hsq
  obtain ⟨_, _, msq⟩ := pseudo_mirror sq hsq
  have hall := m.all
  have mk : ∀ kd, 1 ≤ kd → kd ≤ 6 → MirrorBB ((BBs.of p).ck c kd) ((BBs.of q).ck (1 - c) kd) := fun kd h1 h6 => m.ck c kd hc h1 h6
  have obq := hall.and ((mk BISHOP (by decide) (by decide)).or (mk QUEEN (by decide) (by decide))).bnot
  have a1 := (sliderAttack_mirror sq hsq _ _ obq).1
  have a2 := (sliderAttack_mirror sq hsq _ _ hall).1
  have z2 : (own'.outposts &&& sqBB (flipV sq)) = 0 ↔ (own.outposts &&& sqBB sq) = 0 := by
    rw [Nat.and_comm own'.outposts, Nat.and_comm own.outposts]
    exact (msq.and ho.outposts).eq_zero_iff (and_lt (sqBB_lt sq hsq)) (and_lt (sqBB_lt _ (flipV_lt sq hsq)))
  have d1 := (C13_geometry k sq hk hsq).2.2.2.2.2
  have d2 := (C13_geometry ok sq hok hsq).2.2.2.2.2
  have r := realMoves_mirror m c hc kk hkk own own' opp opp' ho hp sq hsq _ _ a2
  unfold bishopScore
  simp only []
  rw [pc_mirror (a1.and K.ranks), pc_mirror r, d1, d2, pc_mirror ((mk PAWN (by decide) (by decide)).and K.colour), optSc_congr (not_congr z2)]

def rookRightsOK : Bool := (List.range 16).all fun r => [0, 1].all fun c =>
  decide (mirrorRights r &&& castlingRightsOf (1 - c) ≠ 0) == decide (r &&& castlingRightsOf c ≠ 0)
theorem rookRightsOK_true : rookRightsOK = true := by decide +kernel
def fileFlipOK : Bool := (List.range 64).all fun s => fileOf (flipV s) == fileOf s
theorem fileFlipOK_true : fileFlipOK = true := by decide +kernel

/-- one rook -/
theorem rookScore_mirror {p q : Position} (m : MirrorPos p q) (hr : p.castling < 16) (c : Nat) (hc : c ≤ 1) (kk : Nat) (hkk : KingAt p.board c kk)
    (own own' opp opp' : Setup) (ho : SetupMirror own own') (hp : SetupMirror opp opp')
    (k sq : Nat) (hk : k < 64) (hsq : sq < 64) :
    rookScore (BBs.of q) q.board (mirrorRights p.castling) (1 - c) own' opp' (flipV k) (flipV sq) =
    rookScore (BBs.of p) p.board p.castling c own opp k sq := by
  have K := pieceConst c sq hc hsq
  have hc1 : 1 - c ≤ 1 := by omega
  have e : 1 - (1 - c) = c := by omega
  have hall := m.all
  have hqlen : q.board.length = 64 := by rw [m.hq]; exact mirrorBoard_length _
  have mk : ∀ kd, 1 ≤ kd → kd ≤ 6 → MirrorBB ((BBs.of p).ck c kd) ((BBs.of q).ck (1 - c) kd) := fun kd h1 h6 => m.ck c kd hc h1 h6
  have mko : ∀ kd, 1 ≤ kd → kd ≤ 6 → MirrorBB ((BBs.of p).ck (1 - c) kd) ((BBs.of q).ck c kd) := by
    intro kd h1 h6
    have := m.ck (1 - c) kd hc1 h1 h6
    rw [e] at this; exact this
  have orq := hall.and ((mk ROOK (by decide) (by decide)).or (mk QUEEN (by decide) (by decide))).bnot
  have a1 := (sliderAttack_mirror sq hsq _ _ orq).2.1
  have a2 := (sliderAttack_mirror sq hsq _ _ hall).2.1
  have r := realMoves_mirror m c hc kk hkk own own' opp opp' ho hp sq hsq _ _ a2
  have bck : ∀ (x : Position) (cc kd : Nat), cc ≤ 1 → kd ≤ 6 → x.board.length = 64 → (BBs.of x).ck cc kd < 2 ^ 64 :=
    fun x cc kd h1 h2 h3 => MirrorPos.ck_lt cc kd h1 h2 h3
  -- pawns of both colours on the file
  have mkind : MirrorBB ((BBs.of p).kind PAWN) ((BBs.of q).kind PAWN) := by
    unfold BBs.kind
    have h0 := m.ck 0 PAWN (by decide) (by decide) (by decide)
    have h1 := m.ck 1 PAWN (by decide) (by decide) (by decide)
    simp only [show (1 - 0 : Nat) = 1 from rfl, show (1 - 1 : Nat) = 0 from rfl] at h0 h1
    rw [Nat.or_comm ((BBs.of q).ck 0 PAWN)]
    exact h0.or h1
  have bfile : fileBB (fileOf sq) &&& (BBs.of p).kind PAWN < 2 ^ 64 := by
    apply Nat.and_lt_two_pow; unfold BBs.kind
    exact Nat.or_lt_two_pow (bck p 0 PAWN (by decide) (by decide) m.len) (bck p 1 PAWN (by decide) (by decide) m.len)
  have bfile' : fileBB (fileOf (flipV sq)) &&& (BBs.of q).kind PAWN < 2 ^ 64 := by
    apply Nat.and_lt_two_pow; unfold BBs.kind
    exact Nat.or_lt_two_pow (bck q 0 PAWN (by decide) (by decide) hqlen) (bck q 1 PAWN (by decide) (by decide) hqlen)
  have z1 := (K.file.and mkind).eq_zero_iff bfile bfile'
  have z2 := (K.file.and (mk PAWN (by decide) (by decide))).eq_zero_iff (Nat.and_lt_two_pow _ (bck p c PAWN hc (by decide) m.len))
    (Nat.and_lt_two_pow _ (bck q (1 - c) PAWN hc1 (by decide) hqlen))
  have z3 := (K.file.and (mko PAWN (by decide) (by decide))).eq_zero_iff (Nat.and_lt_two_pow _ (bck p (1 - c) PAWN hc1 (by decide) m.len))
    (Nat.and_lt_two_pow _ (bck q c PAWN hc (by decide) hqlen))
  have mo1 := MirrorBB.moreThanOne (Nat.and_lt_two_pow _ (bck p c ROOK hc (by decide) m.len))
    (Nat.and_lt_two_pow _ (bck q (1 - c) ROOK hc1 (by decide) hqlen)) (K.file.and (mk ROOK (by decide) (by decide)))
  have mo2 := MirrorBB.moreThanOne (Nat.and_lt_two_pow _ (bck p c ROOK hc (by decide) m.len))
    (Nat.and_lt_two_pow _ (bck q (1 - c) ROOK hc1 (by decide) hqlen)) (K.rank.and (mk ROOK (by decide) (by decide)))
  have hR := rookRightsOK_true
  simp only [rookRightsOK, List.all_eq_true, List.mem_range, beq_iff_eq, decide_eq_decide] at hR
  have hcm : c ∈ [0, 1] := by
    have : c = 0 ∨ c = 1 := by omega
    rcases this with rfl | rfl <;> simp
  have hrr := hR p.castling hr c hcm
  have hF := fileFlipOK_true
  simp only [fileFlipOK, List.all_eq_true, List.mem_range, beq_iff_eq] at hF
  have f1 := hF k hk
  have f2 := hF sq hsq
  unfold rookScore
  simp only [e]
  rw [pc_mirror (a1.and K.ranks), optSc_congr z1, optSc_congr (and_congr z2 (not_congr z3)), mo1, mo2, pc_mirror r, r.popcount, f1, f2]
  congr 2
  by_cases hx : p.castling &&& castlingRightsOf c ≠ 0
  · rw [if_pos hx, if_pos (hrr.2 hx)]
  · rw [if_neg hx, if_neg (fun h' => hx (hrr.1 h'))]

theorem MirrorBB.any_eq {X Y : BB} (h : MirrorBB X Y) (f g : Nat → Bool) (hfg : ∀ s, s ∈ bitsOf X → f (flipV s) = g s) :
    (bitsOf Y).any f = (bitsOf X).any g := by
  apply Bool.eq_iff_iff.2
  rw [List.any_eq_true, List.any_eq_true]
  constructor
  · intro ⟨t, ht, hft⟩
    have := (h.bits_perm.mem_iff).1 ht
    obtain ⟨s, hs, rfl⟩ := List.mem_map.1 this
    exact ⟨s, hs, by rw [← hfg s hs]; exact hft⟩
  · intro ⟨s, hs, hgs⟩
    exact ⟨flipV s, (h.bits_perm.mem_iff).2 (List.mem_map.2 ⟨s, hs, rfl⟩), by rw [hfg s hs]; exact hgs⟩

/-- one queen -/
theorem queenScore_mirror {p q : Position} (m : MirrorPos p q) (c : Nat) (hc : c ≤ 1) (kk : Nat) (hkk : KingAt p.board c kk)
    (own own' opp opp' : Setup) (ho : SetupMirror own own') (hp : SetupMirror opp opp') (sq : Nat) (hsq : sq < 64) :
    queenScore (BBs.of q) q.board (1 - c) own' opp' (flipV sq) = queenScore (BBs.of p) p.board c own opp sq := by
  have K := pieceConst c sq hc hsq
  have hc1 : 1 - c ≤ 1 := by omega
  have e : 1 - (1 - c) = c := by omega
  have hall := m.all
  have hqlen : q.board.length = 64 := by rw [m.hq]; exact mirrorBoard_length _
  have mk : ∀ kd, 1 ≤ kd → kd ≤ 6 → MirrorBB ((BBs.of p).ck c kd) ((BBs.of q).ck (1 - c) kd) := fun kd h1 h6 => m.ck c kd hc h1 h6
  have mko : ∀ kd, 1 ≤ kd → kd ≤ 6 → MirrorBB ((BBs.of p).ck (1 - c) kd) ((BBs.of q).ck c kd) := by
    intro kd h1 h6
    have := m.ck (1 - c) kd hc1 h1 h6
    rw [e] at this; exact this
  have obq := hall.and ((mk BISHOP (by decide) (by decide)).or (mk QUEEN (by decide) (by decide))).bnot
  have orq := hall.and ((mk ROOK (by decide) (by decide)).or (mk QUEEN (by decide) (by decide))).bnot
  have a1 := (sliderAttack_mirror sq hsq _ _ obq).1
  have a2 := (sliderAttack_mirror sq hsq _ _ orq).2.1
  have a3 := (sliderAttack_mirror sq hsq _ _ hall).2.2
  have r := realMoves_mirror m c hc kk hkk own own' opp opp' ho hp sq hsq _ _ a3
  obtain ⟨mpb, mpr, msq⟩ := pseudo_mirror sq hsq
  have msn := (mpb.and (mko BISHOP (by decide) (by decide))).or (mpr.and (mko ROOK (by decide) (by decide)))
  have mrest := hall.and (msn.or msq).bnot
  have hv := msn.any_eq
    (fun sn => decide ((lines (flipV sq) sn &&& ((BBs.of q).all &&& Chess.bnot
        (pseudoBishop (flipV sq) &&& (BBs.of q).ck c BISHOP ||| pseudoRook (flipV sq) &&& (BBs.of q).ck c ROOK ||| sqBB (flipV sq)))) ≠ 0 ∧
      (!moreThanOne (lines (flipV sq) sn &&& ((BBs.of q).all &&& Chess.bnot
        (pseudoBishop (flipV sq) &&& (BBs.of q).ck c BISHOP ||| pseudoRook (flipV sq) &&& (BBs.of q).ck c ROOK ||| sqBB (flipV sq))))) = true))
    (fun sn => decide ((lines sq sn &&& ((BBs.of p).all &&& Chess.bnot
        (pseudoBishop sq &&& (BBs.of p).ck (1 - c) BISHOP ||| pseudoRook sq &&& (BBs.of p).ck (1 - c) ROOK ||| sqBB sq))) ≠ 0 ∧
      (!moreThanOne (lines sq sn &&& ((BBs.of p).all &&& Chess.bnot
        (pseudoBishop sq &&& (BBs.of p).ck (1 - c) BISHOP ||| pseudoRook sq &&& (BBs.of p).ck (1 - c) ROOK ||| sqBB sq)))) = true))
    (fun s hs => by
      have hs64 := ((mem_bitsOf _ s).1 hs).1
      have ml := ((lines_mirror sq s hsq hs64).1).and mrest
      obtain ⟨z, mo⟩ := and_and_facts (MirrorPos.all_lt m.len) (MirrorPos.all_lt hqlen) ml
      apply decide_eq_decide.2
      rw [mo]
      exact and_congr (not_congr z) Iff.rfl)
  unfold queenScore
  simp only [e]
  rw [pc_mirror (a1.and K.ranks), pc_mirror (a2.and K.ranks), pc_mirror r]
  congr 2
  apply optSc_congr
  rw [hv]

theorem MirrorBB.eq_iff {X1 X2 Y1 Y2 : BB} (b1 : X1 < 2 ^ 64) (b2 : X2 < 2 ^ 64) (b1' : Y1 < 2 ^ 64) (b2' : Y2 < 2 ^ 64)
    (h1 : MirrorBB X1 Y1) (h2 : MirrorBB X2 Y2) : Y1 = Y2 ↔ X1 = X2 := by
  have hi : ∀ {A : BB}, A < 2 ^ 64 → ∀ i, 64 ≤ i → A.testBit i = false :=
    fun hA i hi => Nat.testBit_lt_two_pow (Nat.lt_of_lt_of_le hA (Nat.pow_le_pow_right (by omega) hi))
  constructor
  · intro e
    apply Nat.eq_of_testBit_eq
    intro i
    by_cases h64 : i < 64
    · rw [h1.symm i h64, h2.symm i h64, e]
    · rw [hi b1 i (by omega), hi b2 i (by omega)]
  · intro e
    apply Nat.eq_of_testBit_eq
    intro i
    by_cases h64 : i < 64
    · rw [h1 i h64, h2 i h64, e]
    · rw [hi b1' i (by omega), hi b2' i (by omega)]

def kingRankOK : Bool := [0, 1].all fun c =>
  mirB (rankBB (if c = 0 then 1 else 6)) (rankBB (if 1 - c = 0 then 1 else 6)) &&
  decide (rankBB (if c = 0 then 1 else 6) < 2 ^ 64) &&
  (List.range 64).all fun k => decide (rankOf (flipV k) = (if 1 - c = 0 then 0 else 7)) == decide (rankOf k = (if c = 0 then 0 else 7))
theorem kingRankOK_true : kingRankOK = true := by decide +kernel

/-- the king term -/
theorem scoreKing_mirror {p q : Position} (m : MirrorPos p q) (hr : p.castling < 16) (c : Nat) (hc : c ≤ 1)
    (kk ko : Nat) (hkk : KingAt p.board c kk) (hko : KingAt p.board (1 - c) ko)
    (own own' opp opp' : Setup) (ho : SetupMirror own own') (hp : SetupMirror opp opp') :
    scoreKing (BBs.of q) q.board (mirrorRights p.castling) (1 - c) own' opp' = scoreKing (BBs.of p) p.board p.castling c own opp := by
  have hc1 : 1 - c ≤ 1 := by omega
  have e : 1 - (1 - c) = c := by omega
  have hall := m.all
  have hqlen : q.board.length = 64 := by rw [m.hq]; exact mirrorBoard_length _
  have mko : ∀ kd, 1 ≤ kd → kd ≤ 6 → MirrorBB ((BBs.of p).ck (1 - c) kd) ((BBs.of q).ck c kd) := by
    intro kd h1 h6
    have := m.ck (1 - c) kd hc1 h1 h6
    rw [e] at this; exact this
  have blo : ∀ kd, kd ≤ 6 → (BBs.of p).ck (1 - c) kd < 2 ^ 64 := fun kd h => MirrorPos.ck_lt _ _ hc1 h m.len
  have blo' : ∀ kd, kd ≤ 6 → (BBs.of q).ck c kd < 2 ^ 64 := fun kd h => MirrorPos.ck_lt _ _ hc h hqlen
  have hks : kingSq q.board (1 - c) = flipV (kingSq p.board c) := by rw [m.hq]; exact (C13_king_mirror p.board m.len m.codes c kk hc hkk).2
  have hkso : kingSq q.board c = flipV (kingSq p.board (1 - c)) := by
    have := (C13_king_mirror p.board m.len m.codes (1 - c) ko hc1 hko).2
    rw [e, ← m.hq] at this; exact this
  have hk64 : kingSq p.board c < 64 := by rw [kingSq_eq p.board c kk m.len hkk]; exact hkk.lt
  have hko64 : kingSq p.board (1 - c) < 64 := by rw [kingSq_eq p.board (1 - c) ko m.len hko]; exact hko.lt
  have K := pieceConst c (kingSq p.board c) hc hk64
  have hT := kingRankOK_true
  simp only [kingRankOK, List.all_eq_true, List.mem_range, Bool.and_eq_true, beq_iff_eq, decide_eq_decide, decide_eq_true_eq] at hT
  have hcm : c ∈ [0, 1] := by
    have : c = 0 ∨ c = 1 := by omega
    rcases this with rfl | rfl <;> simp
  obtain ⟨⟨tR, tRb⟩, tK⟩ := hT c hcm
  have hcm1 : 1 - c ∈ [0, 1] := by
    have : c = 0 ∨ c = 1 := by omega
    rcases this with rfl | rfl <;> simp
  have tRb' := (hT (1 - c) hcm1).1.2
  have mR := mirB_sound tR
  have mkm := (leaper_mirror _ hk64).2
  have mkmo := (leaper_mirror _ hko64).2
  obtain ⟨_, _, msq⟩ := pseudo_mirror _ hk64
  have matt : MirrorBB (attackedSquares (BBs.of p) p.board (1 - c)) (attackedSquares (BBs.of q) q.board c) := by
    have := attackedSquares_mirror m (1 - c) hc1 kk (by rw [e]; exact hkk)
    rw [e] at this; exact this
  have mmoves := mkm.and matt.bnot
  have marea := (mkm.or msq).and mR
  have mblocked := (((m.color c hc).or hp.attPiece).or hp.attPawn).or mkmo
  have mocc := hall.and ho.kingBlockers.bnot
  have ab := (sliderAttack_mirror _ hk64 _ _ mocc).1
  have ar := (sliderAttack_mirror _ hk64 _ _ mocc).2.1
  have barea : (kingMask (kingSq p.board c) ||| sqBB (kingSq p.board c)) &&& rankBB (if c = 0 then 1 else 6) < 2 ^ 64 := Nat.and_lt_two_pow _ tRb
  have barea' : (kingMask (flipV (kingSq p.board c)) ||| sqBB (flipV (kingSq p.board c))) &&& rankBB (if 1 - c = 0 then 1 else 6) < 2 ^ 64 :=
    Nat.and_lt_two_pow _ tRb'
  have zeq := MirrorBB.eq_iff (and_lt barea) barea (and_lt barea') barea' (marea.and mblocked) marea
  have zrq := ((mko ROOK (by decide) (by decide)).or (mko QUEEN (by decide) (by decide))).eq_zero_iff
    (Nat.or_lt_two_pow (blo ROOK (by decide)) (blo QUEEN (by decide))) (Nat.or_lt_two_pow (blo' ROOK (by decide)) (blo' QUEEN (by decide)))
  have zq := (mko QUEEN (by decide) (by decide)).eq_zero_iff (blo QUEEN (by decide)) (blo' QUEEN (by decide))
  have zr := (mko ROOK (by decide) (by decide)).eq_zero_iff (blo ROOK (by decide)) (blo' ROOK (by decide))
  have zb := ((mko BISHOP (by decide) (by decide)).and K.colour).eq_zero_iff (and_lt (blo BISHOP (by decide))) (and_lt (blo' BISHOP (by decide)))
  have hsafe := C13_king_safety_mirror p q m.hq m.len m.codes hr c kk hc hkk
  unfold scoreKing
  simp only [e, hks, hkso]
  rw [hsafe, pc_mirror mmoves, pc_mirror ab, pc_mirror ar,
    optSc_congr (and_congr (and_congr (tK _ hk64) (not_congr zrq)) zeq),
    optSc_congr (or_congr (not_congr zq) (not_congr zb)),
    optSc_congr (or_congr (not_congr zq) (not_congr zr))]

end Chess
