/-
  Lemmas/Trace.lean — invariants of the search-trace automaton (Model/SearchTrace.lean), by cases on the event.
-/
import ChessVerif.Model.SearchTrace
namespace Chess

def FrameOK (R : List Nat) (f : Frame) : Prop :=
  f.ply = 0 → (∀ l, f.moves = some l → ∀ m, m ∈ l → m ∈ R) ∧ (∀ m, f.current = some m → m ∈ R) ∧ (∀ m, f.lastSearched = some m → m ∈ R)

structure TInv (R : List Nat) (s : AState) : Prop where
  root : s.rootMoves = R
  frames : ∀ f, f ∈ s.frames → FrameOK R f
  pv0 : ∀ m, (s.pv.getD 0 []).head? = some m → m ∈ R
  best : ∀ m, s.best = some m → m ∈ R ∨ R = []
  bm : ∀ m, m ∈ s.bestMoves → s.best = some m

theorem sameMembers_sub (a b : List Nat) (h : sameMembers a b = true) : ∀ m, m ∈ a → m ∈ b := by
  intro m hm
  simp only [sameMembers, Bool.and_eq_true, List.all_eq_true, decide_eq_true_eq] at h
  have := h.1.2 m hm
  simpa using this

theorem frameOK_new (R : List Nat) (p : Nat) : FrameOK R { ply := p } := by
  intro _; simp

theorem pv_set_other (pv : List (List Nat)) (ply : Nat) (l : List Nat) (h : ply ≠ 0) : (pv.set ply l).getD 0 [] = pv.getD 0 [] := by
  cases pv with
  | nil => simp
  | cons a as =>
    cases ply with
    | zero => exact absurd rfl h
    | succ n => simp [List.set]

theorem head_set_zero (pv : List (List Nat)) (x : List Nat) (m : Nat) (h : ((pv.set 0 x).getD 0 []).head? = some m) : x.head? = some m := by
  cases pv with
  | nil => simp at h
  | cons a as => simpa [List.set] using h

theorem frames_head (R : List Nat) (f f' : Frame) (rest : List Frame) (h : ∀ g, g ∈ f :: rest → FrameOK R g)
    (hf : FrameOK R f → FrameOK R f') : ∀ g, g ∈ f' :: rest → FrameOK R g := by
  intro g hg
  simp at hg
  rcases hg with rfl | hg
  · exact hf (h f (by simp))
  · exact h g (by simp [hg])

theorem frameOK_same (R : List Nat) (f f' : Frame) (h1 : f'.moves = f.moves) (h2 : f'.current = f.current)
    (h3 : f'.lastSearched = f.lastSearched ∨ f'.lastSearched = none) (hp : f'.ply = f.ply) (h : FrameOK R f) : FrameOK R f' := by
  intro h0
  obtain ⟨a, b, c⟩ := h (by rw [← hp]; exact h0)
  refine ⟨by rw [h1]; exact a, by rw [h2]; exact b, ?_⟩
  rcases h3 with h3 | h3
  · rw [h3]; exact c
  · rw [h3]; intro m hm; cases hm

theorem step_inv (R : List Nat) (s s' : AState) (e : Ev) (h : stepEv s e = .ok s') (hi : TInv R s) : TInv R s' := by
  cases e with
  | enter ply d q =>
    simp only [stepEv] at h
    cases hfr : s.frames with
    | nil =>
      rw [hfr] at h; simp only [] at h
      split at h <;> try (cases h)
      refine ⟨hi.root, ?_, hi.pv0, hi.best, hi.bm⟩
      intro f hf; simp at hf; subst hf; exact frameOK_new R 0
    | cons f rest =>
      rw [hfr] at h; simp only [] at h
      have hfs : ∀ g, g ∈ f :: rest → FrameOK R g := by intro g hg; exact hi.frames g (by rw [hfr]; exact hg)
      split at h
      · cases h
        refine ⟨hi.root, ?_, hi.pv0, hi.best, hi.bm⟩
        intro g hg
        simp at hg
        rcases hg with rfl | hg
        · intro _; simp
        · exact hfs g (by simpa using hg)
      · split at h
        · split at h <;> try (cases h)
          refine ⟨hi.root, ?_, hi.pv0, hi.best, hi.bm⟩
          intro g hg
          simp at hg
          rcases hg with rfl | hg
          · intro _; simp
          · exact frames_head R f { f with lastSearched := none, childDone := false } rest hfs
              (frameOK_same R f _ rfl rfl (Or.inr rfl) rfl) g (by simp; exact hg)
        · cases h
  | exit ply v =>
    simp only [stepEv] at h
    cases hfr : s.frames with
    | nil => rw [hfr] at h; cases h
    | cons f rest =>
      rw [hfr] at h; simp only [] at h
      have hfs : ∀ g, g ∈ f :: rest → FrameOK R g := by intro g hg; exact hi.frames g (by rw [hfr]; exact hg)
      split at h <;> try (cases h)
      split at h <;> try (cases h)
      split at h <;> try (cases h)
      refine ⟨hi.root, ?_, hi.pv0, hi.best, hi.bm⟩
      cases rest with
      | nil => intro g hg; simp at hg
      | cons g0 rest' =>
        exact frames_head R g0 _ rest' (fun g hg => hfs g (List.mem_cons_of_mem _ hg))
          (frameOK_same R g0 (afterChild g0 f.ply) rfl rfl (Or.inl rfl) rfl)
  | moves ply l =>
    simp only [stepEv] at h
    cases hfr : s.frames with
    | nil => rw [hfr] at h; cases h
    | cons f rest =>
      rw [hfr] at h; simp only [] at h
      have hfs : ∀ g, g ∈ f :: rest → FrameOK R g := by intro g hg; exact hi.frames g (by rw [hfr]; exact hg)
      by_cases hply : f.ply ≠ ply
      · rw [if_pos hply] at h; cases h
      rw [if_neg hply] at h
      split at h <;> try (cases h)
      by_cases hsm : (sameMembers l (if ply = 0 then s.rootMoves else genMoves s.pos) && l.all ((genMoves s.pos).contains ·)) = true
      · rw [if_pos hsm] at h
        cases h
        refine ⟨hi.root, ?_, hi.pv0, hi.best, hi.bm⟩
        apply frames_head R f _ rest hfs
        intro hf h0
        have h0' : f.ply = 0 := h0
        have hp0 : ply = 0 := by omega
        obtain ⟨_, h2, h3⟩ := hf h0'
        refine ⟨?_, h2, h3⟩
        intro l' hl' m hm
        simp at hl'
        subst hl'
        simp only [Bool.and_eq_true] at hsm
        have := sameMembers_sub _ _ hsm.1 m hm
        simp [hp0, hi.root] at this
        exact this
      · rw [if_neg hsm] at h; cases h
  | doMv ply m =>
    simp only [stepEv] at h
    cases hfr : s.frames with
    | nil => rw [hfr] at h; cases h
    | cons f rest =>
      rw [hfr] at h; simp only [] at h
      have hfs : ∀ g, g ∈ f :: rest → FrameOK R g := by intro g hg; exact hi.frames g (by rw [hfr]; exact hg)
      split at h <;> try (cases h)
      split at h <;> try (cases h)
      cases hmv : f.moves with
      | none => rw [hmv] at h; cases h
      | some l =>
        rw [hmv] at h; simp only [] at h
        split at h <;> try (cases h)
        rename_i hc
        refine ⟨hi.root, ?_, hi.pv0, hi.best, hi.bm⟩
        apply frames_head R f _ rest hfs
        intro hf h0
        obtain ⟨h1, _, h3⟩ := hf h0
        refine ⟨by intro l' hl'; simp at hl'; subst hl'; exact h1 l hmv, ?_, h3⟩
        intro m' hm'
        simp at hm'
        subst hm'
        exact h1 l hmv m (by simpa using hc)
  | undoMv ply m =>
    simp only [stepEv] at h
    cases hfr : s.frames with
    | nil => rw [hfr] at h; cases h
    | cons f rest =>
      rw [hfr] at h; simp only [] at h
      have hfs : ∀ g, g ∈ f :: rest → FrameOK R g := by intro g hg; exact hi.frames g (by rw [hfr]; exact hg)
      split at h <;> try (cases h)
      by_cases hcur : f.current ≠ some m ∨ f.nullDone
      · rw [if_pos hcur] at h; cases h
      rw [if_neg hcur] at h
      cases h
      have hc : f.current = some m := Decidable.not_not.mp (fun hc => hcur (Or.inl hc))
      refine ⟨hi.root, ?_, hi.pv0, hi.best, hi.bm⟩
      apply frames_head R f _ rest hfs
      intro hf h0
      obtain ⟨h1, h2, _⟩ := hf h0
      refine ⟨h1, by intro m' hm'; simp at hm', ?_⟩
      intro m' hm'
      simp at hm'
      subst hm'
      exact h2 m hc
  | nullDo ply =>
    simp only [stepEv] at h
    cases hfr : s.frames with
    | nil => rw [hfr] at h; cases h
    | cons f rest =>
      rw [hfr] at h; simp only [] at h
      have hfs : ∀ g, g ∈ f :: rest → FrameOK R g := by intro g hg; exact hi.frames g (by rw [hfr]; exact hg)
      split at h <;> try (cases h)
      refine ⟨hi.root, ?_, hi.pv0, hi.best, hi.bm⟩
      exact frames_head R f _ rest hfs (frameOK_same R f _ rfl rfl (Or.inl rfl) rfl)
  | nullUndo ply =>
    simp only [stepEv] at h
    cases hfr : s.frames with
    | nil => rw [hfr] at h; cases h
    | cons f rest =>
      rw [hfr] at h; simp only [] at h
      have hfs : ∀ g, g ∈ f :: rest → FrameOK R g := by intro g hg; exact hi.frames g (by rw [hfr]; exact hg)
      split at h <;> try (cases h)
      refine ⟨hi.root, ?_, hi.pv0, hi.best, hi.bm⟩
      exact frames_head R f _ rest hfs (frameOK_same R f _ rfl rfl (Or.inl rfl) rfl)
  | pvClear ply =>
    simp only [stepEv] at h
    cases hfr : s.frames with
    | nil => rw [hfr] at h; cases h
    | cons f rest =>
      rw [hfr] at h; simp only [] at h
      have hfs : ∀ g, g ∈ f :: rest → FrameOK R g := by intro g hg; exact hi.frames g (by rw [hfr]; exact hg)
      split at h <;> try (cases h)
      refine ⟨hi.root, ?_, ?_, hi.best, hi.bm⟩
      · exact frames_head R f _ rest hfs (frameOK_same R f _ rfl rfl (Or.inl rfl) rfl)
      · intro m hm
        by_cases hp : ply = 0
        · subst hp
          have := head_set_zero s.pv [] m hm
          simp at this
        · rw [pv_set_other _ _ _ hp] at hm; exact hi.pv0 m hm
  | pvSet ply m =>
    simp only [stepEv] at h
    cases hfr : s.frames with
    | nil => rw [hfr] at h; cases h
    | cons f rest =>
      rw [hfr] at h; simp only [] at h
      have hfs : ∀ g, g ∈ f :: rest → FrameOK R g := by intro g hg; exact hi.frames g (by rw [hfr]; exact hg)
      by_cases hply : f.ply ≠ ply
      · rw [if_pos hply] at h; cases h
      rw [if_neg hply] at h
      split at h <;> try (cases h)
      cases hmv : f.moves with
      | none => rw [hmv] at h; cases h
      | some l =>
        rw [hmv] at h; simp only [] at h
        split at h <;> try (cases h)
        rename_i hc
        refine ⟨hi.root, hfs, ?_, hi.best, hi.bm⟩
        intro m' hm'
        by_cases hp : ply = 0
        · subst hp
          have := head_set_zero s.pv [m] m' hm'
          simp at this
          subst this
          have h0 : f.ply = 0 := by omega
          exact (hfs f (by simp) h0).1 l hmv m (by simpa using hc)
        · rw [pv_set_other _ _ _ hp] at hm'; exact hi.pv0 m' hm'
  | pvAdd ply m =>
    simp only [stepEv] at h
    cases hfr : s.frames with
    | nil => rw [hfr] at h; cases h
    | cons f rest =>
      rw [hfr] at h; simp only [] at h
      have hfs : ∀ g, g ∈ f :: rest → FrameOK R g := by intro g hg; exact hi.frames g (by rw [hfr]; exact hg)
      by_cases hply : f.ply ≠ ply
      · rw [if_pos hply] at h; cases h
      rw [if_neg hply] at h
      by_cases hls : f.lastSearched ≠ some m ∨ f.current.isSome
      · rw [if_pos hls] at h; cases h
      rw [if_neg hls] at h
      split at h <;> try (cases h)
      split at h <;> try (cases h)
      refine ⟨hi.root, hfs, ?_, hi.best, hi.bm⟩
      intro m' hm'
      by_cases hp : ply = 0
      · subst hp
        have := head_set_zero s.pv (m :: s.pv.getD (0 + 1) []) m' hm'
        simp at this
        subst this
        have h0 : f.ply = 0 := by omega
        have hl : f.lastSearched = some m := Decidable.not_not.mp (fun hc => hls (Or.inl hc))
        exact (hfs f (by simp) h0).2.2 m hl
      · rw [pv_set_other _ _ _ hp] at hm'; exact hi.pv0 m' hm'
  | ttCut ply m flag =>
    simp only [stepEv] at h
    split at h
    · split at h <;> try (cases h)
      split at h <;> try (cases h)
      split at h <;> try (cases h)
      exact hi
    · cases h
  | iterStart d =>
    simp only [stepEv] at h
    split at h <;> try (cases h)
    split at h <;> try (cases h)
    exact ⟨hi.root, hi.frames, hi.pv0, hi.best, hi.bm⟩
  | iterDone d v =>
    simp only [stepEv] at h
    split at h <;> try (cases h)
    split at h <;> try (cases h)
    split at h <;> try (cases h)
    split at h <;> try (cases h)
    exact ⟨hi.root, hi.frames, hi.pv0, hi.best, hi.bm⟩
  | bestSet m =>
    simp only [stepEv] at h
    split at h <;> try (cases h)
    rename_i hbm
    have hbm' : s.bestMoves = [] := by simpa using hbm
    split at h
    · rename_i hj
      cases h
      refine ⟨hi.root, hi.frames, hi.pv0, ?_, ?_⟩
      · intro m' hm'; simp at hm'; subst hm'; exact Or.inl (hi.pv0 m hj.2)
      · intro m' hm'; simp [hbm'] at hm'
    · split at h
      · cases h; exact hi
      · split at h
        · rename_i hr
          cases h
          refine ⟨hi.root, hi.frames, hi.pv0, ?_, ?_⟩
          · intro m' hm'; simp at hm'; subst hm'
            have := hr.2
            rw [hi.root] at this
            exact Or.inl (by simpa using this)
          · intro m' hm'; simp [hbm'] at hm'
        · split at h <;> try (cases h)
          rename_i he
          refine ⟨hi.root, hi.frames, hi.pv0, ?_, ?_⟩
          · intro m' _
            right
            rw [hi.root] at he
            simpa using he
          · intro m' hm'; simp [hbm'] at hm'
  | bestMove m =>
    simp only [stepEv] at h
    split at h <;> try (cases h)
    split at h <;> try (cases h)
    rename_i hbm
    have hbm' : s.bestMoves = [] := by simpa using hbm
    split at h <;> try (cases h)
    rename_i hb
    refine ⟨hi.root, hi.frames, hi.pv0, hi.best, ?_⟩
    intro m' hm'
    simp [hbm'] at hm'
    subst hm'
    exact Decidable.not_not.mp hb
  | stopSeen ply => simp only [stepEv] at h; cases h; exact ⟨hi.root, hi.frames, hi.pv0, hi.best, hi.bm⟩
  | aspiration lo hi' => simp only [stepEv] at h; cases h; exact hi
  | stopDelivered => simp only [stepEv] at h; cases h; exact ⟨hi.root, hi.frames, hi.pv0, hi.best, hi.bm⟩

theorem run_inv (R : List Nat) (t : List Ev) (s s' : AState) (i : Nat) (h : runTrace s t i = .ok s') (hi : TInv R s) : TInv R s' := by
  induction t generalizing s i with
  | nil => simp [runTrace] at h; cases h; exact hi
  | cons e es ih =>
    simp only [runTrace] at h
    split at h
    · rename_i s1 hs1
      exact ih s1 (i + 1) h (step_inv R s s1 e hs1 hi)
    · cases h

theorem init_inv (root : Position) (R : List Nat) : TInv R (initState root R) := by
  refine ⟨rfl, ?_, ?_, ?_, ?_⟩
  · intro f hf; simp [initState] at hf
  · intro m hm; simp [initState] at hm
  · intro m hm; simp [initState] at hm
  · intro m hm; simp [initState] at hm

-- iteration bookkeeping ---------------------------------------------------------------------------------
def desc : Nat → List Nat
  | 0 => []
  | n+1 => (n+1) :: desc n

structure IterInv (s : AState) : Prop where
  started : s.iterStarted = desc s.iterStarted.length
  done : ∀ d, d ∈ s.iterDone → d ∈ s.iterStarted

theorem desc_head (n : Nat) : (desc n).headD 0 = n := by cases n <;> simp [desc]

theorem step_iter (s s' : AState) (e : Ev) (h : stepEv s e = .ok s') (hi : IterInv s) : IterInv s' := by
  cases e with
  | iterStart d =>
    simp only [stepEv] at h
    split at h <;> try (cases h)
    split at h <;> try (cases h)
    rename_i hd
    have hd' : d = s.iterStarted.headD 0 + 1 := Decidable.not_not.mp hd
    refine ⟨?_, ?_⟩
    · simp only [List.length_cons]
      rw [hi.started, desc_head] at hd'
      show d :: s.iterStarted = desc (s.iterStarted.length + 1)
      rw [desc, ← hi.started, hd']
    · intro x hx; exact List.mem_cons_of_mem _ (hi.done x hx)
  | iterDone d v =>
    simp only [stepEv] at h
    split at h <;> try (cases h)
    split at h <;> try (cases h)
    split at h <;> try (cases h)
    rename_i hrun
    split at h <;> try (cases h)
    refine ⟨hi.started, ?_⟩
    intro x hx
    simp at hx
    rcases hx with rfl | hx
    · have hrun' : s.iterStarted.head? = some x := Decidable.not_not.mp hrun
      cases hs : s.iterStarted with
      | nil => rw [hs] at hrun'; simp at hrun'
      | cons a as => rw [hs] at hrun'; simp at hrun'; rw [← hrun']; simp
    · exact hi.done x hx
  | enter _ _ _ => simp only [stepEv] at h; (repeat' (split at h)) <;> (try cases h) <;> exact ⟨hi.started, hi.done⟩
  | exit _ _ => simp only [stepEv] at h; (repeat' (split at h)) <;> (try cases h) <;> exact ⟨hi.started, hi.done⟩
  | moves _ _ => simp only [stepEv] at h; (repeat' (split at h)) <;> (try cases h) <;> exact ⟨hi.started, hi.done⟩
  | doMv _ _ => simp only [stepEv] at h; (repeat' (split at h)) <;> (try cases h) <;> exact ⟨hi.started, hi.done⟩
  | undoMv _ _ => simp only [stepEv] at h; (repeat' (split at h)) <;> (try cases h) <;> exact ⟨hi.started, hi.done⟩
  | nullDo _ => simp only [stepEv] at h; (repeat' (split at h)) <;> (try cases h) <;> exact ⟨hi.started, hi.done⟩
  | nullUndo _ => simp only [stepEv] at h; (repeat' (split at h)) <;> (try cases h) <;> exact ⟨hi.started, hi.done⟩
  | pvClear _ => simp only [stepEv] at h; (repeat' (split at h)) <;> (try cases h) <;> exact ⟨hi.started, hi.done⟩
  | pvSet _ _ => simp only [stepEv] at h; (repeat' (split at h)) <;> (try cases h) <;> exact ⟨hi.started, hi.done⟩
  | pvAdd _ _ => simp only [stepEv] at h; (repeat' (split at h)) <;> (try cases h) <;> exact ⟨hi.started, hi.done⟩
  | ttCut _ _ _ => simp only [stepEv] at h; (repeat' (split at h)) <;> (try cases h) <;> exact ⟨hi.started, hi.done⟩
  | bestSet _ => simp only [stepEv] at h; (repeat' (split at h)) <;> (try cases h) <;> exact ⟨hi.started, hi.done⟩
  | bestMove _ => simp only [stepEv] at h; (repeat' (split at h)) <;> (try cases h) <;> exact ⟨hi.started, hi.done⟩
  | stopSeen _ => simp only [stepEv] at h; cases h; exact ⟨hi.started, hi.done⟩
  | aspiration _ _ => simp only [stepEv] at h; cases h; exact hi
  | stopDelivered => simp only [stepEv] at h; cases h; exact ⟨hi.started, hi.done⟩

theorem run_iter (t : List Ev) (s s' : AState) (i : Nat) (h : runTrace s t i = .ok s') (hi : IterInv s) : IterInv s' := by
  induction t generalizing s i with
  | nil => simp [runTrace] at h; cases h; exact hi
  | cons e es ih =>
    simp only [runTrace] at h
    split at h
    · rename_i s1 hs1
      exact ih s1 (i + 1) h (step_iter s s1 e hs1 hi)
    · cases h

theorem init_iter (root : Position) (R : List Nat) : IterInv (initState root R) :=
  ⟨by simp [initState, desc], by intro d hd; simp [initState] at hd⟩

end Chess
