/-
  Lemmas/LegalFacts.lean — facts about the rules' move lists on well-formed positions that the theorems about single moves take
  as side conditions: promotions are to N/B/R/Q, a pseudo-legal move onto an enemy piece attacks it (so no move captures the king,
  the opponent not being in check), and the kings are not adjacent after a legal move.
-/
import ChessVerif.Lemmas.GivesCheckSpec
import ChessVerif.Lemmas.LegalShape
import ChessVerif.Lemmas.WfHyp
import ChessVerif.Lemmas.KingLift
namespace Chess

/-- the generator's case split: a pseudo-move is a castling move or comes from the rule of the own piece standing on `sq` -/
theorem pseudo_cases (s : Spec.SPos) (m : Spec.SMove) (hm : m ∈ Spec.pseudoMoves s) :
    m ∈ Spec.castleMoves s ∨ ∃ sq, sq < 64 ∧ Spec.isOwn (Spec.pcAt s.board sq) s.side = true ∧
      ((kindOf (gd s.board sq) = 1 ∧ m ∈ Spec.pawnMoves s sq) ∨
       (kindOf (gd s.board sq) = 2 ∧ m ∈ Spec.stepMoves s sq Spec.knightOffs) ∨
       (kindOf (gd s.board sq) = 3 ∧ m ∈ Spec.slideMoves s sq Spec.diagDirs) ∨
       (kindOf (gd s.board sq) = 4 ∧ m ∈ Spec.slideMoves s sq Spec.orthoDirs) ∨
       (kindOf (gd s.board sq) = 5 ∧ m ∈ Spec.slideMoves s sq (Spec.diagDirs ++ Spec.orthoDirs)) ∨
       (kindOf (gd s.board sq) = 6 ∧ m ∈ Spec.stepMoves s sq Spec.kingOffs)) := by
  unfold Spec.pseudoMoves at hm
  simp only [List.mem_append, List.mem_flatMap, List.mem_range] at hm
  rcases hm with ⟨sq, hsq, hmm⟩ | hc
  · right
    by_cases hown : Spec.isOwn (Spec.pcAt s.board sq) s.side = true
    · rw [if_pos hown] at hmm
      have hkk : Spec.kindOfPc (Spec.pcAt s.board sq) = kindOf (gd s.board sq) := rfl
      rw [hkk] at hmm
      have hk6 : kindOf (gd s.board sq) ≤ 6 := kindOf_le6 _
      have hcases : kindOf (gd s.board sq) = 0 ∨ kindOf (gd s.board sq) = 1 ∨ kindOf (gd s.board sq) = 2 ∨ kindOf (gd s.board sq) = 3 ∨
          kindOf (gd s.board sq) = 4 ∨ kindOf (gd s.board sq) = 5 ∨ kindOf (gd s.board sq) = 6 := by omega
      refine ⟨sq, hsq, hown, ?_⟩
      rcases hcases with h | h | h | h | h | h | h <;> rw [h] at hmm <;> simp only [] at hmm
      · simp at hmm
      · exact Or.inl ⟨h, hmm⟩
      · exact Or.inr (Or.inl ⟨h, hmm⟩)
      · exact Or.inr (Or.inr (Or.inl ⟨h, hmm⟩))
      · exact Or.inr (Or.inr (Or.inr (Or.inl ⟨h, hmm⟩)))
      · exact Or.inr (Or.inr (Or.inr (Or.inr (Or.inl ⟨h, hmm⟩))))
      · exact Or.inr (Or.inr (Or.inr (Or.inr (Or.inr ⟨h, hmm⟩))))
    · rw [if_neg hown] at hmm; simp at hmm
  · exact Or.inl hc

/-- promotions in the rules' list are to a knight, bishop, rook or queen -/
theorem promo_of_pseudo (s : Spec.SPos) (m : Spec.SMove) (hm : m ∈ Spec.pseudoMoves s) : m.promo ≤ 5 ∧ m.promo ≠ 1 := by
  rcases pseudo_cases s m hm with hc | ⟨sq, _, _, h | h | h | h | h | h⟩
  · obtain ⟨_, hc⟩ := mem_castleMoves s m hc
    rcases hc with ⟨rfl, _⟩ | ⟨rfl, _⟩ <;> simp
  · obtain ⟨_, hp⟩ := mem_pawnMoves s sq m h.2
    cases hp with
    | push1 _ _ _ hpr => rcases hpr with ⟨_, h | h | h | h⟩ | ⟨_, h⟩ <;> omega
    | push2 _ _ _ hpr => omega
    | capture cf _ _ _ _ hpr => rcases hpr with ⟨_, h | h | h | h⟩ | ⟨_, h⟩ <;> omega
    | ep cf _ _ _ _ _ _ hpr => omega
  · obtain ⟨d, _, _, rfl, _⟩ := mem_stepMoves s sq _ m h.2; simp
  · obtain ⟨d, _, t, _, rfl⟩ := mem_slideMoves s sq _ m h.2; simp
  · obtain ⟨d, _, t, _, rfl⟩ := mem_slideMoves s sq _ m h.2; simp
  · obtain ⟨d, _, t, _, rfl⟩ := mem_slideMoves s sq _ m h.2; simp
  · obtain ⟨d, _, _, rfl, _⟩ := mem_stepMoves s sq _ m h.2; simp

-- sliders: the squares passed are empty -----------------------------------------------------------------------------------
theorem step_cast (f : Int) (j : Nat) (x : Int) : f + ((j + 1 : Nat) : Int) * x = f + x + (j : Int) * x := by
  rw [Int.natCast_succ, Int.add_mul]; omega

theorem mem_slide_path (b : List Nat) (c : Nat) (d : Int × Int) (n : Nat) (f r : Int) (t : Nat) (h : t ∈ Spec.slide b c d n f r) :
    ∃ j : Nat, 1 ≤ j ∧ j ≤ n ∧ Spec.onBoard (f + j * d.1) (r + j * d.2) = true ∧ t = Spec.sqOf (f + j * d.1) (r + j * d.2) ∧
      ∀ i : Nat, 1 ≤ i → i < j → Spec.onBoard (f + i * d.1) (r + i * d.2) = true ∧ Spec.pcAt b (Spec.sqOf (f + i * d.1) (r + i * d.2)) = 0 := by
  induction n generalizing f r with
  | zero => simp [Spec.slide] at h
  | succ n ih =>
    unfold Spec.slide at h
    simp only [] at h
    by_cases hon : Spec.onBoard (f + d.1) (r + d.2) = true
    · rw [if_pos hon] at h
      by_cases hz : Spec.pcAt b (Spec.sqOf (f + d.1) (r + d.2)) = 0
      · rw [if_pos hz] at h
        simp only [List.mem_cons] at h
        rcases h with rfl | h
        · exact ⟨1, by omega, by omega, by simpa using hon, by simp, by intro i h1 h2; omega⟩
        · obtain ⟨j, j1, j2, j3, j4, j5⟩ := ih _ _ h
          refine ⟨j + 1, by omega, by omega, ?_, ?_, ?_⟩
          · rw [step_cast, step_cast]; exact j3
          · rw [step_cast, step_cast]; exact j4
          · intro i i1 i2
            by_cases hi : i = 1
            · subst hi; simpa using ⟨hon, hz⟩
            · obtain ⟨i', rfl⟩ : ∃ i', i = i' + 1 := ⟨i - 1, by omega⟩
              rw [step_cast, step_cast]
              exact j5 i' (by omega) (by omega)
      · rw [if_neg hz] at h
        by_cases he : Spec.isEnemy (Spec.pcAt b (Spec.sqOf (f + d.1) (r + d.2))) c = true
        · rw [if_pos he] at h
          simp only [List.mem_singleton] at h
          subst h
          exact ⟨1, by omega, by omega, by simpa using hon, by simp, by intro i h1 h2; omega⟩
        · rw [if_neg he] at h; simp at h
    · rw [if_neg hon] at h; simp at h

/-- walking over empty squares, the first piece met is the first non-empty square -/
theorem firstPiece_path (b : List Nat) (d : Int × Int) (j n : Nat) (f r : Int) (h1 : 1 ≤ j) (hn : j ≤ n)
    (hon : Spec.onBoard (f + j * d.1) (r + j * d.2) = true) (hpc : Spec.pcAt b (Spec.sqOf (f + j * d.1) (r + j * d.2)) ≠ 0)
    (hpath : ∀ i : Nat, 1 ≤ i → i < j → Spec.onBoard (f + i * d.1) (r + i * d.2) = true ∧ Spec.pcAt b (Spec.sqOf (f + i * d.1) (r + i * d.2)) = 0) :
    Spec.firstPiece b d n f r = some (Spec.pcAt b (Spec.sqOf (f + j * d.1) (r + j * d.2)), Spec.sqOf (f + j * d.1) (r + j * d.2)) := by
  induction j generalizing n f r with
  | zero => omega
  | succ j ih =>
    obtain ⟨n', rfl⟩ : ∃ n', n = n' + 1 := ⟨n - 1, by omega⟩
    rw [firstPiece_succ]
    by_cases hj : j = 0
    · subst hj
      have e1 : f + ((0 + 1 : Nat) : Int) * d.1 = f + d.1 := by simp
      have e2 : r + ((0 + 1 : Nat) : Int) * d.2 = r + d.2 := by simp
      rw [e1, e2] at hon hpc ⊢
      rw [if_pos hon, if_pos hpc]
    · have hp1 := hpath 1 (by omega) (by omega)
      have e1 : f + ((1 : Nat) : Int) * d.1 = f + d.1 := by simp
      have e2 : r + ((1 : Nat) : Int) * d.2 = r + d.2 := by simp
      rw [e1, e2] at hp1
      rw [if_pos hp1.1, if_neg (by rw [hp1.2]; simp)]
      rw [step_cast, step_cast] at hon hpc ⊢
      apply ih n' _ _ (by omega) (by omega) hon hpc
      intro i i1 i2
      have := hpath (i + 1) (by omega) (by omega)
      rw [step_cast, step_cast] at this
      exact this

end Chess

namespace Chess

theorem sqOf_self (sq : Nat) (h : sq < 64) : Spec.onBoard (Spec.fileI sq) (Spec.rankI sq) = true ∧ Spec.sqOf (Spec.fileI sq) (Spec.rankI sq) = sq := by
  rw [onBoard_iff]
  unfold Spec.fileI Spec.rankI Spec.sqOf
  omega

theorem own_code (s : Spec.SPos) (ok : PosOK s) (sq K : Nat) (hown : Spec.isOwn (Spec.pcAt s.board sq) s.side = true)
    (hk : kindOf (gd s.board sq) = K) : Spec.pcAt s.board sq = mkPiece s.side K ∧ K ≠ 0 ∧ Spec.pcAt s.board sq ≠ 0 := by
  obtain ⟨h0, h1⟩ := own_shape _ _ (ok.codes sq) ok.side hown
  have h1' : Spec.pcAt s.board sq = mkPiece s.side (kindOf (gd s.board sq)) := h1
  rw [hk] at h1'
  refine ⟨h1', ?_, h0⟩
  intro hK
  subst hK
  have : kindOf (gd s.board sq) ≠ 0 := by
    have := kindOf_pos (gd s.board sq) h0
    omega
  exact this hk

/-- a step mover (knight, king) attacks every square its rule lets it step to -/
theorem step_attacks (b : List Nat) (sq : Nat) (hsq : sq < 64) (pcK : Nat) (offs : List (Int × Int)) (d : Int × Int)
    (hneg : (-d.1, -d.2) ∈ offs) (hon : Spec.onBoard (Spec.fileI sq + d.1) (Spec.rankI sq + d.2) = true) (hpc : Spec.pcAt b sq = pcK) :
    offs.any (fun d' => Spec.onBoard (Spec.fileI (Spec.sqOf (Spec.fileI sq + d.1) (Spec.rankI sq + d.2)) + d'.1)
        (Spec.rankI (Spec.sqOf (Spec.fileI sq + d.1) (Spec.rankI sq + d.2)) + d'.2) &&
      decide (Spec.pcAt b (Spec.sqOf (Spec.fileI (Spec.sqOf (Spec.fileI sq + d.1) (Spec.rankI sq + d.2)) + d'.1)
        (Spec.rankI (Spec.sqOf (Spec.fileI sq + d.1) (Spec.rankI sq + d.2)) + d'.2)) = pcK)) = true := by
  obtain ⟨r1, r2, _⟩ := rankI_sqOf _ _ hon
  obtain ⟨s1, s2⟩ := sqOf_self sq hsq
  apply List.any_eq_true.2
  refine ⟨(-d.1, -d.2), hneg, ?_⟩
  rw [r1, r2]
  have e1 : Spec.fileI sq + d.1 + (-d.1, -d.2).1 = Spec.fileI sq := by simp only []; omega
  have e2 : Spec.rankI sq + d.2 + (-d.1, -d.2).2 = Spec.rankI sq := by simp only []; omega
  rw [e1, e2, s1, s2, hpc]
  simp

/-- a slider sees back along the ray it moved on: from the target, the first piece in the opposite direction is the slider -/
theorem slide_back (b : List Nat) (c sq : Nat) (hsq : sq < 64) (d : Int × Int) (t : Nat)
    (ht : t ∈ Spec.slide b c d 7 (Spec.fileI sq) (Spec.rankI sq)) (hpc : Spec.pcAt b sq ≠ 0) :
    Spec.firstPiece b (-d.1, -d.2) 7 (Spec.fileI t) (Spec.rankI t) = some (Spec.pcAt b sq, sq) := by
  obtain ⟨j, j1, j2, hon, rfl, hpath⟩ := mem_slide_path _ _ _ _ _ _ _ ht
  obtain ⟨r1, r2, _⟩ := rankI_sqOf _ _ hon
  obtain ⟨s1, s2⟩ := sqOf_self sq hsq
  rw [r1, r2]
  have eF : Spec.fileI sq + ↑j * d.1 + ↑j * (-d.1, -d.2).1 = Spec.fileI sq := by
    simp only []; rw [Int.mul_neg]; omega
  have eR : Spec.rankI sq + ↑j * d.2 + ↑j * (-d.1, -d.2).2 = Spec.rankI sq := by
    simp only []; rw [Int.mul_neg]; omega
  have h := firstPiece_path b (-d.1, -d.2) j 7 (Spec.fileI sq + ↑j * d.1) (Spec.rankI sq + ↑j * d.2) j1 j2
    (by rw [eF, eR]; exact s1) (by rw [eF, eR, s2]; exact hpc)
    (by
      intro i i1 i2
      have hp := hpath (j - i) (by omega) (by omega)
      have e : ((j - i : Nat) : Int) = (j : Int) - (i : Int) := by omega
      rw [e, Int.sub_mul, Int.sub_mul] at hp
      have g1 : Spec.fileI sq + ↑j * d.1 + ↑i * (-d.1, -d.2).1 = Spec.fileI sq + (↑j * d.1 - ↑i * d.1) := by
        simp only []; rw [Int.mul_neg]; omega
      have g2 : Spec.rankI sq + ↑j * d.2 + ↑i * (-d.1, -d.2).2 = Spec.rankI sq + (↑j * d.2 - ↑i * d.2) := by
        simp only []; rw [Int.mul_neg]; omega
      rw [g1, g2]; exact hp)
  rw [eF, eR, s2] at h
  exact h

theorem neg_mem_diag (d : Int × Int) (h : d ∈ Spec.diagDirs) : (-d.1, -d.2) ∈ Spec.diagDirs := by
  simp [Spec.diagDirs] at h ⊢
  rcases h with rfl | rfl | rfl | rfl <;> simp
theorem neg_mem_ortho (d : Int × Int) (h : d ∈ Spec.orthoDirs) : (-d.1, -d.2) ∈ Spec.orthoDirs := by
  simp [Spec.orthoDirs] at h ⊢
  rcases h with rfl | rfl | rfl | rfl <;> simp
theorem neg_mem_knight (d : Int × Int) (h : d ∈ Spec.knightOffs) : (-d.1, -d.2) ∈ Spec.knightOffs := by
  simp [Spec.knightOffs] at h ⊢
  rcases h with rfl | rfl | rfl | rfl | rfl | rfl | rfl | rfl <;> simp
theorem neg_mem_king (d : Int × Int) (h : d ∈ Spec.kingOffs) : (-d.1, -d.2) ∈ Spec.kingOffs := by
  simp [Spec.kingOffs] at h ⊢
  rcases h with rfl | rfl | rfl | rfl | rfl | rfl | rfl | rfl <;> simp

theorem isEnemy_zero (c : Nat) : Spec.isEnemy 0 c = false := by simp [Spec.isEnemy]

theorem diag_term (b : List Nat) (t by_ sq pc : Nat) (d : Int × Int) (hd : d ∈ Spec.diagDirs)
    (h : Spec.firstPiece b (-d.1, -d.2) 7 (Spec.fileI t) (Spec.rankI t) = some (pc, sq))
    (hpc : pc = Spec.mkPc by_ 3 ∨ pc = Spec.mkPc by_ 5) : Spec.attacked b t by_ = true := by
  rw [attacked_parts]
  have : Spec.diagDirs.any (fun d => hits (Spec.firstPiece b d 7 (Spec.fileI t) (Spec.rankI t)) (Spec.mkPc by_ 3) (Spec.mkPc by_ 5)) = true := by
    apply List.any_eq_true.2
    refine ⟨_, neg_mem_diag d hd, ?_⟩
    rw [h]; unfold hits; simp only [Bool.or_eq_true, decide_eq_true_eq]; exact hpc
  rw [this]; simp

theorem ortho_term (b : List Nat) (t by_ sq pc : Nat) (d : Int × Int) (hd : d ∈ Spec.orthoDirs)
    (h : Spec.firstPiece b (-d.1, -d.2) 7 (Spec.fileI t) (Spec.rankI t) = some (pc, sq))
    (hpc : pc = Spec.mkPc by_ 4 ∨ pc = Spec.mkPc by_ 5) : Spec.attacked b t by_ = true := by
  rw [attacked_parts]
  have : Spec.orthoDirs.any (fun d => hits (Spec.firstPiece b d 7 (Spec.fileI t) (Spec.rankI t)) (Spec.mkPc by_ 4) (Spec.mkPc by_ 5)) = true := by
    apply List.any_eq_true.2
    refine ⟨_, neg_mem_ortho d hd, ?_⟩
    rw [h]; unfold hits; simp only [Bool.or_eq_true, decide_eq_true_eq]; exact hpc
  rw [this]; simp

end Chess

namespace Chess

theorem step_term (b : List Nat) (sq : Nat) (hsq : sq < 64) (by_ : Nat) (d : Int × Int)
    (hon : Spec.onBoard (Spec.fileI sq + d.1) (Spec.rankI sq + d.2) = true)
    (h : (d ∈ Spec.knightOffs ∧ Spec.pcAt b sq = Spec.mkPc by_ 2) ∨ (d ∈ Spec.kingOffs ∧ Spec.pcAt b sq = Spec.mkPc by_ 6)) :
    Spec.attacked b (Spec.sqOf (Spec.fileI sq + d.1) (Spec.rankI sq + d.2)) by_ = true := by
  rw [attacked_parts]
  rcases h with ⟨hd, hpc⟩ | ⟨hd, hpc⟩
  · rw [step_attacks b sq hsq _ Spec.knightOffs d (neg_mem_knight d hd) hon hpc]; simp
  · rw [step_attacks b sq hsq _ Spec.kingOffs d (neg_mem_king d hd) hon hpc]; simp

/-- a pawn attacks the two squares it can capture on -/
theorem pawn_term (b : List Nat) (sq : Nat) (hsq : sq < 64) (side : Nat) (hside : side ≤ 1) (cf : Int)
    (hcf : cf = Spec.fileI sq - 1 ∨ cf = Spec.fileI sq + 1) (hon : Spec.onBoard cf (Spec.rankI sq + pawnDr side) = true)
    (hpc : Spec.pcAt b sq = Spec.mkPc side 1) : Spec.attacked b (Spec.sqOf cf (Spec.rankI sq + pawnDr side)) side = true := by
  rw [attacked_parts]
  obtain ⟨r1, r2, _⟩ := rankI_sqOf _ _ hon
  obtain ⟨s1, s2⟩ := sqOf_self sq hsq
  have hpr : (if side = 0 then Spec.rankI (Spec.sqOf cf (Spec.rankI sq + pawnDr side)) - 1
      else Spec.rankI (Spec.sqOf cf (Spec.rankI sq + pawnDr side)) + 1) = Spec.rankI sq := by
    rw [r1]; unfold pawnDr
    by_cases h0 : side = 0
    · rw [if_pos h0, if_pos h0]; omega
    · rw [if_neg h0, if_neg h0]; omega
  rw [hpr, r2]
  have : ([cf - 1, cf + 1].any fun pf => Spec.onBoard pf (Spec.rankI sq) && decide (Spec.pcAt b (Spec.sqOf pf (Spec.rankI sq)) = Spec.mkPc side 1)) = true := by
    simp only [List.any_cons, List.any_nil, Bool.or_false, Bool.or_eq_true]
    rcases hcf with h | h
    · right
      have : cf + 1 = Spec.fileI sq := by omega
      rw [this, s1, s2, hpc]; simp
    · left
      have : cf - 1 = Spec.fileI sq := by omega
      rw [this, s1, s2, hpc]; simp
  rw [this]; simp

/-- a pseudo-legal move onto a square that holds an enemy piece: the moving side attacks that square -/
theorem attacks_of_pseudo (s : Spec.SPos) (hwf : Spec.wf s = true) (m : Spec.SMove) (hm : m ∈ Spec.pseudoMoves s)
    (hen : Spec.isEnemy (Spec.pcAt s.board m.dst) s.side = true) : Spec.attacked s.board m.dst s.side = true := by
  have ok := posOK_of_wf s hwf
  have mk : ∀ K, K ≠ 0 → mkPiece s.side K = Spec.mkPc s.side K := fun K hK => (mkPc_eq' _ K hK).symm
  rcases pseudo_cases s m hm with hc | ⟨sq, hsq, hown, h | h | h | h | h | h⟩
  · obtain ⟨_, hc⟩ := mem_castleMoves s m hc
    rcases hc with ⟨rfl, _, _, e⟩ | ⟨rfl, _, _, e, _⟩ <;> (simp only [] at hen; rw [e, isEnemy_zero] at hen; cases hen)
  · obtain ⟨hpc, _, _⟩ := own_code s ok sq 1 hown h.1
    rw [mk 1 (by decide)] at hpc
    obtain ⟨_, hp⟩ := mem_pawnMoves s sq m h.2
    cases hp with
    | push1 _ _ he _ => rw [he, isEnemy_zero] at hen; cases hen
    | push2 _ _ he _ => rw [he, isEnemy_zero] at hen; cases hen
    | capture cf hcf hon hdst _ _ => rw [hdst]; exact pawn_term s.board sq hsq s.side ok.side cf hcf hon hpc
    | ep cf _ _ _ hne _ _ _ => rw [hne] at hen; cases hen
  · obtain ⟨hpc, _, _⟩ := own_code s ok sq 2 hown h.1
    rw [mk 2 (by decide)] at hpc
    obtain ⟨d, hd, hon, rfl, _⟩ := mem_stepMoves s sq _ m h.2
    exact step_term s.board sq hsq s.side d hon (Or.inl ⟨hd, hpc⟩)
  · obtain ⟨hpc, _, h0⟩ := own_code s ok sq 3 hown h.1
    rw [mk 3 (by decide)] at hpc
    obtain ⟨d, hd, t, ht, rfl⟩ := mem_slideMoves s sq _ m h.2
    exact diag_term s.board t s.side sq _ d hd (slide_back s.board s.side sq hsq d t ht h0) (Or.inl hpc)
  · obtain ⟨hpc, _, h0⟩ := own_code s ok sq 4 hown h.1
    rw [mk 4 (by decide)] at hpc
    obtain ⟨d, hd, t, ht, rfl⟩ := mem_slideMoves s sq _ m h.2
    exact ortho_term s.board t s.side sq _ d hd (slide_back s.board s.side sq hsq d t ht h0) (Or.inl hpc)
  · obtain ⟨hpc, _, h0⟩ := own_code s ok sq 5 hown h.1
    rw [mk 5 (by decide)] at hpc
    obtain ⟨d, hd, t, ht, rfl⟩ := mem_slideMoves s sq _ m h.2
    rcases List.mem_append.1 hd with hd | hd
    · exact diag_term s.board t s.side sq _ d hd (slide_back s.board s.side sq hsq d t ht h0) (Or.inr hpc)
    · exact ortho_term s.board t s.side sq _ d hd (slide_back s.board s.side sq hsq d t ht h0) (Or.inr hpc)
  · obtain ⟨hpc, _, _⟩ := own_code s ok sq 6 hown h.1
    rw [mk 6 (by decide)] at hpc
    obtain ⟨d, hd, hon, rfl, _⟩ := mem_stepMoves s sq _ m h.2
    exact step_term s.board sq hsq s.side d hon (Or.inr ⟨hd, hpc⟩)

/-- no pseudo-legal move lands on the enemy king: the opponent of the side to move is not in check in a well-formed position -/
theorem dst_ne_king (s : Spec.SPos) (hwf : Spec.wf s = true) (m : Spec.SMove) (hm : m ∈ Spec.pseudoMoves s) (kq : Nat)
    (hking : KingAt s.board (1 - s.side) kq) (hsafe : Spec.attacked s.board kq s.side = false) : m.dst ≠ kq := by
  intro e
  have ok := posOK_of_wf s hwf
  have hen : Spec.isEnemy (Spec.pcAt s.board m.dst) s.side = true := by
    rw [e]
    have : Spec.pcAt s.board kq = mkPiece (1 - s.side) KING := hking.here
    rw [this]
    have hs := ok.side
    have : s.side = 0 ∨ s.side = 1 := by omega
    rcases this with h | h <;> rw [h] <;> decide
  have := attacks_of_pseudo s hwf m hm hen
  rw [e, hsafe] at this
  cases this

end Chess

namespace Chess

-- kings after a move --------------------------------------------------------------------------------------------------
theorem kingAt_after (b : List Nat) (f t pc' c k : Nat) (hl : b.length = 64) (hf : f < 64) (ht : t < 64) (hk : KingAt b c k)
    (hkf : k ≠ f) (hkt : k ≠ t) (hpc : pc' ≠ mkPiece c KING) : KingAt (afterBoard b f t pc') c k := by
  refine ⟨hk.lt, ?_, ?_⟩
  · rw [after_at b f t pc' k hl hf ht, if_neg (fun e => hkt e.symm), if_neg (fun e => hkf e.symm)]; exact hk.here
  · intro x hx hh
    rw [after_at b f t pc' x hl hf ht] at hh
    by_cases h1 : t = x
    · rw [if_pos h1] at hh; exact absurd hh hpc
    · rw [if_neg h1] at hh
      by_cases h2 : f = x
      · rw [if_pos h2] at hh
        exact absurd hh.symm (mkPiece_ne_zero c KING (by decide))
      · rw [if_neg h2] at hh; exact hk.only x hx hh

theorem kingAt_moved (b : List Nat) (f t c : Nat) (hl : b.length = 64) (hf : f < 64) (ht : t < 64) (hk : KingAt b c f) :
    KingAt (afterBoard b f t (mkPiece c KING)) c t := by
  refine ⟨ht, ?_, ?_⟩
  · rw [after_at b f t _ t hl hf ht, if_pos rfl]
  · intro x hx hh
    rw [after_at b f t _ x hl hf ht] at hh
    by_cases h1 : t = x
    · exact h1.symm
    · rw [if_neg h1] at hh
      by_cases h2 : f = x
      · rw [if_pos h2] at hh
        exact absurd hh.symm (mkPiece_ne_zero c KING (by decide))
      · rw [if_neg h2] at hh; exact absurd (hk.only x hx hh) (fun e => h2 e.symm)

theorem kingAt_unique (b : List Nat) (c k k' : Nat) (h : KingAt b c k) (h' : KingAt b c k') : k = k' :=
  h'.only k h.lt h.here

/-- the board the rules produce for a move that is neither castling nor an en-passant capture -/
theorem apply_board_ordinary (s : Spec.SPos) (m : Spec.SMove) (hnc : Spec.isCastle s.board m = false) (hnep : Spec.isEpCapture s m = false) :
    (Spec.apply s m).board = afterBoard s.board m.src m.dst (if m.promo ≠ 0 then Spec.mkPc s.side m.promo else gd s.board m.src) := by
  rw [apply_board]
  simp only []
  rw [hnc, hnep]
  simp only [Bool.false_eq_true, if_false]
  rfl

/-- after a legal move that is neither castling nor en passant, the two kings do not stand next to each other -/
theorem kings_apart_after (s : Spec.SPos) (hwf : Spec.wf s = true) (m : Spec.SMove) (hm : m ∈ Spec.legalMoves s)
    (hnc : Spec.isCastle s.board m = false) (hnep : Spec.isEpCapture s m = false) (kq : Nat) (hking : KingAt s.board (1 - s.side) kq)
    (hdst : m.dst ≠ kq) : kingNear (Spec.apply s m).board kq s.side = false := by
  have ok := stepOK_of_legal s hwf m hm
  obtain ⟨hbo, hs, hk, _, _⟩ := wf_board_hyps s hwf
  have hl := hbo.len
  have hsrc := ok.src
  have hdstl := ok.dst
  obtain ⟨ks, hks, _⟩ := hk s.side hs
  obtain ⟨kq', hkq', hnear0⟩ := hk (1 - s.side) (by omega)
  have e := kingAt_unique _ _ _ _ hkq' hking
  subst e
  have hopp : 1 - (1 - s.side) = s.side := by omega
  rw [hopp] at hnear0
  have hown : gd s.board m.src = mkPiece s.side (kindOf (gd s.board m.src)) := ok.own.2
  have hown0 : gd s.board m.src ≠ 0 := ok.own.1
  have hkpos := kindOf_pos _ hown0
  have hk6 := kindOf_le (gd s.board m.src)
  have hsk : m.src ≠ kq' := by
    intro e
    have h1 := hking.here
    rw [← e] at h1
    have h1' : gd s.board m.src = mkPiece (1 - s.side) KING := h1
    rw [hown] at h1'
    have := mkPiece_inj s.side _ (1 - s.side) KING hs (by omega) ⟨hkpos, hk6⟩ (by decide) h1'
    omega
  rw [apply_board_ordinary s m hnc hnep]
  by_cases hK : kindOf (gd s.board m.src) = KING
  · -- the king moves: the new square is not next to the other king, because the move is legal
    have hp0 : m.promo = 0 := by
      by_cases h : m.promo = 0
      · exact h
      · have := (ok.promo.2 h).1
        rw [hK] at this; cases this
    rw [if_neg (by simp [hp0]), hown, hK]
    have hsrcK : KingAt s.board s.side m.src := by
      have h1 : gd s.board m.src = mkPiece s.side KING := by rw [hown, hK]
      have := hks.only m.src hsrc h1
      rw [this]; exact hks
    have hKt := kingAt_moved s.board m.src m.dst s.side hl hsrc hdstl hsrcK
    have hKq := kingAt_after s.board m.src m.dst (mkPiece s.side KING) (1 - s.side) kq' hl hsrc hdstl hking (fun e => hsk e.symm) (fun e => hdst e.symm)
      (by intro h
          have := mkPiece_inj s.side KING (1 - s.side) KING hs (by omega) (by decide) (by decide) h
          omega)
    -- legality: the mover's king is not attacked afterwards, in particular not by the other king
    have hleg : Spec.inCheck (Spec.apply s m).board s.side = false := by
      unfold Spec.legalMoves at hm
      have := (List.mem_filter.1 hm).2
      simpa using this
    rw [apply_board_ordinary s m hnc hnep, if_neg (by simp [hp0]), hown, hK] at hleg
    unfold Spec.inCheck at hleg
    rw [findKing_eq _ _ _ hKt, attacked_parts] at hleg
    simp only [Bool.or_eq_false_iff] at hleg
    have hnear : kingNear (afterBoard s.board m.src m.dst (mkPiece s.side KING)) m.dst (1 - s.side) = false := hleg.1.1.2
    rw [kingNear_iff_mask _ m.dst (1 - s.side) kq' hdstl hKq] at hnear
    rw [kingNear_iff_mask _ kq' s.side m.dst hking.lt hKt, ← (leaper_sym kq' m.dst hking.lt hdstl).2.1]
    exact hnear
  · -- another piece moves: the own king stays where it was, not next to the other king
    apply Bool.eq_false_iff.2
    intro h
    unfold kingNear at h
    simp only [List.any_eq_true, Bool.and_eq_true, decide_eq_true_eq] at h
    obtain ⟨d, hd, hon, hpc⟩ := h
    have hx := sqOf_lt _ _ hon
    have hm6 : Spec.mkPc s.side 6 = mkPiece s.side KING := mkPc_eq' _ 6 (by decide)
    rw [hm6] at hpc
    have hpc' : (afterBoard s.board m.src m.dst (if m.promo ≠ 0 then Spec.mkPc s.side m.promo else gd s.board m.src)).getD
        (Spec.sqOf (Spec.fileI kq' + d.1) (Spec.rankI kq' + d.2)) 0 = mkPiece s.side KING := hpc
    rw [after_at _ _ _ _ _ hl hsrc hdstl] at hpc'
    have hold : s.board.getD (Spec.sqOf (Spec.fileI kq' + d.1) (Spec.rankI kq' + d.2)) 0 = mkPiece s.side KING := by
      by_cases h1 : m.dst = Spec.sqOf (Spec.fileI kq' + d.1) (Spec.rankI kq' + d.2)
      · rw [if_pos h1] at hpc'
        exfalso
        by_cases hp0 : m.promo = 0
        · rw [if_neg (by simp [hp0]), hown] at hpc'
          have := mkPiece_inj s.side _ s.side KING hs hs ⟨hkpos, hk6⟩ (by decide) hpc'
          exact hK this.2
        · rw [if_pos hp0, mkPc_eq' _ _ hp0] at hpc'
          have hp5 := (promo_of_pseudo s m (by unfold Spec.legalMoves at hm; exact (List.mem_filter.1 hm).1)).1
          have := mkPiece_inj s.side _ s.side KING hs hs ⟨by omega, by omega⟩ (by decide) hpc'
          have : m.promo = 6 := this.2
          omega
      · rw [if_neg h1] at hpc'
        by_cases h2 : m.src = Spec.sqOf (Spec.fileI kq' + d.1) (Spec.rankI kq' + d.2)
        · rw [if_pos h2] at hpc'
          exact absurd hpc'.symm (mkPiece_ne_zero s.side KING (by decide))
        · rw [if_neg h2] at hpc'; exact hpc'
    have : kingNear s.board kq' s.side = true := by
      unfold kingNear
      apply List.any_eq_true.2
      refine ⟨d, hd, ?_⟩
      rw [hon, hm6]
      simp only [Bool.true_and, decide_eq_true_eq]
      exact hold
    rw [hnear0] at this
    cases this

end Chess
