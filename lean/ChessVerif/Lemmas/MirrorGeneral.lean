/-
  Lemmas/MirrorGeneral.lean — `score_pieces_for_side` and the general (non-endgame) branch of the evaluation under the colour mirror.
-/
import ChessVerif.Lemmas.MirrorPieces
namespace Chess
open Chess.Props

theorem scNeg_sub (a b : Sc) : (b - a).mg = -((a - b).mg) ∧ (b - a).eg = -((a - b).eg) := by
  constructor
  · show b.mg - a.mg = -(a.mg - b.mg); omega
  · show b.eg - a.eg = -(a.eg - b.eg); omega

/-- `score_pieces_for_side<side>` -/
theorem scorePieces_mirror {p q : Position} (m : MirrorPos p q) (hr : p.castling < 16) (c : Nat) (hc : c ≤ 1)
    (kk ko : Nat) (hkk : KingAt p.board c kk) (hko : KingAt p.board (1 - c) ko)
    (own own' opp opp' : Setup) (ho : SetupMirror own own') (hp : SetupMirror opp opp') :
    scorePiecesForSide (BBs.of q) q.board (mirrorRights p.castling) (1 - c) own' opp' =
    scorePiecesForSide (BBs.of p) p.board p.castling c own opp := by
  have hc1 : 1 - c ≤ 1 := by omega
  have e : 1 - (1 - c) = c := by omega
  have hqlen : q.board.length = 64 := by rw [m.hq]; exact mirrorBoard_length _
  have mk : ∀ kd, 1 ≤ kd → kd ≤ 6 → MirrorBB ((BBs.of p).ck c kd) ((BBs.of q).ck (1 - c) kd) := fun kd h1 h6 => m.ck c kd hc h1 h6
  have hks : kingSq q.board (1 - c) = flipV (kingSq p.board c) := by rw [m.hq]; exact (C13_king_mirror p.board m.len m.codes c kk hc hkk).2
  have hkso : kingSq q.board c = flipV (kingSq p.board (1 - c)) := by
    have := (C13_king_mirror p.board m.len m.codes (1 - c) ko hc1 hko).2
    rw [e, ← m.hq] at this; exact this
  have hk64 : kingSq p.board c < 64 := by rw [kingSq_eq p.board c kk m.len hkk]; exact hkk.lt
  have hko64 : kingSq p.board (1 - c) < 64 := by rw [kingSq_eq p.board (1 - c) ko m.len hko]; exact hko.lt
  have K := pieceConst c 0 hc (by omega)
  have bB : (BBs.of p).ck c BISHOP < 2 ^ 64 := MirrorPos.ck_lt _ _ hc (by decide) m.len
  have bB' : (BBs.of q).ck (1 - c) BISHOP < 2 ^ 64 := MirrorPos.ck_lt _ _ hc1 (by decide) hqlen
  have zw := ((mk BISHOP (by decide) (by decide)).and K.wb).eq_zero_iff (and_lt bB) (and_lt bB')
  have zb := ((mk BISHOP (by decide) (by decide)).and K.bw).eq_zero_iff (and_lt bB) (and_lt bB')
  unfold scorePiecesForSide
  simp only [e, hks, hkso]
  rw [(mk KNIGHT (by decide) (by decide)).sum_eq _ _
        (fun s hs => knightScore_mirror m c hc kk hkk own own' opp opp' ho hp _ _ s hk64 hko64 ((mem_bitsOf _ s).1 hs).1),
      (mk BISHOP (by decide) (by decide)).sum_eq _ _
        (fun s hs => bishopScore_mirror m c hc kk hkk own own' opp opp' ho hp _ _ s hk64 hko64 ((mem_bitsOf _ s).1 hs).1),
      (mk ROOK (by decide) (by decide)).sum_eq _ _
        (fun s hs => rookScore_mirror m hr c hc kk hkk own own' opp opp' ho hp _ s hk64 ((mem_bitsOf _ s).1 hs).1),
      (mk QUEEN (by decide) (by decide)).sum_eq _ _
        (fun s hs => queenScore_mirror m c hc kk hkk own own' opp opp' ho hp s ((mem_bitsOf _ s).1 hs).1),
      scoreKing_mirror m hr c hc kk ko hkk hko own own' opp opp' ho hp,
      optSc_congr (show ((BBs.of q).ck (1 - c) BISHOP &&& whiteSquares ≠ 0 ∧ (BBs.of q).ck (1 - c) BISHOP &&& blackSquares ≠ 0) ↔
                        ((BBs.of p).ck c BISHOP &&& whiteSquares ≠ 0 ∧ (BBs.of p).ck c BISHOP &&& blackSquares ≠ 0) from
        ⟨fun h => ⟨fun h0 => h.2 (zw.2 h0), fun h0 => h.1 (zb.2 h0)⟩, fun h => ⟨fun h0 => h.2 (zb.1 h0), fun h0 => h.1 (zw.1 h0)⟩⟩)]

/-- the `Setup` record of colour `c` and that of the other colour on the mirrored position are flips of each other, given that the
    outpost sets are -/
theorem setup_mirror {p q : Position} (m : MirrorPos p q) (c : Nat) (hc : c ≤ 1) (kk : Nat) (hkk : KingAt p.board c kk)
    (hout : MirrorBB (getOutposts (BBs.of p) c) (getOutposts (BBs.of q) (1 - c))) :
    SetupMirror (setupSide (BBs.of p) p.board c) (setupSide (BBs.of q) q.board (1 - c)) := by
  have hc1 : 1 - c ≤ 1 := by omega
  have hqlen : q.board.length = 64 := by rw [m.hq]; exact mirrorBoard_length _
  have hks : kingSq q.board (1 - c) = flipV (kingSq p.board c) := by rw [m.hq]; exact (C13_king_mirror p.board m.len m.codes c kk hc hkk).2
  have hk64 : kingSq p.board c < 64 := by rw [kingSq_eq p.board c kk m.len hkk]; exact hkk.lt
  refine ⟨?_, ?_, ?_, ?_⟩
  · show MirrorBB (pawnAttacks c ((BBs.of p).ck c PAWN)) (pawnAttacks (1 - c) ((BBs.of q).ck (1 - c) PAWN))
    exact (m.ck c PAWN hc (by decide) (by decide)).pawnAttacks (MirrorPos.ck_lt _ _ hc (by decide) m.len) (MirrorPos.ck_lt _ _ hc1 (by decide) hqlen) c hc
  · rw [attPiece_eq, attPiece_eq]; exact attPiece_mirror m c hc
  · exact hout
  · show MirrorBB (blockersForSquare (BBs.of p) c (kingSq p.board c)) (blockersForSquare (BBs.of q) (1 - c) (kingSq q.board (1 - c)))
    rw [blockers_eq, blockers_eq, hks]
    exact blockers_mirror m c hc _ hk64

/-- **the general (non-endgame) branch of the evaluation is colour-symmetric**, given the mirror law of the outpost sets:
    `evalWith` of the mirrored position (mirrored board, other side to move, rights swapped) with its own pawn score equals `evalWith`
    of the position with its pawn score -/
theorem evalWith_mirror (p q : Position) (hwf : Spec.wf (Chess.absPos p) = true) (hq : q.board = mirrorBoard p.board)
    (hside : q.side = 1 - p.side) (hcast : q.castling = mirrorRights p.castling)
    (hout : ∀ c, c ≤ 1 → MirrorBB (getOutposts (BBs.of p) c) (getOutposts (BBs.of q) (1 - c))) :
    evalWith q (pawnScore (BBs.of q)) = evalWith p (pawnScore (BBs.of p)) := by
  obtain ⟨hbo, hs1, hkings, hcodes, _⟩ := wf_board_hyps _ hwf
  have hlen : p.board.length = 64 := hbo.len
  have m : MirrorPos p q := ⟨hq, hlen, hcodes⟩
  have hr : p.castling < 16 := (posOK_of_wf _ hwf).cast
  obtain ⟨kw, hkw, _⟩ := hkings 0 (by omega)
  obtain ⟨kb, hkb, _⟩ := hkings 1 (by omega)
  have s0 := setup_mirror m 0 (by omega) kw hkw (hout 0 (by omega))
  have s1 := setup_mirror m 1 (by omega) kb hkb (hout 1 (by omega))
  simp only [show (1 - 0 : Nat) = 1 from rfl, show (1 - 1 : Nat) = 0 from rfl] at s0 s1
  have p0 := scorePieces_mirror m hr 0 (by omega) kw kb hkw hkb _ _ _ _ s0 s1
  have p1 := scorePieces_mirror m hr 1 (by omega) kb kw hkb hkw _ _ _ _ s1 s0
  simp only [show (1 - 0 : Nat) = 1 from rfl, show (1 - 1 : Nat) = 0 from rfl] at p0 p1
  obtain ⟨_, _, hpm, hpe⟩ := C13_pawn_score_mirror p q hwf hq
  have hph : gamePhaseWeight q.board = gamePhaseWeight p.board := by rw [hq]; exact C13_phase_mirror p.board hlen hcodes
  unfold evalWith
  simp only []
  rw [hcast, p0, p1, hph, hside]
  -- the score pair changes sign
  have hneg : (pawnScore (BBs.of q) + (scorePiecesForSide (BBs.of p) p.board p.castling 1 (setupSide (BBs.of p) p.board 1) (setupSide (BBs.of p) p.board 0) -
                scorePiecesForSide (BBs.of p) p.board p.castling 0 (setupSide (BBs.of p) p.board 0) (setupSide (BBs.of p) p.board 1))) =
      (⟨-(pawnScore (BBs.of p) + (scorePiecesForSide (BBs.of p) p.board p.castling 0 (setupSide (BBs.of p) p.board 0) (setupSide (BBs.of p) p.board 1) -
                scorePiecesForSide (BBs.of p) p.board p.castling 1 (setupSide (BBs.of p) p.board 1) (setupSide (BBs.of p) p.board 0))).mg,
        -(pawnScore (BBs.of p) + (scorePiecesForSide (BBs.of p) p.board p.castling 0 (setupSide (BBs.of p) p.board 0) (setupSide (BBs.of p) p.board 1) -
                scorePiecesForSide (BBs.of p) p.board p.castling 1 (setupSide (BBs.of p) p.board 1) (setupSide (BBs.of p) p.board 0))).eg⟩ : Sc) := by
    obtain ⟨a, b⟩ := scNeg_sub (scorePiecesForSide (BBs.of p) p.board p.castling 0 (setupSide (BBs.of p) p.board 0) (setupSide (BBs.of p) p.board 1))
      (scorePiecesForSide (BBs.of p) p.board p.castling 1 (setupSide (BBs.of p) p.board 1) (setupSide (BBs.of p) p.board 0))
    show (⟨(pawnScore (BBs.of q)).mg + _, (pawnScore (BBs.of q)).eg + _⟩ : Sc) = _
    rw [hpm, hpe, a, b]
    congr 1 <;> (show _ = -(_ + _); omega)
  rw [hneg, C13_combine_neg]
  have hs : p.side = 0 ∨ p.side = 1 := by
    have : p.side ≤ 1 := hs1
    omega
  rcases hs with h | h <;> simp [h]

end Chess
