/-
  Lemmas/PinGeo.lean — consequences of the geometry tables of Lemmas/PinGeoTab.lean.
-/
import ChessVerif.Lemmas.PinGeoTab
namespace Chess

theorem pinGeo (k r a : Nat) (hk : k < 64) (hr : r < 8) (ha : a ∈ rayList k r) :
    rayList a r = afterOf (rayList k r) a ∧
    rayList a (oppositeRay r) = (beforeOf (rayList k r) a).reverse ++ k :: rayList k (oppositeRay r) ∧
    (∀ r', r' < 8 → r' ≠ r → r' ≠ oppositeRay r → ∀ t, t ∈ rayList a r' → t ∉ rayList k r) ∧
    (∀ t, t ∈ knightTargets a → t ∉ rayList k r) ∧ k ∉ rayList k r := by
  have h := pinGeoOK_true
  simp only [pinGeoOK, List.all_eq_true, List.mem_range, Bool.and_eq_true, beq_iff_eq, Bool.or_eq_true, Bool.not_eq_true',
    List.contains_eq_mem, decide_eq_false_iff_not] at h
  obtain ⟨⟨⟨⟨⟨h1, h2⟩, h3⟩, h4⟩, _⟩, h6⟩ := h k hk r hr a ha
  refine ⟨h1, h2, ?_, h4, h6⟩
  intro r' hr' n1 n2 t ht
  rcases h3 r' hr' with (e | e) | e
  · exact absurd e n1
  · exact absurd e n2
  · exact e t ht

theorem walk_congr' (L : List Nat) (occ occ' : BB) (h : ∀ x, x ∈ L → occ.testBit x = occ'.testBit x) : Spec.walk L occ = Spec.walk L occ' := by
  induction L with
  | nil => rfl
  | cons x xs ih =>
    unfold Spec.walk
    rw [h x List.mem_cons_self, ih (fun y hy => h y (List.mem_cons_of_mem _ hy))]

/-- `attack_in_ray` is the walk over the ray list, for every occupancy -/
theorem attackInRay_walk (a r : Nat) (ha : a < 64) (hr : r < 8) (occ : BB) : attackInRay a r occ = Spec.walk (rayList a r) occ := by
  have ht := attackInRayOK_true
  simp only [attackInRayOK, List.all_eq_true, List.mem_range] at ht
  have := forallSubsets_sound _ _ 0 (ht a ha r hr) occ
  rw [Nat.zero_or, restrict_bitsOf _ _ (rays_facts a r ha hr).1, beq_iff_eq] at this
  have e1 : attackInRay a r (occ &&& rays r a) = attackInRay a r occ := by
    unfold attackInRay
    simp only []
    have : occ &&& rays r a &&& rays r a = occ &&& rays r a := by rw [Nat.and_assoc, Nat.and_self]
    rw [this]
  have e2 : Spec.walk (rayList a r) (occ &&& rays r a) = Spec.walk (rayList a r) occ := by
    apply walk_congr'
    intro x hx
    rw [Nat.testBit_and, (rayList_mem a r x ha hr hx).2, Bool.and_true]
  rw [← e1, this, e2]

end Chess
