/-
  Lemmas/KnightExact.lean — when the side to move is not in check, the moves the generator emits for a knight that the pin scan does
  not name are exactly the rules' legal moves of that knight.
-/
import ChessVerif.Lemmas.UnpinnedSpec
import ChessVerif.Props.C11
namespace Chess

/-- the generator's target set when not in check (enemy pieces and empty squares) is "not an own piece" -/
theorem target_testBit (p : Position) (ok : BoardOK p.board) (hs : p.side ≤ 1) (t : Nat) (ht : t < 64) :
    ((BBs.of p).color (1 - p.side) ||| bnot (BBs.of p).all).testBit t = !Spec.isOwn (Spec.pcAt p.board t) p.side := by
  rw [Nat.testBit_or, color_testBit p (1 - p.side) t (by omega) ok, bnot_testBit _ _ ht, all_testBit p t ok]
  have hcode := ok.codes t
  show _ = !Spec.isOwn (p.board.getD t 0) p.side
  generalize p.board.getD t 0 = pc at *
  unfold Spec.isOwn Spec.colorOfPc colorOf
  have hs01 : p.side = 0 ∨ p.side = 1 := by omega
  have hx : pc = 0 ∨ pc = 1 ∨ pc = 2 ∨ pc = 3 ∨ pc = 4 ∨ pc = 5 ∨ pc = 6 ∨ pc = 7 ∨ pc = 8 ∨ pc = 9 ∨ pc = 10 ∨ pc = 11 ∨ pc = 12 := by omega
  rcases hs01 with e | e <;> rw [e] <;>
    rcases hx with rfl | rfl | rfl | rfl | rfl | rfl | rfl | rfl | rfl | rfl | rfl | rfl | rfl <;> simp [ht]

theorem knightMask_testBit (s t : Nat) (hs : s < 64) :
    (knightMask s).testBit t = true ↔ ∃ d, d ∈ Spec.knightOffs ∧ Spec.onBoard (Spec.fileI s + d.1) (Spec.rankI s + d.2) = true ∧
      t = Spec.sqOf (Spec.fileI s + d.1) (Spec.rankI s + d.2) := by
  rw [(Props.C11_leapers s hs).1]
  unfold Spec.knightSet
  have h := leaperSet_meets Spec.knightJumps s (sqBB t)
  rw [Nat.and_comm, sqBB_and_ne_zero] at h
  rw [h]
  have e : Spec.knightJumps = Spec.knightOffs := by decide
  rw [e]
  simp only [List.any_eq_true, Bool.and_eq_true, sqBB_testBit, decide_eq_true_eq]

theorem mem_pseudo_of_piece (s : Spec.SPos) (sq : Nat) (hsq : sq < 64) (hown : Spec.isOwn (Spec.pcAt s.board sq) s.side = true)
    (m : Spec.SMove) (K : Nat) (hK : Spec.kindOfPc (Spec.pcAt s.board sq) = K)
    (h : m ∈ (match K with
      | 1 => Spec.pawnMoves s sq
      | 2 => Spec.stepMoves s sq Spec.knightOffs
      | 3 => Spec.slideMoves s sq Spec.diagDirs
      | 4 => Spec.slideMoves s sq Spec.orthoDirs
      | 5 => Spec.slideMoves s sq (Spec.diagDirs ++ Spec.orthoDirs)
      | 6 => Spec.stepMoves s sq Spec.kingOffs
      | _ => [])) : m ∈ Spec.pseudoMoves s := by
  unfold Spec.pseudoMoves
  rw [List.mem_append]
  left
  rw [List.mem_flatMap]
  refine ⟨sq, List.mem_range.2 hsq, ?_⟩
  simp only []
  rw [if_pos hown, hK]
  exact h

/-- C01 for unpinned knights out of check: generated = legal -/
theorem knight_exact (p : Position) (hwf : Spec.wf (absPos p) = true) (hnic : Spec.inCheck p.board p.side = false)
    (s : Nat) (hs : s < 64) (hN : p.board.getD s 0 = mkPiece p.side KNIGHT)
    (hunp : ∀ pin, pin ∈ genPins (BBs.of p) p.board p.side → pinSquare pin ≠ s) (code : Nat) :
    code ∈ genPieceMoves (BBs.of p) KNIGHT s ((BBs.of p).color (1 - p.side) ||| bnot (BBs.of p).all) ↔
      ∃ m, m ∈ Spec.legalMoves (absPos p) ∧ m.src = s ∧ codeOf (absPos p) m = code := by
  obtain ⟨hbo, hside, _, _, _⟩ := wf_board_hyps _ hwf
  have hbo' : BoardOK p.board := hbo
  have hside' : p.side ≤ 1 := hside
  have hkN : kindOf (p.board.getD s 0) = KNIGHT := by rw [hN]; exact kindOf_mkPiece _ _ hside' (by decide)
  have hownS : Spec.isOwn (Spec.pcAt (absPos p).board s) (absPos p).side = true := by
    show Spec.isOwn (p.board.getD s 0) p.side = true
    rw [hN]
    have hs01 : p.side = 0 ∨ p.side = 1 := by omega
    rcases hs01 with e | e <;> rw [e] <;> decide
  have hcodeOf : ∀ t, codeOf (absPos p) ⟨s, t, 0⟩ = mkMove s t := by
    intro t
    unfold codeOf
    have : Spec.isCastle (absPos p).board ⟨s, t, 0⟩ = false := by
      unfold Spec.isCastle
      have : Spec.kindOfPc (Spec.pcAt (absPos p).board s) = 2 := hkN
      simp only []
      rw [this]; simp
    rw [this]
    simp only [Bool.false_eq_true, if_false]
    exact (mkMove_eq_promo s t).symm
  constructor
  · intro h
    unfold genPieceMoves at h
    simp only [if_true, List.mem_map, mem_bitsOf] at h
    obtain ⟨t, ⟨ht, hb⟩, rfl⟩ := h
    have h1 := and_testBit_left _ _ _ hb
    have h2 := and_testBit_right _ _ _ hb
    obtain ⟨d, hd, hon, rfl⟩ := (knightMask_testBit s t hs).1 h1
    rw [target_testBit p hbo' hside' _ ht] at h2
    have hnot : Spec.isOwn (Spec.pcAt p.board (Spec.sqOf (Spec.fileI s + d.1) (Spec.rankI s + d.2))) p.side = false := by simpa using h2
    -- the rules list this knight move
    have hstep : (⟨s, Spec.sqOf (Spec.fileI s + d.1) (Spec.rankI s + d.2), 0⟩ : Spec.SMove) ∈ Spec.stepMoves (absPos p) s Spec.knightOffs := by
      unfold Spec.stepMoves
      rw [List.mem_filterMap]
      refine ⟨d, hd, ?_⟩
      simp only []
      have hnot' : Spec.isOwn (Spec.pcAt (absPos p).board (Spec.sqOf (Spec.fileI s + d.1) (Spec.rankI s + d.2))) (absPos p).side = false := hnot
      rw [hon, hnot']
      rfl
    have hps := mem_pseudo_of_piece (absPos p) s hs hownS _ 2 hkN hstep
    refine ⟨_, unpinned_legal p hwf hnic _ hps ?_ ?_ ?_ hunp, rfl, hcodeOf _⟩
    · unfold Spec.isCastle
      have : Spec.kindOfPc (Spec.pcAt p.board s) = 2 := hkN
      simp only []
      rw [this]; simp
    · unfold Spec.isEpCapture
      have : Spec.kindOfPc (Spec.pcAt (absPos p).board s) = 2 := hkN
      simp only []
      rw [this]; simp
    · show kindOf (p.board.getD s 0) ≠ KING
      rw [hkN]; decide
  · rintro ⟨m, hm, hsrc, rfl⟩
    have hps : m ∈ Spec.pseudoMoves (absPos p) := by unfold Spec.legalMoves at hm; exact (List.mem_filter.1 hm).1
    -- which rule produced m: the piece on m.src = s is a knight
    have key : ∃ d, d ∈ Spec.knightOffs ∧ Spec.onBoard (Spec.fileI s + d.1) (Spec.rankI s + d.2) = true ∧
        m = ⟨s, Spec.sqOf (Spec.fileI s + d.1) (Spec.rankI s + d.2), 0⟩ ∧
        Spec.isOwn (Spec.pcAt (absPos p).board (Spec.sqOf (Spec.fileI s + d.1) (Spec.rankI s + d.2))) (absPos p).side = false := by
      rcases pseudo_cases (absPos p) m hps with hc | ⟨sq, hsq, _, h | h | h | h | h | h⟩
      · exfalso
        obtain ⟨hk, hc⟩ := mem_castleMoves (absPos p) m hc
        have hsrc4 : m.src = (if (absPos p).side = 0 then 0 else 56) + 4 := by rcases hc with ⟨rfl, _⟩ | ⟨rfl, _⟩ <;> rfl
        have hkb : p.board.getD ((if p.side = 0 then 0 else 56) + 4) 0 = Spec.mkPc p.side 6 := hk
        have e4 : (if p.side = 0 then 0 else 56) + 4 = s := by rw [← hsrc]; exact hsrc4.symm
        rw [e4, hN, mkPc_eq' _ 6 (by decide)] at hkb
        have := (mkPiece_inj p.side KNIGHT p.side KING hside' hside' (by decide) (by decide) hkb).2
        cases this
      · exfalso
        obtain ⟨e, _⟩ := mem_pawnMoves (absPos p) sq m h.2
        have : sq = s := by rw [← e, hsrc]
        rw [this] at h
        have h1 : kindOf (p.board.getD s 0) = 1 := h.1
        rw [hkN] at h1; cases h1
      · obtain ⟨d, hd, hon, hmv, hno⟩ := mem_stepMoves (absPos p) sq _ m h.2
        have : sq = s := by rw [← hsrc, hmv]
        subst this
        exact ⟨d, hd, hon, hmv, hno⟩
      · exfalso
        obtain ⟨d, _, t, _, hmv⟩ := mem_slideMoves (absPos p) sq _ m h.2
        have : sq = s := by rw [← hsrc, hmv]
        rw [this] at h
        have h1 : kindOf (p.board.getD s 0) = 3 := h.1
        rw [hkN] at h1; cases h1
      · exfalso
        obtain ⟨d, _, t, _, hmv⟩ := mem_slideMoves (absPos p) sq _ m h.2
        have : sq = s := by rw [← hsrc, hmv]
        rw [this] at h
        have h1 : kindOf (p.board.getD s 0) = 4 := h.1
        rw [hkN] at h1; cases h1
      · exfalso
        obtain ⟨d, _, t, _, hmv⟩ := mem_slideMoves (absPos p) sq _ m h.2
        have : sq = s := by rw [← hsrc, hmv]
        rw [this] at h
        have h1 : kindOf (p.board.getD s 0) = 5 := h.1
        rw [hkN] at h1; cases h1
      · exfalso
        obtain ⟨d, _, _, hmv, _⟩ := mem_stepMoves (absPos p) sq _ m h.2
        have : sq = s := by rw [← hsrc, hmv]
        rw [this] at h
        have h1 : kindOf (p.board.getD s 0) = 6 := h.1
        rw [hkN] at h1; cases h1
    obtain ⟨d, hd, hon, rfl, hno⟩ := key
    rw [hcodeOf]
    unfold genPieceMoves
    simp only [if_true, List.mem_map, mem_bitsOf]
    have ht := sqOf_lt _ _ hon
    refine ⟨_, ⟨ht, ?_⟩, rfl⟩
    rw [Nat.testBit_and, (knightMask_testBit s _ hs).2 ⟨d, hd, hon, rfl⟩, target_testBit p hbo' hside' _ ht]
    have hno' : Spec.isOwn (Spec.pcAt p.board (Spec.sqOf (Spec.fileI s + d.1) (Spec.rankI s + d.2))) p.side = false := hno
    rw [hno']; rfl

end Chess
