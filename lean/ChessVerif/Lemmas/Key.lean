/-
  Lemmas/Key.lean — the incrementally maintained Zobrist key equals the key computed from scratch (C04),
  for EVERY table T: XOR-fold lemmas, the three board primitives, then do_move / do_null_move.
-/
import ChessVerif.Model.Position
namespace Chess

/-- XOR of `f piece square` over a board slice starting at square `i` -/
def xorFold (f : Nat → Nat → Nat) : List Nat → Nat → Nat
  | [], _ => 0
  | x :: xs, i => f x i ^^^ xorFold f xs (i + 1)

theorem xorFold_set (f : Nat → Nat → Nat) (l : List Nat) (i k v : Nat) (hk : k < l.length) :
    xorFold f (l.set k v) i = xorFold f l i ^^^ f (l.getD k 0) (i + k) ^^^ f v (i + k) := by
  induction l generalizing i k with
  | nil => simp at hk
  | cons x xs ih =>
    cases k with
    | zero =>
      simp only [List.set, xorFold, List.getD_cons_zero, Nat.add_zero]
      have : f x i ^^^ xorFold f xs (i + 1) ^^^ f x i ^^^ f v i = (f x i ^^^ f x i) ^^^ (f v i ^^^ xorFold f xs (i + 1)) := by ac_rfl
      rw [this, Nat.xor_self, Nat.zero_xor]
    | succ k =>
      simp only [List.set, xorFold, List.getD_cons_succ]
      rw [ih (i + 1) k (by simpa using hk)]
      have : i + 1 + k = i + (k + 1) := by omega
      rw [this]
      ac_rfl

def fPiece (T : ZTable) (pc sq : Nat) : Nat := if pc = 0 ∨ kindOf pc = PAWN then 0 else T.piece pc sq
def fPawn (T : ZTable) (pc sq : Nat) : Nat := if pc ≠ 0 ∧ kindOf pc = PAWN then T.piece pc sq else 0

theorem init_fold (T : ZTable) (l : List Nat) (h : HashKey) (i : Nat) :
    (l.foldl (fun (acc : HashKey × Nat) pc => (if pc = 0 then acc.1 else acc.1.toggle T pc acc.2, acc.2 + 1)) (h, i)).1 =
      { h with pieceK := h.pieceK ^^^ xorFold (fPiece T) l i, pawnK := h.pawnK ^^^ xorFold (fPawn T) l i } := by
  induction l generalizing h i with
  | nil => simp [xorFold]
  | cons x xs ih =>
    simp only [List.foldl, xorFold]
    rw [ih]
    by_cases hx : x = 0
    · simp [hx, fPiece, fPawn]
    · by_cases hp : kindOf x = PAWN
      · simp [hx, hp, fPiece, fPawn, HashKey.toggle, Nat.xor_assoc]
      · simp [hx, hp, fPiece, fPawn, HashKey.toggle, Nat.xor_assoc]

/-- closed form of HashKey.init -/
def scratch (T : ZTable) (board : List Nat) (side castling ep : Nat) : HashKey :=
  { pieceK := xorFold (fPiece T) board 0, pawnK := xorFold (fPawn T) board 0,
    epK := if ep ≠ 64 then T.ep (fileOf ep) else 0, castK := T.castling castling,
    colorK := if side = 1 then T.side else 0 }

theorem init_eq (T : ZTable) (board : List Nat) (side castling ep : Nat) :
    HashKey.init T board side castling ep = scratch T board side castling ep := by
  unfold HashKey.init scratch
  simp only [init_fold]
  simp

/-- the piece/pawn components agree with the board -/
def PK (T : ZTable) (p : Position) : Prop :=
  p.hash.pieceK = xorFold (fPiece T) p.board 0 ∧ p.hash.pawnK = xorFold (fPawn T) p.board 0

theorem fPiece_zero (T : ZTable) (sq : Nat) : fPiece T 0 sq = 0 := by simp [fPiece]
theorem fPawn_zero (T : ZTable) (sq : Nat) : fPawn T 0 sq = 0 := by simp [fPawn]

theorem toggle_pieceK (T : ZTable) (h : HashKey) (pc sq : Nat) (hpc : pc ≠ 0) :
    (h.toggle T pc sq).pieceK = h.pieceK ^^^ fPiece T pc sq ∧ (h.toggle T pc sq).pawnK = h.pawnK ^^^ fPawn T pc sq := by
  unfold HashKey.toggle fPiece fPawn
  by_cases hp : kindOf pc = PAWN <;> simp [hp, hpc]

theorem pk_add (T : ZTable) (p : Position) (pc sq : Nat) (h : PK T p) (hpc : pc ≠ 0) (hsq : sq < p.board.length)
    (he : p.board.getD sq 0 = 0) : PK T (addPiece T p pc sq) := by
  obtain ⟨h1, h2⟩ := toggle_pieceK T p.hash pc sq hpc
  refine ⟨?_, ?_⟩
  · show (p.hash.toggle T pc sq).pieceK = xorFold (fPiece T) (p.board.set sq pc) 0
    rw [h1, xorFold_set _ _ _ _ _ hsq, he, fPiece_zero, Nat.xor_zero, h.1, Nat.zero_add]
  · show (p.hash.toggle T pc sq).pawnK = xorFold (fPawn T) (p.board.set sq pc) 0
    rw [h2, xorFold_set _ _ _ _ _ hsq, he, fPawn_zero, Nat.xor_zero, h.2, Nat.zero_add]

theorem pk_remove (T : ZTable) (p : Position) (sq : Nat) (h : PK T p) (hsq : sq < p.board.length)
    (hne : p.board.getD sq 0 ≠ 0) : PK T (removePiece T p sq) := by
  obtain ⟨h1, h2⟩ := toggle_pieceK T p.hash (p.board.getD sq 0) sq hne
  refine ⟨?_, ?_⟩
  · show (p.hash.toggle T (p.at sq) sq).pieceK = xorFold (fPiece T) (p.board.set sq 0) 0
    unfold Position.at
    rw [h1, xorFold_set _ _ _ _ _ hsq, fPiece_zero, Nat.xor_zero, h.1, Nat.zero_add]
  · show (p.hash.toggle T (p.at sq) sq).pawnK = xorFold (fPawn T) (p.board.set sq 0) 0
    unfold Position.at
    rw [h2, xorFold_set _ _ _ _ _ hsq, fPawn_zero, Nat.xor_zero, h.2, Nat.zero_add]

theorem movePiece_eq (T : ZTable) (p : Position) (f t : Nat) :
    movePiece T p f t = addPiece T (removePiece T p f) (p.at f) t := by
  simp [movePiece, addPiece, removePiece]

theorem getD_set_ne (l : List Nat) (i j v : Nat) (h : i ≠ j) : (l.set i v).getD j 0 = l.getD j 0 := by
  simp [List.getD, List.getElem?_set, h]

theorem pk_move (T : ZTable) (p : Position) (f t : Nat) (h : PK T p) (hf : f < p.board.length) (ht : t < p.board.length)
    (hft : f ≠ t) (hne : p.board.getD f 0 ≠ 0) (he : p.board.getD t 0 = 0) : PK T (movePiece T p f t) := by
  rw [movePiece_eq]
  apply pk_add
  · exact pk_remove T p f h hf hne
  · exact hne
  · simpa [removePiece] using ht
  · show ((p.board.set f 0).getD t 0) = 0
    rw [getD_set_ne _ _ _ _ hft]; exact he

/-- the incremental key equals the from-scratch key of the position's four components -/
def KeyOK (T : ZTable) (p : Position) : Prop := p.hash = scratch T p.board p.side p.castling p.ep

/-- the state in the middle of do_move: everything but the ep component is in step, the ep key is cleared -/
structure Mid (T : ZTable) (p : Position) : Prop where
  pk : PK T p
  cast : p.hash.castK = T.castling p.castling
  color : p.hash.colorK = (if p.side = 1 then T.side else 0)
  ep0 : p.hash.epK = 0

theorem keyOK_iff (T : ZTable) (p : Position) :
    KeyOK T p ↔ (PK T p ∧ p.hash.castK = T.castling p.castling ∧ p.hash.colorK = (if p.side = 1 then T.side else 0) ∧
                 p.hash.epK = (if p.ep ≠ 64 then T.ep (fileOf p.ep) else 0)) := by
  unfold KeyOK scratch PK
  constructor
  · intro h; rw [h]; simp
  · intro ⟨⟨h1, h2⟩, h3, h4, h5⟩
    cases hh : p.hash with
    | mk a b c d e =>
      rw [hh] at h1 h2 h3 h4 h5
      simp at h1 h2 h3 h4 h5
      simp [h1, h2, h3, h4, h5]

/-- what the squares must look like for the move's piece operations to be the engine's own (true of every generated move) -/
structure MoveOK (p : Position) (m : Nat) : Prop where
  len : p.board.length = 64
  side : p.side ≤ 1
  castle : moveCastling m ≠ 0 →
    let r := if p.side = 0 then 0 else 7
    p.board.getD (mkSquare r 4) 0 ≠ 0 ∧
    (moveCastling m = KING_CASTLING → p.board.getD (mkSquare r 6) 0 = 0 ∧ p.board.getD (mkSquare r 5) 0 = 0 ∧ p.board.getD (mkSquare r 7) 0 ≠ 0) ∧
    (moveCastling m ≠ KING_CASTLING → p.board.getD (mkSquare r 2) 0 = 0 ∧ p.board.getD (mkSquare r 3) 0 = 0 ∧ p.board.getD (mkSquare r 0) 0 ≠ 0)
  normal : moveCastling m = 0 →
    moveFrom m < 64 ∧ moveTo m < 64 ∧ moveFrom m ≠ moveTo m ∧ p.at (moveFrom m) ≠ 0 ∧
    (movePromo m ≠ 0 → movePromo m ≤ 6) ∧
    ((kindOf (p.at (moveFrom m)) = PAWN ∧ moveTo m = p.ep) →
       p.at (moveTo m) = 0 ∧
       (let c := if p.side = 0 then moveTo m - 8 else moveTo m + 8
        c < 64 ∧ c ≠ moveFrom m ∧ c ≠ moveTo m ∧ p.at c ≠ 0))

theorem pk_congr (T : ZTable) (p q : Position) (hb : q.board = p.board) (h1 : q.hash.pieceK = p.hash.pieceK)
    (h2 : q.hash.pawnK = p.hash.pawnK) (h : PK T p) : PK T q := by
  unfold PK at *; rw [hb, h1, h2]; exact h

theorem getD_set_same (l : List Nat) (i v : Nat) (h : i < l.length) : (l.set i v).getD i 0 = v := by
  simp [List.getD, h]

@[simp] theorem toggle_colorK (T : ZTable) (h : HashKey) (pc sq : Nat) : (h.toggle T pc sq).colorK = h.colorK := by
  unfold HashKey.toggle; split <;> rfl
@[simp] theorem toggle_epK (T : ZTable) (h : HashKey) (pc sq : Nat) : (h.toggle T pc sq).epK = h.epK := by
  unfold HashKey.toggle; split <;> rfl
@[simp] theorem toggle_castK (T : ZTable) (h : HashKey) (pc sq : Nat) : (h.toggle T pc sq).castK = h.castK := by
  unfold HashKey.toggle; split <;> rfl

/-- the fields the three board primitives leave alone -/
structure SameRest (p q : Position) : Prop where
  side : q.side = p.side
  castling : q.castling = p.castling
  ep : q.ep = p.ep
  colorK : q.hash.colorK = p.hash.colorK
  epK : q.hash.epK = p.hash.epK
  castK : q.hash.castK = p.hash.castK
  len : q.board.length = p.board.length
  ply : q.ply = p.ply
  halfmove : q.halfmove = p.halfmove
  history : q.history = p.history

theorem sameRest_refl (p : Position) : SameRest p p := ⟨rfl, rfl, rfl, rfl, rfl, rfl, rfl, rfl, rfl, rfl⟩
theorem sameRest_trans {p q r : Position} (a : SameRest p q) (b : SameRest q r) : SameRest p r :=
  ⟨b.side.trans a.side, b.castling.trans a.castling, b.ep.trans a.ep, b.colorK.trans a.colorK, b.epK.trans a.epK,
   b.castK.trans a.castK, b.len.trans a.len, b.ply.trans a.ply, b.halfmove.trans a.halfmove, b.history.trans a.history⟩
theorem sameRest_move (T : ZTable) (p : Position) (f t : Nat) : SameRest p (movePiece T p f t) :=
  ⟨rfl, rfl, rfl, by simp [movePiece], by simp [movePiece], by simp [movePiece], by simp [movePiece], rfl, rfl, rfl⟩
theorem sameRest_add (T : ZTable) (p : Position) (pc sq : Nat) : SameRest p (addPiece T p pc sq) :=
  ⟨rfl, rfl, rfl, by simp [addPiece], by simp [addPiece], by simp [addPiece], by simp [addPiece], rfl, rfl, rfl⟩
theorem sameRest_remove (T : ZTable) (p : Position) (sq : Nat) : SameRest p (removePiece T p sq) :=
  ⟨rfl, rfl, rfl, by simp [removePiece], by simp [removePiece], by simp [removePiece], by simp [removePiece], rfl, rfl, rfl⟩

theorem mid_castle (T : ZTable) (p : Position) (side m : Nat) (hm : Mid T p) (hlen : p.board.length = 64) (hs : side ≤ 1)
    (hk : p.board.getD (mkSquare (if side = 0 then 0 else 7) 4) 0 ≠ 0)
    (hK : moveCastling m = KING_CASTLING → p.board.getD (mkSquare (if side = 0 then 0 else 7) 6) 0 = 0 ∧
      p.board.getD (mkSquare (if side = 0 then 0 else 7) 5) 0 = 0 ∧ p.board.getD (mkSquare (if side = 0 then 0 else 7) 7) 0 ≠ 0)
    (hQ : moveCastling m ≠ KING_CASTLING → p.board.getD (mkSquare (if side = 0 then 0 else 7) 2) 0 = 0 ∧
      p.board.getD (mkSquare (if side = 0 then 0 else 7) 3) 0 = 0 ∧ p.board.getD (mkSquare (if side = 0 then 0 else 7) 0) 0 ≠ 0) :
    KeyOK T (doMoveCastle T p side m) := by
  have hr : (if side = 0 then 0 else 7) < 8 := by split <;> omega
  unfold doMoveCastle
  generalize (if side = 0 then 0 else 7) = r at *
  have sq (f : Nat) (hf : f < 8) : mkSquare r f < p.board.length := by unfold mkSquare; omega
  let p1 : Position := { p with halfmove := (p.halfmove + 1) % 65536 }
  have hpk1 : PK T p1 := pk_congr T p p1 rfl rfl rfl hm.pk
  -- the two piece moves, for either wing: kf = king target file, rf/rt = rook files
  have key : ∀ kf rf rt, kf < 8 → rf < 8 → rt < 8 → kf ≠ 4 → rf ≠ 4 → rf ≠ kf → rt ≠ 4 → rt ≠ kf → rt ≠ rf →
      p.board.getD (mkSquare r kf) 0 = 0 → p.board.getD (mkSquare r rt) 0 = 0 → p.board.getD (mkSquare r rf) 0 ≠ 0 →
      let q := movePiece T (movePiece T p1 (mkSquare r 4) (mkSquare r kf)) (mkSquare r rf) (mkSquare r rt)
      PK T q ∧ SameRest p1 q := by
    intro kf rf rt h1 h2 h3 n1 n2 n3 n4 n5 n6 e1 e2 e3
    have hp1 : PK T (movePiece T p1 (mkSquare r 4) (mkSquare r kf)) :=
      pk_move T p1 _ _ hpk1 (sq 4 (by omega)) (sq kf h1) (by unfold mkSquare; omega) hk e1
    have hp2 := pk_move T _ (mkSquare r rf) (mkSquare r rt) hp1
      (by simp [movePiece]; exact sq rf h2) (by simp [movePiece]; exact sq rt h3) (by unfold mkSquare; omega)
      (by show ((p.board.set (mkSquare r 4) 0).set (mkSquare r kf) _).getD (mkSquare r rf) 0 ≠ 0
          rw [getD_set_ne _ _ _ _ (by unfold mkSquare; omega), getD_set_ne _ _ _ _ (by unfold mkSquare; omega)]; exact e3)
      (by show ((p.board.set (mkSquare r 4) 0).set (mkSquare r kf) _).getD (mkSquare r rt) 0 = 0
          rw [getD_set_ne _ _ _ _ (by unfold mkSquare; omega), getD_set_ne _ _ _ _ (by unfold mkSquare; omega)]; exact e2)
    exact ⟨hp2, sameRest_trans (sameRest_move T p1 _ _) (sameRest_move T _ _ _)⟩
  rw [keyOK_iff]
  by_cases hc : moveCastling m = KING_CASTLING
  · obtain ⟨h6, h5, h7⟩ := hK hc
    obtain ⟨hpk, hsr⟩ := key 6 7 5 (by omega) (by omega) (by omega) (by omega) (by omega) (by omega) (by omega) (by omega) (by omega) h6 h5 h7
    simp only [hc, if_true]
    refine ⟨pk_congr T _ _ rfl rfl rfl hpk, by simp [setCastlingKey], ?_, ?_⟩
    · simp only [setCastlingKey]; rw [hsr.colorK, hsr.side]; exact hm.color
    · simp only [setCastlingKey]; rw [hsr.epK]; show p.hash.epK = _; simp [hm.ep0]
  · obtain ⟨h2, h3, h0⟩ := hQ hc
    obtain ⟨hpk, hsr⟩ := key 2 0 3 (by omega) (by omega) (by omega) (by omega) (by omega) (by omega) (by omega) (by omega) (by omega) h2 h3 h0
    simp only [hc, if_false]
    refine ⟨pk_congr T _ _ rfl rfl rfl hpk, by simp [setCastlingKey], ?_, ?_⟩
    · simp only [setCastlingKey]; rw [hsr.colorK, hsr.side]; exact hm.color
    · simp only [setCastlingKey]; rw [hsr.epK]; show p.hash.epK = _; simp [hm.ep0]

theorem mid_of (T : ZTable) (p q : Position) (hm : Mid T p) (hpk : PK T q) (sr : SameRest p q) : Mid T q :=
  ⟨hpk, by rw [sr.castK, sr.castling]; exact hm.cast, by rw [sr.colorK, sr.side]; exact hm.color, by rw [sr.epK]; exact hm.ep0⟩

theorem mkPiece_ne_zero (side k : Nat) (hk : k ≠ 0) : mkPiece side k ≠ 0 := by
  unfold mkPiece; simp [hk]

theorem removeCaptured_spec (T : ZTable) (p : Position) (t f : Nat) (hpk : PK T p) (ht : t < p.board.length) (hft : f ≠ t) :
    PK T (removeCaptured T p t) ∧ SameRest p (removeCaptured T p t) ∧ (removeCaptured T p t).board.getD t 0 = 0 ∧
    (removeCaptured T p t).board.getD f 0 = p.board.getD f 0 := by
  unfold removeCaptured Position.at
  split
  · rename_i h
    refine ⟨pk_remove T p t hpk ht h, sameRest_remove T p t, ?_, ?_⟩
    · show (p.board.set t 0).getD t 0 = 0
      exact getD_set_same _ _ _ ht
    · show (p.board.set t 0).getD f 0 = _
      exact getD_set_ne _ _ _ _ (Ne.symm hft)
  · rename_i h
    exact ⟨hpk, sameRest_refl p, Decidable.not_not.mp h, rfl⟩

theorem placeMoved_spec (T : ZTable) (p : Position) (side m : Nat) (hpk : PK T p) (hf : moveFrom m < p.board.length)
    (ht : moveTo m < p.board.length) (hft : moveFrom m ≠ moveTo m) (hne : p.board.getD (moveFrom m) 0 ≠ 0)
    (he : p.board.getD (moveTo m) 0 = 0) : PK T (placeMoved T p side m) ∧ SameRest p (placeMoved T p side m) := by
  unfold placeMoved
  split
  · rename_i hpr
    have hr := pk_remove T p (moveFrom m) hpk hf hne
    refine ⟨pk_add T _ _ _ hr (mkPiece_ne_zero side _ hpr) (by simpa [removePiece] using ht) ?_,
            sameRest_trans (sameRest_remove T p _) (sameRest_add T _ _ _)⟩
    show (p.board.set (moveFrom m) 0).getD (moveTo m) 0 = 0
    rw [getD_set_ne _ _ _ _ hft]; exact he
  · exact ⟨pk_move T p _ _ hpk hf ht hft hne he, sameRest_move T p _ _⟩

theorem mid_setRights (T : ZTable) (p : Position) (c : Nat) (h : Mid T p) : Mid T (setCastlingKey T { p with castling := c }) :=
  ⟨⟨h.pk.1, h.pk.2⟩, rfl, h.color, h.ep0⟩

theorem movePiece_len (T : ZTable) (p : Position) (f t : Nat) : (movePiece T p f t).board.length = p.board.length := by
  simp [movePiece]

theorem movePiece_getD (T : ZTable) (p : Position) (f t c : Nat) (hcf : c ≠ f) (hct : c ≠ t) :
    (movePiece T p f t).board.getD c 0 = p.board.getD c 0 := by
  show ((p.board.set f 0).set t _).getD c 0 = _
  rw [getD_set_ne _ _ _ _ (Ne.symm hct), getD_set_ne _ _ _ _ (Ne.symm hcf)]

/-- the non-castling piece operations keep the middle invariant -/
theorem mid_pieces (T : ZTable) (p : Position) (side m : Nat) (hm : Mid T p) (hlen : p.board.length = 64)
    (hf : moveFrom m < 64) (ht : moveTo m < 64) (hft : moveFrom m ≠ moveTo m) (hne : p.at (moveFrom m) ≠ 0)
    (hep : (kindOf (p.at (moveFrom m)) = PAWN ∧ moveTo m = p.ep) →
       p.at (moveTo m) = 0 ∧
       (let c := if side = 0 then moveTo m - 8 else moveTo m + 8
        c < 64 ∧ c ≠ moveFrom m ∧ c ≠ moveTo m ∧ p.at c ≠ 0)) :
    Mid T (doMovePieces T p side m) := by
  unfold doMovePieces
  simp only []
  by_cases he : kindOf (p.at (moveFrom m)) = PAWN ∧ moveTo m = p.ep
  · rw [if_pos he]
    obtain ⟨e0, hc, hcf, hct, hcn⟩ := hep he
    unfold Position.at at hne e0 hcn
    have h1 := pk_move T p _ _ hm.pk (by omega) (by omega) hft hne e0
    have h2 := pk_remove T (movePiece T p (moveFrom m) (moveTo m)) (if side = 0 then moveTo m - 8 else moveTo m + 8) h1
      (by rw [movePiece_len]; omega)
      (by rw [movePiece_getD T p _ _ _ hcf hct]; exact hcn)
    exact mid_of T p _ hm h2 (sameRest_trans (sameRest_move T p _ _) (sameRest_remove T _ _))
  · rw [if_neg he]
    unfold Position.at at hne
    obtain ⟨hpk1, sr1, e1, f1⟩ := removeCaptured_spec T p (moveTo m) (moveFrom m) hm.pk (by omega) hft
    have hlen1 : (removeCaptured T p (moveTo m)).board.length = 64 := by rw [sr1.len]; exact hlen
    obtain ⟨hpk2, sr2⟩ := placeMoved_spec T (removeCaptured T p (moveTo m)) side m hpk1 (by omega) (by omega) hft (by rw [f1]; exact hne) e1
    exact mid_setRights T _ _ (mid_of T p _ hm hpk2 (sameRest_trans sr1 sr2))

theorem key_setEp (T : ZTable) (p : Position) (side moved f t : Nat) (hm : Mid T p) : KeyOK T (setEpAfter T p side moved f t) := by
  rw [keyOK_iff]
  unfold setEpAfter
  simp only []
  by_cases h : kindOf moved = PAWN ∧ rankOf f = (if side = 0 then 1 else 6) ∧ rankOf t = (if side = 0 then 3 else 4)
  · rw [if_pos h]
    refine ⟨pk_congr T p _ rfl rfl rfl hm.pk, hm.cast, hm.color, ?_⟩
    -- the new ep square is a real square (t ∓ 8 with t on the 4th/5th rank), never the NO_SQUARE code
    have ht : rankOf t = (if side = 0 then 3 else 4) := h.2.2
    unfold rankOf at ht
    by_cases hs : side = 0
    · have : t / 8 = 3 := by simpa [hs] using ht
      have hne : t - 8 ≠ 64 := by omega
      simp [hs, hne]
    · have : t / 8 = 4 := by simpa [hs] using ht
      have hne : t + 8 ≠ 64 := by omega
      simp [hs, hne]
  · rw [if_neg h]
    exact ⟨pk_congr T p _ rfl rfl rfl hm.pk, hm.cast, hm.color, by simp [hm.ep0]⟩

theorem keyOK_withHistory (T : ZTable) (p : Position) (h : KeyOK T p) : KeyOK T (withHistory p) := h

theorem mid_preMove (T : ZTable) (p : Position) (hk : KeyOK T p) (hs : p.side ≤ 1) : Mid T (preMove T p) := by
  have hk' := (keyOK_iff T p).1 hk
  have hside : p.side = 0 ∨ p.side = 1 := by omega
  refine ⟨⟨hk'.1.1, hk'.1.2⟩, hk'.2.1, ?_, rfl⟩
  show p.hash.colorK ^^^ T.side = if 1 - p.side = 1 then T.side else 0
  rw [hk'.2.2.1]
  rcases hside with h | h <;> simp [h]

theorem mid_clockStep (T : ZTable) (q : Position) (m : Nat) (h : Mid T q) :
    Mid T (clockStep q m) ∧ (clockStep q m).board = q.board ∧ (clockStep q m).ep = q.ep := by
  unfold clockStep
  split <;> exact ⟨⟨h.pk, h.cast, h.color, h.ep0⟩, rfl, rfl⟩

/-- C04 core: do_move keeps the incremental key equal to the from-scratch key, for every table -/
theorem keyOK_doMove (T : ZTable) (p : Position) (m : Nat) (hk : KeyOK T p) (ok : MoveOK p m) : KeyOK T (doMove T p m).1 := by
  have hq := mid_preMove T p hk ok.side
  have hqb : (preMove T p).board = p.board := rfl
  have hqe : (preMove T p).ep = p.ep := rfl
  unfold doMove
  simp only []
  by_cases hc : moveCastling m ≠ 0
  · rw [if_pos hc]
    obtain ⟨c1, c2, c3⟩ := ok.castle hc
    exact keyOK_withHistory T _ (mid_castle T (preMove T p) p.side m hq ok.len ok.side c1 c2 c3)
  · rw [if_neg hc]
    have hc0 : moveCastling m = 0 := Decidable.not_not.mp hc
    obtain ⟨n1, n2, n3, n4, _, n6⟩ := ok.normal hc0
    obtain ⟨hq2, hb2, he2⟩ := mid_clockStep T (preMove T p) m hq
    have hat : ∀ s, (clockStep (preMove T p) m).at s = p.at s := by
      intro s; unfold Position.at; rw [hb2]; rfl
    have hmid := mid_pieces T (clockStep (preMove T p) m) p.side m hq2 (by rw [hb2]; exact ok.len) n1 n2 n3
      (by rw [hat]; exact n4) (by simp only [hat, he2, hqe]; exact n6)
    exact keyOK_withHistory T _ (key_setEp T _ p.side _ _ _ hmid)

/-- do_null_move keeps it too -/
theorem keyOK_doNull (T : ZTable) (p : Position) (hk : KeyOK T p) (hs : p.side ≤ 1) : KeyOK T (doNull T p).1 := by
  have hk' := (keyOK_iff T p).1 hk
  rw [keyOK_iff]
  unfold doNull changeSide
  have hside : p.side = 0 ∨ p.side = 1 := by omega
  refine ⟨⟨hk'.1.1, hk'.1.2⟩, hk'.2.1, ?_, by simp⟩
  show p.hash.colorK ^^^ T.side = if 1 - p.side = 1 then T.side else 0
  rw [hk'.2.2.1]
  rcases hside with h | h <;> simp [h]

/-- a position loaded from a FEN starts with the from-scratch key -/
theorem keyOK_ofFen (T : ZTable) (s : String) : KeyOK T (ofFen T s) := by
  unfold KeyOK ofFen
  simp only []
  rw [init_eq]

end Chess
