/-
  Lemmas/PseudoGen.lean — the generator's attack sets against the rules' pseudo-legal moves, bit by bit and without any assumption on
  check: for an own knight or slider on s, the bit t of (attack set ∧ not-own squares) is set exactly when the rules list s→t.
-/
import ChessVerif.Lemmas.ExactQuiet
namespace Chess

theorem knight_bit_pseudo (p : Position) (hwf : Spec.wf (absPos p) = true)
    (s : Nat) (hs : s < 64) (hN : p.board.getD s 0 = mkPiece p.side KNIGHT) (t : Nat) (ht : t < 64)
    (hb : (knightMask s &&& ((BBs.of p).color (1 - p.side) ||| bnot (BBs.of p).all)).testBit t = true) :
    (⟨s, t, 0⟩ : Spec.SMove) ∈ Spec.pseudoMoves (absPos p) := by
  obtain ⟨hbo, hside, _, _, _⟩ := wf_board_hyps _ hwf
  have hbo' : BoardOK p.board := hbo
  have hside' : p.side ≤ 1 := hside
  have hkN : kindOf (p.board.getD s 0) = KNIGHT := by rw [hN]; exact kindOf_mkPiece _ _ hside' (by decide)
  have hownS : Spec.isOwn (Spec.pcAt (absPos p).board s) (absPos p).side = true := by
    show Spec.isOwn (p.board.getD s 0) p.side = true
    rw [hN]
    have hs01 : p.side = 0 ∨ p.side = 1 := by omega
    rcases hs01 with e | e <;> rw [e] <;> decide
  have hcodeOf : ∀ t, codeOf (absPos p) ⟨s, t, 0⟩ = mkMove s t := by
    intro t
    unfold codeOf
    have : Spec.isCastle (absPos p).board ⟨s, t, 0⟩ = false := by
      unfold Spec.isCastle
      have : Spec.kindOfPc (Spec.pcAt (absPos p).board s) = 2 := hkN
      simp only []
      rw [this]; simp
    rw [this]
    simp only [Bool.false_eq_true, if_false]
    exact (mkMove_eq_promo s t).symm
  have h1 := and_testBit_left _ _ _ hb
  have h2 := and_testBit_right _ _ _ hb
  obtain ⟨d, hd, hon, rfl⟩ := (knightMask_testBit s t hs).1 h1
  rw [target_testBit p hbo' hside' _ ht] at h2
  have hnot : Spec.isOwn (Spec.pcAt p.board (Spec.sqOf (Spec.fileI s + d.1) (Spec.rankI s + d.2))) p.side = false := by simpa using h2
  -- the rules list this knight move
  have hstep : (⟨s, Spec.sqOf (Spec.fileI s + d.1) (Spec.rankI s + d.2), 0⟩ : Spec.SMove) ∈ Spec.stepMoves (absPos p) s Spec.knightOffs := by
    unfold Spec.stepMoves
    rw [List.mem_filterMap]
    refine ⟨d, hd, ?_⟩
    simp only []
    have hnot' : Spec.isOwn (Spec.pcAt (absPos p).board (Spec.sqOf (Spec.fileI s + d.1) (Spec.rankI s + d.2))) (absPos p).side = false := hnot
    rw [hon, hnot']
    rfl
  have hps := mem_pseudo_of_piece (absPos p) s hs hownS _ 2 hkN hstep
  exact hps

theorem knight_pseudo_form (p : Position) (hwf : Spec.wf (absPos p) = true)
    (s : Nat) (hs : s < 64) (hN : p.board.getD s 0 = mkPiece p.side KNIGHT) (m : Spec.SMove) (hps : m ∈ Spec.pseudoMoves (absPos p)) (hsrc : m.src = s) :
    ∃ t, t < 64 ∧ m = ⟨s, t, 0⟩ ∧ (knightMask s &&& ((BBs.of p).color (1 - p.side) ||| bnot (BBs.of p).all)).testBit t = true := by
  obtain ⟨hbo, hside, _, _, _⟩ := wf_board_hyps _ hwf
  have hbo' : BoardOK p.board := hbo
  have hside' : p.side ≤ 1 := hside
  have hkN : kindOf (p.board.getD s 0) = KNIGHT := by rw [hN]; exact kindOf_mkPiece _ _ hside' (by decide)
  have hownS : Spec.isOwn (Spec.pcAt (absPos p).board s) (absPos p).side = true := by
    show Spec.isOwn (p.board.getD s 0) p.side = true
    rw [hN]
    have hs01 : p.side = 0 ∨ p.side = 1 := by omega
    rcases hs01 with e | e <;> rw [e] <;> decide
  have hcodeOf : ∀ t, codeOf (absPos p) ⟨s, t, 0⟩ = mkMove s t := by
    intro t
    unfold codeOf
    have : Spec.isCastle (absPos p).board ⟨s, t, 0⟩ = false := by
      unfold Spec.isCastle
      have : Spec.kindOfPc (Spec.pcAt (absPos p).board s) = 2 := hkN
      simp only []
      rw [this]; simp
    rw [this]
    simp only [Bool.false_eq_true, if_false]
    exact (mkMove_eq_promo s t).symm
  -- which rule produced m: the piece on m.src = s is a knight
  have key : ∃ d, d ∈ Spec.knightOffs ∧ Spec.onBoard (Spec.fileI s + d.1) (Spec.rankI s + d.2) = true ∧
      m = ⟨s, Spec.sqOf (Spec.fileI s + d.1) (Spec.rankI s + d.2), 0⟩ ∧
      Spec.isOwn (Spec.pcAt (absPos p).board (Spec.sqOf (Spec.fileI s + d.1) (Spec.rankI s + d.2))) (absPos p).side = false := by
    rcases pseudo_cases (absPos p) m hps with hc | ⟨sq, hsq, _, h | h | h | h | h | h⟩
    · exfalso
      obtain ⟨hk, hc⟩ := mem_castleMoves (absPos p) m hc
      have hsrc4 : m.src = (if (absPos p).side = 0 then 0 else 56) + 4 := by rcases hc with ⟨rfl, _⟩ | ⟨rfl, _⟩ <;> rfl
      have hkb : p.board.getD ((if p.side = 0 then 0 else 56) + 4) 0 = Spec.mkPc p.side 6 := hk
      have e4 : (if p.side = 0 then 0 else 56) + 4 = s := by rw [← hsrc]; exact hsrc4.symm
      rw [e4, hN, mkPc_eq' _ 6 (by decide)] at hkb
      have := (mkPiece_inj p.side KNIGHT p.side KING hside' hside' (by decide) (by decide) hkb).2
      cases this
    · exfalso
      obtain ⟨e, _⟩ := mem_pawnMoves (absPos p) sq m h.2
      have : sq = s := by rw [← e, hsrc]
      rw [this] at h
      have h1 : kindOf (p.board.getD s 0) = 1 := h.1
      rw [hkN] at h1; cases h1
    · obtain ⟨d, hd, hon, hmv, hno⟩ := mem_stepMoves (absPos p) sq _ m h.2
      have : sq = s := by rw [← hsrc, hmv]
      subst this
      exact ⟨d, hd, hon, hmv, hno⟩
    · exfalso
      obtain ⟨d, _, t, _, hmv⟩ := mem_slideMoves (absPos p) sq _ m h.2
      have : sq = s := by rw [← hsrc, hmv]
      rw [this] at h
      have h1 : kindOf (p.board.getD s 0) = 3 := h.1
      rw [hkN] at h1; cases h1
    · exfalso
      obtain ⟨d, _, t, _, hmv⟩ := mem_slideMoves (absPos p) sq _ m h.2
      have : sq = s := by rw [← hsrc, hmv]
      rw [this] at h
      have h1 : kindOf (p.board.getD s 0) = 4 := h.1
      rw [hkN] at h1; cases h1
    · exfalso
      obtain ⟨d, _, t, _, hmv⟩ := mem_slideMoves (absPos p) sq _ m h.2
      have : sq = s := by rw [← hsrc, hmv]
      rw [this] at h
      have h1 : kindOf (p.board.getD s 0) = 5 := h.1
      rw [hkN] at h1; cases h1
    · exfalso
      obtain ⟨d, _, _, hmv, _⟩ := mem_stepMoves (absPos p) sq _ m h.2
      have : sq = s := by rw [← hsrc, hmv]
      rw [this] at h
      have h1 : kindOf (p.board.getD s 0) = 6 := h.1
      rw [hkN] at h1; cases h1
  obtain ⟨d, hd, hon, rfl, hno⟩ := key
  have ht := sqOf_lt _ _ hon
  refine ⟨_, ht, rfl, ?_⟩
  rw [Nat.testBit_and, (knightMask_testBit s _ hs).2 ⟨d, hd, hon, rfl⟩, target_testBit p hbo' hside' _ ht]
  have hno' : Spec.isOwn (Spec.pcAt p.board (Spec.sqOf (Spec.fileI s + d.1) (Spec.rankI s + d.2))) p.side = false := hno
  rw [hno']; rfl

theorem slider_bit_pseudo (p : Position) (hwf : Spec.wf (absPos p) = true)
    (K : Nat) (hK : K = BISHOP ∨ K = ROOK ∨ K = QUEEN)
    (s : Nat) (hs : s < 64) (hN : p.board.getD s 0 = mkPiece p.side K) (t : Nat) (ht : t < 64)
    (hb : (sliderAttack K s (BBs.of p).all &&& ((BBs.of p).color (1 - p.side) ||| bnot (BBs.of p).all)).testBit t = true) :
    (⟨s, t, 0⟩ : Spec.SMove) ∈ Spec.pseudoMoves (absPos p) := by
  obtain ⟨hbo, hside, _, _, _⟩ := wf_board_hyps _ hwf
  have hbo' : BoardOK p.board := hbo
  have hside' : p.side ≤ 1 := hside
  have hK16 : 1 ≤ K ∧ K ≤ 6 := by rcases hK with rfl | rfl | rfl <;> decide
  have hKn : K ≠ KNIGHT := by rcases hK with rfl | rfl | rfl <;> decide
  have hkN : kindOf (p.board.getD s 0) = K := by rw [hN]; exact kindOf_mkPiece _ _ hside' hK16
  have hkN' : Spec.kindOfPc (Spec.pcAt (absPos p).board s) = K := hkN
  have hownS : Spec.isOwn (Spec.pcAt (absPos p).board s) (absPos p).side = true := by
    show Spec.isOwn (p.board.getD s 0) p.side = true
    rw [hN]
    have hs01 : p.side = 0 ∨ p.side = 1 := by omega
    rcases hs01 with e | e <;> rw [e] <;> rcases hK with rfl | rfl | rfl <;> decide
  have hnotcastle : ∀ t, Spec.isCastle (absPos p).board ⟨s, t, 0⟩ = false := by
    intro t
    unfold Spec.isCastle
    simp only []
    rw [hkN']
    rcases hK with rfl | rfl | rfl <;> simp [BISHOP, ROOK, QUEEN]
  have hnotep : ∀ t, Spec.isEpCapture (absPos p) ⟨s, t, 0⟩ = false := by
    intro t
    unfold Spec.isEpCapture
    simp only []
    rw [hkN']
    rcases hK with rfl | rfl | rfl <;> simp [BISHOP, ROOK, QUEEN]
  have hcodeOf : ∀ t, codeOf (absPos p) ⟨s, t, 0⟩ = mkMove s t := by
    intro t
    unfold codeOf
    rw [hnotcastle t]
    simp only [Bool.false_eq_true, if_false]
    exact (mkMove_eq_promo s t).symm
  have hslideMoves : ∀ t, (∃ d, d ∈ dirsOf K ∧ t ∈ Spec.slide p.board p.side d 7 (Spec.fileI s) (Spec.rankI s)) ↔
      (⟨s, t, 0⟩ : Spec.SMove) ∈ Spec.slideMoves (absPos p) s (dirsOf K) := by
    intro t
    unfold Spec.slideMoves
    simp only [List.mem_flatMap, List.mem_map]
    constructor
    · rintro ⟨d, hd, ht⟩; exact ⟨d, hd, t, ht, rfl⟩
    · rintro ⟨d, hd, t', ht, e⟩
      have : t' = t := by injection e
      rw [this] at ht
      exact ⟨d, hd, ht⟩
  have hpseudo : ∀ m, m ∈ Spec.slideMoves (absPos p) s (dirsOf K) → m ∈ Spec.pseudoMoves (absPos p) := by
    intro m hm
    rcases hK with rfl | rfl | rfl
    · exact mem_pseudo_of_piece (absPos p) s hs hownS m 3 hkN' hm
    · exact mem_pseudo_of_piece (absPos p) s hs hownS m 4 hkN' hm
    · exact mem_pseudo_of_piece (absPos p) s hs hownS m 5 hkN' hm
  have hex := (slider_targets p hbo' hside' K s t hK hs ht).1 hb
  exact hpseudo _ ((hslideMoves t).1 hex)

theorem slider_pseudo_form (p : Position) (hwf : Spec.wf (absPos p) = true)
    (K : Nat) (hK : K = BISHOP ∨ K = ROOK ∨ K = QUEEN)
    (s : Nat) (hs : s < 64) (hN : p.board.getD s 0 = mkPiece p.side K) (m : Spec.SMove) (hps : m ∈ Spec.pseudoMoves (absPos p)) (hsrc : m.src = s) :
    ∃ t, t < 64 ∧ m = ⟨s, t, 0⟩ ∧ (sliderAttack K s (BBs.of p).all &&& ((BBs.of p).color (1 - p.side) ||| bnot (BBs.of p).all)).testBit t = true := by
  obtain ⟨hbo, hside, _, _, _⟩ := wf_board_hyps _ hwf
  have hbo' : BoardOK p.board := hbo
  have hside' : p.side ≤ 1 := hside
  have hK16 : 1 ≤ K ∧ K ≤ 6 := by rcases hK with rfl | rfl | rfl <;> decide
  have hKn : K ≠ KNIGHT := by rcases hK with rfl | rfl | rfl <;> decide
  have hkN : kindOf (p.board.getD s 0) = K := by rw [hN]; exact kindOf_mkPiece _ _ hside' hK16
  have hkN' : Spec.kindOfPc (Spec.pcAt (absPos p).board s) = K := hkN
  have hownS : Spec.isOwn (Spec.pcAt (absPos p).board s) (absPos p).side = true := by
    show Spec.isOwn (p.board.getD s 0) p.side = true
    rw [hN]
    have hs01 : p.side = 0 ∨ p.side = 1 := by omega
    rcases hs01 with e | e <;> rw [e] <;> rcases hK with rfl | rfl | rfl <;> decide
  have hnotcastle : ∀ t, Spec.isCastle (absPos p).board ⟨s, t, 0⟩ = false := by
    intro t
    unfold Spec.isCastle
    simp only []
    rw [hkN']
    rcases hK with rfl | rfl | rfl <;> simp [BISHOP, ROOK, QUEEN]
  have hnotep : ∀ t, Spec.isEpCapture (absPos p) ⟨s, t, 0⟩ = false := by
    intro t
    unfold Spec.isEpCapture
    simp only []
    rw [hkN']
    rcases hK with rfl | rfl | rfl <;> simp [BISHOP, ROOK, QUEEN]
  have hcodeOf : ∀ t, codeOf (absPos p) ⟨s, t, 0⟩ = mkMove s t := by
    intro t
    unfold codeOf
    rw [hnotcastle t]
    simp only [Bool.false_eq_true, if_false]
    exact (mkMove_eq_promo s t).symm
  have hslideMoves : ∀ t, (∃ d, d ∈ dirsOf K ∧ t ∈ Spec.slide p.board p.side d 7 (Spec.fileI s) (Spec.rankI s)) ↔
      (⟨s, t, 0⟩ : Spec.SMove) ∈ Spec.slideMoves (absPos p) s (dirsOf K) := by
    intro t
    unfold Spec.slideMoves
    simp only [List.mem_flatMap, List.mem_map]
    constructor
    · rintro ⟨d, hd, ht⟩; exact ⟨d, hd, t, ht, rfl⟩
    · rintro ⟨d, hd, t', ht, e⟩
      have : t' = t := by injection e
      rw [this] at ht
      exact ⟨d, hd, ht⟩
  have hpseudo : ∀ m, m ∈ Spec.slideMoves (absPos p) s (dirsOf K) → m ∈ Spec.pseudoMoves (absPos p) := by
    intro m hm
    rcases hK with rfl | rfl | rfl
    · exact mem_pseudo_of_piece (absPos p) s hs hownS m 3 hkN' hm
    · exact mem_pseudo_of_piece (absPos p) s hs hownS m 4 hkN' hm
    · exact mem_pseudo_of_piece (absPos p) s hs hownS m 5 hkN' hm
  have key : ∃ t, m = ⟨s, t, 0⟩ ∧ (⟨s, t, 0⟩ : Spec.SMove) ∈ Spec.slideMoves (absPos p) s (dirsOf K) := by
    rcases pseudo_cases (absPos p) m hps with hc | ⟨sq, hsq, _, h | h | h | h | h | h⟩
    · exfalso
      obtain ⟨hk, hc⟩ := mem_castleMoves (absPos p) m hc
      have hsrc4 : m.src = (if (absPos p).side = 0 then 0 else 56) + 4 := by rcases hc with ⟨rfl, _⟩ | ⟨rfl, _⟩ <;> rfl
      have hkb : p.board.getD ((if p.side = 0 then 0 else 56) + 4) 0 = Spec.mkPc p.side 6 := hk
      have e4 : (if p.side = 0 then 0 else 56) + 4 = s := by rw [← hsrc]; exact hsrc4.symm
      rw [e4, hN, mkPc_eq' _ 6 (by decide)] at hkb
      have := (mkPiece_inj p.side K p.side KING hside' hside' hK16 (by decide) hkb).2
      rcases hK with rfl | rfl | rfl <;> cases this
    · exfalso
      obtain ⟨e, _⟩ := mem_pawnMoves (absPos p) sq m h.2
      have : sq = s := by rw [← e, hsrc]
      rw [this] at h
      have h1 : kindOf (p.board.getD s 0) = 1 := h.1
      rw [hkN] at h1; rcases hK with rfl | rfl | rfl <;> cases h1
    · exfalso
      obtain ⟨d, _, _, hmv, _⟩ := mem_stepMoves (absPos p) sq _ m h.2
      have : sq = s := by rw [← hsrc, hmv]
      rw [this] at h
      have h1 : kindOf (p.board.getD s 0) = 2 := h.1
      rw [hkN] at h1; rcases hK with rfl | rfl | rfl <;> cases h1
    · obtain ⟨d, hd, t, ht, hmv⟩ := mem_slideMoves (absPos p) sq _ m h.2
      have e : sq = s := by rw [← hsrc, hmv]
      subst e
      have h1 : kindOf (p.board.getD sq 0) = 3 := h.1
      have hK3 : K = BISHOP := by rw [← hkN, h1]; rfl
      subst hK3
      exact ⟨t, hmv, by rw [← hmv]; exact h.2⟩
    · obtain ⟨d, hd, t, ht, hmv⟩ := mem_slideMoves (absPos p) sq _ m h.2
      have e : sq = s := by rw [← hsrc, hmv]
      subst e
      have h1 : kindOf (p.board.getD sq 0) = 4 := h.1
      have hK4 : K = ROOK := by rw [← hkN, h1]; rfl
      subst hK4
      exact ⟨t, hmv, by rw [← hmv]; exact h.2⟩
    · obtain ⟨d, hd, t, ht, hmv⟩ := mem_slideMoves (absPos p) sq _ m h.2
      have e : sq = s := by rw [← hsrc, hmv]
      subst e
      have h1 : kindOf (p.board.getD sq 0) = 5 := h.1
      have hK5 : K = QUEEN := by rw [← hkN, h1]; rfl
      subst hK5
      exact ⟨t, hmv, by rw [← hmv]; exact h.2⟩
    · exfalso
      obtain ⟨d, _, _, hmv, _⟩ := mem_stepMoves (absPos p) sq _ m h.2
      have : sq = s := by rw [← hsrc, hmv]
      rw [this] at h
      have h1 : kindOf (p.board.getD s 0) = 6 := h.1
      rw [hkN] at h1; rcases hK with rfl | rfl | rfl <;> cases h1
  obtain ⟨t, rfl, hmem⟩ := key
  obtain ⟨d, hd, hsl⟩ := (hslideMoves t).2 hmem
  have ht : t < 64 := by
    obtain ⟨j, _, _, hon, rfl, _⟩ := mem_slide _ _ _ _ _ _ _ hsl
    exact sqOf_lt _ _ hon
  exact ⟨t, ht, rfl, (slider_targets p hbo' hside' K s t hK hs ht).2 ⟨d, hd, hsl⟩⟩

end Chess
