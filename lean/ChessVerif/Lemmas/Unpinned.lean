/-
  Lemmas/Unpinned.lean — a move of a piece that `generate_pins` does not name never exposes its own king: if the side to move is not
  in check and the origin square is not a pinned square, the king is not attacked after the move.  (The discovered attacker would sit
  behind the origin on a ray from the king with nothing else in between — exactly what the pin scan finds.)
-/
import ChessVerif.Lemmas.PinScan
import ChessVerif.Lemmas.GenShape
namespace Chess

theorem walkDirs_lift_other' (dirs : List (Int × Int)) (k : Nat) (occ : BB) (f t s : Nat)
    (h : (Spec.walkDirs dirs k ((occ ^^^ sqBB f) ||| sqBB t)).testBit s = true) :
    (Spec.walkDirs dirs k occ).testBit s = true ∨
      ∃ d, d ∈ dirs ∧ (Spec.walk (Spec.raySquares k d.1 d.2) ((occ ^^^ sqBB f) ||| sqBB t)).testBit s = true ∧
        thru (Spec.raySquares k d.1 d.2) f s = true := by
  unfold Spec.walkDirs at h ⊢
  rw [walkDirs_testBit] at h
  rcases h with h | ⟨d, hd, h⟩
  · simp at h
  · rcases walk_lift_other _ occ f t s h with h1 | h1
    · left; rw [walkDirs_testBit]; exact Or.inr ⟨d, hd, h1⟩
    · right; exact ⟨d, hd, h, h1.1⟩

/-- the pin scan finds a pin when the first two occupied squares of a ray are an own piece and an enemy slider of the ray's kind -/
theorem genPinInRay_of_first_two (p : Position) (k r f s : Nat) (rest : List Nat) (hk : kingSq p.board p.side = k) (hk64 : k < 64) (hr : r < 8)
    (h : (rayList k r).filter (fun x => (BBs.of p).all.testBit x) = f :: s :: rest)
    (hown : ((BBs.of p).color p.side).testBit f = true)
    (hsl : ((BBs.of p).ck (1 - p.side) QUEEN ||| (if r % 2 = 1 then (BBs.of p).ck (1 - p.side) ROOK else (BBs.of p).ck (1 - p.side) BISHOP)).testBit s = true) :
    genPinInRay (BBs.of p) p.board p.side r = some (mkPin f (kindOf (p.board.getD f 0)) r) := by
  obtain ⟨h1, h2, h3⟩ := pinScan_first_two k r hk64 hr (BBs.of p).all f s rest h
  unfold genPinInRay
  simp only []
  rw [hk]
  by_cases hr4 : r < 4
  · simp only [hr4, if_true] at h2 h3 ⊢
    rw [if_pos h1, h2, h3, if_pos ((sqBB_and_ne_zero f _).2 hown), if_pos ((sqBB_and_ne_zero s _).2 hsl)]
  · simp only [hr4, if_false] at h2 h3 ⊢
    rw [if_pos h1, h2] at *
    rw [h3, if_pos ((sqBB_and_ne_zero f _).2 hown), if_pos ((sqBB_and_ne_zero s _).2 hsl)]

theorem mem_genPins_of (b : BBs) (board : List Nat) (side r pin : Nat) (hr : r < 8) (h : genPinInRay b board side r = some pin) :
    pin ∈ genPins b board side := by
  unfold genPins
  rw [List.mem_filterMap]
  refine ⟨r, ?_, h⟩
  have : r = 0 ∨ r = 1 ∨ r = 2 ∨ r = 3 ∨ r = 4 ∨ r = 5 ∨ r = 6 ∨ r = 7 := by omega
  rcases this with rfl | rfl | rfl | rfl | rfl | rfl | rfl | rfl <;> simp

/-- the core: after an ordinary move of an own piece the king is not attacked, provided no enemy slider of a ray's kind stands directly
    behind the origin on that ray (first two occupied squares: origin, slider) and is still seen once the origin is lifted -/
theorem safe_core2 (p : Position) (f t k' k : Nat) (hc : p.side ≤ 1) (ok : BoardOK p.board) (hf : f < 64) (ht : t < 64) (hne : f ≠ t)
    (hk' : 1 ≤ k' ∧ k' ≤ 6) (hown : ((BBs.of p).color p.side).testBit f = true)
    (hking : KingAt p.board p.side k) (hfk : f ≠ k)
    (hPre : ∀ s, s ≠ t → s ≠ f →
      (((pawnAttacks p.side (sqBB k)).testBit s = true ∧ ((BBs.of p).ck (1 - p.side) PAWN).testBit s = true) ∨
       ((knightMask k).testBit s = true ∧ ((BBs.of p).ck (1 - p.side) KNIGHT).testBit s = true) ∨
       ((bishopAttack k (BBs.of p).all).testBit s = true ∧ (bishopAttack k (((BBs.of p).all ^^^ sqBB f) ||| sqBB t)).testBit s = true ∧
          ((BBs.of p).ck (1 - p.side) BISHOP ||| (BBs.of p).ck (1 - p.side) QUEEN).testBit s = true) ∨
       ((rookAttack k (BBs.of p).all).testBit s = true ∧ (rookAttack k (((BBs.of p).all ^^^ sqBB f) ||| sqBB t)).testBit s = true ∧
          ((BBs.of p).ck (1 - p.side) ROOK ||| (BBs.of p).ck (1 - p.side) QUEEN).testBit s = true)) → False)
    (H : ∀ r x rest, r < 8 → (rayList k r).filter (fun y => (BBs.of p).all.testBit y) = f :: x :: rest →
      ((BBs.of p).ck (1 - p.side) QUEEN ||| (if r % 2 = 1 then (BBs.of p).ck (1 - p.side) ROOK else (BBs.of p).ck (1 - p.side) BISHOP)).testBit x = true →
      x ≠ t → (Spec.walk (rayList k r) (((BBs.of p).all ^^^ sqBB f) ||| sqBB t)).testBit x = true → False) :
    attackedBB (afterPos p f t (mkPiece p.side k')) k p.side = false := by
  have hkq := hking.lt
  have hks : kingSq p.board p.side = k := kingSq_eq p.board p.side k ok.len hking
  have ho : 1 - p.side ≤ 1 := by omega
  have hpc : mkPiece p.side k' ≤ 12 := by unfold mkPiece; rw [if_neg (by omega)]; omega
  have hpc0 : mkPiece p.side k' ≠ 0 := mkPiece_ne_zero _ _ (by omega)
  obtain ⟨_, hbf, kf1, kf6⟩ := own_piece p ok hc f hown
  have hmover0 : p.board.getD f 0 ≠ 0 := by rw [hbf]; exact mkPiece_ne_zero _ _ (by omega)
  have hall := all_after p f t _ ok hf ht hpc hpc0 hmover0 hne
  have hallf : ((BBs.of p).all).testBit f = true := by
    rw [all_testBit p f ok]; simp only [Bool.and_eq_true, decide_eq_true_eq]; exact ⟨hf, hmover0⟩
  -- the arriving piece is not an enemy piece
  have notOpp : ∀ K, 1 ≤ K → K ≤ 6 → ¬ (mkPiece p.side k' = mkPiece (1 - p.side) K) := by
    intro K h1 h6 h
    have := (mkPiece_inj p.side k' (1 - p.side) K hc ho hk' ⟨h1, h6⟩ h).1
    omega
  have tP := term_after p f t (mkPiece p.side k') (1 - p.side) PAWN (pawnAttacks p.side (sqBB k)) ok hf ht hpc ho ⟨by decide, by decide⟩
  have tN := term_after p f t (mkPiece p.side k') (1 - p.side) KNIGHT (knightMask k) ok hf ht hpc ho ⟨by decide, by decide⟩
  have occS : ∀ s K, 1 ≤ K → K ≤ 6 → ((BBs.of p).ck (1 - p.side) K).testBit s = true → ((BBs.of p).all).testBit s = true := by
    intro s K h1 h6 h
    rw [ck_testBit p (1 - p.side) K s ho h6 ok] at h
    simp only [Bool.and_eq_true, decide_eq_true_eq] at h
    rw [all_testBit p s ok]
    simp only [Bool.and_eq_true, decide_eq_true_eq]
    exact ⟨h.1, by rw [h.2]; exact mkPiece_ne_zero _ _ (by omega)⟩
  -- a slider that sees the king after the move would have been found by the pin scan
  have slider : ∀ (dirs : List (Int × Int)) (s : Nat), (∀ d, d ∈ dirs → ∃ r, r < 8 ∧ rayDirI r = d ∧
        (((BBs.of p).ck (1 - p.side) QUEEN ||| (if r % 2 = 1 then (BBs.of p).ck (1 - p.side) ROOK else (BBs.of p).ck (1 - p.side) BISHOP)).testBit s = true)) →
      s ≠ f → s ≠ t → ((BBs.of p).all).testBit s = true →
      (Spec.walkDirs dirs k (((BBs.of p).all ^^^ sqBB f) ||| sqBB t)).testBit s = true →
      (Spec.walkDirs dirs k (BBs.of p).all).testBit s = true := by
    intro dirs s hd hsf hst hocc hw
    rcases walkDirs_lift_other' dirs k _ f t s hw with h | ⟨d, hdm, hw', g1⟩
    · exact h
    · exfalso
      obtain ⟨r, hr, hrd, hsl⟩ := hd d hdm
      have hL : Spec.raySquares k d.1 d.2 = rayList k r := by unfold rayList; rw [hrd]
      rw [hL] at hw' g1
      obtain ⟨rest, hfil⟩ := walk_thru_filter (rayList k r) (BBs.of p).all f t s (rayList_nodup k r hkq hr) hallf hocc hw' g1
      exact H r s rest hr hfil hsl hst hw'
  have hb1 := Props.C11_slider BISHOP k hkq (BBs.of p).all
  have hb2 := Props.C11_slider BISHOP k hkq (((BBs.of p).all ^^^ sqBB f) ||| sqBB t)
  have hr1 := Props.C11_slider ROOK k hkq (BBs.of p).all
  have hr2 := Props.C11_slider ROOK k hkq (((BBs.of p).all ^^^ sqBB f) ||| sqBB t)
  simp [sliderAttack, Spec.rayWalk] at hb1 hb2
  simp [sliderAttack, Spec.rayWalk, ROOK, BISHOP] at hr1 hr2
  have hb1' : bishopAttack k (BBs.of p).all = Spec.walkDirs Spec.bishopDirs k (BBs.of p).all := hb1
  have hb2' : bishopAttack k (((BBs.of p).all ^^^ sqBB f) ||| sqBB t) = Spec.walkDirs Spec.bishopDirs k (((BBs.of p).all ^^^ sqBB f) ||| sqBB t) := hb2
  have hr1' : rookAttack k (BBs.of p).all = Spec.walkDirs Spec.rookDirs k (BBs.of p).all := hr1
  have hr2' : rookAttack k (((BBs.of p).all ^^^ sqBB f) ||| sqBB t) = Spec.walkDirs Spec.rookDirs k (((BBs.of p).all ^^^ sqBB f) ||| sqBB t) := hr2
  -- bishop-like and rook-like attackers after the move
  have diag : ∀ K, (K = BISHOP ∨ K = QUEEN) → ¬ (bishopAttack k (((BBs.of p).all ^^^ sqBB f) ||| sqBB t) &&&
      (BBs.of (afterPos p f t (mkPiece p.side k'))).ck (1 - p.side) K ≠ 0) := by
    intro K hK hne0
    have hK16 : 1 ≤ K ∧ K ≤ 6 := by rcases hK with rfl | rfl <;> decide
    have tt := term_after p f t (mkPiece p.side k') (1 - p.side) K (bishopAttack k (((BBs.of p).all ^^^ sqBB f) ||| sqBB t)) ok hf ht hpc ho hK16
    rcases tt.1 hne0 with ⟨e, _⟩ | ⟨s, hst, hsf, hx, hck⟩
    · exact notOpp K hK16.1 hK16.2 e
    · have hx0 := hx
      rw [hb2'] at hx
      have hold := slider Spec.bishopDirs s (by
        intro d hd
        obtain ⟨r, hr, hev, hrd⟩ := dir_ray_bishop d hd
        refine ⟨r, hr, hrd, ?_⟩
        rw [if_neg (by omega), Nat.testBit_or]
        rcases hK with rfl | rfl
        · rw [hck]; simp
        · rw [hck]; simp) hsf hst (occS s K hK16.1 hK16.2 hck) hx
      rw [← hb1'] at hold
      have : ((BBs.of p).ck (1 - p.side) BISHOP ||| (BBs.of p).ck (1 - p.side) QUEEN).testBit s = true := by
        rw [Nat.testBit_or]
        rcases hK with rfl | rfl
        · rw [hck]; simp
        · rw [hck]; simp
      exact hPre s hst hsf (Or.inr (Or.inr (Or.inl ⟨hold, hx0, this⟩)))
  have orth : ∀ K, (K = ROOK ∨ K = QUEEN) → ¬ (rookAttack k (((BBs.of p).all ^^^ sqBB f) ||| sqBB t) &&&
      (BBs.of (afterPos p f t (mkPiece p.side k'))).ck (1 - p.side) K ≠ 0) := by
    intro K hK hne0
    have hK16 : 1 ≤ K ∧ K ≤ 6 := by rcases hK with rfl | rfl <;> decide
    have tt := term_after p f t (mkPiece p.side k') (1 - p.side) K (rookAttack k (((BBs.of p).all ^^^ sqBB f) ||| sqBB t)) ok hf ht hpc ho hK16
    rcases tt.1 hne0 with ⟨e, _⟩ | ⟨s, hst, hsf, hx, hck⟩
    · exact notOpp K hK16.1 hK16.2 e
    · have hx0 := hx
      rw [hr2'] at hx
      have hold := slider Spec.rookDirs s (by
        intro d hd
        obtain ⟨r, hr, hodd, hrd⟩ := dir_ray_rook d hd
        refine ⟨r, hr, hrd, ?_⟩
        rw [if_pos hodd, Nat.testBit_or]
        rcases hK with rfl | rfl
        · rw [hck]; simp
        · rw [hck]; simp) hsf hst (occS s K hK16.1 hK16.2 hck) hx
      rw [← hr1'] at hold
      have : ((BBs.of p).ck (1 - p.side) ROOK ||| (BBs.of p).ck (1 - p.side) QUEEN).testBit s = true := by
        rw [Nat.testBit_or]
        rcases hK with rfl | rfl
        · rw [hck]; simp
        · rw [hck]; simp
      exact hPre s hst hsf (Or.inr (Or.inr (Or.inr ⟨hold, hx0, this⟩)))
  unfold attackedBB
  simp only [hall, Bool.or_eq_false_iff, decide_eq_false_iff_not, ne_eq, Decidable.not_not]
  refine ⟨⟨⟨?_, ?_⟩, ?_⟩, ?_⟩
  · apply Decidable.byContradiction
    intro h
    rcases tP.1 h with ⟨e, _⟩ | ⟨s, hst, hsf, hx, hck⟩
    · exact notOpp PAWN (by decide) (by decide) e
    · exact hPre s hst hsf (Or.inl ⟨hx, hck⟩)
  · apply Decidable.byContradiction
    intro h
    rcases tN.1 h with ⟨e, _⟩ | ⟨s, hst, hsf, hx, hck⟩
    · exact notOpp KNIGHT (by decide) (by decide) e
    · exact hPre s hst hsf (Or.inr (Or.inl ⟨hx, hck⟩))
  · apply Decidable.byContradiction
    intro h
    rcases (and_or_ne_zero _ _ _).1 h with h' | h'
    · exact diag BISHOP (Or.inl rfl) h'
    · exact diag QUEEN (Or.inr rfl) h'
  · apply Decidable.byContradiction
    intro h
    rcases (and_or_ne_zero _ _ _).1 h with h' | h'
    · exact orth ROOK (Or.inl rfl) h'
    · exact orth QUEEN (Or.inr rfl) h'

/-- the core: after an ordinary move of an own piece the king is not attacked, provided no enemy slider of a ray's kind stands directly
    behind the origin on that ray (first two occupied squares: origin, slider) and is still seen once the origin is lifted -/
theorem safe_core (p : Position) (f t k' k : Nat) (hc : p.side ≤ 1) (ok : BoardOK p.board) (hf : f < 64) (ht : t < 64) (hne : f ≠ t)
    (hk' : 1 ≤ k' ∧ k' ≤ 6) (hown : ((BBs.of p).color p.side).testBit f = true)
    (hking : KingAt p.board p.side k) (hfk : f ≠ k)
    (hsafe : attackedBB p k p.side = false)
    (H : ∀ r x rest, r < 8 → (rayList k r).filter (fun y => (BBs.of p).all.testBit y) = f :: x :: rest →
      ((BBs.of p).ck (1 - p.side) QUEEN ||| (if r % 2 = 1 then (BBs.of p).ck (1 - p.side) ROOK else (BBs.of p).ck (1 - p.side) BISHOP)).testBit x = true →
      x ≠ t → (Spec.walk (rayList k r) (((BBs.of p).all ^^^ sqBB f) ||| sqBB t)).testBit x = true → False) :
    attackedBB (afterPos p f t (mkPiece p.side k')) k p.side = false := by
  apply safe_core2 p f t k' k hc ok hf ht hne hk' hown hking hfk ?_ H
  unfold attackedBB at hsafe
  simp only [Bool.or_eq_false_iff, decide_eq_false_iff_not, ne_eq, Decidable.not_not] at hsafe
  obtain ⟨⟨⟨sP, sN⟩, sB⟩, sR⟩ := hsafe
  intro s _ _ h
  rcases h with ⟨a, b⟩ | ⟨a, b⟩ | ⟨a, _, b⟩ | ⟨a, _, b⟩
  · exact and_ne_zero_of_testBit _ _ s a b sP
  · exact and_ne_zero_of_testBit _ _ s a b sN
  · exact and_ne_zero_of_testBit _ _ s a b sB
  · exact and_ne_zero_of_testBit _ _ s a b sR

/-- NOT PINNED, NOT IN CHECK ⇒ SAFE: after an ordinary move of a piece whose square the pin scan does not name, the own king is not
    attacked -/
theorem unpinned_safe (p : Position) (f t k' k : Nat) (hc : p.side ≤ 1) (ok : BoardOK p.board) (hf : f < 64) (ht : t < 64) (hne : f ≠ t)
    (hk' : 1 ≤ k' ∧ k' ≤ 6) (hown : ((BBs.of p).color p.side).testBit f = true)
    (hking : KingAt p.board p.side k) (hfk : f ≠ k)
    (hsafe : attackedBB p k p.side = false)
    (hunp : ∀ pin, pin ∈ genPins (BBs.of p) p.board p.side → pinSquare pin ≠ f) :
    attackedBB (afterPos p f t (mkPiece p.side k')) k p.side = false := by
  apply safe_core p f t k' k hc ok hf ht hne hk' hown hking hfk hsafe
  intro r x rest hr hfil hsl _ _
  have hks : kingSq p.board p.side = k := kingSq_eq p.board p.side k ok.len hking
  have hpin := genPinInRay_of_first_two p k r f x rest hks hking.lt hr hfil hown hsl
  have hmem := mem_genPins_of _ _ _ r _ hr hpin
  exact hunp _ hmem (pin_fields f _ r hf (kindOf_lt8 _) hr).1

end Chess
