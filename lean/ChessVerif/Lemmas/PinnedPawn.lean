/-
  Lemmas/PinnedPawn.lean — the moves of a pinned pawn (no en-passant square set): the generator's list for the pin ray's direction
  class is the set-wise pawn generator restricted to that one pawn and that class, and a pawn move is legal exactly when its direction
  is the pin ray's (or the opposite one).
-/
import ChessVerif.Lemmas.PinnedExact
namespace Chess

/-- one step of a single square: the shifted square meets X iff the step stays on the board and X holds the target -/
theorem sq_up_iff (d : Dir) (n : Nat) (hd : (d = .N ∧ n = 8) ∨ (d = .NE ∧ n = 9) ∨ (d = .NW ∧ n = 7)) (a : Nat) (ha : a < 64) (X : BB) :
    (shift d (sqBB a) &&& X ≠ 0) ↔ (a + n < 64 ∧ (n = 9 → a % 8 ≠ 7) ∧ (n = 7 → a % 8 ≠ 0) ∧ X.testBit (a + n) = true) := by
  constructor
  · intro h
    obtain ⟨h1, h2, h3⟩ := sq_shift_up d n hd a X h
    refine ⟨h1, h2, h3, ?_⟩
    obtain ⟨j, hj, hx⟩ := exists_bit_of_and_ne _ _ h
    have : j = a + n := by
      rcases hd with ⟨rfl, rfl⟩ | ⟨rfl, rfl⟩ | ⟨rfl, rfl⟩
      · obtain ⟨_, b, c⟩ := shift_up_testBit .N 8 (by simp) _ j hj
        rw [sqBB_testBit] at c; have : a = j - 8 := by simpa using c
        omega
      · obtain ⟨_, b, c⟩ := shift_up_testBit .NE 9 (by simp) _ j hj
        rw [sqBB_testBit] at c; have : a = j - 9 := by simpa using c
        omega
      · obtain ⟨_, b, c⟩ := shift_up_testBit .NW 7 (by simp) _ j hj
        rw [sqBB_testBit] at c; have : a = j - 7 := by simpa using c
        omega
    rw [← this]; exact hx
  · rintro ⟨h1, h2, h3, hx⟩
    have hsq : (sqBB a).testBit a = true := by rw [sqBB_testBit]; simp
    apply and_ne_zero_of_testBit _ _ (a + n) _ hx
    rcases hd with ⟨rfl, rfl⟩ | ⟨rfl, rfl⟩ | ⟨rfl, rfl⟩
    · exact shift_N_of _ a hsq h1
    · exact shift_NE_of _ a hsq h1 (h2 rfl)
    · exact shift_NW_of _ a hsq h1 (h3 rfl)

theorem sq_down_iff (d : Dir) (n : Nat) (hd : (d = .S ∧ n = 8) ∨ (d = .SW ∧ n = 9) ∨ (d = .SE ∧ n = 7)) (a : Nat) (ha : a < 64) (X : BB) :
    (shift d (sqBB a) &&& X ≠ 0) ↔ (n ≤ a ∧ (n = 9 → a % 8 ≠ 0) ∧ (n = 7 → a % 8 ≠ 7) ∧ X.testBit (a - n) = true) := by
  constructor
  · intro h
    obtain ⟨h1, h2, h3⟩ := sq_shift_down d n hd a ha X h
    refine ⟨h1, h2, h3, ?_⟩
    obtain ⟨j, hj, hx⟩ := exists_bit_of_and_ne _ _ h
    have : j = a - n := by
      rcases hd with ⟨rfl, rfl⟩ | ⟨rfl, rfl⟩ | ⟨rfl, rfl⟩
      · have c := shift_down_testBit .S 8 (by simp) _ j hj
        rw [sqBB_testBit] at c; have : a = j + 8 := by simpa using c
        omega
      · have c := shift_down_testBit .SW 9 (by simp) _ j hj
        rw [sqBB_testBit] at c; have : a = j + 9 := by simpa using c
        omega
      · have c := shift_down_testBit .SE 7 (by simp) _ j hj
        rw [sqBB_testBit] at c; have : a = j + 7 := by simpa using c
        omega
    rw [← this]; exact hx
  · rintro ⟨h1, h2, h3, hx⟩
    have hsq : (sqBB a).testBit a = true := by rw [sqBB_testBit]; simp
    apply and_ne_zero_of_testBit _ _ (a - n) _ hx
    rcases hd with ⟨rfl, rfl⟩ | ⟨rfl, rfl⟩ | ⟨rfl, rfl⟩
    · exact shift_S_of _ a hsq h1
    · exact shift_SW_of _ a hsq h1 ha (h2 rfl)
    · exact shift_SE_of _ a hsq h1 ha (h3 rfl)

theorem sq_up2_iff (a : Nat) (ha : a < 64) (X : BB) :
    (shift .NN (sqBB a &&& rankBB 1) &&& X ≠ 0) ↔ (a / 8 = 1 ∧ X.testBit (a + 16) = true) := by
  constructor
  · intro h
    have hr := sq_shift_up2 a ha X h
    refine ⟨hr, ?_⟩
    obtain ⟨j, hj, hx⟩ := exists_bit_of_and_ne _ _ h
    obtain ⟨_, b, c⟩ := shift_up_testBit .NN 16 (by simp) _ j hj
    have c1 := and_testBit_left _ _ _ c
    rw [sqBB_testBit] at c1
    have : a = j - 16 := by simpa using c1
    have : j = a + 16 := by omega
    rw [← this]; exact hx
  · rintro ⟨hr, hx⟩
    have hsq : (sqBB a &&& rankBB 1).testBit a = true := by
      apply and_testBit_of
      · rw [sqBB_testBit]; simp
      · rw [rankBB_testBit 1 a (by decide) ha]; simp [hr]
    exact and_ne_zero_of_testBit _ _ (a + 16) (shift_NN_of _ a hsq (by omega)) hx

theorem shift_SS_of (b : BB) (j : Nat) (h : b.testBit j = true) (hj : 16 ≤ j) : (shift .SS b).testBit (j - 16) = true := by
  show (b >>> 16).testBit (j - 16) = true
  rw [Nat.testBit_shiftRight]; have : 16 + (j - 16) = j := by omega
  rw [this]; exact h

theorem sq_down2_iff (a : Nat) (ha : a < 64) (X : BB) :
    (shift .SS (sqBB a &&& rankBB 6) &&& X ≠ 0) ↔ (a / 8 = 6 ∧ X.testBit (a - 16) = true) := by
  constructor
  · intro h
    have hr := sq_shift_down2 a ha X h
    refine ⟨hr, ?_⟩
    obtain ⟨j, hj, hx⟩ := exists_bit_of_and_ne _ _ h
    have c := shift_down_testBit .SS 16 (by simp) _ j hj
    have c1 := and_testBit_left _ _ _ c
    rw [sqBB_testBit] at c1
    have : a = j + 16 := by simpa using c1
    have : j = a - 16 := by omega
    rw [← this]; exact hx
  · rintro ⟨hr, hx⟩
    have hsq : (sqBB a &&& rankBB 6).testBit a = true := by
      apply and_testBit_of
      · rw [sqBB_testBit]; simp
      · rw [rankBB_testBit 6 a (by decide) ha]; simp [hr]
    exact and_ne_zero_of_testBit _ _ (a - 16) (shift_SS_of _ a hsq (by omega)) hx

end Chess

namespace Chess

/-- direction class of a pawn-group index: 0 = towards the a-file side capture (offset 7), 1 = pushes, 2 = offset 9 -/
def clsOf (idx : Nat) : Nat := if pawnOff idx = 7 then 0 else if pawnOff idx = 9 then 2 else 1

theorem mem4 (x a b c d : Nat) : x ∈ [a, b, c, d] ↔ (x = a ∨ x = b ∨ x = c ∨ x = d) := by simp

/-- GENERATED (pinned pawn, no en-passant square) ⇒ a move of the set-wise pawn groups for that single pawn, of the ray's class -/
theorem pinnedPawn_to_group (p : Position) (hs : p.side ≤ 1) (a r : Nat) (ha : a < 64) (code : Nat)
    (h : code ∈ genPinnedPawnMoves (BBs.of p) p.side a r 64) :
    ∃ idx t k, PawnMv p.side (sqBB a) (bnot (BBs.of p).all) (bnot (BBs.of p).all) ((BBs.of p).color (1 - p.side)) code idx a t k ∧ clsOf idx = r % 4 := by
  have hsqa : (sqBB a).testBit a = true := by rw [sqBB_testBit]; simp
  have hs01 : p.side = 0 ∨ p.side = 1 := by omega
  have hr4 : r % 4 = 0 ∨ r % 4 = 1 ∨ r % 4 = 2 ∨ r % 4 = 3 := by omega
  have h10 : ¬ ((1 : Nat) = 0) := by decide
  have h64 : ¬ ((64 : Nat) ≠ 64) := by simp
  unfold genPinnedPawnMoves at h
  simp only [h64, if_false, Nat.or_zero] at h
  rcases hs01 with e | e
  · rw [e] at h ⊢
    simp only [if_true] at h
    by_cases h7 : rankOf a = 6
    · have h7' : a / 8 = 6 := h7
      rw [if_pos h7] at h
      rcases hr4 with q | q | q | q <;> rw [q] at h ⊢ <;> simp only [] at h
      · by_cases c : (shift Dir.NW (sqBB a) &&& (BBs.of p).color (1 - 0)) ≠ 0
        · rw [if_pos c] at h
          obtain ⟨c1, _, c3, c4⟩ := (sq_up_iff .NW 7 (by simp) a ha _).1 c
          rw [mem4] at h
          obtain ⟨k, hk, rfl⟩ : ∃ k, (k = 5 ∨ k = 4 ∨ k = 3 ∨ k = 2) ∧ code = mkPromotion a (a + 7) k := by
            rcases h with rfl | rfl | rfl | rfl
            · exact ⟨5, by simp, rfl⟩
            · exact ⟨4, by simp, rfl⟩
            · exact ⟨2, by simp, rfl⟩
            · exact ⟨3, by simp, rfl⟩
          exact ⟨1, a + 7, k, ⟨by decide, ⟨rfl, ha, c1, by omega⟩, hsqa, by simp [pawnOff], by simp; exact ⟨hk, h7'⟩, by simp [pawnOff],
            by intro _; simpa using c3 rfl, by simp, by intro _; exact c4, by simp [pawnOff], by simp⟩, by simp [clsOf, pawnOff]⟩
        · rw [if_neg c] at h; simp at h
      · by_cases c : (shift Dir.N (sqBB a) &&& bnot (BBs.of p).all) ≠ 0
        · rw [if_pos c] at h
          obtain ⟨c1, _, _, c4⟩ := (sq_up_iff .N 8 (by simp) a ha _).1 c
          rw [mem4] at h
          obtain ⟨k, hk, rfl⟩ : ∃ k, (k = 5 ∨ k = 4 ∨ k = 3 ∨ k = 2) ∧ code = mkPromotion a (a + 8) k := by
            rcases h with rfl | rfl | rfl | rfl
            · exact ⟨5, by simp, rfl⟩
            · exact ⟨4, by simp, rfl⟩
            · exact ⟨2, by simp, rfl⟩
            · exact ⟨3, by simp, rfl⟩
          exact ⟨2, a + 8, k, ⟨by decide, ⟨rfl, ha, c1, by omega⟩, hsqa, by simp [pawnOff], by simp; exact ⟨hk, h7'⟩, by simp [pawnOff],
            by simp [pawnOff], by simp, by simp [pawnOff], by intro _; exact ⟨c4, c4⟩, by simp⟩, by simp [clsOf, pawnOff]⟩
        · rw [if_neg c] at h; simp at h
      · by_cases c : (shift Dir.NE (sqBB a) &&& (BBs.of p).color (1 - 0)) ≠ 0
        · rw [if_pos c] at h
          obtain ⟨c1, c2, _, c4⟩ := (sq_up_iff .NE 9 (by simp) a ha _).1 c
          rw [mem4] at h
          obtain ⟨k, hk, rfl⟩ : ∃ k, (k = 5 ∨ k = 4 ∨ k = 3 ∨ k = 2) ∧ code = mkPromotion a (a + 9) k := by
            rcases h with rfl | rfl | rfl | rfl
            · exact ⟨5, by simp, rfl⟩
            · exact ⟨4, by simp, rfl⟩
            · exact ⟨2, by simp, rfl⟩
            · exact ⟨3, by simp, rfl⟩
          exact ⟨0, a + 9, k, ⟨by decide, ⟨rfl, ha, c1, by omega⟩, hsqa, by simp [pawnOff], by simp; exact ⟨hk, h7'⟩,
            by intro _; simpa using c2 rfl, by simp [pawnOff], by simp, by intro _; exact c4, by simp [pawnOff], by simp⟩, by simp [clsOf, pawnOff]⟩
        · rw [if_neg c] at h; simp at h
      · simp at h
    · have h7' : a / 8 ≠ 6 := h7
      rw [if_neg h7] at h
      rcases hr4 with q | q | q | q <;> rw [q] at h ⊢ <;> simp only [] at h
      · by_cases c : (shift Dir.NW (sqBB a) &&& (BBs.of p).color (1 - 0)) ≠ 0
        · rw [if_pos c] at h
          obtain ⟨c1, _, c3, c4⟩ := (sq_up_iff .NW 7 (by simp) a ha _).1 c
          simp only [List.mem_singleton] at h
          subst h
          exact ⟨4, a + 7, 0, ⟨by decide, IsMv.ofMove a _ ha c1, hsqa, by simp [pawnOff], by simp; exact h7', by simp [pawnOff],
            by intro _; simpa using c3 rfl, by simp, by intro _; exact c4, by simp [pawnOff], by simp⟩, by simp [clsOf, pawnOff]⟩
        · rw [if_neg c] at h; simp at h
      · by_cases c : (shift Dir.N (sqBB a) &&& bnot (BBs.of p).all) ≠ 0
        · rw [if_pos c] at h
          obtain ⟨c1, _, _, c4⟩ := (sq_up_iff .N 8 (by simp) a ha _).1 c
          simp only [List.singleton_append, List.mem_cons] at h
          rcases h with rfl | h
          · exact ⟨5, a + 8, 0, ⟨by decide, IsMv.ofMove a _ ha c1, hsqa, by simp [pawnOff], by simp; exact h7', by simp [pawnOff],
              by simp [pawnOff], by simp, by simp [pawnOff], by intro _; exact ⟨c4, c4⟩, by simp⟩, by simp [clsOf, pawnOff]⟩
          · by_cases c2 : (shift Dir.NN (sqBB a &&& rankBB 1) &&& bnot (BBs.of p).all) ≠ 0
            · rw [if_pos c2] at h
              obtain ⟨d1, d2⟩ := (sq_up2_iff a ha _).1 c2
              simp only [List.mem_singleton] at h
              subst h
              exact ⟨6, a + 16, 0, ⟨by decide, IsMv.ofMove a _ ha (by omega), hsqa, by simp [pawnOff], by simp; omega, by simp [pawnOff],
                by simp [pawnOff], by intro _; simpa using d1, by simp [pawnOff], by intro _; exact ⟨d2, d2⟩,
                by intro _; simp; exact c4⟩, by simp [clsOf, pawnOff]⟩
            · rw [if_neg c2] at h; simp at h
        · rw [if_neg c] at h; simp at h
      · by_cases c : (shift Dir.NE (sqBB a) &&& (BBs.of p).color (1 - 0)) ≠ 0
        · rw [if_pos c] at h
          obtain ⟨c1, c2, _, c4⟩ := (sq_up_iff .NE 9 (by simp) a ha _).1 c
          simp only [List.mem_singleton] at h
          subst h
          exact ⟨3, a + 9, 0, ⟨by decide, IsMv.ofMove a _ ha c1, hsqa, by simp [pawnOff], by simp; exact h7',
            by intro _; simpa using c2 rfl, by simp [pawnOff], by simp, by intro _; exact c4, by simp [pawnOff], by simp⟩, by simp [clsOf, pawnOff]⟩
        · rw [if_neg c] at h; simp at h
      · simp at h
  · rw [e] at h ⊢
    simp only [h10, if_false] at h
    by_cases h7 : rankOf a = 1
    · have h7' : a / 8 = 1 := h7
      rw [if_pos h7] at h
      rcases hr4 with q | q | q | q <;> rw [q] at h ⊢ <;> simp only [] at h
      · by_cases c : (shift Dir.SE (sqBB a) &&& (BBs.of p).color (1 - 1)) ≠ 0
        · rw [if_pos c] at h
          obtain ⟨c1, _, c3, c4⟩ := (sq_down_iff .SE 7 (by simp) a ha _).1 c
          rw [mem4] at h
          obtain ⟨k, hk, rfl⟩ : ∃ k, (k = 5 ∨ k = 4 ∨ k = 3 ∨ k = 2) ∧ code = mkPromotion a (a - 7) k := by
            rcases h with rfl | rfl | rfl | rfl
            · exact ⟨5, by simp, rfl⟩
            · exact ⟨4, by simp, rfl⟩
            · exact ⟨2, by simp, rfl⟩
            · exact ⟨3, by simp, rfl⟩
          exact ⟨1, a - 7, k, ⟨by decide, ⟨rfl, ha, by omega, by omega⟩, hsqa, by simp [pawnOff]; omega, by simp; exact ⟨hk, h7'⟩, by simp [pawnOff],
            by intro _; simpa using c3 rfl, by simp, by intro _; exact c4, by simp [pawnOff], by simp⟩, by simp [clsOf, pawnOff]⟩
        · rw [if_neg c] at h; simp at h
      · by_cases c : (shift Dir.S (sqBB a) &&& bnot (BBs.of p).all) ≠ 0
        · rw [if_pos c] at h
          obtain ⟨c1, _, _, c4⟩ := (sq_down_iff .S 8 (by simp) a ha _).1 c
          rw [mem4] at h
          obtain ⟨k, hk, rfl⟩ : ∃ k, (k = 5 ∨ k = 4 ∨ k = 3 ∨ k = 2) ∧ code = mkPromotion a (a - 8) k := by
            rcases h with rfl | rfl | rfl | rfl
            · exact ⟨5, by simp, rfl⟩
            · exact ⟨4, by simp, rfl⟩
            · exact ⟨2, by simp, rfl⟩
            · exact ⟨3, by simp, rfl⟩
          exact ⟨2, a - 8, k, ⟨by decide, ⟨rfl, ha, by omega, by omega⟩, hsqa, by simp [pawnOff]; omega, by simp; exact ⟨hk, h7'⟩, by simp [pawnOff],
            by simp [pawnOff], by simp, by simp [pawnOff], by intro _; exact ⟨c4, c4⟩, by simp⟩, by simp [clsOf, pawnOff]⟩
        · rw [if_neg c] at h; simp at h
      · by_cases c : (shift Dir.SW (sqBB a) &&& (BBs.of p).color (1 - 1)) ≠ 0
        · rw [if_pos c] at h
          obtain ⟨c1, c2, _, c4⟩ := (sq_down_iff .SW 9 (by simp) a ha _).1 c
          rw [mem4] at h
          obtain ⟨k, hk, rfl⟩ : ∃ k, (k = 5 ∨ k = 4 ∨ k = 3 ∨ k = 2) ∧ code = mkPromotion a (a - 9) k := by
            rcases h with rfl | rfl | rfl | rfl
            · exact ⟨5, by simp, rfl⟩
            · exact ⟨4, by simp, rfl⟩
            · exact ⟨2, by simp, rfl⟩
            · exact ⟨3, by simp, rfl⟩
          exact ⟨0, a - 9, k, ⟨by decide, ⟨rfl, ha, by omega, by omega⟩, hsqa, by simp [pawnOff]; omega, by simp; exact ⟨hk, h7'⟩,
            by intro _; simpa using c2 rfl, by simp [pawnOff], by simp, by intro _; exact c4, by simp [pawnOff], by simp⟩, by simp [clsOf, pawnOff]⟩
        · rw [if_neg c] at h; simp at h
      · simp at h
    · have h7' : a / 8 ≠ 1 := h7
      rw [if_neg h7] at h
      rcases hr4 with q | q | q | q <;> rw [q] at h ⊢ <;> simp only [] at h
      · by_cases c : (shift Dir.SE (sqBB a) &&& (BBs.of p).color (1 - 1)) ≠ 0
        · rw [if_pos c] at h
          obtain ⟨c1, _, c3, c4⟩ := (sq_down_iff .SE 7 (by simp) a ha _).1 c
          simp only [List.mem_singleton] at h
          subst h
          exact ⟨4, a - 7, 0, ⟨by decide, IsMv.ofMove a _ ha (by omega), hsqa, by simp [pawnOff]; omega, by simp; exact h7', by simp [pawnOff],
            by intro _; simpa using c3 rfl, by simp, by intro _; exact c4, by simp [pawnOff], by simp⟩, by simp [clsOf, pawnOff]⟩
        · rw [if_neg c] at h; simp at h
      · by_cases c : (shift Dir.S (sqBB a) &&& bnot (BBs.of p).all) ≠ 0
        · rw [if_pos c] at h
          obtain ⟨c1, _, _, c4⟩ := (sq_down_iff .S 8 (by simp) a ha _).1 c
          simp only [List.singleton_append, List.mem_cons] at h
          rcases h with rfl | h
          · exact ⟨5, a - 8, 0, ⟨by decide, IsMv.ofMove a _ ha (by omega), hsqa, by simp [pawnOff]; omega, by simp; exact h7', by simp [pawnOff],
              by simp [pawnOff], by simp, by simp [pawnOff], by intro _; exact ⟨c4, c4⟩, by simp⟩, by simp [clsOf, pawnOff]⟩
          · by_cases c2 : (shift Dir.SS (sqBB a &&& rankBB 6) &&& bnot (BBs.of p).all) ≠ 0
            · rw [if_pos c2] at h
              obtain ⟨d1, d2⟩ := (sq_down2_iff a ha _).1 c2
              simp only [List.mem_singleton] at h
              subst h
              exact ⟨6, a - 16, 0, ⟨by decide, IsMv.ofMove a _ ha (by omega), hsqa, by simp [pawnOff]; omega, by simp; omega, by simp [pawnOff],
                by simp [pawnOff], by intro _; simpa using d1, by simp [pawnOff], by intro _; exact ⟨d2, d2⟩,
                by intro _; simp; have e8 : a - 16 + 8 = a - 8 := by omega
                   rw [e8]; exact c4⟩, by simp [clsOf, pawnOff]⟩
            · rw [if_neg c2] at h; simp at h
        · rw [if_neg c] at h; simp at h
      · by_cases c : (shift Dir.SW (sqBB a) &&& (BBs.of p).color (1 - 1)) ≠ 0
        · rw [if_pos c] at h
          obtain ⟨c1, c2, _, c4⟩ := (sq_down_iff .SW 9 (by simp) a ha _).1 c
          simp only [List.mem_singleton] at h
          subst h
          exact ⟨3, a - 9, 0, ⟨by decide, IsMv.ofMove a _ ha (by omega), hsqa, by simp [pawnOff]; omega, by simp; exact h7',
            by intro _; simpa using c2 rfl, by simp [pawnOff], by simp, by intro _; exact c4, by simp [pawnOff], by simp⟩, by simp [clsOf, pawnOff]⟩
        · rw [if_neg c] at h; simp at h
      · simp at h

end Chess

namespace Chess

/-- a move of the set-wise pawn groups for the single pawn a, of the ray's class ⇒ GENERATED for the pinned pawn -/
theorem group_to_pinnedPawn (p : Position) (hs : p.side ≤ 1) (a r : Nat) (ha : a < 64) (code idx t k : Nat)
    (h : PawnMv p.side (sqBB a) (bnot (BBs.of p).all) (bnot (BBs.of p).all) ((BBs.of p).color (1 - p.side)) code idx a t k)
    (hcls : clsOf idx = r % 4) : code ∈ genPinnedPawnMoves (BBs.of p) p.side a r 64 := by
  have hoff := h.off
  have hpr := h.promo
  have h9 := h.file9
  have h7 := h.file7
  have hd := h.dbl
  have hcap := h.cap
  have hpush := h.push
  have hmid := h.mid
  have hi := h.idx7
  have hcode := h.mv.eq
  have ht := h.mv.t64
  have hcases : idx = 0 ∨ idx = 1 ∨ idx = 2 ∨ idx = 3 ∨ idx = 4 ∨ idx = 5 ∨ idx = 6 := by omega
  have hs01 : p.side = 0 ∨ p.side = 1 := by omega
  have h10 : ¬ ((1 : Nat) = 0) := by decide
  have h64 : ¬ ((64 : Nat) ≠ 64) := by simp
  unfold genPinnedPawnMoves
  simp only [h64, if_false, Nat.or_zero]
  rcases hs01 with e | e
  · rw [e] at hoff hpr h9 h7 hd hcap hmid ⊢
    simp only [if_true] at hoff hpr h9 h7 hd hmid ⊢
    rcases hcases with rfl | rfl | rfl | rfl | rfl | rfl | rfl <;> simp [pawnOff, clsOf] at hoff hpr h9 h7 hd hcap hpush hmid hcls <;> rw [← hcls] <;> simp only []
    · have h6 : rankOf a = 6 := hpr.2
      rw [if_pos h6, if_pos ((sq_up_iff .NE 9 (by simp) a ha _).2 ⟨by omega, fun _ => h9, by simp, by rw [← hoff]; exact hcap⟩), hcode, hoff, mem4]
      rcases hpr.1 with rfl | rfl | rfl | rfl <;> simp [QUEEN, ROOK, KNIGHT, BISHOP]
    · have h6 : rankOf a = 6 := hpr.2
      rw [if_pos h6, if_pos ((sq_up_iff .NW 7 (by simp) a ha _).2 ⟨by omega, by simp, fun _ => h7, by rw [← hoff]; exact hcap⟩), hcode, hoff, mem4]
      rcases hpr.1 with rfl | rfl | rfl | rfl <;> simp [QUEEN, ROOK, KNIGHT, BISHOP]
    · have h6 : rankOf a = 6 := hpr.2
      rw [if_pos h6, if_pos ((sq_up_iff .N 8 (by simp) a ha _).2 ⟨by omega, by simp, by simp, by rw [← hoff]; exact hpush⟩), hcode, hoff, mem4]
      rcases hpr.1 with rfl | rfl | rfl | rfl <;> simp [QUEEN, ROOK, KNIGHT, BISHOP]
    · have h6 : ¬ rankOf a = 6 := hpr.2
      rw [if_neg h6, if_pos ((sq_up_iff .NE 9 (by simp) a ha _).2 ⟨by omega, fun _ => h9, by simp, by rw [← hoff]; exact hcap⟩), hcode, hoff, hpr.1]
      exact List.mem_singleton.2 (mkMove_eq_promo _ _).symm
    · have h6 : ¬ rankOf a = 6 := hpr.2
      rw [if_neg h6, if_pos ((sq_up_iff .NW 7 (by simp) a ha _).2 ⟨by omega, by simp, fun _ => h7, by rw [← hoff]; exact hcap⟩), hcode, hoff, hpr.1]
      exact List.mem_singleton.2 (mkMove_eq_promo _ _).symm
    · have h6 : ¬ rankOf a = 6 := hpr.2
      rw [if_neg h6, if_pos ((sq_up_iff .N 8 (by simp) a ha _).2 ⟨by omega, by simp, by simp, by rw [← hoff]; exact hpush⟩), hcode, hoff, hpr.1]
      exact List.mem_append_left _ (List.mem_singleton.2 (mkMove_eq_promo _ _).symm)
    · have h6 : ¬ rankOf a = 6 := hpr.2
      have hmid' : (bnot (BBs.of p).all).testBit (a + 8) = true := by
        have : t - 8 = a + 8 := by omega
        rw [← this]; exact hmid
      rw [if_neg h6, if_pos ((sq_up_iff .N 8 (by simp) a ha _).2 ⟨by omega, by simp, by simp, hmid'⟩),
        if_pos ((sq_up2_iff a ha _).2 ⟨hd, by rw [← hoff]; exact hpush⟩), hcode, hoff, hpr.1]
      exact List.mem_append_right _ (List.mem_singleton.2 (mkMove_eq_promo _ _).symm)
  · rw [e] at hoff hpr h9 h7 hd hcap hmid ⊢
    simp only [h10, if_false] at hoff hpr h9 h7 hd hmid ⊢
    rcases hcases with rfl | rfl | rfl | rfl | rfl | rfl | rfl <;> simp [pawnOff, clsOf] at hoff hpr h9 h7 hd hcap hpush hmid hcls <;> rw [← hcls] <;> simp only []
    · have h6 : rankOf a = 1 := hpr.2
      have et : t = a - 9 := by omega
      rw [if_pos h6, if_pos ((sq_down_iff .SW 9 (by simp) a ha _).2 ⟨by omega, fun _ => h9, by simp, by rw [← et]; exact hcap⟩), hcode, et, mem4]
      rcases hpr.1 with rfl | rfl | rfl | rfl <;> simp [QUEEN, ROOK, KNIGHT, BISHOP]
    · have h6 : rankOf a = 1 := hpr.2
      have et : t = a - 7 := by omega
      rw [if_pos h6, if_pos ((sq_down_iff .SE 7 (by simp) a ha _).2 ⟨by omega, by simp, fun _ => h7, by rw [← et]; exact hcap⟩), hcode, et, mem4]
      rcases hpr.1 with rfl | rfl | rfl | rfl <;> simp [QUEEN, ROOK, KNIGHT, BISHOP]
    · have h6 : rankOf a = 1 := hpr.2
      have et : t = a - 8 := by omega
      rw [if_pos h6, if_pos ((sq_down_iff .S 8 (by simp) a ha _).2 ⟨by omega, by simp, by simp, by rw [← et]; exact hpush⟩), hcode, et, mem4]
      rcases hpr.1 with rfl | rfl | rfl | rfl <;> simp [QUEEN, ROOK, KNIGHT, BISHOP]
    · have h6 : ¬ rankOf a = 1 := hpr.2
      have et : t = a - 9 := by omega
      rw [if_neg h6, if_pos ((sq_down_iff .SW 9 (by simp) a ha _).2 ⟨by omega, fun _ => h9, by simp, by rw [← et]; exact hcap⟩), hcode, et, hpr.1]
      exact List.mem_singleton.2 (mkMove_eq_promo _ _).symm
    · have h6 : ¬ rankOf a = 1 := hpr.2
      have et : t = a - 7 := by omega
      rw [if_neg h6, if_pos ((sq_down_iff .SE 7 (by simp) a ha _).2 ⟨by omega, by simp, fun _ => h7, by rw [← et]; exact hcap⟩), hcode, et, hpr.1]
      exact List.mem_singleton.2 (mkMove_eq_promo _ _).symm
    · have h6 : ¬ rankOf a = 1 := hpr.2
      have et : t = a - 8 := by omega
      rw [if_neg h6, if_pos ((sq_down_iff .S 8 (by simp) a ha _).2 ⟨by omega, by simp, by simp, by rw [← et]; exact hpush⟩), hcode, et, hpr.1]
      exact List.mem_append_left _ (List.mem_singleton.2 (mkMove_eq_promo _ _).symm)
    · have h6 : ¬ rankOf a = 1 := hpr.2
      have et : t = a - 16 := by omega
      have hmid' : (bnot (BBs.of p).all).testBit (a - 8) = true := by
        have : t + 8 = a - 8 := by omega
        rw [← this]; exact hmid
      rw [if_neg h6, if_pos ((sq_down_iff .S 8 (by simp) a ha _).2 ⟨by omega, by simp, by simp, hmid'⟩),
        if_pos ((sq_down2_iff a ha _).2 ⟨hd, by rw [← et]; exact hpush⟩), hcode, et, hpr.1]
      exact List.mem_append_right _ (List.mem_singleton.2 (mkMove_eq_promo _ _).symm)

end Chess

namespace Chess

/-- the ray index of a pawn step, by colour and offset -/
def stepRay (side idx : Nat) : Nat :=
  if side = 0 then (if pawnOff idx = 7 then 0 else if pawnOff idx = 9 then 2 else 1)
  else (if pawnOff idx = 7 then 4 else if pawnOff idx = 9 then 6 else 5)

theorem slide_succ (b : List Nat) (c : Nat) (d : Int × Int) (n : Nat) (f r : Int) :
    Spec.slide b c d (n + 1) f r =
      if Spec.onBoard (f + d.1) (r + d.2) then
        (if Spec.pcAt b (Spec.sqOf (f + d.1) (r + d.2)) = 0 then Spec.sqOf (f + d.1) (r + d.2) :: Spec.slide b c d n (f + d.1) (r + d.2)
         else if Spec.isEnemy (Spec.pcAt b (Spec.sqOf (f + d.1) (r + d.2))) c then [Spec.sqOf (f + d.1) (r + d.2)] else [])
      else [] := rfl

/-- a pawn step (as described by its group facts) is a slide of the pawn's square in the step's direction -/
theorem pawn_step_slide (p : Position) (ok : BoardOK p.board) (hs : p.side ≤ 1) (pawns : BB) (m idx a t k : Nat)
    (h : PawnMv p.side pawns (bnot (BBs.of p).all) (bnot (BBs.of p).all) ((BBs.of p).color (1 - p.side)) m idx a t k) :
    t ∈ Spec.slide p.board p.side (rayDirI (stepRay p.side idx)) 7 (Spec.fileI a) (Spec.rankI a) := by
  have ha := h.mv.f64
  have ht := h.mv.t64
  have hoff := h.off
  have h9 := h.file9
  have h7 := h.file7
  have hd := h.dbl
  have hcap := h.cap
  have hpush := h.push
  have hmid := h.mid
  have hi := h.idx7
  have hcases : idx = 0 ∨ idx = 1 ∨ idx = 2 ∨ idx = 3 ∨ idx = 4 ∨ idx = 5 ∨ idx = 6 := by omega
  have hs01 : p.side = 0 ∨ p.side = 1 := by omega
  have h10 : ¬ ((1 : Nat) = 0) := by decide
  -- one step to an enemy piece, or to an empty square
  have cap1 : ∀ (d : Int × Int), Spec.onBoard (Spec.fileI a + d.1) (Spec.rankI a + d.2) = true → Spec.sqOf (Spec.fileI a + d.1) (Spec.rankI a + d.2) = t →
      ((BBs.of p).color (1 - p.side)).testBit t = true → t ∈ Spec.slide p.board p.side d 7 (Spec.fileI a) (Spec.rankI a) := by
    intro d hon hsq hc
    have hen := isEnemy_of_color p ok hs t hc
    have hnz : Spec.pcAt p.board t ≠ 0 := by
      intro h0; rw [h0, isEnemy_zero] at hen; cases hen
    rw [slide_succ, if_pos hon, hsq, if_neg hnz, if_pos hen]
    exact List.mem_singleton.2 rfl
  have push1 : ∀ (d : Int × Int), Spec.onBoard (Spec.fileI a + d.1) (Spec.rankI a + d.2) = true → Spec.sqOf (Spec.fileI a + d.1) (Spec.rankI a + d.2) = t →
      (bnot (BBs.of p).all).testBit t = true → t ∈ Spec.slide p.board p.side d 7 (Spec.fileI a) (Spec.rankI a) := by
    intro d hon hsq hc
    rw [slide_succ, if_pos hon, hsq, if_pos (empty_of_bnot_all p ok t ht hc)]
    exact List.mem_cons_self
  rcases hs01 with e | e
  · rw [e] at hoff h9 h7 hd hmid
    simp only [if_true] at hoff h9 h7 hd hmid
    unfold stepRay
    rw [if_pos e]
    rcases hcases with rfl | rfl | rfl | rfl | rfl | rfl | rfl <;> simp [pawnOff] at hoff h9 h7 hd hcap hpush hmid ⊢
    · obtain ⟨x, y⟩ := sqOf_step a t ha ht 1 1 (by omega) (by omega); exact cap1 (1, 1) x y hcap
    · obtain ⟨x, y⟩ := sqOf_step a t ha ht (-1) 1 (by omega) (by omega); exact cap1 (-1, 1) x y hcap
    · obtain ⟨x, y⟩ := sqOf_step a t ha ht 0 1 (by omega) (by omega); exact push1 (0, 1) x y hpush
    · obtain ⟨x, y⟩ := sqOf_step a t ha ht 1 1 (by omega) (by omega); exact cap1 (1, 1) x y hcap
    · obtain ⟨x, y⟩ := sqOf_step a t ha ht (-1) 1 (by omega) (by omega); exact cap1 (-1, 1) x y hcap
    · obtain ⟨x, y⟩ := sqOf_step a t ha ht 0 1 (by omega) (by omega); exact push1 (0, 1) x y hpush
    · -- double push: two empty squares
      obtain ⟨x1, y1⟩ := sqOf_step a (t - 8) ha (by omega) 0 1 (by omega) (by omega)
      have hz1 := empty_of_bnot_all p ok (t - 8) (by omega) hmid
      have x1' : Spec.onBoard (Spec.fileI a + (0, 1).1) (Spec.rankI a + (0, 1).2) = true := x1
      have y1' : Spec.sqOf (Spec.fileI a + (0, 1).1) (Spec.rankI a + (0, 1).2) = t - 8 := y1
      show t ∈ Spec.slide p.board p.side (0, 1) 7 (Spec.fileI a) (Spec.rankI a)
      rw [slide_succ, if_pos x1', y1', if_pos hz1]
      apply List.mem_cons_of_mem
      have hon2 : Spec.onBoard (Spec.fileI a + (0, 1).1 + (0, 1).1) (Spec.rankI a + (0, 1).2 + (0, 1).2) = true := by
        rw [onBoard_iff]; unfold Spec.fileI Spec.rankI; simp; omega
      have hsq2 : Spec.sqOf (Spec.fileI a + (0, 1).1 + (0, 1).1) (Spec.rankI a + (0, 1).2 + (0, 1).2) = t := by
        unfold Spec.sqOf Spec.fileI Spec.rankI; simp; omega
      rw [slide_succ, if_pos hon2, hsq2, if_pos (empty_of_bnot_all p ok t ht hpush)]
      exact List.mem_cons_self
  · rw [e] at hoff h9 h7 hd hmid
    simp only [h10, if_false] at hoff h9 h7 hd hmid
    unfold stepRay
    rw [if_neg (by omega)]
    rcases hcases with rfl | rfl | rfl | rfl | rfl | rfl | rfl <;> simp [pawnOff] at hoff h9 h7 hd hcap hpush hmid ⊢
    · obtain ⟨x, y⟩ := sqOf_step a t ha ht (-1) (-1) (by omega) (by omega); exact cap1 (-1, -1) x y hcap
    · obtain ⟨x, y⟩ := sqOf_step a t ha ht 1 (-1) (by omega) (by omega); exact cap1 (1, -1) x y hcap
    · obtain ⟨x, y⟩ := sqOf_step a t ha ht 0 (-1) (by omega) (by omega); exact push1 (0, -1) x y hpush
    · obtain ⟨x, y⟩ := sqOf_step a t ha ht (-1) (-1) (by omega) (by omega); exact cap1 (-1, -1) x y hcap
    · obtain ⟨x, y⟩ := sqOf_step a t ha ht 1 (-1) (by omega) (by omega); exact cap1 (1, -1) x y hcap
    · obtain ⟨x, y⟩ := sqOf_step a t ha ht 0 (-1) (by omega) (by omega); exact push1 (0, -1) x y hpush
    · obtain ⟨x1, y1⟩ := sqOf_step a (t + 8) ha (by omega) 0 (-1) (by omega) (by omega)
      have hz1 := empty_of_bnot_all p ok (t + 8) (by omega) hmid
      have x1' : Spec.onBoard (Spec.fileI a + (0, -1).1) (Spec.rankI a + (0, -1).2) = true := x1
      have y1' : Spec.sqOf (Spec.fileI a + (0, -1).1) (Spec.rankI a + (0, -1).2) = t + 8 := y1
      show t ∈ Spec.slide p.board p.side (0, -1) 7 (Spec.fileI a) (Spec.rankI a)
      rw [slide_succ, if_pos x1', y1', if_pos hz1]
      apply List.mem_cons_of_mem
      have hon2 : Spec.onBoard (Spec.fileI a + (0, -1).1 + (0, -1).1) (Spec.rankI a + (0, -1).2 + (0, -1).2) = true := by
        rw [onBoard_iff]; unfold Spec.fileI Spec.rankI; simp; omega
      have hsq2 : Spec.sqOf (Spec.fileI a + (0, -1).1 + (0, -1).1) (Spec.rankI a + (0, -1).2 + (0, -1).2) = t := by
        unfold Spec.sqOf Spec.fileI Spec.rankI; simp; omega
      rw [slide_succ, if_pos hon2, hsq2, if_pos (empty_of_bnot_all p ok t ht hpush)]
      exact List.mem_cons_self

end Chess

namespace Chess

theorem stepRay_cls (side idx r : Nat) (hs : side ≤ 1) (hi : idx < 7) (hr : r < 8) :
    (clsOf idx = r % 4 ↔ (stepRay side idx = r ∨ stepRay side idx = oppositeRay r)) ∧ stepRay side idx < 8 := by
  have hcases : idx = 0 ∨ idx = 1 ∨ idx = 2 ∨ idx = 3 ∨ idx = 4 ∨ idx = 5 ∨ idx = 6 := by omega
  have hs01 : side = 0 ∨ side = 1 := by omega
  have hr8 : r = 0 ∨ r = 1 ∨ r = 2 ∨ r = 3 ∨ r = 4 ∨ r = 5 ∨ r = 6 ∨ r = 7 := by omega
  rcases hs01 with rfl | rfl <;> rcases hcases with rfl | rfl | rfl | rfl | rfl | rfl | rfl <;>
    rcases hr8 with rfl | rfl | rfl | rfl | rfl | rfl | rfl | rfl <;> decide

/-- C01 for a pinned pawn out of check, no en-passant square: generated = legal -/
theorem pinned_pawn_exact (p : Position) (hwf : Spec.wf (absPos p) = true) (hnic : Spec.inCheck p.board p.side = false) (hep : p.ep = 64)
    (pin : Nat) (hmem : pin ∈ genPins (BBs.of p) p.board p.side) (hK : pinKind pin = PAWN) (code : Nat) :
    code ∈ genPinnedPieceMoves (BBs.of p) p.side pin (bnot (BBs.of p).all ||| (BBs.of p).color (1 - p.side)) p.ep ↔
      ∃ m, m ∈ Spec.legalMoves (absPos p) ∧ m.src = pinSquare pin ∧ codeOf (absPos p) m = code := by
  obtain ⟨hbo, hside, hkk, _, _⟩ := wf_board_hyps _ hwf
  have ok : BoardOK p.board := hbo
  have hs : p.side ≤ 1 := hside
  obtain ⟨k, hk, _⟩ := hkk p.side hs
  have hking : KingAt p.board p.side k := hk
  obtain ⟨r, s, rest, hpa, hray, ha64, hkind⟩ := pin_scan_of_mem p ok hs k hking pin hmem
  generalize hadef : pinSquare pin = a at *
  have hr := hpa.r8
  obtain ⟨_, hbf, _, _⟩ := own_piece p ok hs a hpa.own
  have hkN : kindOf (p.board.getD a 0) = PAWN := by rw [← hkind]; exact hK
  have hbK : p.board.getD a 0 = mkPiece p.side PAWN := by rw [hbf, hkN]
  have hownS : Spec.isOwn (Spec.pcAt (absPos p).board a) (absPos p).side = true := by
    show Spec.isOwn (p.board.getD a 0) p.side = true
    rw [hbK]
    have hs01 : p.side = 0 ∨ p.side = 1 := by omega
    rcases hs01 with e | e <;> rw [e] <;> decide
  have hnk : kindOf (p.board.getD a 0) ≠ KING := by rw [hkN]; decide
  have hsqa : ∀ f, (sqBB a).testBit f = true → f = a := by
    intro f h; rw [sqBB_testBit] at h; exact (of_decide_eq_true h).symm
  have hnoep : ∀ m : Spec.SMove, Spec.isEpCapture (absPos p) m = false := by
    intro m
    unfold Spec.isEpCapture
    have : (absPos p).ep = 64 := hep
    rw [this]; simp
  -- legality of a pawn move of this pawn = staying on the pin ray
  have legal_iff : ∀ t kk, (⟨a, t, kk⟩ : Spec.SMove) ∈ Spec.pseudoMoves (absPos p) →
      ((⟨a, t, kk⟩ : Spec.SMove) ∈ Spec.legalMoves (absPos p) ↔ (t = s ∨ thru (rayList k r) t s = true)) := by
    intro t kk hps
    have sok := stepOK_of_pseudo _ hwf _ hps
    have hnc : Spec.isCastle p.board ⟨a, t, kk⟩ = false := by
      unfold Spec.isCastle
      have : Spec.kindOfPc (Spec.pcAt p.board a) = 1 := hkN
      simp only []
      rw [this]; simp
    obtain ⟨k2, k', hk2, h1, h6, hsk, _, hsafe, hiff⟩ := ordinary_legal_iff p hwf hnic ⟨a, t, kk⟩ hps hnc (hnoep _) hnk
    have ek : k2 = k := kingAt_unique _ _ _ _ hk2 hking
    subst ek
    rw [hiff]
    constructor
    · intro hsf
      apply Decidable.byContradiction
      intro hnot
      simp only [not_or] at hnot
      have := pinned_exposed_off_ray p k2 r a s rest t k' hs ok hpa ha64 sok.dst sok.ne ⟨h1, h6⟩ hking ⟨hnot.1, by simpa using hnot.2⟩
      rw [hsf] at this; cases this
    · intro hon
      exact pinned_safe_on_ray p k2 r a s rest t k' hs ok hpa ha64 sok.dst sok.ne ⟨h1, h6⟩ hking hsk hsafe hon
  unfold genPinnedPieceMoves
  simp only []
  rw [hadef, hK, hray, hep]
  rw [if_neg (by decide), if_pos rfl]
  constructor
  · intro h
    obtain ⟨idx, t, kk, hP, hcls⟩ := pinnedPawn_to_group p hs a r ha64 code h
    have hlisted := pawn_gen_listed p ok hs _ code idx a t kk hP
    have hps := mem_pseudo_of_piece (absPos p) a ha64 hownS _ 1 hkN hlisted
    have hsl := pawn_step_slide p ok hs _ code idx a t kk hP
    obtain ⟨hc, _⟩ := stepRay_cls p.side idx r hs hP.idx7 hr
    have hon : t = s ∨ thru (rayList k r) t s = true := by
      apply slide_on_seg p ok hs k r a s rest hpa hking t
      rcases hc.1 hcls with e | e
      · left; rw [← e]; exact hsl
      · right; rw [← e]; exact hsl
    refine ⟨⟨a, t, kk⟩, (legal_iff t kk hps).2 hon, rfl, ?_⟩
    rw [codeOf_plain p ⟨a, t, kk⟩ hnk]
    exact hP.mv.eq.symm
  · rintro ⟨m, hm, hsrc, rfl⟩
    have hps : m ∈ Spec.pseudoMoves (absPos p) := by unfold Spec.legalMoves at hm; exact (List.mem_filter.1 hm).1
    have hpm : m ∈ Spec.pawnMoves (absPos p) a := by
      rcases pseudo_cases (absPos p) m hps with hc | ⟨sq, hsq, _, h | h | h | h | h | h⟩
      · exfalso
        obtain ⟨hkc, hc⟩ := mem_castleMoves (absPos p) m hc
        have hsrc4 : m.src = (if (absPos p).side = 0 then 0 else 56) + 4 := by rcases hc with ⟨rfl, _⟩ | ⟨rfl, _⟩ <;> rfl
        have hkb : p.board.getD ((if p.side = 0 then 0 else 56) + 4) 0 = Spec.mkPc p.side 6 := hkc
        have e4 : (if p.side = 0 then 0 else 56) + 4 = a := by rw [← hsrc]; exact hsrc4.symm
        rw [e4, hbK, mkPc_eq' _ 6 (by decide)] at hkb
        have := (mkPiece_inj p.side PAWN p.side KING hs hs (by decide) (by decide) hkb).2
        cases this
      · have e := (mem_pawnMoves (absPos p) sq m h.2).1
        have : sq = a := by rw [← e, hsrc]
        rw [← this]; exact h.2
      · exfalso
        obtain ⟨d, _, _, hmv, _⟩ := mem_stepMoves (absPos p) sq _ m h.2
        have : sq = a := by rw [← hsrc, hmv]
        rw [this] at h
        have h1 : kindOf (p.board.getD a 0) = 2 := h.1
        rw [hkN] at h1; cases h1
      · exfalso
        obtain ⟨d, _, t, _, hmv⟩ := mem_slideMoves (absPos p) sq _ m h.2
        have : sq = a := by rw [← hsrc, hmv]
        rw [this] at h
        have h1 : kindOf (p.board.getD a 0) = 3 := h.1
        rw [hkN] at h1; cases h1
      · exfalso
        obtain ⟨d, _, t, _, hmv⟩ := mem_slideMoves (absPos p) sq _ m h.2
        have : sq = a := by rw [← hsrc, hmv]
        rw [this] at h
        have h1 : kindOf (p.board.getD a 0) = 4 := h.1
        rw [hkN] at h1; cases h1
      · exfalso
        obtain ⟨d, _, t, _, hmv⟩ := mem_slideMoves (absPos p) sq _ m h.2
        have : sq = a := by rw [← hsrc, hmv]
        rw [this] at h
        have h1 : kindOf (p.board.getD a 0) = 5 := h.1
        rw [hkN] at h1; cases h1
      · exfalso
        obtain ⟨d, _, _, hmv, _⟩ := mem_stepMoves (absPos p) sq _ m h.2
        have : sq = a := by rw [← hsrc, hmv]
        rw [this] at h
        have h1 : kindOf (p.board.getD a 0) = 6 := h.1
        rw [hkN] at h1; cases h1
    have hne : ¬ (p.ep ≠ 64 ∧ m.dst = p.ep ∧ Spec.isEnemy (Spec.pcAt p.board m.dst) p.side = false ∧ Spec.fileI a ≠ Spec.fileI m.dst) := by
      rintro ⟨h1, _⟩; exact h1 hep
    have hsq : (sqBB a).testBit a = true := by rw [sqBB_testBit]; simp
    obtain ⟨_, hgen⟩ : m.src = a ∧ mkPromotion a m.dst m.promo ∈ genP p (sqBB a) := by
      have hs01 : p.side = 0 ∨ p.side = 1 := by omega
      rcases hs01 with e | e
      · exact pawn_listed_gen_white p e ok _ a ha64 hsq m hpm hne
      · exact pawn_listed_gen_black p e ok _ a ha64 hsq m hpm hne
    obtain ⟨idx, f, t, kk, hP⟩ := mem_genPawnMoves p.side hs _ _ _ _ (fun j hj => by rw [hsqa j hj]; exact ha64) _ hgen
    have hfa : f = a := hsqa f hP.pawn
    subst hfa
    -- the code determines the fields
    have hmv2 : IsMv (mkPromotion f m.dst m.promo) f m.dst m.promo := ⟨rfl, ha64, (stepOK_of_pseudo _ hwf m hps).dst, by have := (stepOK_of_pseudo _ hwf m hps).promo.1; omega⟩
    have et : t = m.dst := by have := hP.mv.to_; rw [hmv2.to_] at this; exact this.symm
    have ek : kk = m.promo := by have := hP.mv.promo_; rw [hmv2.promo_] at this; exact this.symm
    subst et; subst ek
    have hmeq : m = ⟨f, m.dst, m.promo⟩ := by cases m; simp at hsrc ⊢; exact hsrc
    have hleg : (⟨f, m.dst, m.promo⟩ : Spec.SMove) ∈ Spec.legalMoves (absPos p) := by rw [← hmeq]; exact hm
    have hps' : (⟨f, m.dst, m.promo⟩ : Spec.SMove) ∈ Spec.pseudoMoves (absPos p) := by rw [← hmeq]; exact hps
    have hon := (legal_iff m.dst m.promo hps').1 hleg
    have hsl := pawn_step_slide p ok hs _ _ idx f m.dst m.promo hP
    obtain ⟨hc, hst⟩ := stepRay_cls p.side idx r hs hP.idx7 hr
    have hcls : clsOf idx = r % 4 := by
      apply hc.2
      apply Decidable.byContradiction
      intro hnot
      simp only [not_or] at hnot
      have := slide_off_seg p ok k r f s rest hpa hking (stepRay p.side idx) hst hnot.1 hnot.2 m.dst hsl
      rcases hon with e | e
      · exact this.1 e
      · rw [this.2] at e; cases e
    rw [codeOf_plain p m (by rw [hsrc]; exact hnk), hsrc]
    exact group_to_pinnedPawn p hs f r ha64 _ idx m.dst m.promo hP hcls

end Chess
