/-
  Lemmas/PawnMask.lean — the pawn generator under evasion masks: a pawn move is generated with the masks (pm, cm) exactly when it is
  generated with the free masks (empty squares, enemy pieces) and its destination is a bit of cm ∪ pm.
-/
import ChessVerif.Lemmas.PawnExact2
namespace Chess

theorem pawnMv_gen (p : Position) (hs : p.side ≤ 1) (pawns empty pm cm : BB) (m idx f t k : Nat)
    (h : PawnMv p.side pawns empty pm cm m idx f t k) : m ∈ genPawnMoves p.side pawns empty pm cm := by
  rw [h.mv.eq]
  apply pawn_gen_of p hs pawns empty pm cm idx f t k h.idx7 h.mv.f64 h.mv.t64 h.pawn h.off h.promo h.file9 h.file7 h.cap h.push
  intro h6
  refine ⟨h.dbl h6, ?_⟩
  have hm := h.mid h6
  have ho := h.off
  subst h6
  simp only [pawnOff] at ho
  by_cases h0 : p.side = 0
  · rw [if_pos h0] at hm ho ⊢
    have : t - 8 = f + 8 := by simp at ho; omega
    rw [← this]; exact hm
  · rw [if_neg h0] at hm ho ⊢
    have : t + 8 = f - 8 := by simp at ho; omega
    rw [← this]; exact hm

theorem pawnOff_cases (idx : Nat) : pawnOff idx = 9 ∨ pawnOff idx = 7 ∨ pawnOff idx = 8 ∨ pawnOff idx = 16 := by
  unfold pawnOff
  by_cases a : idx = 0 ∨ idx = 3
  · rw [if_pos a]; exact Or.inl rfl
  · rw [if_neg a]
    by_cases b : idx = 1 ∨ idx = 4
    · rw [if_pos b]; exact Or.inr (Or.inl rfl)
    · rw [if_neg b]
      by_cases c : idx = 6
      · rw [if_pos c]; exact Or.inr (Or.inr (Or.inr rfl))
      · rw [if_neg c]; exact Or.inr (Or.inr (Or.inl rfl))

/-- masks inside the free masks: generated with (pm, cm) ⇔ generated freely and the destination is in cm ∪ pm -/
theorem pawn_mask_iff (p : Position) (hs : p.side ≤ 1) (pawns empty enemy pm cm : BB) (hp : ∀ j, pawns.testBit j = true → j < 64)
    (hcm : ∀ t, t < 64 → cm.testBit t = true → enemy.testBit t = true) (hpm : ∀ t, t < 64 → pm.testBit t = true → empty.testBit t = true)
    (hdis : ∀ t, enemy.testBit t = true → empty.testBit t = true → False) (m : Nat) :
    m ∈ genPawnMoves p.side pawns empty pm cm ↔
      ∃ idx f t k, PawnMv p.side pawns empty empty enemy m idx f t k ∧ (cm ||| pm).testBit t = true := by
  constructor
  · intro h
    obtain ⟨idx, f, t, k, hP⟩ := mem_genPawnMoves p.side hs pawns empty pm cm hp m h
    refine ⟨idx, f, t, k, ⟨hP.idx7, hP.mv, hP.pawn, hP.off, hP.promo, hP.file9, hP.file7, hP.dbl, fun c => hcm _ hP.mv.t64 (hP.cap c),
      fun c => ⟨(hP.push c).1, (hP.push c).1⟩, hP.mid⟩, ?_⟩
    rw [Nat.testBit_or]
    rcases pawnOff_cases idx with c | c | c | c
    · rw [hP.cap (Or.inl c)]; rfl
    · rw [hP.cap (Or.inr c)]; rfl
    · rw [(hP.push (Or.inl c)).2]; simp
    · rw [(hP.push (Or.inr c)).2]; simp
  · rintro ⟨idx, f, t, k, hP, hT⟩
    rw [Nat.testBit_or] at hT
    simp only [Bool.or_eq_true] at hT
    apply pawnMv_gen p hs pawns empty pm cm m idx f t k
    refine ⟨hP.idx7, hP.mv, hP.pawn, hP.off, hP.promo, hP.file9, hP.file7, hP.dbl, ?_, ?_, hP.mid⟩
    · intro c
      rcases hT with h | h
      · exact h
      · exact absurd (hpm t hP.mv.t64 h) (fun he => hdis t (hP.cap c) he)
    · intro c
      refine ⟨(hP.push c).1, ?_⟩
      rcases hT with h | h
      · exact absurd (hP.push c).1 (fun he => hdis t (hcm t hP.mv.t64 h) he)
      · exact h

end Chess
