/-
  Lemmas/EpExact.lean — exactness of the generated en-passant captures: `generate_enpassant` (masks, rank test) and the en-passant
  capture of a diagonally pinned pawn emit a capture exactly when the rules allow it.
-/
import ChessVerif.Lemmas.EpSafe
namespace Chess

theorem oppositeRay_3 : oppositeRay 3 = 7 := by decide

/-- the rank test, as a walk along the king's rank over the occupancy without capturer and captured pawn -/
theorem epBlocked_iff (p : Position) (ok : BoardOK p.board) (f t cap : Nat) (h : EpMove p f t cap) (k : Nat) (hking : KingAt p.board p.side k) :
    epBlocked (BBs.of p) p.board p.side t f ↔
      ∃ r c, (r = 3 ∨ r = 7) ∧ (Spec.walk (rayList k r) ((BBs.of p).all ^^^ (sqBB cap ||| sqBB f))).testBit c = true ∧
        ((BBs.of p).ck (1 - p.side) ROOK ||| (BBs.of p).ck (1 - p.side) QUEEN).testBit c = true := by
  have hks : kingSq p.board p.side = k := kingSq_eq p.board p.side k ok.len hking
  have hcap : epCap p.side t = cap := by unfold epCap; rw [h.capdef]
  unfold epBlocked attackInLine
  rw [hks, hcap, oppositeRay_3, attackInRay_walk k 3 hking.lt (by decide), attackInRay_walk k 7 hking.lt (by decide), meets_iff]
  constructor
  · rintro ⟨c, h1, h2⟩
    rw [Nat.testBit_or] at h1
    simp only [Bool.or_eq_true] at h1
    rcases h1 with h1 | h1
    · exact ⟨3, c, Or.inl rfl, h1, h2⟩
    · exact ⟨7, c, Or.inr rfl, h1, h2⟩
  · rintro ⟨r, c, hr, h1, h2⟩
    refine ⟨c, ?_, h2⟩
    rw [Nat.testBit_or]
    rcases hr with rfl | rfl
    · rw [h1]; rfl
    · rw [h1]; simp

theorem blockers_testBit (occ : BB) (f cap x : Nat) (hf : occ.testBit f = true) (hcap : occ.testBit cap = true) :
    (occ ^^^ (sqBB cap ||| sqBB f)).testBit x = (occ.testBit x && decide (x ≠ f) && decide (x ≠ cap)) := by
  rw [Nat.testBit_xor, Nat.testBit_or, sqBB_testBit, sqBB_testBit]
  by_cases e1 : x = f
  · subst e1; simp [hf]
  · by_cases e2 : x = cap
    · subst e2; simp [hcap]
    · have : ¬ f = x := fun e => e1 e.symm
      have : ¬ cap = x := fun e => e2 e.symm
      simp [*]

theorem walk_blockers_iff (L : List Nat) (occ : BB) (f cap c : Nat) (hf : occ.testBit f = true) (hcap : occ.testBit cap = true) :
    (Spec.walk L (occ ^^^ (sqBB cap ||| sqBB f))).testBit c = true ↔
      (c ∈ L ∧ ∀ x, thru L x c = true → occ.testBit x = true → (x = f ∨ x = cap)) := by
  rw [walk_iff]
  constructor
  · rintro ⟨hc, hb⟩
    refine ⟨hc, ?_⟩
    intro x hx ho
    have := hb x hx
    rw [blockers_testBit occ f cap x hf hcap, ho] at this
    simp only [Bool.true_and, Bool.and_eq_false_iff, decide_eq_false_iff_not, ne_eq, Decidable.not_not] at this
    exact this
  · rintro ⟨hc, hb⟩
    refine ⟨hc, ?_⟩
    intro x hx
    rw [blockers_testBit occ f cap x hf hcap]
    by_cases ho : occ.testBit x = true
    · rcases hb x hx ho with e | e
      · subst e; simp
      · subst e; simp
    · simp [ho]

end Chess

namespace Chess

theorem ep_occ (p : Position) (ok : BoardOK p.board) (f t cap : Nat) (h : EpMove p f t cap) :
    (BBs.of p).all.testBit f = true ∧ (BBs.of p).all.testBit cap = true ∧ (BBs.of p).all.testBit t = false := by
  refine ⟨?_, ?_, ?_⟩
  · rw [all_testBit p f ok]; simp only [Bool.and_eq_true, decide_eq_true_eq]
    exact ⟨h.f64, by rw [h.own]; exact mkPiece_ne_zero _ _ (by decide)⟩
  · rw [all_testBit p cap ok]; simp only [Bool.and_eq_true, decide_eq_true_eq]
    exact ⟨h.cap64, by rw [h.victim]; exact mkPiece_ne_zero _ _ (by decide)⟩
  · rw [all_testBit p t ok, h.empty]; simp

/-- the rank test fires ⇒ the king would be attacked after the capture -/
theorem blocked_exposed (p : Position) (ok : BoardOK p.board) (hs : p.side ≤ 1) (f t cap : Nat) (h : EpMove p f t cap) (k : Nat)
    (hking : KingAt p.board p.side k) (hkf : k ≠ f)
    (hb : epBlocked (BBs.of p) p.board p.side t f) : EpExposed p f t cap k := by
  have hk := hking.lt
  obtain ⟨of, oc, ot⟩ := ep_occ p ok f t cap h
  obtain ⟨r, c, hr37, hw, hrq⟩ := (epBlocked_iff p ok f t cap h k hking).1 hb
  have hr : r < 8 := by rcases hr37 with rfl | rfl <;> decide
  have hodd : r % 2 = 1 := by rcases hr37 with rfl | rfl <;> decide
  have hr3 : r % 4 = 3 := by rcases hr37 with rfl | rfl <;> decide
  have hsl : (slidersOf p r).testBit c = true := by rw [sliders_orth p r c hodd]; exact hrq
  obtain ⟨occ_c, cf, ct, cc, _⟩ := slider_sq p ok hs f t cap h r c hsl
  obtain ⟨hcL, hB⟩ := (walk_blockers_iff (rayList k r) (BBs.of p).all f cap c of oc).1 hw
  have hnd := rayList_nodup k r hk hr
  by_cases bf : thru (rayList k r) f c = true
  · by_cases bc : thru (rayList k r) cap c = true
    · exact EpExposed.rank r c hr hr3 hcL hsl bf bc hB
    · obtain ⟨rest, hfil⟩ := filter_of_one_before (rayList k r) (BBs.of p).all f c hnd hcL occ_c of bf (by
        intro x hx ho
        rcases hB x hx ho with e | e
        · exact e
        · rw [e] at hx; exact absurd hx bc)
      refine EpExposed.pin r c rest hr hfil hsl ?_
      apply Bool.eq_false_iff.2
      intro e
      exact ep_rank_no_t h hs k r hk hr (thru_mem _ _ _ bf).1 hr3 (thru_mem _ _ _ e).1
  · by_cases bc : thru (rayList k r) cap c = true
    · exfalso
      obtain ⟨fL, hsame⟩ := ep_rank_neighbour h hs k r hk hr (thru_mem _ _ _ bc).1 hr3 (fun e => hkf e.symm)
      have := hsame c hcL cc cf
      rw [bc] at this
      exact bf this.symm
    · refine EpExposed.checker c cc (Checks.orth r hr hodd ?_ hrq)
      rw [walk_iff]
      refine ⟨hcL, ?_⟩
      intro x hx
      apply Bool.eq_false_iff.2
      intro ho
      rcases hB x hx ho with e | e
      · rw [e] at hx; exact bf hx
      · rw [e] at hx; exact bc hx

/-- a rank exposure ⇒ the rank test fires -/
theorem rank_blocked (p : Position) (ok : BoardOK p.board) (f t cap : Nat) (h : EpMove p f t cap) (k : Nat)
    (hking : KingAt p.board p.side k) (r c : Nat) (hr : r < 8) (hr3 : r % 4 = 3) (hcL : c ∈ rayList k r) (hsl : (slidersOf p r).testBit c = true)
    (hB : ∀ x, thru (rayList k r) x c = true → (BBs.of p).all.testBit x = true → (x = f ∨ x = cap)) :
    epBlocked (BBs.of p) p.board p.side t f := by
  obtain ⟨of, oc, _⟩ := ep_occ p ok f t cap h
  rw [epBlocked_iff p ok f t cap h k hking]
  have hodd : r % 2 = 1 := by omega
  refine ⟨r, c, by omega, (walk_blockers_iff (rayList k r) (BBs.of p).all f cap c of oc).2 ⟨hcL, hB⟩, ?_⟩
  rw [← sliders_orth p r c hodd]; exact hsl

end Chess

namespace Chess

/-- the code of an en-passant capture is not generated on the position without its en-passant square -/
theorem nonep_no (p : Position) (hwf : Spec.wf (absPos p) = true) (f t cap : Nat) (h : EpMove p f t cap) : mkMove f t ∉ genMoves (noEp p) := by
  intro hg
  obtain ⟨hbo, hs', _, _, _⟩ := wf_board_hyps _ hwf
  have hs : p.side ≤ 1 := hs'
  obtain ⟨m, hm, hc⟩ := (exact_noep (noEp p) (wf_noEp p hwf) rfl _).1 hg
  obtain ⟨hm', hne⟩ := (legal_noEp p hwf m).1 hm
  rw [codeOf_noEp] at hc
  have hps : m ∈ Spec.pseudoMoves (absPos p) := by unfold Spec.legalMoves at hm'; exact (List.mem_filter.1 hm').1
  have sok := stepOK_of_pseudo _ hwf m hps
  obtain ⟨e1, e2, e3, e4⟩ := Props.C16_encoding f t 0 h.f64 h.t64 (by decide)
  rw [← mkMove_eq_promo] at e1 e2 e3 e4
  unfold codeOf at hc
  by_cases hcas : Spec.isCastle (absPos p).board m = true
  · rw [if_pos hcas] at hc
    by_cases hd : m.dst = m.src + 2
    · rw [if_pos hd] at hc
      have : moveCastling (mkCastling KING_CASTLING) = 0 := by rw [hc]; exact e4
      revert this; decide
    · rw [if_neg hd] at hc
      have : moveCastling (mkCastling QUEEN_CASTLING) = 0 := by rw [hc]; exact e4
      revert this; decide
  · rw [if_neg hcas] at hc
    obtain ⟨c1, c2, _, _⟩ := Props.C16_encoding m.src m.dst m.promo sok.src sok.dst (by have := sok.promo.1; omega)
    rw [hc, e1] at c1
    rw [hc, e2] at c2
    have : Spec.isEpCapture (absPos p) m = true := by
      unfold Spec.isEpCapture
      simp only [Bool.and_eq_true, decide_eq_true_eq]
      have hkP : Spec.kindOfPc (Spec.pcAt (absPos p).board m.src) = 1 := by
        show kindOf (p.board.getD m.src 0) = 1
        rw [← c1, h.own]; exact kindOf_mkPiece _ _ hs (by decide)
      refine ⟨⟨⟨hkP, by rw [← c2]; exact h.tep⟩, h.ep64⟩, ?_⟩
      rw [← c1, ← c2]
      have hn := h.nums hs
      unfold Spec.fileI
      rcases hn with ⟨_, _, g, g2⟩ | ⟨_, _, g, g2⟩ <;> omega
    rw [hne] at this; cases this

theorem base_sub_noEp (p : Position) (c : Nat) (h : c ∈ genWith p (fun _ _ _ => []) (fun _ => [])) : c ∈ genMoves (noEp p) := by
  rw [genMoves_noEp_with]
  have := genWith_split p (epListOf p 64) (fun _ _ _ => []) (pinnedListOf p 64) (fun _ => []) c False
    (fun pm cm hc => by cases hc) (fun T hc => by cases hc) h
  rcases this with h | h
  · exact h
  · exact h.elim

end Chess

namespace Chess

/-- a pawn that attacks the king: the square beyond it (where a capturing pawn would land en passant) is on no ray from the king -/
def pawnCheckOffRayOK : Bool :=
  (List.range 64).all fun k => (List.range 64).all fun c =>
    (!(pawnAttacks 0 (sqBB k)).testBit c || (List.range 8).all fun r => !(rayList k r).contains (c + 8)) &&
    (!(pawnAttacks 1 (sqBB k)).testBit c || decide (c < 8) || (List.range 8).all fun r => !(rayList k r).contains (c - 8))
theorem pawnCheckOffRayOK_true : pawnCheckOffRayOK = true := by decide +kernel

theorem pawn_check_off_ray (p : Position) (hs : p.side ≤ 1) (f t cap : Nat) (h : EpMove p f t cap) (k : Nat) (hk : k < 64)
    (hp : (pawnAttacks p.side (sqBB k)).testBit cap = true) (r : Nat) (hr : r < 8) : t ∉ rayList k r := by
  have ht := pawnCheckOffRayOK_true
  simp only [pawnCheckOffRayOK, List.all_eq_true, List.mem_range, Bool.and_eq_true, Bool.or_eq_true, Bool.not_eq_true', List.contains_eq_mem,
    decide_eq_false_iff_not, decide_eq_true_eq] at ht
  have hn := h.nums hs
  obtain ⟨h0, h1⟩ := ht k hk cap h.cap64
  rcases hn with ⟨s0, n1, _, _⟩ | ⟨s1, n1, _, _⟩
  · rw [s0] at hp
    rcases h0 with e | e
    · rw [hp] at e; cases e
    · have := e r hr; rw [n1] at this; exact this
  · rw [s1] at hp
    rcases h1 with (e | e) | e
    · rw [hp] at e; cases e
    · have := h.t16; omega
    · have := e r hr
      have e8 : cap - 8 = t := by omega
      rw [e8] at this; exact this

/-- an attacker of the king is a bit of the checkers bitboard -/
theorem checks_bit (p : Position) (ok : BoardOK p.board) (k c : Nat) (hking : KingAt p.board p.side k) (h : Checks p k c) :
    (checkersBB (BBs.of p) p.board p.side).testBit c = true := by
  have hk := hking.lt
  have hks : kingSq p.board p.side = k := kingSq_eq p.board p.side k ok.len hking
  apply pre_is_checker p k c hk hks
  have hb := Props.C11_slider BISHOP k hk (BBs.of p).all
  have hr := Props.C11_slider ROOK k hk (BBs.of p).all
  simp [sliderAttack, Spec.rayWalk] at hb
  simp [sliderAttack, Spec.rayWalk, ROOK, BISHOP] at hr
  have hb' : bishopAttack k (BBs.of p).all = Spec.walkDirs Spec.bishopDirs k (BBs.of p).all := hb
  have hr' : rookAttack k (BBs.of p).all = Spec.walkDirs Spec.rookDirs k (BBs.of p).all := hr
  cases h with
  | pawn a b => exact Or.inl ⟨a, b⟩
  | knight a b => exact Or.inr (Or.inl ⟨a, b⟩)
  | diag r hr8 hev hw h2 =>
    refine Or.inr (Or.inr (Or.inl ⟨?_, h2⟩))
    rw [hb']; unfold Spec.walkDirs; rw [walkDirs_testBit]
    exact Or.inr ⟨rayDirI r, (ray_dir_mem r hr8).1 hev, hw⟩
  | orth r hr8 hodd hw h2 =>
    refine Or.inr (Or.inr (Or.inr ⟨?_, h2⟩))
    rw [hr']; unfold Spec.walkDirs; rw [walkDirs_testBit]
    exact Or.inr ⟨rayDirI r, (ray_dir_mem r hr8).2 hodd, hw⟩

theorem mkMove_from_inj (a a' b b' : Nat) (ha : a < 64) (ha' : a' < 64) (hb : b < 64) (hb' : b' < 64) (h : mkMove a b = mkMove a' b') : a = a' ∧ b = b' := by
  obtain ⟨e1, e2, _, _⟩ := Props.C16_encoding a b 0 ha hb (by decide)
  obtain ⟨e1', e2', _, _⟩ := Props.C16_encoding a' b' 0 ha' hb' (by decide)
  rw [← mkMove_eq_promo] at e1 e2 e1' e2'
  rw [h] at e1 e2
  exact ⟨by rw [← e1, e1'], by rw [← e2, e2']⟩

end Chess

namespace Chess

/-- the other capturer of the same en-passant square is also an `EpMove` -/
theorem EpMove.other {p : Position} {f t cap : Nat} (h : EpMove p f t cap) (f2 : Nat) (h64 : f2 < 64)
    (hown : p.board.getD f2 0 = mkPiece p.side PAWN)
    (hgeo : if p.side = 0 then ((t = f2 + 7 ∨ t = f2 + 9) ∧ t / 8 = f2 / 8 + 1) else ((t + 7 = f2 ∨ t + 9 = f2) ∧ t / 8 + 1 = f2 / 8)) :
    EpMove p f2 t cap :=
  ⟨h.ep64, h.tep, h.capdef, h64, h.t16, h.t48, hown, h.empty, h.victim, hgeo⟩

/-- SOUNDNESS of the generated en-passant captures -/
theorem ep_sound (p : Position) (hwf : Spec.wf (absPos p) = true) (f t cap : Nat) (h : EpMove p f t cap) (k : Nat)
    (hking : KingAt p.board p.side k) (hkf : k ≠ f) (hkt : k ≠ t) (hkc : k ≠ cap)
    (hgen : (¬ (checkersBB (BBs.of p) p.board p.side ≠ 0 ∧ moreThanOne (checkersBB (BBs.of p) p.board p.side) = true) ∧
          mkMove f t ∈ epListOf p p.ep ((BBs.of p).ck p.side PAWN &&& bnot (pinnedBB p)) (pmOf p) (cmOf p)) ∨
       (checkersBB (BBs.of p) p.board p.side = 0 ∧ mkMove f t ∈ pinnedListOf p p.ep (pmOf p ||| cmOf p))) :
    ¬ EpExposed p f t cap k := by
  obtain ⟨hbo, hs', _, _, _⟩ := wf_board_hyps _ hwf
  have hs : p.side ≤ 1 := hs'
  have ok : BoardOK p.board := hbo
  have hk := hking.lt
  have hks : kingSq p.board p.side = k := kingSq_eq p.board p.side k ok.len hking
  have hn := h.nums hs
  have hte := h.tep
  have hcapE : epCap p.side t = cap := by unfold epCap; rw [h.capdef]
  obtain ⟨of, oc, ot⟩ := ep_occ p ok f t cap h
  have hnp : ∀ j, ((BBs.of p).ck p.side PAWN &&& bnot (pinnedBB p)).testBit j = true → j < 64 := fun j hj => (pawnSrc p ok hs (pinnedBB p) j hj).1
  rcases hgen with ⟨hnd, hmem⟩ | ⟨hc0, hmem⟩
  · -- emitted by generate_enpassant: the capturer is not pinned
    unfold epListOf at hmem
    rw [if_pos h.ep64, ← hte, mem_genEnpassant_iff] at hmem
    obtain ⟨hG, hcand⟩ := hmem
    -- the capturer f is one of the two candidates, the other one (if any) is another capturer
    have cand : ((BBs.of p).ck p.side PAWN &&& bnot (pinnedBB p)).testBit f = true ∧
        ((∃ f2, f2 ≠ f ∧ EpMove p f2 t cap) ∨ ¬ epBlocked (BBs.of p) p.board p.side t f) := by
      rcases hcand with ⟨hR, hc, hoth⟩ | ⟨hL, hc, hoth⟩
      · obtain ⟨hb, hfile⟩ := (ep_right_iff p.side hs _ hnp t ⟨h.t16, h.t48⟩).1 hR
        have h64 := hnp _ hb
        have e := (mkMove_from_inj f (epR p.side t) t t h.f64 h64 h.t64 h.t64 hc).1
        have e' : f = (if p.side = 0 then t - 9 else t + 9) := e
        rw [← e'] at hb
        rw [← e] at hoth
        refine ⟨hb, ?_⟩
        rcases hoth with hL | hB
        · left
          obtain ⟨hb2, hfile2⟩ := (ep_left_iff p.side hs _ hnp t ⟨h.t16, h.t48⟩).1 hL
          obtain ⟨l64, lown, _⟩ := pawnSrc p ok hs (pinnedBB p) _ hb2
          refine ⟨_, ?_, h.other _ l64 lown ?_⟩
          · unfold epR at e; have := h.t16
            rcases hn with ⟨s0, _⟩ | ⟨s1, _⟩
            · rw [if_pos s0] at e ⊢; omega
            · rw [if_neg (by omega)] at e ⊢; omega
          · have := h.t16; have := h.t48
            rcases hn with ⟨s0, _⟩ | ⟨s1, _⟩
            · rw [if_pos s0] at hfile2 ⊢; rw [if_pos s0]; omega
            · rw [if_neg (by omega)] at hfile2 ⊢; rw [if_neg (by omega)]; omega
        · exact Or.inr hB
      · obtain ⟨hb, hfile⟩ := (ep_left_iff p.side hs _ hnp t ⟨h.t16, h.t48⟩).1 hL
        have h64 := hnp _ hb
        have e := (mkMove_from_inj f (epL p.side t) t t h.f64 h64 h.t64 h.t64 hc).1
        have e' : f = (if p.side = 0 then t - 7 else t + 7) := e
        rw [← e'] at hb
        rw [← e] at hoth
        refine ⟨hb, ?_⟩
        rcases hoth with hR | hB
        · left
          obtain ⟨hb2, hfile2⟩ := (ep_right_iff p.side hs _ hnp t ⟨h.t16, h.t48⟩).1 hR
          obtain ⟨l64, lown, _⟩ := pawnSrc p ok hs (pinnedBB p) _ hb2
          refine ⟨_, ?_, h.other _ l64 lown ?_⟩
          · unfold epL at e; have := h.t16
            rcases hn with ⟨s0, _⟩ | ⟨s1, _⟩
            · rw [if_pos s0] at e ⊢; omega
            · rw [if_neg (by omega)] at e ⊢; omega
          · have := h.t16; have := h.t48
            rcases hn with ⟨s0, _⟩ | ⟨s1, _⟩
            · rw [if_pos s0] at hfile2 ⊢; rw [if_pos s0]; omega
            · rw [if_neg (by omega)] at hfile2 ⊢; rw [if_neg (by omega)]; omega
        · exact Or.inr hB
    obtain ⟨hnpf, hother⟩ := cand
    obtain ⟨_, _, hunp⟩ := pawnSrc p ok hs (pinnedBB p) f hnpf
    intro hx
    cases hx with
    | checker c hcc hchk =>
      have hbit := checks_bit p ok k c hking hchk
      have hne0 : checkersBB (BBs.of p) p.board p.side ≠ 0 := by intro e; rw [e] at hbit; simp at hbit
      have hone : moreThanOne (checkersBB (BBs.of p) p.board p.side) = false := by
        apply Bool.eq_false_iff.2; intro e; exact hnd ⟨hne0, e⟩
      obtain ⟨k', sc⟩ := singleCheck_of p hwf hne0 hone
      have ek : k' = k := kingAt_unique _ _ _ _ sc.king hking
      subst ek
      have ecs : c = lsb (checkersBB (BBs.of p) p.board p.side) := sc.one c hbit
      unfold cmOf pmOf at hG
      rw [if_pos hne0, if_pos hne0, hcapE] at hG
      rcases hG with hG | hG
      · have := meets_testBit _ _ (by rw [Nat.and_comm]; exact hG)
        have := sc.one cap this
        exact hcc (by rw [ecs, this])
      · have hpm : (pushMaskOf p k' (lsb (checkersBB (BBs.of p) p.board p.side))).testBit t = true := by
          unfold pushMaskOf
          rw [hks] at hG
          exact meets_testBit _ _ (by rw [Nat.and_comm]; exact hG)
        rw [← ecs] at hpm
        obtain ⟨r, hr, hcL, hth, nP, nN⟩ := ((pushMask_iff p ok hs k' c hk hchk t h.t64).1).1 hpm
        -- c is a slider on ray r, reached by the walk
        cases hchk with
        | pawn _ b => rw [nP] at b; cases b
        | knight _ b => rw [nN] at b; cases b
        | diag r' hr' hev hw hb =>
          have := ray_unique k' r r' c hk hr hr' hcL (walk_mem _ _ _ hw)
          subst this
          have := ep_no_interpose p hwf f t cap h k' hking hkc r c hr hw (by rw [sliders_diag p r c hev]; exact hb)
          rw [hth] at this; cases this
        | orth r' hr' hodd hw hb =>
          have := ray_unique k' r r' c hk hr hr' hcL (walk_mem _ _ _ hw)
          subst this
          have := ep_no_interpose p hwf f t cap h k' hking hkc r c hr hw (by rw [sliders_orth p r c hodd]; exact hb)
          rw [hth] at this; cases this
    | pin r c rest hr hfil hsl hth =>
      have hown : ((BBs.of p).color p.side).testBit f = true := by
        rw [color_testBit p p.side f hs ok, h.own]
        simp only [Bool.and_eq_true, decide_eq_true_eq]
        refine ⟨h.f64, mkPiece_ne_zero _ _ (by decide), ?_⟩
        have : p.side = 0 ∨ p.side = 1 := by omega
        rcases this with e | e <;> rw [e] <;> decide
      have hpin := genPinInRay_of_first_two p k r f c rest hks hk hr hfil hown hsl
      have hmem := mem_genPins_of _ _ _ r _ hr hpin
      exact unpinned_of_bit p f hunp _ hmem (pin_fields f _ r h.f64 (kindOf_lt8 _) hr).1
    | rank r c hr hr3 hcL hsl bf bc hB =>
      rcases hother with ⟨f2, hne2, h2⟩ | hnb
      · -- a second capturer stays on the rank, next to the captured pawn
        have hk2 : k ≠ f2 := by
          intro e
          have h1 := hking.here
          rw [e, h2.own] at h1
          have := (mkPiece_inj p.side PAWN p.side KING hs hs (by decide) (by decide) h1).2
          cases this
        obtain ⟨occ_c, _, _, cc, _⟩ := slider_sq p ok hs f t cap h r c hsl
        obtain ⟨_, cf2, _, _, _⟩ := slider_sq p ok hs f2 t cap h2 r c hsl
        obtain ⟨f2L, hsame⟩ := ep_rank_neighbour h2 hs k r hk hr (thru_mem _ _ _ bc).1 hr3 (fun e => hk2 e.symm)
        have := hsame c hcL cc cf2
        rw [bc] at this
        obtain ⟨of2, _, _⟩ := ep_occ p ok f2 t cap h2
        rcases hB f2 this.symm of2 with e | e
        · exact hne2 e
        · exact h2.capf e.symm
      · exact hnb (rank_blocked p ok f t cap h k hking r c hr hr3 hcL hsl hB)
  · -- emitted among the moves of a pinned pawn
    unfold pinnedListOf at hmem
    rw [List.mem_flatMap] at hmem
    obtain ⟨pin, hpin, hm⟩ := hmem
    obtain ⟨r0, s0, rest0, hpa, hray, ha64, hkind⟩ := pin_scan_of_mem p ok hs k hking pin hpin
    have hsplit : mkMove f t ∈ genPinnedPieceMoves (BBs.of p) p.side pin (pmOf p ||| cmOf p) 64 ∨
        (pinSquare pin = f ∧
          (if p.side = 0 then ((r0 % 4 = 0 ∧ t = f + 7 ∧ f % 8 ≠ 0) ∨ (r0 % 4 = 2 ∧ t = f + 9 ∧ f % 8 ≠ 7))
           else ((r0 % 4 = 0 ∧ f = t + 7 ∧ f % 8 ≠ 7) ∨ (r0 % 4 = 2 ∧ f = t + 9 ∧ f % 8 ≠ 0)))) := by
      unfold genPinnedPieceMoves at hm ⊢
      simp only [] at hm ⊢
      by_cases hN : pinKind pin = KNIGHT
      · rw [if_pos hN] at hm; cases hm
      · rw [if_neg hN] at hm ⊢
        by_cases hP : pinKind pin = PAWN
        · rw [if_pos hP] at hm ⊢
          rcases (pinnedPawn_ep_split (BBs.of p) p.side (pinSquare pin) (pinRay pin) p.ep hs ha64 (mkMove f t)).2 hm with h' | ⟨_, hc, hg⟩
          · exact Or.inl h'
          · right
            have he64 : p.ep < 64 := by rw [← hte]; exact h.t64
            obtain ⟨e1, e2⟩ := mkMove_from_inj f (pinSquare pin) t p.ep h.f64 ha64 h.t64 he64 hc
            rw [← e1, ← e2, hray] at hg
            exact ⟨e1.symm, hg⟩
        · rw [if_neg hP] at hm ⊢; exact Or.inl hm
    rcases hsplit with h64 | ⟨hsq, hg⟩
    · exfalso
      apply nonep_no p hwf f t cap h
      rw [genMoves_noEp_with, mem_genWith]
      refine Or.inr (Or.inr ⟨hc0, ?_⟩)
      unfold pinnedListOf
      rw [List.mem_flatMap]
      exact ⟨pin, hpin, h64⟩
    · rw [hsq] at hpa
      obtain ⟨fL0, _, _, _, _, _, _⟩ := filter_two_before (rayList k r0) (BBs.of p).all f s0 rest0 (rayList_nodup k r0 hk hpa.r8) hpa.fil
      intro hx
      cases hx with
      | checker c hcc hchk =>
        have hbit := checks_bit p ok k c hking hchk
        rw [hc0] at hbit; simp at hbit
      | pin r c rest hr hfil hsl hth =>
        obtain ⟨fL, cL, _, occ_c, fc, hfc, _⟩ := filter_two_before (rayList k r) (BBs.of p).all f c rest (rayList_nodup k r hk hr) hfil
        have er := ray_unique k r r0 f hk hr hpa.r8 fL fL0
        subst er
        obtain ⟨_, _, ct, _, _⟩ := slider_sq p ok hs f t cap h r c hsl
        obtain ⟨tL, hsame⟩ := ray_adjacent k r f t hk hr fL h.t64 (fun e => hkt e.symm) (by
          unfold lineStep
          have := h.t16; have := h.t48
          rcases hn with ⟨s0', _⟩ | ⟨s1', _⟩
          · rw [if_pos s0'] at hg
            rcases hg with ⟨q, g1, g2⟩ | ⟨q, g1, g2⟩
            · rw [if_pos q]; simp only [Bool.or_eq_true, Bool.and_eq_true, beq_iff_eq, bne_iff_ne]; omega
            · rw [if_neg (by omega), if_neg (by omega), if_pos q]; simp only [Bool.or_eq_true, Bool.and_eq_true, beq_iff_eq, bne_iff_ne]; omega
          · rw [if_neg (by omega)] at hg
            rcases hg with ⟨q, g1, g2⟩ | ⟨q, g1, g2⟩
            · rw [if_pos q]; simp only [Bool.or_eq_true, Bool.and_eq_true, beq_iff_eq, bne_iff_ne]; omega
            · rw [if_neg (by omega), if_neg (by omega), if_pos q]; simp only [Bool.or_eq_true, Bool.and_eq_true, beq_iff_eq, bne_iff_ne]; omega)
        have := hsame c cL (fun e => fc e.symm) ct
        rw [hfc, hth] at this; cases this
      | rank r c hr hr3 hcL hsl bf bc hB =>
        have er := ray_unique k r r0 f hk hr hpa.r8 (thru_mem _ _ _ bf).1 fL0
        subst er
        rcases hn with ⟨s0', _⟩ | ⟨s1', _⟩
        · rw [if_pos s0'] at hg; rcases hg with ⟨q, _⟩ | ⟨q, _⟩ <;> omega
        · rw [if_neg (by omega)] at hg; rcases hg with ⟨q, _⟩ | ⟨q, _⟩ <;> omega

end Chess

namespace Chess

/-- COMPLETENESS of the generated en-passant captures -/
theorem ep_complete (p : Position) (hwf : Spec.wf (absPos p) = true) (f t cap : Nat) (h : EpMove p f t cap) (k : Nat)
    (hking : KingAt p.board p.side k) (hkf : k ≠ f) (hkt : k ≠ t) (hkc : k ≠ cap)
    (hsafe : ¬ EpExposed p f t cap k) :
    (¬ (checkersBB (BBs.of p) p.board p.side ≠ 0 ∧ moreThanOne (checkersBB (BBs.of p) p.board p.side) = true) ∧
          mkMove f t ∈ epListOf p p.ep ((BBs.of p).ck p.side PAWN &&& bnot (pinnedBB p)) (pmOf p) (cmOf p)) ∨
       (checkersBB (BBs.of p) p.board p.side = 0 ∧ mkMove f t ∈ pinnedListOf p p.ep (pmOf p ||| cmOf p)) := by
  obtain ⟨hbo, hs', _, _, _⟩ := wf_board_hyps _ hwf
  have hs : p.side ≤ 1 := hs'
  have ok : BoardOK p.board := hbo
  have hk := hking.lt
  have hks : kingSq p.board p.side = k := kingSq_eq p.board p.side k ok.len hking
  have hn := h.nums hs
  have hte := h.tep
  have hcapE : epCap p.side t = cap := by unfold epCap; rw [h.capdef]
  obtain ⟨of, oc, ot⟩ := ep_occ p ok f t cap h
  have hnp : ∀ j, ((BBs.of p).ck p.side PAWN &&& bnot (pinnedBB p)).testBit j = true → j < 64 := fun j hj => (pawnSrc p ok hs (pinnedBB p) j hj).1
  -- every checker is the pushed pawn
  have hchk : ∀ c, (checkersBB (BBs.of p) p.board p.side).testBit c = true → c = cap := by
    intro c hc
    apply Decidable.byContradiction
    intro hne
    exact hsafe (EpExposed.checker c hne (checks_of_bit p k c hk hks hc))
  have hnd : ¬ (checkersBB (BBs.of p) p.board p.side ≠ 0 ∧ moreThanOne (checkersBB (BBs.of p) p.board p.side) = true) := by
    rintro ⟨_, hm⟩
    obtain ⟨c1, c2, h12, b1, b2⟩ := two_bits _ hm
    exact h12 (by rw [hchk c1 b1, hchk c2 b2])
  by_cases hp : (pinnedBB p).testBit f = true
  · -- a pinned capturer: the capture runs along the pin line, and the king is not in check
    right
    unfold pinnedBB at hp
    rw [pinned_testBit] at hp
    rcases hp with h0 | ⟨pin, hpin, hsq⟩
    · simp at h0
    · obtain ⟨r0, s0, rest0, hpa, hray, ha64, hkind⟩ := pin_scan_of_mem p ok hs k hking pin hpin
      rw [hsq] at hpa hkind
      have hnd0 := rayList_nodup k r0 hk hpa.r8
      obtain ⟨fL0, _, _, _, _, _, _⟩ := filter_two_before (rayList k r0) (BBs.of p).all f s0 rest0 hnd0 hpa.fil
      have hth : thru (rayList k r0) t s0 = true := by
        apply Decidable.byContradiction
        intro hno
        exact hsafe (EpExposed.pin r0 s0 rest0 hpa.r8 hpa.fil hpa.slider (by simpa using hno))
      have tL0 := (thru_mem _ _ _ hth).1
      have hc0 : checkersBB (BBs.of p) p.board p.side = 0 := by
        apply Decidable.byContradiction
        intro hne
        obtain ⟨c, hc⟩ := Nat.exists_testBit_of_ne_zero hne
        have ec := hchk c hc
        subst ec
        have ho : 1 - p.side ≤ 1 := by omega
        have hkP : kindOf (p.board.getD c 0) = PAWN := by rw [h.victim]; exact kindOf_mkPiece _ _ ho (by decide)
        have notK : ∀ K, (K = KNIGHT ∨ K = BISHOP ∨ K = ROOK ∨ K = QUEEN) → ((BBs.of p).ck (1 - p.side) K).testBit c = true → False := by
          intro K hK hb
          have := (ck_board p ok (1 - p.side) K c ho (by rcases hK with rfl | rfl | rfl | rfl <;> decide) hb).2.2
          rw [hkP] at this
          rcases hK with rfl | rfl | rfl | rfl <;> cases this
        cases checks_of_bit p k c hk hks hc with
        | pawn a _ => exact pawn_check_off_ray p hs f t c h k hk a r0 hpa.r8 tL0
        | knight _ b => exact notK KNIGHT (Or.inl rfl) b
        | diag r _ _ _ b =>
          rw [Nat.testBit_or] at b; simp only [Bool.or_eq_true] at b
          rcases b with b | b
          · exact notK BISHOP (Or.inr (Or.inl rfl)) b
          · exact notK QUEEN (Or.inr (Or.inr (Or.inr rfl))) b
        | orth r _ _ _ b =>
          rw [Nat.testBit_or] at b; simp only [Bool.or_eq_true] at b
          rcases b with b | b
          · exact notK ROOK (Or.inr (Or.inr (Or.inl rfl))) b
          · exact notK QUEEN (Or.inr (Or.inr (Or.inr rfl))) b
      refine ⟨hc0, ?_⟩
      unfold pinnedListOf
      rw [List.mem_flatMap]
      refine ⟨pin, hpin, ?_⟩
      have hkP : pinKind pin = PAWN := by rw [hkind, h.own]; exact kindOf_mkPiece _ _ hs (by decide)
      unfold genPinnedPieceMoves
      simp only []
      rw [if_neg (by rw [hkP]; decide), if_pos hkP, hsq, hray, ← hte]
      -- the direction of the pin ray
      obtain ⟨a1, _⟩ := ray_aligned k r0 f hk hpa.r8 fL0
      obtain ⟨a2, _⟩ := ray_aligned k r0 t hk hpa.r8 tL0
      apply pinnedPawn_ep_mem (BBs.of p) p.side f r0 t hs h.f64 (by have := h.t48; omega) h.t64
      · unfold rankOf
        have := h.t16; have := h.t48
        rcases hn with ⟨s0', _, _, g⟩ | ⟨s1', _, _, g⟩
        · rw [if_pos s0']; omega
        · rw [if_neg (by omega)]; omega
      · have := h.t16; have := h.t48
        rcases hn with ⟨s0', _, g1, g⟩ | ⟨s1', _, g1, g⟩
        · rw [if_pos s0']
          rcases onLine_cases r0 k f a1 with ⟨e, x⟩ | ⟨e, x⟩ | ⟨e, x⟩ | ⟨e, x⟩ <;> rcases onLine_cases r0 k t a2 with ⟨e', y⟩ | ⟨e', y⟩ | ⟨e', y⟩ | ⟨e', y⟩ <;> omega
        · rw [if_neg (by omega)]
          rcases onLine_cases r0 k f a1 with ⟨e, x⟩ | ⟨e, x⟩ | ⟨e, x⟩ | ⟨e, x⟩ <;> rcases onLine_cases r0 k t a2 with ⟨e', y⟩ | ⟨e', y⟩ | ⟨e', y⟩ | ⟨e', y⟩ <;> omega
  · left
    have hunp : (pinnedBB p).testBit f = false := by simpa using hp
    refine ⟨hnd, ?_⟩
    unfold epListOf
    rw [if_pos h.ep64, ← hte, mem_genEnpassant_iff]
    have hnpf := src_in_set p ok hs PAWN f (by decide) h.f64 h.own hunp
    have hblk : ¬ epBlocked (BBs.of p) p.board p.side t f := fun hb => hsafe (blocked_exposed p ok hs f t cap h k hking hkf hb)
    have hsq : (sqBB cap).testBit cap = true := by rw [sqBB_testBit]; simp
    constructor
    · left
      rw [hcapE]
      unfold cmOf
      by_cases hc0 : checkersBB (BBs.of p) p.board p.side ≠ 0
      · rw [if_pos hc0]
        obtain ⟨c, hc⟩ := Nat.exists_testBit_of_ne_zero hc0
        have ec := hchk c hc
        subst ec
        exact and_ne_zero_of_testBit _ _ c hsq hc
      · rw [if_neg hc0]
        apply and_ne_zero_of_testBit _ _ cap hsq
        rw [color_testBit p (1 - p.side) cap (by omega) ok, h.victim]
        simp only [Bool.and_eq_true, decide_eq_true_eq]
        refine ⟨h.cap64, mkPiece_ne_zero _ _ (by decide), ?_⟩
        have : p.side = 0 ∨ p.side = 1 := by omega
        rcases this with e | e <;> rw [e] <;> decide
    · have := h.t16; have := h.t48
      rcases hn with ⟨s0', n1, g1, g2⟩ | ⟨s1', n1, g1, g2⟩
      · rcases g1 with e7 | e9
        ·
          right
          have eC : epL p.side t = f := by unfold epL; rw [if_pos s0']; omega
          have eC' : (if p.side = 0 then t - 7 else t + 7) = f := eC
          refine ⟨(ep_left_iff p.side hs _ hnp t ⟨h.t16, h.t48⟩).2 ⟨by rw [eC']; exact hnpf, ?_⟩, by rw [eC], Or.inr (by rw [eC]; exact hblk)⟩
          rw [if_pos s0']; omega
        ·
          left
          have eC : epR p.side t = f := by unfold epR; rw [if_pos s0']; omega
          have eC' : (if p.side = 0 then t - 9 else t + 9) = f := eC
          refine ⟨(ep_right_iff p.side hs _ hnp t ⟨h.t16, h.t48⟩).2 ⟨by rw [eC']; exact hnpf, ?_⟩, by rw [eC], Or.inr (by rw [eC]; exact hblk)⟩
          rw [if_pos s0']; omega
      · rcases g1 with e7 | e9
        ·
          right
          have eC : epL p.side t = f := by unfold epL; rw [if_neg (by omega)]; omega
          have eC' : (if p.side = 0 then t - 7 else t + 7) = f := eC
          refine ⟨(ep_left_iff p.side hs _ hnp t ⟨h.t16, h.t48⟩).2 ⟨by rw [eC']; exact hnpf, ?_⟩, by rw [eC], Or.inr (by rw [eC]; exact hblk)⟩
          rw [if_neg (by omega)]; omega
        ·
          left
          have eC : epR p.side t = f := by unfold epR; rw [if_neg (by omega)]; omega
          have eC' : (if p.side = 0 then t - 9 else t + 9) = f := eC
          refine ⟨(ep_right_iff p.side hs _ hnp t ⟨h.t16, h.t48⟩).2 ⟨by rw [eC']; exact hnpf, ?_⟩, by rw [eC], Or.inr (by rw [eC]; exact hblk)⟩
          rw [if_neg (by omega)]; omega

end Chess

namespace Chess

/-- **an en-passant capture is generated exactly when it is legal** -/
theorem ep_exact (p : Position) (hwf : Spec.wf (absPos p) = true) (f t cap : Nat) (h : EpMove p f t cap) :
    mkMove f t ∈ genMoves p ↔ (⟨f, t, 0⟩ : Spec.SMove) ∈ Spec.legalMoves (absPos p) := by
  obtain ⟨k, hking, hkf, hkt, hkc, hiff⟩ := ep_legal_iff p hwf f t cap h
  have hatt := ep_attacked_iff p hwf f t cap h k hking hkf hkt hkc
  rw [hiff, genMoves_with, mem_genWith]
  constructor
  · rintro (hb | hg)
    · exact absurd (base_sub_noEp p _ hb) (nonep_no p hwf f t cap h)
    · apply Bool.eq_false_iff.2
      intro ha
      exact ep_sound p hwf f t cap h k hking hkf hkt hkc hg (hatt.1 ha)
  · intro hsafe
    right
    apply ep_complete p hwf f t cap h k hking hkf hkt hkc
    intro hx
    rw [hatt.2 hx] at hsafe; cases hsafe

/-- **C01, EXACT**: on every well-formed position the generated list contains exactly the codes of the rules' legal moves -/
theorem exact_all (p : Position) (hwf : Spec.wf (absPos p) = true) (code : Nat) :
    code ∈ genMoves p ↔ ∃ m, m ∈ Spec.legalMoves (absPos p) ∧ codeOf (absPos p) m = code := by
  obtain ⟨hbo, hs', _, _, _⟩ := wf_board_hyps _ hwf
  have hs : p.side ≤ 1 := hs'
  constructor
  · intro hg
    rcases generated_legal_or_ep p hwf code hg with ⟨m, hm, _, hc⟩ | hshape
    · exact ⟨m, hm, hc⟩
    · obtain ⟨f, cap, hE, hc⟩ := hshape
      subst hc
      have hl := (ep_exact p hwf f p.ep cap hE).1 hg
      refine ⟨⟨f, p.ep, 0⟩, hl, ?_⟩
      have hnk : kindOf (p.board.getD (⟨f, p.ep, 0⟩ : Spec.SMove).src 0) ≠ KING := by
        show kindOf (p.board.getD f 0) ≠ KING
        rw [hE.own, kindOf_mkPiece _ _ hs (by decide)]; decide
      rw [codeOf_plain p _ hnk]; exact (mkMove_eq_promo f p.ep).symm
  · rintro ⟨m, hm, rfl⟩
    by_cases hep : Spec.isEpCapture (absPos p) m = true
    · have hps : m ∈ Spec.pseudoMoves (absPos p) := by unfold Spec.legalMoves at hm; exact (List.mem_filter.1 hm).1
      obtain ⟨hE, hpr⟩ := epMove_of_pseudo p hwf m hps hep
      have hm3 : m = ⟨m.src, m.dst, 0⟩ := by cases m; simp at hpr ⊢; exact hpr
      have hnk : kindOf (p.board.getD m.src 0) ≠ KING := by rw [hE.own, kindOf_mkPiece _ _ hs (by decide)]; decide
      rw [codeOf_plain p m hnk, hpr, ← mkMove_eq_promo]
      apply (ep_exact p hwf m.src m.dst _ hE).2
      rw [← hm3]; exact hm
    · exact legal_nonep_generated p hwf m hm (by simpa using hep)

end Chess
