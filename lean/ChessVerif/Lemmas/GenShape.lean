/-
  Lemmas/GenShape.lean — every element of the generated move list is either one of the two castling codes or the 15-bit code of
  (from, to, promotion) with an own piece on `from`, a promotion piece N/B/R/Q exactly when a pawn arrives on an end rank; and the
  list has no duplicates ("no move appears twice", the third clause of C01).  Groups of the generator are told apart by the kind of
  the piece on the origin square and by whether that square is pinned; inside the pawn groups by offset and promotion.
-/
import ChessVerif.Lemmas.GenPawn
import ChessVerif.Lemmas.GenPins
import ChessVerif.Lemmas.SanRound
import ChessVerif.Lemmas.Key
namespace Chess

theorem kindOf_mkPiece (c K : Nat) (hc : c ≤ 1) (hK : 1 ≤ K ∧ K ≤ 6) : kindOf (mkPiece c K) = K := by
  have hc' : c = 0 ∨ c = 1 := by omega
  have hK' : K = 1 ∨ K = 2 ∨ K = 3 ∨ K = 4 ∨ K = 5 ∨ K = 6 := by omega
  rcases hc' with rfl | rfl <;> rcases hK' with rfl | rfl | rfl | rfl | rfl | rfl <;> decide

/-- description of one ordinary generated move: the piece kind on the origin, whether the origin is a pinned square -/
structure GenMv (p : Position) (pinned : BB) (m K : Nat) (pin : Bool) : Prop where
  ex : ∃ f t k, IsMv m f t k ∧ p.board.getD f 0 = mkPiece p.side K ∧ pinned.testBit f = pin ∧
        (k = 0 ∨ k = 2 ∨ k = 3 ∨ k = 4 ∨ k = 5) ∧ (k ≠ 0 ↔ (K = PAWN ∧ (t / 8 = 0 ∨ t / 8 = 7)))
  K16 : 1 ≤ K ∧ K ≤ 6

theorem GenMv.shape {p : Position} {pinned : BB} {m K : Nat} {pin : Bool} (h : GenMv p pinned m K pin) (hs : p.side ≤ 1) :
    MoveShape p m ∧ moveCastling m = 0 := by
  obtain ⟨f, t, k, mv, hb, _, hk, hpr⟩ := h.ex
  have hkind : kindOf (p.at (moveFrom m)) = K := by
    rw [mv.from_]; show kindOf (p.board.getD f 0) = K
    rw [hb]; exact kindOf_mkPiece _ _ hs h.K16
  refine ⟨⟨mv.lt_, by rw [hkind]; exact h.K16.1, by rw [hkind]; exact h.K16.2, by rw [mv.promo_]; omega, by rw [mv.promo_]; omega, ?_⟩, mv.castling_⟩
  rw [mv.promo_, hkind, mv.to_]
  exact hpr

/-- the class of a move code relative to a board: castling, or the kind of the piece on the origin with a mark for pinned origins -/
def mvClass (p : Position) (pinned : BB) (m : Nat) : Nat :=
  if moveCastling m ≠ 0 then 100 else kindOf (p.at (moveFrom m)) + (if pinned.testBit (moveFrom m) then 10 else 0)

theorem GenMv.cls {p : Position} {pinned : BB} {m K : Nat} {pin : Bool} (h : GenMv p pinned m K pin) (hs : p.side ≤ 1) :
    mvClass p pinned m = K + (if pin then 10 else 0) := by
  obtain ⟨f, t, k, mv, hb, hp, _, _⟩ := h.ex
  unfold mvClass
  rw [if_neg (by rw [mv.castling_]; simp), mv.from_]
  have : kindOf (p.at f) = K := by show kindOf (p.board.getD f 0) = K; rw [hb]; exact kindOf_mkPiece _ _ hs h.K16
  rw [this, hp]

-- knights, bishops, rooks, queens --------------------------------------------------------------------------------------------------
theorem mem_genPieceMoves (b : BBs) (K s : Nat) (target : BB) (m : Nat) (h : m ∈ genPieceMoves b K s target) (hs : s < 64) :
    ∃ t, IsMv m s t 0 := by
  unfold genPieceMoves at h
  simp only [List.mem_map, mem_bitsOf] at h
  obtain ⟨t, ⟨ht, _⟩, rfl⟩ := h
  exact ⟨t, IsMv.ofMove s t hs ht⟩

theorem genPieceMoves_nodup (b : BBs) (K s : Nat) (target : BB) (hs : s < 64) : (genPieceMoves b K s target).Nodup := by
  unfold genPieceMoves
  apply nodup_map_of_inj _ _ (bitsOf_nodup _)
  intro a ha c hc e
  have ha' := ((mem_bitsOf _ _).1 ha).1
  have hc' := ((mem_bitsOf _ _).1 hc).1
  have := congrArg moveTo e
  rw [(Props.C16_encoding_move s a hs ha').2.1, (Props.C16_encoding_move s c hs hc').2.1] at this
  exact this

/-- the moves of all not-pinned pieces of one kind -/
theorem pieceGroup (p : Position) (ok : BoardOK p.board) (hs : p.side ≤ 1) (pinned target : BB) (K : Nat) (hK : 2 ≤ K ∧ K ≤ 5) :
    (∀ m, m ∈ (bitsOf ((BBs.of p).ck p.side K &&& bnot pinned)).flatMap (fun s => genPieceMoves (BBs.of p) K s target) → GenMv p pinned m K false) ∧
    ((bitsOf ((BBs.of p).ck p.side K &&& bnot pinned)).flatMap (fun s => genPieceMoves (BBs.of p) K s target)).Nodup := by
  have hsrc : ∀ s, s ∈ bitsOf ((BBs.of p).ck p.side K &&& bnot pinned) → s < 64 ∧ p.board.getD s 0 = mkPiece p.side K ∧ pinned.testBit s = false := by
    intro s hsq
    obtain ⟨h64, hb⟩ := (mem_bitsOf _ _).1 hsq
    have h1 := and_testBit_left _ _ _ hb
    have h2 := and_testBit_right _ _ _ hb
    rw [ck_testBit p p.side K s hs (by omega) ok] at h1
    rw [bnot_testBit _ _ h64] at h2
    simp only [Bool.and_eq_true, decide_eq_true_eq] at h1
    exact ⟨h64, h1.2, by simpa using h2⟩
  constructor
  · intro m hm
    rw [List.mem_flatMap] at hm
    obtain ⟨s, hsq, hm⟩ := hm
    obtain ⟨h64, hb, hp⟩ := hsrc s hsq
    obtain ⟨t, mv⟩ := mem_genPieceMoves _ K s target m hm h64
    refine ⟨⟨s, t, 0, mv, hb, hp, Or.inl rfl, ?_⟩, by omega, by omega⟩
    constructor
    · intro h; exact absurd rfl h
    · intro h; have : K = 1 := h.1; omega
  · apply nodup_flatMap _ _ (bitsOf_nodup _)
    · intro s hsq; exact genPieceMoves_nodup _ K s target (hsrc s hsq).1
    · intro a ha c hc hac x hx y hy e
      obtain ⟨t1, m1⟩ := mem_genPieceMoves _ K a target x hx (hsrc a ha).1
      obtain ⟨t2, m2⟩ := mem_genPieceMoves _ K c target y hy (hsrc c hc).1
      have := m1.from_
      rw [e, m2.from_] at this
      exact hac this.symm

-- the king ---------------------------------------------------------------------------------------------------------------------------
theorem kingGroup (p : Position) (hs : p.side ≤ 1) (pinned notAllowed : BB) (k : Nat) (hk : k < 64)
    (hb : p.board.getD k 0 = mkPiece p.side KING) (hp : pinned.testBit k = false) :
    (∀ m, m ∈ genKingMoves k notAllowed → GenMv p pinned m KING false) ∧ (genKingMoves k notAllowed).Nodup := by
  constructor
  · intro m hm
    unfold genKingMoves at hm
    simp only [List.mem_map, mem_bitsOf] at hm
    obtain ⟨t, ⟨ht, _⟩, rfl⟩ := hm
    refine ⟨⟨k, t, 0, IsMv.ofMove k t hk ht, hb, hp, Or.inl rfl, ?_⟩, by decide, by decide⟩
    constructor
    · intro h; exact absurd rfl h
    · intro h; have : KING = PAWN := h.1; cases this
  · unfold genKingMoves
    apply nodup_map_of_inj _ _ (bitsOf_nodup _)
    intro a ha c hc e
    have ha' := ((mem_bitsOf _ _).1 ha).1
    have hc' := ((mem_bitsOf _ _).1 hc).1
    have := congrArg moveTo e
    rw [(Props.C16_encoding_move k a hk ha').2.1, (Props.C16_encoding_move k c hk hc').2.1] at this
    exact this

end Chess

namespace Chess

-- pawns that are not pinned ----------------------------------------------------------------------------------------------------------
theorem pawnSrc (p : Position) (ok : BoardOK p.board) (hs : p.side ≤ 1) (pinned : BB) (f : Nat)
    (h : ((BBs.of p).ck p.side PAWN &&& bnot pinned).testBit f = true) :
    f < 64 ∧ p.board.getD f 0 = mkPiece p.side PAWN ∧ pinned.testBit f = false := by
  have h1 := and_testBit_left _ _ _ h
  have h2 := and_testBit_right _ _ _ h
  rw [ck_testBit p p.side PAWN f hs (by decide) ok] at h1
  simp only [Bool.and_eq_true, decide_eq_true_eq] at h1
  rw [bnot_testBit _ _ h1.1] at h2
  exact ⟨h1.1, h1.2, by simpa using h2⟩

theorem PawnMv.gen {p : Position} (ok : BoardOK p.board) (hs : p.side ≤ 1) {pinned empty pm cm : BB} {m idx f t k : Nat}
    (h : PawnMv p.side ((BBs.of p).ck p.side PAWN &&& bnot pinned) empty pm cm m idx f t k) : GenMv p pinned m PAWN false := by
  obtain ⟨_, hb, hp⟩ := pawnSrc p ok hs pinned f h.pawn
  have hoff := h.off
  have hpr := h.promo
  have h9 := h.file9
  have h7 := h.file7
  have hd := h.dbl
  have hf := h.mv.f64
  have ht := h.mv.t64
  have hi := h.idx7
  have hcases : idx = 0 ∨ idx = 1 ∨ idx = 2 ∨ idx = 3 ∨ idx = 4 ∨ idx = 5 ∨ idx = 6 := by omega
  have hs01 : p.side = 0 ∨ p.side = 1 := by omega
  refine ⟨⟨f, t, k, h.mv, hb, hp, ?_, ?_⟩, by decide, by decide⟩
  · rcases hcases with rfl | rfl | rfl | rfl | rfl | rfl | rfl <;> simp at hpr <;> omega
  · rcases hs01 with e | e <;> rw [e] at hoff hpr h9 h7 hd <;>
      rcases hcases with rfl | rfl | rfl | rfl | rfl | rfl | rfl <;> simp [pawnOff] at hoff hpr h9 h7 hd ⊢ <;> omega

theorem pawnGroupOK (p : Position) (ok : BoardOK p.board) (hs : p.side ≤ 1) (pinned empty pm cm : BB) :
    (∀ m, m ∈ genPawnMoves p.side ((BBs.of p).ck p.side PAWN &&& bnot pinned) empty pm cm → GenMv p pinned m PAWN false) ∧
    (genPawnMoves p.side ((BBs.of p).ck p.side PAWN &&& bnot pinned) empty pm cm).Nodup := by
  have hp : ∀ j, ((BBs.of p).ck p.side PAWN &&& bnot pinned).testBit j = true → j < 64 := fun j h => (pawnSrc p ok hs pinned j h).1
  constructor
  · intro m hm
    obtain ⟨idx, f, t, k, h⟩ := mem_genPawnMoves p.side hs _ empty pm cm hp m hm
    exact h.gen ok hs
  · exact genPawnMoves_nodup p.side hs _ empty pm cm hp

end Chess

namespace Chess

-- en passant ----------------------------------------------------------------------------------------------------------------------------
theorem meets_testBit (X : BB) (s : Nat) (h : X &&& sqBB s ≠ 0) : X.testBit s = true := by
  rw [Nat.and_comm] at h; exact (sqBB_and_ne_zero s X).1 h

theorem ite_cases' {α : Type} (c : Prop) [Decidable c] (a b : α) : (if c then a else b) = a ∨ (if c then a else b) = b := by
  by_cases h : c
  · left; rw [if_pos h]
  · right; rw [if_neg h]

theorem ite_nil_or {α : Type} (c : Bool) (l : List α) : (if c = true then [] else l) = [] ∨ (if c = true then [] else l) = l := by
  cases c <;> simp

theorem genEnpassant_cases (b : BBs) (board : List Nat) (side : Nat) (capturers pm cm : BB) (ep : Nat) :
    genEnpassant b board side capturers pm cm ep = [] ∨
    genEnpassant b board side capturers pm cm ep =
      (if shift (if side = 0 then Dir.NE else Dir.SW) capturers &&& sqBB ep ≠ 0 then [mkMove (if side = 0 then ep - 9 else ep + 9) ep] else []) ++
      (if shift (if side = 0 then Dir.NW else Dir.SE) capturers &&& sqBB ep ≠ 0 then [mkMove (if side = 0 then ep - 7 else ep + 7) ep] else []) := by
  unfold genEnpassant
  simp only []
  rcases ite_cases' (¬((sqBB (if side = 0 then ep - 8 else ep + 8) &&& cm) ≠ 0 ∨ (sqBB ep &&& pm) ≠ 0)) ([] : List Nat) _ with h | h
  · left; exact h
  · rw [h]
    exact ite_cases' _ _ _

/-- the (at most two) en-passant captures: origin a not-pinned pawn one file beside the en-passant square -/
theorem epGroup (p : Position) (ok : BoardOK p.board) (hs : p.side ≤ 1) (pinned pm cm : BB) (ep : Nat) (hep : ep < 64)
    (hrank : if p.side = 0 then ep / 8 = 5 else ep / 8 = 2) :
    (∀ m, m ∈ genEnpassant (BBs.of p) p.board p.side ((BBs.of p).ck p.side PAWN &&& bnot pinned) pm cm ep →
      GenMv p pinned m PAWN false ∧ moveTo m = ep ∧ movePromo m = 0 ∧
        ((if p.side = 0 then moveTo m - moveFrom m else moveFrom m - moveTo m) = 9 ∨ (if p.side = 0 then moveTo m - moveFrom m else moveFrom m - moveTo m) = 7)) ∧
    (genEnpassant (BBs.of p) p.board p.side ((BBs.of p).ck p.side PAWN &&& bnot pinned) pm cm ep).Nodup := by
  have hs01 : p.side = 0 ∨ p.side = 1 := by omega
  -- the two candidate origins
  have src9 : (shift (if p.side = 0 then Dir.NE else Dir.SW) ((BBs.of p).ck p.side PAWN &&& bnot pinned) &&& sqBB ep) ≠ 0 →
      (if p.side = 0 then ep - 9 else ep + 9) < 64 ∧ p.board.getD (if p.side = 0 then ep - 9 else ep + 9) 0 = mkPiece p.side PAWN ∧
      pinned.testBit (if p.side = 0 then ep - 9 else ep + 9) = false ∧ (p.side = 0 → 9 ≤ ep) := by
    intro h
    have ht := meets_testBit _ _ h
    rcases hs01 with e | e
    · rw [e] at ht ⊢; simp only [if_true] at ht ⊢
      obtain ⟨_, g, hsrc⟩ := shift_up_testBit .NE 9 (by simp) _ ep ht
      obtain ⟨a, b, c⟩ := pawnSrc p ok hs pinned _ (by rw [e]; exact hsrc)
      rw [e] at b
      exact ⟨a, b, c, fun _ => g⟩
    · rw [e] at ht ⊢; simp only [show ¬ ((1:Nat) = 0) by decide, if_false] at ht ⊢
      have hsrc := shift_down_testBit .SW 9 (by simp) _ ep ht
      obtain ⟨a, b, c⟩ := pawnSrc p ok hs pinned _ (by rw [e]; exact hsrc)
      rw [e] at b
      exact ⟨a, b, c, fun h => by cases h⟩
  have src7 : (shift (if p.side = 0 then Dir.NW else Dir.SE) ((BBs.of p).ck p.side PAWN &&& bnot pinned) &&& sqBB ep) ≠ 0 →
      (if p.side = 0 then ep - 7 else ep + 7) < 64 ∧ p.board.getD (if p.side = 0 then ep - 7 else ep + 7) 0 = mkPiece p.side PAWN ∧
      pinned.testBit (if p.side = 0 then ep - 7 else ep + 7) = false ∧ (p.side = 0 → 7 ≤ ep) := by
    intro h
    have ht := meets_testBit _ _ h
    rcases hs01 with e | e
    · rw [e] at ht ⊢; simp only [if_true] at ht ⊢
      obtain ⟨_, g, hsrc⟩ := shift_up_testBit .NW 7 (by simp) _ ep ht
      obtain ⟨a, b, c⟩ := pawnSrc p ok hs pinned _ (by rw [e]; exact hsrc)
      rw [e] at b
      exact ⟨a, b, c, fun _ => g⟩
    · rw [e] at ht ⊢; simp only [show ¬ ((1:Nat) = 0) by decide, if_false] at ht ⊢
      have hsrc := shift_down_testBit .SE 7 (by simp) _ ep ht
      obtain ⟨a, b, c⟩ := pawnSrc p ok hs pinned _ (by rw [e]; exact hsrc)
      rw [e] at b
      exact ⟨a, b, c, fun h => by cases h⟩
  have mkGen : ∀ f, f < 64 → p.board.getD f 0 = mkPiece p.side PAWN → pinned.testBit f = false → GenMv p pinned (mkMove f ep) PAWN false := by
    intro f hf hb hp
    refine ⟨⟨f, ep, 0, IsMv.ofMove f ep hf hep, hb, hp, Or.inl rfl, ?_⟩, by decide, by decide⟩
    constructor
    · intro h; exact absurd rfl h
    · intro h
      rcases hs01 with e | e <;> rw [e] at hrank <;> simp at hrank <;> omega
  rcases genEnpassant_cases (BBs.of p) p.board p.side ((BBs.of p).ck p.side PAWN &&& bnot pinned) pm cm ep with h0 | h0
  · rw [h0]; exact ⟨fun m hm => by simp at hm, List.nodup_nil⟩
  · rw [h0]
    constructor
    · intro m hm
      rw [List.mem_append] at hm
      rcases hm with hm | hm
      · by_cases hr : shift (if p.side = 0 then Dir.NE else Dir.SW) ((BBs.of p).ck p.side PAWN &&& bnot pinned) &&& sqBB ep ≠ 0
        · rw [if_pos hr] at hm
          obtain ⟨a, b, c, d⟩ := src9 hr
          simp only [List.mem_singleton] at hm
          subst hm
          have mv := IsMv.ofMove _ ep a hep
          refine ⟨mkGen _ a b c, mv.to_, mv.promo_, Or.inl ?_⟩
          rw [mv.to_, mv.from_]
          rcases hs01 with e | e
          · rw [e] at d ⊢; simp only [if_true]; have := d rfl; omega
          · rw [e]; simp only [show ¬ ((1:Nat) = 0) by decide, if_false]; omega
        · rw [if_neg hr] at hm; cases hm
      · by_cases hl : shift (if p.side = 0 then Dir.NW else Dir.SE) ((BBs.of p).ck p.side PAWN &&& bnot pinned) &&& sqBB ep ≠ 0
        · rw [if_pos hl] at hm
          obtain ⟨a, b, c, d⟩ := src7 hl
          simp only [List.mem_singleton] at hm
          subst hm
          have mv := IsMv.ofMove _ ep a hep
          refine ⟨mkGen _ a b c, mv.to_, mv.promo_, Or.inr ?_⟩
          rw [mv.to_, mv.from_]
          rcases hs01 with e | e
          · rw [e] at d ⊢; simp only [if_true]; have := d rfl; omega
          · rw [e]; simp only [show ¬ ((1:Nat) = 0) by decide, if_false]; omega
        · rw [if_neg hl] at hm; cases hm
    · apply nodup_append'
      · by_cases hr : shift (if p.side = 0 then Dir.NE else Dir.SW) ((BBs.of p).ck p.side PAWN &&& bnot pinned) &&& sqBB ep ≠ 0
        · rw [if_pos hr]; exact List.Pairwise.cons (by intro _ h; simp at h) List.Pairwise.nil
        · rw [if_neg hr]; exact List.nodup_nil
      · by_cases hl : shift (if p.side = 0 then Dir.NW else Dir.SE) ((BBs.of p).ck p.side PAWN &&& bnot pinned) &&& sqBB ep ≠ 0
        · rw [if_pos hl]; exact List.Pairwise.cons (by intro _ h; simp at h) List.Pairwise.nil
        · rw [if_neg hl]; exact List.nodup_nil
      · intro x hx y hy e
        by_cases hr : shift (if p.side = 0 then Dir.NE else Dir.SW) ((BBs.of p).ck p.side PAWN &&& bnot pinned) &&& sqBB ep ≠ 0
        · rw [if_pos hr] at hx
          by_cases hl : shift (if p.side = 0 then Dir.NW else Dir.SE) ((BBs.of p).ck p.side PAWN &&& bnot pinned) &&& sqBB ep ≠ 0
          · rw [if_pos hl] at hy
            obtain ⟨a, _, _, d⟩ := src9 hr
            obtain ⟨a', _, _, d'⟩ := src7 hl
            simp only [List.mem_singleton] at hx hy
            subst hx; subst hy
            have := congrArg moveFrom e
            rw [(IsMv.ofMove _ ep a hep).from_, (IsMv.ofMove _ ep a' hep).from_] at this
            rcases hs01 with e' | e'
            · rw [e'] at this d d'; simp only [if_true] at this; have := d rfl; have := d' rfl; omega
            · rw [e'] at this; simp only [show ¬ ((1:Nat) = 0) by decide, if_false] at this; omega
          · rw [if_neg hl] at hy; cases hy
        · rw [if_neg hr] at hx; cases hx

end Chess

namespace Chess

-- pinned pieces ------------------------------------------------------------------------------------------------------------------------
theorem exists_bit_of_and_ne (X Y : BB) (h : X &&& Y ≠ 0) : ∃ j, X.testBit j = true ∧ Y.testBit j = true := by
  obtain ⟨j, hj⟩ := Nat.exists_testBit_of_ne_zero h
  rw [Nat.testBit_and] at hj
  simp only [Bool.and_eq_true] at hj
  exact ⟨j, hj.1, hj.2⟩

/-- one step of a single square upwards: the target is on the board and no edge was crossed -/
theorem sq_shift_up (d : Dir) (n : Nat) (hd : (d = .N ∧ n = 8) ∨ (d = .NE ∧ n = 9) ∨ (d = .NW ∧ n = 7)) (s : Nat) (X : BB)
    (h : shift d (sqBB s) &&& X ≠ 0) : s + n < 64 ∧ (n = 9 → s % 8 ≠ 7) ∧ (n = 7 → s % 8 ≠ 0) := by
  obtain ⟨j, hj, _⟩ := exists_bit_of_and_ne _ _ h
  rcases hd with ⟨rfl, rfl⟩ | ⟨rfl, rfl⟩ | ⟨rfl, rfl⟩
  · obtain ⟨a, b, c⟩ := shift_up_testBit .N 8 (by simp) _ j hj
    rw [sqBB_testBit] at c
    have : s = j - 8 := by simpa using c
    exact ⟨by omega, by intro h; omega, by intro h; omega⟩
  · obtain ⟨a, b, c⟩ := shift_up_testBit .NE 9 (by simp) _ j hj
    have hf := shift_NE_file _ j hj
    rw [sqBB_testBit] at c
    have : s = j - 9 := by simpa using c
    exact ⟨by omega, by intro _; rw [this]; exact hf, by intro h; omega⟩
  · obtain ⟨a, b, c⟩ := shift_up_testBit .NW 7 (by simp) _ j hj
    have hf := shift_NW_file _ j hj
    rw [sqBB_testBit] at c
    have : s = j - 7 := by simpa using c
    exact ⟨by omega, by intro h; omega, by intro _; rw [this]; exact hf⟩

theorem sq_shift_down (d : Dir) (n : Nat) (hd : (d = .S ∧ n = 8) ∨ (d = .SW ∧ n = 9) ∨ (d = .SE ∧ n = 7)) (s : Nat) (hs : s < 64) (X : BB)
    (h : shift d (sqBB s) &&& X ≠ 0) : n ≤ s ∧ (n = 9 → s % 8 ≠ 0) ∧ (n = 7 → s % 8 ≠ 7) := by
  obtain ⟨j, hj, _⟩ := exists_bit_of_and_ne _ _ h
  rcases hd with ⟨rfl, rfl⟩ | ⟨rfl, rfl⟩ | ⟨rfl, rfl⟩
  · have c := shift_down_testBit .S 8 (by simp) _ j hj
    rw [sqBB_testBit] at c
    have : s = j + 8 := by simpa using c
    exact ⟨by omega, by intro h; omega, by intro h; omega⟩
  · have c := shift_down_testBit .SW 9 (by simp) _ j hj
    rw [sqBB_testBit] at c
    have e : s = j + 9 := by simpa using c
    have hf := shift_SW_file _ j (by omega) hj
    exact ⟨by omega, by intro _; rw [e]; exact hf, by intro h; omega⟩
  · have c := shift_down_testBit .SE 7 (by simp) _ j hj
    rw [sqBB_testBit] at c
    have e : s = j + 7 := by simpa using c
    have hf := shift_SE_file _ j (by omega) hj
    exact ⟨by omega, by intro h; omega, by intro _; rw [e]; exact hf⟩

/-- a double step of a single square from its home rank -/
theorem sq_shift_up2 (s : Nat) (hs : s < 64) (X : BB) (h : shift .NN (sqBB s &&& rankBB 1) &&& X ≠ 0) : s / 8 = 1 := by
  obtain ⟨j, hj, _⟩ := exists_bit_of_and_ne _ _ h
  obtain ⟨a, b, c⟩ := shift_up_testBit .NN 16 (by simp) _ j hj
  have c1 := and_testBit_left _ _ _ c
  rw [sqBB_testBit] at c1
  have e : s = j - 16 := by simpa using c1
  have c2 := and_testBit_right _ _ _ c
  rw [rankBB_testBit 1 _ (by decide) (by omega)] at c2
  rw [e]; simpa using c2
theorem sq_shift_down2 (s : Nat) (hs : s < 64) (X : BB) (h : shift .SS (sqBB s &&& rankBB 6) &&& X ≠ 0) : s / 8 = 6 := by
  obtain ⟨j, hj, _⟩ := exists_bit_of_and_ne _ _ h
  have c := shift_down_testBit .SS 16 (by simp) _ j hj
  have c1 := and_testBit_left _ _ _ c
  rw [sqBB_testBit] at c1
  have e : s = j + 16 := by simpa using c1
  have c2 := and_testBit_right _ _ _ c
  rw [rankBB_testBit 6 _ (by decide) (by omega)] at c2
  rw [e]; simpa using c2

/-- what a pinned pawn's move list contains: codes from `f` with a promotion piece exactly when the target is on an end rank -/
structure PinnedPawnOK (f m : Nat) : Prop where
  ex : ∃ t k, IsMv m f t k ∧ (k = 0 ∨ k = 2 ∨ k = 3 ∨ k = 4 ∨ k = 5) ∧ (k ≠ 0 ↔ (t / 8 = 0 ∨ t / 8 = 7))

theorem promo4_nodup (f t : Nat) (hf : f < 64) (ht : t < 64) :
    [mkPromotion f t QUEEN, mkPromotion f t ROOK, mkPromotion f t KNIGHT, mkPromotion f t BISHOP].Nodup := by
  have e : ∀ k, k < 8 → movePromo (mkPromotion f t k) = k := fun k hk => (Props.C16_encoding f t k hf ht hk).2.2.1
  have ne : ∀ a b, a < 8 → b < 8 → a ≠ b → mkPromotion f t a ≠ mkPromotion f t b := by
    intro a b ha hb hab h
    have := congrArg movePromo h
    rw [e a ha, e b hb] at this
    exact hab this
  simp only [QUEEN, ROOK, BISHOP, KNIGHT]
  refine List.Pairwise.cons ?_ (List.Pairwise.cons ?_ (List.Pairwise.cons ?_ (List.Pairwise.cons ?_ List.Pairwise.nil)))
  · intro x hx
    simp only [List.mem_cons, List.not_mem_nil, or_false] at hx
    rcases hx with rfl | rfl | rfl <;> exact ne _ _ (by decide) (by decide) (by decide)
  · intro x hx
    simp only [List.mem_cons, List.not_mem_nil, or_false] at hx
    rcases hx with rfl | rfl <;> exact ne _ _ (by decide) (by decide) (by decide)
  · intro x hx
    simp only [List.mem_cons, List.not_mem_nil, or_false] at hx
    rcases hx with rfl; exact ne _ _ (by decide) (by decide) (by decide)
  · intro x hx; cases hx

theorem promo4_ok (f t : Nat) (hf : f < 64) (ht : t < 64) (hr : t / 8 = 0 ∨ t / 8 = 7) (m : Nat)
    (h : m ∈ [mkPromotion f t QUEEN, mkPromotion f t ROOK, mkPromotion f t KNIGHT, mkPromotion f t BISHOP]) : PinnedPawnOK f m := by
  simp only [List.mem_cons, List.not_mem_nil, or_false] at h
  rcases h with rfl | rfl | rfl | rfl
  · exact ⟨t, 5, ⟨rfl, hf, ht, by decide⟩, by simp, ⟨fun _ => hr, fun _ => by decide⟩⟩
  · exact ⟨t, 4, ⟨rfl, hf, ht, by decide⟩, by simp, ⟨fun _ => hr, fun _ => by decide⟩⟩
  · exact ⟨t, 2, ⟨rfl, hf, ht, by decide⟩, by simp, ⟨fun _ => hr, fun _ => by decide⟩⟩
  · exact ⟨t, 3, ⟨rfl, hf, ht, by decide⟩, by simp, ⟨fun _ => hr, fun _ => by decide⟩⟩

theorem quiet1_ok (f t : Nat) (hf : f < 64) (ht : t < 64) (hr : ¬ (t / 8 = 0 ∨ t / 8 = 7)) : PinnedPawnOK f (mkMove f t) :=
  ⟨t, 0, IsMv.ofMove f t hf ht, Or.inl rfl, ⟨fun h => absurd rfl h, fun h => absurd h hr⟩⟩

end Chess

namespace Chess

theorem nil_ok (f : Nat) : (∀ m, m ∈ ([] : List Nat) → PinnedPawnOK f m) ∧ ([] : List Nat).Nodup :=
  ⟨fun m hm => by simp at hm, List.nodup_nil⟩

theorem single_ok (f x : Nat) (h : PinnedPawnOK f x) : (∀ m, m ∈ [x] → PinnedPawnOK f m) ∧ [x].Nodup :=
  ⟨fun m hm => by simp only [List.mem_singleton] at hm; rw [hm]; exact h, List.Pairwise.cons (by intro _ h; simp at h) List.Pairwise.nil⟩

theorem genPinnedPawnMoves_ok (b : BBs) (side fromSq ray ep : Nat) (hs : side ≤ 1) (hf : fromSq < 64) :
    (∀ m, m ∈ genPinnedPawnMoves b side fromSq ray ep → PinnedPawnOK fromSq m) ∧ (genPinnedPawnMoves b side fromSq ray ep).Nodup := by
  have hs01 : side = 0 ∨ side = 1 := by omega
  have hr4 : ray % 4 = 0 ∨ ray % 4 = 1 ∨ ray % 4 = 2 ∨ ray % 4 = 3 := by omega
  have h10 : ¬ ((1 : Nat) = 0) := by decide
  rcases hs01 with rfl | rfl
  · -- white
    unfold genPinnedPawnMoves
    simp only [if_true]
    by_cases h7 : rankOf fromSq = 6
    · rw [if_pos h7]
      have h7' : fromSq / 8 = 6 := h7
      rcases hr4 with e | e | e | e <;> rw [e] <;> simp only []
      · by_cases c : (shift Dir.NW (sqBB fromSq) &&& b.color (1 - 0)) ≠ 0
        · rw [if_pos c]
          obtain ⟨a1, _, a3⟩ := sq_shift_up .NW 7 (by simp) fromSq _ c
          exact ⟨promo4_ok _ _ hf a1 (by have := a3 rfl; omega), promo4_nodup _ _ hf a1⟩
        · rw [if_neg c]; exact nil_ok _
      · by_cases c : (shift Dir.N (sqBB fromSq) &&& bnot b.all) ≠ 0
        · rw [if_pos c]
          obtain ⟨a1, _, _⟩ := sq_shift_up .N 8 (by simp) fromSq _ c
          exact ⟨promo4_ok _ _ hf a1 (by omega), promo4_nodup _ _ hf a1⟩
        · rw [if_neg c]; exact nil_ok _
      · by_cases c : (shift Dir.NE (sqBB fromSq) &&& b.color (1 - 0)) ≠ 0
        · rw [if_pos c]
          obtain ⟨a1, a2, _⟩ := sq_shift_up .NE 9 (by simp) fromSq _ c
          exact ⟨promo4_ok _ _ hf a1 (by have := a2 rfl; omega), promo4_nodup _ _ hf a1⟩
        · rw [if_neg c]; exact nil_ok _
      · exact nil_ok _
    · rw [if_neg h7]
      have h7' : fromSq / 8 ≠ 6 := h7
      rcases hr4 with e | e | e | e <;> rw [e] <;> simp only []
      · by_cases c : (shift Dir.NW (sqBB fromSq) &&& (b.color (1 - 0) ||| if ep ≠ 64 then sqBB ep else 0)) ≠ 0
        · rw [if_pos c]
          obtain ⟨a1, _, a3⟩ := sq_shift_up .NW 7 (by simp) fromSq _ c
          exact single_ok _ _ (quiet1_ok _ _ hf a1 (by have := a3 rfl; omega))
        · rw [if_neg c]; exact nil_ok _
      · by_cases c : (shift Dir.N (sqBB fromSq) &&& bnot b.all) ≠ 0
        · rw [if_pos c]
          obtain ⟨a1, _, _⟩ := sq_shift_up .N 8 (by simp) fromSq _ c
          by_cases c2 : (shift Dir.NN (sqBB fromSq &&& rankBB 1) &&& bnot b.all) ≠ 0
          · rw [if_pos c2]
            have hr := sq_shift_up2 fromSq hf _ c2
            constructor
            · intro m hm
              simp only [List.singleton_append, List.mem_cons, List.not_mem_nil, or_false] at hm
              rcases hm with rfl | rfl
              · exact quiet1_ok _ _ hf a1 (by omega)
              · exact quiet1_ok _ _ hf (by omega) (by omega)
            · simp only [List.singleton_append]
              refine List.Pairwise.cons ?_ (List.Pairwise.cons (by intro _ h; simp at h) List.Pairwise.nil)
              intro x hx e'
              simp only [List.mem_singleton] at hx
              subst hx
              have := congrArg moveTo e'
              rw [(Props.C16_encoding_move _ _ hf a1).2.1, (Props.C16_encoding_move _ _ hf (by omega)).2.1] at this
              omega
          · rw [if_neg c2]
            simp only [List.append_nil]
            exact single_ok _ _ (quiet1_ok _ _ hf a1 (by omega))
        · rw [if_neg c]; exact nil_ok _
      · by_cases c : (shift Dir.NE (sqBB fromSq) &&& (b.color (1 - 0) ||| if ep ≠ 64 then sqBB ep else 0)) ≠ 0
        · rw [if_pos c]
          obtain ⟨a1, a2, _⟩ := sq_shift_up .NE 9 (by simp) fromSq _ c
          exact single_ok _ _ (quiet1_ok _ _ hf a1 (by have := a2 rfl; omega))
        · rw [if_neg c]; exact nil_ok _
      · exact nil_ok _
  · -- black
    unfold genPinnedPawnMoves
    simp only [h10, if_false]
    by_cases h7 : rankOf fromSq = 1
    · rw [if_pos h7]
      have h7' : fromSq / 8 = 1 := h7
      rcases hr4 with e | e | e | e <;> rw [e] <;> simp only []
      · by_cases c : (shift Dir.SE (sqBB fromSq) &&& b.color (1 - 1)) ≠ 0
        · rw [if_pos c]
          obtain ⟨a1, _, a3⟩ := sq_shift_down .SE 7 (by simp) fromSq hf _ c
          exact ⟨promo4_ok _ _ hf (by omega) (by have := a3 rfl; omega), promo4_nodup _ _ hf (by omega)⟩
        · rw [if_neg c]; exact nil_ok _
      · by_cases c : (shift Dir.S (sqBB fromSq) &&& bnot b.all) ≠ 0
        · rw [if_pos c]
          obtain ⟨a1, _, _⟩ := sq_shift_down .S 8 (by simp) fromSq hf _ c
          exact ⟨promo4_ok _ _ hf (by omega) (by omega), promo4_nodup _ _ hf (by omega)⟩
        · rw [if_neg c]; exact nil_ok _
      · by_cases c : (shift Dir.SW (sqBB fromSq) &&& b.color (1 - 1)) ≠ 0
        · rw [if_pos c]
          obtain ⟨a1, a2, _⟩ := sq_shift_down .SW 9 (by simp) fromSq hf _ c
          exact ⟨promo4_ok _ _ hf (by omega) (by have := a2 rfl; omega), promo4_nodup _ _ hf (by omega)⟩
        · rw [if_neg c]; exact nil_ok _
      · exact nil_ok _
    · rw [if_neg h7]
      have h7' : fromSq / 8 ≠ 1 := h7
      rcases hr4 with e | e | e | e <;> rw [e] <;> simp only []
      · by_cases c : (shift Dir.SE (sqBB fromSq) &&& (b.color (1 - 1) ||| if ep ≠ 64 then sqBB ep else 0)) ≠ 0
        · rw [if_pos c]
          obtain ⟨a1, _, a3⟩ := sq_shift_down .SE 7 (by simp) fromSq hf _ c
          exact single_ok _ _ (quiet1_ok _ _ hf (by omega) (by have := a3 rfl; omega))
        · rw [if_neg c]; exact nil_ok _
      · by_cases c : (shift Dir.S (sqBB fromSq) &&& bnot b.all) ≠ 0
        · rw [if_pos c]
          obtain ⟨a1, _, _⟩ := sq_shift_down .S 8 (by simp) fromSq hf _ c
          by_cases c2 : (shift Dir.SS (sqBB fromSq &&& rankBB 6) &&& bnot b.all) ≠ 0
          · rw [if_pos c2]
            have hr := sq_shift_down2 fromSq hf _ c2
            constructor
            · intro m hm
              simp only [List.singleton_append, List.mem_cons, List.not_mem_nil, or_false] at hm
              rcases hm with rfl | rfl
              · exact quiet1_ok _ _ hf (by omega) (by omega)
              · exact quiet1_ok _ _ hf (by omega) (by omega)
            · simp only [List.singleton_append]
              refine List.Pairwise.cons ?_ (List.Pairwise.cons (by intro _ h; simp at h) List.Pairwise.nil)
              intro x hx e'
              simp only [List.mem_singleton] at hx
              subst hx
              have := congrArg moveTo e'
              rw [(Props.C16_encoding_move _ _ hf (by omega)).2.1, (Props.C16_encoding_move _ _ hf (by omega)).2.1] at this
              omega
          · rw [if_neg c2]
            simp only [List.append_nil]
            exact single_ok _ _ (quiet1_ok _ _ hf (by omega) (by omega))
        · rw [if_neg c]; exact nil_ok _
      · by_cases c : (shift Dir.SW (sqBB fromSq) &&& (b.color (1 - 1) ||| if ep ≠ 64 then sqBB ep else 0)) ≠ 0
        · rw [if_pos c]
          obtain ⟨a1, a2, _⟩ := sq_shift_down .SW 9 (by simp) fromSq hf _ c
          exact single_ok _ _ (quiet1_ok _ _ hf (by omega) (by have := a2 rfl; omega))
        · rw [if_neg c]; exact nil_ok _
      · exact nil_ok _

end Chess

namespace Chess

theorem own_piece (p : Position) (ok : BoardOK p.board) (hs : p.side ≤ 1) (s : Nat) (h : ((BBs.of p).color p.side).testBit s = true) :
    s < 64 ∧ p.board.getD s 0 = mkPiece p.side (kindOf (p.board.getD s 0)) ∧ 1 ≤ kindOf (p.board.getD s 0) ∧ kindOf (p.board.getD s 0) ≤ 6 := by
  rw [color_testBit p p.side s hs ok] at h
  simp only [Bool.and_eq_true, decide_eq_true_eq] at h
  obtain ⟨h64, h0, hc⟩ := h
  have hcode := ok.codes s
  generalize p.board.getD s 0 = pc at *
  have hx : pc = 1 ∨ pc = 2 ∨ pc = 3 ∨ pc = 4 ∨ pc = 5 ∨ pc = 6 ∨ pc = 7 ∨ pc = 8 ∨ pc = 9 ∨ pc = 10 ∨ pc = 11 ∨ pc = 12 := by omega
  have hs01 : p.side = 0 ∨ p.side = 1 := by omega
  refine ⟨h64, ?_, ?_, ?_⟩
  · rcases hs01 with e | e <;> rw [e] at hc ⊢ <;>
      rcases hx with rfl | rfl | rfl | rfl | rfl | rfl | rfl | rfl | rfl | rfl | rfl | rfl <;> simp_all [mkPiece, kindOf, colorOf]
  · rcases hx with rfl | rfl | rfl | rfl | rfl | rfl | rfl | rfl | rfl | rfl | rfl | rfl <;> decide
  · rcases hx with rfl | rfl | rfl | rfl | rfl | rfl | rfl | rfl | rfl | rfl | rfl | rfl <;> decide

/-- the moves generated for one pinned piece -/
theorem pinnedGroup (p : Position) (ok : BoardOK p.board) (hs : p.side ≤ 1) (pinned target : BB) (pin : Nat) (hpin : PinOK p pin)
    (hpd : pinned.testBit (pinSquare pin) = true) :
    (∀ m, m ∈ genPinnedPieceMoves (BBs.of p) p.side pin target p.ep → GenMv p pinned m (pinKind pin) true ∧ moveFrom m = pinSquare pin) ∧
    (genPinnedPieceMoves (BBs.of p) p.side pin target p.ep).Nodup := by
  obtain ⟨h64, hb, k1, k6⟩ := own_piece p ok hs _ hpin.own
  have hkind := hpin.kind
  rw [← hkind] at hb k1 k6
  unfold genPinnedPieceMoves
  simp only []
  by_cases hN : pinKind pin = KNIGHT
  · rw [if_pos hN]; exact ⟨fun m hm => by simp at hm, List.nodup_nil⟩
  · rw [if_neg hN]
    by_cases hP : pinKind pin = PAWN
    · rw [if_pos hP]
      obtain ⟨g1, g2⟩ := genPinnedPawnMoves_ok (BBs.of p) p.side (pinSquare pin) (pinRay pin) p.ep hs h64
      refine ⟨?_, g2⟩
      intro m hm
      obtain ⟨t, k, mv, hk, hpr⟩ := (g1 m hm).ex
      refine ⟨⟨⟨pinSquare pin, t, k, mv, hb, hpd, hk, ?_⟩, k1, k6⟩, mv.from_⟩
      rw [hP]
      constructor
      · intro h; exact ⟨rfl, hpr.1 h⟩
      · intro h; exact hpr.2 h.2
    · rw [if_neg hP]
      by_cases hA : (!allowedRay (pinKind pin) (pinRay pin)) = true
      · rw [if_pos hA]; exact ⟨fun m hm => by simp at hm, List.nodup_nil⟩
      · rw [if_neg hA]
        constructor
        · intro m hm
          simp only [List.mem_map, mem_bitsOf] at hm
          obtain ⟨t, ⟨ht, _⟩, rfl⟩ := hm
          have mv := IsMv.ofMove (pinSquare pin) t h64 ht
          refine ⟨⟨⟨pinSquare pin, t, 0, mv, hb, hpd, Or.inl rfl, ?_⟩, k1, k6⟩, mv.from_⟩
          constructor
          · intro h; exact absurd rfl h
          · intro h; exact absurd h.1 hP
        · apply nodup_map_of_inj _ _ (bitsOf_nodup _)
          intro a ha c hc e
          have ha' := ((mem_bitsOf _ _).1 ha).1
          have hc' := ((mem_bitsOf _ _).1 hc).1
          have := congrArg moveTo e
          rw [(Props.C16_encoding_move _ a h64 ha').2.1, (Props.C16_encoding_move _ c h64 hc').2.1] at this
          exact this

end Chess

namespace Chess

-- assembling the groups ----------------------------------------------------------------------------------------------------------------------
def GenElem (p : Position) (pinned : BB) (m : Nat) : Prop :=
  (m = kingCastlingMove ∨ m = queenCastlingMove) ∨ ∃ K pin, GenMv p pinned m K pin

/-- a list of generated moves whose elements are well-shaped, have their class in `cs`, and are pairwise different -/
structure Good (p : Position) (pinned : BB) (cs : List Nat) (l : List Nat) : Prop where
  el : ∀ m, m ∈ l → GenElem p pinned m ∧ mvClass p pinned m ∈ cs
  nd : l.Nodup

theorem Good.append {p : Position} {pinned : BB} {cs1 cs2 : List Nat} {l1 l2 : List Nat} (h1 : Good p pinned cs1 l1) (h2 : Good p pinned cs2 l2)
    (hd : ∀ a, a ∈ l1 → ∀ b, b ∈ l2 → a ≠ b) : Good p pinned (cs1 ++ cs2) (l1 ++ l2) := by
  refine ⟨?_, nodup_append' _ _ h1.nd h2.nd hd⟩
  intro m hm
  rw [List.mem_append] at hm
  rcases hm with hm | hm
  · exact ⟨(h1.el m hm).1, List.mem_append_left _ (h1.el m hm).2⟩
  · exact ⟨(h2.el m hm).1, List.mem_append_right _ (h2.el m hm).2⟩

theorem Good.append_cls {p : Position} {pinned : BB} {cs1 cs2 : List Nat} {l1 l2 : List Nat} (h1 : Good p pinned cs1 l1) (h2 : Good p pinned cs2 l2)
    (hc : ∀ a, a ∈ cs1 → ∀ b, b ∈ cs2 → a ≠ b) : Good p pinned (cs1 ++ cs2) (l1 ++ l2) := by
  apply h1.append h2
  intro a ha b hb e
  have c1 := (h1.el a ha).2
  have c2 := (h2.el b hb).2
  rw [e] at c1
  exact hc _ c1 _ c2 rfl

theorem Good.nil (p : Position) (pinned : BB) (cs : List Nat) : Good p pinned cs [] := ⟨fun m hm => by simp at hm, List.nodup_nil⟩

theorem Good.ofGen {p : Position} {pinned : BB} {l : List Nat} {K : Nat} {pin : Bool} (hs : p.side ≤ 1)
    (h : ∀ m, m ∈ l → GenMv p pinned m K pin) (hn : l.Nodup) : Good p pinned [K + (if pin then 10 else 0)] l := by
  refine ⟨?_, hn⟩
  intro m hm
  exact ⟨Or.inr ⟨K, pin, h m hm⟩, by rw [(h m hm).cls hs]; exact List.mem_singleton.2 rfl⟩

theorem nodup_map_ne {α β : Type} (g : α → β) (l : List α) (h : (l.map g).Nodup) (a b : α) (ha : a ∈ l) (hb : b ∈ l) (hab : a ≠ b) : g a ≠ g b := by
  induction l with
  | nil => simp at ha
  | cons x xs ih =>
    have h' : List.Pairwise (· ≠ ·) (g x :: xs.map g) := h
    rw [List.pairwise_cons] at h'
    simp only [List.mem_cons] at ha hb
    rcases ha with rfl | ha
    · rcases hb with rfl | hb
      · exact absurd rfl hab
      · exact h'.1 (g b) (List.mem_map.2 ⟨b, hb, rfl⟩)
    · rcases hb with rfl | hb
      · intro e; exact h'.1 (g a) (List.mem_map.2 ⟨a, ha, rfl⟩) e.symm
      · exact ih h'.2 ha hb

/-- all pinned pieces' moves -/
theorem pinnedGood (p : Position) (ok : BoardOK p.board) (hs : p.side ≤ 1) (hk : kingSq p.board p.side < 64) (target : BB) :
    Good p ((genPins (BBs.of p) p.board p.side).foldl (fun acc pin => acc ||| sqBB (pinSquare pin)) 0) [11, 12, 13, 14, 15, 16]
      ((genPins (BBs.of p) p.board p.side).flatMap (fun pin => genPinnedPieceMoves (BBs.of p) p.side pin target p.ep)) := by
  have hpd : ∀ pin, pin ∈ genPins (BBs.of p) p.board p.side →
      ((genPins (BBs.of p) p.board p.side).foldl (fun acc pin => acc ||| sqBB (pinSquare pin)) 0).testBit (pinSquare pin) = true := by
    intro pin hp
    rw [pinned_testBit]
    exact Or.inr ⟨pin, hp, rfl⟩
  constructor
  · intro m hm
    rw [List.mem_flatMap] at hm
    obtain ⟨pin, hp, hm⟩ := hm
    have hpin := mem_genPins p ok hs hk pin hp
    obtain ⟨g, _⟩ := (pinnedGroup p ok hs _ target pin hpin (hpd pin hp)).1 m hm
    refine ⟨Or.inr ⟨_, _, g⟩, ?_⟩
    rw [g.cls hs]
    have := g.K16
    simp only [if_true, List.mem_cons, List.not_mem_nil, or_false]
    omega
  · apply nodup_flatMap _ _ (genPins_nodup p ok hs hk)
    · intro pin hp
      exact (pinnedGroup p ok hs _ target pin (mem_genPins p ok hs hk pin hp) (hpd pin hp)).2
    · intro a ha b hb hab x hx y hy e
      have f1 := ((pinnedGroup p ok hs _ target a (mem_genPins p ok hs hk a ha) (hpd a ha)).1 x hx).2
      have f2 := ((pinnedGroup p ok hs _ target b (mem_genPins p ok hs hk b hb) (hpd b hb)).1 y hy).2
      rw [e, f2] at f1
      exact nodup_map_ne pinSquare _ (genPins_squares_nodup p ok hs hk) a b ha hb hab f1.symm

end Chess

namespace Chess

theorem checkers_occupied (p : Position) (ok : BoardOK p.board) (hs : p.side ≤ 1) (s : Nat)
    (h : (checkersBB (BBs.of p) p.board p.side).testBit s = true) : p.board.getD s 0 ≠ 0 := by
  have ho : 1 - p.side ≤ 1 := by omega
  have key : ∀ K, 1 ≤ K → K ≤ 6 → ((BBs.of p).ck (1 - p.side) K).testBit s = true → p.board.getD s 0 ≠ 0 := by
    intro K h1 h6 hb
    rw [ck_testBit p (1 - p.side) K s ho h6 ok] at hb
    simp only [Bool.and_eq_true, decide_eq_true_eq] at hb
    rw [hb.2]; exact mkPiece_ne_zero _ _ (by omega)
  unfold checkersBB at h
  simp only [Nat.testBit_or, Nat.testBit_and, Bool.or_eq_true, Bool.and_eq_true] at h
  rcases h with ((h | h) | h) | h
  · exact key PAWN (by decide) (by decide) h.2
  · exact key KNIGHT (by decide) (by decide) h.2
  · rcases h.2 with h' | h'
    · exact key BISHOP (by decide) (by decide) h'
    · exact key QUEEN (by decide) (by decide) h'
  · rcases h.2 with h' | h'
    · exact key ROOK (by decide) (by decide) h'
    · exact key QUEEN (by decide) (by decide) h'

theorem castle_good (p : Position) (pinned : BB) (c : Prop) [Decidable c] (code : Nat) (hcode : code = KING_CASTLING ∨ code = QUEEN_CASTLING) :
    Good p pinned [100] (if c then [mkCastling code] else []) := by
  by_cases h : c
  · rw [if_pos h]
    refine ⟨?_, List.Pairwise.cons (by intro _ h; simp at h) List.Pairwise.nil⟩
    intro m hm
    simp only [List.mem_singleton] at hm
    subst hm
    rcases hcode with rfl | rfl
    · refine ⟨Or.inl (Or.inl rfl), ?_⟩
      unfold mvClass
      rw [if_pos (by decide)]; exact List.mem_singleton.2 rfl
    · refine ⟨Or.inl (Or.inr rfl), ?_⟩
      unfold mvClass
      rw [if_pos (by decide)]; exact List.mem_singleton.2 rfl
  · rw [if_neg h]; exact Good.nil _ _ _

end Chess

namespace Chess

/-- what the assembly needs of the position: board shape, one own king, and an en-passant square (if any) that is empty and on the
    rank behind a pawn that has just made a double step -/
structure GenHyp (p : Position) (k : Nat) : Prop where
  ok : BoardOK p.board
  side : p.side ≤ 1
  king : KingAt p.board p.side k
  ep : p.ep = 64 ∨ (p.ep < 64 ∧ (if p.side = 0 then p.ep / 8 = 5 else p.ep / 8 = 2) ∧ p.board.getD p.ep 0 = 0)

theorem genMoves_good (p : Position) (k : Nat) (H : GenHyp p k) : ∃ pinned cs, Good p pinned cs (genMoves p) := by
  have ok := H.ok
  have hs := H.side
  have hkq : kingSq p.board p.side = k := kingSq_eq p.board p.side k ok.len H.king
  have hk64 : kingSq p.board p.side < 64 := by rw [hkq]; exact H.king.lt
  -- the pinned squares
  generalize hpd : (genPins (BBs.of p) p.board p.side).foldl (fun acc pin => acc ||| sqBB (pinSquare pin)) 0 = pinned
  have hpk : pinned.testBit k = false := by
    apply Bool.eq_false_iff.2
    intro h
    rw [← hpd, pinned_testBit] at h
    rcases h with h | ⟨pin, hp, e⟩
    · simp at h
    · have hpin := mem_genPins p ok hs hk64 pin hp
      have := hpin.onRay
      rw [e, hkq, (rays_facts k _ H.king.lt hpin.ray).2.1] at this
      cases this
  have kingG : ∀ notAllowed, Good p pinned [6] (genKingMoves k notAllowed) := by
    intro na
    obtain ⟨g1, g2⟩ := kingGroup p hs pinned na k H.king.lt H.king.here hpk
    exact Good.ofGen hs g1 g2
  unfold genMoves
  simp only []
  rw [hkq]
  by_cases hdbl : checkersBB (BBs.of p) p.board p.side ≠ 0 ∧ moreThanOne (checkersBB (BBs.of p) p.board p.side) = true
  · rw [if_pos hdbl]
    exact ⟨pinned, [6], kingG _⟩
  · rw [if_neg hdbl]
    -- the list common to both remaining branches, for any masks whose capture mask does not contain the en-passant square
    have common : ∀ pm cm : BB, (p.ep ≠ 64 → cm.testBit p.ep = false) → ∀ na : BB,
        Good p pinned (((((([1] ++ [2]) ++ [3]) ++ [4]) ++ [5]) ++ [1]) ++ [6])
          ((((((genPawnMoves p.side ((BBs.of p).ck p.side PAWN &&& bnot pinned) (bnot (BBs.of p).all) pm cm ++
            (bitsOf ((BBs.of p).ck p.side KNIGHT &&& bnot pinned)).flatMap (fun s => genPieceMoves (BBs.of p) KNIGHT s (cm ||| pm))) ++
            (bitsOf ((BBs.of p).ck p.side BISHOP &&& bnot pinned)).flatMap (fun s => genPieceMoves (BBs.of p) BISHOP s (cm ||| pm))) ++
            (bitsOf ((BBs.of p).ck p.side ROOK &&& bnot pinned)).flatMap (fun s => genPieceMoves (BBs.of p) ROOK s (cm ||| pm))) ++
            (bitsOf ((BBs.of p).ck p.side QUEEN &&& bnot pinned)).flatMap (fun s => genPieceMoves (BBs.of p) QUEEN s (cm ||| pm))) ++
            (if p.ep ≠ 64 then genEnpassant (BBs.of p) p.board p.side ((BBs.of p).ck p.side PAWN &&& bnot pinned) pm cm p.ep else [])) ++
            genKingMoves k na) := by
      intro pm cm hcm na
      obtain ⟨pw1, pw2⟩ := pawnGroupOK p ok hs pinned (bnot (BBs.of p).all) pm cm
      have gP : Good p pinned [1] _ := Good.ofGen hs pw1 pw2
      have gN : Good p pinned [2] _ := Good.ofGen hs (pieceGroup p ok hs pinned (cm ||| pm) KNIGHT (by decide)).1 (pieceGroup p ok hs pinned (cm ||| pm) KNIGHT (by decide)).2
      have gB : Good p pinned [3] _ := Good.ofGen hs (pieceGroup p ok hs pinned (cm ||| pm) BISHOP (by decide)).1 (pieceGroup p ok hs pinned (cm ||| pm) BISHOP (by decide)).2
      have gR : Good p pinned [4] _ := Good.ofGen hs (pieceGroup p ok hs pinned (cm ||| pm) ROOK (by decide)).1 (pieceGroup p ok hs pinned (cm ||| pm) ROOK (by decide)).2
      have gQ : Good p pinned [5] _ := Good.ofGen hs (pieceGroup p ok hs pinned (cm ||| pm) QUEEN (by decide)).1 (pieceGroup p ok hs pinned (cm ||| pm) QUEEN (by decide)).2
      have g5 := (((gP.append_cls gN (by decide)).append_cls gB (by decide)).append_cls gR (by decide)).append_cls gQ (by decide)
      refine Good.append_cls ?_ (kingG na) (by decide)
      by_cases he : p.ep ≠ 64
      · rw [if_pos he]
        rcases H.ep with e | ⟨e64, erank, _⟩
        · exact absurd e he
        · obtain ⟨e1, e2⟩ := epGroup p ok hs pinned pm cm p.ep e64 erank
          have gE : Good p pinned [1] _ := Good.ofGen hs (fun m hm => (e1 m hm).1) e2
          apply g5.append gE
          intro a ha b hb eab
          obtain ⟨_, bto, bpr, boff⟩ := e1 b hb
          simp only [List.mem_append] at ha
          rcases ha with (((ha | ha) | ha) | ha) | ha
          · -- a pawn move with the en-passant square as target and a capture offset would be in the capture mask
            obtain ⟨idx, f, t, kk, hP⟩ := mem_genPawnMoves p.side hs _ _ pm cm (fun j h => (pawnSrc p ok hs pinned j h).1) a ha
            rw [← eab, hP.mv.to_] at bto
            rw [← eab, hP.mv.promo_] at bpr
            rw [← eab, hP.mv.to_, hP.mv.from_] at boff
            have hoff := hP.off
            have hpr := hP.promo
            have hcap := hP.cap
            have hi := hP.idx7
            have hoffv : (if p.side = 0 then t - f else f - t) = pawnOff idx := by
              by_cases hs0 : p.side = 0
              · rw [if_pos hs0] at hoff ⊢; omega
              · rw [if_neg hs0] at hoff ⊢; omega
            rw [hoffv] at boff
            have := hcap (by omega)
            rw [bto, hcm he] at this
            cases this
          · have c1 := (gN.el a ha).2
            have c2 := (gE.el b hb).2
            rw [eab] at c1; simp at c1 c2; omega
          · have c1 := (gB.el a ha).2
            have c2 := (gE.el b hb).2
            rw [eab] at c1; simp at c1 c2; omega
          · have c1 := (gR.el a ha).2
            have c2 := (gE.el b hb).2
            rw [eab] at c1; simp at c1 c2; omega
          · have c1 := (gQ.el a ha).2
            have c2 := (gE.el b hb).2
            rw [eab] at c1; simp at c1 c2; omega
      · rw [if_neg he, List.append_nil]
        refine ⟨fun m hm => ⟨(g5.el m hm).1, List.mem_append_left _ (g5.el m hm).2⟩, g5.nd⟩
    by_cases hchk : checkersBB (BBs.of p) p.board p.side ≠ 0
    · -- single check
      simp only [if_pos hchk]
      refine ⟨pinned, [1] ++ [2] ++ [3] ++ [4] ++ [5] ++ [1] ++ [6], ?_⟩
      rw [hpd]
      refine common _ _ ?_ _
      intro he
      apply Bool.eq_false_iff.2
      intro h
      rcases H.ep with e | ⟨_, _, e0⟩
      · exact he e
      · exact checkers_occupied p ok hs _ h e0
    · -- no check
      simp only [if_neg hchk]
      refine ⟨pinned, [1] ++ [2] ++ [3] ++ [4] ++ [5] ++ [1] ++ [6] ++ [11, 12, 13, 14, 15, 16] ++ [100] ++ [100], ?_⟩
      rw [hpd]
      have hc := common (bnot (BBs.of p).all) ((BBs.of p).color (1 - p.side)) (by
        intro he
        apply Bool.eq_false_iff.2
        intro h
        rcases H.ep with e | ⟨_, _, e0⟩
        · exact he e
        · rw [color_testBit p (1 - p.side) _ (by omega) ok] at h
          simp only [Bool.and_eq_true, decide_eq_true_eq] at h
          exact h.2.1 e0) (forbiddenSquares (BBs.of p) p.board p.side ||| (BBs.of p).color p.side)
      have gPin := pinnedGood p ok hs hk64 (bnot (BBs.of p).all ||| (BBs.of p).color (1 - p.side))
      rw [hpd] at gPin
      have g8 := hc.append_cls gPin (by decide)
      by_cases hs0 : p.side = 0
      · simp only [if_pos hs0]
        have gK := castle_good p pinned (p.castling &&& W_OO ≠ 0 ∧ (forbiddenSquares (BBs.of p) p.board p.side ||| (BBs.of p).all) &&& castlingPath W_OO = 0) KING_CASTLING (Or.inl rfl)
        have gQ := castle_good p pinned (p.castling &&& W_OOO ≠ 0 ∧ (forbiddenSquares (BBs.of p) p.board p.side ||| (BBs.of p).all) &&& castlingPath W_OOO = 0 ∧
          queenCastlingBlock 0 &&& (BBs.of p).all = 0) QUEEN_CASTLING (Or.inr rfl)
        have g9 := g8.append_cls gK (by decide)
        exact g9.append gQ (by
          intro a ha b hb e
          rw [List.mem_append] at ha
          rcases ha with ha | ha
          · have c1 := (g8.el a ha).2
            have c2 := (gQ.el b hb).2
            rw [e] at c1; simp at c1 c2; omega
          · by_cases c : p.castling &&& W_OO ≠ 0 ∧ (forbiddenSquares (BBs.of p) p.board p.side ||| (BBs.of p).all) &&& castlingPath W_OO = 0
            · rw [if_pos c] at ha
              by_cases c' : p.castling &&& W_OOO ≠ 0 ∧ (forbiddenSquares (BBs.of p) p.board p.side ||| (BBs.of p).all) &&& castlingPath W_OOO = 0 ∧
                  queenCastlingBlock 0 &&& (BBs.of p).all = 0
              · rw [if_pos c'] at hb
                simp only [List.mem_singleton] at ha hb
                rw [ha, hb] at e
                exact absurd e (by decide)
              · rw [if_neg c'] at hb; simp at hb
            · rw [if_neg c] at ha; simp at ha)
      · simp only [if_neg hs0]
        have gK := castle_good p pinned (p.castling &&& B_OO ≠ 0 ∧ (forbiddenSquares (BBs.of p) p.board p.side ||| (BBs.of p).all) &&& castlingPath B_OO = 0) KING_CASTLING (Or.inl rfl)
        have gQ := castle_good p pinned (p.castling &&& B_OOO ≠ 0 ∧ (forbiddenSquares (BBs.of p) p.board p.side ||| (BBs.of p).all) &&& castlingPath B_OOO = 0 ∧
          queenCastlingBlock 1 &&& (BBs.of p).all = 0) QUEEN_CASTLING (Or.inr rfl)
        have g9 := g8.append_cls gK (by decide)
        exact g9.append gQ (by
          intro a ha b hb e
          rw [List.mem_append] at ha
          rcases ha with ha | ha
          · have c1 := (g8.el a ha).2
            have c2 := (gQ.el b hb).2
            rw [e] at c1; simp at c1 c2; omega
          · by_cases c : p.castling &&& B_OO ≠ 0 ∧ (forbiddenSquares (BBs.of p) p.board p.side ||| (BBs.of p).all) &&& castlingPath B_OO = 0
            · rw [if_pos c] at ha
              by_cases c' : p.castling &&& B_OOO ≠ 0 ∧ (forbiddenSquares (BBs.of p) p.board p.side ||| (BBs.of p).all) &&& castlingPath B_OOO = 0 ∧
                  queenCastlingBlock 1 &&& (BBs.of p).all = 0
              · rw [if_pos c'] at hb
                simp only [List.mem_singleton] at ha hb
                rw [ha, hb] at e
                exact absurd e (by decide)
              · rw [if_neg c'] at hb; simp at hb
            · rw [if_neg c] at ha; simp at ha)

end Chess
