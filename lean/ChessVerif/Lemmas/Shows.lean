/-
  Lemmas/Shows.lean — "the model position shows a position of a legal game from the initial position", and that such a position is
  well-formed (`wf_reachable`).  Used by the `_reachable` forms of the position theorems.
-/
import ChessVerif.Lemmas.WfStep
import ChessVerif.Lemmas.Refine
namespace Chess

/-- the model position `p` shows the position reached from the initial position by the legal game `ms` -/
def Shows (p : Position) (ms : List Spec.SMove) : Prop :=
  LegalGame startSPos ms ∧ absPos p = ms.foldl Spec.apply startSPos

theorem wf_of_shows (p : Position) (ms : List Spec.SMove) (h : Shows p ms) : Spec.wf (absPos p) = true := by
  rw [h.2]; exact wf_reachable ms h.1

end Chess
