/-
  Lemmas/MirrorEndgame.lean — which specialised endgame claims a position, under the colour mirror: `egApplies e` for the strong side
  `s` on the position ⇔ `egApplies e` for the other side on the mirrored position (material signatures, piece counts, bare-king tests).
-/
import ChessVerif.Lemmas.MirrorOutposts
import ChessVerif.Lemmas.Material
namespace Chess
open Chess.Props

/-- white and black halves of the packed material signature -/
theorem pcv_halves (b : List Nat)
    (hc : countOf b 1 < 16 ∧ countOf b 2 < 16 ∧ countOf b 3 < 16 ∧ countOf b 4 < 16 ∧ countOf b 5 < 16 ∧ countOf b 7 < 16 ∧
          countOf b 8 < 16 ∧ countOf b 9 < 16 ∧ countOf b 10 < 16 ∧ countOf b 11 < 16) :
    pcv b = (countOf b 1 * 16 + countOf b 2 * 256 + countOf b 3 * 4096 + countOf b 4 * 65536 + countOf b 5 * 1048576) +
            16777216 * (countOf b 7 * 16 + countOf b 8 * 256 + countOf b 9 * 4096 + countOf b 10 * 65536 + countOf b 11 * 1048576) := by
  obtain ⟨h1, h2, h3, h4, h5, h7, h8, h9, h10, h11⟩ := hc
  have hp : pcv b = countOf b 1 * 2 ^ 4 + countOf b 2 * 2 ^ 8 + countOf b 3 * 2 ^ 12 + countOf b 4 * 2 ^ 16 + countOf b 5 * 2 ^ 20 +
      countOf b 7 * 2 ^ 28 + countOf b 8 * 2 ^ 32 + countOf b 9 * 2 ^ 36 + countOf b 10 * 2 ^ 40 + countOf b 11 * 2 ^ 44 :=
    pcv_sum _ _ _ _ _ _ _ _ _ _ h1 h2 h3 h4 h5 h7 h8 h9 h10 h11
  have e4 : (2:Nat) ^ 4 = 16 := rfl
  have e8 : (2:Nat) ^ 8 = 256 := rfl
  have e12 : (2:Nat) ^ 12 = 4096 := rfl
  have e16 : (2:Nat) ^ 16 = 65536 := rfl
  have e20 : (2:Nat) ^ 20 = 1048576 := rfl
  have e28 : (2:Nat) ^ 28 = 268435456 := rfl
  have e32 : (2:Nat) ^ 32 = 4294967296 := rfl
  have e36 : (2:Nat) ^ 36 = 68719476736 := rfl
  have e40 : (2:Nat) ^ 40 = 1099511627776 := rfl
  have e44 : (2:Nat) ^ 44 = 17592186044416 := rfl
  rw [e4, e8, e12, e16, e20, e28, e32, e36, e40, e44] at hp
  rw [hp]; omega

/-- the piece counts of the mirrored board, code by code -/
theorem counts_mirror {p q : Position} (m : MirrorPos p q) :
    countOf q.board 1 = countOf p.board 7 ∧ countOf q.board 2 = countOf p.board 8 ∧ countOf q.board 3 = countOf p.board 9 ∧
    countOf q.board 4 = countOf p.board 10 ∧ countOf q.board 5 = countOf p.board 11 ∧ countOf q.board 6 = countOf p.board 12 ∧
    countOf q.board 7 = countOf p.board 1 ∧ countOf q.board 8 = countOf p.board 2 ∧ countOf q.board 9 = countOf p.board 3 ∧
    countOf q.board 10 = countOf p.board 4 ∧ countOf q.board 11 = countOf p.board 5 ∧ countOf q.board 12 = countOf p.board 6 := by
  have h := fun pc hpc => countOf_mirror p.board m.len m.codes pc hpc
  rw [m.hq]
  have e1 := h 7 (by omega); have e2 := h 8 (by omega); have e3 := h 9 (by omega); have e4 := h 10 (by omega)
  have e5 := h 11 (by omega); have e6 := h 12 (by omega); have e7 := h 1 (by omega); have e8 := h 2 (by omega)
  have e9 := h 3 (by omega); have e10 := h 4 (by omega); have e11 := h 5 (by omega); have e12 := h 6 (by omega)
  have mm : mirrorPiece 7 = 1 ∧ mirrorPiece 8 = 2 ∧ mirrorPiece 9 = 3 ∧ mirrorPiece 10 = 4 ∧ mirrorPiece 11 = 5 ∧ mirrorPiece 12 = 6 ∧
      mirrorPiece 1 = 7 ∧ mirrorPiece 2 = 8 ∧ mirrorPiece 3 = 9 ∧ mirrorPiece 4 = 10 ∧ mirrorPiece 5 = 11 ∧ mirrorPiece 6 = 12 := by decide
  obtain ⟨m1, m2, m3, m4, m5, m6, m7, m8, m9, m10, m11, m12⟩ := mm
  rw [m1] at e1; rw [m2] at e2; rw [m3] at e3; rw [m4] at e4; rw [m5] at e5; rw [m6] at e6
  rw [m7] at e7; rw [m8] at e8; rw [m9] at e9; rw [m10] at e10; rw [m11] at e11; rw [m12] at e12
  exact ⟨e1, e2, e3, e4, e5, e6, e7, e8, e9, e10, e11, e12⟩

def CountsOK (b : List Nat) : Prop :=
  countOf b 1 < 16 ∧ countOf b 2 < 16 ∧ countOf b 3 < 16 ∧ countOf b 4 < 16 ∧ countOf b 5 < 16 ∧ countOf b 7 < 16 ∧
  countOf b 8 < 16 ∧ countOf b 9 < 16 ∧ countOf b 10 < 16 ∧ countOf b 11 < 16

/-- a material signature of the mirrored board for the other strong side ⇔ the signature of the board -/
theorem pcv_class_mirror {p q : Position} (m : MirrorPos p q) (hc : CountsOK p.board) (w1 w2 w3 w4 w5 b1 b2 b3 b4 b5 : Nat)
    (hw : w1 < 16 ∧ w2 < 16 ∧ w3 < 16 ∧ w4 < 16 ∧ w5 < 16 ∧ b1 < 16 ∧ b2 < 16 ∧ b3 < 16 ∧ b4 < 16 ∧ b5 < 16) (s : Nat) (hs : s ≤ 1) :
    (pcv q.board = sandbox (1 - s) [w1, w2, w3, w4, w5, b1, b2, b3, b4, b5] [b1, b2, b3, b4, b5, w1, w2, w3, w4, w5]) ↔
    (pcv p.board = sandbox s [w1, w2, w3, w4, w5, b1, b2, b3, b4, b5] [b1, b2, b3, b4, b5, w1, w2, w3, w4, w5]) := by
  obtain ⟨c1, c2, c3, c4, c5, _, c7, c8, c9, c10, c11, _⟩ := counts_mirror m
  obtain ⟨h1, h2, h3, h4, h5, h7, h8, h9, h10, h11⟩ := hc
  have hcq : CountsOK q.board := by
    unfold CountsOK; rw [c1, c2, c3, c4, c5, c7, c8, c9, c10, c11]
    exact ⟨h7, h8, h9, h10, h11, h1, h2, h3, h4, h5⟩
  obtain ⟨g1, g2, g3, g4, g5, g6, g7, g8, g9, g10⟩ := hw
  have mkv : ∀ a1 a2 a3 a4 a5 d1 d2 d3 d4 d5 : Nat, a1 < 16 → a2 < 16 → a3 < 16 → a4 < 16 → a5 < 16 → d1 < 16 → d2 < 16 → d3 < 16 → d4 < 16 → d5 < 16 →
      mkPcv [a1, a2, a3, a4, a5, d1, d2, d3, d4, d5] =
        (a1 * 16 + a2 * 256 + a3 * 4096 + a4 * 65536 + a5 * 1048576) + 16777216 * (d1 * 16 + d2 * 256 + d3 * 4096 + d4 * 65536 + d5 * 1048576) := by
    intro a1 a2 a3 a4 a5 d1 d2 d3 d4 d5 k1 k2 k3 k4 k5 k6 k7 k8 k9 k10
    show (a1 <<< 4 ||| a2 <<< 8 ||| a3 <<< 12 ||| a4 <<< 16 ||| a5 <<< 20 ||| d1 <<< 28 ||| d2 <<< 32 ||| d3 <<< 36 ||| d4 <<< 40 ||| d5 <<< 44) = _
    rw [pcv_sum _ _ _ _ _ _ _ _ _ _ k1 k2 k3 k4 k5 k6 k7 k8 k9 k10]
    have e4 : (2:Nat) ^ 4 = 16 := rfl
    have e8 : (2:Nat) ^ 8 = 256 := rfl
    have e12 : (2:Nat) ^ 12 = 4096 := rfl
    have e16 : (2:Nat) ^ 16 = 65536 := rfl
    have e20 : (2:Nat) ^ 20 = 1048576 := rfl
    have e28 : (2:Nat) ^ 28 = 268435456 := rfl
    have e32 : (2:Nat) ^ 32 = 4294967296 := rfl
    have e36 : (2:Nat) ^ 36 = 68719476736 := rfl
    have e40 : (2:Nat) ^ 40 = 1099511627776 := rfl
    have e44 : (2:Nat) ^ 44 = 17592186044416 := rfl
    rw [e4, e8, e12, e16, e20, e28, e32, e36, e40, e44]; omega
  rw [pcv_halves q.board hcq, pcv_halves p.board ⟨h1, h2, h3, h4, h5, h7, h8, h9, h10, h11⟩, c1, c2, c3, c4, c5, c7, c8, c9, c10, c11]
  have hs' : s = 0 ∨ s = 1 := by omega
  unfold sandbox
  rcases hs' with rfl | rfl
  · simp only [show (1 - 0 : Nat) = 1 from rfl, if_neg (show ¬ (1 : Nat) = 0 by decide), ↓reduceIte]
    rw [mkv _ _ _ _ _ _ _ _ _ _ g6 g7 g8 g9 g10 g1 g2 g3 g4 g5, mkv _ _ _ _ _ _ _ _ _ _ g1 g2 g3 g4 g5 g6 g7 g8 g9 g10]
    omega
  · simp only [show (1 - 1 : Nat) = 0 from rfl, if_neg (show ¬ (1 : Nat) = 0 by decide), ↓reduceIte]
    rw [mkv _ _ _ _ _ _ _ _ _ _ g6 g7 g8 g9 g10 g1 g2 g3 g4 g5, mkv _ _ _ _ _ _ _ _ _ _ g1 g2 g3 g4 g5 g6 g7 g8 g9 g10]
    omega

theorem cnt_mirror {p q : Position} (m : MirrorPos p q) (c k : Nat) (hc : c ≤ 1) (hk1 : 1 ≤ k) (hk : k ≤ 6) :
    countOf q.board (mkPiece (1 - c) k) = countOf p.board (mkPiece c k) := by
  have h := mirrorCodeOK_true
  simp only [mirrorCodeOK, List.all_eq_true, List.mem_range, Bool.and_eq_true, decide_eq_true_eq, Bool.or_eq_true, beq_iff_eq] at h
  have hcm : c ∈ [0, 1] := by
    have : c = 0 ∨ c = 1 := by omega
    rcases this with rfl | rfl <;> simp
  have hx := (h 0 (by omega)).2 c hcm k (by omega)
  have hx' : mirrorPiece (mkPiece c k) = mkPiece (1 - c) k ∧ mkPiece c k ≤ 12 := by
    rcases hx with hx | hx
    · omega
    · exact hx
  rw [m.hq, ← hx'.1]
  exact countOf_mirror p.board m.len m.codes _ hx'.2

theorem nonpawns_mirror {p q : Position} (m : MirrorPos p q) (c : Nat) (hc : c ≤ 1) :
    noNonpawns q.board (1 - c) = noNonpawns p.board c := by
  unfold noNonpawns
  rw [cnt_mirror m c KNIGHT hc (by decide) (by decide), cnt_mirror m c BISHOP hc (by decide) (by decide),
    cnt_mirror m c ROOK hc (by decide) (by decide), cnt_mirror m c QUEEN hc (by decide) (by decide)]

/-- **which endgame claims the position**: `egApplies e` for strong side `s` on the position ⇔ for the other side on the mirror -/
theorem egApplies_mirror {p q : Position} (m : MirrorPos p q) (hc : CountsOK p.board) (e : EG) (s : Nat) (hs : s ≤ 1) :
    egApplies e (BBs.of q) q.board (1 - s) = egApplies e (BBs.of p) p.board s := by
  have hs1 : 1 - s ≤ 1 := by omega
  have e2 : 1 - (1 - s) = s := by omega
  have hqlen : q.board.length = 64 := by rw [m.hq]; exact mirrorBoard_length _
  have cS : ∀ k, 1 ≤ k → k ≤ 6 → countOf q.board (mkPiece (1 - s) k) = countOf p.board (mkPiece s k) := fun k h1 h6 => cnt_mirror m s k hs h1 h6
  have cW : ∀ k, 1 ≤ k → k ≤ 6 → countOf q.board (mkPiece s k) = countOf p.board (mkPiece (1 - s) k) := by
    intro k h1 h6
    have := cnt_mirror m (1 - s) k hs1 h1 h6
    rw [e2] at this; exact this
  have nS := nonpawns_mirror m s hs
  have nW : noNonpawns q.board s = noNonpawns p.board (1 - s) := by
    have := nonpawns_mirror m (1 - s) hs1; rw [e2] at this; exact this
  -- the weak side is a bare king
  have mcolW : MirrorBB ((BBs.of p).color (1 - s)) ((BBs.of q).color s) := by
    have := m.color (1 - s) hs1; rw [e2] at this; exact this
  have mkW : MirrorBB ((BBs.of p).ck (1 - s) KING) ((BBs.of q).ck s KING) := by
    have := m.ck (1 - s) KING hs1 (by decide) (by decide); rw [e2] at this; exact this
  have bcol : ∀ (x : Position) (c : Nat), c ≤ 1 → x.board.length = 64 → (BBs.of x).color c < 2 ^ 64 := by
    intro x c hc hl
    unfold BBs.color
    repeat (first | apply Nat.or_lt_two_pow | exact MirrorPos.ck_lt _ _ hc (by decide) hl)
  have bare : ((BBs.of q).color s = (BBs.of q).ck s KING) ↔ ((BBs.of p).color (1 - s) = (BBs.of p).ck (1 - s) KING) :=
    MirrorBB.eq_iff (bcol p _ hs1 m.len) (MirrorPos.ck_lt _ _ hs1 (by decide) m.len) (bcol q _ hs hqlen) (MirrorPos.ck_lt _ _ hs (by decide) hqlen) mcolW mkW
  cases e <;> simp only [egApplies, e2]
  case KPK => exact decide_eq_decide.2 (pcv_class_mirror m hc _ _ _ _ _ _ _ _ _ _ (by decide) s hs)
  case KRKB => exact decide_eq_decide.2 (pcv_class_mirror m hc _ _ _ _ _ _ _ _ _ _ (by decide) s hs)
  case KRKN => exact decide_eq_decide.2 (pcv_class_mirror m hc _ _ _ _ _ _ _ _ _ _ (by decide) s hs)
  case KNNK => exact decide_eq_decide.2 (pcv_class_mirror m hc _ _ _ _ _ _ _ _ _ _ (by decide) s hs)
  case KNNKP => exact decide_eq_decide.2 (pcv_class_mirror m hc _ _ _ _ _ _ _ _ _ _ (by decide) s hs)
  case KQKR => exact decide_eq_decide.2 (pcv_class_mirror m hc _ _ _ _ _ _ _ _ _ _ (by decide) s hs)
  case KNBK => exact decide_eq_decide.2 (pcv_class_mirror m hc _ _ _ _ _ _ _ _ _ _ (by decide) s hs)
  case KRNKR => exact decide_eq_decide.2 (pcv_class_mirror m hc _ _ _ _ _ _ _ _ _ _ (by decide) s hs)
  case KRBKR => exact decide_eq_decide.2 (pcv_class_mirror m hc _ _ _ _ _ _ _ _ _ _ (by decide) s hs)
  case KRKP => exact decide_eq_decide.2 (pcv_class_mirror m hc _ _ _ _ _ _ _ _ _ _ (by decide) s hs)
  case KQKP => exact decide_eq_decide.2 (pcv_class_mirror m hc _ _ _ _ _ _ _ _ _ _ (by decide) s hs)
  case KPsK =>
    rw [nS, cS PAWN (by decide) (by decide)]
    exact decide_eq_decide.2 (and_congr Iff.rfl (and_congr Iff.rfl bare))
  case KBPsK =>
    rw [nS, cS PAWN (by decide) (by decide), cS BISHOP (by decide) (by decide)]
    exact decide_eq_decide.2 (and_congr Iff.rfl (and_congr Iff.rfl (and_congr Iff.rfl bare)))
  case KBPsKB =>
    rw [nS, nW, cS PAWN (by decide) (by decide), cS BISHOP (by decide) (by decide), cW PAWN (by decide) (by decide), cW BISHOP (by decide) (by decide)]
  case KQKRPs =>
    rw [nS, nW, cS PAWN (by decide) (by decide), cS QUEEN (by decide) (by decide), cW PAWN (by decide) (by decide), cW ROOK (by decide) (by decide)]
  case KmmKm =>
    rw [nS, nW, cS PAWN (by decide) (by decide), cS KNIGHT (by decide) (by decide), cS BISHOP (by decide) (by decide),
      cW PAWN (by decide) (by decide), cW KNIGHT (by decide) (by decide), cW BISHOP (by decide) (by decide)]
  case KXK =>
    rw [mcolW.popcount]

end Chess
