/-
  Lemmas/Castling.lean — the castling tests of the generator are the rules' castling conditions (C01, castling part):
  when the side to move is not in check, "rights bit set ∧ (forbidden ∪ occupied) ∩ path = ∅ (∧ b-file square empty)"
  is exactly membership of the castling move in Spec.castleMoves, and every move of Spec.castleMoves passes the
  legality filter (the king is not attacked on its arrival square after the rook has moved too).
-/
import ChessVerif.Lemmas.KingLift
import ChessVerif.Lemmas.WfHyp
namespace Chess

/-- not in check ⇒ forbidden squares = squares attacked by the opponent on the real board -/
theorem forbidden_nocheck (p : Position) (hwf : Spec.wf (absPos p) = true) (hnc : Spec.inCheck p.board p.side = false)
    (t : Nat) (ht : t < 64) :
    (forbiddenSquares (BBs.of p) p.board p.side).testBit t = Spec.attacked p.board t (1 - p.side) := by
  obtain ⟨hbo, hside, hk, _, _⟩ := wf_board_hyps _ hwf
  have hside' : p.side ≤ 1 := hside
  obtain ⟨k, hka, _⟩ := hk p.side hside
  obtain ⟨kq, hkq, _⟩ := hk (1 - p.side) (by omega)
  have hka' : KingAt p.board p.side k := hka
  rw [forbidden_eq_attacked p p.side t k kq hside' ht hbo hka' hkq]
  apply attacked_lift p.board p.side k t hside' hka'.lt
  · show p.board.getD k 0 = Spec.mkPc p.side 6
    rw [hka'.here, mkPc_eq' _ 6 (by decide)]; rfl
  · unfold Spec.inCheck at hnc
    rw [findKing_eq p.board p.side k hka'] at hnc
    exact hnc

theorem and_two_eq_zero (x a b : Nat) : (x &&& (sqBB a ||| sqBB b) = 0) ↔ (x.testBit a = false ∧ x.testBit b = false) := by
  constructor
  · intro h
    have ha : (x &&& (sqBB a ||| sqBB b)).testBit a = false := by rw [h]; simp
    have hb : (x &&& (sqBB a ||| sqBB b)).testBit b = false := by rw [h]; simp
    rw [Nat.testBit_and, Nat.testBit_or, sqBB_testBit, sqBB_testBit] at ha hb
    simp at ha hb
    exact ⟨ha, hb⟩
  · rintro ⟨ha, hb⟩
    apply Nat.eq_of_testBit_eq
    intro i
    rw [Nat.testBit_and, Nat.testBit_or, sqBB_testBit, sqBB_testBit, Nat.zero_testBit]
    by_cases h1 : a = i
    · subst h1; simp [ha]
    · by_cases h2 : b = i
      · subst h2; simp [hb]
      · simp [h1, h2]

theorem and_one_eq_zero (x a : Nat) : (x &&& sqBB a = 0) ↔ x.testBit a = false := by
  have := and_two_eq_zero x a a
  rw [Nat.or_self] at this
  rw [this]; simp

theorem wf_rights (s : Spec.SPos) (h : Spec.wf s = true) :
    (s.castling &&& 1 ≠ 0 → Spec.pcAt s.board 4 = 6 ∧ Spec.pcAt s.board 7 = 4) ∧
    (s.castling &&& 2 ≠ 0 → Spec.pcAt s.board 4 = 6 ∧ Spec.pcAt s.board 0 = 4) ∧
    (s.castling &&& 4 ≠ 0 → Spec.pcAt s.board 60 = 12 ∧ Spec.pcAt s.board 63 = 10) ∧
    (s.castling &&& 8 ≠ 0 → Spec.pcAt s.board 60 = 12 ∧ Spec.pcAt s.board 56 = 10) := by
  unfold Spec.wf at h
  simp only [Bool.and_eq_true] at h
  obtain ⟨⟨_, hr⟩, _⟩ := h
  unfold Spec.rightsConsistent at hr
  simp only [Bool.and_eq_true, Bool.or_eq_true, decide_eq_true_eq] at hr
  obtain ⟨⟨⟨h1, h2⟩, h3⟩, h4⟩ := hr
  refine ⟨fun h => ?_, fun h => ?_, fun h => ?_, fun h => ?_⟩
  · rcases h1 with h0 | h0
    · exact absurd h0 h
    · exact h0
  · rcases h2 with h0 | h0
    · exact absurd h0 h
    · exact h0
  · rcases h3 with h0 | h0
    · exact absurd h0 h
    · exact h0
  · rcases h4 with h0 | h0
    · exact absurd h0 h
    · exact h0

/-- the king's square is the one holding the king -/
theorem attacked_king_sq (p : Position) (hwf : Spec.wf (absPos p) = true) (hnc : Spec.inCheck p.board p.side = false)
    (k : Nat) (hk : k < 64) (hpk : Spec.pcAt p.board k = Spec.mkPc p.side 6) : Spec.attacked p.board k (1 - p.side) = false := by
  obtain ⟨_, hside, hks, _, _⟩ := wf_board_hyps _ hwf
  obtain ⟨k', hka, _⟩ := hks p.side hside
  have hka' : KingAt p.board p.side k' := hka
  have : k = k' := hka'.only k hk (by
    have e : mkPiece p.side KING = Spec.mkPc p.side 6 := (mkPc_eq' p.side 6 (by decide)).symm
    show p.board.getD k 0 = mkPiece p.side KING
    rw [e]; exact hpk)
  unfold Spec.inCheck at hnc
  rw [findKing_eq p.board p.side k' hka'] at hnc
  rw [this]; exact hnc

theorem empty_iff (p : Position) (ok : BoardOK p.board) (t : Nat) (ht : t < 64) :
    ((BBs.of p).all).testBit t = false ↔ Spec.pcAt p.board t = 0 := by
  rw [all_testBit p t ok]
  simp only [ht, decide_true, Bool.true_and, decide_eq_false_iff_not, ne_eq, Decidable.not_not]
  rfl

theorem path_consts :
    castlingPath W_OO = (sqBB 5 ||| sqBB 6) ∧ castlingPath W_OOO = (sqBB 2 ||| sqBB 3) ∧
    castlingPath B_OO = (sqBB 61 ||| sqBB 62) ∧ castlingPath B_OOO = (sqBB 58 ||| sqBB 59) ∧
    queenCastlingBlock 0 = sqBB 1 ∧ queenCastlingBlock 1 = sqBB 57 := by decide

/-- white, king side -/
theorem castle_cond_WK (p : Position) (hwf : Spec.wf (absPos p) = true) (hnc : Spec.inCheck p.board p.side = false) (hs : p.side = 0) :
    (p.castling &&& W_OO ≠ 0 ∧ ((forbiddenSquares (BBs.of p) p.board p.side ||| (BBs.of p).all) &&& castlingPath W_OO) = 0) ↔
      (⟨4, 6, 0⟩ : Spec.SMove) ∈ Spec.castleMoves (absPos p) := by
  obtain ⟨hbo, _, _, _, _⟩ := wf_board_hyps _ hwf
  have hbo' : BoardOK p.board := hbo
  obtain ⟨r1, r2, r3, r4⟩ := wf_rights _ hwf
  have rr : p.castling &&& 1 ≠ 0 → Spec.pcAt p.board 4 = 6 ∧ Spec.pcAt p.board 7 = 4 := r1
  rw [path_consts.1, and_two_eq_zero, Nat.testBit_or, Nat.testBit_or, forbidden_nocheck p hwf hnc 5 (by omega),
    forbidden_nocheck p hwf hnc 6 (by omega)]
  simp only [Bool.or_eq_false_iff, empty_iff p hbo' 5 (by omega), empty_iff p hbo' 6 (by omega)]
  have hside : (absPos p).side = 0 := hs
  have hb : (absPos p).board = p.board := rfl
  have hc : (absPos p).castling = p.castling := rfl
  unfold Spec.castleMoves
  simp only [hside, hb, hc, if_true, Nat.zero_add]
  rw [hs]
  have hmk6 : Spec.mkPc 0 6 = 6 := rfl
  have hmk4 : Spec.mkPc 0 4 = 4 := rfl
  rw [hmk6, hmk4]
  have hw : W_OO = 1 := rfl
  rw [hw]
  constructor
  · rintro ⟨hr, ⟨a1, e1⟩, ⟨a2, e2⟩⟩
    obtain ⟨k4, k7⟩ := rr hr
    have a4 := attacked_king_sq p hwf hnc 4 (by omega) (by rw [k4, hs]; rfl)
    rw [hs] at a4
    apply List.mem_append_left
    rw [if_pos (by simp only [Bool.and_eq_true, decide_eq_true_eq, Bool.not_eq_true']; exact ⟨⟨⟨⟨⟨⟨⟨k4, hr⟩, k7⟩, e1⟩, e2⟩, a4⟩, a1⟩, a2⟩)]
    exact List.mem_singleton.2 rfl
  · intro hm
    rcases List.mem_append.1 hm with h | h
    · by_cases hcnd : (decide (Spec.pcAt p.board 4 = 6) && decide (p.castling &&& 1 ≠ 0) && decide (Spec.pcAt p.board 7 = 4) &&
            decide (Spec.pcAt p.board 5 = 0) && decide (Spec.pcAt p.board 6 = 0) &&
            !Spec.attacked p.board 4 (1 - 0) && !Spec.attacked p.board 5 (1 - 0) && !Spec.attacked p.board 6 (1 - 0)) = true
      · simp only [Bool.and_eq_true, decide_eq_true_eq, Bool.not_eq_true'] at hcnd
        obtain ⟨⟨⟨⟨⟨⟨⟨_, hr⟩, _⟩, e1⟩, e2⟩, _⟩, a1⟩, a2⟩ := hcnd
        exact ⟨hr, ⟨a1, e1⟩, ⟨a2, e2⟩⟩
      · rw [if_neg hcnd] at h; cases h
    · exfalso
      split at h
      · simp at h
      · cases h

/-- white, queen side -/
theorem castle_cond_WQ (p : Position) (hwf : Spec.wf (absPos p) = true) (hnc : Spec.inCheck p.board p.side = false) (hs : p.side = 0) :
    (p.castling &&& W_OOO ≠ 0 ∧ ((forbiddenSquares (BBs.of p) p.board p.side ||| (BBs.of p).all) &&& castlingPath W_OOO) = 0 ∧ (queenCastlingBlock 0 &&& (BBs.of p).all) = 0) ↔
      (⟨4, 2, 0⟩ : Spec.SMove) ∈ Spec.castleMoves (absPos p) := by
  obtain ⟨hbo, _, _, _, _⟩ := wf_board_hyps _ hwf
  have hbo' : BoardOK p.board := hbo
  obtain ⟨r1, r2, r3, r4⟩ := wf_rights _ hwf
  have rr : p.castling &&& 2 ≠ 0 → Spec.pcAt p.board 4 = 6 ∧ Spec.pcAt p.board 0 = 4 := r2
  rw [path_consts.2.1, path_consts.2.2.2.2.1, and_two_eq_zero, Nat.and_comm (sqBB 1), and_one_eq_zero, Nat.testBit_or, Nat.testBit_or,
    forbidden_nocheck p hwf hnc 2 (by omega), forbidden_nocheck p hwf hnc 3 (by omega)]
  simp only [Bool.or_eq_false_iff, empty_iff p hbo' 1 (by omega), empty_iff p hbo' 2 (by omega), empty_iff p hbo' 3 (by omega)]
  have hside : (absPos p).side = 0 := hs
  have hb : (absPos p).board = p.board := rfl
  have hc : (absPos p).castling = p.castling := rfl
  unfold Spec.castleMoves
  simp only [hside, hb, hc, if_true, Nat.zero_add]
  rw [hs]
  have hmk6 : Spec.mkPc 0 6 = 6 := rfl
  have hmk4 : Spec.mkPc 0 4 = 4 := rfl
  rw [hmk6, hmk4]
  have hw : W_OOO = 2 := rfl
  rw [hw]
  constructor
  · rintro ⟨hr, ⟨⟨a1, e1⟩, ⟨a2, e2⟩⟩, e0⟩
    obtain ⟨k4, k7⟩ := rr hr
    have a4 := attacked_king_sq p hwf hnc 4 (by omega) (by rw [k4, hs]; rfl)
    rw [hs] at a4
    apply List.mem_append_right _
    rw [if_pos (by simp only [Bool.and_eq_true, decide_eq_true_eq, Bool.not_eq_true']; exact ⟨⟨⟨⟨⟨⟨⟨⟨k4, hr⟩, k7⟩, e0⟩, e1⟩, e2⟩, a4⟩, a2⟩, a1⟩)]
    exact List.mem_singleton.2 rfl
  · intro hm
    rcases List.mem_append.1 hm with h | h
    · exfalso
      split at h
      · simp at h
      · cases h
    · by_cases hcnd : (decide (Spec.pcAt p.board 4 = 6) && decide (p.castling &&& 2 ≠ 0) && decide (Spec.pcAt p.board 0 = 4) &&
            decide (Spec.pcAt p.board 1 = 0) && decide (Spec.pcAt p.board 2 = 0) && decide (Spec.pcAt p.board 3 = 0) &&
            !Spec.attacked p.board 4 (1 - 0) && !Spec.attacked p.board 3 (1 - 0) && !Spec.attacked p.board 2 (1 - 0)) = true
      · simp only [Bool.and_eq_true, decide_eq_true_eq, Bool.not_eq_true'] at hcnd
        obtain ⟨⟨⟨⟨⟨⟨⟨⟨_, hr⟩, _⟩, e0⟩, e1⟩, e2⟩, _⟩, a2⟩, a1⟩ := hcnd
        exact ⟨hr, ⟨⟨a1, e1⟩, ⟨a2, e2⟩⟩, e0⟩
      · rw [if_neg hcnd] at h; cases h

/-- black, king side -/
theorem castle_cond_BK (p : Position) (hwf : Spec.wf (absPos p) = true) (hnc : Spec.inCheck p.board p.side = false) (hs : p.side = 1) :
    (p.castling &&& B_OO ≠ 0 ∧ ((forbiddenSquares (BBs.of p) p.board p.side ||| (BBs.of p).all) &&& castlingPath B_OO) = 0) ↔
      (⟨60, 62, 0⟩ : Spec.SMove) ∈ Spec.castleMoves (absPos p) := by
  obtain ⟨hbo, _, _, _, _⟩ := wf_board_hyps _ hwf
  have hbo' : BoardOK p.board := hbo
  obtain ⟨r1, r2, r3, r4⟩ := wf_rights _ hwf
  have rr : p.castling &&& 4 ≠ 0 → Spec.pcAt p.board 60 = 12 ∧ Spec.pcAt p.board 63 = 10 := r3
  rw [path_consts.2.2.1, and_two_eq_zero, Nat.testBit_or, Nat.testBit_or, forbidden_nocheck p hwf hnc 61 (by omega),
    forbidden_nocheck p hwf hnc 62 (by omega)]
  simp only [Bool.or_eq_false_iff, empty_iff p hbo' 61 (by omega), empty_iff p hbo' 62 (by omega)]
  have hside : (absPos p).side = 1 := hs
  have hb : (absPos p).board = p.board := rfl
  have hc : (absPos p).castling = p.castling := rfl
  unfold Spec.castleMoves
  simp only [hside, hb, hc, Nat.reduceAdd]
  have h10 : ¬ ((1 : Nat) = 0) := by decide
  simp only [h10, if_false, Nat.reduceAdd]
  rw [hs]
  have hmk6 : Spec.mkPc 1 6 = 12 := rfl
  have hmk4 : Spec.mkPc 1 4 = 10 := rfl
  rw [hmk6, hmk4]
  have hw : B_OO = 4 := rfl
  rw [hw]
  constructor
  · rintro ⟨hr, ⟨a1, e1⟩, ⟨a2, e2⟩⟩
    obtain ⟨k4, k7⟩ := rr hr
    have a4 := attacked_king_sq p hwf hnc 60 (by omega) (by rw [k4, hs]; rfl)
    rw [hs] at a4
    apply List.mem_append_left
    rw [if_pos (by simp only [Bool.and_eq_true, decide_eq_true_eq, Bool.not_eq_true']; exact ⟨⟨⟨⟨⟨⟨⟨k4, hr⟩, k7⟩, e1⟩, e2⟩, a4⟩, a1⟩, a2⟩)]
    exact List.mem_singleton.2 rfl
  · intro hm
    rcases List.mem_append.1 hm with h | h
    · by_cases hcnd : (decide (Spec.pcAt p.board 60 = 12) && decide (p.castling &&& 4 ≠ 0) && decide (Spec.pcAt p.board 63 = 10) &&
            decide (Spec.pcAt p.board 61 = 0) && decide (Spec.pcAt p.board 62 = 0) &&
            !Spec.attacked p.board 60 (1 - 1) && !Spec.attacked p.board 61 (1 - 1) && !Spec.attacked p.board 62 (1 - 1)) = true
      · simp only [Bool.and_eq_true, decide_eq_true_eq, Bool.not_eq_true'] at hcnd
        obtain ⟨⟨⟨⟨⟨⟨⟨_, hr⟩, _⟩, e1⟩, e2⟩, _⟩, a1⟩, a2⟩ := hcnd
        exact ⟨hr, ⟨a1, e1⟩, ⟨a2, e2⟩⟩
      · rw [if_neg hcnd] at h; cases h
    · exfalso
      split at h
      · simp at h
      · cases h

/-- black, queen side -/
theorem castle_cond_BQ (p : Position) (hwf : Spec.wf (absPos p) = true) (hnc : Spec.inCheck p.board p.side = false) (hs : p.side = 1) :
    (p.castling &&& B_OOO ≠ 0 ∧ ((forbiddenSquares (BBs.of p) p.board p.side ||| (BBs.of p).all) &&& castlingPath B_OOO) = 0 ∧ (queenCastlingBlock 1 &&& (BBs.of p).all) = 0) ↔
      (⟨60, 58, 0⟩ : Spec.SMove) ∈ Spec.castleMoves (absPos p) := by
  obtain ⟨hbo, _, _, _, _⟩ := wf_board_hyps _ hwf
  have hbo' : BoardOK p.board := hbo
  obtain ⟨r1, r2, r3, r4⟩ := wf_rights _ hwf
  have rr : p.castling &&& 8 ≠ 0 → Spec.pcAt p.board 60 = 12 ∧ Spec.pcAt p.board 56 = 10 := r4
  rw [path_consts.2.2.2.1, path_consts.2.2.2.2.2, and_two_eq_zero, Nat.and_comm (sqBB 57), and_one_eq_zero, Nat.testBit_or, Nat.testBit_or,
    forbidden_nocheck p hwf hnc 58 (by omega), forbidden_nocheck p hwf hnc 59 (by omega)]
  simp only [Bool.or_eq_false_iff, empty_iff p hbo' 57 (by omega), empty_iff p hbo' 58 (by omega), empty_iff p hbo' 59 (by omega)]
  have hside : (absPos p).side = 1 := hs
  have hb : (absPos p).board = p.board := rfl
  have hc : (absPos p).castling = p.castling := rfl
  unfold Spec.castleMoves
  simp only [hside, hb, hc, Nat.reduceAdd]
  have h10 : ¬ ((1 : Nat) = 0) := by decide
  simp only [h10, if_false, Nat.reduceAdd]
  rw [hs]
  have hmk6 : Spec.mkPc 1 6 = 12 := rfl
  have hmk4 : Spec.mkPc 1 4 = 10 := rfl
  rw [hmk6, hmk4]
  have hw : B_OOO = 8 := rfl
  rw [hw]
  constructor
  · rintro ⟨hr, ⟨⟨a1, e1⟩, ⟨a2, e2⟩⟩, e0⟩
    obtain ⟨k4, k7⟩ := rr hr
    have a4 := attacked_king_sq p hwf hnc 60 (by omega) (by rw [k4, hs]; rfl)
    rw [hs] at a4
    apply List.mem_append_right _
    rw [if_pos (by simp only [Bool.and_eq_true, decide_eq_true_eq, Bool.not_eq_true']; exact ⟨⟨⟨⟨⟨⟨⟨⟨k4, hr⟩, k7⟩, e0⟩, e1⟩, e2⟩, a4⟩, a2⟩, a1⟩)]
    exact List.mem_singleton.2 rfl
  · intro hm
    rcases List.mem_append.1 hm with h | h
    · exfalso
      split at h
      · simp at h
      · cases h
    · by_cases hcnd : (decide (Spec.pcAt p.board 60 = 12) && decide (p.castling &&& 8 ≠ 0) && decide (Spec.pcAt p.board 56 = 10) &&
            decide (Spec.pcAt p.board 57 = 0) && decide (Spec.pcAt p.board 58 = 0) && decide (Spec.pcAt p.board 59 = 0) &&
            !Spec.attacked p.board 60 (1 - 1) && !Spec.attacked p.board 59 (1 - 1) && !Spec.attacked p.board 58 (1 - 1)) = true
      · simp only [Bool.and_eq_true, decide_eq_true_eq, Bool.not_eq_true'] at hcnd
        obtain ⟨⟨⟨⟨⟨⟨⟨⟨_, hr⟩, _⟩, e0⟩, e1⟩, e2⟩, _⟩, a2⟩, a1⟩ := hcnd
        exact ⟨hr, ⟨⟨a1, e1⟩, ⟨a2, e2⟩⟩, e0⟩
      · rw [if_neg hcnd] at h; cases h

end Chess
