/-
  Lemmas/KingLift.lean — lifting a king that is NOT in check off the board changes the attack status of no square:
  the only rays that the king interrupts are rays of pieces that attack the king.  Consequence: when the side to move is
  not in check, the generator's forbidden-squares set (computed with the king x-rayed out) is exactly the rules'
  "attacked by the opponent" on the real board — what the castling path tests use.
-/
import ChessVerif.Lemmas.KingMoves
namespace Chess

theorem sq_coords (sq : Nat) (h : sq < 64) : 0 ≤ Spec.fileI sq ∧ Spec.fileI sq < 8 ∧ 0 ≤ Spec.rankI sq ∧ Spec.rankI sq < 8 ∧
    (sq : Int) = Spec.rankI sq * 8 + Spec.fileI sq := by
  unfold Spec.fileI Spec.rankI; omega

theorem firstPiece_succ (b : List Nat) (d : Int × Int) (n : Nat) (f r : Int) :
    Spec.firstPiece b d (n + 1) f r =
      if Spec.onBoard (f + d.1) (r + d.2) then
        (if Spec.pcAt b (Spec.sqOf (f + d.1) (r + d.2)) ≠ 0 then some (Spec.pcAt b (Spec.sqOf (f + d.1) (r + d.2)), Spec.sqOf (f + d.1) (r + d.2))
         else Spec.firstPiece b d n (f + d.1) (r + d.2))
      else none := rfl

theorem pcAt_set_self_zero (b : List Nat) (k : Nat) : Spec.pcAt (b.set k 0) k = 0 ∨ Spec.pcAt (b.set k 0) k = Spec.pcAt b k := by
  show gd (b.set k 0) k = 0 ∨ gd (b.set k 0) k = gd b k
  rw [gd_set]
  by_cases h : k = k ∧ k < b.length
  · rw [if_pos h]; exact Or.inl rfl
  · rw [if_neg h]; exact Or.inr rfl

/-- whether square x holds a given enemy piece is not affected by lifting the own king -/
theorem lift_enemy (b : List Nat) (c k x j : Nat) (hc : c ≤ 1) (hj1 : 1 ≤ j) (hj6 : j ≤ 6) (hk : Spec.pcAt b k = Spec.mkPc c 6) :
    decide (Spec.pcAt (b.set k 0) x = Spec.mkPc (1 - c) j) = decide (Spec.pcAt b x = Spec.mkPc (1 - c) j) := by
  by_cases hx : x = k
  · subst hx
    have hne : ¬ Spec.pcAt b x = Spec.mkPc (1 - c) j := by rw [hk]; unfold Spec.mkPc; omega
    have hne' : ¬ Spec.pcAt (b.set x 0) x = Spec.mkPc (1 - c) j := by
      rcases pcAt_set_self_zero b x with h | h
      · rw [h]; unfold Spec.mkPc; omega
      · rw [h]; exact hne
    simp [hne, hne']
  · rw [pcAt_set_ne b k 0 x hx]

theorem firstPiece_mono (b : List Nat) (d : Int × Int) (n : Nat) (f r : Int) (x : Nat × Nat)
    (h : Spec.firstPiece b d n f r = some x) : Spec.firstPiece b d (n + 1) f r = some x := by
  induction n generalizing f r with
  | zero => simp [Spec.firstPiece] at h
  | succ n ih =>
    unfold Spec.firstPiece at h ⊢
    simp only [] at h ⊢
    by_cases hon : Spec.onBoard (f + d.1) (r + d.2) = true
    · rw [if_pos hon] at h ⊢
      by_cases hp : Spec.pcAt b (Spec.sqOf (f + d.1) (r + d.2)) ≠ 0
      · rw [if_pos hp] at h ⊢; exact h
      · rw [if_neg hp] at h ⊢; exact ih _ _ h
    · rw [if_neg hon] at h; cases h

theorem firstPiece_mono_le (b : List Nat) (d : Int × Int) (m n : Nat) (hmn : m ≤ n) (f r : Int) (x : Nat × Nat)
    (h : Spec.firstPiece b d m f r = some x) : Spec.firstPiece b d n f r = some x := by
  induction n with
  | zero => have : m = 0 := by omega
            subst this; exact h
  | succ n ih =>
    by_cases hm : m = n + 1
    · subst hm; exact h
    · exact firstPiece_mono b d n f r x (ih (by omega))

/-- walking from (f, r) on the board with the king at k lifted: either the walk never meets k and sees the same thing,
    or on the real board it stops at the king and on the lifted board it continues from the king's square -/
theorem firstPiece_shield (b : List Nat) (k : Nat) (hk : k < 64) (d : Int × Int) (hd : d ∈ allDirs) (hpk : Spec.pcAt b k ≠ 0) :
    ∀ (n : Nat) (f r : Int),
      Spec.firstPiece (b.set k 0) d n f r = Spec.firstPiece b d n f r ∨
      (Spec.firstPiece b d n f r = some (Spec.pcAt b k, k) ∧
        ∃ m, m ≤ n ∧ Spec.firstPiece (b.set k 0) d n f r = Spec.firstPiece b d m (Spec.fileI k) (Spec.rankI k)) := by
  obtain ⟨c1, c2, c3, c4, c5⟩ := sq_coords k hk
  intro n
  induction n with
  | zero => intro f r; left; rfl
  | succ n ih =>
    intro f r
    rw [firstPiece_succ b d n f r, firstPiece_succ (b.set k 0) d n f r]
    by_cases hon : Spec.onBoard (f + d.1) (r + d.2) = true
    · rw [if_pos hon, if_pos hon]
      by_cases hsq : Spec.sqOf (f + d.1) (r + d.2) = k
      · right
        have hcoord : f + d.1 = Spec.fileI k ∧ r + d.2 = Spec.rankI k := by
          rw [firstPiece_indep.onBoard_iff'] at hon
          have hv : ((Spec.sqOf (f + d.1) (r + d.2) : Nat) : Int) = (r + d.2) * 8 + (f + d.1) := by unfold Spec.sqOf; omega
          rw [hsq, c5] at hv
          omega
        rw [hsq, if_pos hpk]
        refine ⟨rfl, n, by omega, ?_⟩
        have hz : ¬ Spec.pcAt (b.set k 0) k ≠ 0 ∨ Spec.pcAt (b.set k 0) k = Spec.pcAt b k := by
          rcases pcAt_set_self_zero b k with h | h
          · left; rw [h]; simp
          · right; exact h
        have hind := firstPiece_indep b k 0 d hd (Spec.fileI k) (Spec.rankI k) c5 ⟨c1, c2⟩ n 0
        simp only [Int.natCast_zero, Int.zero_mul, Int.add_zero] at hind
        rcases hz with hz | hz
        · rw [if_neg hz, hcoord.1, hcoord.2]; exact hind
        · -- k outside the list: the board is unchanged
          have hsame : b.set k 0 = b := by
            by_cases hl : k < b.length
            · exfalso
              have : Spec.pcAt (b.set k 0) k = 0 := by
                show gd (b.set k 0) k = 0
                rw [gd_set, if_pos ⟨rfl, hl⟩]
              rw [this] at hz; exact hpk hz.symm
            · exact List.set_eq_of_length_le (by omega)
          exfalso
          -- pcAt b k ≠ 0 with k ≥ length is impossible
          have : Spec.pcAt b k = 0 := by
            by_cases hl : k < b.length
            · exfalso
              have : Spec.pcAt (b.set k 0) k = 0 := by
                show gd (b.set k 0) k = 0
                rw [gd_set, if_pos ⟨rfl, hl⟩]
              rw [this] at hz; exact hpk hz.symm
            · show b.getD k 0 = 0
              rw [List.getD_eq_getElem?_getD, List.getElem?_eq_none (by omega)]; rfl
          exact hpk this
      · rw [pcAt_set_ne b k 0 _ hsq]
        by_cases hp : Spec.pcAt b (Spec.sqOf (f + d.1) (r + d.2)) ≠ 0
        · rw [if_pos hp, if_pos hp]; left; rfl
        · rw [if_neg hp, if_neg hp]
          rcases ih (f + d.1) (r + d.2) with h | ⟨h1, m, hm, h2⟩
          · left; exact h
          · right; exact ⟨h1, m, by omega, h2⟩
    · rw [if_neg hon, if_neg hon]; left; rfl

/-- the verdict of one slider direction: the first piece is one of two given piece codes -/
def hits (o : Option (Nat × Nat)) (a b : Nat) : Bool :=
  match o with
  | some (pc, _) => pc = a || pc = b
  | none => false

theorem attacked_parts (b : List Nat) (s by_ : Nat) :
    Spec.attacked b s by_ =
      (([Spec.fileI s - 1, Spec.fileI s + 1].any (fun pf => Spec.onBoard pf (if by_ = 0 then Spec.rankI s - 1 else Spec.rankI s + 1) &&
          decide (Spec.pcAt b (Spec.sqOf pf (if by_ = 0 then Spec.rankI s - 1 else Spec.rankI s + 1)) = Spec.mkPc by_ 1))) ||
       (Spec.knightOffs.any (fun d => Spec.onBoard (Spec.fileI s + d.1) (Spec.rankI s + d.2) &&
          decide (Spec.pcAt b (Spec.sqOf (Spec.fileI s + d.1) (Spec.rankI s + d.2)) = Spec.mkPc by_ 2))) ||
       (Spec.kingOffs.any (fun d => Spec.onBoard (Spec.fileI s + d.1) (Spec.rankI s + d.2) &&
          decide (Spec.pcAt b (Spec.sqOf (Spec.fileI s + d.1) (Spec.rankI s + d.2)) = Spec.mkPc by_ 6))) ||
       (Spec.diagDirs.any (fun d => hits (Spec.firstPiece b d 7 (Spec.fileI s) (Spec.rankI s)) (Spec.mkPc by_ 3) (Spec.mkPc by_ 5))) ||
       (Spec.orthoDirs.any (fun d => hits (Spec.firstPiece b d 7 (Spec.fileI s) (Spec.rankI s)) (Spec.mkPc by_ 4) (Spec.mkPc by_ 5)))) := by
  unfold Spec.attacked hits
  rfl

/-- KING LIFT: if the king of colour c on k is not attacked, then for every square t the opponent attacks t on the board
    without that king exactly when it attacks t on the real board -/
theorem attacked_lift (b : List Nat) (c k t : Nat) (hc : c ≤ 1) (hk : k < 64) (hpk : Spec.pcAt b k = Spec.mkPc c 6)
    (hsafe : Spec.attacked b k (1 - c) = false) : Spec.attacked (b.set k 0) t (1 - c) = Spec.attacked b t (1 - c) := by
  have hpk0 : Spec.pcAt b k ≠ 0 := by rw [hpk]; unfold Spec.mkPc; omega
  rw [attacked_parts] at hsafe
  simp only [Bool.or_eq_false_iff] at hsafe
  obtain ⟨⟨⟨⟨_, _⟩, _⟩, hdiag⟩, hortho⟩ := hsafe
  rw [attacked_parts, attacked_parts]
  -- the leaper terms do not see the lifted king
  have e1 := fun x => lift_enemy b c k x 1 hc (by omega) (by omega) hpk
  have e2 := fun x => lift_enemy b c k x 2 hc (by omega) (by omega) hpk
  have e6 := fun x => lift_enemy b c k x 6 hc (by omega) (by omega) hpk
  simp only [e1, e2, e6]
  -- the slider terms
  have hslide : ∀ (dirs : List (Int × Int)) (pa pb : Nat), (∀ d, d ∈ dirs → d ∈ allDirs) →
      (pa = Spec.mkPc (1 - c) 3 ∨ pa = Spec.mkPc (1 - c) 4) → pb = Spec.mkPc (1 - c) 5 →
      (dirs.any (fun d => hits (Spec.firstPiece b d 7 (Spec.fileI k) (Spec.rankI k)) pa pb)) = false →
      (dirs.any (fun d => hits (Spec.firstPiece (b.set k 0) d 7 (Spec.fileI t) (Spec.rankI t)) pa pb)) =
      (dirs.any (fun d => hits (Spec.firstPiece b d 7 (Spec.fileI t) (Spec.rankI t)) pa pb)) := by
    intro dirs pa pb hdirs hpa hpb hk0
    apply any_congr_mem
    intro d hd
    rcases firstPiece_shield b k hk d (hdirs d hd) hpk0 7 (Spec.fileI t) (Spec.rankI t) with h | ⟨h1, m, hm, h2⟩
    · rw [h]
    · rw [h1, h2]
      -- on the real board the walk stops at the own king: no hit
      have hown : hits (some (Spec.pcAt b k, k)) pa pb = false := by
        unfold hits
        simp only [Bool.or_eq_false_iff, decide_eq_false_iff_not]
        rw [hpk, hpb]
        constructor
        · rcases hpa with h | h <;> rw [h] <;> unfold Spec.mkPc <;> omega
        · unfold Spec.mkPc; omega
      rw [hown]
      -- on the lifted board the walk continues from the king: a hit there would be a check
      cases hfp : Spec.firstPiece b d m (Spec.fileI k) (Spec.rankI k) with
      | none => rfl
      | some x =>
        have h7 := firstPiece_mono_le b d m 7 hm _ _ x hfp
        have := List.any_eq_false.1 hk0 d hd
        rw [h7] at this
        simpa using this
  rw [hslide Spec.diagDirs _ _ (by decide) (Or.inl rfl) rfl hdiag, hslide Spec.orthoDirs _ _ (by decide) (Or.inr rfl) rfl hortho]

end Chess
