/-
  Lemmas/MirrorEval.lean — the bitboards of a position and of its colour mirror (`BBs.of`), and the attack maps of the evaluator built
  from them: occupancy, per-colour sets, `attacked_squares`.
-/
import ChessVerif.Lemmas.MirrorSlider
import ChessVerif.Props.C13Mirror
namespace Chess
open Chess.Props

/-- the facts about a position `p` and a position `q` carrying its mirrored board that the evaluator's mirror laws need -/
structure MirrorPos (p q : Position) : Prop where
  hq : q.board = mirrorBoard p.board
  len : p.board.length = 64
  codes : ∀ x, x ∈ p.board → x ≤ 12

theorem MirrorPos.okp {p q : Position} (m : MirrorPos p q) : BoardOK p.board := by
  refine ⟨m.len, fun s => ?_⟩
  by_cases hs : s < p.board.length
  · rw [List.getD_eq_getElem?_getD, List.getElem?_eq_getElem hs]; exact m.codes _ (List.getElem_mem hs)
  · rw [List.getD_eq_getElem?_getD, List.getElem?_eq_none (by omega)]; simp

def mirrorCodeOK : Bool := (List.range 13).all fun x => decide (mirrorPiece x ≤ 12) && (decide (mirrorPiece x = 0) == decide (x = 0)) &&
  [0, 1].all fun c => (List.range 7).all fun k => decide (k = 0) || (mirrorPiece (mkPiece c k) == mkPiece (1 - c) k && decide (mkPiece c k ≤ 12))
theorem mirrorCodeOK_true : mirrorCodeOK = true := by decide +kernel

theorem MirrorPos.okq {p q : Position} (m : MirrorPos p q) : BoardOK q.board := by
  refine ⟨by rw [m.hq]; exact mirrorBoard_length _, fun s => ?_⟩
  rw [m.hq]
  by_cases hs : s < 64
  · rw [mirrorBoard_at _ s hs]
    have h := mirrorCodeOK_true
    simp only [mirrorCodeOK, List.all_eq_true, List.mem_range, Bool.and_eq_true, decide_eq_true_eq] at h
    exact (h (p.board.getD (flipV s) 0) (by have := m.okp.codes (flipV s); omega)).1.1
  · rw [List.getD_eq_getElem?_getD, List.getElem?_eq_none (by rw [mirrorBoard_length]; omega)]; simp

/-- per-colour, per-kind sets -/
theorem MirrorPos.ck {p q : Position} (m : MirrorPos p q) (c k : Nat) (hc : c ≤ 1) (hk1 : 1 ≤ k) (hk : k ≤ 6) :
    MirrorBB ((BBs.of p).ck c k) ((BBs.of q).ck (1 - c) k) := by
  have h := mirrorCodeOK_true
  simp only [mirrorCodeOK, List.all_eq_true, List.mem_range, Bool.and_eq_true, decide_eq_true_eq, Bool.or_eq_true, beq_iff_eq] at h
  have hcm : c ∈ [0, 1] := by
    have : c = 0 ∨ c = 1 := by omega
    rcases this with rfl | rfl <;> simp
  have hx := (h 0 (by omega)).2 c hcm k (by omega)
  have hx' : mirrorPiece (mkPiece c k) = mkPiece (1 - c) k ∧ mkPiece c k ≤ 12 := by
    rcases hx with hx | hx
    · omega
    · exact hx
  rw [ck_eq p c k hc hk, ck_eq q (1 - c) k (by omega) hk, m.hq, ← hx'.1]
  exact pieceBB_mirror p.board m.len m.codes _ hx'.2

theorem MirrorPos.ck_lt {p : Position} (c k : Nat) (hc : c ≤ 1) (hk : k ≤ 6) (hlen : p.board.length = 64) : (BBs.of p).ck c k < 2 ^ 64 := by
  rw [ck_eq p c k hc hk]
  have two : (2 : Nat) ^ 64 = two64 := by decide
  rw [two]; exact bbOfPiece_lt _ _ hlen

/-- the occupancy -/
theorem MirrorPos.all {p q : Position} (m : MirrorPos p q) : MirrorBB (BBs.of p).all (BBs.of q).all := by
  intro s hs
  rw [all_testBit q s m.okq, all_testBit p (flipV s) m.okp, m.hq, mirrorBoard_at _ s hs]
  have h := mirrorCodeOK_true
  simp only [mirrorCodeOK, List.all_eq_true, List.mem_range, Bool.and_eq_true, decide_eq_true_eq, beq_iff_eq, decide_eq_decide] at h
  have hz := (h (p.board.getD (flipV s) 0) (by have := m.okp.codes (flipV s); omega)).1.2
  simp only [hs, flipV_lt s hs, decide_true, Bool.true_and]
  exact decide_eq_decide.2 (not_congr hz)

theorem MirrorPos.all_lt {p : Position} (hlen : p.board.length = 64) : (BBs.of p).all < 2 ^ 64 := by
  unfold BBs.all BBs.color
  repeat (first | apply Nat.or_lt_two_pow | exact MirrorPos.ck_lt _ _ (by decide) (by decide) hlen)

/-- **`attacked_squares`** (the squares attacked by the opponent of `c`, movegen.cpp) of the mirrored position and the other colour is
    the flip of that of the position: pawn attack sets, knight and king masks, and the three slider lookups over the occupancy -/
theorem attackedSquares_mirror {p q : Position} (m : MirrorPos p q) (c : Nat) (hc : c ≤ 1) (ko : Nat) (hko : KingAt p.board (1 - c) ko) :
    MirrorBB (attackedSquares (BBs.of p) p.board c) (attackedSquares (BBs.of q) q.board (1 - c)) := by
  have hc1 : 1 - c ≤ 1 := by omega
  have e : 1 - (1 - c) = c := by omega
  have hall := m.all
  have mk : ∀ k, 1 ≤ k → k ≤ 6 → MirrorBB ((BBs.of p).ck (1 - c) k) ((BBs.of q).ck c k) := by
    intro k h1 h6
    have := m.ck (1 - c) k hc1 h1 h6
    rw [e] at this; exact this
  have hqlen : q.board.length = 64 := by rw [m.hq]; exact mirrorBoard_length _
  have bl : ∀ k, k ≤ 6 → (BBs.of p).ck (1 - c) k < 2 ^ 64 := fun k hk => MirrorPos.ck_lt _ _ hc1 hk m.len
  have bl' : ∀ k, k ≤ 6 → (BBs.of q).ck c k < 2 ^ 64 := fun k hk => MirrorPos.ck_lt _ _ hc hk hqlen
  have hking : kingSq q.board c = flipV (kingSq p.board (1 - c)) := by
    have := (C13_king_mirror p.board m.len m.codes (1 - c) ko hc1 hko).2
    rw [e, ← m.hq] at this; exact this
  have hk64 : kingSq p.board (1 - c) < 64 := by rw [kingSq_eq p.board (1 - c) ko m.len hko]; exact hko.lt
  -- the pawn part
  have hpawn : MirrorBB (if c = 1 then shift .NW ((BBs.of p).ck (1 - c) PAWN) ||| shift .NE ((BBs.of p).ck (1 - c) PAWN)
                          else shift .SE ((BBs.of p).ck (1 - c) PAWN) ||| shift .SW ((BBs.of p).ck (1 - c) PAWN))
                        (if 1 - c = 1 then shift .NW ((BBs.of q).ck c PAWN) ||| shift .NE ((BBs.of q).ck c PAWN)
                          else shift .SE ((BBs.of q).ck c PAWN) ||| shift .SW ((BBs.of q).ck c PAWN)) := by
    have hp := (mk PAWN (by decide) (by decide)).pawnAttacks (bl PAWN (by decide)) (bl' PAWN (by decide)) (1 - c) hc1
    rw [e] at hp
    have hc' : c = 0 ∨ c = 1 := by omega
    rcases hc' with rfl | rfl
    · simp only [show (1 - 0 : Nat) = 1 from rfl, if_neg (show ¬ (0 : Nat) = 1 by decide), ↓reduceIte] at hp ⊢
      unfold pawnAttacks at hp
      simp only [if_neg (show ¬ (1 : Nat) = 0 by decide), ↓reduceIte] at hp
      rw [Nat.or_comm (shift .SE _) (shift .SW _)]
      exact hp
    · simp only [show (1 - 1 : Nat) = 0 from rfl, if_neg (show ¬ (0 : Nat) = 1 by decide), ↓reduceIte] at hp ⊢
      unfold pawnAttacks at hp
      simp only [if_neg (show ¬ (1 : Nat) = 0 by decide), ↓reduceIte] at hp
      rw [Nat.or_comm (shift .SE _) (shift .SW _)]
      exact hp
  unfold attackedSquares
  simp only [e]
  refine MirrorBB.or ?_ ?_
  · refine (mk QUEEN (by decide) (by decide)).union_eq _ _ (fun s hs => ?_) _ _ ?_
    · exact (sliderAttack_mirror s ((mem_bitsOf _ s).1 hs).1 _ _ hall).2.2
    refine (mk ROOK (by decide) (by decide)).union_eq _ _ (fun s hs => ?_) _ _ ?_
    · exact (sliderAttack_mirror s ((mem_bitsOf _ s).1 hs).1 _ _ hall).2.1
    refine (mk BISHOP (by decide) (by decide)).union_eq _ _ (fun s hs => ?_) _ _ ?_
    · exact (sliderAttack_mirror s ((mem_bitsOf _ s).1 hs).1 _ _ hall).1
    refine (mk KNIGHT (by decide) (by decide)).union_eq _ _ (fun s hs => ?_) _ _ ?_
    · exact (leaper_mirror s ((mem_bitsOf _ s).1 hs).1).1
    exact hpawn
  · rw [hking]
    exact (leaper_mirror _ hk64).2

end Chess
