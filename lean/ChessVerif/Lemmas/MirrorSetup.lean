/-
  Lemmas/MirrorSetup.lean — the per-evaluation scratch state of `PositionScorer::setup<side>` under the colour mirror: pawn attack
  set, piece attack set (x-raying through own like sliders), and the blockers of the king square.
-/
import ChessVerif.Lemmas.MirrorEval
import ChessVerif.Lemmas.MirrorLines
namespace Chess
open Chess.Props

theorem ones_testBit : ∀ j, j < 64 → (18446744073709551615 : Nat).testBit j = true := by decide +kernel
theorem MirrorBB.bnot {X Y : BB} (h : MirrorBB X Y) : MirrorBB (Chess.bnot X) (Chess.bnot Y) := by
  intro s hs
  unfold Chess.bnot
  rw [Nat.testBit_xor, Nat.testBit_xor, h s hs, ones_testBit s hs, ones_testBit _ (flipV_lt s hs)]

def pseudoMirrorOK : Bool := (List.range 64).all fun s =>
  mirB (pseudoBishop s) (pseudoBishop (flipV s)) && mirB (pseudoRook s) (pseudoRook (flipV s)) && mirB (sqBB s) (sqBB (flipV s))
theorem pseudoMirrorOK_true : pseudoMirrorOK = true := by decide +kernel
theorem pseudo_mirror (s : Nat) (hs : s < 64) :
    MirrorBB (pseudoBishop s) (pseudoBishop (flipV s)) ∧ MirrorBB (pseudoRook s) (pseudoRook (flipV s)) ∧ MirrorBB (sqBB s) (sqBB (flipV s)) := by
  have h := pseudoMirrorOK_true
  simp only [pseudoMirrorOK, List.all_eq_true, List.mem_range, Bool.and_eq_true] at h
  exact ⟨mirB_sound (h s hs).1.1, mirB_sound (h s hs).1.2, mirB_sound (h s hs).2⟩

/-- `_attacked_by_piece` of `setup<side>` -/
def attPieceOf (b : BBs) (side : Nat) : BB :=
  let occ := b.all
  let bq := b.ck side BISHOP ||| b.ck side QUEEN
  let rq := b.ck side ROOK ||| b.ck side QUEEN
  let n := (bitsOf (b.ck side KNIGHT)).foldl (fun acc s => acc ||| knightMask s) 0
  let bi := (bitsOf (b.ck side BISHOP)).foldl (fun acc s => acc ||| bishopAttack s (occ &&& Chess.bnot bq)) 0
  let r := (bitsOf (b.ck side ROOK)).foldl (fun acc s => acc ||| rookAttack s (occ &&& Chess.bnot rq)) 0
  let q := (bitsOf (b.ck side QUEEN)).foldl (fun acc s => acc ||| (bishopAttack s (occ &&& Chess.bnot bq) ||| rookAttack s (occ &&& Chess.bnot rq))) 0
  n ||| bi ||| r ||| q

theorem attPiece_eq (b : BBs) (board : List Nat) (side : Nat) : (setupSide b board side).attPiece = attPieceOf b side := by
  unfold setupSide attPieceOf
  simp only []
  have : (fun (acc : BB) (s : Nat) => acc ||| bishopAttack s (b.all &&& Chess.bnot (b.ck side BISHOP ||| b.ck side QUEEN)) |||
              rookAttack s (b.all &&& Chess.bnot (b.ck side ROOK ||| b.ck side QUEEN))) =
         (fun (acc : BB) (s : Nat) => acc ||| (bishopAttack s (b.all &&& Chess.bnot (b.ck side BISHOP ||| b.ck side QUEEN)) |||
              rookAttack s (b.all &&& Chess.bnot (b.ck side ROOK ||| b.ck side QUEEN)))) := by
    funext acc s; rw [Nat.or_assoc]
  rw [this]

theorem attPiece_mirror {p q : Position} (m : MirrorPos p q) (c : Nat) (hc : c ≤ 1) :
    MirrorBB (attPieceOf (BBs.of p) c) (attPieceOf (BBs.of q) (1 - c)) := by
  have hall := m.all
  have mk : ∀ k, 1 ≤ k → k ≤ 6 → MirrorBB ((BBs.of p).ck c k) ((BBs.of q).ck (1 - c) k) := fun k h1 h6 => m.ck c k hc h1 h6
  have obq := hall.and ((mk BISHOP (by decide) (by decide)).or (mk QUEEN (by decide) (by decide))).bnot
  have orq := hall.and ((mk ROOK (by decide) (by decide)).or (mk QUEEN (by decide) (by decide))).bnot
  unfold attPieceOf
  simp only []
  refine MirrorBB.or (MirrorBB.or (MirrorBB.or ?_ ?_) ?_) ?_
  · exact (mk KNIGHT (by decide) (by decide)).union_eq _ _ (fun s hs => (leaper_mirror s ((mem_bitsOf _ s).1 hs).1).1) _ _ MirrorBB.zero
  · exact (mk BISHOP (by decide) (by decide)).union_eq _ _ (fun s hs => (sliderAttack_mirror s ((mem_bitsOf _ s).1 hs).1 _ _ obq).1) _ _ MirrorBB.zero
  · exact (mk ROOK (by decide) (by decide)).union_eq _ _ (fun s hs => (sliderAttack_mirror s ((mem_bitsOf _ s).1 hs).1 _ _ orq).2.1) _ _ MirrorBB.zero
  · exact (mk QUEEN (by decide) (by decide)).union_eq _ _
      (fun s hs => ((sliderAttack_mirror s ((mem_bitsOf _ s).1 hs).1 _ _ obq).1).or ((sliderAttack_mirror s ((mem_bitsOf _ s).1 hs).1 _ _ orq).2.1)) _ _ MirrorBB.zero

theorem and_and_facts {L L' A A' R R' : BB} (hA : A < 2 ^ 64) (hA' : A' < 2 ^ 64) (ml : MirrorBB (L &&& (A &&& R)) (L' &&& (A' &&& R'))) :
    ((L' &&& (A' &&& R')) = 0 ↔ (L &&& (A &&& R)) = 0) ∧ moreThanOne (L' &&& (A' &&& R')) = moreThanOne (L &&& (A &&& R)) :=
  ⟨ml.eq_zero_iff (Nat.and_lt_two_pow _ (and_lt hA)) (Nat.and_lt_two_pow _ (and_lt hA')),
   MirrorBB.moreThanOne (Nat.and_lt_two_pow _ (and_lt hA)) (Nat.and_lt_two_pow _ (and_lt hA')) ml⟩

theorem ite_mirror {x x' : BB} (ml : MirrorBB x x') (z : x' = 0 ↔ x = 0) (mo : moreThanOne x' = moreThanOne x) :
    MirrorBB (if x ≠ 0 ∧ (!moreThanOne x) = true then x else 0) (if x' ≠ 0 ∧ (!moreThanOne x') = true then x' else 0) := by
  by_cases hcond : x ≠ 0 ∧ (!moreThanOne x) = true
  · rw [if_pos hcond, if_pos ⟨fun h0 => hcond.1 (z.1 h0), by rw [mo]; exact hcond.2⟩]
    exact ml
  · rw [if_neg hcond, if_neg (fun h' => hcond ⟨fun h0 => h'.1 (z.2 h0), by rw [← mo]; exact h'.2⟩)]
    exact MirrorBB.zero

/-- `blockers_for_square<side>` with its loop written as a union -/
def blockersOf (b : BBs) (side sq : Nat) : BB :=
  let opp := 1 - side
  let snipers := (pseudoBishop sq &&& (b.ck opp BISHOP ||| b.ck opp QUEEN)) ||| (pseudoRook sq &&& (b.ck opp ROOK ||| b.ck opp QUEEN))
  let rest := b.all &&& Chess.bnot (snipers ||| sqBB sq)
  (bitsOf snipers).foldl (fun acc s => acc ||| (if (lines sq s &&& rest) ≠ 0 ∧ !moreThanOne (lines sq s &&& rest) then lines sq s &&& rest else 0)) 0

theorem blockers_eq (b : BBs) (side sq : Nat) : blockersForSquare b side sq = blockersOf b side sq := by
  unfold blockersForSquare blockersOf
  simp only []
  congr 1
  funext acc s
  split
  · rfl
  · rw [Nat.or_zero]

theorem blockers_mirror {p q : Position} (m : MirrorPos p q) (c : Nat) (hc : c ≤ 1) (sq : Nat) (hsq : sq < 64) :
    MirrorBB (blockersOf (BBs.of p) c sq) (blockersOf (BBs.of q) (1 - c) (flipV sq)) := by
  have hc1 : 1 - c ≤ 1 := by omega
  have e : 1 - (1 - c) = c := by omega
  have hall := m.all
  have hqlen : q.board.length = 64 := by rw [m.hq]; exact mirrorBoard_length _
  have mk : ∀ k, 1 ≤ k → k ≤ 6 → MirrorBB ((BBs.of p).ck (1 - c) k) ((BBs.of q).ck c k) := by
    intro k h1 h6
    have := m.ck (1 - c) k hc1 h1 h6
    rw [e] at this; exact this
  obtain ⟨mpb, mpr, msq⟩ := pseudo_mirror sq hsq
  have msn := (mpb.and ((mk BISHOP (by decide) (by decide)).or (mk QUEEN (by decide) (by decide)))).or
              (mpr.and ((mk ROOK (by decide) (by decide)).or (mk QUEEN (by decide) (by decide))))
  have mrest := hall.and (msn.or msq).bnot
  unfold blockersOf
  simp only [e]
  refine msn.union_eq _ _ (fun s hs => ?_) _ _ MirrorBB.zero
  have hs64 := ((mem_bitsOf _ s).1 hs).1
  have ml := ((lines_mirror sq s hsq hs64).1).and mrest
  obtain ⟨z, mo⟩ := and_and_facts (MirrorPos.all_lt m.len) (MirrorPos.all_lt hqlen) ml
  exact ite_mirror ml z mo

theorem MirrorPos.color {p q : Position} (m : MirrorPos p q) (c : Nat) (hc : c ≤ 1) : MirrorBB ((BBs.of p).color c) ((BBs.of q).color (1 - c)) := by
  unfold BBs.color
  exact ((((((m.ck c 1 hc (by decide) (by decide)).or (m.ck c 2 hc (by decide) (by decide))).or (m.ck c 3 hc (by decide) (by decide))).or
    (m.ck c 4 hc (by decide) (by decide))).or (m.ck c 5 hc (by decide) (by decide))).or (m.ck c 6 hc (by decide) (by decide)))

theorem sqBB_lt (s : Nat) (hs : s < 64) : sqBB s < 2 ^ 64 := by
  unfold sqBB; rw [Nat.one_shiftLeft]; exact Nat.pow_lt_pow_right (by omega) hs

/-- two `Setup` records that are flips of each other -/
structure SetupMirror (a a' : Setup) : Prop where
  attPawn : MirrorBB a.attPawn a'.attPawn
  attPiece : MirrorBB a.attPiece a'.attPiece
  outposts : MirrorBB a.outposts a'.outposts
  kingBlockers : MirrorBB a.kingBlockers a'.kingBlockers

/-- `get_real_possible_moves<side>` -/
theorem realMoves_mirror {p q : Position} (m : MirrorPos p q) (c : Nat) (hc : c ≤ 1) (k : Nat) (hk : KingAt p.board c k)
    (own own' opp opp' : Setup) (ho : SetupMirror own own') (hp : SetupMirror opp opp')
    (sq : Nat) (hsq : sq < 64) (mv mv' : BB) (hmv : MirrorBB mv mv') :
    MirrorBB (realMoves (BBs.of p) p.board c own opp sq mv) (realMoves (BBs.of q) q.board (1 - c) own' opp' (flipV sq) mv') := by
  have hc1 : 1 - c ≤ 1 := by omega
  have e : 1 - (1 - c) = c := by omega
  have hks : kingSq q.board (1 - c) = flipV (kingSq p.board c) := by rw [m.hq]; exact (C13_king_mirror p.board m.len m.codes c k hc hk).2
  have hk64 : kingSq p.board c < 64 := by rw [kingSq_eq p.board c k m.len hk]; exact hk.lt
  have mcol := m.color c hc
  have mcolo : MirrorBB ((BBs.of p).color (1 - c)) ((BBs.of q).color c) := by have := m.color (1 - c) hc1; rw [e] at this; exact this
  have mpo : MirrorBB ((BBs.of p).ck (1 - c) PAWN) ((BBs.of q).ck c PAWN) := by
    have := m.ck (1 - c) PAWN hc1 (by decide) (by decide); rw [e] at this; exact this
  obtain ⟨_, _, msq⟩ := pseudo_mirror sq hsq
  have mfl := (lines_mirror sq _ hsq hk64).2
  have z := (msq.and ho.kingBlockers).eq_zero_iff (and_lt (sqBB_lt sq hsq)) (and_lt (sqBB_lt _ (flipV_lt sq hsq)))
  unfold realMoves
  simp only [e, hks]
  refine MirrorBB.and (MirrorBB.and ?_ mcol.bnot) ((hp.attPawn.and (mcolo.and mpo.bnot).bnot).bnot)
  by_cases hcond : (sqBB sq &&& own.kingBlockers) ≠ 0
  · rw [if_pos hcond, if_pos (fun h0 => hcond (z.1 h0))]
    exact hmv.and mfl
  · rw [if_neg hcond, if_neg (fun h' => hcond (fun h0 => h' (z.2 h0)))]
    exact hmv

end Chess
