/-
  Lemmas/EpGeo.lean — where the squares of an en-passant capture (capturer f, target t, captured pawn cap beside f and below/above t,
  the pawn's origin two squares beyond t) can lie on the rays from the king.
-/
import ChessVerif.Lemmas.EpRetro
namespace Chess

theorem onLine_cases (r x y : Nat) (h : onLine r x y = true) :
    (r % 4 = 0 ∧ x % 8 + x / 8 = y % 8 + y / 8) ∨ (r % 4 = 1 ∧ x % 8 = y % 8) ∨ (r % 4 = 2 ∧ x % 8 + y / 8 = y % 8 + x / 8) ∨ (r % 4 = 3 ∧ x / 8 = y / 8) := by
  unfold onLine at h
  by_cases h0 : r % 4 = 0
  · rw [if_pos h0] at h; exact Or.inl ⟨h0, by simpa using h⟩
  · rw [if_neg h0] at h
    by_cases h1 : r % 4 = 1
    · rw [if_pos h1] at h; exact Or.inr (Or.inl ⟨h1, by simpa using h⟩)
    · rw [if_neg h1] at h
      by_cases h2 : r % 4 = 2
      · rw [if_pos h2] at h; exact Or.inr (Or.inr (Or.inl ⟨h2, by simpa using h⟩))
      · rw [if_neg h2] at h; exact Or.inr (Or.inr (Or.inr ⟨by omega, by simpa using h⟩))

/-- numeric facts of an en-passant capture -/
theorem EpMove.nums {p : Position} {f t cap : Nat} (h : EpMove p f t cap) (hs : p.side ≤ 1) :
    (p.side = 0 ∧ cap + 8 = t ∧ (t = f + 7 ∨ t = f + 9) ∧ t / 8 = f / 8 + 1) ∨ (p.side = 1 ∧ cap = t + 8 ∧ (t + 7 = f ∨ t + 9 = f) ∧ t / 8 + 1 = f / 8) := by
  have h1 := h.capdef; have h2 := h.geo; have := h.t16; have := h.t48
  by_cases h0 : p.side = 0
  · rw [if_pos h0] at h1 h2; left; exact ⟨h0, by omega, h2.1, h2.2⟩
  · rw [if_neg h0] at h1 h2; right; exact ⟨by omega, h1, h2.1, h2.2⟩

section
variable {p : Position} {f t cap : Nat} (h : EpMove p f t cap) (hs : p.side ≤ 1) (k r : Nat) (hk : k < 64) (hr : r < 8)
include h hs hk hr

/-- capturer and captured pawn on one ray from the king: the king's rank -/
theorem ep_both_rank (hf : f ∈ rayList k r) (hc : cap ∈ rayList k r) : r % 4 = 3 := by
  obtain ⟨a1, _⟩ := ray_aligned k r f hk hr hf
  obtain ⟨a2, _⟩ := ray_aligned k r cap hk hr hc
  have hb := h.beside
  rcases onLine_cases r k f a1 with ⟨e, x⟩ | ⟨e, x⟩ | ⟨e, x⟩ | ⟨e, x⟩ <;> rcases onLine_cases r k cap a2 with ⟨e', y⟩ | ⟨e', y⟩ | ⟨e', y⟩ | ⟨e', y⟩ <;> omega

/-- on the king's rank: the target square is not on that ray -/
theorem ep_rank_no_t (hf : f ∈ rayList k r) (hr3 : r % 4 = 3) : t ∉ rayList k r := by
  intro ht
  obtain ⟨a1, _⟩ := ray_aligned k r f hk hr hf
  obtain ⟨a2, _⟩ := ray_aligned k r t hk hr ht
  have hn := h.nums hs
  rcases onLine_cases r k f a1 with ⟨e, x⟩ | ⟨e, x⟩ | ⟨e, x⟩ | ⟨e, x⟩ <;> rcases onLine_cases r k t a2 with ⟨e', y⟩ | ⟨e', y⟩ | ⟨e', y⟩ | ⟨e', y⟩ <;> omega

/-- the pushed pawn on a diagonal from the king: its origin square is not on that diagonal -/
theorem ep_diag_no_origin (hc : cap ∈ rayList k r) (hev : r % 2 = 0) : (if p.side = 0 then p.ep + 8 else p.ep - 8) ∉ rayList k r := by
  intro ho
  obtain ⟨a1, _⟩ := ray_aligned k r cap hk hr hc
  obtain ⟨a2, _⟩ := ray_aligned k r _ hk hr ho
  have hn := h.nums hs
  have ht := h.tep
  have := h.t16; have := h.t48
  rcases hn with ⟨s0, n1, _, _⟩ | ⟨s1, n1, _, _⟩
  · rw [if_pos s0] at a2
    rcases onLine_cases r k cap a1 with ⟨e, x⟩ | ⟨e, x⟩ | ⟨e, x⟩ | ⟨e, x⟩ <;> rcases onLine_cases r k _ a2 with ⟨e', y⟩ | ⟨e', y⟩ | ⟨e', y⟩ | ⟨e', y⟩ <;> omega
  · rw [if_neg (by omega)] at a2
    rcases onLine_cases r k cap a1 with ⟨e, x⟩ | ⟨e, x⟩ | ⟨e, x⟩ | ⟨e, x⟩ <;> rcases onLine_cases r k _ a2 with ⟨e', y⟩ | ⟨e', y⟩ | ⟨e', y⟩ | ⟨e', y⟩ <;> omega

/-- the target square on a rank or diagonal from the king: the pawn's origin square is not on it -/
theorem ep_t_no_origin (ht : t ∈ rayList k r) (hnf : r % 4 ≠ 1) : (if p.side = 0 then p.ep + 8 else p.ep - 8) ∉ rayList k r := by
  intro ho
  obtain ⟨a1, _⟩ := ray_aligned k r t hk hr ht
  obtain ⟨a2, _⟩ := ray_aligned k r _ hk hr ho
  have hte := h.tep
  have := h.t16; have := h.t48
  rw [← hte] at a2
  by_cases s0 : p.side = 0
  · rw [if_pos s0] at a2
    rcases onLine_cases r k t a1 with ⟨e, x⟩ | ⟨e, x⟩ | ⟨e, x⟩ | ⟨e, x⟩ <;> rcases onLine_cases r k _ a2 with ⟨e', y⟩ | ⟨e', y⟩ | ⟨e', y⟩ | ⟨e', y⟩ <;> omega
  · rw [if_neg s0] at a2
    rcases onLine_cases r k t a1 with ⟨e, x⟩ | ⟨e, x⟩ | ⟨e, x⟩ | ⟨e, x⟩ <;> rcases onLine_cases r k _ a2 with ⟨e', y⟩ | ⟨e', y⟩ | ⟨e', y⟩ | ⟨e', y⟩ <;> omega

/-- the pushed pawn on the king's rank: the capturer is its neighbour on that ray -/
theorem ep_rank_neighbour (hc : cap ∈ rayList k r) (hr3 : r % 4 = 3) (hfk : f ≠ k) :
    f ∈ rayList k r ∧ ∀ c, c ∈ rayList k r → c ≠ cap → c ≠ f → thru (rayList k r) cap c = thru (rayList k r) f c := by
  have hb := h.beside
  apply ray_adjacent k r cap f hk hr hc h.f64 hfk
  unfold lineStep
  rw [if_neg (by omega), if_neg (by omega), if_neg (by omega)]
  simp only [Bool.or_eq_true, Bool.and_eq_true, beq_iff_eq, bne_iff_ne]
  omega

/-- the pushed pawn on the king's file: the target square is its neighbour on that ray -/
theorem ep_file_neighbour (hc : cap ∈ rayList k r) (hr1 : r % 4 = 1) (htk : t ≠ k) :
    t ∈ rayList k r ∧ ∀ c, c ∈ rayList k r → c ≠ cap → c ≠ t → thru (rayList k r) cap c = thru (rayList k r) t c := by
  have hn := h.nums hs
  apply ray_adjacent k r cap t hk hr hc h.t64 htk
  unfold lineStep
  rw [if_neg (by omega), if_pos hr1]
  simp only [Bool.or_eq_true, beq_iff_eq]
  omega

end

end Chess
