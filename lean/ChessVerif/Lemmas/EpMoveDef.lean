/-
  Lemmas/EpMoveDef.lean — the squares of an en-passant capture.
-/
import ChessVerif.Lemmas.ExactSingleCheck
namespace Chess

/-- the squares of an en-passant capture: capturer f, en-passant square t, captured pawn cap -/
structure EpMove (p : Position) (f t cap : Nat) : Prop where
  ep64 : p.ep ≠ 64
  tep : t = p.ep
  capdef : cap = (if p.side = 0 then t - 8 else t + 8)
  f64 : f < 64
  t16 : 16 ≤ t
  t48 : t < 48
  own : p.board.getD f 0 = mkPiece p.side PAWN
  empty : p.board.getD t 0 = 0
  victim : p.board.getD cap 0 = mkPiece (1 - p.side) PAWN
  geo : if p.side = 0 then ((t = f + 7 ∨ t = f + 9) ∧ t / 8 = f / 8 + 1) else ((t + 7 = f ∨ t + 9 = f) ∧ t / 8 + 1 = f / 8)

theorem EpMove.cap64 {p : Position} {f t cap : Nat} (h : EpMove p f t cap) : cap < 64 := by
  have hc := h.capdef; have := h.t16; have := h.t48; split at hc <;> omega
theorem EpMove.t64 {p : Position} {f t cap : Nat} (h : EpMove p f t cap) : t < 64 := by have := h.t48; omega
theorem EpMove.ft {p : Position} {f t cap : Nat} (h : EpMove p f t cap) : f ≠ t := by
  have hg := h.geo; split at hg <;> omega
theorem EpMove.capt {p : Position} {f t cap : Nat} (h : EpMove p f t cap) : cap ≠ t := by
  have hc := h.capdef; have := h.t16; split at hc <;> omega
theorem EpMove.capf {p : Position} {f t cap : Nat} (h : EpMove p f t cap) : cap ≠ f := by
  intro e
  have h1 := h.victim
  rw [e, h.own] at h1
  unfold mkPiece PAWN at h1
  rw [if_neg (by decide), if_neg (by decide)] at h1
  omega
/-- the captured pawn stands beside the capturer -/
theorem EpMove.beside {p : Position} {f t cap : Nat} (h : EpMove p f t cap) : cap / 8 = f / 8 ∧ (cap = f + 1 ∨ cap + 1 = f) := by
  have h1 := h.capdef; have h2 := h.geo; have := h.t16; have := h.t48
  by_cases h0 : p.side = 0
  · rw [if_pos h0] at h1 h2; omega
  · rw [if_neg h0] at h1 h2; omega

end Chess
