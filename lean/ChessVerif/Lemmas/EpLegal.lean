/-
  Lemmas/EpLegal.lean — the rules' legality filter for an en-passant capture, in bitboard terms: the capture is legal iff the own king
  is not attacked on the bitboards of the position with the capturer moved and the captured pawn removed.
-/
import ChessVerif.Lemmas.ExactUpToEp
namespace Chess

/-- a pseudo-legal en-passant capture has these squares -/
theorem epMove_of_pseudo (p : Position) (hwf : Spec.wf (absPos p) = true) (m : Spec.SMove) (hm : m ∈ Spec.pseudoMoves (absPos p))
    (hep : Spec.isEpCapture (absPos p) m = true) :
    EpMove p m.src m.dst (if p.side = 0 then m.dst - 8 else m.dst + 8) ∧ m.promo = 0 := by
  have ok := stepOK_of_pseudo _ hwf m hm
  obtain ⟨hkP, hdep, hep64, _⟩ := (isEp_iff (absPos p) m).1 hep
  have hkP' : kindOf (p.board.getD m.src 0) = PAWN := hkP
  obtain ⟨_, _, htarget0, hpromo, h16, h48, hvictim0, _⟩ := ok.ep ⟨hkP, hdep⟩
  have hown : p.board.getD m.src 0 = mkPiece p.side PAWN := by
    have h' : p.board.getD m.src 0 = mkPiece p.side (kindOf (p.board.getD m.src 0)) := ok.own.2
    rw [hkP'] at h'; exact h'
  have hgeo := ok.pawn hkP
  refine ⟨⟨hep64, hdep, rfl, ok.src, h16, h48, hown, htarget0, hvictim0, ?_⟩, hpromo⟩
  have hfile : m.src % 8 ≠ m.dst % 8 := (ok.ep ⟨hkP, hdep⟩).2.1
  by_cases h0 : p.side = 0
  · rw [if_pos h0]
    have g := hgeo.1 h0
    rcases g with g | ⟨g, _⟩ | ⟨g, g2⟩
    · omega
    · omega
    · exact ⟨g, g2⟩
  · rw [if_neg h0]
    have hs : p.side ≤ 1 := ok.side
    have g := hgeo.2 (by show p.side = 1; omega)
    rcases g with g | ⟨g, _⟩ | ⟨g, g2⟩
    · omega
    · omega
    · exact ⟨g, g2⟩

end Chess

namespace Chess

/-- the en-passant capture with these squares is listed by the rules -/
theorem pseudo_of_epMove (p : Position) (hwf : Spec.wf (absPos p) = true) (f t cap : Nat) (h : EpMove p f t cap) :
    (⟨f, t, 0⟩ : Spec.SMove) ∈ Spec.pseudoMoves (absPos p) ∧ Spec.isEpCapture (absPos p) ⟨f, t, 0⟩ = true := by
  obtain ⟨hbo, hside, _, _, _⟩ := wf_board_hyps _ hwf
  have hs : p.side ≤ 1 := hside
  have hkP : Spec.kindOfPc (Spec.pcAt (absPos p).board f) = 1 := by
    show kindOf (p.board.getD f 0) = 1
    rw [h.own]; exact kindOf_mkPiece _ _ hs (by decide)
  have hown : Spec.isOwn (Spec.pcAt (absPos p).board f) (absPos p).side = true := by
    show Spec.isOwn (p.board.getD f 0) p.side = true
    rw [h.own]
    have : p.side = 0 ∨ p.side = 1 := by omega
    rcases this with e | e <;> rw [e] <;> decide
  have hgeo := h.geo
  have h16 := h.t16
  have h48 := h.t48
  have hf64 := h.f64
  -- the file/rank description of t
  have hcf : ∃ cf : Int, (cf = Spec.fileI f - 1 ∨ cf = Spec.fileI f + 1) ∧ Spec.onBoard cf (Spec.rankI f + (if p.side = 0 then 1 else -1)) = true ∧
      t = Spec.sqOf cf (Spec.rankI f + (if p.side = 0 then 1 else -1)) := by
    by_cases h0 : p.side = 0
    · rw [if_pos h0] at hgeo
      rw [if_pos h0]
      rcases hgeo.1 with e | e
      · refine ⟨Spec.fileI f - 1, Or.inl rfl, ?_, ?_⟩
        · unfold Spec.onBoard Spec.fileI Spec.rankI; simp only [Bool.and_eq_true, decide_eq_true_eq]; omega
        · unfold Spec.sqOf Spec.fileI Spec.rankI; omega
      · refine ⟨Spec.fileI f + 1, Or.inr rfl, ?_, ?_⟩
        · unfold Spec.onBoard Spec.fileI Spec.rankI; simp only [Bool.and_eq_true, decide_eq_true_eq]; omega
        · unfold Spec.sqOf Spec.fileI Spec.rankI; omega
    · rw [if_neg h0] at hgeo
      rw [if_neg h0]
      rcases hgeo.1 with e | e
      · refine ⟨Spec.fileI f + 1, Or.inr rfl, ?_, ?_⟩
        · unfold Spec.onBoard Spec.fileI Spec.rankI; simp only [Bool.and_eq_true, decide_eq_true_eq]; omega
        · unfold Spec.sqOf Spec.fileI Spec.rankI; omega
      · refine ⟨Spec.fileI f - 1, Or.inl rfl, ?_, ?_⟩
        · unfold Spec.onBoard Spec.fileI Spec.rankI; simp only [Bool.and_eq_true, decide_eq_true_eq]; omega
        · unfold Spec.sqOf Spec.fileI Spec.rankI; omega
  obtain ⟨cf, hcfv, hon, htq⟩ := hcf
  have hmem : (⟨f, t, 0⟩ : Spec.SMove) ∈ Spec.pawnMoves (absPos p) f := by
    unfold Spec.pawnMoves
    simp only []
    have hb : (absPos p).board = p.board := rfl
    have hsd : (absPos p).side = p.side := rfl
    have hepd : (absPos p).ep = p.ep := rfl
    rw [hb, hsd, hepd]
    simp only [List.mem_append, List.mem_flatMap]
    right
    refine ⟨cf, by simp only [List.mem_cons, List.not_mem_nil, or_false]; exact hcfv, ?_⟩
    rw [if_pos hon, ← htq]
    have hne : ¬ (Spec.isEnemy (Spec.pcAt p.board t) p.side = true) := by
      have : Spec.pcAt p.board t = 0 := h.empty
      rw [this]; unfold Spec.isEnemy; simp
    rw [if_neg hne]
    have hcond : (p.ep ≠ 64 && decide (t = p.ep)) = true := by
      simp only [Bool.and_eq_true, decide_eq_true_eq, bne_iff_ne, ne_eq]
      exact ⟨by simpa using h.ep64, h.tep⟩
    rw [if_pos hcond]
    exact List.mem_singleton.2 rfl
  refine ⟨mem_pseudo_of_piece (absPos p) f hf64 hown _ 1 hkP hmem, ?_⟩
  unfold Spec.isEpCapture
  simp only [Bool.and_eq_true, decide_eq_true_eq]
  refine ⟨⟨⟨hkP, h.tep⟩, h.ep64⟩, ?_⟩
  show Spec.fileI f ≠ Spec.fileI t
  rw [htq, (rankI_sqOf cf _ hon).2.1]
  rcases hcfv with e | e <;> omega

end Chess

namespace Chess

/-- LEGALITY OF AN EN-PASSANT CAPTURE = the own king is not attacked on the bitboards after it -/
theorem ep_legal_iff (p : Position) (hwf : Spec.wf (absPos p) = true) (f t cap : Nat) (h : EpMove p f t cap) :
    ∃ k, KingAt p.board p.side k ∧ k ≠ f ∧ k ≠ t ∧ k ≠ cap ∧
      ((⟨f, t, 0⟩ : Spec.SMove) ∈ Spec.legalMoves (absPos p) ↔ attackedBB (afterPosEp p f t cap (mkPiece p.side PAWN)) k p.side = false) := by
  obtain ⟨hbo, hs, hk, _, _⟩ := wf_board_hyps _ hwf
  have hside : p.side ≤ 1 := hs
  have hbo' : BoardOK p.board := hbo
  obtain ⟨k, hkk, hnear⟩ := hk p.side hside
  have hking : KingAt p.board p.side k := hkk
  have hnear' : kingNear p.board k (1 - p.side) = false := hnear
  obtain ⟨hps, hep⟩ := pseudo_of_epMove p hwf f t cap h
  have hpk : mkPiece p.side PAWN ≠ mkPiece (1 - p.side) KING := by
    intro e
    have := mkPiece_inj p.side PAWN (1 - p.side) KING hside (by omega) (by decide) (by decide) e
    omega
  have hpk' : mkPiece p.side PAWN ≠ mkPiece p.side KING := by
    intro e
    have := (mkPiece_inj p.side PAWN p.side KING hside hside (by decide) (by decide) e).2
    cases this
  have hkf : k ≠ f := by
    intro e
    have h1 := hking.here
    rw [e, h.own] at h1; exact hpk' h1
  have hkt : k ≠ t := by
    intro e
    have h1 := hking.here
    rw [e, h.empty] at h1; exact mkPiece_ne_zero _ _ (by decide) h1.symm
  have hkc : k ≠ cap := by
    intro e
    have h1 := hking.here
    rw [e, h.victim] at h1
    have := (mkPiece_inj (1 - p.side) PAWN p.side KING (by omega) hside (by decide) (by decide) h1).2
    cases this
  have hboard : (Spec.apply (absPos p) ⟨f, t, 0⟩).board = afterBoardEp p.board f t cap (mkPiece p.side PAWN) := by
    rw [apply_board]
    simp only []
    have h1 : Spec.isCastle (absPos p).board ⟨f, t, 0⟩ = false := by
      unfold Spec.isCastle
      have : Spec.kindOfPc (Spec.pcAt (absPos p).board f) = 1 := by
        show kindOf (p.board.getD f 0) = 1
        rw [h.own]; exact kindOf_mkPiece _ _ hside (by decide)
      simp only []
      rw [this]; simp
    rw [h1, hep]
    simp only [Bool.false_eq_true, if_false, if_true]
    have : gd (absPos p).board f = mkPiece p.side PAWN := h.own
    rw [if_neg (by simp), this, h.capdef]; rfl
  have hkingAfter := kingAt_afterEp p.board f t cap (mkPiece p.side PAWN) p.side k hbo'.len h.f64 h.t64 h.cap64 hking hkf hkt hkc hpk'
  have hnearAfter := kingNear_afterEp p.board f t cap (mkPiece p.side PAWN) (1 - p.side) k hbo'.len h.f64 h.t64 h.cap64 hpk hnear'
  have hpc12 : mkPiece p.side PAWN ≤ 12 := by unfold mkPiece PAWN; rw [if_neg (by omega)]; omega
  have okAfter : BoardOK (afterPosEp p f t cap (mkPiece p.side PAWN)).board := afterEpOK p.board _ _ _ _ hbo' h.f64 h.t64 h.cap64 hpc12
  have hatt := attacked_eq (afterPosEp p f t cap (mkPiece p.side PAWN)) k p.side hside hking.lt okAfter
  have hb2 : (afterPosEp p f t cap (mkPiece p.side PAWN)).board = afterBoardEp p.board f t cap (mkPiece p.side PAWN) := rfl
  rw [hb2, hnearAfter, Bool.or_false] at hatt
  have hin : Spec.inCheck (Spec.apply (absPos p) ⟨f, t, 0⟩).board p.side = attackedBB (afterPosEp p f t cap (mkPiece p.side PAWN)) k p.side := by
    unfold Spec.inCheck
    rw [hboard, findKing_eq _ _ k hkingAfter]
    exact hatt.symm
  refine ⟨k, hking, hkf, hkt, hkc, ?_⟩
  unfold Spec.legalMoves
  rw [List.mem_filter]
  constructor
  · rintro ⟨_, h2⟩
    simp only [Bool.not_eq_true'] at h2
    have h2' : Spec.inCheck (Spec.apply (absPos p) ⟨f, t, 0⟩).board p.side = false := h2
    rw [hin] at h2'; exact h2'
  · intro h2
    refine ⟨hps, ?_⟩
    simp only [Bool.not_eq_true']
    show Spec.inCheck (Spec.apply (absPos p) ⟨f, t, 0⟩).board p.side = false
    rw [hin]; exact h2

end Chess
