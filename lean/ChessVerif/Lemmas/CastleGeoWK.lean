/- back-rank geometry table of one castling, evaluated in the kernel (see Lemmas/GivesCheckCastle.lean: castleGeoB) -/
import ChessVerif.Lemmas.GivesCheckCastle
namespace Chess
theorem castleGeo_WK : castleGeoB 4 6 5 7 = true := by decide +kernel
end Chess
