/-
  Lemmas/EpRetro.lean — what "the double push was itself legal" (Spec.epConsistent, part of Spec.wf) excludes: before the double push the
  side now to move was not in check, so no enemy slider looks at the king along a line that only the pushed pawn now shields, or along a
  line through the en-passant square that the push did not touch.
-/
import ChessVerif.Lemmas.EpLines
namespace Chess

theorem ep_facts2 (s : Spec.SPos) (h : Spec.wf s = true) (he : s.ep ≠ 64) :
    Spec.pcAt s.board (if s.side = 0 then s.ep + 8 else s.ep - 8) = 0 ∧ Spec.inCheck (Spec.beforeDoublePush s) s.side = false := by
  unfold Spec.wf at h
  simp only [Bool.and_eq_true] at h
  have hep := h.2
  unfold Spec.epConsistent at hep
  rw [if_neg he] at hep
  simp only [Bool.and_eq_true, decide_eq_true_eq, Bool.not_eq_true'] at hep
  obtain ⟨⟨⟨⟨_, _⟩, c⟩, _⟩, e⟩ := hep
  exact ⟨c, e⟩

/-- the position before the double push, as an `afterPos` of the present one: the pushed pawn back on its origin -/
theorem retro_safe (p : Position) (hwf : Spec.wf (absPos p) = true) (he : p.ep ≠ 64) (k : Nat) (hking : KingAt p.board p.side k) :
    attackedBB (afterPos p (if p.side = 0 then p.ep - 8 else p.ep + 8) (if p.side = 0 then p.ep + 8 else p.ep - 8) (mkPiece (1 - p.side) PAWN)) k p.side = false ∧
    p.board.getD (if p.side = 0 then p.ep + 8 else p.ep - 8) 0 = 0 ∧ (if p.side = 0 then p.ep + 8 else p.ep - 8) < 64 ∧
    (if p.side = 0 then p.ep - 8 else p.ep + 8) < 64 := by
  obtain ⟨hbo, hs, hkk, _, _⟩ := wf_board_hyps _ hwf
  have hside : p.side ≤ 1 := hs
  have ok : BoardOK p.board := hbo
  obtain ⟨k0, hk0, hnear⟩ := hkk p.side hside
  have ek : k0 = k := kingAt_unique _ _ _ _ hk0 hking
  subst ek
  have hnear' : kingNear p.board k0 (1 - p.side) = false := hnear
  obtain ⟨hrank, hempty, hvictim⟩ := ep_facts (absPos p) hwf he
  obtain ⟨horig, hnc⟩ := ep_facts2 (absPos p) hwf he
  have hrank' : if p.side = 0 then p.ep / 8 = 5 else p.ep / 8 = 2 := hrank
  have horig' : p.board.getD (if p.side = 0 then p.ep + 8 else p.ep - 8) 0 = 0 := horig
  have hvictim' : p.board.getD (if p.side = 0 then p.ep - 8 else p.ep + 8) 0 = mkPiece (1 - p.side) PAWN := by
    have : p.board.getD (if p.side = 0 then p.ep - 8 else p.ep + 8) 0 = Spec.mkPc (1 - p.side) 1 := hvictim
    rw [this, mkPc_eq' _ 1 (by decide)]; rfl
  have ho64 : (if p.side = 0 then p.ep + 8 else p.ep - 8) < 64 := by split at hrank' <;> simp_all <;> omega
  have hc64 : (if p.side = 0 then p.ep - 8 else p.ep + 8) < 64 := by split at hrank' <;> simp_all <;> omega
  refine ⟨?_, horig', ho64, hc64⟩
  generalize hcapd : (if p.side = 0 then p.ep - 8 else p.ep + 8) = cap at *
  generalize horgd : (if p.side = 0 then p.ep + 8 else p.ep - 8) = org at *
  have hpkE : mkPiece (1 - p.side) PAWN ≠ mkPiece (1 - p.side) KING := by
    intro e
    have := (mkPiece_inj (1 - p.side) PAWN (1 - p.side) KING (by omega) (by omega) (by decide) (by decide) e).2
    cases this
  have hpkO : mkPiece (1 - p.side) PAWN ≠ mkPiece p.side KING := by
    intro e
    have := (mkPiece_inj (1 - p.side) PAWN p.side KING (by omega) hside (by decide) (by decide) e).2
    cases this
  have hkc : k0 ≠ cap := by
    intro e
    have h1 := hking.here
    rw [e, hvictim'] at h1; exact hpkO h1
  have hko : k0 ≠ org := by
    intro e
    have h1 := hking.here
    rw [e, horig'] at h1; exact mkPiece_ne_zero _ _ (by decide) h1.symm
  have hboard : Spec.beforeDoublePush (absPos p) = afterBoard p.board cap org (mkPiece (1 - p.side) PAWN) := by
    unfold Spec.beforeDoublePush afterBoard
    simp only []
    have e1 : (absPos p).side = p.side := rfl
    have e2 : (absPos p).ep = p.ep := rfl
    have e3 : (absPos p).board = p.board := rfl
    rw [e1, e2, e3, hcapd, horgd, mkPc_eq' _ 1 (by decide)]; rfl
  have hkingAfter := kingAt_after p.board cap org (mkPiece (1 - p.side) PAWN) p.side k0 ok.len hc64 ho64 hking hkc hko hpkO
  have hnearAfter := kingNear_after p.board cap org (mkPiece (1 - p.side) PAWN) (1 - p.side) k0 ok.len hc64 ho64 hpkE hnear'
  have hpc12 : mkPiece (1 - p.side) PAWN ≤ 12 := by unfold mkPiece PAWN; rw [if_neg (by omega)]; omega
  have okAfter : BoardOK (afterPos p cap org (mkPiece (1 - p.side) PAWN)).board := afterOK p.board _ _ _ ok hc64 ho64 hpc12
  have hatt := attacked_eq (afterPos p cap org (mkPiece (1 - p.side) PAWN)) k0 p.side hside hking.lt okAfter
  have hb2 : (afterPos p cap org (mkPiece (1 - p.side) PAWN)).board = afterBoard p.board cap org (mkPiece (1 - p.side) PAWN) := rfl
  rw [hb2, hnearAfter, Bool.or_false] at hatt
  rw [hatt]
  have hnc' : Spec.inCheck (Spec.beforeDoublePush (absPos p)) p.side = false := hnc
  unfold Spec.inCheck at hnc'
  rw [hboard, findKing_eq _ _ k0 hkingAfter] at hnc'
  exact hnc'

end Chess

namespace Chess

/-- NO LINE THAT ONLY THE PUSHED PAWN SHIELDS: an enemy slider c of the kind of ray r, on that ray, with nothing between it and the king
    except possibly the pushed pawn, and the pawn's origin square not in between, would have given check before the double push -/
theorem retro_line (p : Position) (hwf : Spec.wf (absPos p) = true) (he : p.ep ≠ 64) (k : Nat) (hking : KingAt p.board p.side k)
    (r c : Nat) (hr : r < 8) (hc : c ∈ rayList k r)
    (hsl : if r % 2 = 0 then ((BBs.of p).ck (1 - p.side) BISHOP ||| (BBs.of p).ck (1 - p.side) QUEEN).testBit c = true
           else ((BBs.of p).ck (1 - p.side) ROOK ||| (BBs.of p).ck (1 - p.side) QUEEN).testBit c = true)
    (hb : ∀ x, thru (rayList k r) x c = true →
      ((BBs.of p).all.testBit x = true → x = (if p.side = 0 then p.ep - 8 else p.ep + 8)) ∧ x ≠ (if p.side = 0 then p.ep + 8 else p.ep - 8)) : False := by
  obtain ⟨hbo, hs, _, _, _⟩ := wf_board_hyps _ hwf
  have hside : p.side ≤ 1 := hs
  have ok : BoardOK p.board := hbo
  have ho : 1 - p.side ≤ 1 := by omega
  obtain ⟨hsafe, horig, ho64, hc64⟩ := retro_safe p hwf he k hking
  obtain ⟨_, _, hvictim⟩ := ep_facts (absPos p) hwf he
  have hvictim' : p.board.getD (if p.side = 0 then p.ep - 8 else p.ep + 8) 0 = mkPiece (1 - p.side) PAWN := by
    have : p.board.getD (if p.side = 0 then p.ep - 8 else p.ep + 8) 0 = Spec.mkPc (1 - p.side) 1 := hvictim
    rw [this, mkPc_eq' _ 1 (by decide)]; rfl
  generalize hcapd : (if p.side = 0 then p.ep - 8 else p.ep + 8) = cap at *
  generalize horgd : (if p.side = 0 then p.ep + 8 else p.ep - 8) = org at *
  have hco : cap ≠ org := by
    intro e; rw [e, horig] at hvictim'; exact mkPiece_ne_zero _ _ (by decide) hvictim'.symm
  have hpc12 : mkPiece (1 - p.side) PAWN ≤ 12 := by unfold mkPiece PAWN; rw [if_neg (by omega)]; omega
  have hall := all_after p cap org (mkPiece (1 - p.side) PAWN) ok hc64 ho64 hpc12 (mkPiece_ne_zero _ _ (by decide))
    (by rw [hvictim']; exact mkPiece_ne_zero _ _ (by decide)) hco
  -- c is a slider: not the pushed pawn, not the (empty) origin
  have kindc : ∀ K, (K = BISHOP ∨ K = ROOK ∨ K = QUEEN) → ((BBs.of p).ck (1 - p.side) K).testBit c = true →
      ((BBs.of (afterPos p cap org (mkPiece (1 - p.side) PAWN))).ck (1 - p.side) K).testBit c = true := by
    intro K hK hbit
    have hK16 : 1 ≤ K ∧ K ≤ 6 := by rcases hK with rfl | rfl | rfl <;> decide
    obtain ⟨c64, hbd, _⟩ := ck_board p ok (1 - p.side) K c ho hK16 hbit
    rw [ck_after p cap org _ (1 - p.side) K c ok hc64 ho64 hpc12 ho hK16]
    have h1 : ¬ org = c := by intro e; rw [← e, horig] at hbd; exact mkPiece_ne_zero _ _ (by omega) hbd.symm
    have h2 : ¬ cap = c := by
      intro e; rw [← e, hvictim'] at hbd
      have := (mkPiece_inj (1 - p.side) PAWN (1 - p.side) K ho ho (by decide) hK16 hbd).2
      rcases hK with rfl | rfl | rfl <;> cases this
    rw [if_neg h1, if_neg h2, hbd]; simp [c64]
  have hw : (Spec.walk (rayList k r) (BBs.of (afterPos p cap org (mkPiece (1 - p.side) PAWN))).all).testBit c = true := by
    rw [hall, walk_iff]
    refine ⟨hc, ?_⟩
    intro x hx
    obtain ⟨h1, h2⟩ := hb x hx
    rw [Nat.testBit_or, Nat.testBit_xor, sqBB_testBit, sqBB_testBit]
    have : ¬ org = x := fun e => h2 e.symm
    by_cases hox : (BBs.of p).all.testBit x = true
    · have := h1 hox; subst this; simp [hox, h2]; exact fun e => h2 e.symm
    · have hcx : ¬ cap = x := by
        intro e
        apply hox
        rw [← e, all_testBit p cap ok]
        simp only [Bool.and_eq_true, decide_eq_true_eq]
        exact ⟨hc64, by rw [hvictim']; exact mkPiece_ne_zero _ _ (by decide)⟩
      simp [hox, hcx, this]
  have hq : (afterPos p cap org (mkPiece (1 - p.side) PAWN)).side = p.side := rfl
  have hatt : attackedBB (afterPos p cap org (mkPiece (1 - p.side) PAWN)) k p.side = true := by
    have := (attacked_iff_checks (afterPos p cap org (mkPiece (1 - p.side) PAWN)) k hking.lt).2
    rw [hq] at this
    apply this
    refine ⟨c, ?_⟩
    by_cases hev : r % 2 = 0
    · rw [if_pos hev] at hsl
      refine Checks.diag r hr hev hw ?_
      rw [hq]
      rw [Nat.testBit_or] at hsl ⊢
      simp only [Bool.or_eq_true] at hsl ⊢
      rcases hsl with h | h
      · exact Or.inl (kindc BISHOP (Or.inl rfl) h)
      · exact Or.inr (kindc QUEEN (Or.inr (Or.inr rfl)) h)
    · rw [if_neg hev] at hsl
      refine Checks.orth r hr (by omega) hw ?_
      rw [hq]
      rw [Nat.testBit_or] at hsl ⊢
      simp only [Bool.or_eq_true] at hsl ⊢
      rcases hsl with h | h
      · exact Or.inl (kindc ROOK (Or.inr (Or.inl rfl)) h)
      · exact Or.inr (kindc QUEEN (Or.inr (Or.inr rfl)) h)
  rw [hsafe] at hatt; cases hatt

end Chess
