/-
  Lemmas/TracePV.lean — the guards of the search-trace automaton suffice for principal-variation legality (C05):
  in every reachable state each pv slot of a node that cleared it holds a line of generated moves from that node's
  position, so every pv an accepted trace reports is playable from the root.
-/
import ChessVerif.Model.SearchTrace
namespace Chess

def expectedPos (f : Frame) : Position :=
  match f.current with
  | some m => (doMove T0 f.npos m).1
  | none => if f.nullDone then (doNull T0 f.npos).1 else f.npos

def headPos (root : Position) : List Frame → Position
  | [] => root
  | f :: _ => expectedPos f

/-- each node was entered at the position its parent had reached; the bottom node is the root at ply 0 -/
def Chain (root : Position) : List Frame → Prop
  | [] => True
  | g :: rest => (g.npos = headPos root rest ∧ (rest = [] → g.ply = 0)) ∧ Chain root rest

/-- plies never decrease towards the top of the stack, and nodes sharing a ply (same Info slot) share the position -/
def Sorted : List Frame → Prop
  | [] => True
  | f :: rest => (∀ g, g ∈ rest → g.ply ≤ f.ply ∧ (g.ply = f.ply → g.npos = f.npos)) ∧ Sorted rest

def pvAt (pv : List (List Nat)) (i : Nat) : List Nat := pv.getD i []

theorem pvAt_set (pv : List (List Nat)) (i j : Nat) (x : List Nat) :
    pvAt (pv.set i x) j = if i = j ∧ i < pv.length then x else pvAt pv j := by
  unfold pvAt
  by_cases h : i = j
  · subst h
    by_cases hl : i < pv.length
    · simp [List.getD, hl]
    · simp [List.getD, hl]
  · simp [List.getD, h]

theorem legalLine_nil (p : Position) : legalLine p [] = true := rfl
theorem legalLine_cons (p : Position) (m : Nat) (ms : List Nat) :
    legalLine p (m :: ms) = ((genMoves p).contains m && legalLine (doMove T0 p m).1 ms) := rfl

structure PVInv (R0 : Position) (s : AState) : Prop where
  rootc : s.root = R0
  pos : s.pos = headPos s.root s.frames
  chain : Chain s.root s.frames
  sorted : Sorted s.frames
  slots : ∀ f, f ∈ s.frames → f.cleared = true → legalLine f.npos (pvAt s.pv f.ply) = true
  mv : ∀ f, f ∈ s.frames →
    (∀ l, f.moves = some l → ∀ m, m ∈ l → m ∈ genMoves f.npos) ∧ (∀ m, f.current = some m → m ∈ genMoves f.npos) ∧
    (∀ m, f.lastSearched = some m → m ∈ genMoves f.npos)
  headB : ∀ f rest, s.frames = f :: rest → f.childDone = true →
    ∀ m, (f.current = some m ∨ (f.current = none ∧ f.lastSearched = some m)) →
      legalLine (doMove T0 f.npos m).1 (pvAt s.pv (f.ply + 1)) = true
  rootpv : s.frames = [] → legalLine s.root (pvAt s.pv 0) = true
  reported : ∀ pv, pv ∈ s.reportedPVs → legalLine s.root pv = true

/-- events that touch none of root / pos / frames / pv / reportedPVs -/
theorem pvinv_congr (R0 : Position) (s s' : AState) (h1 : s'.root = s.root) (h2 : s'.pos = s.pos) (h3 : s'.frames = s.frames)
    (h4 : s'.pv = s.pv) (h5 : s'.reportedPVs = s.reportedPVs) (hi : PVInv R0 s) : PVInv R0 s' := by
  refine ⟨by rw [h1]; exact hi.rootc, by rw [h1, h2, h3]; exact hi.pos, by rw [h1, h3]; exact hi.chain, by rw [h3]; exact hi.sorted,
    by rw [h3, h4]; exact hi.slots, by rw [h3]; exact hi.mv, by rw [h3, h4]; exact hi.headB, by rw [h1, h3, h4]; exact hi.rootpv,
    by rw [h1, h5]; exact hi.reported⟩

/-- the position-relevant part of a frame -/
def sameShape (f f' : Frame) : Prop :=
  f'.ply = f.ply ∧ f'.npos = f.npos ∧ f'.current = f.current ∧ f'.nullDone = f.nullDone

theorem expectedPos_congr (f f' : Frame) (h : sameShape f f') : expectedPos f' = expectedPos f := by
  unfold expectedPos; rw [h.2.2.1, h.2.2.2, h.2.1]

theorem chain_head_congr (root : Position) (f f' : Frame) (rest : List Frame) (h1 : f'.npos = f.npos) (h2 : f'.ply = f.ply)
    (hc : Chain root (f :: rest)) : Chain root (f' :: rest) := by
  obtain ⟨⟨a, b⟩, c⟩ := hc
  exact ⟨⟨by rw [h1]; exact a, by intro h; rw [h2]; exact b h⟩, c⟩

theorem sorted_head_congr (f f' : Frame) (rest : List Frame) (h1 : f'.npos = f.npos) (h2 : f'.ply = f.ply)
    (hs : Sorted (f :: rest)) : Sorted (f' :: rest) := by
  obtain ⟨a, b⟩ := hs
  exact ⟨by intro g hg; rw [h1, h2]; exact a g hg, b⟩

end Chess

namespace Chess

theorem step_pv_enter (R0 : Position) (s s' : AState) (ply : Nat) (d : Int) (q : Bool)
    (h : stepEv s (.enter ply d q) = .ok s') (hi : PVInv R0 s) : PVInv R0 s' := by
  simp only [stepEv] at h
  cases hfr : s.frames with
  | nil =>
    rw [hfr] at h
    simp only [] at h
    by_cases hp : ply = 0
    · rw [if_pos hp] at h
      cases h
      have hpos : s.pos = s.root := by have := hi.pos; rw [hfr] at this; exact this
      refine ⟨hi.rootc, ?_, ?_, ?_, ?_, ?_, ?_, ?_, hi.reported⟩
      · show s.pos = expectedPos { ply := 0, npos := s.pos }
        rfl
      · exact ⟨⟨hpos, fun _ => rfl⟩, trivial⟩
      · exact ⟨by intro g hg; simp at hg, trivial⟩
      · intro f hf hc
        simp at hf; subst hf; simp at hc
      · intro f hf
        simp at hf; subst hf
        exact ⟨by intro l hl; simp at hl, by intro m hm; simp at hm, by intro m hm; simp at hm⟩
      · intro f rest hfr' hcd
        simp at hfr'
        obtain ⟨rfl, _⟩ := hfr'
        simp at hcd
      · intro hne; simp at hne
    · rw [if_neg hp] at h; cases h
  | cons f rest =>
    rw [hfr] at h
    simp only [] at h
    have hposf : s.pos = expectedPos f := by have := hi.pos; rw [hfr] at this; exact this
    have hch : Chain s.root (f :: rest) := by have := hi.chain; rw [hfr] at this; exact this
    have hso : Sorted (f :: rest) := by have := hi.sorted; rw [hfr] at this; exact this
    by_cases hp1 : ply = f.ply + 1
    · rw [if_pos hp1] at h
      cases h
      refine ⟨hi.rootc, ?_, ?_, ?_, ?_, ?_, ?_, ?_, hi.reported⟩
      · show s.pos = expectedPos { ply := ply, npos := s.pos }
        rfl
      · exact ⟨⟨hposf, by intro hc; cases hc⟩, hch⟩
      · refine ⟨?_, hso⟩
        intro g hg
        show g.ply ≤ ply ∧ (g.ply = ply → g.npos = s.pos)
        simp at hg
        rcases hg with rfl | hg
        · exact ⟨by omega, by intro h; omega⟩
        · have := (hso.1 g hg).1
          exact ⟨by omega, by intro h; omega⟩
      · intro g hg hc
        simp at hg
        rcases hg with rfl | hg
        · simp at hc
        · exact hi.slots g (by rw [hfr]; simpa using hg) hc
      · intro g hg
        simp at hg
        rcases hg with rfl | hg
        · exact ⟨by intro l hl; simp at hl, by intro m hm; simp at hm, by intro m hm; simp at hm⟩
        · exact hi.mv g (by rw [hfr]; simpa using hg)
      · intro g rest' hfr' hcd
        simp at hfr'
        obtain ⟨rfl, _⟩ := hfr'
        simp at hcd
      · intro hne; simp at hne
    · rw [if_neg hp1] at h
      by_cases hp2 : ply = f.ply
      · rw [if_pos hp2] at h
        by_cases hmv : f.current.isSome ∨ f.nullDone
        · rw [if_pos hmv] at h; cases h
        · rw [if_neg hmv] at h
          cases h
          have hcur : f.current = none := by
            cases hc : f.current with
            | none => rfl
            | some m => exact absurd (Or.inl (by simp [hc])) hmv
          have hnd : f.nullDone = false := by
            cases hc : f.nullDone with
            | false => rfl
            | true => exact absurd (Or.inr hc) hmv
          have hexp : expectedPos f = f.npos := by unfold expectedPos; rw [hcur, hnd]; rfl
          refine ⟨hi.rootc, ?_, ?_, ?_, ?_, ?_, ?_, ?_, hi.reported⟩
          · show s.pos = expectedPos { ply := ply, npos := s.pos }
            rfl
          · refine ⟨⟨?_, by intro hc; cases hc⟩, chain_head_congr s.root f _ rest rfl rfl hch⟩
            show s.pos = expectedPos { f with lastSearched := none, childDone := false }
            rw [hposf]
            exact (expectedPos_congr f _ ⟨rfl, rfl, rfl, rfl⟩).symm
          · refine ⟨?_, sorted_head_congr f _ rest rfl rfl hso⟩
            intro g hg
            show g.ply ≤ ply ∧ (g.ply = ply → g.npos = s.pos)
            simp at hg
            rcases hg with rfl | hg
            · exact ⟨by show f.ply ≤ ply; omega, by intro _; show f.npos = s.pos; rw [hposf, hexp]⟩
            · have := hso.1 g hg
              exact ⟨by omega, by intro h; rw [hposf, hexp]; exact this.2 (by omega)⟩
          · intro g hg hc
            simp at hg
            rcases hg with rfl | rfl | hg
            · simp at hc
            · exact hi.slots f (by rw [hfr]; simp) hc
            · exact hi.slots g (by rw [hfr]; simp [hg]) hc
          · intro g hg
            simp at hg
            rcases hg with rfl | rfl | hg
            · exact ⟨by intro l hl; simp at hl, by intro m hm; simp at hm, by intro m hm; simp at hm⟩
            · have := hi.mv f (by rw [hfr]; simp)
              exact ⟨this.1, this.2.1, by intro m hm; simp at hm⟩
            · exact hi.mv g (by rw [hfr]; simp [hg])
          · intro g rest' hfr' hcd
            simp at hfr'
            obtain ⟨rfl, _⟩ := hfr'
            simp at hcd
          · intro hne; simp at hne
      · rw [if_neg hp2] at h; cases h

end Chess

namespace Chess

theorem opt_none_of_not_isSome {α : Type} (o : Option α) (h : ¬ o.isSome = true) : o = none := by
  cases o <;> simp_all

theorem no_move_made (f : Frame) (h : ¬ (f.current.isSome = true ∨ f.nullDone = true)) :
    f.current = none ∧ f.nullDone = false ∧ expectedPos f = f.npos := by
  have hcur : f.current = none := opt_none_of_not_isSome _ (fun hc => h (Or.inl hc))
  have hnd : f.nullDone = false := by
    cases hc : f.nullDone with
    | false => rfl
    | true => exact absurd (Or.inr hc) h
  exact ⟨hcur, hnd, by unfold expectedPos; rw [hcur, hnd]; rfl⟩

theorem step_pv_exit (R0 : Position) (s s' : AState) (ply : Nat) (v : Int)
    (h : stepEv s (.exit ply v) = .ok s') (hi : PVInv R0 s) : PVInv R0 s' := by
  simp only [stepEv] at h
  cases hfr : s.frames with
  | nil => rw [hfr] at h; cases h
  | cons f rest =>
    rw [hfr] at h
    simp only [] at h
    have hposf : s.pos = expectedPos f := by have := hi.pos; rw [hfr] at this; exact this
    have hch : Chain s.root (f :: rest) := by have := hi.chain; rw [hfr] at this; exact this
    have hso : Sorted (f :: rest) := by have := hi.sorted; rw [hfr] at this; exact this
    by_cases h1 : f.ply ≠ ply
    · rw [if_pos h1] at h; cases h
    rw [if_neg h1] at h
    by_cases h2 : f.current.isSome ∨ f.nullDone
    · rw [if_pos h2] at h; cases h
    rw [if_neg h2] at h
    by_cases h3 : (!f.cleared) = true
    · rw [if_pos h3] at h; cases h
    rw [if_neg h3] at h
    cases h
    have hcl : f.cleared = true := by simpa using h3
    obtain ⟨hcur, hnd, hexp⟩ := no_move_made f h2
    have hslot := hi.slots f (by rw [hfr]; simp) hcl
    cases rest with
    | nil =>
      refine ⟨hi.rootc, ?_, trivial, trivial, ?_, ?_, ?_, ?_, hi.reported⟩
      · show s.pos = s.root
        rw [hposf, hexp]; exact hch.1.1
      · intro g hg; simp at hg
      · intro g hg; simp at hg
      · intro g r hg; simp at hg
      · intro _
        show legalLine s.root (pvAt s.pv 0) = true
        have e1 : f.npos = s.root := hch.1.1
        have e2 : f.ply = 0 := hch.1.2 rfl
        rw [← e1, ← e2]; exact hslot
    | cons g rest' =>
      have hfg : f.npos = expectedPos g := hch.1.1
      have hshape : sameShape g (afterChild g f.ply) := ⟨rfl, rfl, rfl, rfl⟩
      refine ⟨hi.rootc, ?_, ?_, ?_, ?_, ?_, ?_, ?_, hi.reported⟩
      · show s.pos = expectedPos (afterChild g f.ply)
        rw [expectedPos_congr g _ hshape, hposf, hexp, hfg]
      · exact chain_head_congr s.root g _ rest' rfl rfl hch.2
      · exact sorted_head_congr g _ rest' rfl rfl hso.2
      · intro x hx hc
        simp at hx
        rcases hx with rfl | hx
        · exact hi.slots g (by rw [hfr]; simp) hc
        · exact hi.slots x (by rw [hfr]; simp [hx]) hc
      · intro x hx
        simp at hx
        rcases hx with rfl | hx
        · exact hi.mv g (by rw [hfr]; simp)
        · exact hi.mv x (by rw [hfr]; simp [hx])
      · intro x r hx hcd m hm
        simp at hx
        obtain ⟨rfl, _⟩ := hx
        have hcd' : (decide (g.ply + 1 = f.ply) && g.current.isSome) = true := hcd
        simp only [Bool.and_eq_true, decide_eq_true_eq] at hcd'
        obtain ⟨hp, hc⟩ := hcd'
        show legalLine (doMove T0 g.npos m).1 (pvAt s.pv (g.ply + 1)) = true
        cases hgc : g.current with
        | none => rw [hgc] at hc; simp at hc
        | some m0 =>
          have hm0 : m = m0 := by
            rcases hm with hm | hm
            · have : (afterChild g f.ply).current = g.current := rfl
              rw [this, hgc] at hm; exact (Option.some.inj hm).symm
            · have : (afterChild g f.ply).current = g.current := rfl
              rw [this, hgc] at hm; cases hm.1
          subst hm0
          have : expectedPos g = (doMove T0 g.npos m).1 := by unfold expectedPos; rw [hgc]
          rw [← this, ← hfg, hp]; exact hslot
      · intro hne; simp at hne

theorem step_pv_moves (R0 : Position) (s s' : AState) (ply : Nat) (l : List Nat)
    (h : stepEv s (.moves ply l) = .ok s') (hi : PVInv R0 s) : PVInv R0 s' := by
  simp only [stepEv] at h
  cases hfr : s.frames with
  | nil => rw [hfr] at h; cases h
  | cons f rest =>
    rw [hfr] at h
    simp only [] at h
    have hposf : s.pos = expectedPos f := by have := hi.pos; rw [hfr] at this; exact this
    have hch : Chain s.root (f :: rest) := by have := hi.chain; rw [hfr] at this; exact this
    have hso : Sorted (f :: rest) := by have := hi.sorted; rw [hfr] at this; exact this
    by_cases h1 : f.ply ≠ ply
    · rw [if_pos h1] at h; cases h
    rw [if_neg h1] at h
    by_cases h2 : f.current.isSome ∨ f.nullDone
    · rw [if_pos h2] at h; cases h
    rw [if_neg h2] at h
    by_cases h3 : (sameMembers l (if ply = 0 then s.rootMoves else genMoves s.pos) && l.all ((genMoves s.pos).contains ·)) = true
    · rw [if_pos h3] at h
      cases h
      obtain ⟨hcur, hnd, hexp⟩ := no_move_made f h2
      have hall : ∀ m, m ∈ l → m ∈ genMoves f.npos := by
        intro m hm
        simp only [Bool.and_eq_true, List.all_eq_true] at h3
        have := h3.2 m hm
        rw [hposf, hexp] at this
        simpa using this
      have hshape : sameShape f { f with moves := some l } := ⟨rfl, rfl, rfl, rfl⟩
      refine ⟨hi.rootc, ?_, chain_head_congr s.root f _ rest rfl rfl hch, sorted_head_congr f _ rest rfl rfl hso, ?_, ?_, ?_, ?_, hi.reported⟩
      · show s.pos = expectedPos { f with moves := some l }
        rw [expectedPos_congr f _ hshape]; exact hposf
      · intro x hx hc
        simp at hx
        rcases hx with rfl | hx
        · exact hi.slots f (by rw [hfr]; simp) hc
        · exact hi.slots x (by rw [hfr]; simp [hx]) hc
      · intro x hx
        simp at hx
        rcases hx with rfl | hx
        · have := hi.mv f (by rw [hfr]; simp)
          refine ⟨?_, this.2.1, this.2.2⟩
          intro l' hl' m hm
          simp at hl'; subst hl'
          exact hall m hm
        · exact hi.mv x (by rw [hfr]; simp [hx])
      · intro x r hx hcd m hm
        simp at hx
        obtain ⟨rfl, _⟩ := hx
        exact hi.headB f rest hfr hcd m hm
      · intro hne; simp at hne
    · rw [if_neg h3] at h; cases h

end Chess

namespace Chess

/-- a head-frame update that keeps ply and npos, with pv untouched: the clauses about the other frames carry over -/
theorem pvinv_head_update (R0 : Position) (s : AState) (f f' : Frame) (rest : List Frame) (pos' : Position)
    (hi : PVInv R0 s) (hfr : s.frames = f :: rest) (hply : f'.ply = f.ply) (hnpos : f'.npos = f.npos)
    (hpos : pos' = expectedPos f') (hcl : f'.cleared = f.cleared)
    (hmv : (∀ l, f'.moves = some l → ∀ m, m ∈ l → m ∈ genMoves f.npos) ∧ (∀ m, f'.current = some m → m ∈ genMoves f.npos) ∧
           (∀ m, f'.lastSearched = some m → m ∈ genMoves f.npos))
    (hB : f'.childDone = true → ∀ m, (f'.current = some m ∨ (f'.current = none ∧ f'.lastSearched = some m)) →
           legalLine (doMove T0 f.npos m).1 (pvAt s.pv (f.ply + 1)) = true) :
    PVInv R0 { s with pos := pos', frames := f' :: rest } := by
  have hch : Chain s.root (f :: rest) := by have := hi.chain; rw [hfr] at this; exact this
  have hso : Sorted (f :: rest) := by have := hi.sorted; rw [hfr] at this; exact this
  refine ⟨hi.rootc, hpos, chain_head_congr s.root f f' rest hnpos hply hch, sorted_head_congr f f' rest hnpos hply hso, ?_, ?_, ?_, ?_, hi.reported⟩
  · intro x hx hc
    simp at hx
    rcases hx with hx | hx
    · subst hx
      rw [hnpos, hply]; exact hi.slots f (by rw [hfr]; simp) (by rw [← hcl]; exact hc)
    · exact hi.slots x (by rw [hfr]; simp [hx]) hc
  · intro x hx
    simp at hx
    rcases hx with hx | hx
    · subst hx; rw [hnpos]; exact hmv
    · exact hi.mv x (by rw [hfr]; simp [hx])
  · intro x r hx hcd m hm
    simp at hx
    obtain ⟨hx, _⟩ := hx
    subst hx
    rw [hnpos, hply]; exact hB hcd m hm
  · intro hne; simp at hne

theorem step_pv_doMv (R0 : Position) (s s' : AState) (ply m : Nat)
    (h : stepEv s (.doMv ply m) = .ok s') (hi : PVInv R0 s) : PVInv R0 s' := by
  simp only [stepEv] at h
  cases hfr : s.frames with
  | nil => rw [hfr] at h; cases h
  | cons f rest =>
    rw [hfr] at h
    simp only [] at h
    have hposf : s.pos = expectedPos f := by have := hi.pos; rw [hfr] at this; exact this
    by_cases h1 : f.ply ≠ ply
    · rw [if_pos h1] at h; cases h
    rw [if_neg h1] at h
    by_cases h2 : f.current.isSome ∨ f.nullDone
    · rw [if_pos h2] at h; cases h
    rw [if_neg h2] at h
    obtain ⟨hcur, hnd, hexp⟩ := no_move_made f h2
    cases hmvs : f.moves with
    | none => rw [hmvs] at h; cases h
    | some l =>
      rw [hmvs] at h
      simp only [] at h
      by_cases h3 : l.contains m = true
      · rw [if_pos h3] at h
        cases h
        have hfm := hi.mv f (by rw [hfr]; simp)
        apply pvinv_head_update R0 s f { f with moves := some l, current := some m, childDone := false } rest _ hi hfr rfl rfl
        · show (doMove T0 s.pos m).1 = expectedPos { f with moves := some l, current := some m, childDone := false }
          rw [hposf, hexp]; rfl
        · rfl
        · refine ⟨by intro l' hl'; simp at hl'; subst hl'; exact hfm.1 l hmvs, ?_, hfm.2.2⟩
          intro m' hm'
          simp at hm'; subst hm'
          exact hfm.1 l hmvs m (by simpa using h3)
        · intro hcd; simp at hcd
      · rw [if_neg h3] at h; cases h

theorem step_pv_undoMv (R0 : Position) (s s' : AState) (ply m : Nat)
    (h : stepEv s (.undoMv ply m) = .ok s') (hi : PVInv R0 s) : PVInv R0 s' := by
  simp only [stepEv] at h
  cases hfr : s.frames with
  | nil => rw [hfr] at h; cases h
  | cons f rest =>
    rw [hfr] at h
    simp only [] at h
    by_cases h1 : f.ply ≠ ply
    · rw [if_pos h1] at h; cases h
    rw [if_neg h1] at h
    by_cases h2 : f.current ≠ some m ∨ f.nullDone
    · rw [if_pos h2] at h; cases h
    rw [if_neg h2] at h
    cases h
    have hcur : f.current = some m := Decidable.not_not.mp (fun hc => h2 (Or.inl hc))
    have hnd : f.nullDone = false := by
      cases hc : f.nullDone with
      | false => rfl
      | true => exact absurd (Or.inr hc) h2
    have hfm := hi.mv f (by rw [hfr]; simp)
    apply pvinv_head_update R0 s f { f with current := none, lastSearched := some m } rest _ hi hfr rfl rfl
    · show f.npos = expectedPos { f with current := none, lastSearched := some m }
      unfold expectedPos; simp only []; rw [hnd]; rfl
    · rfl
    · refine ⟨hfm.1, by intro m' hm'; simp at hm', ?_⟩
      intro m' hm'
      simp at hm'; subst hm'
      exact hfm.2.1 m hcur
    · intro hcd m' hm'
      have hcd' : f.childDone = true := hcd
      rcases hm' with hm' | hm'
      · simp at hm'
      · have : m' = m := by have := hm'.2; simp at this; exact this.symm
        subst this
        exact hi.headB f rest hfr hcd' m' (Or.inl hcur)

theorem step_pv_nullDo (R0 : Position) (s s' : AState) (ply : Nat)
    (h : stepEv s (.nullDo ply) = .ok s') (hi : PVInv R0 s) : PVInv R0 s' := by
  simp only [stepEv] at h
  cases hfr : s.frames with
  | nil => rw [hfr] at h; cases h
  | cons f rest =>
    rw [hfr] at h
    simp only [] at h
    have hposf : s.pos = expectedPos f := by have := hi.pos; rw [hfr] at this; exact this
    by_cases h1 : f.ply ≠ ply ∨ f.current.isSome ∨ f.nullDone
    · rw [if_pos h1] at h; cases h
    rw [if_neg h1] at h
    cases h
    obtain ⟨hcur, hnd, hexp⟩ := no_move_made f (fun hc => h1 (Or.inr hc))
    have hfm := hi.mv f (by rw [hfr]; simp)
    apply pvinv_head_update R0 s f { f with nullDone := true } rest _ hi hfr rfl rfl
    · show (doNull T0 s.pos).1 = expectedPos { f with nullDone := true }
      rw [hposf, hexp]; unfold expectedPos; simp only []; rw [hcur]; rfl
    · rfl
    · exact hfm
    · intro hcd m' hm'
      exact hi.headB f rest hfr hcd m' hm'

theorem step_pv_nullUndo (R0 : Position) (s s' : AState) (ply : Nat)
    (h : stepEv s (.nullUndo ply) = .ok s') (hi : PVInv R0 s) : PVInv R0 s' := by
  simp only [stepEv] at h
  cases hfr : s.frames with
  | nil => rw [hfr] at h; cases h
  | cons f rest =>
    rw [hfr] at h
    simp only [] at h
    by_cases h1 : f.ply ≠ ply ∨ (!f.nullDone) = true ∨ f.current.isSome
    · rw [if_pos h1] at h; cases h
    rw [if_neg h1] at h
    cases h
    have hcur : f.current = none := opt_none_of_not_isSome _ (fun hc => h1 (Or.inr (Or.inr hc)))
    have hfm := hi.mv f (by rw [hfr]; simp)
    apply pvinv_head_update R0 s f { f with nullDone := false } rest _ hi hfr rfl rfl
    · show f.npos = expectedPos { f with nullDone := false }
      unfold expectedPos; simp only []; rw [hcur]; rfl
    · rfl
    · exact hfm
    · intro hcd m' hm'
      exact hi.headB f rest hfr hcd m' hm'

end Chess

namespace Chess

/-- writing a line that is legal from the head node's position into the head node's slot keeps every clause -/
theorem pvinv_write (R0 : Position) (s : AState) (f f' : Frame) (rest : List Frame) (line : List Nat)
    (hi : PVInv R0 s) (hfr : s.frames = f :: rest) (hply : f'.ply = f.ply) (hnpos : f'.npos = f.npos)
    (hcur : f'.current = f.current) (hnd : f'.nullDone = f.nullDone) (hls : f'.lastSearched = f.lastSearched)
    (hmoves : f'.moves = f.moves) (hcd : f'.childDone = f.childDone) (hcl : f.cleared = true → f'.cleared = true)
    (hline : legalLine f.npos line = true) (hkeep : f'.cleared = true → f.cleared = false → line = []) :
    PVInv R0 { s with pv := s.pv.set f.ply line, frames := f' :: rest } := by
  have hch : Chain s.root (f :: rest) := by have := hi.chain; rw [hfr] at this; exact this
  have hso : Sorted (f :: rest) := by have := hi.sorted; rw [hfr] at this; exact this
  have hposf : s.pos = expectedPos f := by have := hi.pos; rw [hfr] at this; exact this
  have hshape : sameShape f f' := ⟨hply, hnpos, hcur, hnd⟩
  have slotval : ∀ np, legalLine np (pvAt s.pv f.ply) = true → np = f.npos →
      legalLine np (pvAt (s.pv.set f.ply line) f.ply) = true := by
    intro np h1 h2
    rw [pvAt_set]
    by_cases hl : f.ply = f.ply ∧ f.ply < s.pv.length
    · rw [if_pos hl, h2]; exact hline
    · rw [if_neg hl]; exact h1
  refine ⟨hi.rootc, ?_, chain_head_congr s.root f f' rest hnpos hply hch, sorted_head_congr f f' rest hnpos hply hso, ?_, ?_, ?_, ?_, hi.reported⟩
  · show s.pos = expectedPos f'
    rw [expectedPos_congr f f' hshape]; exact hposf
  · intro x hx hc
    simp at hx
    show legalLine x.npos (pvAt (s.pv.set f.ply line) x.ply) = true
    rcases hx with hx | hx
    · subst hx
      rw [hnpos, hply, pvAt_set]
      by_cases hl : f.ply = f.ply ∧ f.ply < s.pv.length
      · rw [if_pos hl]; exact hline
      · rw [if_neg hl]
        by_cases hfc : f.cleared = true
        · exact hi.slots f (by rw [hfr]; simp) hfc
        · have : pvAt s.pv f.ply = [] := by
            unfold pvAt
            have : ¬ f.ply < s.pv.length := fun h => hl ⟨rfl, h⟩
            simp [List.getD, this]
          rw [this]; rfl
    · have hxs := hso.1 x hx
      by_cases hp : x.ply = f.ply
      · rw [hp]
        have hnp : x.npos = f.npos := hxs.2 hp
        rw [pvAt_set]
        by_cases hl : f.ply = f.ply ∧ f.ply < s.pv.length
        · rw [if_pos hl, hnp]; exact hline
        · rw [if_neg hl, ← hp]; exact hi.slots x (by rw [hfr]; simp [hx]) hc
      · rw [pvAt_set, if_neg (by intro h; exact hp h.1.symm)]
        exact hi.slots x (by rw [hfr]; simp [hx]) hc
  · intro x hx
    simp at hx
    rcases hx with hx | hx
    · subst hx
      have := hi.mv f (by rw [hfr]; simp)
      rw [hnpos, hmoves, hcur, hls]; exact this
    · exact hi.mv x (by rw [hfr]; simp [hx])
  · intro x r hx hcdx m hm
    simp at hx
    obtain ⟨hx, _⟩ := hx
    subst hx
    rw [hnpos, hply, pvAt_set, if_neg (by intro h; omega)]
    rw [hcur, hls] at hm
    exact hi.headB f rest hfr (by rw [← hcd]; exact hcdx) m hm
  · intro hne; simp at hne

theorem step_pv_pvClear (R0 : Position) (s s' : AState) (ply : Nat)
    (h : stepEv s (.pvClear ply) = .ok s') (hi : PVInv R0 s) : PVInv R0 s' := by
  simp only [stepEv] at h
  cases hfr : s.frames with
  | nil => rw [hfr] at h; cases h
  | cons f rest =>
    rw [hfr] at h
    simp only [] at h
    by_cases h1 : f.ply = ply
    · rw [if_pos h1] at h
      cases h
      rw [← h1]
      exact pvinv_write R0 s f { f with cleared := true } rest [] hi hfr rfl rfl rfl rfl rfl rfl rfl (fun _ => rfl) rfl (fun _ _ => rfl)
    · rw [if_neg h1] at h; cases h

theorem step_pv_pvSet (R0 : Position) (s s' : AState) (ply m : Nat)
    (h : stepEv s (.pvSet ply m) = .ok s') (hi : PVInv R0 s) : PVInv R0 s' := by
  simp only [stepEv] at h
  cases hfr : s.frames with
  | nil => rw [hfr] at h; cases h
  | cons f rest =>
    rw [hfr] at h
    simp only [] at h
    by_cases h1 : f.ply ≠ ply
    · rw [if_pos h1] at h; cases h
    rw [if_neg h1] at h
    by_cases h2 : (!f.cleared) = true
    · rw [if_pos h2] at h; cases h
    rw [if_neg h2] at h
    cases hmvs : f.moves with
    | none => rw [hmvs] at h; cases h
    | some l =>
      rw [hmvs] at h
      simp only [] at h
      by_cases h3 : l.contains m = true
      · rw [if_pos h3] at h
        cases h
        have hp : f.ply = ply := Decidable.not_not.mp h1
        have hfm := hi.mv f (by rw [hfr]; simp)
        have hmem : m ∈ genMoves f.npos := hfm.1 l hmvs m (by simpa using h3)
        have hline : legalLine f.npos [m] = true := by
          rw [legalLine_cons, legalLine_nil]; simp [hmem]
        have := pvinv_write R0 s f f rest [m] hi hfr rfl rfl rfl rfl rfl rfl rfl (fun h => h) hline
          (fun h1 h2 => by rw [h1] at h2; cases h2)
        rw [← hp]
        exact pvinv_congr R0 { s with pv := s.pv.set f.ply [m], frames := f :: rest } _ rfl rfl rfl rfl rfl this
      · rw [if_neg h3] at h; cases h

theorem step_pv_pvAdd (R0 : Position) (s s' : AState) (ply m : Nat)
    (h : stepEv s (.pvAdd ply m) = .ok s') (hi : PVInv R0 s) : PVInv R0 s' := by
  simp only [stepEv] at h
  cases hfr : s.frames with
  | nil => rw [hfr] at h; cases h
  | cons f rest =>
    rw [hfr] at h
    simp only [] at h
    by_cases h1 : f.ply ≠ ply
    · rw [if_pos h1] at h; cases h
    rw [if_neg h1] at h
    by_cases h2 : f.lastSearched ≠ some m ∨ f.current.isSome
    · rw [if_pos h2] at h; cases h
    rw [if_neg h2] at h
    by_cases h3 : (!f.cleared) = true
    · rw [if_pos h3] at h; cases h
    rw [if_neg h3] at h
    by_cases h4 : (!f.childDone) = true
    · rw [if_pos h4] at h; cases h
    rw [if_neg h4] at h
    cases h
    have hp : f.ply = ply := Decidable.not_not.mp h1
    have hls : f.lastSearched = some m := Decidable.not_not.mp (fun hc => h2 (Or.inl hc))
    have hcur : f.current = none := opt_none_of_not_isSome _ (fun hc => h2 (Or.inr hc))
    have hcd : f.childDone = true := by simpa using h4
    have hfm := hi.mv f (by rw [hfr]; simp)
    have hmem : m ∈ genMoves f.npos := hfm.2.2 m hls
    have hB := hi.headB f rest hfr hcd m (Or.inr ⟨hcur, hls⟩)
    have hline : legalLine f.npos (m :: pvAt s.pv (f.ply + 1)) = true := by
      rw [legalLine_cons, hB]; simp [hmem]
    have := pvinv_write R0 s f f rest (m :: pvAt s.pv (f.ply + 1)) hi hfr rfl rfl rfl rfl rfl rfl rfl (fun h => h) hline
      (fun h1 h2 => by rw [h1] at h2; cases h2)
    rw [← hp]
    exact pvinv_congr R0 { s with pv := s.pv.set f.ply (m :: pvAt s.pv (f.ply + 1)), frames := f :: rest } _ rfl rfl rfl rfl rfl this

/-- one step of the automaton keeps the PV invariant -/
theorem step_pv (R0 : Position) (s s' : AState) (e : Ev) (h : stepEv s e = .ok s') (hi : PVInv R0 s) : PVInv R0 s' := by
  cases e with
  | enter ply d q => exact step_pv_enter R0 s s' ply d q h hi
  | exit ply v => exact step_pv_exit R0 s s' ply v h hi
  | moves ply l => exact step_pv_moves R0 s s' ply l h hi
  | doMv ply m => exact step_pv_doMv R0 s s' ply m h hi
  | undoMv ply m => exact step_pv_undoMv R0 s s' ply m h hi
  | nullDo ply => exact step_pv_nullDo R0 s s' ply h hi
  | nullUndo ply => exact step_pv_nullUndo R0 s s' ply h hi
  | pvClear ply => exact step_pv_pvClear R0 s s' ply h hi
  | pvSet ply m => exact step_pv_pvSet R0 s s' ply m h hi
  | pvAdd ply m => exact step_pv_pvAdd R0 s s' ply m h hi
  | ttCut ply m flag =>
    simp only [stepEv] at h
    split at h
    · split at h <;> try (cases h)
      split at h <;> try (cases h)
      split at h <;> try (cases h)
      exact hi
    · cases h
  | iterStart d =>
    simp only [stepEv] at h
    split at h <;> try (cases h)
    split at h <;> try (cases h)
    exact pvinv_congr R0 s _ rfl rfl rfl rfl rfl hi
  | iterDone d v =>
    simp only [stepEv] at h
    split at h <;> try (cases h)
    rename_i hfe
    split at h <;> try (cases h)
    split at h <;> try (cases h)
    split at h <;> try (cases h)
    have hfr : s.frames = [] := by
      cases hf : s.frames with
      | nil => rfl
      | cons a b => rw [hf] at hfe; simp at hfe
    refine ⟨hi.rootc, hi.pos, hi.chain, hi.sorted, hi.slots, hi.mv, hi.headB, hi.rootpv, ?_⟩
    intro pv hpv
    simp at hpv
    rcases hpv with rfl | hpv
    · exact hi.rootpv hfr
    · exact hi.reported pv hpv
  | bestSet m =>
    simp only [stepEv] at h
    split at h <;> try (cases h)
    split at h
    · cases h; exact pvinv_congr R0 s _ rfl rfl rfl rfl rfl hi
    · split at h
      · cases h; exact hi
      · split at h
        · cases h; exact pvinv_congr R0 s _ rfl rfl rfl rfl rfl hi
        · split at h <;> try (cases h)
          exact pvinv_congr R0 s _ rfl rfl rfl rfl rfl hi
  | bestMove m =>
    simp only [stepEv] at h
    split at h <;> try (cases h)
    split at h <;> try (cases h)
    split at h <;> try (cases h)
    exact pvinv_congr R0 s _ rfl rfl rfl rfl rfl hi
  | stopSeen ply => simp only [stepEv] at h; cases h; exact pvinv_congr R0 s _ rfl rfl rfl rfl rfl hi
  | aspiration lo hi' => simp only [stepEv] at h; cases h; exact hi
  | stopDelivered => simp only [stepEv] at h; cases h; exact pvinv_congr R0 s _ rfl rfl rfl rfl rfl hi

theorem run_pv (R0 : Position) (t : List Ev) (s s' : AState) (i : Nat) (h : runTrace s t i = .ok s') (hi : PVInv R0 s) : PVInv R0 s' := by
  induction t generalizing s i with
  | nil => simp [runTrace] at h; cases h; exact hi
  | cons e es ih =>
    simp only [runTrace] at h
    split at h
    · rename_i s1 hs1
      exact ih s1 (i + 1) h (step_pv R0 s s1 e hs1 hi)
    · cases h

theorem init_pv (root : Position) (R : List Nat) : PVInv root (initState root R) := by
  refine ⟨rfl, rfl, trivial, trivial, ?_, ?_, ?_, ?_, ?_⟩
  · intro f hf; simp [initState] at hf
  · intro f hf; simp [initState] at hf
  · intro f rest hf; simp [initState] at hf
  · intro _
    show legalLine root (pvAt (List.replicate 90 []) 0) = true
    rfl
  · intro pv hpv; simp [initState] at hpv

end Chess
