/-
  Lemmas/EvalPieces.lean — bounds of the per-piece terms, of the king terms, of one pawn, and of a whole side, as expressions
  in the generated constants (`Sc.bnd` of each constant times 64 for a population count, 8 for a king distance).
  Nothing here depends on the values of the constants; only the last comparison in Props/C14 does.
-/
import ChessVerif.Lemmas.EvalBound
namespace Chess

theorem mul_bound_abs (x B v V : Int) (hx1 : -B ≤ x) (hx2 : x ≤ B) (hv1 : -V ≤ v) (hv2 : v ≤ V) : -(B * V) ≤ x * v ∧ x * v ≤ B * V := by
  by_cases hv : 0 ≤ v
  · exact mul_bound x B v V hx1 hx2 hv hv2
  · have := mul_bound (-x) B (-v) V (by omega) (by omega) (by omega) (by omega)
    rw [Int.neg_mul_neg] at this
    exact this

theorem within_scale_abs {s : Sc} {B : Int} (hs : s.within B) (v V : Int) (hv1 : -V ≤ v) (hv2 : v ≤ V) : (s.scale v).within (B * V) := by
  unfold Sc.within at *
  unfold Sc.scale
  have := mul_bound_abs s.mg B v V hs.1 hs.2.1 hv1 hv2
  have := mul_bound_abs s.eg B v V hs.2.2.1 hs.2.2.2 hv1 hv2
  simp only []
  omega

/-- largest absolute value in a table -/
def lbnd (l : List Int) : Int := l.foldr (fun x a => max (x.natAbs : Int) a) 0

theorem lbnd_nonneg (l : List Int) : 0 ≤ lbnd l := by
  induction l with
  | nil => simp [lbnd]
  | cons x xs ih => unfold lbnd; simp only [List.foldr_cons]; omega

theorem getD_lbnd (l : List Int) (i : Nat) : -(lbnd l) ≤ l.getD i 0 ∧ l.getD i 0 ≤ lbnd l := by
  induction l generalizing i with
  | nil => simp [lbnd]
  | cons x xs ih =>
    have hn := lbnd_nonneg xs
    have e : lbnd (x :: xs) = max (x.natAbs : Int) (lbnd xs) := by unfold lbnd; rfl
    cases i with
    | zero => rw [e]; simp only [List.getD_cons_zero]; omega
    | succ j =>
      have := ih j
      rw [e]; simp only [List.getD_cons_succ]; omega

theorem within_foldl_n (l : List Nat) (f : Nat → Sc) (B : Int) (hB : 0 ≤ B) (n : Nat) (hn : l.length ≤ n)
    (hf : ∀ x, x ∈ l → (f x).within B) : (l.foldl (fun acc x => acc + f x) (⟨0, 0⟩ : Sc)).within (n * B) := by
  have h := within_foldl l f B hB hf _ _ within_zero
  refine within_mono h ?_
  have : (l.length : Int) * B ≤ n * B := Int.mul_le_mul_of_nonneg_right (by omega) hB
  omega

-- per piece -----------------------------------------------------------------------------------------------
def knightB : Int := (pieceValue KNIGHT).bnd + SAFE_KNIGHT.bnd + (controlSpace KNIGHT).bnd * 64 + CONTROL_CENTER_KNIGHT.bnd * 64 +
  (kingProtectorPenalty KNIGHT).bnd * 8 + (kingAttackerPenalty KNIGHT).bnd * 8 + (mobilityBonus KNIGHT).bnd * 64 + OUTPOST_KNIGHT_BONUS.bnd

theorem knightScore_within (b : BBs) (board : List Nat) (side : Nat) (own opp : Setup) (k ok sq : Nat)
    (hk : k ≤ 64) (hok : ok ≤ 64) (hsq : sq ≤ 64) : (knightScore b board side own opp k ok sq).within knightB := by
  unfold knightScore knightB
  exact (within_add (within_add (within_add (within_add (within_add (within_add (within_add (within_bnd _) (within_opt _ (within_bnd _))) (within_scale_pc (within_bnd _) _)) (within_scale_pc (within_bnd _) _)) (within_scale_dist (within_bnd _) _ _ hk hsq)) (within_scale_dist (within_bnd _) _ _ hok hsq)) (within_scale_pc (within_bnd _) _)) (within_opt _ (within_bnd _)))

def bishopB : Int := (pieceValue BISHOP).bnd + (controlSpace BISHOP).bnd * 64 + (mobilityBonus BISHOP).bnd * 64 +
  (kingProtectorPenalty BISHOP).bnd * 8 + (kingAttackerPenalty BISHOP).bnd * 8 + PAWNS_ON_SAME_COLOR_AS_BISHOP_PENALTY.bnd * 64 + OUTPOST_BISHOP_BONUS.bnd

theorem bishopScore_within (b : BBs) (board : List Nat) (side : Nat) (own opp : Setup) (k ok sq : Nat)
    (hk : k ≤ 64) (hok : ok ≤ 64) (hsq : sq ≤ 64) : (bishopScore b board side own opp k ok sq).within bishopB := by
  unfold bishopScore bishopB
  exact (within_add (within_add (within_add (within_add (within_add (within_add (within_bnd _) (within_scale_pc (within_bnd _) _)) (within_scale_pc (within_bnd _) _)) (within_scale_dist (within_bnd _) _ _ hk hsq)) (within_scale_dist (within_bnd _) _ _ hok hsq)) (within_scale_pc (within_bnd _) _)) (within_opt _ (within_bnd _)))

def rookB : Int := (pieceValue ROOK).bnd + (controlSpace ROOK).bnd * 64 + ROOK_OPEN_FILE_BONUS.bnd + ROOK_SEMIOPEN_FILE_BONUS.bnd +
  (⟨10, 5⟩ : Sc).bnd + (mobilityBonus ROOK).bnd * 64 + TRAPPED_ROOK_PENALTY.bnd * 2

theorem rookScore_within (b : BBs) (board : List Nat) (castling side : Nat) (own opp : Setup) (k sq : Nat) :
    (rookScore b board castling side own opp k sq).within rookB := by
  unfold rookScore rookB
  exact (within_add (within_add (within_add (within_add (within_add (within_add (within_bnd _) (within_scale_pc (within_bnd _) _)) (within_opt _ (within_bnd _))) (within_opt _ (within_bnd _))) (within_opt _ (within_bnd _))) (within_scale_pc (within_bnd _) _)) (within_opt _ (within_scale (within_bnd _) _ 2 (by split <;> omega) (by split <;> omega))))

def queenB : Int := (pieceValue QUEEN).bnd + (controlSpace QUEEN).bnd * 64 + (controlSpace QUEEN).bnd * 64 + VULNERABLE_QUEEN_PENALTY.bnd +
  (mobilityBonus QUEEN).bnd * 64

theorem queenScore_within (b : BBs) (board : List Nat) (side : Nat) (own opp : Setup) (sq : Nat) :
    (queenScore b board side own opp sq).within queenB := by
  unfold queenScore queenB
  exact (within_add (within_add (within_add (within_add (within_bnd _) (within_scale_pc (within_bnd _) _)) (within_scale_pc (within_bnd _) _)) (within_opt _ (within_bnd _))) (within_scale_pc (within_bnd _) _))

-- king ---------------------------------------------------------------------------------------------------------
def shelterB : Int := KING_SAFETY_BONUS.bnd * 64

theorem shelter_within (b : BBs) (side ksq : Nat) : (scoreKingShelter b side ksq).within shelterB := by
  unfold scoreKingShelter shelterB
  exact within_scale_pc (within_bnd _) _

theorem within_maxByMg {a b : Sc} {A : Int} (ha : a.within A) (hb : b.within A) : (maxByMg a b).within A := by
  unfold maxByMg; split <;> assumption

def safetyB : Int := shelterB + 64 * (KING_PAWN_PROXIMITY_PENALTY.bnd * 8)

theorem within_ite_same (c : Prop) [Decidable c] {a b : Sc} {A : Int} (ha : a.within A) (hb : b.within A) : (if c then a else b).within A := by
  by_cases h : c
  · rw [if_pos h]; exact ha
  · rw [if_neg h]; exact hb

theorem proximity_fold_within (pawns : BB) (k : Nat) (hk : k ≤ 64) (s : Sc) (hs : s.within shelterB) :
    ((bitsOf pawns).foldl (fun acc p => acc + KING_PAWN_PROXIMITY_PENALTY.scale (distance k p)) s).within safetyB := by
  have hB : 0 ≤ KING_PAWN_PROXIMITY_PENALTY.bnd * 8 := by have := bnd_nonneg KING_PAWN_PROXIMITY_PENALTY; omega
  have hf : ∀ x, x ∈ bitsOf pawns → (KING_PAWN_PROXIMITY_PENALTY.scale (distance k x)).within (KING_PAWN_PROXIMITY_PENALTY.bnd * 8) := by
    intro x hx
    have := ((mem_bitsOf _ x).1 hx).1
    exact within_scale_dist (within_bnd _) _ _ hk (by omega)
  have hl := bitsOf_length pawns
  have hlen : ((bitsOf pawns).length : Int) * (KING_PAWN_PROXIMITY_PENALTY.bnd * 8) ≤ 64 * (KING_PAWN_PROXIMITY_PENALTY.bnd * 8) :=
    Int.mul_le_mul_of_nonneg_right (by omega) hB
  have h := within_foldl (bitsOf pawns) (fun p => KING_PAWN_PROXIMITY_PENALTY.scale (distance k p)) _ hB hf s _ hs
  refine within_mono h ?_
  unfold safetyB
  omega

theorem scoreKingSafety_within (b : BBs) (board : List Nat) (castling side : Nat) : (scoreKingSafety b board castling side).within safetyB := by
  unfold scoreKingSafety
  have h0 := shelter_within b side (kingSq board side)
  apply proximity_fold_within _ _ (kingSq_le _ _)
  exact within_ite_same _
    (within_maxByMg (within_maxByMg (within_ite_same _ (within_maxByMg h0 (shelter_within _ _ _)) h0) (shelter_within _ _ _)) (shelter_within _ _ _))
    (within_ite_same _ (within_maxByMg h0 (shelter_within _ _ _)) h0)

def kingB : Int := safetyB + (mobilityBonus KING).bnd * 64 + WEAK_BACKRANK_PENALTY.bnd + WEAK_KING_DIAGONALS.bnd * 64 + WEAK_KING_LINES.bnd * 64

theorem scoreKing_within (b : BBs) (board : List Nat) (castling side : Nat) (own opp : Setup) :
    (scoreKing b board castling side own opp).within kingB := by
  unfold scoreKing kingB
  exact (within_add (within_add (within_add (within_add (scoreKingSafety_within b board castling side) (within_scale_pc (within_bnd _) _)) (within_opt _ (within_bnd _))) (within_opt _ (within_scale_pc (within_bnd _) _))) (within_opt _ (within_scale_pc (within_bnd _) _)))

end Chess
