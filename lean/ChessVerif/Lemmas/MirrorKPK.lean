/-
  Lemmas/MirrorKPK.lean — the KPK endgame (the first class of the dispatch) under the colour mirror: the single pawn's square, the
  bitbase normalisation, the value, and the dispatch when KPK claims the position.
-/
import ChessVerif.Lemmas.MirrorEndgame
import ChessVerif.Lemmas.EvalCounts
namespace Chess
open Chess.Props

theorem single_of_count (board : List Nat) (pc : Nat) (hlen : board.length = 64) (h : countOf board pc = 1) :
    bbOfPiece board pc ≠ 0 ∧ moreThanOne (bbOfPiece board pc) = false := by
  have hl := bitsOf_bbOfPiece_length board pc hlen
  rw [h] at hl
  have hb : bbOfPiece board pc < 2 ^ 64 := by
    have two : (2 : Nat) ^ 64 = two64 := by decide
    rw [two]; exact bbOfPiece_lt _ _ hlen
  constructor
  · intro e0
    rw [e0] at hl
    have : (bitsOf 0).length = 0 := by decide
    omega
  · apply Classical.byContradiction
    intro hm
    have hm' : moreThanOne (bbOfPiece board pc) = true := by simpa using hm
    obtain ⟨i, j, hij, hi, hj⟩ := two_bits _ hm'
    have lt64 : ∀ t, (bbOfPiece board pc).testBit t = true → t < 64 := by
      intro t ht
      apply Classical.byContradiction; intro hge
      have : (bbOfPiece board pc).testBit t = false := Nat.testBit_lt_two_pow (Nat.lt_of_lt_of_le hb (Nat.pow_le_pow_right (by omega) (by omega)))
      rw [this] at ht; exact Bool.noConfusion ht
    have mi := (mem_bitsOf _ i).2 ⟨lt64 i hi, hi⟩
    have mj := (mem_bitsOf _ j).2 ⟨lt64 j hj, hj⟩
    match hbits : bitsOf (bbOfPiece board pc), hl with
    | [x], _ =>
      rw [hbits] at mi mj
      simp at mi mj
      exact hij (mi.trans mj.symm)

theorem lsb_mirror_single {X Y : BB} (hX : X < 2 ^ 64) (hY : Y < 2 ^ 64) (h : MirrorBB X Y) (h0 : X ≠ 0) (h1 : moreThanOne X = false) :
    lsb Y = flipV (lsb X) ∧ lsb X < 64 := by
  have lt64 : ∀ {A : BB}, A < 2 ^ 64 → ∀ t, A.testBit t = true → t < 64 := by
    intro A hA t ht
    apply Classical.byContradiction; intro hge
    have : A.testBit t = false := Nat.testBit_lt_two_pow (Nat.lt_of_lt_of_le hA (Nat.pow_le_pow_right (by omega) (by omega)))
    rw [this] at ht; exact Bool.noConfusion ht
  obtain ⟨a1, a2, a3⟩ := single_bit X (lt64 hX) h0 h1
  have h0' : Y ≠ 0 := fun e => h0 ((h.eq_zero_iff hX hY).1 e)
  have h1' : moreThanOne Y = false := by rw [MirrorBB.moreThanOne hX hY h]; exact h1
  obtain ⟨b1, b2, _⟩ := single_bit Y (lt64 hY) h0' h1'
  have : X.testBit (flipV (lsb Y)) = true := by rw [← h _ b1]; exact b2
  have e := a3 _ this
  exact ⟨by rw [← e, flipV_flipV _ b1], a1⟩

def sqFlipFacts : Bool := (List.range 64).all fun x =>
  decide (fileOf (flipV x) = fileOf x) && decide (flipH (flipV x) = flipV (flipH x)) && decide (flipV (flipV x) = x) && decide (flipH x < 64) && decide (flipV x < 64)
theorem sqFlipFacts_true : sqFlipFacts = true := by decide +kernel

/-- the bitbase normalisation of the mirrored KPK position is that of the position -/
theorem kpkNormalize_mirror (s stm a b c : Nat) (hs : s ≤ 1) (hstm : stm ≤ 1) (ha : a < 64) (hb : b < 64) (hc : c < 64) :
    kpkNormalize (1 - s) (1 - stm) (flipV a) (flipV b) (flipV c) = kpkNormalize s stm a b c := by
  have hT := sqFlipFacts_true
  simp only [sqFlipFacts, List.all_eq_true, List.mem_range, Bool.and_eq_true, decide_eq_true_eq] at hT
  obtain ⟨⟨⟨⟨fa, ca⟩, ia⟩, la⟩, _⟩ := hT a ha
  obtain ⟨⟨⟨⟨fb, cb⟩, ib⟩, lb⟩, _⟩ := hT b hb
  obtain ⟨⟨⟨⟨fc, cc⟩, ic⟩, lc⟩, _⟩ := hT c hc
  obtain ⟨⟨⟨⟨_, _⟩, iha⟩, _⟩, _⟩ := hT (flipH a) la
  obtain ⟨⟨⟨⟨_, _⟩, ihb⟩, _⟩, _⟩ := hT (flipH b) lb
  obtain ⟨⟨⟨⟨_, _⟩, ihc⟩, _⟩, _⟩ := hT (flipH c) lc
  have hs' : s = 0 ∨ s = 1 := by omega
  have hst : 1 - (1 - stm) = stm := by omega
  unfold kpkNormalize
  rw [fb]
  by_cases hf : fileOf b > 3
  · simp only [hf, ↓reduceIte]
    rcases hs' with rfl | rfl
    · simp only [show (1 - 0 : Nat) = 1 from rfl, ↓reduceIte, if_neg (show ¬ (0 : Nat) = 1 by decide)]
      rw [hst, ca, cb, cc, iha, ihb, ihc]
    · simp only [show (1 - 1 : Nat) = 0 from rfl, ↓reduceIte, if_neg (show ¬ (0 : Nat) = 1 by decide)]
      rw [ca, cb, cc]
  · simp only [hf, ↓reduceIte]
    rcases hs' with rfl | rfl
    · simp only [show (1 - 0 : Nat) = 1 from rfl, ↓reduceIte, if_neg (show ¬ (0 : Nat) = 1 by decide)]
      rw [hst, ia, ib, ic]
    · simp only [show (1 - 1 : Nat) = 0 from rfl, ↓reduceIte, if_neg (show ¬ (0 : Nat) = 1 by decide)]

def kpkConsts : Bool := decide (mkPcv [1,0,0,0,0,0,0,0,0,0] = 16) && decide (mkPcv [0,0,0,0,0,1,0,0,0,0] = 268435456)
theorem kpkConsts_true : kpkConsts = true := by decide

/-- KPK claims the position for strong side s: exactly one pawn of colour s, and KPK does not claim it for the other side -/
theorem kpk_facts (b : List Nat) (hc : CountsOK b) (s : Nat) (hs : s ≤ 1)
    (h : pcv b = sandbox s [1,0,0,0,0,0,0,0,0,0] [0,0,0,0,0,1,0,0,0,0]) :
    countOf b (mkPiece s PAWN) = 1 ∧ pcv b ≠ sandbox (1 - s) [1,0,0,0,0,0,0,0,0,0] [0,0,0,0,0,1,0,0,0,0] := by
  have hk := kpkConsts_true
  simp only [kpkConsts, Bool.and_eq_true, decide_eq_true_eq] at hk
  obtain ⟨k1, k2⟩ := hk
  have hh := pcv_halves b hc
  obtain ⟨h1, h2, h3, h4, h5, h7, h8, h9, h10, h11⟩ := hc
  have hs' : s = 0 ∨ s = 1 := by omega
  unfold sandbox at h ⊢
  rcases hs' with rfl | rfl
  · simp only [↓reduceIte, show (1 - 0 : Nat) = 1 from rfl, if_neg (show ¬ (1 : Nat) = 0 by decide)] at h ⊢
    rw [k1] at h; rw [k2]
    rw [hh] at h ⊢
    refine ⟨?_, by omega⟩
    show countOf b 1 = 1
    omega
  · simp only [↓reduceIte, show (1 - 1 : Nat) = 0 from rfl, if_neg (show ¬ (1 : Nat) = 0 by decide)] at h ⊢
    rw [k2] at h; rw [k1]
    rw [hh] at h ⊢
    refine ⟨?_, by omega⟩
    show countOf b 7 = 1
    omega

/-- the KPK value of the mirrored position for the other strong side and the other side to move is the KPK value of the position -/
theorem kpk_value_mirror {p q : Position} (m : MirrorPos p q) (s stm : Nat) (hs : s ≤ 1) (hstm : stm ≤ 1)
    (ks kw : Nat) (hks : KingAt p.board s ks) (hkw : KingAt p.board (1 - s) kw) (hone : countOf p.board (mkPiece s PAWN) = 1) :
    egStrongScore .KPK (BBs.of q) q.board (1 - stm) (1 - s) = egStrongScore .KPK (BBs.of p) p.board stm s := by
  have hs1 : 1 - s ≤ 1 := by omega
  have e2 : 1 - (1 - s) = s := by omega
  have hqlen : q.board.length = 64 := by rw [m.hq]; exact mirrorBoard_length _
  have k1 : kingSq q.board (1 - s) = flipV (kingSq p.board s) := by rw [m.hq]; exact (C13_king_mirror p.board m.len m.codes s ks hs hks).2
  have k2 : kingSq q.board s = flipV (kingSq p.board (1 - s)) := by
    have := (C13_king_mirror p.board m.len m.codes (1 - s) kw hs1 hkw).2
    rw [e2, ← m.hq] at this; exact this
  have hk1 : kingSq p.board s < 64 := by rw [kingSq_eq p.board s ks m.len hks]; exact hks.lt
  have hk2 : kingSq p.board (1 - s) < 64 := by rw [kingSq_eq p.board (1 - s) kw m.len hkw]; exact hkw.lt
  have mp := m.ck s PAWN hs (by decide) (by decide)
  have hsingle : (BBs.of p).ck s PAWN ≠ 0 ∧ moreThanOne ((BBs.of p).ck s PAWN) = false := by
    rw [ck_eq p s PAWN hs (by decide)]; exact single_of_count _ _ m.len hone
  obtain ⟨l1, l2⟩ := lsb_mirror_single (MirrorPos.ck_lt _ _ hs (by decide) m.len) (MirrorPos.ck_lt _ _ hs1 (by decide) hqlen) mp hsingle.1 hsingle.2
  unfold egStrongScore
  simp only [e2, k1, k2, l1]
  rw [kpkNormalize_mirror s stm _ _ _ hs hstm hk1 l2 hk2]

theorem cands_kpk : egOrder.flatMap (fun e => [(e, 0), (e, 1)]) =
    (EG.KPK, 0) :: (EG.KPK, 1) :: ([EG.KPsK, .KRKB, .KRKN, .KNNK, .KNNKP, .KQKR, .KNBK, .KRNKR, .KRBKR, .KBPsK, .KBPsKB, .KRKP, .KQKP, .KQKRPs, .KmmKm, .KXK].flatMap (fun e => [(e, 0), (e, 1)])) := rfl

/-- **the KPK class**: when KPK claims the position (for either strong side), `endgame::score` of the mirrored position with the other
    side to move equals that of the position -/
theorem endgameScore_kpk_mirror {p q : Position} (m : MirrorPos p q) (hc : CountsOK p.board) (s stm : Nat) (hs : s ≤ 1) (hstm : stm ≤ 1)
    (ks kw : Nat) (hks : KingAt p.board s ks) (hkw : KingAt p.board (1 - s) kw)
    (happ : egApplies .KPK (BBs.of p) p.board s = true) :
    endgameScore (BBs.of q) q.board (1 - stm) = endgameScore (BBs.of p) p.board stm := by
  have hs1 : 1 - s ≤ 1 := by omega
  have e2 : 1 - (1 - s) = s := by omega
  have happ' : pcv p.board = sandbox s [1,0,0,0,0,0,0,0,0,0] [0,0,0,0,0,1,0,0,0,0] := by simpa [egApplies] using happ
  obtain ⟨hone, hexcl⟩ := kpk_facts p.board hc s hs happ'
  have hnot : egApplies .KPK (BBs.of p) p.board (1 - s) = false := by simpa [egApplies] using hexcl
  have hq1 : egApplies .KPK (BBs.of q) q.board (1 - s) = true := by rw [egApplies_mirror m hc .KPK s hs]; exact happ
  have hq0 : egApplies .KPK (BBs.of q) q.board s = false := by
    have := egApplies_mirror m hc .KPK (1 - s) hs1
    rw [e2] at this; rw [this]; exact hnot
  have hv := kpk_value_mirror m s stm hs hstm ks kw hks hkw hone
  have hs' : s = 0 ∨ s = 1 := by omega
  have hst' : stm = 0 ∨ stm = 1 := by omega
  unfold endgameScore
  simp only []
  rw [cands_kpk]
  rcases hs' with rfl | rfl
  · simp only [show (1 - 0 : Nat) = 1 from rfl] at hnot hq1 hq0 hv
    simp only [List.find?_cons, happ, hq0, hq1]
    rw [hv]
    rcases hst' with rfl | rfl <;> simp
  · simp only [show (1 - 1 : Nat) = 0 from rfl] at hnot hq1 hq0 hv
    simp only [List.find?_cons, happ, hnot, hq0, hq1]
    rw [hv]
    rcases hst' with rfl | rfl <;> simp

end Chess
