/-
  Lemmas/GivesCheckCastleSpec.lean — `move_gives_check` against the rules for castling.
-/
import ChessVerif.Lemmas.GivesCheckCastleCore
import ChessVerif.Lemmas.CastleGeoWK
import ChessVerif.Lemmas.CastleGeoWQ
import ChessVerif.Lemmas.CastleGeoBK
import ChessVerif.Lemmas.CastleGeoBQ
namespace Chess

/-- the engine's computation for a castling move, with the two kings' squares named -/
theorem moveGivesCheck_castle (p : Position) (m kq oldK : Nat) (hm0 : moveCastling m ≠ 0) (hl : p.board.length = 64)
    (hown : KingAt p.board p.side oldK) (hking : KingAt p.board (1 - p.side) kq) :
    moveGivesCheck p m =
      decide ((rookAttack (mkSquare (if p.side = 0 then 0 else 7) (if moveCastling m &&& KING_CASTLING ≠ 0 then 5 else 3))
        ((BBs.of p).all ^^^ sqBB oldK ^^^ sqBB (mkSquare (if p.side = 0 then 0 else 7) (if moveCastling m &&& KING_CASTLING ≠ 0 then 7 else 0)) ^^^
          sqBB (mkSquare (if p.side = 0 then 0 else 7) (if moveCastling m &&& KING_CASTLING ≠ 0 then 6 else 2)) ^^^
          sqBB (mkSquare (if p.side = 0 then 0 else 7) (if moveCastling m &&& KING_CASTLING ≠ 0 then 5 else 3))) &&& sqBB kq) ≠ 0) := by
  unfold moveGivesCheck
  simp only []
  rw [if_pos hm0, kingSq_eq _ _ _ hl hown, kingSq_eq _ _ _ hl hking]

theorem gives_check_castle_generic (p : Position) (m : Spec.SMove) (oldK myK myR oldR kq : Nat)
    (hgeo : castleGeoB oldK myK myR oldR = true)
    (l1 : oldK < 64) (l2 : myK < 64) (l3 : myR < 64) (l4 : oldR < 64)
    (d1 : oldK ≠ myK) (d2 : oldK ≠ myR) (d3 : oldK ≠ oldR) (d4 : myK ≠ myR) (d5 : myK ≠ oldR) (d6 : myR ≠ oldR)
    (hside : p.side ≤ 1) (hbo : BoardOK p.board)
    (hK : p.board.getD oldK 0 = mkPiece p.side KING) (hR : p.board.getD oldR 0 = mkPiece p.side ROOK)
    (he1 : p.board.getD myK 0 = 0) (he2 : p.board.getD myR 0 = 0)
    (hking : KingAt p.board (1 - p.side) kq) (hown : KingAt p.board p.side oldK)
    (hsafe : Spec.attacked p.board kq p.side = false)
    (hboard : (Spec.apply (absPos p) m).board = afterBoard (afterBoard p.board oldK myK (mkPiece p.side KING)) oldR myR (mkPiece p.side ROOK))
    (hleg : Spec.inCheck (Spec.apply (absPos p) m).board p.side = false)
    (hmodel : moveGivesCheck p (codeOf (absPos p) m) =
      decide ((rookAttack myR ((BBs.of p).all ^^^ sqBB oldK ^^^ sqBB oldR ^^^ sqBB myK ^^^ sqBB myR) &&& sqBB kq) ≠ 0)) :
    moveGivesCheck p (codeOf (absPos p) m) = Spec.inCheck (Spec.apply (absPos p) m).board (1 - p.side) := by
  have hopp : 1 - (1 - p.side) = p.side := by omega
  have hl := hbo.len
  have hkq := hking.lt
  have hsafeBB : attackedBB p kq (1 - p.side) = false := by
    have h := attacked_eq p kq (1 - p.side) (by omega) hking.lt hbo
    rw [hopp, hsafe] at h
    simp only [Bool.or_eq_false_iff] at h
    exact h.1
  rw [hmodel, gives_check_castle_core p oldK myK myR oldR kq hside hbo hgeo l1 l2 l3 l4 d1 d2 d3 d4 d5 d6 hK hR he1 he2 hking hsafeBB]
  have hkK : kq ≠ myK := by
    intro e; have := hking.here; rw [e, he1] at this; exact mkPiece_ne_zero _ _ (by decide) this.symm
  have hkR : kq ≠ myR := by
    intro e; have := hking.here; rw [e, he2] at this; exact mkPiece_ne_zero _ _ (by decide) this.symm
  have hkO : kq ≠ oldK := by
    intro e; have := hking.here; rw [e, hK] at this
    have := (mkPiece_inj p.side KING (1 - p.side) KING hside (by omega) (by decide) (by decide) this).1
    omega
  have hkOR : kq ≠ oldR := by
    intro e; have := hking.here; rw [e, hR] at this
    have := (mkPiece_inj p.side ROOK (1 - p.side) KING hside (by omega) (by decide) (by decide) this).2
    cases this
  have hpcK : mkPiece p.side KING ≤ 12 := by unfold mkPiece KING; rw [if_neg (by omega)]; omega
  have hpcR : mkPiece p.side ROOK ≤ 12 := by unfold mkPiece ROOK; rw [if_neg (by omega)]; omega
  have hl1 : (afterBoard p.board oldK myK (mkPiece p.side KING)).length = 64 := by unfold afterBoard; simp [hl]
  have nKK : mkPiece p.side KING ≠ mkPiece (1 - p.side) KING := by
    intro h
    have := (mkPiece_inj p.side KING (1 - p.side) KING hside (by omega) (by decide) (by decide) h).1
    omega
  have nRK : mkPiece p.side ROOK ≠ mkPiece (1 - p.side) KING := by
    intro h
    have := (mkPiece_inj p.side ROOK (1 - p.side) KING hside (by omega) (by decide) (by decide) h).2
    cases this
  have nRK' : mkPiece p.side ROOK ≠ mkPiece p.side KING := by
    intro h
    have := (mkPiece_inj p.side ROOK p.side KING hside hside (by decide) (by decide) h).2
    cases this
  -- both kings after the move
  have hq1 := kingAt_after p.board oldK myK (mkPiece p.side KING) (1 - p.side) kq hl l1 l2 hking hkO hkK nKK
  have hq2 := kingAt_after _ oldR myR (mkPiece p.side ROOK) (1 - p.side) kq hl1 l4 l3 hq1 hkOR hkR nRK
  have ho1 := kingAt_moved p.board oldK myK p.side hl l1 l2 hown
  have ho2 := kingAt_after _ oldR myR (mkPiece p.side ROOK) p.side myK hl1 l4 l3 ho1 d5 d4 nRK'
  -- legality: the mover's king is not attacked on its arrival square, in particular not by the other king
  rw [hboard] at hleg
  unfold Spec.inCheck at hleg
  rw [findKing_eq _ _ _ ho2, attacked_parts] at hleg
  simp only [Bool.or_eq_false_iff] at hleg
  have hnear : kingNear (afterBoard (afterBoard p.board oldK myK (mkPiece p.side KING)) oldR myR (mkPiece p.side ROOK)) myK (1 - p.side) = false := hleg.1.1.2
  rw [kingNear_iff_mask _ myK (1 - p.side) kq l2 hq2] at hnear
  have hnear' : kingNear (afterBoard (afterBoard p.board oldK myK (mkPiece p.side KING)) oldR myR (mkPiece p.side ROOK)) kq p.side = false := by
    rw [kingNear_iff_mask _ kq p.side myK hkq ho2, ← (leaper_sym kq myK hkq l2).2.1]
    exact hnear
  have okAfter : BoardOK (afterPos (afterPos p oldK myK (mkPiece p.side KING)) oldR myR (mkPiece p.side ROOK)).board :=
    afterOK _ _ _ _ (afterOK p.board _ _ _ hbo l1 l2 hpcK) l4 l3 hpcR
  unfold Spec.inCheck
  rw [hboard, findKing_eq _ _ kq hq2, hopp]
  have h := attacked_eq (afterPos (afterPos p oldK myK (mkPiece p.side KING)) oldR myR (mkPiece p.side ROOK)) kq (1 - p.side) (by omega) hkq okAfter
  rw [hopp] at h
  have hb2 : (afterPos (afterPos p oldK myK (mkPiece p.side KING)) oldR myR (mkPiece p.side ROOK)).board =
      afterBoard (afterBoard p.board oldK myK (mkPiece p.side KING)) oldR myR (mkPiece p.side ROOK) := rfl
  rw [hb2, hnear', Bool.or_false] at h
  exact h

end Chess

namespace Chess

theorem moveCastling_K : moveCastling (mkCastling KING_CASTLING) = KING_CASTLING := by decide
theorem moveCastling_Q : moveCastling (mkCastling QUEEN_CASTLING) = QUEEN_CASTLING := by decide

theorem gives_check_castle_spec (p : Position) (hwf : Spec.wf (absPos p) = true) (m : Spec.SMove)
    (hm : m ∈ Spec.legalMoves (absPos p)) (hc : Spec.isCastle p.board m = true) :
    moveGivesCheck p (codeOf (absPos p) m) = Spec.inCheck (Spec.apply (absPos p) m).board (1 - p.side) := by
  have ok := stepOK_of_legal _ hwf m hm
  obtain ⟨hbo, hs, hk, _, _⟩ := wf_board_hyps _ hwf
  have hside : p.side ≤ 1 := hs
  have hbo' : BoardOK p.board := hbo
  obtain ⟨kq, hkq, _⟩ := hk (1 - p.side) (by omega)
  have hking : KingAt p.board (1 - p.side) kq := hkq
  obtain ⟨ks, hks, _⟩ := hk p.side hs
  have hks' : KingAt p.board p.side ks := hks
  have hfk : Spec.findKing (absPos p).board (1 - (absPos p).side) = kq := findKing_eq p.board (1 - p.side) kq hkq
  have hsafe : Spec.attacked p.board kq p.side = false := by
    have hw := hwf
    unfold Spec.wf at hw
    simp only [Bool.and_eq_true, Bool.not_eq_true'] at hw
    obtain ⟨⟨⟨⟨_, hnic⟩, _⟩, _⟩, _⟩ := hw
    unfold Spec.inCheck at hnic
    rw [hfk] at hnic
    have e2 : 1 - (1 - (absPos p).side) = p.side := by show 1 - (1 - p.side) = p.side; omega
    rw [e2] at hnic
    exact hnic
  have hleg : Spec.inCheck (Spec.apply (absPos p) m).board p.side = false := by
    unfold Spec.legalMoves at hm
    have := (List.mem_filter.1 hm).2
    simpa using this
  -- the shape of a castling move
  have hc' := hc
  unfold Spec.isCastle at hc'
  simp only [Bool.and_eq_true, Bool.or_eq_true, decide_eq_true_eq] at hc'
  obtain ⟨hkind, hdir⟩ := hc'
  have hkind' : kindOf (gd (absPos p).board m.src) = KING := hkind
  obtain ⟨hsrc, hpromo, hks2, hqs2⟩ := ok.castle ⟨hkind', hdir⟩
  have hsrc' : m.src = if p.side = 0 then 4 else 60 := hsrc
  have hown : p.board.getD m.src 0 = mkPiece p.side KING := by
    have h' : p.board.getD m.src 0 = mkPiece p.side (kindOf (p.board.getD m.src 0)) := ok.own.2
    have hk2 : kindOf (p.board.getD m.src 0) = KING := hkind'
    rw [hk2] at h'; exact h'
  have hksrc : KingAt p.board p.side m.src := by
    have := hks'.only m.src ok.src hown
    rw [this]; exact hks'
  have hnep : Spec.isEpCapture (absPos p) m = false := by
    unfold Spec.isEpCapture
    have : Spec.kindOfPc (Spec.pcAt (absPos p).board m.src) = 6 := hkind
    rw [this]; simp
  have hmkR : Spec.mkPc (absPos p).side 4 = mkPiece p.side ROOK := mkPc_eq' _ 4 (by decide)
  have hgd : gd (absPos p).board m.src = mkPiece p.side KING := hown
  have hcastle : Spec.isCastle (absPos p).board m = true := hc
  have hs01 : p.side = 0 ∨ p.side = 1 := by omega
  have hp0 : ¬ (m.promo ≠ 0) := by simp [hpromo]
  rcases hdir with hd | hd
  · -- king side
    obtain ⟨e1, e2, e3⟩ := hks2 hd
    have e1' : p.board.getD (m.src + 1) 0 = 0 := e1
    have e2' : p.board.getD (m.src + 2) 0 = 0 := e2
    have e3' : p.board.getD (m.src + 3) 0 = mkPiece p.side ROOK := e3
    have hboard : (Spec.apply (absPos p) m).board =
        afterBoard (afterBoard p.board m.src (m.src + 2) (mkPiece p.side KING)) (m.src + 3) (m.src + 1) (mkPiece p.side ROOK) := by
      rw [apply_board]
      simp only []
      rw [hcastle, hnep, if_neg hp0, hgd, hmkR, hd]
      simp only [Bool.false_eq_true, if_false, if_true]
      rfl
    have hcode : codeOf (absPos p) m = mkCastling KING_CASTLING := by
      unfold codeOf; rw [hcastle, if_pos rfl, if_pos hd]
    have hmod := moveGivesCheck_castle p (mkCastling KING_CASTLING) kq m.src (by rw [moveCastling_K]; decide) hbo'.len hksrc hking
    rw [moveCastling_K] at hmod
    rcases hs01 with h0 | h1
    · have es : m.src = 4 := by rw [hsrc', if_pos h0]
      rw [es] at e1' e2' e3' hboard hown hksrc hmod
      refine gives_check_castle_generic p m 4 6 5 7 kq castleGeo_WK (by decide) (by decide) (by decide) (by decide) (by decide) (by decide) (by decide) (by decide)
        (by decide) (by decide) hside hbo' hown e3' e2' e1' hking hksrc hsafe hboard hleg ?_
      rw [hcode, hmod, if_pos h0]; rfl
    · have es : m.src = 60 := by rw [hsrc', if_neg (by omega)]
      rw [es] at e1' e2' e3' hboard hown hksrc hmod
      refine gives_check_castle_generic p m 60 62 61 63 kq castleGeo_BK (by decide) (by decide) (by decide) (by decide) (by decide) (by decide) (by decide) (by decide)
        (by decide) (by decide) hside hbo' hown e3' e2' e1' hking hksrc hsafe hboard hleg ?_
      rw [hcode, hmod, if_neg (by omega)]; rfl
  · -- queen side
    obtain ⟨e1, e2, e3⟩ := hqs2 hd
    have e1' : p.board.getD (m.src - 1) 0 = 0 := e1
    have e2' : p.board.getD (m.src - 2) 0 = 0 := e2
    have e3' : p.board.getD (m.src - 4) 0 = mkPiece p.side ROOK := e3
    have hne : ¬ m.dst = m.src + 2 := by omega
    have hdst : m.dst = m.src - 2 := by omega
    have hboard : (Spec.apply (absPos p) m).board =
        afterBoard (afterBoard p.board m.src (m.src - 2) (mkPiece p.side KING)) (m.src - 4) (m.src - 1) (mkPiece p.side ROOK) := by
      rw [apply_board]
      simp only []
      rw [hcastle, hnep, if_neg hp0, hgd, hmkR, if_neg hne, hdst]
      simp only [Bool.false_eq_true, if_false, if_true]
      rfl
    have hcode : codeOf (absPos p) m = mkCastling QUEEN_CASTLING := by
      unfold codeOf; rw [hcastle, if_pos rfl, if_neg hne]
    have hmod := moveGivesCheck_castle p (mkCastling QUEEN_CASTLING) kq m.src (by rw [moveCastling_Q]; decide) hbo'.len hksrc hking
    rw [moveCastling_Q] at hmod
    rcases hs01 with h0 | h1
    · have es : m.src = 4 := by rw [hsrc', if_pos h0]
      rw [es] at e1' e2' e3' hboard hown hksrc hmod
      refine gives_check_castle_generic p m 4 2 3 0 kq castleGeo_WQ (by decide) (by decide) (by decide) (by decide) (by decide) (by decide) (by decide) (by decide)
        (by decide) (by decide) hside hbo' hown e3' e2' e1' hking hksrc hsafe hboard hleg ?_
      rw [hcode, hmod, if_pos h0]; rfl
    · have es : m.src = 60 := by rw [hsrc', if_neg (by omega)]
      rw [es] at e1' e2' e3' hboard hown hksrc hmod
      refine gives_check_castle_generic p m 60 58 59 56 kq castleGeo_BQ (by decide) (by decide) (by decide) (by decide) (by decide) (by decide) (by decide) (by decide)
        (by decide) (by decide) hside hbo' hown e3' e2' e1' hking hksrc hsafe hboard hleg ?_
      rw [hcode, hmod, if_neg (by omega)]; rfl

end Chess
