/-
  Lemmas/PinnedSlider.lean — where a pinned bishop, rook or queen may go: the squares the generator takes from `attack_in_line` along
  the pin ray are exactly the piece's pseudo-legal moves that stay on the king's ray up to the pinning slider.
-/
import ChessVerif.Lemmas.PinGeo
import ChessVerif.Lemmas.SliderExact
namespace Chess

theorem thru_mem (L : List Nat) (f s : Nat) (h : thru L f s = true) : f ∈ L ∧ s ∈ L := by
  induction L with
  | nil => simp [thru] at h
  | cons x xs ih =>
    unfold thru at h
    by_cases hxs : x = s
    · rw [if_pos hxs] at h; cases h
    · rw [if_neg hxs] at h
      by_cases hxf : x = f
      · rw [if_pos hxf] at h
        simp only [List.contains_eq_mem, decide_eq_true_eq] at h
        exact ⟨by rw [hxf]; exact List.mem_cons_self, List.mem_cons_of_mem _ h⟩
      · rw [if_neg hxf] at h
        obtain ⟨a, b⟩ := ih h
        exact ⟨List.mem_cons_of_mem _ a, List.mem_cons_of_mem _ b⟩

/-- a walk reaches nothing beyond the first occupied square -/
theorem walk_upto_first (xs : List Nat) (occ : BB) (s t : Nat) (rest : List Nat)
    (hfil : xs.filter (fun x => occ.testBit x) = s :: rest) (hw : (Spec.walk xs occ).testBit t = true) : t = s ∨ thru xs t s = true := by
  induction xs with
  | nil => simp at hfil
  | cons y ys ih =>
    unfold Spec.walk at hw
    rw [Nat.testBit_or, sqBB_testBit] at hw
    by_cases hoy : occ.testBit y = true
    · rw [List.filter_cons, if_pos hoy] at hfil
      have hys : y = s := by injection hfil
      rw [if_pos hoy] at hw
      simp at hw
      left; rw [← hw, hys]
    · rw [List.filter_cons, if_neg hoy] at hfil
      rw [if_neg hoy] at hw
      have hs_mem : s ∈ ys := by
        have : s ∈ ys.filter (fun x => occ.testBit x) := by rw [hfil]; exact List.mem_cons_self
        exact (List.mem_filter.1 this).1
      have hos : occ.testBit s = true := by
        have : s ∈ ys.filter (fun x => occ.testBit x) := by rw [hfil]; exact List.mem_cons_self
        simpa using (List.mem_filter.1 this).2
      have hys : y ≠ s := by intro e; rw [e] at hoy; exact hoy hos
      by_cases hyt : y = t
      · right
        unfold thru
        rw [if_neg hys, if_pos hyt]
        simpa using hs_mem
      · have hd : decide (y = t) = false := by simp [hyt]
        rw [hd, Bool.false_or] at hw
        rcases ih hfil hw with e | e
        · exact Or.inl e
        · right
          unfold thru
          rw [if_neg hys, if_neg hyt]
          exact e

/-- forwards from the pinned piece: up to the pinning slider -/
theorem after_on_seg (L : List Nat) (occ : BB) (a s t : Nat) (rest : List Nat) (hnd : L.Nodup)
    (hfil : L.filter (fun x => occ.testBit x) = a :: s :: rest) (hw : (Spec.walk (afterOf L a) occ).testBit t = true) :
    t = s ∨ thru L t s = true := by
  induction L with
  | nil => simp at hfil
  | cons x xs ih =>
    have hnd' : List.Pairwise (· ≠ ·) (x :: xs) := hnd
    rw [List.pairwise_cons] at hnd'
    by_cases hox : occ.testBit x = true
    · rw [List.filter_cons, if_pos hox] at hfil
      have hxa : x = a := by injection hfil
      have hfil' : xs.filter (fun y => occ.testBit y) = s :: rest := by injection hfil
      unfold afterOf at hw
      rw [if_pos hxa] at hw
      have ht_mem := walk_mem xs occ t hw
      have hs_mem : s ∈ xs := by
        have : s ∈ xs.filter (fun y => occ.testBit y) := by rw [hfil']; exact List.mem_cons_self
        exact (List.mem_filter.1 this).1
      rcases walk_upto_first xs occ s t rest hfil' hw with e | e
      · exact Or.inl e
      · right
        unfold thru
        rw [if_neg (fun e' => hnd'.1 s hs_mem e'), if_neg (fun e' => hnd'.1 t ht_mem e')]
        exact e
    · rw [List.filter_cons, if_neg hox] at hfil
      have hoa : occ.testBit a = true := by
        have : a ∈ xs.filter (fun y => occ.testBit y) := by rw [hfil]; exact List.mem_cons_self
        simpa using (List.mem_filter.1 this).2
      have hos : occ.testBit s = true := by
        have : s ∈ xs.filter (fun y => occ.testBit y) := by rw [hfil]; simp
        simpa using (List.mem_filter.1 this).2
      have hs_mem : s ∈ xs := by
        have : s ∈ xs.filter (fun y => occ.testBit y) := by rw [hfil]; simp
        exact (List.mem_filter.1 this).1
      have hxa : x ≠ a := by intro e; rw [e] at hox; exact hox hoa
      have hxs : x ≠ s := by intro e; rw [e] at hox; exact hox hos
      unfold afterOf at hw
      rw [if_neg hxa] at hw
      rcases ih hnd'.2 hfil hw with e | e
      · exact Or.inl e
      · right
        unfold thru
        rw [if_neg hxs]
        by_cases hxt : x = t
        · rw [if_pos hxt]; simpa using hs_mem
        · rw [if_neg hxt]; exact e

/-- the squares before the pinned piece on the king's ray are empty and lie before the pinning slider -/
theorem before_facts (L : List Nat) (occ : BB) (a s : Nat) (rest : List Nat) (hnd : L.Nodup)
    (hfil : L.filter (fun x => occ.testBit x) = a :: s :: rest) (t : Nat) (ht : t ∈ beforeOf L a) :
    occ.testBit t = false ∧ thru L t s = true := by
  induction L with
  | nil => simp [beforeOf] at ht
  | cons x xs ih =>
    have hnd' : List.Pairwise (· ≠ ·) (x :: xs) := hnd
    rw [List.pairwise_cons] at hnd'
    unfold beforeOf at ht
    by_cases hxa : x = a
    · rw [if_pos hxa] at ht; simp at ht
    · rw [if_neg hxa] at ht
      have hox : ¬ occ.testBit x = true := by
        intro h
        rw [List.filter_cons, if_pos h] at hfil
        exact hxa (by injection hfil)
      rw [List.filter_cons, if_neg hox] at hfil
      have hos : occ.testBit s = true := by
        have : s ∈ xs.filter (fun y => occ.testBit y) := by rw [hfil]; simp
        simpa using (List.mem_filter.1 this).2
      have hs_mem : s ∈ xs := by
        have : s ∈ xs.filter (fun y => occ.testBit y) := by rw [hfil]; simp
        exact (List.mem_filter.1 this).1
      have hxs : x ≠ s := by intro e; rw [e] at hox; exact hox hos
      simp only [List.mem_cons] at ht
      rcases ht with rfl | ht
      · refine ⟨by simpa using hox, ?_⟩
        unfold thru
        rw [if_neg hxs, if_pos rfl]; simpa using hs_mem
      · obtain ⟨h1, h2⟩ := ih hnd'.2 hfil ht
        refine ⟨h1, ?_⟩
        unfold thru
        rw [if_neg hxs]
        by_cases hxt : x = t
        · rw [if_pos hxt]; simpa using hs_mem
        · rw [if_neg hxt]; exact h2

theorem walk_cons' (x : Nat) (xs : List Nat) (occ : BB) :
    Spec.walk (x :: xs) occ = sqBB x ||| (if occ.testBit x then 0 else Spec.walk xs occ) := rfl

theorem walk_append_unocc (P Q : List Nat) (occ : BB) (h : ∀ x, x ∈ P → occ.testBit x = false) (t : Nat) :
    (Spec.walk (P ++ Q) occ).testBit t = true ↔ (t ∈ P ∨ (Spec.walk Q occ).testBit t = true) := by
  induction P with
  | nil => simp
  | cons x xs ih =>
    rw [List.cons_append, walk_cons']
    have hx : ¬ occ.testBit x = true := by rw [h x List.mem_cons_self]; simp
    rw [if_neg hx, Nat.testBit_or, sqBB_testBit]
    simp only [Bool.or_eq_true, decide_eq_true_eq, List.mem_cons]
    rw [ih (fun y hy => h y (List.mem_cons_of_mem _ hy))]
    constructor
    · rintro (e | e | e)
      · exact Or.inl (Or.inl e.symm)
      · exact Or.inl (Or.inr e)
      · exact Or.inr e
    · rintro ((e | e) | e)
      · exact Or.inl e.symm
      · exact Or.inr (Or.inl e)
      · exact Or.inr (Or.inr e)

end Chess

namespace Chess

theorem oppositeRay_lt (r : Nat) : oppositeRay r < 8 := by unfold oppositeRay; omega

/-- the generator's squares for a pinned slider: the rules' slides from the piece along the pin ray, both ways -/
theorem pinned_line_targets (p : Position) (ok : BoardOK p.board) (hs : p.side ≤ 1) (a r t : Nat) (ha : a < 64) (hr : r < 8) (ht : t < 64) :
    (attackInLine a r (BBs.of p).all &&& (bnot (BBs.of p).all ||| (BBs.of p).color (1 - p.side))).testBit t = true ↔
      (t ∈ Spec.slide p.board p.side (rayDirI r) 7 (Spec.fileI a) (Spec.rankI a) ∨
       t ∈ Spec.slide p.board p.side (rayDirI (oppositeRay r)) 7 (Spec.fileI a) (Spec.rankI a)) := by
  have hw : ∀ r', (t ∈ Spec.slide p.board p.side (rayDirI r') 7 (Spec.fileI a) (Spec.rankI a) ↔
      ((Spec.walk (rayList a r') (BBs.of p).all).testBit t = true ∧ Spec.isOwn (Spec.pcAt p.board t) p.side = false)) := by
    intro r'
    exact slide_walk p.board (BBs.of p).all p.side (rayDirI r') 7 _ _ t (occ_board p ok)
  unfold attackInLine
  rw [Nat.testBit_and, Nat.or_comm (bnot _), target_testBit p ok hs t ht, attackInRay_walk a r ha hr, attackInRay_walk a _ ha (oppositeRay_lt r),
    Nat.testBit_or, hw r, hw (oppositeRay r)]
  simp only [Bool.and_eq_true, Bool.or_eq_true, Bool.not_eq_true']
  constructor
  · rintro ⟨h | h, h2⟩
    · exact Or.inl ⟨h, h2⟩
    · exact Or.inr ⟨h, h2⟩
  · rintro (⟨h, h2⟩ | ⟨h, h2⟩)
    · exact ⟨Or.inl h, h2⟩
    · exact ⟨Or.inr h, h2⟩

/-- sliding along the pin ray (either way) stays between the king and the pinning slider -/
theorem slide_on_seg (p : Position) (ok : BoardOK p.board) (hs : p.side ≤ 1) (k r a s : Nat) (rest : List Nat) (hpin : PinAt p k r a s rest)
    (hking : KingAt p.board p.side k) (t : Nat)
    (h : t ∈ Spec.slide p.board p.side (rayDirI r) 7 (Spec.fileI a) (Spec.rankI a) ∨
         t ∈ Spec.slide p.board p.side (rayDirI (oppositeRay r)) 7 (Spec.fileI a) (Spec.rankI a)) :
    t = s ∨ thru (rayList k r) t s = true := by
  have hk := hking.lt
  have hnd := rayList_nodup k r hk hpin.r8
  have ha_mem : a ∈ rayList k r := by
    have : a ∈ (rayList k r).filter (fun y => (BBs.of p).all.testBit y) := by rw [hpin.fil]; exact List.mem_cons_self
    exact (List.mem_filter.1 this).1
  obtain ⟨g1, g2, _, _, _⟩ := pinGeo k r a hk hpin.r8 ha_mem
  have hw : ∀ r', t ∈ Spec.slide p.board p.side (rayDirI r') 7 (Spec.fileI a) (Spec.rankI a) →
      ((Spec.walk (rayList a r') (BBs.of p).all).testBit t = true ∧ Spec.isOwn (Spec.pcAt p.board t) p.side = false) := by
    intro r' h
    exact (slide_walk p.board (BBs.of p).all p.side (rayDirI r') 7 _ _ t (occ_board p ok)).1 h
  rcases h with h | h
  · obtain ⟨h1, _⟩ := hw r h
    rw [g1] at h1
    exact after_on_seg (rayList k r) (BBs.of p).all a s t rest hnd hpin.fil h1
  · obtain ⟨h1, h2⟩ := hw (oppositeRay r) h
    rw [g2] at h1
    have hun : ∀ x, x ∈ (beforeOf (rayList k r) a).reverse → (BBs.of p).all.testBit x = false := by
      intro x hx
      exact (before_facts (rayList k r) (BBs.of p).all a s rest hnd hpin.fil x (List.mem_reverse.1 hx)).1
    rw [walk_append_unocc _ _ _ hun] at h1
    rcases h1 with h1 | h1
    · exact Or.inr (before_facts (rayList k r) (BBs.of p).all a s rest hnd hpin.fil t (List.mem_reverse.1 h1)).2
    · -- the walk stops on the own king
      exfalso
      have hko : (BBs.of p).all.testBit k = true := by
        rw [all_testBit p k ok]
        simp only [Bool.and_eq_true, decide_eq_true_eq]
        exact ⟨hk, by rw [hking.here]; exact mkPiece_ne_zero _ _ (by decide)⟩
      rw [walk_cons', if_pos hko, Nat.or_zero, sqBB_testBit] at h1
      have : k = t := by simpa using h1
      rw [← this] at h2
      have hown : Spec.isOwn (Spec.pcAt p.board k) p.side = true := by
        show Spec.isOwn (p.board.getD k 0) p.side = true
        rw [hking.here]
        have : p.side = 0 ∨ p.side = 1 := by omega
        rcases this with e | e <;> rw [e] <;> decide
      rw [hown] at h2; cases h2

/-- sliding in any other direction leaves the king's ray -/
theorem slide_off_seg (p : Position) (ok : BoardOK p.board) (k r a s : Nat) (rest : List Nat) (hpin : PinAt p k r a s rest)
    (hking : KingAt p.board p.side k) (r' : Nat) (hr' : r' < 8) (n1 : r' ≠ r) (n2 : r' ≠ oppositeRay r) (t : Nat)
    (h : t ∈ Spec.slide p.board p.side (rayDirI r') 7 (Spec.fileI a) (Spec.rankI a)) :
    t ≠ s ∧ thru (rayList k r) t s = false := by
  have hk := hking.lt
  have ha_mem : a ∈ rayList k r := by
    have : a ∈ (rayList k r).filter (fun y => (BBs.of p).all.testBit y) := by rw [hpin.fil]; exact List.mem_cons_self
    exact (List.mem_filter.1 this).1
  have hs_mem : s ∈ rayList k r := by
    have : s ∈ (rayList k r).filter (fun y => (BBs.of p).all.testBit y) := by rw [hpin.fil]; simp
    exact (List.mem_filter.1 this).1
  obtain ⟨_, _, g3, _, _⟩ := pinGeo k r a hk hpin.r8 ha_mem
  have h1 := ((slide_walk p.board (BBs.of p).all p.side (rayDirI r') 7 _ _ t (occ_board p ok)).1 h).1
  have ht_mem : t ∈ rayList a r' := walk_mem _ _ t h1
  have hnot := g3 r' hr' n1 n2 t ht_mem
  constructor
  · intro e; rw [e] at hnot; exact hnot hs_mem
  · apply Bool.eq_false_iff.2
    intro hth
    exact hnot (thru_mem _ _ _ hth).1

end Chess
