/-
  Lemmas/MirrorOutpostsTab.lean — kernel tables for `get_outposts<side>` (position_bitboards.h) under the colour mirror.  The one place where the evaluator
  scans a bitboard for its first / last bit: on a single file the most advanced pawn of one colour is the flip of the most advanced
  pawn of the other (kernel table over the 8 files × 256 subsets of a file, `forallSubsets`).
-/
import ChessVerif.Lemmas.MirrorPawn
import ChessVerif.Lemmas.Bits
namespace Chess
open Chess.Props

/-- the flipped bitboard, computed -/
def flipBBc (S : BB) : BB := (List.range 64).foldl (fun acc s => if S.testBit (flipV s) then acc ||| sqBB s else acc) 0

def fileScanP (S : BB) : Bool :=
  mirB S (flipBBc S) && decide (flipBBc S < 2 ^ 64) &&
  (S == 0 || (lsb (flipBBc S) == flipV (msb S) && msb (flipBBc S) == flipV (lsb S) && decide (msb S < 64) && decide (lsb S < 64)))

def fileScanOK : Bool := (List.range 8).all fun f => forallSubsets fileScanP (bitsOf (fileBB f)) 0 && mirB (fileBB f) (fileBB f) && decide (fileBB f < two64)
set_option maxRecDepth 100000 in
theorem fileScanOK_true : fileScanOK = true := by decide +kernel

def slbOK : Bool := [0, 1].all fun c => (List.range 64).all fun s => mirB (squaresLeftBehind c s) (squaresLeftBehind (1 - c) (flipV s))
set_option maxRecDepth 100000 in
theorem slbOK_true : slbOK = true := by decide +kernel
def homeOK : Bool := (List.range 8).all fun f => (flipV (mkSquare 0 f) == mkSquare 7 f) && (flipV (mkSquare 7 f) == mkSquare 0 f) && mirB (fileBB f) (fileBB f)
theorem homeOK_true : homeOK = true := by decide +kernel


end Chess
