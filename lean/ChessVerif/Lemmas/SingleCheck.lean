/-
  Lemmas/SingleCheck.lean — one checker: an ordinary move of a piece the pin scan does not name leaves the king safe exactly when it
  captures the checker or (for a sliding checker) lands strictly between the king and the checker.
-/
import ChessVerif.Lemmas.SingleCheckTab
import ChessVerif.Lemmas.DoubleCheck
namespace Chess

theorem knight_not_on_ray (k c r : Nat) (hk : k < 64) (hc : c < 64) (hr : r < 8) (h : (knightMask k).testBit c = true) : c ∉ rayList k r := by
  have ht := leaperRayOK_true
  simp only [leaperRayOK, List.all_eq_true, List.mem_range, Bool.and_eq_true, Bool.or_eq_true, Bool.not_eq_true', List.contains_eq_mem,
    decide_eq_false_iff_not] at ht
  rcases (ht k hk c hc).1 with e | e
  · rw [h] at e; cases e
  · exact e r hr

theorem pawn_first_on_ray (side k c r : Nat) (hs : side ≤ 1) (hk : k < 64) (hc : c < 64) (hr : r < 8)
    (h : (pawnAttacks side (sqBB k)).testBit c = true) (hm : c ∈ rayList k r) (t : Nat) : thru (rayList k r) t c = false := by
  have ht := leaperRayOK_true
  simp only [leaperRayOK, List.all_eq_true, List.mem_range, Bool.and_eq_true, Bool.or_eq_true, Bool.not_eq_true', List.contains_eq_mem,
    decide_eq_false_iff_not, beq_iff_eq] at ht
  have hp : (pawnAttacks 0 (sqBB k)).testBit c = true ∨ (pawnAttacks 1 (sqBB k)).testBit c = true := by
    have : side = 0 ∨ side = 1 := by omega
    rcases this with e | e
    · left; rw [← e]; exact h
    · right; rw [← e]; exact h
  rcases (ht k hk c hc).2 with e | e
  · exfalso
    rcases hp with h1 | h1
    · rw [h1] at e; simp at e
    · rw [h1] at e; simp at e
  · rcases e r hr with e' | e'
    · exact absurd hm e'
    · match hL : rayList k r with
      | [] => rw [hL] at hm; simp at hm
      | x :: xs =>
        rw [hL] at e'
        simp at e'
        unfold thru
        rw [if_pos e']

/-- a pre-move attacker of the king's square is a bit of the checkers bitboard -/
theorem pre_is_checker (p : Position) (k s : Nat) (hk : k < 64) (hks : kingSq p.board p.side = k)
    (h : ((pawnAttacks p.side (sqBB k)).testBit s = true ∧ ((BBs.of p).ck (1 - p.side) PAWN).testBit s = true) ∨
       ((knightMask k).testBit s = true ∧ ((BBs.of p).ck (1 - p.side) KNIGHT).testBit s = true) ∨
       ((bishopAttack k (BBs.of p).all).testBit s = true ∧ ((BBs.of p).ck (1 - p.side) BISHOP ||| (BBs.of p).ck (1 - p.side) QUEEN).testBit s = true) ∨
       ((rookAttack k (BBs.of p).all).testBit s = true ∧ ((BBs.of p).ck (1 - p.side) ROOK ||| (BBs.of p).ck (1 - p.side) QUEEN).testBit s = true)) :
    (checkersBB (BBs.of p) p.board p.side).testBit s = true := by
  unfold checkersBB
  simp only []
  rw [hks, checkers_up]
  simp only [Nat.testBit_or, Nat.testBit_and, Bool.or_eq_true, Bool.and_eq_true]
  rcases h with ⟨a, b⟩ | ⟨a, b⟩ | ⟨a, b⟩ | ⟨a, b⟩
  · exact Or.inl (Or.inl (Or.inl ⟨a, b⟩))
  · exact Or.inl (Or.inl (Or.inr ⟨a, b⟩))
  · rw [Nat.testBit_or] at b; exact Or.inl (Or.inr ⟨a, by simpa using b⟩)
  · rw [Nat.testBit_or] at b; exact Or.inr ⟨a, by simpa using b⟩

/-- SINGLE CHECK, SAFE: capturing the only checker, or interposing on the ray of a sliding checker, with a piece that is not pinned -/
theorem single_check_safe (p : Position) (f t k' k cs : Nat) (hc : p.side ≤ 1) (ok : BoardOK p.board) (hf : f < 64) (ht : t < 64) (hne : f ≠ t)
    (hk' : 1 ≤ k' ∧ k' ≤ 6) (hown : ((BBs.of p).color p.side).testBit f = true)
    (hking : KingAt p.board p.side k) (hfk : f ≠ k)
    (hone : ∀ c, (checkersBB (BBs.of p) p.board p.side).testBit c = true → c = cs)
    (hunp : ∀ pin, pin ∈ genPins (BBs.of p) p.board p.side → pinSquare pin ≠ f)
    (hneut : t = cs ∨ ∃ r, r < 8 ∧ cs ∈ rayList k r ∧ thru (rayList k r) t cs = true ∧
        ((BBs.of p).ck (1 - p.side) PAWN).testBit cs = false ∧ ((BBs.of p).ck (1 - p.side) KNIGHT).testBit cs = false) :
    attackedBB (afterPos p f t (mkPiece p.side k')) k p.side = false := by
  have hks : kingSq p.board p.side = k := kingSq_eq p.board p.side k ok.len hking
  have hkq := hking.lt
  apply safe_core2 p f t k' k hc ok hf ht hne hk' hown hking hfk
  · intro s hst hsf hpre
    have hbit : (checkersBB (BBs.of p) p.board p.side).testBit s = true := by
      apply pre_is_checker p k s hkq hks
      rcases hpre with h | h | ⟨a, _, b⟩ | ⟨a, _, b⟩
      · exact Or.inl h
      · exact Or.inr (Or.inl h)
      · exact Or.inr (Or.inr (Or.inl ⟨a, b⟩))
      · exact Or.inr (Or.inr (Or.inr ⟨a, b⟩))
    have es := hone s hbit
    subst es
    rcases hneut with e | ⟨r, hr, hm, hth, nP, nN⟩
    · exact hst e.symm
    · have htocc : (((BBs.of p).all ^^^ sqBB f) ||| sqBB t).testBit t = true := by
        rw [Nat.testBit_or, sqBB_testBit]; simp
      have hb2 := Props.C11_slider BISHOP k hkq (((BBs.of p).all ^^^ sqBB f) ||| sqBB t)
      have hr2 := Props.C11_slider ROOK k hkq (((BBs.of p).all ^^^ sqBB f) ||| sqBB t)
      simp [sliderAttack, Spec.rayWalk] at hb2
      simp [sliderAttack, Spec.rayWalk, ROOK, BISHOP] at hr2
      have hb2' : bishopAttack k (((BBs.of p).all ^^^ sqBB f) ||| sqBB t) = Spec.walkDirs Spec.bishopDirs k (((BBs.of p).all ^^^ sqBB f) ||| sqBB t) := hb2
      have hr2' : rookAttack k (((BBs.of p).all ^^^ sqBB f) ||| sqBB t) = Spec.walkDirs Spec.rookDirs k (((BBs.of p).all ^^^ sqBB f) ||| sqBB t) := hr2
      -- the checker is seen along its own ray only, and there the new piece is in the way
      have blocked : ∀ d, (∃ r', r' < 8 ∧ rayDirI r' = d) → (Spec.walk (Spec.raySquares k d.1 d.2) (((BBs.of p).all ^^^ sqBB f) ||| sqBB t)).testBit s = true → False := by
        rintro d ⟨r', hr', hrd⟩ hw
        have hL : Spec.raySquares k d.1 d.2 = rayList k r' := by unfold rayList; rw [hrd]
        rw [hL] at hw
        have hm' := walk_mem _ _ s hw
        have er := ray_unique k r r' s hkq hr hr' hm hm'
        subst er
        have := walk_blocked (rayList k r) _ t s htocc hw
        rw [hth] at this; cases this
      rcases hpre with ⟨_, b⟩ | ⟨_, b⟩ | ⟨_, a2, _⟩ | ⟨_, a2, _⟩
      · rw [nP] at b; cases b
      · rw [nN] at b; cases b
      · rw [hb2'] at a2
        unfold Spec.walkDirs at a2
        rw [walkDirs_testBit] at a2
        rcases a2 with h0 | ⟨d, hd, hw⟩
        · simp at h0
        · obtain ⟨r', hr', _, hrd⟩ := dir_ray_bishop d hd
          exact blocked d ⟨r', hr', hrd⟩ hw
      · rw [hr2'] at a2
        unfold Spec.walkDirs at a2
        rw [walkDirs_testBit] at a2
        rcases a2 with h0 | ⟨d, hd, hw⟩
        · simp at h0
        · obtain ⟨r', hr', _, hrd⟩ := dir_ray_rook d hd
          exact blocked d ⟨r', hr', hrd⟩ hw
  · intro r x rest hr hfil hsl _ _
    have hpin := genPinInRay_of_first_two p k r f x rest hks hkq hr hfil hown hsl
    have hmem := mem_genPins_of _ _ _ r _ hr hpin
    exact hunp _ hmem (pin_fields f _ r hf (kindOf_lt8 _) hr).1

end Chess

namespace Chess

/-- SINGLE CHECK, EXPOSED: a move that neither captures the checker nor interposes on a sliding checker's ray leaves the king attacked -/
theorem single_check_exposed (p : Position) (f t k' k cs : Nat) (hc : p.side ≤ 1) (ok : BoardOK p.board) (hf : f < 64) (ht : t < 64) (hne : f ≠ t)
    (hk' : 1 ≤ k' ∧ k' ≤ 6) (hk64 : k < 64) (hown : ((BBs.of p).color p.side).testBit f = true)
    (hcs : Checks p k cs)
    (hnot : t ≠ cs ∧ ∀ r, r < 8 → cs ∈ rayList k r → thru (rayList k r) t cs = true →
        (((BBs.of p).ck (1 - p.side) PAWN).testBit cs = true ∨ ((BBs.of p).ck (1 - p.side) KNIGHT).testBit cs = true)) :
    attackedBB (afterPos p f t (mkPiece p.side k')) k p.side = true := by
  obtain ⟨_, hbf, kf1, _⟩ := own_piece p ok hc f hown
  have hmover0 : p.board.getD f 0 ≠ 0 := by rw [hbf]; exact mkPiece_ne_zero _ _ (by omega)
  obtain ⟨c64, K, k1, k6, hb⟩ := hcs.enemy ok hc
  have hfc : f ≠ cs := by
    intro e
    rw [← e, hbf] at hb
    have := (mkPiece_inj p.side _ (1 - p.side) K hc (by omega) ⟨kf1, by have := kindOf_le (p.board.getD f 0); omega⟩ ⟨k1, k6⟩ hb).1
    omega
  have ho : 1 - p.side ≤ 1 := by omega
  apply checker_remains p f t k' k cs hc ok hf ht hne hk' hk64 hmover0 hfc (fun e => hnot.1 e.symm) hcs
  intro r hr hw
  have hm := walk_mem _ _ cs hw
  apply Bool.eq_false_iff.2
  intro hth
  have hleap := hnot.2 r hr hm hth
  -- the checker on a ray square that t could stand in front of is a slider
  have uniq : ∀ K1 K2, 1 ≤ K1 → K1 ≤ 6 → 1 ≤ K2 → K2 ≤ 6 → ((BBs.of p).ck (1 - p.side) K1).testBit cs = true →
      ((BBs.of p).ck (1 - p.side) K2).testBit cs = true → K1 = K2 := by
    intro K1 K2 a1 a6 b1 b6 h1 h2
    rw [ck_testBit p (1 - p.side) K1 cs ho a6 ok] at h1
    rw [ck_testBit p (1 - p.side) K2 cs ho b6 ok] at h2
    simp only [Bool.and_eq_true, decide_eq_true_eq] at h1 h2
    rw [h1.2] at h2
    exact (mkPiece_inj (1 - p.side) K1 (1 - p.side) K2 ho ho ⟨a1, a6⟩ ⟨b1, b6⟩ h2.2).2
  cases hcs with
  | pawn h1 _ =>
    have := pawn_first_on_ray p.side k cs r hc hk64 c64 hr h1 hm t
    rw [hth] at this; cases this
  | knight h1 _ => exact knight_not_on_ray k cs r hk64 c64 hr h1 hm
  | diag r' _ _ _ h2 =>
    rw [Nat.testBit_or] at h2
    simp only [Bool.or_eq_true] at h2
    rcases hleap with hl | hl <;> rcases h2 with h2 | h2
    · exact absurd (uniq PAWN BISHOP (by decide) (by decide) (by decide) (by decide) hl h2) (by decide)
    · exact absurd (uniq PAWN QUEEN (by decide) (by decide) (by decide) (by decide) hl h2) (by decide)
    · exact absurd (uniq KNIGHT BISHOP (by decide) (by decide) (by decide) (by decide) hl h2) (by decide)
    · exact absurd (uniq KNIGHT QUEEN (by decide) (by decide) (by decide) (by decide) hl h2) (by decide)
  | orth r' _ _ _ h2 =>
    rw [Nat.testBit_or] at h2
    simp only [Bool.or_eq_true] at h2
    rcases hleap with hl | hl <;> rcases h2 with h2 | h2
    · exact absurd (uniq PAWN ROOK (by decide) (by decide) (by decide) (by decide) hl h2) (by decide)
    · exact absurd (uniq PAWN QUEEN (by decide) (by decide) (by decide) (by decide) hl h2) (by decide)
    · exact absurd (uniq KNIGHT ROOK (by decide) (by decide) (by decide) (by decide) hl h2) (by decide)
    · exact absurd (uniq KNIGHT QUEEN (by decide) (by decide) (by decide) (by decide) hl h2) (by decide)

end Chess

namespace Chess

theorem thru_before (L : List Nat) (x a : Nat) (h : thru L x a = true) : x ∈ beforeOf L a := by
  induction L with
  | nil => simp [thru] at h
  | cons y ys ih =>
    unfold thru at h
    unfold beforeOf
    by_cases hya : y = a
    · rw [if_pos hya] at h; cases h
    · rw [if_neg hya] at h ⊢
      by_cases hyx : y = x
      · rw [hyx]; exact List.mem_cons_self
      · rw [if_neg hyx] at h
        exact List.mem_cons_of_mem _ (ih h)

/-- IN CHECK, a pinned piece has no legal ordinary move: off its pin ray it exposes the king to the pinning slider, on the pin ray it
    neither captures nor blocks the checker -/
theorem pinned_in_check_exposed (p : Position) (k r a s : Nat) (rest : List Nat) (t k' cs : Nat) (hc : p.side ≤ 1) (ok : BoardOK p.board)
    (hpin : PinAt p k r a s rest) (ha : a < 64) (ht : t < 64) (hne : a ≠ t) (hk' : 1 ≤ k' ∧ k' ≤ 6)
    (hking : KingAt p.board p.side k) (hcs : Checks p k cs) :
    attackedBB (afterPos p a t (mkPiece p.side k')) k p.side = true := by
  have hk64 := hking.lt
  have hnd := rayList_nodup k r hk64 hpin.r8
  by_cases hon : t = s ∨ thru (rayList k r) t s = true
  · -- on the pin ray: the checker is untouched
    have ha_mem : a ∈ rayList k r := by
      have : a ∈ (rayList k r).filter (fun y => (BBs.of p).all.testBit y) := by rw [hpin.fil]; exact List.mem_cons_self
      exact (List.mem_filter.1 this).1
    have hs_mem : s ∈ rayList k r := by
      have : s ∈ (rayList k r).filter (fun y => (BBs.of p).all.testBit y) := by rw [hpin.fil]; simp
      exact (List.mem_filter.1 this).1
    have ht_mem : t ∈ rayList k r := by
      rcases hon with e | e
      · rw [e]; exact hs_mem
      · exact (thru_mem _ _ _ e).1
    obtain ⟨c64, K, k1, k6, hb⟩ := hcs.enemy ok hc
    obtain ⟨_, hbf, kf1, _⟩ := own_piece p ok hc a hpin.own
    have hoa : (BBs.of p).all.testBit a = true := by
      rw [all_testBit p a ok]; simp only [Bool.and_eq_true, decide_eq_true_eq]
      exact ⟨ha, by rw [hbf]; exact mkPiece_ne_zero _ _ (by omega)⟩
    have hoc : (BBs.of p).all.testBit cs = true := by
      rw [all_testBit p cs ok]; simp only [Bool.and_eq_true, decide_eq_true_eq]
      exact ⟨c64, by rw [hb]; exact mkPiece_ne_zero _ _ (by omega)⟩
    have hac : a ≠ cs := by
      intro e
      rw [← e, hbf] at hb
      have := (mkPiece_inj p.side _ (1 - p.side) K hc (by omega) ⟨kf1, by have := kindOf_le (p.board.getD a 0); omega⟩ ⟨k1, k6⟩ hb).1
      omega
    -- the checker is not on the king's pin ray at all: it would be the first occupied square of it, which is the pinned piece
    have notOnRay : cs ∈ rayList k r → (Spec.walk (rayList k r) (BBs.of p).all).testBit cs = true → False := by
      intro hm hw
      rcases thru_total (rayList k r) a cs ha_mem hm hac with h | h
      · have := walk_blocked (rayList k r) (BBs.of p).all a cs hoa hw
        rw [h] at this; cases this
      · have := (before_facts (rayList k r) (BBs.of p).all a s rest hnd hpin.fil cs (thru_before _ _ _ h)).1
        rw [hoc] at this; cases this
    have reach_cs : ∀ r', r' < 8 → (Spec.walk (rayList k r') (BBs.of p).all).testBit cs = true → r' ≠ r := by
      intro r' _ hw e
      subst e
      exact notOnRay (walk_mem _ _ cs hw) hw
    have hmover0 : p.board.getD a 0 ≠ 0 := by rw [hbf]; exact mkPiece_ne_zero _ _ (by omega)
    -- t is on the pin ray, the checker is not: the move does not capture it
    have hct : cs ≠ t := by
      intro e
      subst e
      -- a checking slider standing on the pin ray would be reached along it; a checking leaper is not a slider square / not on a ray
      rcases hon with e | e
      · -- cs = s, the pinning slider, which does not see the king
        have hsl := hpin.slider
        have ho : 1 - p.side ≤ 1 := by omega
        have uniq : ∀ K1 K2, 1 ≤ K1 → K1 ≤ 6 → 1 ≤ K2 → K2 ≤ 6 → ((BBs.of p).ck (1 - p.side) K1).testBit cs = true →
            ((BBs.of p).ck (1 - p.side) K2).testBit cs = true → K1 = K2 := by
          intro K1 K2 a1 a6 b1 b6 h1 h2
          rw [ck_testBit p (1 - p.side) K1 cs ho a6 ok] at h1
          rw [ck_testBit p (1 - p.side) K2 cs ho b6 ok] at h2
          simp only [Bool.and_eq_true, decide_eq_true_eq] at h1 h2
          rw [h1.2] at h2
          exact (mkPiece_inj (1 - p.side) K1 (1 - p.side) K2 ho ho ⟨a1, a6⟩ ⟨b1, b6⟩ h2.2).2
        rw [← e] at hsl
        have slK : ((BBs.of p).ck (1 - p.side) QUEEN).testBit cs = true ∨ ((BBs.of p).ck (1 - p.side) ROOK).testBit cs = true ∨
            ((BBs.of p).ck (1 - p.side) BISHOP).testBit cs = true := by
          rw [Nat.testBit_or] at hsl
          simp only [Bool.or_eq_true] at hsl
          rcases hsl with h | h
          · exact Or.inl h
          · split at h
            · exact Or.inr (Or.inl h)
            · exact Or.inr (Or.inr h)
        cases hcs with
        | pawn _ h2 =>
          rcases slK with h | h | h
          · exact absurd (uniq PAWN QUEEN (by decide) (by decide) (by decide) (by decide) h2 h) (by decide)
          · exact absurd (uniq PAWN ROOK (by decide) (by decide) (by decide) (by decide) h2 h) (by decide)
          · exact absurd (uniq PAWN BISHOP (by decide) (by decide) (by decide) (by decide) h2 h) (by decide)
        | knight _ h2 =>
          rcases slK with h | h | h
          · exact absurd (uniq KNIGHT QUEEN (by decide) (by decide) (by decide) (by decide) h2 h) (by decide)
          · exact absurd (uniq KNIGHT ROOK (by decide) (by decide) (by decide) (by decide) h2 h) (by decide)
          · exact absurd (uniq KNIGHT BISHOP (by decide) (by decide) (by decide) (by decide) h2 h) (by decide)
        | diag r' hr' _ hw _ =>
          have hm' := walk_mem _ _ cs hw
          have := ray_unique k r r' cs hk64 hpin.r8 hr' ht_mem hm'
          exact reach_cs r' hr' hw this.symm
        | orth r' hr' _ hw _ =>
          have hm' := walk_mem _ _ cs hw
          have := ray_unique k r r' cs hk64 hpin.r8 hr' ht_mem hm'
          exact reach_cs r' hr' hw this.symm
      · -- cs strictly before the pinning slider on the pin ray: only the pinned piece is occupied there
        have hbefore_s : ∀ x, x ∈ rayList k r → thru (rayList k r) x s = true → (BBs.of p).all.testBit x = true → x = a := by
          intro x _ hx hox
          apply Decidable.byContradiction
          intro hxa
          -- x is occupied, before s, not a: then the filter would have a third element before s
          have hxin : x ∈ (rayList k r).filter (fun y => (BBs.of p).all.testBit y) := List.mem_filter.2 ⟨(thru_mem _ _ _ hx).1, by simpa using hox⟩
          rw [hpin.fil] at hxin
          simp only [List.mem_cons] at hxin
          rcases hxin with e1 | e1 | e1
          · exact hxa e1
          · rw [e1] at hx
            have : thru (rayList k r) s s = false := by
              have hself : ∀ (L : List Nat) (y : Nat), thru L y y = false := by
                intro L y
                induction L with
                | nil => rfl
                | cons z zs ih => unfold thru; by_cases hz : z = y
                                  · rw [if_pos hz]
                                  · rw [if_neg hz, if_neg hz]; exact ih
              exact hself _ _
            rw [this] at hx; cases hx
          · -- x ∈ rest: it comes after s in the filtered list, hence after s on the ray — but x is before s
            have hfilnd : ((rayList k r).filter (fun y => (BBs.of p).all.testBit y)).Nodup := List.Nodup.sublist List.filter_sublist hnd
            have hsx : thru (rayList k r) s x = true := by
              -- order of a filtered list follows the list: s precedes every element of rest
              have key : ∀ (L : List Nat), L.Nodup → ∀ (pre : List Nat), L.filter (fun y => (BBs.of p).all.testBit y) = pre ++ s :: rest → x ∈ rest → s ∉ pre → thru L s x = true := by
                intro L
                induction L with
                | nil => intro _ pre h _ _; cases pre <;> simp at h
                | cons z zs ih =>
                  intro hndL pre hfil' hxr hspre
                  have hndL' : List.Pairwise (· ≠ ·) (z :: zs) := hndL
                  rw [List.pairwise_cons] at hndL'
                  by_cases hoz : (BBs.of p).all.testBit z = true
                  · rw [List.filter_cons, if_pos hoz] at hfil'
                    cases pre with
                    | nil =>
                      simp only [List.nil_append] at hfil'
                      have hzs : z = s := by injection hfil'
                      have hrest : zs.filter (fun y => (BBs.of p).all.testBit y) = rest := by injection hfil'
                      have hxzs : x ∈ zs := by rw [← hrest] at hxr; exact (List.mem_filter.1 hxr).1
                      unfold thru
                      have hzx : z ≠ x := fun e => hndL'.1 x hxzs e
                      rw [if_neg hzx, if_pos hzs]; simpa using hxzs
                    | cons q qs =>
                      simp only [List.cons_append] at hfil'
                      have hzq : z = q := by injection hfil'
                      have htl : zs.filter (fun y => (BBs.of p).all.testBit y) = qs ++ s :: rest := by injection hfil'
                      have := ih hndL'.2 qs htl hxr (fun h => hspre (List.mem_cons_of_mem _ h))
                      have hxzs : x ∈ zs := (thru_mem _ _ _ this).2
                      have hszs : s ∈ zs := (thru_mem _ _ _ this).1
                      unfold thru
                      rw [if_neg (fun e => hndL'.1 x hxzs e), if_neg (fun e => hndL'.1 s hszs e)]
                      exact this
                  · rw [List.filter_cons, if_neg hoz] at hfil'
                    have := ih hndL'.2 pre hfil' hxr hspre
                    have hxzs : x ∈ zs := (thru_mem _ _ _ this).2
                    have hszs : s ∈ zs := (thru_mem _ _ _ this).1
                    unfold thru
                    rw [if_neg (fun e => hndL'.1 x hxzs e), if_neg (fun e => hndL'.1 s hszs e)]
                    exact this
              have hsa : s ≠ a := by
                intro e'
                rw [hpin.fil, e'] at hfilnd
                have : List.Pairwise (· ≠ ·) (a :: a :: rest) := hfilnd
                rw [List.pairwise_cons] at this
                exact this.1 a List.mem_cons_self rfl
              exact key (rayList k r) hnd [a] (by rw [hpin.fil]; rfl) e1 (by simp; exact hsa)
            -- x before s and s before x on a duplicate-free ray
            have hxs : x ≠ s := by
              intro e'; rw [e'] at hx
              have hself : ∀ (L : List Nat) (y : Nat), thru L y y = false := by
                intro L y
                induction L with
                | nil => rfl
                | cons z zs ih => unfold thru; by_cases hz : z = y
                                  · rw [if_pos hz]
                                  · rw [if_neg hz, if_neg hz]; exact ih
              rw [hself] at hx; cases hx
            have anti : ∀ (L : List Nat), L.Nodup → thru L x s = true → thru L s x = true → False := by
              intro L
              induction L with
              | nil => intro _ h _; simp [thru] at h
              | cons z zs ih =>
                intro hndL h1 h2
                have hndL' : List.Pairwise (· ≠ ·) (z :: zs) := hndL
                rw [List.pairwise_cons] at hndL'
                unfold thru at h1 h2
                by_cases hzs : z = s
                · rw [if_pos hzs] at h1; cases h1
                · rw [if_neg hzs] at h1
                  by_cases hzx : z = x
                  · rw [if_pos hzx] at h2; cases h2
                  · rw [if_neg hzx] at h1 h2
                    rw [if_neg hzs] at h2
                    exact ih hndL'.2 h1 h2
            exact anti (rayList k r) hnd hx hsx
        exact hac (hbefore_s cs ht_mem e hoc).symm
    apply checker_remains p a t k' k cs hc ok ha ht hne hk' hk64 hmover0 hac hct hcs
    intro r' hr' hw
    apply Bool.eq_false_iff.2
    intro hth
    have m1 := (thru_mem _ _ _ hth).1
    have er := ray_unique k r r' t hk64 hpin.r8 hr' ht_mem m1
    exact reach_cs r' hr' hw er.symm
  · -- off the pin ray: the pinning slider sees the king
    simp only [not_or] at hon
    exact pinned_exposed_off_ray p k r a s rest t k' hc ok hpin ha ht hne hk' hking ⟨hon.1, by simpa using hon.2⟩

end Chess
