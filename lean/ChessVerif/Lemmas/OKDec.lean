/-
  Lemmas/OKDec.lean — the standing hypotheses of C03/C04 (`MoveOK`, `UndoOK`, `Ranges`) are decidable, so the
  correspondence run evaluates them on every generated move of every visited position (field `sync=` of the M line).
-/
import ChessVerif.Lemmas.OKDefs
import ChessVerif.Lemmas.Attack
import ChessVerif.Lemmas.Material
import ChessVerif.Model.Movegen
namespace Chess

theorem boardHypb_sound (b : List Nat) (h : boardHypb b = true) : BoardOK b := by
  unfold boardHypb at h
  simp only [Bool.and_eq_true, decide_eq_true_eq, List.all_eq_true] at h
  refine ⟨h.1, ?_⟩
  intro s
  by_cases hs : s < b.length
  · have : b.getD s 0 = b[s] := by simp [List.getD, hs]
    rw [this]; exact h.2 _ (List.getElem_mem hs)
  · have : b.getD s 0 = 0 := by
      rw [List.getD_eq_getElem?_getD, List.getElem?_eq_none (by omega)]; rfl
    rw [this]; omega

theorem kingHypb_sound (b : List Nat) (c : Nat) (h : kingHypb b c = true) :
    KingAt b c (kingSq b c) ∧ kingNear b (kingSq b c) (1 - c) = false := by
  unfold kingHypb at h
  simp only [Bool.and_eq_true, decide_eq_true_eq, List.all_eq_true, List.mem_range, Bool.not_eq_true'] at h
  exact ⟨⟨h.1.1.1, h.1.1.2, fun s hs => h.1.2 s hs⟩, h.2⟩

theorem hypothesesHold_sound (p : Position) (h : hypothesesHold p = true) :
    Ranges p ∧ PlyOK p ∧ (∀ m ∈ genMoves p, UndoOK p m) ∧ BoardOK p.board ∧
    (∀ c, c ≤ 1 → KingAt p.board c (kingSq p.board c) ∧ kingNear p.board (kingSq p.board c) (1 - c) = false) := by
  unfold hypothesesHold at h
  simp only [Bool.and_eq_true, decide_eq_true_eq, List.all_eq_true] at h
  obtain ⟨⟨⟨⟨⟨⟨h1, h2⟩, h3⟩, h4⟩, h5⟩, h6⟩, _⟩ := h
  refine ⟨h1, h2, h3, boardHypb_sound _ h4, ?_⟩
  intro c hc
  have : c = 0 ∨ c = 1 := by omega
  rcases this with rfl | rfl
  · exact kingHypb_sound _ 0 h5
  · exact kingHypb_sound _ 1 h6

/-- wherever the driver printed `sync=ok`, the engine-side material test is the rules' -/
theorem material_eq_of_hypotheses (p : Position) (h : hypothesesHold p = true) :
    enoughMaterial p = !Spec.insufficientMaterial p.board := by
  unfold hypothesesHold at h
  simp only [Bool.and_eq_true] at h
  obtain ⟨⟨⟨⟨_, hb⟩, _⟩, _⟩, hc⟩ := h
  unfold boardHypb at hb
  simp only [Bool.and_eq_true, List.all_eq_true, decide_eq_true_eq] at hb
  unfold countsHypb at hc
  simp only [List.all_cons, List.all_nil, Bool.and_true, Bool.and_eq_true, decide_eq_true_eq] at hc
  obtain ⟨c1, c2, c3, c4, c5, c7, c8, c9, c10, c11⟩ := hc
  unfold enoughMaterial
  rw [material_eq p.board hb.2 ⟨c1, c2, c3, c4, c5, c7, c8, c9, c10, c11⟩]

/-- so wherever the driver printed `sync=ok`, the engine-side check test is the rules' check test -/
theorem check_eq_of_hypotheses (p : Position) (h : hypothesesHold p = true) (side : Nat) (hs : side ≤ 1) :
    isInCheck p side = Spec.inCheck p.board side := by
  obtain ⟨_, _, _, hb, hk⟩ := hypothesesHold_sound p h
  exact isInCheck_eq p side _ hs hb (hk side hs).1 (hk side hs).2

theorem specHypothesesHold_sound (s : Spec.SPos) (h : specHypothesesHold s = true) (hh : s.halfmove < 65535) :
    ∀ m ∈ Spec.legalMoves s, StepOK s m := by
  unfold specHypothesesHold at h
  simp only [Bool.or_eq_true, decide_eq_true_eq, List.all_eq_true, Bool.and_eq_true] at h
  rcases h with h | h
  · omega
  · exact fun m hm => (h m hm).1

end Chess
