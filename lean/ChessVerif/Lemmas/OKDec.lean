/-
  Lemmas/OKDec.lean — the standing hypotheses of C03/C04 (`MoveOK`, `UndoOK`, `Ranges`) are decidable, so the
  correspondence run evaluates them on every generated move of every visited position (field `sync=` of the M line).
-/
import ChessVerif.Lemmas.Ranges
import ChessVerif.Lemmas.Refine
import ChessVerif.Lemmas.Attack
import ChessVerif.Lemmas.Material
import ChessVerif.Model.Movegen
namespace Chess

set_option synthInstance.maxSize 2048 in
set_option synthInstance.maxHeartbeats 200000 in
instance (p : Position) (m : Nat) : Decidable (MoveOK p m) :=
  decidable_of_iff
    (p.board.length = 64 ∧ p.side ≤ 1 ∧
     (moveCastling m ≠ 0 →
        p.board.getD (mkSquare (if p.side = 0 then 0 else 7) 4) 0 ≠ 0 ∧
        (moveCastling m = KING_CASTLING → p.board.getD (mkSquare (if p.side = 0 then 0 else 7) 6) 0 = 0 ∧
           p.board.getD (mkSquare (if p.side = 0 then 0 else 7) 5) 0 = 0 ∧ p.board.getD (mkSquare (if p.side = 0 then 0 else 7) 7) 0 ≠ 0) ∧
        (moveCastling m ≠ KING_CASTLING → p.board.getD (mkSquare (if p.side = 0 then 0 else 7) 2) 0 = 0 ∧
           p.board.getD (mkSquare (if p.side = 0 then 0 else 7) 3) 0 = 0 ∧ p.board.getD (mkSquare (if p.side = 0 then 0 else 7) 0) 0 ≠ 0)) ∧
     (moveCastling m = 0 →
        moveFrom m < 64 ∧ moveTo m < 64 ∧ moveFrom m ≠ moveTo m ∧ p.at (moveFrom m) ≠ 0 ∧
        (movePromo m ≠ 0 → movePromo m ≤ 6) ∧
        ((kindOf (p.at (moveFrom m)) = PAWN ∧ moveTo m = p.ep) →
           p.at (moveTo m) = 0 ∧
           ((if p.side = 0 then moveTo m - 8 else moveTo m + 8) < 64 ∧ (if p.side = 0 then moveTo m - 8 else moveTo m + 8) ≠ moveFrom m ∧
            (if p.side = 0 then moveTo m - 8 else moveTo m + 8) ≠ moveTo m ∧ p.at (if p.side = 0 then moveTo m - 8 else moveTo m + 8) ≠ 0))))
    ⟨fun ⟨a, b, c, d⟩ => ⟨a, b, c, d⟩, fun h => ⟨h.len, h.side, h.castle, h.normal⟩⟩

instance (p : Position) (m : Nat) : Decidable (UndoOK p m) :=
  decidable_of_iff
    (MoveOK p m ∧
     (moveCastling m = 0 →
      (p.at (moveTo m) ≠ 0 → p.at (moveTo m) = mkPiece (1 - p.side) (kindOf (p.at (moveTo m)))) ∧
      (movePromo m ≠ 0 → p.at (moveFrom m) = mkPiece p.side PAWN ∧ moveTo m ≠ p.ep) ∧
      ((kindOf (p.at (moveFrom m)) = PAWN ∧ moveTo m = p.ep) →
          p.at (if p.side = 0 then moveTo m - 8 else moveTo m + 8) = mkPiece (1 - p.side) PAWN ∧ movePromo m = 0)))
    ⟨fun ⟨a, b⟩ => ⟨a, b⟩, fun h => ⟨h.toMoveOK, h.normal2⟩⟩

instance (p : Position) : Decidable (Ranges p) :=
  decidable_of_iff (p.castling < 16 ∧ p.ep < 65 ∧ p.halfmove < 65536 ∧ p.side ≤ 1)
    ⟨fun ⟨a, b, c, d⟩ => ⟨a, b, c, d⟩, fun h => ⟨h.castling, h.ep, h.halfmove, h.side⟩⟩

/-- board shape the bitboard view needs: 64 squares, codes 0..12 -/
def boardHypb (b : List Nat) : Bool := decide (b.length = 64) && b.all (fun x => decide (x ≤ 12))

theorem boardHypb_sound (b : List Nat) (h : boardHypb b = true) : BoardOK b := by
  unfold boardHypb at h
  simp only [Bool.and_eq_true, decide_eq_true_eq, List.all_eq_true] at h
  refine ⟨h.1, ?_⟩
  intro s
  by_cases hs : s < b.length
  · have : b.getD s 0 = b[s] := by simp [List.getD, hs]
    rw [this]; exact h.2 _ (List.getElem_mem hs)
  · have : b.getD s 0 = 0 := by
      rw [List.getD_eq_getElem?_getD, List.getElem?_eq_none (by omega)]; rfl
    rw [this]; omega

/-- no piece kind occurs 16 or more times (the packed count vector has a nibble per kind) -/
def countsHypb (b : List Nat) : Bool :=
  [1, 2, 3, 4, 5, 7, 8, 9, 10, 11].all (fun k => decide (countOf b k < 16))

/-- exactly one king of colour c (on the square the engine's king lookup returns), no enemy king beside it -/
def kingHypb (b : List Nat) (c : Nat) : Bool :=
  decide (kingSq b c < 64) && decide (b.getD (kingSq b c) 0 = mkPiece c KING) &&
  (List.range 64).all (fun s => decide (b.getD s 0 = mkPiece c KING → s = kingSq b c)) &&
  !kingNear b (kingSq b c) (1 - c)

theorem kingHypb_sound (b : List Nat) (c : Nat) (h : kingHypb b c = true) :
    KingAt b c (kingSq b c) ∧ kingNear b (kingSq b c) (1 - c) = false := by
  unfold kingHypb at h
  simp only [Bool.and_eq_true, decide_eq_true_eq, List.all_eq_true, List.mem_range, Bool.not_eq_true'] at h
  exact ⟨⟨h.1.1.1, h.1.1.2, fun s hs => h.1.2 s hs⟩, h.2⟩

/-- evaluated by the driver at every state line: ranges and ply parity hold, EVERY generated move satisfies UndoOK, the
    board has the shape the bitboard lemmas assume and each side has exactly one king with no enemy king beside it -/
def hypothesesHold (p : Position) : Bool :=
  decide (Ranges p) && decide (PlyOK p) && (genMoves p).all (fun m => decide (UndoOK p m)) &&
  boardHypb p.board && kingHypb p.board 0 && kingHypb p.board 1 && countsHypb p.board

theorem hypothesesHold_sound (p : Position) (h : hypothesesHold p = true) :
    Ranges p ∧ PlyOK p ∧ (∀ m ∈ genMoves p, UndoOK p m) ∧ BoardOK p.board ∧
    (∀ c, c ≤ 1 → KingAt p.board c (kingSq p.board c) ∧ kingNear p.board (kingSq p.board c) (1 - c) = false) := by
  unfold hypothesesHold at h
  simp only [Bool.and_eq_true, decide_eq_true_eq, List.all_eq_true] at h
  obtain ⟨⟨⟨⟨⟨⟨h1, h2⟩, h3⟩, h4⟩, h5⟩, h6⟩, _⟩ := h
  refine ⟨h1, h2, h3, boardHypb_sound _ h4, ?_⟩
  intro c hc
  have : c = 0 ∨ c = 1 := by omega
  rcases this with rfl | rfl
  · exact kingHypb_sound _ 0 h5
  · exact kingHypb_sound _ 1 h6

/-- wherever the driver printed `sync=ok`, the engine-side material test is the rules' -/
theorem material_eq_of_hypotheses (p : Position) (h : hypothesesHold p = true) :
    enoughMaterial p = !Spec.insufficientMaterial p.board := by
  unfold hypothesesHold at h
  simp only [Bool.and_eq_true] at h
  obtain ⟨⟨⟨⟨_, hb⟩, _⟩, _⟩, hc⟩ := h
  unfold boardHypb at hb
  simp only [Bool.and_eq_true, List.all_eq_true, decide_eq_true_eq] at hb
  unfold countsHypb at hc
  simp only [List.all_cons, List.all_nil, Bool.and_true, Bool.and_eq_true, decide_eq_true_eq] at hc
  obtain ⟨c1, c2, c3, c4, c5, c7, c8, c9, c10, c11⟩ := hc
  unfold enoughMaterial
  rw [material_eq p.board hb.2 ⟨c1, c2, c3, c4, c5, c7, c8, c9, c10, c11⟩]

/-- so wherever the driver printed `sync=ok`, the engine-side check test is the rules' check test -/
theorem check_eq_of_hypotheses (p : Position) (h : hypothesesHold p = true) (side : Nat) (hs : side ≤ 1) :
    isInCheck p side = Spec.inCheck p.board side := by
  obtain ⟨_, _, _, hb, hk⟩ := hypothesesHold_sound p h
  exact isInCheck_eq p side _ hs hb (hk side hs).1 (hk side hs).2

set_option synthInstance.maxSize 4096 in
set_option synthInstance.maxHeartbeats 400000 in
instance (s : Spec.SPos) (m : Spec.SMove) : Decidable (StepOK s m) :=
  decidable_of_iff
    ((s.board.length = 64 ∧ s.side ≤ 1 ∧ s.castling < 16 ∧ RightsInv s.board s.castling ∧ m.src < 64 ∧ m.dst < 64 ∧ m.src ≠ m.dst) ∧
     (gd s.board m.src ≠ 0 ∧ gd s.board m.src = mkPiece s.side (kindOf (gd s.board m.src))) ∧
     (gd s.board m.dst ≠ 0 → gd s.board m.dst = mkPiece (1 - s.side) (kindOf (gd s.board m.dst))) ∧
     (m.promo < 7 ∧ (m.promo ≠ 0 → kindOf (gd s.board m.src) = PAWN ∧ m.dst ≠ s.ep)) ∧
     (kindOf (gd s.board m.src) = PAWN →
       (s.side = 0 → (m.dst = m.src + 8 ∨ (m.dst = m.src + 16 ∧ m.src / 8 = 1) ∨ ((m.dst = m.src + 7 ∨ m.dst = m.src + 9) ∧ m.dst / 8 = m.src / 8 + 1))) ∧
       (s.side = 1 → (m.dst + 8 = m.src ∨ (m.dst + 16 = m.src ∧ m.src / 8 = 6) ∨ ((m.dst + 7 = m.src ∨ m.dst + 9 = m.src) ∧ m.dst / 8 + 1 = m.src / 8)))) ∧
     ((kindOf (gd s.board m.src) = PAWN ∧ m.dst = s.ep) →
       s.ep ≠ 64 ∧ m.src % 8 ≠ m.dst % 8 ∧ gd s.board m.dst = 0 ∧ m.promo = 0 ∧ 16 ≤ m.dst ∧ m.dst < 48 ∧
       gd s.board (if s.side = 0 then m.dst - 8 else m.dst + 8) = mkPiece (1 - s.side) PAWN ∧
       (if s.side = 0 then m.dst - 8 else m.dst + 8) ≠ m.src) ∧
     ((kindOf (gd s.board m.src) = KING ∧ (m.dst = m.src + 2 ∨ m.dst + 2 = m.src)) →
       m.src = (if s.side = 0 then 4 else 60) ∧ m.promo = 0 ∧
       (m.dst = m.src + 2 → gd s.board (m.src + 1) = 0 ∧ gd s.board (m.src + 2) = 0 ∧ gd s.board (m.src + 3) = mkPiece s.side ROOK) ∧
       (m.dst + 2 = m.src → gd s.board (m.src - 1) = 0 ∧ gd s.board (m.src - 2) = 0 ∧ gd s.board (m.src - 4) = mkPiece s.side ROOK)))
    ⟨fun ⟨⟨a1, a2, a3, a4, a5, a6, a7⟩, b, c, d, e, f, g⟩ => ⟨a1, a2, a3, a4, a5, a6, a7, b, c, d, e, f, g⟩,
     fun h => ⟨⟨h.len, h.side, h.cast, h.rights, h.src, h.dst, h.ne⟩, h.own, h.target, h.promo, h.pawn, h.ep, h.castle⟩⟩

/-- evaluated by the driver at every state line of the RULES side: every legal move has the shape C02's theorem assumes -/
def specHypothesesHold (s : Spec.SPos) : Bool :=
  decide (65534 < s.halfmove) || (Spec.legalMoves s).all (fun m => decide (StepOK s m))

theorem specHypothesesHold_sound (s : Spec.SPos) (h : specHypothesesHold s = true) (hh : s.halfmove < 65535) :
    ∀ m ∈ Spec.legalMoves s, StepOK s m := by
  unfold specHypothesesHold at h
  simp only [Bool.or_eq_true, decide_eq_true_eq, List.all_eq_true] at h
  rcases h with h | h
  · omega
  · exact h

end Chess
