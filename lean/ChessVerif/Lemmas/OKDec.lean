/-
  Lemmas/OKDec.lean — the standing hypotheses of C03/C04 (`MoveOK`, `UndoOK`, `Ranges`) are decidable, so the
  correspondence run evaluates them on every generated move of every visited position (field `sync=` of the M line).
-/
import ChessVerif.Lemmas.Ranges
import ChessVerif.Model.Movegen
namespace Chess

set_option synthInstance.maxSize 2048 in
set_option synthInstance.maxHeartbeats 200000 in
instance (p : Position) (m : Nat) : Decidable (MoveOK p m) :=
  decidable_of_iff
    (p.board.length = 64 ∧ p.side ≤ 1 ∧
     (moveCastling m ≠ 0 →
        p.board.getD (mkSquare (if p.side = 0 then 0 else 7) 4) 0 ≠ 0 ∧
        (moveCastling m = KING_CASTLING → p.board.getD (mkSquare (if p.side = 0 then 0 else 7) 6) 0 = 0 ∧
           p.board.getD (mkSquare (if p.side = 0 then 0 else 7) 5) 0 = 0 ∧ p.board.getD (mkSquare (if p.side = 0 then 0 else 7) 7) 0 ≠ 0) ∧
        (moveCastling m ≠ KING_CASTLING → p.board.getD (mkSquare (if p.side = 0 then 0 else 7) 2) 0 = 0 ∧
           p.board.getD (mkSquare (if p.side = 0 then 0 else 7) 3) 0 = 0 ∧ p.board.getD (mkSquare (if p.side = 0 then 0 else 7) 0) 0 ≠ 0)) ∧
     (moveCastling m = 0 →
        moveFrom m < 64 ∧ moveTo m < 64 ∧ moveFrom m ≠ moveTo m ∧ p.at (moveFrom m) ≠ 0 ∧
        (movePromo m ≠ 0 → movePromo m ≤ 6) ∧
        ((kindOf (p.at (moveFrom m)) = PAWN ∧ moveTo m = p.ep) →
           p.at (moveTo m) = 0 ∧
           ((if p.side = 0 then moveTo m - 8 else moveTo m + 8) < 64 ∧ (if p.side = 0 then moveTo m - 8 else moveTo m + 8) ≠ moveFrom m ∧
            (if p.side = 0 then moveTo m - 8 else moveTo m + 8) ≠ moveTo m ∧ p.at (if p.side = 0 then moveTo m - 8 else moveTo m + 8) ≠ 0))))
    ⟨fun ⟨a, b, c, d⟩ => ⟨a, b, c, d⟩, fun h => ⟨h.len, h.side, h.castle, h.normal⟩⟩

instance (p : Position) (m : Nat) : Decidable (UndoOK p m) :=
  decidable_of_iff
    (MoveOK p m ∧
     (moveCastling m = 0 →
      (p.at (moveTo m) ≠ 0 → p.at (moveTo m) = mkPiece (1 - p.side) (kindOf (p.at (moveTo m)))) ∧
      (movePromo m ≠ 0 → p.at (moveFrom m) = mkPiece p.side PAWN ∧ moveTo m ≠ p.ep) ∧
      ((kindOf (p.at (moveFrom m)) = PAWN ∧ moveTo m = p.ep) →
          p.at (if p.side = 0 then moveTo m - 8 else moveTo m + 8) = mkPiece (1 - p.side) PAWN ∧ movePromo m = 0)))
    ⟨fun ⟨a, b⟩ => ⟨a, b⟩, fun h => ⟨h.toMoveOK, h.normal2⟩⟩

instance (p : Position) : Decidable (Ranges p) :=
  decidable_of_iff (p.castling < 16 ∧ p.ep < 65 ∧ p.halfmove < 256 ∧ p.side ≤ 1)
    ⟨fun ⟨a, b, c, d⟩ => ⟨a, b, c, d⟩, fun h => ⟨h.castling, h.ep, h.halfmove, h.side⟩⟩

/-- evaluated by the driver at every state line: ranges hold and EVERY generated move satisfies UndoOK -/
def hypothesesHold (p : Position) : Bool :=
  decide (Ranges p) && (genMoves p).all (fun m => decide (UndoOK p m))

theorem hypothesesHold_sound (p : Position) (h : hypothesesHold p = true) :
    Ranges p ∧ ∀ m ∈ genMoves p, UndoOK p m := by
  unfold hypothesesHold at h
  simp only [Bool.and_eq_true, decide_eq_true_eq, List.all_eq_true] at h
  exact h

end Chess
