/-
  Lemmas/DoubleCheck.lean — with two checkers no move of another piece helps: whatever ordinary move is made, one of the two checking
  pieces still attacks the king (a move captures or blocks at most one of them).
-/
import ChessVerif.Lemmas.ExactNoCheck
namespace Chess

/-- a ray that reached c still reaches it after f is lifted and t put down, unless t stands before c on the ray -/
theorem walk_keep (L : List Nat) (occ : BB) (f t c : Nat) (hfo : occ.testBit f = true) (hfc : f ≠ c)
    (hw : (Spec.walk L occ).testBit c = true) (hth : thru L t c = false) :
    (Spec.walk L ((occ ^^^ sqBB f) ||| sqBB t)).testBit c = true := by
  induction L with
  | nil => simp [Spec.walk] at hw
  | cons x xs ih =>
    rw [walk_cons'] at hw ⊢
    rw [Nat.testBit_or, sqBB_testBit] at hw ⊢
    by_cases hxc : x = c
    · simp [hxc]
    · have hd : decide (x = c) = false := by simp [hxc]
      rw [hd, Bool.false_or] at hw ⊢
      by_cases hox : occ.testBit x = true
      · rw [if_pos hox] at hw; simp at hw
      · rw [if_neg hox] at hw
        have hc_mem := walk_mem xs occ c hw
        unfold thru at hth
        rw [if_neg hxc] at hth
        have hxt : x ≠ t := by
          intro e
          rw [if_pos e] at hth
          simp only [List.contains_eq_mem, decide_eq_false_iff_not] at hth
          exact hth hc_mem
        rw [if_neg hxt] at hth
        have hxf : x ≠ f := by intro e; rw [e] at hox; exact hox hfo
        have hocc' : ¬ ((occ ^^^ sqBB f) ||| sqBB t).testBit x = true := by
          rw [occ'_testBit]
          have h1 : occ.testBit x = false := by simpa using hox
          have h2 : ¬ f = x := fun e => hxf e.symm
          have h3 : ¬ t = x := fun e => hxt e.symm
          simp [h1, h2, h3]
        rw [if_neg hocc']
        exact ih hw hth

/-- what it means for the piece on c to give check -/
inductive Checks (p : Position) (k c : Nat) : Prop
  | pawn : (pawnAttacks p.side (sqBB k)).testBit c = true → ((BBs.of p).ck (1 - p.side) PAWN).testBit c = true → Checks p k c
  | knight : (knightMask k).testBit c = true → ((BBs.of p).ck (1 - p.side) KNIGHT).testBit c = true → Checks p k c
  | diag (r : Nat) : r < 8 → r % 2 = 0 → (Spec.walk (rayList k r) (BBs.of p).all).testBit c = true →
      ((BBs.of p).ck (1 - p.side) BISHOP ||| (BBs.of p).ck (1 - p.side) QUEEN).testBit c = true → Checks p k c
  | orth (r : Nat) : r < 8 → r % 2 = 1 → (Spec.walk (rayList k r) (BBs.of p).all).testBit c = true →
      ((BBs.of p).ck (1 - p.side) ROOK ||| (BBs.of p).ck (1 - p.side) QUEEN).testBit c = true → Checks p k c

theorem checkers_up (side k : Nat) : (if side = 0 then shift .NW (sqBB k) ||| shift .NE (sqBB k) else shift .SE (sqBB k) ||| shift .SW (sqBB k)) =
    pawnAttacks side (sqBB k) := by
  unfold pawnAttacks
  by_cases h : side = 0
  · rw [if_pos h, if_pos h]
  · rw [if_neg h, if_neg h, Nat.or_comm]

theorem checks_of_bit (p : Position) (k c : Nat) (hk : k < 64) (hks : kingSq p.board p.side = k)
    (h : (checkersBB (BBs.of p) p.board p.side).testBit c = true) : Checks p k c := by
  unfold checkersBB at h
  simp only [] at h
  rw [hks, checkers_up] at h
  have hb := Props.C11_slider BISHOP k hk (BBs.of p).all
  have hr := Props.C11_slider ROOK k hk (BBs.of p).all
  simp [sliderAttack, Spec.rayWalk] at hb
  simp [sliderAttack, Spec.rayWalk, ROOK, BISHOP] at hr
  have hb' : bishopAttack k (BBs.of p).all = Spec.walkDirs Spec.bishopDirs k (BBs.of p).all := hb
  have hr' : rookAttack k (BBs.of p).all = Spec.walkDirs Spec.rookDirs k (BBs.of p).all := hr
  simp only [Nat.testBit_or, Nat.testBit_and, Bool.or_eq_true, Bool.and_eq_true] at h
  rcases h with ((h | h) | h) | h
  · exact Checks.pawn h.1 h.2
  · exact Checks.knight h.1 h.2
  · obtain ⟨h1, h2⟩ := h
    rw [hb'] at h1
    unfold Spec.walkDirs at h1
    rw [walkDirs_testBit] at h1
    rcases h1 with h0 | ⟨d, hd, hw⟩
    · simp at h0
    · obtain ⟨r, hr8, hev, hrd⟩ := dir_ray_bishop d hd
      refine Checks.diag r hr8 hev (by unfold rayList; rw [hrd]; exact hw) ?_
      rw [Nat.testBit_or]; simpa using h2
  · obtain ⟨h1, h2⟩ := h
    rw [hr'] at h1
    unfold Spec.walkDirs at h1
    rw [walkDirs_testBit] at h1
    rcases h1 with h0 | ⟨d, hd, hw⟩
    · simp at h0
    · obtain ⟨r, hr8, hodd, hrd⟩ := dir_ray_rook d hd
      refine Checks.orth r hr8 hodd (by unfold rayList; rw [hrd]; exact hw) ?_
      rw [Nat.testBit_or]; simpa using h2

end Chess

namespace Chess

theorem Checks.enemy {p : Position} {k c : Nat} (h : Checks p k c) (ok : BoardOK p.board) (hs : p.side ≤ 1) :
    c < 64 ∧ ∃ K, 1 ≤ K ∧ K ≤ 6 ∧ p.board.getD c 0 = mkPiece (1 - p.side) K := by
  have ho : 1 - p.side ≤ 1 := by omega
  have key : ∀ K, 1 ≤ K → K ≤ 6 → ((BBs.of p).ck (1 - p.side) K).testBit c = true → c < 64 ∧ ∃ K, 1 ≤ K ∧ K ≤ 6 ∧ p.board.getD c 0 = mkPiece (1 - p.side) K := by
    intro K h1 h6 hb
    rw [ck_testBit p (1 - p.side) K c ho h6 ok] at hb
    simp only [Bool.and_eq_true, decide_eq_true_eq] at hb
    exact ⟨hb.1, K, h1, h6, hb.2⟩
  cases h with
  | pawn _ h2 => exact key PAWN (by decide) (by decide) h2
  | knight _ h2 => exact key KNIGHT (by decide) (by decide) h2
  | diag r _ _ _ h2 =>
    rw [Nat.testBit_or] at h2
    simp only [Bool.or_eq_true] at h2
    rcases h2 with h2 | h2
    · exact key BISHOP (by decide) (by decide) h2
    · exact key QUEEN (by decide) (by decide) h2
  | orth r _ _ _ h2 =>
    rw [Nat.testBit_or] at h2
    simp only [Bool.or_eq_true] at h2
    rcases h2 with h2 | h2
    · exact key ROOK (by decide) (by decide) h2
    · exact key QUEEN (by decide) (by decide) h2

/-- a checking piece that is neither captured nor blocked by the move still gives check afterwards -/
theorem checker_remains (p : Position) (f t k' k c : Nat) (hc : p.side ≤ 1) (ok : BoardOK p.board) (hf : f < 64) (ht : t < 64) (hne : f ≠ t)
    (hk' : 1 ≤ k' ∧ k' ≤ 6) (hk64 : k < 64) (hmover0 : p.board.getD f 0 ≠ 0) (hfc : f ≠ c) (hct : c ≠ t)
    (hchk : Checks p k c) (hnb : ∀ r, r < 8 → (Spec.walk (rayList k r) (BBs.of p).all).testBit c = true → thru (rayList k r) t c = false) :
    attackedBB (afterPos p f t (mkPiece p.side k')) k p.side = true := by
  have ho : 1 - p.side ≤ 1 := by omega
  have hpc : mkPiece p.side k' ≤ 12 := by unfold mkPiece; rw [if_neg (by omega)]; omega
  have hpc0 : mkPiece p.side k' ≠ 0 := mkPiece_ne_zero _ _ (by omega)
  have hall := all_after p f t _ ok hf ht hpc hpc0 hmover0 hne
  have hallf : ((BBs.of p).all).testBit f = true := by
    rw [all_testBit p f ok]; simp only [Bool.and_eq_true, decide_eq_true_eq]; exact ⟨hf, hmover0⟩
  have stay : ∀ K, 1 ≤ K → K ≤ 6 → ((BBs.of p).ck (1 - p.side) K).testBit c = true →
      ((BBs.of (afterPos p f t (mkPiece p.side k'))).ck (1 - p.side) K).testBit c = true := by
    intro K h1 h6 h
    rw [ck_after p f t _ (1 - p.side) K c ok hf ht hpc ho ⟨h1, h6⟩]
    rw [ck_testBit p (1 - p.side) K c ho h6 ok] at h
    simp only [Bool.and_eq_true, decide_eq_true_eq] at h
    rw [if_neg (fun e => hct e.symm), if_neg hfc, h.2]
    simp [h.1]
  have hb2 := Props.C11_slider BISHOP k hk64 (((BBs.of p).all ^^^ sqBB f) ||| sqBB t)
  have hr2 := Props.C11_slider ROOK k hk64 (((BBs.of p).all ^^^ sqBB f) ||| sqBB t)
  simp [sliderAttack, Spec.rayWalk] at hb2
  simp [sliderAttack, Spec.rayWalk, ROOK, BISHOP] at hr2
  have hb2' : bishopAttack k (((BBs.of p).all ^^^ sqBB f) ||| sqBB t) = Spec.walkDirs Spec.bishopDirs k (((BBs.of p).all ^^^ sqBB f) ||| sqBB t) := hb2
  have hr2' : rookAttack k (((BBs.of p).all ^^^ sqBB f) ||| sqBB t) = Spec.walkDirs Spec.rookDirs k (((BBs.of p).all ^^^ sqBB f) ||| sqBB t) := hr2
  unfold attackedBB
  simp only [hall, Bool.or_eq_true, decide_eq_true_eq]
  cases hchk with
  | pawn h1 h2 =>
    left; left; left
    exact and_ne_zero_of_testBit _ _ c h1 (stay PAWN (by decide) (by decide) h2)
  | knight h1 h2 =>
    left; left; right
    exact and_ne_zero_of_testBit _ _ c h1 (stay KNIGHT (by decide) (by decide) h2)
  | diag r hr hev hw h2 =>
    left; right
    have hw' := walk_keep (rayList k r) (BBs.of p).all f t c hallf hfc hw (hnb r hr hw)
    have hx : (bishopAttack k (((BBs.of p).all ^^^ sqBB f) ||| sqBB t)).testBit c = true := by
      rw [hb2']
      unfold Spec.walkDirs
      rw [walkDirs_testBit]
      exact Or.inr ⟨rayDirI r, (ray_dir_mem r hr).1 hev, hw'⟩
    apply and_ne_zero_of_testBit _ _ c hx
    rw [Nat.testBit_or] at h2 ⊢
    simp only [Bool.or_eq_true] at h2 ⊢
    rcases h2 with h | h
    · exact Or.inl (stay BISHOP (by decide) (by decide) h)
    · exact Or.inr (stay QUEEN (by decide) (by decide) h)
  | orth r hr hodd hw h2 =>
    right
    have hw' := walk_keep (rayList k r) (BBs.of p).all f t c hallf hfc hw (hnb r hr hw)
    have hx : (rookAttack k (((BBs.of p).all ^^^ sqBB f) ||| sqBB t)).testBit c = true := by
      rw [hr2']
      unfold Spec.walkDirs
      rw [walkDirs_testBit]
      exact Or.inr ⟨rayDirI r, (ray_dir_mem r hr).2 hodd, hw'⟩
    apply and_ne_zero_of_testBit _ _ c hx
    rw [Nat.testBit_or] at h2 ⊢
    simp only [Bool.or_eq_true] at h2 ⊢
    rcases h2 with h | h
    · exact Or.inl (stay ROOK (by decide) (by decide) h)
    · exact Or.inr (stay QUEEN (by decide) (by decide) h)

end Chess

namespace Chess

theorem thru_total (L : List Nat) (a b : Nat) (ha : a ∈ L) (hb : b ∈ L) (hab : a ≠ b) : thru L a b = true ∨ thru L b a = true := by
  induction L with
  | nil => simp at ha
  | cons x xs ih =>
    simp only [List.mem_cons] at ha hb
    unfold thru
    by_cases hxa : x = a
    · left
      rw [if_neg (by rw [hxa]; exact hab), if_pos hxa]
      rcases hb with e | e
      · exact absurd (by rw [← hxa, e] : a = b) hab
      · simpa using e
    · by_cases hxb : x = b
      · right
        rw [if_neg (by rw [hxb]; exact fun e => hab e.symm), if_pos hxb]
        rcases ha with e | e
        · exact absurd e.symm hxa
        · simpa using e
      · have ha' : a ∈ xs := by rcases ha with e | e; exact absurd e.symm hxa; exact e
        have hb' : b ∈ xs := by rcases hb with e | e; exact absurd e.symm hxb; exact e
        rcases ih ha' hb' with h | h
        · left; rw [if_neg hxb, if_neg hxa]; exact h
        · right; rw [if_neg hxa, if_neg hxb]; exact h

/-- DOUBLE CHECK: after any ordinary move of a piece other than the king, the king is still attacked -/
theorem double_check_exposed (p : Position) (f t k' k c1 c2 : Nat) (hc : p.side ≤ 1) (ok : BoardOK p.board) (hf : f < 64) (ht : t < 64) (hne : f ≠ t)
    (hk' : 1 ≤ k' ∧ k' ≤ 6) (hk64 : k < 64) (hown : ((BBs.of p).color p.side).testBit f = true)
    (h1 : Checks p k c1) (h2 : Checks p k c2) (h12 : c1 ≠ c2) :
    attackedBB (afterPos p f t (mkPiece p.side k')) k p.side = true := by
  obtain ⟨_, hbf, kf1, _⟩ := own_piece p ok hc f hown
  have hmover0 : p.board.getD f 0 ≠ 0 := by rw [hbf]; exact mkPiece_ne_zero _ _ (by omega)
  have occC : ∀ c, Checks p k c → (BBs.of p).all.testBit c = true ∧ f ≠ c := by
    intro c hcx
    obtain ⟨c64, K, k1, k6, hb⟩ := hcx.enemy ok hc
    refine ⟨?_, ?_⟩
    · rw [all_testBit p c ok]; simp only [Bool.and_eq_true, decide_eq_true_eq]
      exact ⟨c64, by rw [hb]; exact mkPiece_ne_zero _ _ (by omega)⟩
    · intro e
      rw [← e, hbf] at hb
      have := (mkPiece_inj p.side _ (1 - p.side) K hc (by omega) ⟨kf1, by have := kindOf_le (p.board.getD f 0); omega⟩ ⟨k1, k6⟩ hb).1
      omega
  obtain ⟨o1, f1⟩ := occC c1 h1
  obtain ⟨o2, f2⟩ := occC c2 h2
  by_cases ht1 : t = c1
  · -- the move captures the first checker: the second one is neither captured nor blocked by it
    apply checker_remains p f t k' k c2 hc ok hf ht hne hk' hk64 hmover0 f2 (by rw [ht1]; exact fun e => h12 e.symm) h2
    intro r _ hw
    rw [ht1]
    exact walk_blocked (rayList k r) (BBs.of p).all c1 c2 o1 hw
  · by_cases hb1 : ∀ r, r < 8 → (Spec.walk (rayList k r) (BBs.of p).all).testBit c1 = true → thru (rayList k r) t c1 = false
    · exact checker_remains p f t k' k c1 hc ok hf ht hne hk' hk64 hmover0 f1 (fun e => ht1 e.symm) h1 hb1
    · -- the move blocks the first checker: then it neither captures nor blocks the second
      have : ∃ r, r < 8 ∧ (Spec.walk (rayList k r) (BBs.of p).all).testBit c1 = true ∧ thru (rayList k r) t c1 = true := by
        apply Classical.byContradiction
        intro hno
        apply hb1
        intro r hr hw
        apply Bool.eq_false_iff.2
        intro hth
        exact hno ⟨r, hr, hw, hth⟩
      obtain ⟨r1, hr1, hw1, hth1⟩ := this
      have ht2 : c2 ≠ t := by
        intro e
        rw [← e] at hth1
        have := walk_blocked (rayList k r1) (BBs.of p).all c2 c1 o2 hw1
        rw [hth1] at this; cases this
      apply checker_remains p f t k' k c2 hc ok hf ht hne hk' hk64 hmover0 f2 ht2 h2
      intro r2 hr2 hw2
      apply Bool.eq_false_iff.2
      intro hth2
      have m1 := (thru_mem _ _ _ hth1).1
      have m2 := (thru_mem _ _ _ hth2).1
      have er := ray_unique k r1 r2 t hk64 hr1 hr2 m1 m2
      subst er
      have mc1 := (thru_mem _ _ _ hth1).2
      have mc2 := (thru_mem _ _ _ hth2).2
      rcases thru_total (rayList k r1) c1 c2 mc1 mc2 h12 with h | h
      · have := walk_blocked (rayList k r1) (BBs.of p).all c1 c2 o1 hw2
        rw [h] at this; cases this
      · have := walk_blocked (rayList k r1) (BBs.of p).all c2 c1 o2 hw1
        rw [h] at this; cases this

end Chess

namespace Chess

theorem two_bits (b : BB) (h : moreThanOne b = true) : ∃ i j, i ≠ j ∧ b.testBit i = true ∧ b.testBit j = true := by
  unfold moreThanOne at h
  simp only [Bool.and_eq_true, bne_iff_ne] at h
  obtain ⟨j, hj⟩ := Nat.exists_testBit_of_ne_zero h.2
  rw [Nat.testBit_and] at hj
  simp only [Bool.and_eq_true] at hj
  apply Classical.byContradiction
  intro hno
  have honly : ∀ i, b.testBit i = true → i = j := by
    intro i hi
    apply Classical.byContradiction
    intro hne
    exact hno ⟨i, j, hne, hi, hj.1⟩
  have hb : b = 2 ^ j := by
    apply Nat.eq_of_testBit_eq
    intro i
    rw [Nat.testBit_two_pow]
    by_cases e : j = i
    · subst e; simp [hj.1]
    · have : b.testBit i = false := by
        apply Bool.eq_false_iff.2
        intro hi; exact e (honly i hi).symm
      simp [this, e]
  have := hj.2
  rw [hb, Nat.testBit_two_pow_sub_one] at this
  simp at this

/-- the rules list no castling move while the side to move is in check -/
theorem no_castle_in_check (s : Spec.SPos) (k : Nat) (hk : Spec.findKing s.board s.side = k)
    (hK : Spec.pcAt s.board ((if s.side = 0 then 0 else 56) + 4) = Spec.mkPc s.side 6 → (if s.side = 0 then 0 else 56) + 4 = k)
    (hin : Spec.inCheck s.board s.side = true) : Spec.castleMoves s = [] := by
  unfold Spec.inCheck at hin
  rw [hk] at hin
  unfold Spec.castleMoves
  simp only []
  by_cases hkok : Spec.pcAt s.board ((if s.side = 0 then 0 else 56) + 4) = Spec.mkPc s.side 6
  · have e := hK hkok
    rw [e, hin]
    simp
  · simp [hkok]

end Chess

namespace Chess

/-- **C01, exact in double check (no en-passant square)**: only king moves are generated, and only king moves are legal -/
theorem exact_doublecheck_noep (p : Position) (hwf : Spec.wf (absPos p) = true)
    (hdbl : checkersBB (BBs.of p) p.board p.side ≠ 0 ∧ moreThanOne (checkersBB (BBs.of p) p.board p.side) = true)
    (hep : p.ep = 64) (code : Nat) :
    code ∈ genMoves p ↔ ∃ m, m ∈ Spec.legalMoves (absPos p) ∧ codeOf (absPos p) m = code := by
  obtain ⟨hbo, hside, hkk, _, _⟩ := wf_board_hyps _ hwf
  have ok : BoardOK p.board := hbo
  have hs : p.side ≤ 1 := hside
  obtain ⟨k, hk, _⟩ := hkk p.side hs
  have hking : KingAt p.board p.side k := hk
  obtain ⟨kq, hkq, _⟩ := hkk (1 - p.side) (by omega)
  have hks : kingSq p.board p.side = k := kingSq_eq p.board p.side k ok.len hking
  have hlist : genMoves p = genKingMoves k (forbiddenSquares (BBs.of p) p.board p.side ||| (BBs.of p).color p.side) := by
    unfold genMoves
    simp only []
    rw [if_pos hdbl, hks]
  rw [hlist]
  obtain ⟨c1, c2, h12, b1, b2⟩ := two_bits _ hdbl.2
  have ch1 := checks_of_bit p k c1 hking.lt hks b1
  have ch2 := checks_of_bit p k c2 hking.lt hks b2
  have hin : Spec.inCheck p.board p.side = true := (in_check_test' p hwf).1 hdbl.1
  constructor
  · exact king_gen_legal p hwf k hking code
  · rintro ⟨m, hm, rfl⟩
    have hps : m ∈ Spec.pseudoMoves (absPos p) := by unfold Spec.legalMoves at hm; exact (List.mem_filter.1 hm).1
    have sok := stepOK_of_pseudo _ hwf m hps
    -- a legal move of another piece would leave the king attacked
    have notOther : kindOf (p.board.getD m.src 0) ≠ KING → Spec.isCastle p.board m = false → False := by
      intro hnk hnc
      have hnep : Spec.isEpCapture (absPos p) m = false := by
        unfold Spec.isEpCapture
        have : (absPos p).ep = 64 := hep
        rw [this]; simp
      obtain ⟨k2, k', hk2, h1, h6, _, hcol, hiff⟩ := ordinary_legal_iff' p hwf m hps hnc hnep hnk
      have ek : k2 = k := kingAt_unique _ _ _ _ hk2 hking
      subst ek
      have hsafe := hiff.1 hm
      have := double_check_exposed p m.src m.dst k' k2 c1 c2 hs ok sok.src sok.dst sok.ne ⟨h1, h6⟩ hking.lt hcol ch1 ch2 h12
      rw [hsafe] at this; cases this
    rcases pseudo_cases (absPos p) m hps with hc | ⟨sq, hsq, _, h | h | h | h | h | h⟩
    · exfalso
      have hfk : Spec.findKing (absPos p).board (absPos p).side = k := findKing_eq p.board p.side k hking
      have := no_castle_in_check (absPos p) k hfk (by
        intro hkp
        have hb : p.board.getD ((if p.side = 0 then 0 else 56) + 4) 0 = mkPiece p.side KING := by
          have : p.board.getD ((if p.side = 0 then 0 else 56) + 4) 0 = Spec.mkPc p.side 6 := hkp
          rw [this, mkPc_eq' _ 6 (by decide)]; rfl
        have hlt : (if p.side = 0 then 0 else 56) + 4 < 64 := by split <;> omega
        exact hking.only _ hlt hb) hin
      rw [this] at hc; simp at hc
    · exfalso
      have hsrc := (mem_pawnMoves (absPos p) sq m h.2).1
      have hkind : kindOf (p.board.getD m.src 0) = 1 := by rw [hsrc]; exact h.1
      apply notOther (by rw [hkind]; decide)
      unfold Spec.isCastle
      have : Spec.kindOfPc (Spec.pcAt p.board m.src) = 1 := hkind
      rw [this]; simp
    · exfalso
      obtain ⟨d, _, _, hmv, _⟩ := mem_stepMoves (absPos p) sq _ m h.2
      have hsrc : m.src = sq := by rw [hmv]
      have hkind : kindOf (p.board.getD m.src 0) = 2 := by rw [hsrc]; exact h.1
      apply notOther (by rw [hkind]; decide)
      unfold Spec.isCastle
      have : Spec.kindOfPc (Spec.pcAt p.board m.src) = 2 := hkind
      rw [this]; simp
    · exfalso
      obtain ⟨d, _, t, _, hmv⟩ := mem_slideMoves (absPos p) sq _ m h.2
      have hsrc : m.src = sq := by rw [hmv]
      have hkind : kindOf (p.board.getD m.src 0) = 3 := by rw [hsrc]; exact h.1
      apply notOther (by rw [hkind]; decide)
      unfold Spec.isCastle
      have : Spec.kindOfPc (Spec.pcAt p.board m.src) = 3 := hkind
      rw [this]; simp
    · exfalso
      obtain ⟨d, _, t, _, hmv⟩ := mem_slideMoves (absPos p) sq _ m h.2
      have hsrc : m.src = sq := by rw [hmv]
      have hkind : kindOf (p.board.getD m.src 0) = 4 := by rw [hsrc]; exact h.1
      apply notOther (by rw [hkind]; decide)
      unfold Spec.isCastle
      have : Spec.kindOfPc (Spec.pcAt p.board m.src) = 4 := hkind
      rw [this]; simp
    · exfalso
      obtain ⟨d, _, t, _, hmv⟩ := mem_slideMoves (absPos p) sq _ m h.2
      have hsrc : m.src = sq := by rw [hmv]
      have hkind : kindOf (p.board.getD m.src 0) = 5 := by rw [hsrc]; exact h.1
      apply notOther (by rw [hkind]; decide)
      unfold Spec.isCastle
      have : Spec.kindOfPc (Spec.pcAt p.board m.src) = 5 := hkind
      rw [this]; simp
    · -- a king step
      obtain ⟨d, hd, hon, hmv, _⟩ := mem_stepMoves (absPos p) sq _ m h.2
      have hkind : kindOf (p.board.getD sq 0) = KING := h.1
      have hownb : p.board.getD m.src 0 = mkPiece p.side (kindOf (p.board.getD m.src 0)) := sok.own.2
      have hsrc : m.src = sq := by rw [hmv]
      have hbK : p.board.getD sq 0 = mkPiece p.side KING := by rw [← hsrc, hownb, hsrc, hkind]
      have hsqk : sq = k := hking.only sq hsq hbK
      subst hsqk
      obtain ⟨v1, v2, v3, v4, v5, v6⟩ := sqOf_val sq hsq d.1 d.2 hon
      have hstep : Spec.sqOf (Spec.fileI sq + d.1) (Spec.rankI sq + d.2) ≠ sq + 2 ∧ Spec.sqOf (Spec.fileI sq + d.1) (Spec.rankI sq + d.2) + 2 ≠ sq := by
        simp [Spec.kingOffs] at hd
        rcases hd with rfl | rfl | rfl | rfl | rfl | rfl | rfl | rfl <;> simp at v1 v3 v4 v5 v6 ⊢ <;> omega
      have hleg : (⟨sq, Spec.sqOf (Spec.fileI sq + d.1) (Spec.rankI sq + d.2), 0⟩ : Spec.SMove) ∈ Spec.legalMoves (absPos p) := by rw [← hmv]; exact hm
      have hg := (king_moves_exact p hwf sq kq _ v2 hking hkq).2 ⟨hleg, hstep.1, hstep.2⟩
      rw [hmv]
      unfold codeOf
      have : Spec.isCastle (absPos p).board ⟨sq, Spec.sqOf (Spec.fileI sq + d.1) (Spec.rankI sq + d.2), 0⟩ = false := by
        unfold Spec.isCastle
        simp only [Bool.and_eq_false_iff, Bool.or_eq_false_iff, decide_eq_false_iff_not]
        exact Or.inr ⟨hstep.1, hstep.2⟩
      rw [this]
      simp only [Bool.false_eq_true, if_false]
      rw [← mkMove_eq_promo]
      exact hg

end Chess
