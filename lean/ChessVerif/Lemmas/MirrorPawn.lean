/-
  Lemmas/MirrorPawn.lean — the pawn evaluator of score.cpp (`score_pawns_for_side`) under the colour mirror.
  `pawnTerm` is split into the features it reads (`pawnFeat`: popcounts and zero tests of the two pawn bitboards against constant
  masks) and the score it builds from them (`pawnOfFeat`).  The constant masks of colour c / square s and of the other colour / the
  flipped square are flips of each other — one kernel-evaluated table over 2 × 48 (colour, square) pairs (`pawnConstOK`).
-/
import ChessVerif.Lemmas.MirrorBB
namespace Chess

structure PawnFeat where
  center : Int
  doubled : Bool
  conn : Bool
  phal : Bool
  opp : Bool
  nsup : Int
  iso : Bool
  backward : Bool
  passed : Bool
  relRank : Nat
  deriving DecidableEq

/-- what one pawn's term reads from the two pawn bitboards -/
def pawnFeat (ours theirs : BB) (side sq : Nat) : PawnFeat :=
  let upD := if side = 0 then Dir.N else Dir.S
  let downD := if side = 0 then Dir.S else Dir.N
  let r := rankOf sq
  let f := fileOf sq
  let relRank := if side = 0 then r else 7 - r
  let attacks := pawnAttacks side (sqBB sq)
  let neighbours := ours &&& neighbourFiles f
  let phalanx := neighbours &&& rankBB r
  let support := neighbours &&& rankBB (if side = 0 then r - 1 else r + 1)
  let lever := theirs &&& attacks
  let leverPush := theirs &&& shift upD attacks
  let opposed := theirs &&& passedPawnBB side sq
  let blocked := (theirs &&& shift upD (sqBB sq)) ≠ 0
  let doubled := (ours &&& shift downD (sqBB sq)) ≠ 0
  let fwdSq := if side = 0 then sq + 8 else sq - 8
  let backward := (neighbours &&& passedPawnBB (1 - side) fwdSq) = 0 ∧ (blocked ∨ leverPush ≠ 0)
  let passed := opposed = 0 ∨ (opposed ^^^ lever) = 0 ∨ ((opposed ^^^ leverPush) = 0 ∧ popcount phalanx ≥ popcount leverPush)
  { center := pc (attacks &&& opponentsCenter side), doubled := decide doubled, conn := decide ((support ||| phalanx) ≠ 0),
    phal := decide (phalanx ≠ 0), opp := decide (opposed ≠ 0), nsup := pc support, iso := decide (neighbours = 0),
    backward := decide backward, passed := decide passed, relRank := relRank }

/-- the score built from the features -/
def pawnOfFeat (F : PawnFeat) : Sc :=
  pieceValue PAWN
  + PAWN_CONTROL_CENTER_BONUS.scale F.center
  + optSc (F.doubled = true) DOUBLE_PAWN_PENALTY
  + (if F.conn = true then
       Sc.ofV (connectedPawnsBonus F.relRank * (1 + (if F.phal = true then 1 else 0) - (if F.opp = true then 1 else 0))) + Sc.ofV (10 * F.nsup)
     else if F.iso = true then ISOLATED_PAWN_PENALTY
     else if F.backward = true then BACKWARD_PAWN_PENALTY
     else ⟨0, 0⟩)
  + optSc (F.passed = true) (PASSED_PAWN_BONUS.scale (passedPawnRankWeight F.relRank))

theorem pawnTerm_eq (b : BBs) (side sq : Nat) :
    pawnTerm b side sq = pawnOfFeat (pawnFeat (b.ck side PAWN) (b.ck (1 - side) PAWN) side sq) := by
  unfold pawnTerm pawnOfFeat pawnFeat
  simp only [decide_eq_true_eq]

/-- Boolean form of `MirrorBB` -/
def mirB (X Y : BB) : Bool := (List.range 64).all fun t => Y.testBit t == X.testBit (flipV t)
theorem mirB_sound {X Y : BB} (h : mirB X Y = true) : MirrorBB X Y := by
  intro s hs
  simp only [mirB, List.all_eq_true, List.mem_range, beq_iff_eq] at h
  exact h s hs

/-- the constant masks of (colour c, square s) against those of (the other colour, the flipped square) -/
def pawnConstOne (c s : Nat) : Bool :=
  let c' := 1 - c
  let s' := flipV s
  let upD := if c = 0 then Dir.N else Dir.S
  let upD' := if c' = 0 then Dir.N else Dir.S
  let downD := if c = 0 then Dir.S else Dir.N
  let downD' := if c' = 0 then Dir.S else Dir.N
  decide ((if c' = 0 then rankOf s' else 7 - rankOf s') = (if c = 0 then rankOf s else 7 - rankOf s)) &&
  mirB (neighbourFiles (fileOf s)) (neighbourFiles (fileOf s')) &&
  mirB (rankBB (rankOf s)) (rankBB (rankOf s')) &&
  mirB (rankBB (if c = 0 then rankOf s - 1 else rankOf s + 1)) (rankBB (if c' = 0 then rankOf s' - 1 else rankOf s' + 1)) &&
  mirB (pawnAttacks c (sqBB s)) (pawnAttacks c' (sqBB s')) &&
  mirB (shift upD (pawnAttacks c (sqBB s))) (shift upD' (pawnAttacks c' (sqBB s'))) &&
  mirB (passedPawnBB c s) (passedPawnBB c' s') &&
  mirB (shift upD (sqBB s)) (shift upD' (sqBB s')) &&
  mirB (shift downD (sqBB s)) (shift downD' (sqBB s')) &&
  mirB (passedPawnBB (1 - c) (if c = 0 then s + 8 else s - 8)) (passedPawnBB (1 - c') (if c' = 0 then s' + 8 else s' - 8)) &&
  decide (popcount (pawnAttacks c' (sqBB s') &&& opponentsCenter c') = popcount (pawnAttacks c (sqBB s) &&& opponentsCenter c))

def pawnConstOK : Bool := [0, 1].all fun c => (List.range 64).all fun s => !(decide (8 ≤ s) && decide (s < 56)) || pawnConstOne c s

set_option maxRecDepth 100000 in
theorem pawnConstOK_true : pawnConstOK = true := by decide +kernel

theorem zero_of_bits (X : BB) (hX : X < 2 ^ 64) (h : ∀ t, t < 64 → X.testBit t = false) : X = 0 := by
  apply Nat.eq_of_testBit_eq
  intro i
  rw [Nat.zero_testBit]
  by_cases hi : i < 64
  · exact h i hi
  · exact Nat.testBit_lt_two_pow (Nat.lt_of_lt_of_le hX (Nat.pow_le_pow_right (by omega) (by omega)))

theorem MirrorBB.eq_zero_iff {X Y : BB} (hX : X < 2 ^ 64) (hY : Y < 2 ^ 64) (h : MirrorBB X Y) : Y = 0 ↔ X = 0 := by
  constructor
  · intro e
    apply zero_of_bits X hX
    intro t ht
    rw [h.symm t ht, e, Nat.zero_testBit]
  · intro e
    apply zero_of_bits Y hY
    intro t ht
    rw [h t ht, e, Nat.zero_testBit]

theorem and_lt {A K : BB} (hA : A < 2 ^ 64) : A &&& K < 2 ^ 64 := Nat.lt_of_le_of_lt Nat.and_le_left hA

/-- **one pawn's features under the mirror** -/
theorem pawnFeat_mirror (ours theirs ours' theirs' : BB) (hO : MirrorBB ours ours') (hT : MirrorBB theirs theirs')
    (bO : ours < 2 ^ 64) (bO' : ours' < 2 ^ 64) (bT : theirs < 2 ^ 64) (bT' : theirs' < 2 ^ 64)
    (c s : Nat) (hc : c ≤ 1) (h8 : 8 ≤ s) (h56 : s < 56) :
    pawnFeat ours' theirs' (1 - c) (flipV s) = pawnFeat ours theirs c s := by
  have htab := pawnConstOK_true
  simp only [pawnConstOK, List.all_eq_true, List.mem_range, Bool.or_eq_true, Bool.not_eq_true', Bool.and_eq_false_iff,
    decide_eq_false_iff_not] at htab
  have hcm : c ∈ [0, 1] := by
    have : c = 0 ∨ c = 1 := by omega
    rcases this with rfl | rfl <;> simp
  have h1 := htab c hcm s (by omega)
  have hone : pawnConstOne c s = true := by
    rcases h1 with (h | h) | h
    · omega
    · omega
    · exact h
  simp only [pawnConstOne, Bool.and_eq_true, decide_eq_true_eq] at hone
  obtain ⟨⟨⟨⟨⟨⟨⟨⟨⟨⟨tRel, tNf⟩, tRk⟩, tRk2⟩, tAtt⟩, tSh⟩, tPP⟩, tUp⟩, tDn⟩, tPPb⟩, tCen⟩ := hone
  have mNf := mirB_sound tNf; have mRk := mirB_sound tRk; have mRk2 := mirB_sound tRk2; have mAtt := mirB_sound tAtt
  have mSh := mirB_sound tSh; have mPP := mirB_sound tPP; have mUp := mirB_sound tUp; have mDn := mirB_sound tDn
  have mPPb := mirB_sound tPPb
  -- the composite sets
  have mN := hO.and mNf
  have mP := mN.and mRk
  have mS := mN.and mRk2
  have mL := hT.and mAtt
  have mLP := hT.and mSh
  have mOp := hT.and mPP
  have mBl := hT.and mUp
  have mDb := hO.and mDn
  have mBk := mN.and mPPb
  have zN := mN.eq_zero_iff (and_lt bO) (and_lt bO')
  have zP := mP.eq_zero_iff (and_lt (and_lt bO)) (and_lt (and_lt bO'))
  have zSP := (mS.or mP).eq_zero_iff (Nat.or_lt_two_pow (and_lt (and_lt bO)) (and_lt (and_lt bO))) (Nat.or_lt_two_pow (and_lt (and_lt bO')) (and_lt (and_lt bO')))
  have zLP := mLP.eq_zero_iff (and_lt bT) (and_lt bT')
  have zOp := mOp.eq_zero_iff (and_lt bT) (and_lt bT')
  have zBl := mBl.eq_zero_iff (and_lt bT) (and_lt bT')
  have zDb := mDb.eq_zero_iff (and_lt bO) (and_lt bO')
  have zBk := mBk.eq_zero_iff (and_lt (and_lt bO)) (and_lt (and_lt bO'))
  have zOL := (mOp.xor mL).eq_zero_iff (Nat.xor_lt_two_pow (and_lt bT) (and_lt bT)) (Nat.xor_lt_two_pow (and_lt bT') (and_lt bT'))
  have zOLP := (mOp.xor mLP).eq_zero_iff (Nat.xor_lt_two_pow (and_lt bT) (and_lt bT)) (Nat.xor_lt_two_pow (and_lt bT') (and_lt bT'))
  have pP := mP.popcount
  have pLP := mLP.popcount
  have pS := mS.popcount
  unfold pawnFeat
  simp only []
  rw [PawnFeat.mk.injEq]
  refine ⟨?_, ?_, ?_, ?_, ?_, ?_, ?_, ?_, ?_, ?_⟩
  · unfold pc; rw [tCen]
  · exact decide_eq_decide.2 (not_congr zDb)
  · exact decide_eq_decide.2 (not_congr zSP)
  · exact decide_eq_decide.2 (not_congr zP)
  · exact decide_eq_decide.2 (not_congr zOp)
  · unfold pc; rw [pS]
  · exact decide_eq_decide.2 zN
  · exact decide_eq_decide.2 (and_congr zBk (or_congr (not_congr zBl) (not_congr zLP)))
  · apply decide_eq_decide.2
    refine or_congr zOp (or_congr zOL (and_congr zOLP ?_))
    rw [pP, pLP]
  · exact tRel

/-- **the pawn evaluation of one side under the mirror**: `score_pawns_for_side<c>` on bitboards (ours, theirs) equals
    `score_pawns_for_side<other colour>` on the flipped bitboards, when no pawn stands on an end rank -/
theorem scorePawns_mirror (b b' : BBs) (c : Nat) (hc : c ≤ 1)
    (hO : MirrorBB (b.ck c PAWN) (b'.ck (1 - c) PAWN)) (hT : MirrorBB (b.ck (1 - c) PAWN) (b'.ck c PAWN))
    (bO : b.ck c PAWN < 2 ^ 64) (bO' : b'.ck (1 - c) PAWN < 2 ^ 64) (bT : b.ck (1 - c) PAWN < 2 ^ 64) (bT' : b'.ck c PAWN < 2 ^ 64)
    (hedge : ∀ s, s ∈ bitsOf (b.ck c PAWN) → 8 ≤ s ∧ s < 56) :
    scorePawnsForSide b' (1 - c) = scorePawnsForSide b c := by
  unfold scorePawnsForSide
  apply hO.sum_eq
  intro s hs
  obtain ⟨h8, h56⟩ := hedge s hs
  rw [pawnTerm_eq, pawnTerm_eq]
  have e : (1 - (1 - c)) = c := by omega
  rw [e]
  rw [pawnFeat_mirror (b.ck c PAWN) (b.ck (1 - c) PAWN) (b'.ck (1 - c) PAWN) (b'.ck c PAWN) hO hT bO bO' bT bT' c s hc h8 h56]

end Chess
