/-
  Lemmas/SingleCheckMask.lean — the generator's evasion masks in a single check: capture mask = the checker's square, push mask = the
  squares strictly between the king and a sliding checker; together they are exactly the squares on which an arriving piece
  neutralises the check.
-/
import ChessVerif.Lemmas.SingleCheck
import ChessVerif.Lemmas.PseudoGen
namespace Chess

theorem lt_bits_more (b : BB) (i j : Nat) (hij : i < j) (hi : b.testBit i = true) (hj : b.testBit j = true) : moreThanOne b = true := by
  unfold moreThanOne
  have hb0 : b ≠ 0 := by intro e; rw [e] at hi; simp at hi
  simp only [Bool.and_eq_true, bne_iff_ne]
  refine ⟨hb0, ?_⟩
  intro hz
  have : (b &&& (b - 1)).testBit j = true := by
    rw [Nat.testBit_and, hj, Bool.true_and]
    have hr : (b % 2 ^ j).testBit i = true := by rw [Nat.testBit_mod_two_pow]; simp [hij, hi]
    have hr1 : 1 ≤ b % 2 ^ j := by
      apply Nat.pos_of_ne_zero; intro e; rw [e] at hr; simp at hr
    have hP : 0 < 2 ^ j := Nat.two_pow_pos j
    have hlt : b % 2 ^ j < 2 ^ j := Nat.mod_lt _ hP
    have hdm := Nat.div_add_mod b (2 ^ j)
    have hdiv : (b - 1) / 2 ^ j = b / 2 ^ j := by
      have aux : ∀ (P q r x : Nat), P * q = x → x + r = b → 1 ≤ r → r < P → (b - 1) / P = q := by
        intro P q r x hPq hxr h1 h2
        apply Nat.div_eq_of_lt_le
        · rw [Nat.mul_comm, hPq]; omega
        · rw [Nat.add_mul, Nat.one_mul, Nat.mul_comm, hPq]; omega
      exact aux (2 ^ j) (b / 2 ^ j) (b % 2 ^ j) _ rfl hdm hr1 hlt
    rw [Nat.testBit_eq_decide_div_mod_eq, hdiv, ← Nat.testBit_eq_decide_div_mod_eq]
    exact hj
  rw [hz] at this; simp at this

/-- a non-empty bitboard without two bits: its lowest bit is its only bit -/
theorem single_bit (b : BB) (hb : ∀ i, b.testBit i = true → i < 64) (h0 : b ≠ 0) (h1 : moreThanOne b = false) :
    lsb b < 64 ∧ b.testBit (lsb b) = true ∧ ∀ c, b.testBit c = true → c = lsb b := by
  obtain ⟨j, hj⟩ := Nat.exists_testBit_of_ne_zero h0
  have honly : ∀ i, b.testBit i = true → i = j := by
    intro i hi
    apply Classical.byContradiction
    intro hne
    have : i < j ∨ j < i := by omega
    rcases this with h | h
    · rw [lt_bits_more b i j h hi hj] at h1; cases h1
    · rw [lt_bits_more b j i h hj hi] at h1; cases h1
  have hbj : b = sqBB j := by
    unfold sqBB
    apply Nat.eq_of_testBit_eq
    intro i
    rw [Nat.shiftLeft_eq, Nat.one_mul, Nat.testBit_two_pow]
    by_cases e : j = i
    · subst e; simp [hj]
    · have : b.testBit i = false := by
        apply Bool.eq_false_iff.2
        intro hi; exact e (honly i hi).symm
      simp [this, e]
  have hj64 := hb j hj
  have hl : lsb b = j := by
    rw [hbj]
    have := lsbSqOK_true
    simp only [lsbSqOK, List.all_eq_true, List.mem_range, beq_iff_eq] at this
    exact this j hj64
  rw [hl]
  exact ⟨hj64, hj, honly⟩

end Chess

namespace Chess

def pushMaskOf (p : Position) (k cs : Nat) : BB := if isSlider (p.board.getD cs 0) then lines k cs ^^^ sqBB k ^^^ sqBB cs else 0

/-- arriving on t neutralises the check given by the piece on cs: capture it, or interpose on the ray of a sliding checker -/
def Neutral (p : Position) (k cs t : Nat) : Prop :=
  t = cs ∨ ∃ r, r < 8 ∧ cs ∈ rayList k r ∧ thru (rayList k r) t cs = true ∧
    ((BBs.of p).ck (1 - p.side) PAWN).testBit cs = false ∧ ((BBs.of p).ck (1 - p.side) KNIGHT).testBit cs = false

theorem ck_board (p : Position) (ok : BoardOK p.board) (c K s : Nat) (hc : c ≤ 1) (hK : 1 ≤ K ∧ K ≤ 6)
    (h : ((BBs.of p).ck c K).testBit s = true) : s < 64 ∧ p.board.getD s 0 = mkPiece c K ∧ kindOf (p.board.getD s 0) = K := by
  rw [ck_testBit p c K s hc hK.2 ok] at h
  simp only [Bool.and_eq_true, decide_eq_true_eq] at h
  exact ⟨h.1, h.2, by rw [h.2]; exact kindOf_mkPiece c K hc hK⟩

theorem ck_false_of_kind (p : Position) (ok : BoardOK p.board) (c K s : Nat) (hc : c ≤ 1) (hK : 1 ≤ K ∧ K ≤ 6)
    (h : kindOf (p.board.getD s 0) ≠ K) : ((BBs.of p).ck c K).testBit s = false := by
  apply Bool.eq_false_iff.2
  intro hb
  exact h (ck_board p ok c K s hc hK hb).2.2

/-- THE PUSH MASK: its bits are the squares strictly between the king and a sliding checker, all of them empty -/
theorem pushMask_iff (p : Position) (ok : BoardOK p.board) (hs : p.side ≤ 1) (k cs : Nat) (hk : k < 64) (hcs : Checks p k cs) (t : Nat) (ht : t < 64) :
    ((pushMaskOf p k cs).testBit t = true ↔ ∃ r, r < 8 ∧ cs ∈ rayList k r ∧ thru (rayList k r) t cs = true ∧
      ((BBs.of p).ck (1 - p.side) PAWN).testBit cs = false ∧ ((BBs.of p).ck (1 - p.side) KNIGHT).testBit cs = false) ∧
    ((pushMaskOf p k cs).testBit t = true → (BBs.of p).all.testBit t = false) := by
  have ho : 1 - p.side ≤ 1 := by omega
  obtain ⟨c64, _⟩ := hcs.enemy ok hs
  -- a sliding checker on ray r
  have slider : ∀ r, r < 8 → (Spec.walk (rayList k r) (BBs.of p).all).testBit cs = true → isSlider (p.board.getD cs 0) = true →
      ((pushMaskOf p k cs).testBit t = true ↔ ∃ r, r < 8 ∧ cs ∈ rayList k r ∧ thru (rayList k r) t cs = true ∧
      ((BBs.of p).ck (1 - p.side) PAWN).testBit cs = false ∧ ((BBs.of p).ck (1 - p.side) KNIGHT).testBit cs = false) ∧
      ((pushMaskOf p k cs).testBit t = true → (BBs.of p).all.testBit t = false) := by
    intro r hr hw hsl
    have hm := walk_mem _ _ cs hw
    have htab := betweenOK_true
    simp only [betweenOK, List.all_eq_true, List.mem_range, Bool.or_eq_true, Bool.not_eq_true', beq_iff_eq] at htab
    have hbt : (lines k cs ^^^ sqBB k ^^^ sqBB cs).testBit t = thru (rayList k r) t cs := by
      rcases htab k hk cs c64 r hr with h | h
      · have : (rayList k r).contains cs = true := by simpa using hm
        rw [this] at h; cases h
      · exact h t ht
    have hpm : (pushMaskOf p k cs).testBit t = thru (rayList k r) t cs := by unfold pushMaskOf; rw [if_pos hsl]; exact hbt
    have hkind : kindOf (p.board.getD cs 0) = BISHOP ∨ kindOf (p.board.getD cs 0) = ROOK ∨ kindOf (p.board.getD cs 0) = QUEEN := by
      unfold isSlider at hsl; simpa [or_assoc] using hsl
    have nP : ((BBs.of p).ck (1 - p.side) PAWN).testBit cs = false :=
      ck_false_of_kind p ok _ PAWN cs ho (by decide) (by rcases hkind with e | e | e <;> rw [e] <;> decide)
    have nN : ((BBs.of p).ck (1 - p.side) KNIGHT).testBit cs = false :=
      ck_false_of_kind p ok _ KNIGHT cs ho (by decide) (by rcases hkind with e | e | e <;> rw [e] <;> decide)
    rw [hpm]
    refine ⟨⟨fun h => ⟨r, hr, hm, h, nP, nN⟩, ?_⟩, ?_⟩
    · rintro ⟨r', hr', hm', hth, _, _⟩
      have := ray_unique k r r' cs hk hr hr' hm hm'
      subst this; exact hth
    · intro hth
      apply Bool.eq_false_iff.2
      intro hocc
      have := walk_blocked (rayList k r) _ t cs hocc hw
      rw [hth] at this; cases this
  -- a pawn or a knight: no push mask
  have leaper : isSlider (p.board.getD cs 0) = false →
      (((BBs.of p).ck (1 - p.side) PAWN).testBit cs = true ∨ ((BBs.of p).ck (1 - p.side) KNIGHT).testBit cs = true) →
      ((pushMaskOf p k cs).testBit t = true ↔ ∃ r, r < 8 ∧ cs ∈ rayList k r ∧ thru (rayList k r) t cs = true ∧
      ((BBs.of p).ck (1 - p.side) PAWN).testBit cs = false ∧ ((BBs.of p).ck (1 - p.side) KNIGHT).testBit cs = false) ∧
      ((pushMaskOf p k cs).testBit t = true → (BBs.of p).all.testBit t = false) := by
    intro hsl hpn
    have hpm : (pushMaskOf p k cs).testBit t = false := by unfold pushMaskOf; rw [hsl]; simp
    rw [hpm]
    refine ⟨⟨fun h => Bool.noConfusion h, ?_⟩, fun h => Bool.noConfusion h⟩
    rintro ⟨_, _, _, _, a, b⟩
    rcases hpn with h | h
    · rw [a] at h; cases h
    · rw [b] at h; cases h
  have slideKind : ∀ K1 K2, (K1 = BISHOP ∨ K1 = ROOK ∨ K1 = QUEEN) → (K2 = BISHOP ∨ K2 = ROOK ∨ K2 = QUEEN) →
      ((BBs.of p).ck (1 - p.side) K1 ||| (BBs.of p).ck (1 - p.side) K2).testBit cs = true → isSlider (p.board.getD cs 0) = true := by
    intro K1 K2 h1 h2 hb
    rw [Nat.testBit_or] at hb
    simp only [Bool.or_eq_true] at hb
    unfold isSlider
    rcases hb with h | h
    · have := (ck_board p ok _ K1 cs ho (by rcases h1 with e | e | e <;> rw [e] <;> decide) h).2.2
      rw [this]; rcases h1 with e | e | e <;> rw [e] <;> decide
    · have := (ck_board p ok _ K2 cs ho (by rcases h2 with e | e | e <;> rw [e] <;> decide) h).2.2
      rw [this]; rcases h2 with e | e | e <;> rw [e] <;> decide
  cases hcs with
  | pawn _ h2 =>
    have := (ck_board p ok _ PAWN cs ho (by decide) h2).2.2
    exact leaper (by unfold isSlider; rw [this]; decide) (Or.inl h2)
  | knight _ h2 =>
    have := (ck_board p ok _ KNIGHT cs ho (by decide) h2).2.2
    exact leaper (by unfold isSlider; rw [this]; decide) (Or.inr h2)
  | diag r hr _ hw hb => exact slider r hr hw (slideKind BISHOP QUEEN (Or.inl rfl) (Or.inr (Or.inr rfl)) hb)
  | orth r hr _ hw hb => exact slider r hr hw (slideKind ROOK QUEEN (Or.inr (Or.inl rfl)) (Or.inr (Or.inr rfl)) hb)

end Chess
