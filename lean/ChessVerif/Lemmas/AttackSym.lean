/-
  Lemmas/AttackSym.lean — slider attacks are symmetric: t is in the ray walk from s (up to the first blocker) iff s is in
  the ray walk from t, for the same occupancy.  (What turns "the squares a piece attacks" into "the pieces attacking a
  square", e.g. for the generator's forbidden-squares set.)
-/
import ChessVerif.Lemmas.Attack
namespace Chess

/-- membership in a ray walk: some square of the ray equals t and nothing before it is occupied -/
theorem walk_testBit (L : List Nat) (occ : BB) (t : Nat) :
    (Spec.walk L occ).testBit t = true ↔ ∃ i, i < L.length ∧ L.getD i 0 = t ∧ ∀ j, j < i → occ.testBit (L.getD j 0) = false := by
  induction L with
  | nil => simp [Spec.walk]
  | cons x xs ih =>
    unfold Spec.walk
    rw [Nat.testBit_or, sqBB_testBit]
    constructor
    · intro h
      simp only [Bool.or_eq_true, decide_eq_true_eq] at h
      rcases h with h | h
      · exact ⟨0, by simp, by simpa using h, by intro j hj; omega⟩
      · by_cases ho : occ.testBit x = true
        · rw [if_pos ho] at h; simp at h
        · rw [if_neg ho] at h
          obtain ⟨i, hi, hti, hb⟩ := ih.1 h
          refine ⟨i + 1, by simp; omega, by simpa [List.getD] using hti, ?_⟩
          intro j hj
          cases j with
          | zero => simpa using ho
          | succ k => have := hb k (by omega); simpa [List.getD] using this
    · rintro ⟨i, hi, hti, hb⟩
      simp only [Bool.or_eq_true, decide_eq_true_eq]
      cases i with
      | zero => left; simpa using hti
      | succ k =>
        right
        have hx : occ.testBit x = false := by have := hb 0 (by omega); simpa using this
        rw [if_neg (by simp [hx])]
        apply ih.2
        refine ⟨k, by simpa using hi, by simpa [List.getD] using hti, ?_⟩
        intro j hj
        have := hb (j + 1) (by omega)
        simpa [List.getD] using this

def allDirs : List (Int × Int) := [(-1, 1), (1, 1), (1, -1), (-1, -1), (0, 1), (1, 0), (0, -1), (-1, 0)]

/-- finite geometry: walking back from the i-th square of a ray reaches the origin after i steps, over the same squares -/
def raysRevOK : Bool :=
  (List.range 64).all fun s => allDirs.all fun d =>
    let L := Spec.raySquares s d.1 d.2
    (List.range L.length).all fun i =>
      let t := L.getD i 64
      let M := Spec.raySquares t (-d.1) (-d.2)
      decide (t < 64) && decide (i < M.length) && M.getD i 64 == s && (List.range i).all fun j => M.getD j 64 == L.getD (i - 1 - j) 65

theorem raysRevOK_true : raysRevOK = true := by decide +kernel

theorem ray_rev (s : Nat) (hs : s < 64) (d : Int × Int) (hd : d ∈ allDirs) (i : Nat) (hi : i < (Spec.raySquares s d.1 d.2).length) :
    let L := Spec.raySquares s d.1 d.2
    let M := Spec.raySquares (L.getD i 64) (-d.1) (-d.2)
    L.getD i 64 < 64 ∧ i < M.length ∧ M.getD i 64 = s ∧ ∀ j, j < i → M.getD j 64 = L.getD (i - 1 - j) 65 := by
  have h := raysRevOK_true
  simp only [raysRevOK, List.all_eq_true, List.mem_range, Bool.and_eq_true, decide_eq_true_eq, beq_iff_eq] at h
  have := h s hs d hd i hi
  exact ⟨this.1.1.1, this.1.1.2, this.1.2, this.2⟩

end Chess

namespace Chess

theorem getD_inrange (L : List Nat) (i a b : Nat) (h : i < L.length) : L.getD i a = L.getD i b := by
  simp [List.getD, h]

theorem walk_sym (s t : Nat) (hs : s < 64) (d : Int × Int) (hd : d ∈ allDirs) (occ : BB)
    (h : (Spec.walk (Spec.raySquares s d.1 d.2) occ).testBit t = true) :
    (Spec.walk (Spec.raySquares t (-d.1) (-d.2)) occ).testBit s = true := by
  obtain ⟨i, hi, hti, hb⟩ := (walk_testBit _ _ _).1 h
  obtain ⟨r1, r2, r3, r4⟩ := ray_rev s hs d hd i hi
  have ht : (Spec.raySquares s d.1 d.2).getD i 64 = t := by rw [getD_inrange _ i 64 0 hi]; exact hti
  simp only [ht] at r1 r2 r3 r4
  apply (walk_testBit _ _ _).2
  refine ⟨i, r2, by rw [getD_inrange _ i 0 64 r2]; exact r3, ?_⟩
  intro j hj
  have hjM : j < (Spec.raySquares t (-d.1) (-d.2)).length := by omega
  rw [getD_inrange _ j 0 64 hjM, r4 j hj]
  have hk : i - 1 - j < (Spec.raySquares s d.1 d.2).length := by omega
  rw [getD_inrange _ (i - 1 - j) 65 0 hk]
  exact hb (i - 1 - j) (by omega)

theorem walkDirs_testBit (dirs : List (Int × Int)) (s : Nat) (occ : BB) (t : Nat) (acc : BB) :
    (dirs.foldl (fun acc d => acc ||| Spec.walk (Spec.raySquares s d.1 d.2) occ) acc).testBit t = true ↔
      (acc.testBit t = true ∨ ∃ d, d ∈ dirs ∧ (Spec.walk (Spec.raySquares s d.1 d.2) occ).testBit t = true) := by
  induction dirs generalizing acc with
  | nil => simp
  | cons x xs ih =>
    simp only [List.foldl_cons]
    rw [ih, Nat.testBit_or]
    simp only [Bool.or_eq_true, List.mem_cons]
    constructor
    · rintro ((h | h) | ⟨d, hd, h⟩)
      · exact Or.inl h
      · exact Or.inr ⟨x, Or.inl rfl, h⟩
      · exact Or.inr ⟨d, Or.inr hd, h⟩
    · rintro (h | ⟨d, (rfl | hd), h⟩)
      · exact Or.inl (Or.inl h)
      · exact Or.inl (Or.inr h)
      · exact Or.inr ⟨d, hd, h⟩

/-- SYMMETRY: for a set of directions closed under negation, t is reached from s iff s is reached from t -/
theorem walkDirs_sym (dirs : List (Int × Int)) (hsub : ∀ d, d ∈ dirs → d ∈ allDirs) (hneg : ∀ d, d ∈ dirs → (-d.1, -d.2) ∈ dirs)
    (s t : Nat) (hs : s < 64) (occ : BB) (h : (Spec.walkDirs dirs s occ).testBit t = true) :
    (Spec.walkDirs dirs t occ).testBit s = true := by
  unfold Spec.walkDirs at *
  rw [walkDirs_testBit] at h ⊢
  rcases h with h | ⟨d, hd, h⟩
  · simp at h
  · right
    exact ⟨(-d.1, -d.2), hneg d hd, walk_sym s t hs d (hsub d hd) occ h⟩

theorem rookWalk_sym (s t : Nat) (hs : s < 64) (ht : t < 64) (occ : BB) :
    (Spec.rookWalk s occ).testBit t = (Spec.rookWalk t occ).testBit s := by
  have key : ∀ a b, a < 64 → (Spec.rookWalk a occ).testBit b = true → (Spec.rookWalk b occ).testBit a = true := by
    intro a b ha h
    exact walkDirs_sym Spec.rookDirs (by intro d hd; simp [Spec.rookDirs] at hd; rcases hd with rfl | rfl | rfl | rfl <;> decide)
      (by intro d hd; simp [Spec.rookDirs] at hd ⊢; rcases hd with rfl | rfl | rfl | rfl <;> simp) a b ha occ h
  apply Bool.eq_iff_iff.2
  exact ⟨key s t hs, key t s ht⟩

theorem bishopWalk_sym (s t : Nat) (hs : s < 64) (ht : t < 64) (occ : BB) :
    (Spec.bishopWalk s occ).testBit t = (Spec.bishopWalk t occ).testBit s := by
  have key : ∀ a b, a < 64 → (Spec.bishopWalk a occ).testBit b = true → (Spec.bishopWalk b occ).testBit a = true := by
    intro a b ha h
    exact walkDirs_sym Spec.bishopDirs (by intro d hd; simp [Spec.bishopDirs] at hd; rcases hd with rfl | rfl | rfl | rfl <;> decide)
      (by intro d hd; simp [Spec.bishopDirs] at hd ⊢; rcases hd with rfl | rfl | rfl | rfl <;> simp) a b ha occ h
  apply Bool.eq_iff_iff.2
  exact ⟨key s t hs, key t s ht⟩

/-- the engine's magic lookups are symmetric too (via C11) -/
theorem rookAttack_sym (s t : Nat) (hs : s < 64) (ht : t < 64) (occ : BB) :
    (rookAttack s occ).testBit t = (rookAttack t occ).testBit s := by
  have h1 := Props.C11_slider ROOK s hs occ
  have h2 := Props.C11_slider ROOK t ht occ
  simp [sliderAttack, Spec.rayWalk, ROOK, BISHOP] at h1 h2
  rw [h1, h2]; exact rookWalk_sym s t hs ht occ

theorem bishopAttack_sym (s t : Nat) (hs : s < 64) (ht : t < 64) (occ : BB) :
    (bishopAttack s occ).testBit t = (bishopAttack t occ).testBit s := by
  have h1 := Props.C11_slider BISHOP s hs occ
  have h2 := Props.C11_slider BISHOP t ht occ
  simp [sliderAttack, Spec.rayWalk] at h1 h2
  rw [h1, h2]; exact bishopWalk_sym s t hs ht occ

end Chess
