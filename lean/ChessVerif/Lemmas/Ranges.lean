/-
  Lemmas/Ranges.lean — field ranges are kept by do_move / do_null_move (so the packed MoveInfo stays lossless along any walk).
-/
import ChessVerif.Lemmas.Undo
namespace Chess

structure Ranges (p : Position) : Prop where
  castling : p.castling < 16
  ep : p.ep < 65
  halfmove : p.halfmove < 65536
  side : p.side ≤ 1

theorem clearBits_le (x mask : Nat) : clearBits x mask ≤ x := by unfold clearBits; exact Nat.and_le_left

theorem updateRights_le (c side moved captured f t : Nat) : updateRights c side moved captured f t ≤ c := by
  unfold updateRights
  simp only []
  have step : ∀ (P : Prop) [Decidable P] (x mask : Nat), (if P then clearBits x mask else x) ≤ x := by
    intro P _ x mask; split
    · exact clearBits_le _ _
    · exact Nat.le_refl _
  exact Nat.le_trans (step _ _ _) (Nat.le_trans (step _ _ _) (Nat.le_trans (step _ _ _) (Nat.le_trans (step _ _ _) (step _ _ _))))

theorem setEpAfter_fields (T : ZTable) (p : Position) (side moved f t : Nat) (ht : t < 64) :
    (setEpAfter T p side moved f t).castling = p.castling ∧ (setEpAfter T p side moved f t).halfmove = p.halfmove ∧
    (setEpAfter T p side moved f t).ep < 65 := by
  unfold setEpAfter; simp only []
  by_cases h : kindOf moved = PAWN ∧ rankOf f = (if side = 0 then 1 else 6) ∧ rankOf t = (if side = 0 then 3 else 4)
  · rw [if_pos h]
    refine ⟨rfl, rfl, ?_⟩
    show (if side = 0 then t - 8 else t + 8) < 65
    obtain ⟨_, _, h3⟩ := h
    unfold rankOf at h3
    by_cases hs : side = 0
    · rw [if_pos hs]; omega
    · rw [if_neg hs] at h3 ⊢
      have : t / 8 = 4 := by simpa [Nat.shiftRight_eq_div_pow] using h3
      omega
  · rw [if_neg h]; exact ⟨rfl, rfl, by show 64 < 65; omega⟩

theorem ranges_doMove (T : ZTable) (p : Position) (m : Nat) (r : Ranges p) (ok : MoveOK p m) : Ranges (doMove T p m).1 := by
  unfold doMove
  simp only []
  by_cases hc : moveCastling m ≠ 0
  · rw [if_pos hc]
    show Ranges (withHistory (doMoveCastle T (preMove T p) p.side m))
    have key : ∀ a b c d, let q := movePiece T (movePiece T { (preMove T p) with halfmove := ((preMove T p).halfmove + 1) % 65536 } a b) c d
        Ranges (withHistory { (setCastlingKey T { q with castling := clearBits q.castling (castlingRightsOf p.side) }) with ep := 64 }) := by
      intro a b c d q
      have sr : SameRest _ q := sameRest_trans (sameRest_move T _ a b) (sameRest_move T _ c d)
      refine ⟨?_, by show 64 < 65; omega, ?_, ?_⟩
      · show clearBits q.castling _ < 16
        have := clearBits_le q.castling (castlingRightsOf p.side)
        rw [sr.castling] at this
        have := r.castling
        show clearBits q.castling _ < 16
        rw [sr.castling]
        have h2 : (preMove T p).castling = p.castling := rfl
        simp only [] at *
        omega
      · show q.halfmove < 65536
        rw [sr.halfmove]
        show ((preMove T p).halfmove + 1) % 65536 < 65536
        omega
      · show q.side ≤ 1
        rw [sr.side]
        show 1 - p.side ≤ 1
        omega
    unfold doMoveCastle
    simp only []
    by_cases hK : moveCastling m = KING_CASTLING
    · rw [if_pos hK]; exact key _ _ _ _
    · rw [if_neg hK]; exact key _ _ _ _
  · rw [if_neg hc]
    have hc0 : moveCastling m = 0 := Decidable.not_not.mp hc
    obtain ⟨n1, n2, n3, n4, n5, n6⟩ := ok.normal hc0
    show Ranges (withHistory (setEpAfter T (doMovePieces T (clockStep (preMove T p) m) p.side m) p.side _ _ _))
    obtain ⟨s1, s2, s3⟩ := setEpAfter_fields T (doMovePieces T (clockStep (preMove T p) m) p.side m) p.side
      ((preMove T p).at (moveFrom m)) (moveFrom m) (moveTo m) n2
    have sc := sameCore_setEp T (doMovePieces T (clockStep (preMove T p) m) p.side m) p.side
      ((preMove T p).at (moveFrom m)) (moveFrom m) (moveTo m)
    have sc1 := sameCore_clock (preMove T p) m
    generalize hp1 : clockStep (preMove T p) m = p1 at *
    have c1 : p1.castling = p.castling := by rw [← hp1]; unfold clockStep; split <;> rfl
    have h1 : p1.halfmove < 65536 := by
      rw [← hp1]; unfold clockStep; split
      · show ((preMove T p).halfmove + 1) % 65536 < 65536; omega
      · show 0 < 65536; omega
    -- doMovePieces: castling shrinks, halfmove and side unchanged
    have hD : (doMovePieces T p1 p.side m).castling ≤ p1.castling ∧ (doMovePieces T p1 p.side m).halfmove = p1.halfmove ∧
        (doMovePieces T p1 p.side m).side = p1.side := by
      unfold doMovePieces
      simp only []
      split
      · have sr := sameRest_trans (sameRest_move T p1 (moveFrom m) (moveTo m)) (sameRest_remove T _ (if p.side = 0 then moveTo m - 8 else moveTo m + 8))
        exact ⟨Nat.le_of_eq sr.castling, sr.halfmove, sr.side⟩
      · have sr1 : SameRest p1 (removeCaptured T p1 (moveTo m)) := by
          unfold removeCaptured; split
          · exact sameRest_remove T _ _
          · exact sameRest_refl _
        have sr2 : SameRest (removeCaptured T p1 (moveTo m)) (placeMoved T (removeCaptured T p1 (moveTo m)) p.side m) := by
          unfold placeMoved; split
          · exact sameRest_trans (sameRest_remove T _ _) (sameRest_add T _ _ _)
          · exact sameRest_move T _ _ _
        have sr := sameRest_trans sr1 sr2
        refine ⟨?_, sr.halfmove, sr.side⟩
        show updateRights _ _ _ _ _ _ ≤ _
        exact Nat.le_trans (updateRights_le _ _ _ _ _ _) (Nat.le_of_eq sr.castling)
    refine ⟨?_, s3, ?_, ?_⟩
    · show (setEpAfter T _ _ _ _ _).castling < 16
      rw [s1]; have := r.castling; omega
    · show (setEpAfter T _ _ _ _ _).halfmove < 65536
      rw [s2, hD.2.1]; exact h1
    · show (setEpAfter T _ _ _ _ _).side ≤ 1
      rw [sc.side, hD.2.2, sc1.side]
      show 1 - p.side ≤ 1
      omega

theorem ranges_doNull (T : ZTable) (p : Position) (r : Ranges p) : Ranges (doNull T p).1 := by
  refine ⟨r.castling, by show 64 < 65; omega, ?_, ?_⟩
  · show (p.halfmove + 1) % 65536 < 65536; omega
  · show 1 - p.side ≤ 1; omega

theorem two_moves_history (T : ZTable) (x : Position) (a b c d : Nat) :
    (movePiece T (movePiece T x a b) c d).history = x.history :=
  (sameRest_trans (sameRest_move T x a b) (sameRest_move T _ c d)).history

theorem history_doMove (T : ZTable) (p : Position) (m : Nat) (h : p.history.length < 800) :
    (doMove T p m).1.history.length = p.history.length + 1 := by
  have key : ∀ x : Position, x.history = p.history → (withHistory x).history.length = p.history.length + 1 := by
    intro x hx
    show (pushHistory x.history _).length = _
    rw [hx]; unfold pushHistory MAX_PLIES_MODEL; rw [if_neg (by omega)]; rfl
  unfold doMove
  simp only []
  split
  · apply key
    have k2 : ∀ (x : Position) a b c d, let q := movePiece T (movePiece T x a b) c d
        ({ (setCastlingKey T { q with castling := clearBits q.castling (castlingRightsOf p.side) }) with ep := 64 } : Position).history = x.history := by
      intro x a b c d q
      exact two_moves_history T x a b c d
    unfold doMoveCastle; simp only []
    by_cases hK : moveCastling m = KING_CASTLING
    · rw [if_pos hK]
      exact k2 { (preMove T p) with halfmove := ((preMove T p).halfmove + 1) % 65536 }
        (mkSquare (if p.side = 0 then 0 else 7) 4) (mkSquare (if p.side = 0 then 0 else 7) 6)
        (mkSquare (if p.side = 0 then 0 else 7) 7) (mkSquare (if p.side = 0 then 0 else 7) 5)
    · rw [if_neg hK]
      exact k2 { (preMove T p) with halfmove := ((preMove T p).halfmove + 1) % 65536 }
        (mkSquare (if p.side = 0 then 0 else 7) 4) (mkSquare (if p.side = 0 then 0 else 7) 2)
        (mkSquare (if p.side = 0 then 0 else 7) 0) (mkSquare (if p.side = 0 then 0 else 7) 3)
  · apply key
    rw [(sameCore_setEp T _ _ _ _ _).history]
    have h1 : (clockStep (preMove T p) m).history = p.history := (sameCore_clock (preMove T p) m).history
    generalize clockStep (preMove T p) m = p1 at *
    unfold doMovePieces; simp only []
    split
    · rw [(sameRest_trans (sameRest_move T p1 (moveFrom m) (moveTo m)) (sameRest_remove T _ _)).history]; exact h1
    · show (placeMoved T (removeCaptured T p1 (moveTo m)) p.side m).history = _
      have sr1 : SameRest p1 (removeCaptured T p1 (moveTo m)) := by
        unfold removeCaptured; split
        · exact sameRest_remove T _ _
        · exact sameRest_refl _
      have sr2 : SameRest (removeCaptured T p1 (moveTo m)) (placeMoved T (removeCaptured T p1 (moveTo m)) p.side m) := by
        unfold placeMoved; split
        · exact sameRest_trans (sameRest_remove T _ _) (sameRest_add T _ _ _)
        · exact sameRest_move T _ _ _
      rw [(sameRest_trans sr1 sr2).history]; exact h1

end Chess
