/-
  Lemmas/WfHyp.lean — the rules-level well-formedness predicate `Spec.wf` implies the explicit hypotheses of the
  bitboard lemmas: board shape, one king per side (at the square the lookups return), kings not adjacent, counts < 16.
-/
import ChessVerif.Lemmas.Attack
import ChessVerif.Lemmas.Material
namespace Chess

theorem count_eq_countOf (b : List Nat) (pc : Nat) : Spec.count b pc = countOf b pc := rfl

/-- a list with exactly one occurrence of x: the first index holding x is the only one -/
theorem unique_of_count_one (b : List Nat) (x : Nat) (h : countOf b x = 1) :
    ∃ k, k < b.length ∧ b.getD k 0 = x ∧ ∀ s, s < b.length → b.getD s 0 = x → s = k := by
  induction b with
  | nil => simp [countOf] at h
  | cons y ys ih =>
    unfold countOf at h
    by_cases hy : y = x
    · subst hy
      have h0 : countOf ys y = 0 := by
        unfold countOf
        simp at h
        exact List.length_eq_zero_iff.2 (List.filter_eq_nil_iff.2 (by simpa using h))
      refine ⟨0, by simp, by simp, ?_⟩
      intro s hs hsx
      cases s with
      | zero => rfl
      | succ n =>
        exfalso
        have hn : n < ys.length := by simpa using hs
        have hv : ys.getD n 0 = y := by simpa [List.getD] using hsx
        have : y ∈ ys.filter (· = y) := by
          apply List.mem_filter.2
          refine ⟨?_, by simp⟩
          have : ys.getD n 0 = ys[n] := by simp [List.getD, hn]
          rw [← hv, this]; exact List.getElem_mem hn
        unfold countOf at h0
        rw [List.length_eq_zero_iff.1 h0] at this
        simp at this
    · have h' : countOf ys x = 1 := by
        unfold countOf
        simp [hy] at h
        exact h
      obtain ⟨k, hk, hkx, hu⟩ := ih h'
      refine ⟨k + 1, by simp; omega, by simpa [List.getD] using hkx, ?_⟩
      intro s hs hsx
      cases s with
      | zero =>
        exfalso
        have : y = x := by simpa [List.getD] using hsx
        exact hy this
      | succ n =>
        have hn : n < ys.length := by simpa using hs
        have := hu n hn (by simpa [List.getD] using hsx)
        omega

theorem kingAt_of_count (b : List Nat) (c : Nat) (hl : b.length = 64) (h : countOf b (mkPiece c KING) = 1) :
    ∃ k, KingAt b c k := by
  obtain ⟨k, hk, hkx, hu⟩ := unique_of_count_one b _ h
  exact ⟨k, ⟨by omega, hkx, fun s hs hx => hu s (by omega) hx⟩⟩

/-- kings on non-neighbouring squares: no enemy king on any of the eight squares around k -/
theorem kingNear_false (b : List Nat) (c k k' : Nat) (hc : c ≤ 1) (hk : KingAt b c k) (hk' : KingAt b (1 - c) k')
    (hadj : ¬ ((Spec.fileI k - Spec.fileI k').natAbs ≤ 1 ∧ (Spec.rankI k - Spec.rankI k').natAbs ≤ 1)) :
    kingNear b k (1 - c) = false := by
  apply Bool.eq_false_iff.2
  intro h
  unfold kingNear at h
  simp only [List.any_eq_true, Bool.and_eq_true, decide_eq_true_eq] at h
  obtain ⟨d, hd, hon, hpc⟩ := h
  have hm : Spec.mkPc (1 - c) 6 = mkPiece (1 - c) KING := mkPc_eq' _ 6 (by decide)
  rw [hm, pcAt_eq'] at hpc
  have hlt : Spec.sqOf (Spec.fileI k + d.1) (Spec.rankI k + d.2) < 64 := by
    unfold Spec.onBoard at hon
    simp only [Bool.and_eq_true, decide_eq_true_eq] at hon
    unfold Spec.sqOf; omega
  have heq := hk'.only _ hlt hpc
  apply hadj
  unfold Spec.onBoard at hon
  simp only [Bool.and_eq_true, decide_eq_true_eq] at hon
  obtain ⟨⟨⟨o1, o2⟩, o3⟩, o4⟩ := hon
  have kf : Spec.fileI k = ((k % 8 : Nat) : Int) := rfl
  have kr : Spec.rankI k = ((k / 8 : Nat) : Int) := rfl
  have kf' : Spec.fileI k' = ((k' % 8 : Nat) : Int) := rfl
  have kr' : Spec.rankI k' = ((k' / 8 : Nat) : Int) := rfl
  have hsq : Spec.sqOf (Spec.fileI k + d.1) (Spec.rankI k + d.2) = ((Spec.rankI k + d.2) * 8 + (Spec.fileI k + d.1)).toNat := rfl
  rw [hsq] at heq
  generalize Spec.fileI k = f at *
  generalize Spec.rankI k = r at *
  have hval : (k' : Int) = (r + d.2) * 8 + (f + d.1) := by
    rw [← heq]; omega
  have hf : Spec.fileI k' = f + d.1 := by rw [kf']; omega
  have hr : Spec.rankI k' = r + d.2 := by rw [kr']; omega
  rw [hf, hr]
  unfold Spec.kingOffs at hd
  simp at hd
  rcases hd with rfl | rfl | rfl | rfl | rfl | rfl | rfl | rfl <;> simp <;> omega

end Chess

namespace Chess

/-- everything the bitboard lemmas assume about the board follows from the rules-level well-formedness predicate -/
theorem wf_board_hyps (s : Spec.SPos) (h : Spec.wf s = true) :
    BoardOK s.board ∧ s.side ≤ 1 ∧
    (∀ c, c ≤ 1 → ∃ k, KingAt s.board c k ∧ kingNear s.board k (1 - c) = false) ∧
    (∀ x, x ∈ s.board → x ≤ 12) ∧
    (countOf s.board 1 < 16 ∧ countOf s.board 2 < 16 ∧ countOf s.board 3 < 16 ∧ countOf s.board 4 < 16 ∧ countOf s.board 5 < 16 ∧
     countOf s.board 7 < 16 ∧ countOf s.board 8 < 16 ∧ countOf s.board 9 < 16 ∧ countOf s.board 10 < 16 ∧ countOf s.board 11 < 16) := by
  unfold Spec.wf at h
  simp only [Bool.and_eq_true, decide_eq_true_eq, List.all_eq_true, Bool.not_eq_true'] at h
  obtain ⟨⟨⟨⟨⟨⟨⟨⟨⟨hlen, hall⟩, hside⟩, _⟩, hmat⟩, hadj⟩, _⟩, _⟩, _⟩, _⟩ := h
  have hcodes : ∀ x, x ∈ s.board → x ≤ 12 := hall
  have hbo : BoardOK s.board := by
    refine ⟨hlen, ?_⟩
    intro i
    by_cases hi : i < s.board.length
    · have : s.board.getD i 0 = s.board[i] := by simp [List.getD, hi]
      rw [this]; exact hall _ (List.getElem_mem hi)
    · have : s.board.getD i 0 = 0 := by
        rw [List.getD_eq_getElem?_getD, List.getElem?_eq_none (by omega)]; rfl
      rw [this]; omega
  unfold Spec.materialOK at hmat
  simp only [List.all_cons, List.all_nil, Bool.and_true, Bool.and_eq_true, decide_eq_true_eq, count_eq_countOf] at hmat
  obtain ⟨⟨⟨⟨⟨⟨w6, w1⟩, w2⟩, w3⟩, w4⟩, w5⟩, ⟨⟨⟨⟨⟨b6, b1⟩, b2⟩, b3⟩, b4⟩, b5⟩⟩ := hmat
  have mk : ∀ c k, Spec.mkPc c k = k + 6 * c := fun _ _ => rfl
  simp only [mk] at w6 w1 w2 w3 w4 w5 b6 b1 b2 b3 b4 b5
  have w6 := of_decide_eq_true w6
  have w1 := of_decide_eq_true w1
  have w2 := of_decide_eq_true w2
  have w3 := of_decide_eq_true w3
  have w4 := of_decide_eq_true w4
  have w5 := of_decide_eq_true w5
  have b6 := of_decide_eq_true b6
  have b1 := of_decide_eq_true b1
  have b2 := of_decide_eq_true b2
  have b3 := of_decide_eq_true b3
  have b4 := of_decide_eq_true b4
  have b5 := of_decide_eq_true b5
  have w1 : countOf s.board 1 ≤ 8 := w1
  have w2 : countOf s.board 2 + countOf s.board 1 ≤ 10 := w2
  have w3 : countOf s.board 3 + countOf s.board 1 ≤ 10 := w3
  have w4 : countOf s.board 4 + countOf s.board 1 ≤ 10 := w4
  have w5 : countOf s.board 5 + countOf s.board 1 ≤ 9 := w5
  have b1 : countOf s.board 7 ≤ 8 := b1
  have b2 : countOf s.board 8 + countOf s.board 7 ≤ 10 := b2
  have b3 : countOf s.board 9 + countOf s.board 7 ≤ 10 := b3
  have b4 : countOf s.board 10 + countOf s.board 7 ≤ 10 := b4
  have b5 : countOf s.board 11 + countOf s.board 7 ≤ 9 := b5
  have hw : countOf s.board (mkPiece 0 KING) = 1 := w6
  have hb : countOf s.board (mkPiece 1 KING) = 1 := b6
  obtain ⟨kw, hkw⟩ := kingAt_of_count s.board 0 hlen hw
  obtain ⟨kb, hkb⟩ := kingAt_of_count s.board 1 hlen hb
  unfold Spec.kingsAdjacent at hadj
  simp only [] at hadj
  rw [findKing_eq s.board 0 kw hkw, findKing_eq s.board 1 kb hkb] at hadj
  simp only [Bool.and_eq_false_iff, decide_eq_false_iff_not] at hadj
  refine ⟨hbo, hside, ?_, hcodes, ?_⟩
  · intro c hc
    have : c = 0 ∨ c = 1 := by omega
    rcases this with rfl | rfl
    · exact ⟨kw, hkw, kingNear_false s.board 0 kw kb (by decide) hkw hkb (by intro hh; rcases hadj with h1 | h1 <;> omega)⟩
    · exact ⟨kb, hkb, kingNear_false s.board 1 kb kw (by decide) hkb hkw (by intro hh; rcases hadj with h1 | h1 <;> omega)⟩
  · refine ⟨?_, ?_, ?_, ?_, ?_, ?_, ?_, ?_, ?_, ?_⟩ <;> omega

end Chess
