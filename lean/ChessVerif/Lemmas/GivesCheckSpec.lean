/-
  Lemmas/GivesCheckSpec.lean — `move_gives_check` against the rules: for an ordinary legal move (not castling, not en passant) the
  engine's answer is "the opponent is in check on the board the rules produce".
-/
import ChessVerif.Lemmas.GivesCheck
import ChessVerif.Lemmas.Refine
import ChessVerif.Lemmas.KingMoves
namespace Chess

theorem kindOf_pos (pc : Nat) (h : pc ≠ 0) : 1 ≤ kindOf pc := by unfold kindOf; rw [if_neg h]; omega

theorem gives_check_spec (p : Position) (m : Spec.SMove) (ok : StepOK (absPos p) m) (hbo : BoardOK p.board)
    (hnc : Spec.isCastle p.board m = false) (hnep : Spec.isEpCapture (absPos p) m = false)
    (hpromo : m.promo ≤ 5 ∧ m.promo ≠ 1)
    (kq : Nat) (hking : KingAt p.board (1 - p.side) kq) (hdst : m.dst ≠ kq)
    (hsafe : Spec.attacked p.board kq p.side = false)
    (hnear' : kingNear (Spec.apply (absPos p) m).board kq p.side = false) :
    moveGivesCheck p (codeOf (absPos p) m) = Spec.inCheck (Spec.apply (absPos p) m).board (1 - p.side) := by
  have hside : p.side ≤ 1 := ok.side
  have hopp : 1 - (1 - p.side) = p.side := by omega
  have hsrc : m.src < 64 := ok.src
  have hdstl : m.dst < 64 := ok.dst
  have hcode : codeOf (absPos p) m = mkPromotion m.src m.dst m.promo := by
    unfold codeOf
    have : Spec.isCastle (absPos p).board m = false := hnc
    rw [this]; simp
  obtain ⟨cf, ct, cp, cc⟩ := Props.C16_encoding m.src m.dst m.promo hsrc hdstl (by omega)
  have hown : p.board.getD m.src 0 = mkPiece p.side (kindOf (p.board.getD m.src 0)) := ok.own.2
  have hown0 : p.board.getD m.src 0 ≠ 0 := ok.own.1
  -- the move is an ordinary move in the sense of Lemmas/GivesCheck
  have hsafeBB : attackedBB p kq (1 - p.side) = false := by
    have h := attacked_eq p kq (1 - p.side) (by omega) hking.lt hbo
    rw [hopp, hsafe] at h
    simp only [Bool.or_eq_false_iff] at h
    exact h.1
  have hord : OrdMove p (mkPromotion m.src m.dst m.promo) kq := by
    refine ⟨hside, hbo, cc, by rw [cf, ct]; exact ok.ne, ?_, ?_, by rw [cp]; exact hpromo, ?_, ?_, hking, by rw [ct]; exact hdst, hsafeBB⟩
    · rw [cf]; exact hown
    · rw [cf]; exact kindOf_pos _ hown0
    · intro K h1 h6
      rw [ct]
      by_cases h0 : p.board.getD m.dst 0 = 0
      · rw [h0]; exact fun h => mkPiece_ne_zero p.side K (by omega) h.symm
      · have ht := ok.target h0
        intro h
        have ht' : p.board.getD m.dst 0 = mkPiece (1 - p.side) (kindOf (p.board.getD m.dst 0)) := ht
        rw [ht'] at h
        have := mkPiece_inj (1 - p.side) _ p.side K (by omega) hside ⟨kindOf_pos _ h0, kindOf_le _⟩ ⟨h1, h6⟩ h
        omega
    · rw [cf, ct]
      intro hh
      have hep := ok.ep hh
      have : Spec.isEpCapture (absPos p) m = true := by
        rw [isEp_iff]
        exact ⟨hh.1, hh.2, hep.1, hep.2.1⟩
      rw [hnep] at this; cases this
  rw [hcode, gives_check_ordinary p _ kq hord, cf, ct]
  -- the board the rules produce
  have hk' : checkingKind p (mkPromotion m.src m.dst m.promo) = (if m.promo ≠ 0 then m.promo else kindOf (p.board.getD m.src 0)) := by
    unfold checkingKind; rw [cp, cf]; rfl
  have hboard : (Spec.apply (absPos p) m).board = afterBoard p.board m.src m.dst (mkPiece p.side (checkingKind p (mkPromotion m.src m.dst m.promo))) := by
    rw [apply_board]
    simp only []
    have h1 : Spec.isCastle (absPos p).board m = false := hnc
    rw [h1, hnep]
    simp only [Bool.false_eq_true, if_false]
    unfold afterBoard
    rw [hk']
    by_cases hp0 : m.promo = 0
    · rw [if_neg (by simp [hp0]), if_neg (by simp [hp0])]
      show ((absPos p).board.set m.src 0).set m.dst (gd (absPos p).board m.src) = _
      have : gd (absPos p).board m.src = mkPiece p.side (kindOf (p.board.getD m.src 0)) := hown
      rw [this]; rfl
    · rw [if_pos hp0, if_pos hp0, mkPc_eq' _ _ hp0]; rfl
  -- the enemy king is where it was
  have hkingAfter : KingAt (Spec.apply (absPos p) m).board (1 - p.side) kq := by
    rw [hboard]
    have hsk : m.src ≠ kq := by
      intro e
      have h1 := hking.here
      rw [← e, hown] at h1
      have := mkPiece_inj p.side _ (1 - p.side) KING hside (by omega) ⟨kindOf_pos _ hown0, kindOf_le _⟩ ⟨by decide, by decide⟩ h1
      omega
    refine ⟨hking.lt, ?_, ?_⟩
    · rw [after_at _ _ _ _ kq hbo.len hsrc hdstl, if_neg hdst, if_neg hsk]; exact hking.here
    · intro s hs hpc
      rw [after_at _ _ _ _ s hbo.len hsrc hdstl] at hpc
      by_cases h1 : m.dst = s
      · rw [if_pos h1] at hpc
        exfalso
        have hck : 1 ≤ checkingKind p (mkPromotion m.src m.dst m.promo) ∧ checkingKind p (mkPromotion m.src m.dst m.promo) ≤ 6 := by
          rw [hk']; split
          · omega
          · exact ⟨kindOf_pos _ hown0, kindOf_le _⟩
        have := mkPiece_inj p.side _ (1 - p.side) KING hside (by omega) hck ⟨by decide, by decide⟩ hpc
        omega
      · rw [if_neg h1] at hpc
        by_cases h2 : m.src = s
        · rw [if_pos h2] at hpc
          exact absurd hpc.symm (mkPiece_ne_zero _ _ (by decide))
        · rw [if_neg h2] at hpc
          exact hking.only s hs hpc
  have hckind : 1 ≤ checkingKind p (mkPromotion m.src m.dst m.promo) ∧ checkingKind p (mkPromotion m.src m.dst m.promo) ≤ 6 := by
    rw [hk']; split
    · omega
    · exact ⟨kindOf_pos _ hown0, kindOf_le _⟩
  have hpc12 : mkPiece p.side (checkingKind p (mkPromotion m.src m.dst m.promo)) ≤ 12 := by
    unfold mkPiece; rw [if_neg (by omega)]; omega
  have okAfter : BoardOK (afterPos p m.src m.dst (mkPiece p.side (checkingKind p (mkPromotion m.src m.dst m.promo)))).board :=
    afterOK p.board _ _ _ hbo hsrc hdstl hpc12
  unfold Spec.inCheck
  rw [findKing_eq _ _ kq hkingAfter, hopp]
  have h := attacked_eq (afterPos p m.src m.dst (mkPiece p.side (checkingKind p (mkPromotion m.src m.dst m.promo)))) kq (1 - p.side) (by omega) hking.lt okAfter
  rw [hopp] at h
  have hb2 : (afterPos p m.src m.dst (mkPiece p.side (checkingKind p (mkPromotion m.src m.dst m.promo)))).board = (Spec.apply (absPos p) m).board := hboard.symm
  rw [hb2, hnear', Bool.or_false] at h
  exact h

end Chess
