/-
  Lemmas/Pinned.lean — a piece the pin scan names: the first two occupied squares of its ray from the king are the piece and an enemy
  slider of the ray's kind, and an ordinary move of the piece keeps the king safe exactly when it stays on the ray up to and
  including that slider.
-/
import ChessVerif.Lemmas.Unpinned
namespace Chess

theorem pinScan_of_more (k r : Nat) (hk : k < 64) (hr : r < 8) (occ : BB) (h : moreThanOne (rays r k &&& occ) = true) :
    ∃ a b rest, (rayList k r).filter (fun x => occ.testBit x) = a :: b :: rest := by
  have ht := pinScanOK_true
  simp only [pinScanOK, List.all_eq_true, List.mem_range] at ht
  have := forallSubsets_sound _ _ 0 (ht k hk r hr) occ
  rw [Nat.zero_or, restrict_bitsOf _ _ (rays_facts k r hk hr).1, Nat.and_comm] at this
  have hf : (rayList k r).filter (fun x => (rays r k &&& occ).testBit x) = (rayList k r).filter (fun x => occ.testBit x) := by
    apply filter_congr_mem
    intro x hx
    rw [Nat.testBit_and, (rayList_mem k r x hk hr hx).2, Bool.true_and]
  rw [hf] at this
  match hl : (rayList k r).filter (fun x => occ.testBit x) with
  | a :: b :: rest => exact ⟨a, b, rest, rfl⟩
  | [] => rw [hl] at this; simp only [] at this; rw [h] at this; cases this
  | [a] => rw [hl] at this; simp only [] at this; rw [h] at this; cases this

/-- what a successful pin scan on ray r says -/
structure PinAt (p : Position) (k r a s : Nat) (rest : List Nat) : Prop where
  r8 : r < 8
  fil : (rayList k r).filter (fun x => (BBs.of p).all.testBit x) = a :: s :: rest
  own : ((BBs.of p).color p.side).testBit a = true
  slider : ((BBs.of p).ck (1 - p.side) QUEEN ||| (if r % 2 = 1 then (BBs.of p).ck (1 - p.side) ROOK else (BBs.of p).ck (1 - p.side) BISHOP)).testBit s = true

theorem pinAt_of_scan (p : Position) (k r : Nat) (hk : kingSq p.board p.side = k) (hk64 : k < 64) (hr : r < 8) (pin : Nat)
    (h : genPinInRay (BBs.of p) p.board p.side r = some pin) : ∃ s rest, PinAt p k r (pinSquare pin) s rest := by
  unfold genPinInRay at h
  simp only [] at h
  rw [hk] at h
  rw [ite_none_eq_some] at h
  obtain ⟨hmore, h⟩ := h
  rw [ite_none_eq_some] at h
  obtain ⟨hown, h⟩ := h
  rw [ite_none_eq_some] at h
  obtain ⟨hsl, h⟩ := h
  obtain ⟨a, b, rest, hfil⟩ := pinScan_of_more k r hk64 hr (BBs.of p).all hmore
  obtain ⟨_, h2, h3⟩ := pinScan_first_two k r hk64 hr (BBs.of p).all a b rest hfil
  have hownT := sqBB_and_testBit _ _ hown
  have hslT := sqBB_and_testBit _ _ hsl
  have ha64 : a < 64 := by
    have : a ∈ (rayList k r).filter (fun x => (BBs.of p).all.testBit x) := by rw [hfil]; exact List.mem_cons_self
    exact (rayList_mem k r a hk64 hr (List.mem_filter.1 this).1).1
  have hpin := (Option.some.inj h).symm
  by_cases hr4 : r < 4
  · simp only [hr4, if_true] at h2 h3 hownT hslT hpin
    rw [h2] at hownT hpin
    rw [h3] at hslT
    rw [hpin, (pin_fields a _ r ha64 (kindOf_lt8 _) hr).1]
    exact ⟨b, rest, hr, hfil, hownT, hslT⟩
  · simp only [hr4, if_false] at h2 h3 hownT hslT hpin
    rw [h2] at hownT hpin hslT
    rw [h2] at h3
    rw [h3] at hslT
    rw [hpin, (pin_fields a _ r ha64 (kindOf_lt8 _) hr).1]
    exact ⟨b, rest, hr, hfil, hownT, hslT⟩

/-- squares of a ray list belong to one ray only -/
theorem ray_unique (k r r' a : Nat) (hk : k < 64) (hr : r < 8) (hr' : r' < 8) (h1 : a ∈ rayList k r) (h2 : a ∈ rayList k r') : r = r' := by
  apply Decidable.byContradiction
  intro hne
  have := (rays_facts k r hk hr).2.2 r' hr' hne
  exact and_ne_zero_of_testBit _ _ a (rayList_mem k r a hk hr h1).2 (rayList_mem k r' a hk hr' h2).2 this

/-- ON THE PIN RAY ⇒ SAFE: the pinned piece may move to any square of the ray up to and including the pinning slider -/
theorem pinned_safe_on_ray (p : Position) (k r a s : Nat) (rest : List Nat) (t k' : Nat) (hc : p.side ≤ 1) (ok : BoardOK p.board)
    (hpin : PinAt p k r a s rest) (ha : a < 64) (ht : t < 64) (hne : a ≠ t) (hk' : 1 ≤ k' ∧ k' ≤ 6)
    (hking : KingAt p.board p.side k) (hak : a ≠ k) (hsafe : attackedBB p k p.side = false)
    (hon : t = s ∨ thru (rayList k r) t s = true) :
    attackedBB (afterPos p a t (mkPiece p.side k')) k p.side = false := by
  apply safe_core p a t k' k hc ok ha ht hne hk' hpin.own hking hak hsafe
  intro r' x rest' hr' hfil' _ hxt hw
  have ha1 : a ∈ rayList k r := by
    have : a ∈ (rayList k r).filter (fun y => (BBs.of p).all.testBit y) := by rw [hpin.fil]; exact List.mem_cons_self
    exact (List.mem_filter.1 this).1
  have ha2 : a ∈ rayList k r' := by
    have : a ∈ (rayList k r').filter (fun y => (BBs.of p).all.testBit y) := by rw [hfil']; exact List.mem_cons_self
    exact (List.mem_filter.1 this).1
  have e := ray_unique k r r' a hking.lt hpin.r8 hr' ha1 ha2
  subst e
  rw [hpin.fil] at hfil'
  have exs : s = x := by injection hfil' with _ h2; injection h2
  subst exs
  rcases hon with rfl | hthru
  · exact hxt rfl
  · have htocc : (((BBs.of p).all ^^^ sqBB a) ||| sqBB t).testBit t = true := by
      rw [Nat.testBit_or, sqBB_testBit]; simp
    have := walk_blocked (rayList k r) _ t s htocc hw
    rw [hthru] at this; cases this

end Chess

namespace Chess

theorem occ'_testBit (occ : BB) (a t y : Nat) : ((occ ^^^ sqBB a) ||| sqBB t).testBit y = ((occ.testBit y ^^ decide (a = y)) || decide (t = y)) := by
  rw [Nat.testBit_or, Nat.testBit_xor, sqBB_testBit, sqBB_testBit]

/-- phase 2: behind the lifted piece the ray runs on to the first occupied square -/
theorem walk_reach2 (ys : List Nat) (occ : BB) (a t s : Nat) (rest : List Nat) (ha : a ∉ ys) (hts : t ≠ s)
    (hfil : ys.filter (fun x => occ.testBit x) = s :: rest) (hthru : thru ys t s = false) :
    (Spec.walk ys ((occ ^^^ sqBB a) ||| sqBB t)).testBit s = true := by
  induction ys with
  | nil => simp at hfil
  | cons y ys' ih =>
    unfold Spec.walk
    rw [Nat.testBit_or, sqBB_testBit]
    by_cases hoy : occ.testBit y = true
    · rw [List.filter_cons, if_pos hoy] at hfil
      have : y = s := by injection hfil
      rw [this]; simp
    · rw [List.filter_cons, if_neg hoy] at hfil
      have hs_mem : s ∈ ys' := by
        have : s ∈ ys'.filter (fun x => occ.testBit x) := by rw [hfil]; exact List.mem_cons_self
        exact (List.mem_filter.1 this).1
      have hys : y ≠ s := by
        intro e
        have : s ∈ (ys'.filter (fun x => occ.testBit x)) := by rw [hfil]; exact List.mem_cons_self
        have hos := (List.mem_filter.1 this).2
        rw [← e] at hos
        exact hoy (by simpa using hos)
      have hya : a ≠ y := fun e => ha (by rw [e]; exact List.mem_cons_self)
      unfold thru at hthru
      rw [if_neg hys] at hthru
      have hyt : y ≠ t := by
        intro e
        rw [if_pos e] at hthru
        simp only [List.contains_eq_mem, decide_eq_false_iff_not] at hthru
        exact hthru hs_mem
      rw [if_neg hyt] at hthru
      have hocc' : ¬ ((occ ^^^ sqBB a) ||| sqBB t).testBit y = true := by
        rw [occ'_testBit]
        have h1 : occ.testBit y = false := by simpa using hoy
        have hty : ¬ t = y := fun e => hyt e.symm
        simp [h1, hya, hty]
      rw [if_neg hocc']
      have := ih (fun hm => ha (List.mem_cons_of_mem _ hm)) hfil hthru
      rw [this]; simp

/-- once the pinned piece is lifted and put down off the ray, the ray from the king reaches the pinning slider -/
theorem walk_reach (L : List Nat) (occ : BB) (a t s : Nat) (rest : List Nat) (hnd : L.Nodup) (hat : a ≠ t) (hts : t ≠ s)
    (hfil : L.filter (fun x => occ.testBit x) = a :: s :: rest) (hthru : thru L t s = false) :
    (Spec.walk L ((occ ^^^ sqBB a) ||| sqBB t)).testBit s = true := by
  induction L with
  | nil => simp at hfil
  | cons x xs ih =>
    have hnd' : List.Pairwise (· ≠ ·) (x :: xs) := hnd
    rw [List.pairwise_cons] at hnd'
    have hs_in : s ∈ (x :: xs).filter (fun y => occ.testBit y) := by rw [hfil]; simp
    have hos : occ.testBit s = true := by simpa using (List.mem_filter.1 hs_in).2
    unfold Spec.walk
    rw [Nat.testBit_or, sqBB_testBit]
    by_cases hox : occ.testBit x = true
    · rw [List.filter_cons, if_pos hox] at hfil
      have hxa : x = a := by injection hfil
      have hfil' : xs.filter (fun y => occ.testBit y) = s :: rest := by injection hfil
      subst hxa
      have hxs : x ≠ s := by
        intro e
        have : s ∈ xs := by
          have : s ∈ xs.filter (fun y => occ.testBit y) := by rw [hfil']; exact List.mem_cons_self
          exact (List.mem_filter.1 this).1
        exact hnd'.1 s this e
      unfold thru at hthru
      rw [if_neg hxs, if_neg hat] at hthru
      have hocc' : ¬ ((occ ^^^ sqBB x) ||| sqBB t).testBit x = true := by
        rw [occ'_testBit]
        have htx : ¬ t = x := fun e => hat e.symm
        simp [hox, htx]
      rw [if_neg hocc']
      have := walk_reach2 xs occ x t s rest (fun hm => hnd'.1 x hm rfl) hts hfil' hthru
      rw [this]; simp
    · rw [List.filter_cons, if_neg hox] at hfil
      have hs_mem : s ∈ xs := by
        have : s ∈ xs.filter (fun y => occ.testBit y) := by rw [hfil]; simp
        exact (List.mem_filter.1 this).1
      have hxs : x ≠ s := by intro e; rw [e] at hox; exact hox hos
      have hoa : occ.testBit a = true := by
        have : a ∈ xs.filter (fun y => occ.testBit y) := by rw [hfil]; exact List.mem_cons_self
        simpa using (List.mem_filter.1 this).2
      have hxa : a ≠ x := by intro e; rw [← e] at hox; exact hox hoa
      unfold thru at hthru
      rw [if_neg hxs] at hthru
      have hxt : x ≠ t := by
        intro e
        rw [if_pos e] at hthru
        simp only [List.contains_eq_mem, decide_eq_false_iff_not] at hthru
        exact hthru hs_mem
      rw [if_neg hxt] at hthru
      have hocc' : ¬ ((occ ^^^ sqBB a) ||| sqBB t).testBit x = true := by
        rw [occ'_testBit]
        have h1 : occ.testBit x = false := by simpa using hox
        have htx : ¬ t = x := fun e => hxt e.symm
        simp [h1, hxa, htx]
      rw [if_neg hocc']
      have := ih hnd'.2 hfil hthru
      rw [this]; simp

end Chess

namespace Chess

theorem ray_dir_mem (r : Nat) (hr : r < 8) : (r % 2 = 0 → rayDirI r ∈ Spec.bishopDirs) ∧ (r % 2 = 1 → rayDirI r ∈ Spec.rookDirs) := by
  have : r = 0 ∨ r = 1 ∨ r = 2 ∨ r = 3 ∨ r = 4 ∨ r = 5 ∨ r = 6 ∨ r = 7 := by omega
  rcases this with rfl | rfl | rfl | rfl | rfl | rfl | rfl | rfl <;> simp [rayDirI, Spec.bishopDirs, Spec.rookDirs]

/-- OFF THE PIN RAY ⇒ EXPOSED: any other ordinary move of the pinned piece leaves the king attacked by the pinning slider -/
theorem pinned_exposed_off_ray (p : Position) (k r a s : Nat) (rest : List Nat) (t k' : Nat) (hc : p.side ≤ 1) (ok : BoardOK p.board)
    (hpin : PinAt p k r a s rest) (ha : a < 64) (ht : t < 64) (hne : a ≠ t) (hk' : 1 ≤ k' ∧ k' ≤ 6)
    (hking : KingAt p.board p.side k)
    (hoff : t ≠ s ∧ thru (rayList k r) t s = false) :
    attackedBB (afterPos p a t (mkPiece p.side k')) k p.side = true := by
  have hkq := hking.lt
  have ho : 1 - p.side ≤ 1 := by omega
  have hpc : mkPiece p.side k' ≤ 12 := by unfold mkPiece; rw [if_neg (by omega)]; omega
  have hpc0 : mkPiece p.side k' ≠ 0 := mkPiece_ne_zero _ _ (by omega)
  obtain ⟨_, hbf, kf1, kf6⟩ := own_piece p ok hc a hpin.own
  have hmover0 : p.board.getD a 0 ≠ 0 := by rw [hbf]; exact mkPiece_ne_zero _ _ (by omega)
  have hall := all_after p a t _ ok ha ht hpc hpc0 hmover0 hne
  have hnd := rayList_nodup k r hkq hpin.r8
  have hw := walk_reach (rayList k r) (BBs.of p).all a t s rest hnd hne hoff.1 hpin.fil hoff.2
  have hs_in : s ∈ (rayList k r).filter (fun x => (BBs.of p).all.testBit x) := by rw [hpin.fil]; simp
  have hsL := (List.mem_filter.1 hs_in).1
  have hsa : s ≠ a := by
    intro e
    have hnd2 : ((rayList k r).filter (fun x => (BBs.of p).all.testBit x)).Nodup := List.Nodup.sublist List.filter_sublist hnd
    rw [hpin.fil, e] at hnd2
    have : List.Pairwise (· ≠ ·) (a :: a :: rest) := hnd2
    rw [List.pairwise_cons] at this
    exact this.1 a List.mem_cons_self rfl
  -- the slider is still there after the move
  have stay : ∀ K, 1 ≤ K → K ≤ 6 → ((BBs.of p).ck (1 - p.side) K).testBit s = true →
      ((BBs.of (afterPos p a t (mkPiece p.side k'))).ck (1 - p.side) K).testBit s = true := by
    intro K h1 h6 h
    rw [ck_after p a t _ (1 - p.side) K s ok ha ht hpc ho ⟨h1, h6⟩]
    rw [ck_testBit p (1 - p.side) K s ho h6 ok] at h
    simp only [Bool.and_eq_true, decide_eq_true_eq] at h
    rw [if_neg (fun e => hoff.1 e), if_neg (fun e => hsa e.symm), h.2]
    simp [h.1]
  have hwd : ∀ dirs, rayDirI r ∈ dirs → (Spec.walkDirs dirs k (((BBs.of p).all ^^^ sqBB a) ||| sqBB t)).testBit s = true := by
    intro dirs hd
    unfold Spec.walkDirs
    rw [walkDirs_testBit]
    exact Or.inr ⟨rayDirI r, hd, hw⟩
  have hb2 := Props.C11_slider BISHOP k hkq (((BBs.of p).all ^^^ sqBB a) ||| sqBB t)
  have hr2 := Props.C11_slider ROOK k hkq (((BBs.of p).all ^^^ sqBB a) ||| sqBB t)
  simp [sliderAttack, Spec.rayWalk] at hb2
  simp [sliderAttack, Spec.rayWalk, ROOK, BISHOP] at hr2
  have hb2' : bishopAttack k (((BBs.of p).all ^^^ sqBB a) ||| sqBB t) = Spec.walkDirs Spec.bishopDirs k (((BBs.of p).all ^^^ sqBB a) ||| sqBB t) := hb2
  have hr2' : rookAttack k (((BBs.of p).all ^^^ sqBB a) ||| sqBB t) = Spec.walkDirs Spec.rookDirs k (((BBs.of p).all ^^^ sqBB a) ||| sqBB t) := hr2
  have hsl := hpin.slider
  rw [Nat.testBit_or] at hsl
  unfold attackedBB
  simp only [hall, Bool.or_eq_true, decide_eq_true_eq]
  by_cases hodd : r % 2 = 1
  · right
    rw [if_pos hodd] at hsl
    have hx : (rookAttack k (((BBs.of p).all ^^^ sqBB a) ||| sqBB t)).testBit s = true := by
      rw [hr2']; exact hwd _ ((ray_dir_mem r hpin.r8).2 hodd)
    apply and_ne_zero_of_testBit _ _ s hx
    rw [Nat.testBit_or]
    simp only [Bool.or_eq_true] at hsl ⊢
    rcases hsl with h | h
    · exact Or.inr (stay QUEEN (by decide) (by decide) h)
    · exact Or.inl (stay ROOK (by decide) (by decide) h)
  · left; right
    rw [if_neg hodd] at hsl
    have hx : (bishopAttack k (((BBs.of p).all ^^^ sqBB a) ||| sqBB t)).testBit s = true := by
      rw [hb2']; exact hwd _ ((ray_dir_mem r hpin.r8).1 (by omega))
    apply and_ne_zero_of_testBit _ _ s hx
    rw [Nat.testBit_or]
    simp only [Bool.or_eq_true] at hsl ⊢
    rcases hsl with h | h
    · exact Or.inr (stay QUEEN (by decide) (by decide) h)
    · exact Or.inl (stay BISHOP (by decide) (by decide) h)

end Chess
