/-
  Lemmas/Material.lean — the engine's material test (a packed count vector compared with five constants) equals the
  rules-level "bare kings or a single minor piece", when no piece kind occurs 16 times or more (a nibble per kind).
-/
import ChessVerif.Model.Position
import ChessVerif.Spec.Rules
namespace Chess

theorem or_shl_add (a c i : Nat) (ha : a < 2 ^ i) : a ||| (c <<< i) = c * 2 ^ i + a := by
  rw [Nat.or_comm, ← Nat.shiftLeft_add_eq_or_of_lt ha, Nat.shiftLeft_eq]

/-- the packed count vector as a sum, when every count fits its nibble -/
theorem pcv_sum (c1 c2 c3 c4 c5 c7 c8 c9 c10 c11 : Nat)
    (h1 : c1 < 16) (h2 : c2 < 16) (h3 : c3 < 16) (h4 : c4 < 16) (h5 : c5 < 16) (h7 : c7 < 16) (h8 : c8 < 16) (h9 : c9 < 16)
    (h10 : c10 < 16) (_h11 : c11 < 16) :
    ((c1 <<< 4) ||| (c2 <<< 8) ||| (c3 <<< 12) ||| (c4 <<< 16) ||| (c5 <<< 20) ||| (c7 <<< 28) ||| (c8 <<< 32) ||| (c9 <<< 36) |||
      (c10 <<< 40) ||| (c11 <<< 44)) =
    c1 * 2 ^ 4 + c2 * 2 ^ 8 + c3 * 2 ^ 12 + c4 * 2 ^ 16 + c5 * 2 ^ 20 + c7 * 2 ^ 28 + c8 * 2 ^ 32 + c9 * 2 ^ 36 + c10 * 2 ^ 40 + c11 * 2 ^ 44 := by
  have e1 : c1 <<< 4 = c1 * 2 ^ 4 := Nat.shiftLeft_eq _ _
  rw [e1]
  rw [or_shl_add _ c2 8 (by omega)]
  rw [or_shl_add _ c3 12 (by omega)]
  rw [or_shl_add _ c4 16 (by omega)]
  rw [or_shl_add _ c5 20 (by omega)]
  rw [or_shl_add _ c7 28 (by omega)]
  rw [or_shl_add _ c8 32 (by omega)]
  rw [or_shl_add _ c9 36 (by omega)]
  rw [or_shl_add _ c10 40 (by omega)]
  rw [or_shl_add _ c11 44 (by omega)]
  omega

def isOther (pc : Nat) : Bool := pc ≠ 0 && pc ≠ 6 && pc ≠ 12
def isMinor (pc : Nat) : Bool := pc = 2 || pc = 3 || pc = 8 || pc = 9

/-- lengths of the rules-level filters in terms of the per-code counts (codes 0..12) -/
theorem filter_counts (b : List Nat) (hb : ∀ x, x ∈ b → x ≤ 12) :
    (b.filter isOther).length =
      countOf b 1 + countOf b 2 + countOf b 3 + countOf b 4 + countOf b 5 + countOf b 7 + countOf b 8 + countOf b 9 + countOf b 10 + countOf b 11 ∧
    ((b.filter isOther).filter isMinor).length = countOf b 2 + countOf b 3 + countOf b 8 + countOf b 9 := by
  induction b with
  | nil => simp [countOf]
  | cons x xs ih =>
    have hx : x ≤ 12 := hb x (by simp)
    obtain ⟨i1, i2⟩ := ih (fun y hy => hb y (by simp [hy]))
    have hxs : x = 0 ∨ x = 1 ∨ x = 2 ∨ x = 3 ∨ x = 4 ∨ x = 5 ∨ x = 6 ∨ x = 7 ∨ x = 8 ∨ x = 9 ∨ x = 10 ∨ x = 11 ∨ x = 12 := by omega
    unfold countOf at *
    rcases hxs with rfl | rfl | rfl | rfl | rfl | rfl | rfl | rfl | rfl | rfl | rfl | rfl | rfl <;>
      simp [-List.filter_filter, List.filter_cons, isOther, isMinor, i1, i2] <;> omega

end Chess

namespace Chess

theorem kind_minor (x : Nat) (hx : x ≤ 12) (ho : isOther x = true) :
    (decide (Spec.kindOfPc x = 2) || decide (Spec.kindOfPc x = 3)) = isMinor x := by
  have hxs : x = 0 ∨ x = 1 ∨ x = 2 ∨ x = 3 ∨ x = 4 ∨ x = 5 ∨ x = 6 ∨ x = 7 ∨ x = 8 ∨ x = 9 ∨ x = 10 ∨ x = 11 ∨ x = 12 := by omega
  rcases hxs with rfl | rfl | rfl | rfl | rfl | rfl | rfl | rfl | rfl | rfl | rfl | rfl | rfl <;> first | rfl | (simp [isOther] at ho)

theorem digits_unique (c1 c2 c3 c4 c5 c7 c8 c9 c10 c11 : Nat)
    (h1 : c1 < 16) (h2 : c2 < 16) (h3 : c3 < 16) (h4 : c4 < 16) (h5 : c5 < 16) (h7 : c7 < 16) (h8 : c8 < 16) (h9 : c9 < 16)
    (h10 : c10 < 16) (h11 : c11 < 16)
    (d1 d2 d3 d4 d5 d7 d8 d9 d10 d11 : Nat)
    (g1 : d1 < 16) (g2 : d2 < 16) (g3 : d3 < 16) (g4 : d4 < 16) (g5 : d5 < 16) (g7 : d7 < 16) (g8 : d8 < 16) (g9 : d9 < 16)
    (g10 : d10 < 16) (_g11 : d11 < 16)
    (h : c1 * 16 + c2 * 256 + c3 * 4096 + c4 * 65536 + c5 * 1048576 + c7 * 268435456 + c8 * 4294967296 + c9 * 68719476736 +
          c10 * 1099511627776 + c11 * 17592186044416 =
         d1 * 16 + d2 * 256 + d3 * 4096 + d4 * 65536 + d5 * 1048576 + d7 * 268435456 + d8 * 4294967296 + d9 * 68719476736 +
          d10 * 1099511627776 + d11 * 17592186044416) :
    c1 = d1 ∧ c2 = d2 ∧ c3 = d3 ∧ c4 = d4 ∧ c5 = d5 ∧ c7 = d7 ∧ c8 = d8 ∧ c9 = d9 ∧ c10 = d10 ∧ c11 = d11 := by
  have e1 : c1 = d1 := by omega
  subst e1
  have e2 : c2 = d2 := by omega
  subst e2
  have e3 : c3 = d3 := by omega
  subst e3
  have e4 : c4 = d4 := by omega
  subst e4
  have e5 : c5 = d5 := by omega
  subst e5
  have e7 : c7 = d7 := by omega
  subst e7
  have e8 : c8 = d8 := by omega
  subst e8
  have e9 : c9 = d9 := by omega
  subst e9
  have e10 : c10 = d10 := by omega
  subst e10
  have e11 : c11 = d11 := by omega
  exact ⟨rfl, rfl, rfl, rfl, rfl, rfl, rfl, rfl, rfl, e11⟩

theorem pcv_arith (c1 c2 c3 c4 c5 c7 c8 c9 c10 c11 : Nat)
    (h1 : c1 < 16) (h2 : c2 < 16) (h3 : c3 < 16) (h4 : c4 < 16) (h5 : c5 < 16) (h7 : c7 < 16) (h8 : c8 < 16) (h9 : c9 < 16)
    (h10 : c10 < 16) (h11 : c11 < 16) (P : Nat)
    (hP : P = c1 * 16 + c2 * 256 + c3 * 4096 + c4 * 65536 + c5 * 1048576 + c7 * 268435456 + c8 * 4294967296 + c9 * 68719476736 +
          c10 * 1099511627776 + c11 * 17592186044416) :
    (P = 0 ∨ P = 4294967296 ∨ P = 68719476736 ∨ P = 256 ∨ P = 4096) ↔
      (c1 + c2 + c3 + c4 + c5 + c7 + c8 + c9 + c10 + c11 = 0 ∨
       (c1 + c2 + c3 + c4 + c5 + c7 + c8 + c9 + c10 + c11 = 1 ∧ c2 + c3 + c8 + c9 = 1)) := by
  have key : ∀ d1 d2 d3 d4 d5 d7 d8 d9 d10 d11 : Nat, d1 < 16 → d2 < 16 → d3 < 16 → d4 < 16 → d5 < 16 → d7 < 16 → d8 < 16 → d9 < 16 →
      d10 < 16 → d11 < 16 →
      P = d1 * 16 + d2 * 256 + d3 * 4096 + d4 * 65536 + d5 * 1048576 + d7 * 268435456 + d8 * 4294967296 + d9 * 68719476736 +
          d10 * 1099511627776 + d11 * 17592186044416 →
      c1 = d1 ∧ c2 = d2 ∧ c3 = d3 ∧ c4 = d4 ∧ c5 = d5 ∧ c7 = d7 ∧ c8 = d8 ∧ c9 = d9 ∧ c10 = d10 ∧ c11 = d11 := by
    intro d1 d2 d3 d4 d5 d7 d8 d9 d10 d11 g1 g2 g3 g4 g5 g7 g8 g9 g10 g11 hd
    exact digits_unique c1 c2 c3 c4 c5 c7 c8 c9 c10 c11 h1 h2 h3 h4 h5 h7 h8 h9 h10 h11 d1 d2 d3 d4 d5 d7 d8 d9 d10 d11
      g1 g2 g3 g4 g5 g7 g8 g9 g10 g11 (by rw [← hP, hd])
  constructor
  · rintro (h | h | h | h | h)
    · obtain ⟨a1, a2, a3, a4, a5, a7, a8, a9, a10, a11⟩ := key 0 0 0 0 0 0 0 0 0 0 (by decide) (by decide) (by decide) (by decide) (by decide) (by decide) (by decide) (by decide) (by decide) (by decide) (by rw [h])
      left; omega
    · obtain ⟨a1, a2, a3, a4, a5, a7, a8, a9, a10, a11⟩ := key 0 0 0 0 0 0 1 0 0 0 (by decide) (by decide) (by decide) (by decide) (by decide) (by decide) (by decide) (by decide) (by decide) (by decide) (by rw [h])
      right; omega
    · obtain ⟨a1, a2, a3, a4, a5, a7, a8, a9, a10, a11⟩ := key 0 0 0 0 0 0 0 1 0 0 (by decide) (by decide) (by decide) (by decide) (by decide) (by decide) (by decide) (by decide) (by decide) (by decide) (by rw [h])
      right; omega
    · obtain ⟨a1, a2, a3, a4, a5, a7, a8, a9, a10, a11⟩ := key 0 1 0 0 0 0 0 0 0 0 (by decide) (by decide) (by decide) (by decide) (by decide) (by decide) (by decide) (by decide) (by decide) (by decide) (by rw [h])
      right; omega
    · obtain ⟨a1, a2, a3, a4, a5, a7, a8, a9, a10, a11⟩ := key 0 0 1 0 0 0 0 0 0 0 (by decide) (by decide) (by decide) (by decide) (by decide) (by decide) (by decide) (by decide) (by decide) (by decide) (by rw [h])
      right; omega
  · rintro (h | ⟨ht, hm⟩)
    · have : c1 = 0 ∧ c2 = 0 ∧ c3 = 0 ∧ c4 = 0 ∧ c5 = 0 ∧ c7 = 0 ∧ c8 = 0 ∧ c9 = 0 ∧ c10 = 0 ∧ c11 = 0 := by omega
      obtain ⟨rfl, rfl, rfl, rfl, rfl, rfl, rfl, rfl, rfl, rfl⟩ := this
      left; rw [hP]
    · have hz : c1 = 0 ∧ c4 = 0 ∧ c5 = 0 ∧ c7 = 0 ∧ c10 = 0 ∧ c11 = 0 := by omega
      obtain ⟨rfl, rfl, rfl, rfl, rfl, rfl⟩ := hz
      have hw : (c2 = 1 ∧ c3 = 0 ∧ c8 = 0 ∧ c9 = 0) ∨ (c2 = 0 ∧ c3 = 1 ∧ c8 = 0 ∧ c9 = 0) ∨ (c2 = 0 ∧ c3 = 0 ∧ c8 = 1 ∧ c9 = 0) ∨
          (c2 = 0 ∧ c3 = 0 ∧ c8 = 0 ∧ c9 = 1) := by omega
      rcases hw with ⟨rfl, rfl, rfl, rfl⟩ | ⟨rfl, rfl, rfl, rfl⟩ | ⟨rfl, rfl, rfl, rfl⟩ | ⟨rfl, rfl, rfl, rfl⟩
      · right; right; right; left; rw [hP]
      · right; right; right; right; rw [hP]
      · right; left; rw [hP]
      · right; right; left; rw [hP]

/-- the rules-level test in terms of the two counts -/
theorem insufficient_counts (l : List Nat) (hl : ∀ x, x ∈ l → x ≤ 12 ∧ isOther x = true) :
    (l.isEmpty || (decide (l.length = 1) && (decide (Spec.kindOfPc (l.headD 0) = 2) || decide (Spec.kindOfPc (l.headD 0) = 3)))) = true ↔
      (l.length = 0 ∨ (l.length = 1 ∧ (l.filter isMinor).length = 1)) := by
  cases l with
  | nil => simp
  | cons x rest =>
    have hx := hl x (by simp)
    have hhead : (x :: rest).headD 0 = x := rfl
    rw [hhead, kind_minor x hx.1 hx.2]
    cases rest with
    | nil =>
      by_cases hm : isMinor x = true
      · simp [hm]
      · have : isMinor x = false := by simpa using hm
        simp [this]
    | cons y ys => simp

/-- MATERIAL EQUIVALENCE (C07): packed-count test = "bare kings or a single minor piece" -/
theorem material_eq (b : List Nat) (hb : ∀ x, x ∈ b → x ≤ 12)
    (hc : countOf b 1 < 16 ∧ countOf b 2 < 16 ∧ countOf b 3 < 16 ∧ countOf b 4 < 16 ∧ countOf b 5 < 16 ∧ countOf b 7 < 16 ∧
          countOf b 8 < 16 ∧ countOf b 9 < 16 ∧ countOf b 10 < 16 ∧ countOf b 11 < 16) :
    notEnoughPCV.contains (pcv b) = Spec.insufficientMaterial b := by
  obtain ⟨h1, h2, h3, h4, h5, h7, h8, h9, h10, h11⟩ := hc
  obtain ⟨hT, hM⟩ := filter_counts b hb
  have hp : pcv b = countOf b 1 * 2 ^ 4 + countOf b 2 * 2 ^ 8 + countOf b 3 * 2 ^ 12 + countOf b 4 * 2 ^ 16 + countOf b 5 * 2 ^ 20 +
      countOf b 7 * 2 ^ 28 + countOf b 8 * 2 ^ 32 + countOf b 9 * 2 ^ 36 + countOf b 10 * 2 ^ 40 + countOf b 11 * 2 ^ 44 :=
    pcv_sum _ _ _ _ _ _ _ _ _ _ h1 h2 h3 h4 h5 h7 h8 h9 h10 h11
  have hspec : Spec.insufficientMaterial b =
      ((b.filter isOther).isEmpty || (decide ((b.filter isOther).length = 1) &&
        (decide (Spec.kindOfPc ((b.filter isOther).headD 0) = 2) || decide (Spec.kindOfPc ((b.filter isOther).headD 0) = 3)))) := rfl
  rw [hspec]
  apply Bool.eq_iff_iff.2
  have hmodel : notEnoughPCV.contains (pcv b) = true ↔
      (pcv b = 0 ∨ pcv b = 2 ^ 32 ∨ pcv b = 2 ^ 36 ∨ pcv b = 2 ^ 8 ∨ pcv b = 2 ^ 12) := by
    unfold notEnoughPCV
    simp [Nat.shiftLeft_eq]
  have e4 : (2:Nat) ^ 4 = 16 := rfl
  have e8 : (2:Nat) ^ 8 = 256 := rfl
  have e12 : (2:Nat) ^ 12 = 4096 := rfl
  have e16 : (2:Nat) ^ 16 = 65536 := rfl
  have e20 : (2:Nat) ^ 20 = 1048576 := rfl
  have e28 : (2:Nat) ^ 28 = 268435456 := rfl
  have e32 : (2:Nat) ^ 32 = 4294967296 := rfl
  have e36 : (2:Nat) ^ 36 = 68719476736 := rfl
  have e40 : (2:Nat) ^ 40 = 1099511627776 := rfl
  have e44 : (2:Nat) ^ 44 = 17592186044416 := rfl
  rw [e4, e8, e12, e16, e20, e28, e32, e36, e40, e44] at hp
  rw [hmodel, e32, e36, e8, e12,
    pcv_arith _ _ _ _ _ _ _ _ _ _ h1 h2 h3 h4 h5 h7 h8 h9 h10 h11 (pcv b) hp,
    insufficient_counts (b.filter isOther) (fun x hx => ⟨hb x (List.mem_filter.1 hx).1, (List.mem_filter.1 hx).2⟩), hT, hM]

end Chess
