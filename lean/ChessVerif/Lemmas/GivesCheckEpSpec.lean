/-
  Lemmas/GivesCheckEpSpec.lean — `move_gives_check` against the rules for an en-passant capture.
-/
import ChessVerif.Lemmas.GivesCheckEp
import ChessVerif.Lemmas.GivesCheckSpec
import ChessVerif.Lemmas.LegalFacts
namespace Chess

/-- the engine's computation for an en-passant capture is the expression analysed in Lemmas/GivesCheckEp -/
theorem gives_check_ep (p : Position) (m kq : Nat) (hc0 : moveCastling m = 0) (hpromo : movePromo m = 0)
    (hkind : kindOf (p.at (moveFrom m)) = PAWN) (hep : moveTo m = p.ep) (hl : p.board.length = 64) (hking : KingAt p.board (1 - p.side) kq) :
    moveGivesCheck p m = givesCheckExprEp p (moveFrom m) (moveTo m) (mkSquare (rankOf (moveFrom m)) (fileOf (moveTo m))) kq := by
  have hks : kingSq p.board (1 - p.side) = kq := kingSq_eq p.board (1 - p.side) kq hl hking
  have hck : checkingKind p m = PAWN := by unfold checkingKind; rw [if_neg (by simp [hpromo]), hkind]
  unfold moveGivesCheck givesCheckExprEp
  simp only []
  rw [if_neg (by rw [hc0]; simp), hks, hck]
  have hcond : kindOf (p.at (moveFrom m)) = PAWN ∧ moveTo m = p.ep := ⟨hkind, hep⟩
  simp only [hcond, and_self, ↓reduceIte]

theorem kingAt_afterEp (b : List Nat) (f t cap pc' c k : Nat) (hl : b.length = 64) (hf : f < 64) (ht : t < 64) (hcap : cap < 64) (hk : KingAt b c k)
    (hkf : k ≠ f) (hkt : k ≠ t) (hkc : k ≠ cap) (hpc : pc' ≠ mkPiece c KING) : KingAt (afterBoardEp b f t cap pc') c k := by
  refine ⟨hk.lt, ?_, ?_⟩
  · rw [afterEp_at b f t cap pc' k hl hf ht hcap, if_neg (fun e => hkc e.symm), if_neg (fun e => hkt e.symm), if_neg (fun e => hkf e.symm)]; exact hk.here
  · intro x hx hh
    rw [afterEp_at b f t cap pc' x hl hf ht hcap] at hh
    by_cases h3 : cap = x
    · rw [if_pos h3] at hh; exact absurd hh.symm (mkPiece_ne_zero c KING (by decide))
    · rw [if_neg h3] at hh
      by_cases h1 : t = x
      · rw [if_pos h1] at hh; exact absurd hh hpc
      · rw [if_neg h1] at hh
        by_cases h2 : f = x
        · rw [if_pos h2] at hh
          exact absurd hh.symm (mkPiece_ne_zero c KING (by decide))
        · rw [if_neg h2] at hh; exact hk.only x hx hh

/-- no king of colour c appears next to k when a non-king piece of colour c moves and a square is cleared -/
theorem kingNear_afterEp (b : List Nat) (f t cap pc' c k : Nat) (hl : b.length = 64) (hf : f < 64) (ht : t < 64) (hcap : cap < 64)
    (hpc : pc' ≠ mkPiece c KING) (h0 : kingNear b k c = false) : kingNear (afterBoardEp b f t cap pc') k c = false := by
  apply Bool.eq_false_iff.2
  intro h
  unfold kingNear at h
  simp only [List.any_eq_true, Bool.and_eq_true, decide_eq_true_eq] at h
  obtain ⟨d, hd, hon, hpc'⟩ := h
  have hm6 : Spec.mkPc c 6 = mkPiece c KING := mkPc_eq' _ 6 (by decide)
  rw [hm6] at hpc'
  have hpc2 : (afterBoardEp b f t cap pc').getD (Spec.sqOf (Spec.fileI k + d.1) (Spec.rankI k + d.2)) 0 = mkPiece c KING := hpc'
  rw [afterEp_at _ _ _ _ _ _ hl hf ht hcap] at hpc2
  have hold : b.getD (Spec.sqOf (Spec.fileI k + d.1) (Spec.rankI k + d.2)) 0 = mkPiece c KING := by
    by_cases h3 : cap = Spec.sqOf (Spec.fileI k + d.1) (Spec.rankI k + d.2)
    · rw [if_pos h3] at hpc2; exact absurd hpc2.symm (mkPiece_ne_zero c KING (by decide))
    · rw [if_neg h3] at hpc2
      by_cases h1 : t = Spec.sqOf (Spec.fileI k + d.1) (Spec.rankI k + d.2)
      · rw [if_pos h1] at hpc2; exact absurd hpc2 hpc
      · rw [if_neg h1] at hpc2
        by_cases h2 : f = Spec.sqOf (Spec.fileI k + d.1) (Spec.rankI k + d.2)
        · rw [if_pos h2] at hpc2; exact absurd hpc2.symm (mkPiece_ne_zero c KING (by decide))
        · rw [if_neg h2] at hpc2; exact hpc2
  have : kingNear b k c = true := by
    unfold kingNear
    apply List.any_eq_true.2
    refine ⟨d, hd, ?_⟩
    rw [hon, hm6]
    simp only [Bool.true_and, decide_eq_true_eq]
    exact hold
  rw [h0] at this
  cases this

theorem gives_check_ep_spec (p : Position) (m : Spec.SMove) (ok : StepOK (absPos p) m) (hbo : BoardOK p.board)
    (hep : Spec.isEpCapture (absPos p) m = true)
    (kq : Nat) (hking : KingAt p.board (1 - p.side) kq)
    (hsafe : Spec.attacked p.board kq p.side = false)
    (hnear0 : kingNear p.board kq p.side = false) :
    moveGivesCheck p (codeOf (absPos p) m) = Spec.inCheck (Spec.apply (absPos p) m).board (1 - p.side) := by
  have hside : p.side ≤ 1 := ok.side
  have hopp : 1 - (1 - p.side) = p.side := by omega
  have hsrc : m.src < 64 := ok.src
  have hdstl : m.dst < 64 := ok.dst
  obtain ⟨hkP, hdep, hep64, hfile⟩ := (isEp_iff (absPos p) m).1 hep
  have hkP' : kindOf (p.board.getD m.src 0) = PAWN := hkP
  obtain ⟨_, _, htarget0, hpromo, h16, h48, hvictim0, hcs0⟩ := ok.ep ⟨hkP, hdep⟩
  have htarget : p.board.getD m.dst 0 = 0 := htarget0
  have hvictim : p.board.getD (if p.side = 0 then m.dst - 8 else m.dst + 8) 0 = mkPiece (1 - p.side) PAWN := hvictim0
  have hcs : (if p.side = 0 then m.dst - 8 else m.dst + 8) ≠ m.src := hcs0
  have hnc : Spec.isCastle p.board m = false := by
    unfold Spec.isCastle
    have : Spec.kindOfPc (Spec.pcAt p.board m.src) = 1 := hkP'
    rw [this]; simp
  have hcode : codeOf (absPos p) m = mkPromotion m.src m.dst m.promo := by
    unfold codeOf
    have : Spec.isCastle (absPos p).board m = false := hnc
    rw [this]; simp
  obtain ⟨cf, ct, cp, cc⟩ := Props.C16_encoding m.src m.dst m.promo hsrc hdstl (by omega)
  have hown : p.board.getD m.src 0 = mkPiece p.side PAWN := by
    have := ok.own.2
    have h' : p.board.getD m.src 0 = mkPiece p.side (kindOf (p.board.getD m.src 0)) := this
    rw [hkP'] at h'; exact h'
  -- the captured pawn's square, in the engine's and in the rules' terms
  have hgeo := ok.pawn hkP
  have hcapEq : mkSquare (rankOf m.src) (fileOf m.dst) = (if p.side = 0 then m.dst - 8 else m.dst + 8) := by
    unfold mkSquare rankOf fileOf
    have hs : p.side = 0 ∨ p.side = 1 := by omega
    rcases hs with e | e
    · rw [if_pos e]
      have g := hgeo.1 e
      rcases g with g | ⟨g, _⟩ | ⟨g, g2⟩
      · omega
      · omega
      · omega
    · rw [if_neg (by omega)]
      have g := hgeo.2 e
      rcases g with g | ⟨g, _⟩ | ⟨g, g2⟩
      · omega
      · omega
      · omega
  have hcapLt : (if p.side = 0 then m.dst - 8 else m.dst + 8) < 64 := by split <;> omega
  have hcapT : (if p.side = 0 then m.dst - 8 else m.dst + 8) ≠ m.dst := by split <;> omega
  have hsafeBB : attackedBB p kq (1 - p.side) = false := by
    have h := attacked_eq p kq (1 - p.side) (by omega) hking.lt hbo
    rw [hopp, hsafe] at h
    simp only [Bool.or_eq_false_iff] at h
    exact h.1
  rw [hcode, gives_check_ep p _ kq cc (by rw [cp]; exact hpromo) (by rw [cf]; exact hkP) (by rw [ct]; exact hdep) hbo.len hking, cf, ct, hcapEq]
  rw [gives_check_ep_core p m.src m.dst _ kq hside hbo hsrc hdstl hcapLt ok.ne hcs hcapT hown htarget hvictim hking hsafeBB]
  -- the board the rules produce
  have hboard : (Spec.apply (absPos p) m).board = afterBoardEp p.board m.src m.dst (if p.side = 0 then m.dst - 8 else m.dst + 8) (mkPiece p.side PAWN) := by
    rw [apply_board]
    simp only []
    have h1 : Spec.isCastle (absPos p).board m = false := hnc
    rw [h1, hep]
    simp only [Bool.false_eq_true, if_false, if_true]
    rw [if_neg (by simp [hpromo])]
    have : gd (absPos p).board m.src = mkPiece p.side PAWN := hown
    rw [this]; rfl
  have hpk : mkPiece p.side PAWN ≠ mkPiece (1 - p.side) KING := by
    intro h
    have := mkPiece_inj p.side PAWN (1 - p.side) KING hside (by omega) (by decide) (by decide) h
    omega
  have hpk' : mkPiece p.side PAWN ≠ mkPiece p.side KING := by
    intro h
    have := (mkPiece_inj p.side PAWN p.side KING hside hside (by decide) (by decide) h).2
    cases this
  have hksrc : kq ≠ m.src := by
    intro e
    have h1 := hking.here
    rw [e, hown] at h1; exact hpk h1
  have hkdst : kq ≠ m.dst := by
    intro e
    have h1 := hking.here
    rw [e, htarget] at h1; exact mkPiece_ne_zero _ _ (by decide) h1.symm
  have hkcap : kq ≠ (if p.side = 0 then m.dst - 8 else m.dst + 8) := by
    intro e
    have h1 := hking.here
    rw [e] at h1
    have hv : p.board.getD (if p.side = 0 then m.dst - 8 else m.dst + 8) 0 = mkPiece (1 - p.side) PAWN := hvictim
    rw [hv] at h1
    have := (mkPiece_inj (1 - p.side) PAWN (1 - p.side) KING (by omega) (by omega) (by decide) (by decide) h1).2
    cases this
  have hkingAfter := kingAt_afterEp p.board m.src m.dst _ (mkPiece p.side PAWN) (1 - p.side) kq hbo.len hsrc hdstl hcapLt hking hksrc hkdst hkcap hpk
  have hnearAfter := kingNear_afterEp p.board m.src m.dst (if p.side = 0 then m.dst - 8 else m.dst + 8) (mkPiece p.side PAWN) p.side kq hbo.len hsrc hdstl hcapLt hpk' hnear0
  have hpc12 : mkPiece p.side PAWN ≤ 12 := by unfold mkPiece PAWN; rw [if_neg (by omega)]; omega
  have okAfter : BoardOK (afterPosEp p m.src m.dst (if p.side = 0 then m.dst - 8 else m.dst + 8) (mkPiece p.side PAWN)).board :=
    afterEpOK p.board _ _ _ _ hbo hsrc hdstl hcapLt hpc12
  unfold Spec.inCheck
  rw [hboard, findKing_eq _ _ kq hkingAfter, hopp]
  have h := attacked_eq (afterPosEp p m.src m.dst (if p.side = 0 then m.dst - 8 else m.dst + 8) (mkPiece p.side PAWN)) kq (1 - p.side) (by omega) hking.lt okAfter
  rw [hopp] at h
  have hb2 : (afterPosEp p m.src m.dst (if p.side = 0 then m.dst - 8 else m.dst + 8) (mkPiece p.side PAWN)).board =
      afterBoardEp p.board m.src m.dst (if p.side = 0 then m.dst - 8 else m.dst + 8) (mkPiece p.side PAWN) := rfl
  rw [hb2, hnearAfter, Bool.or_false] at h
  exact h

end Chess
