/-
  Lemmas/GenPins.lean — what `generate_pins` returns: each pin names a square of an own piece on one of the eight rays from the
  king, with that piece's kind and the ray; pins on different rays name different squares.  The bit-scan facts (lsb/msb of a non-empty
  subset of a ray lies on the ray) are finite tables over (king square, ray, subset of the ray) evaluated in the kernel.
-/
import ChessVerif.Lemmas.GenBasics
import ChessVerif.Lemmas.Attack
import ChessVerif.Model.Movegen
namespace Chess

def raysTabOK : Bool :=
  (List.range 64).all fun k => (List.range 8).all fun r =>
    decide (rays r k < two64) && !(rays r k).testBit k &&
    (List.range 8).all fun r2 => r == r2 || (rays r k &&& rays r2 k == 0)
theorem raysTabOK_true : raysTabOK = true := by decide +kernel

def pinPickOK : Bool :=
  (List.range 64).all fun k => (List.range 8).all fun r =>
    forallSubsets (fun sub => sub == 0 || (rays r k).testBit (if r < 4 then lsb sub else msb sub)) (bitsOf (rays r k)) 0
theorem pinPickOK_true : pinPickOK = true := by decide +kernel

def pinCodeOK : Bool :=
  (List.range 64).all fun sq => (List.range 8).all fun kind => (List.range 8).all fun ray =>
    pinSquare (mkPin sq kind ray) == sq && pinKind (mkPin sq kind ray) == kind && pinRay (mkPin sq kind ray) == ray
theorem pinCodeOK_true : pinCodeOK = true := by decide +kernel

theorem pin_fields (sq kind ray : Nat) (h1 : sq < 64) (h2 : kind < 8) (h3 : ray < 8) :
    pinSquare (mkPin sq kind ray) = sq ∧ pinKind (mkPin sq kind ray) = kind ∧ pinRay (mkPin sq kind ray) = ray := by
  have h := pinCodeOK_true
  simp only [pinCodeOK, List.all_eq_true, List.mem_range, Bool.and_eq_true, beq_iff_eq] at h
  have := h sq h1 kind h2 ray h3
  exact ⟨this.1.1, this.1.2, this.2⟩

theorem rays_facts (k r : Nat) (hk : k < 64) (hr : r < 8) :
    rays r k < two64 ∧ (rays r k).testBit k = false ∧ ∀ r2, r2 < 8 → r ≠ r2 → rays r k &&& rays r2 k = 0 := by
  have h := raysTabOK_true
  simp only [raysTabOK, List.all_eq_true, List.mem_range, Bool.and_eq_true, decide_eq_true_eq, Bool.not_eq_true', Bool.or_eq_true, beq_iff_eq] at h
  have := h k hk r hr
  refine ⟨this.1.1, this.1.2, ?_⟩
  intro r2 h2 hne
  rcases this.2 r2 h2 with e | e
  · exact absurd e hne
  · exact e

/-- the first (or last) set bit of a non-empty part of a ray lies on the ray -/
theorem pick_on_ray (k r : Nat) (hk : k < 64) (hr : r < 8) (occ : BB) (hne : rays r k &&& occ ≠ 0) :
    (rays r k).testBit (if r < 4 then lsb (rays r k &&& occ) else msb (rays r k &&& occ)) = true := by
  have h := pinPickOK_true
  simp only [pinPickOK, List.all_eq_true, List.mem_range] at h
  have := forallSubsets_sound _ _ 0 (h k hk r hr) occ
  rw [Nat.zero_or, restrict_bitsOf _ _ (rays_facts k r hk hr).1, Nat.and_comm] at this
  simp only [Bool.or_eq_true, beq_iff_eq] at this
  rcases this with e | e
  · exact absurd e hne
  · exact e

/-- what one entry of the pin list says -/
structure PinOK (p : Position) (pin : Nat) : Prop where
  ray : pinRay pin < 8
  sq : pinSquare pin < 64
  onRay : (rays (pinRay pin) (kingSq p.board p.side)).testBit (pinSquare pin) = true
  own : ((BBs.of p).color p.side).testBit (pinSquare pin) = true
  kind : pinKind pin = kindOf (p.board.getD (pinSquare pin) 0)

theorem sqBB_and_testBit (s : Nat) (X : BB) (h : sqBB s &&& X ≠ 0) : X.testBit s = true := (sqBB_and_ne_zero s X).1 h

theorem kindOf_lt8 (pc : Nat) : kindOf pc < 8 := by unfold kindOf; split <;> omega

theorem ite_none_eq_some {α : Type} (c : Prop) [Decidable c] (o : Option α) (y : α) : (if c then o else none) = some y ↔ c ∧ o = some y := by
  by_cases h : c
  · rw [if_pos h]
    constructor
    · intro e; exact ⟨h, e⟩
    · intro e; exact e.2
  · rw [if_neg h]
    constructor
    · intro e; cases e
    · intro e; exact absurd e.1 h

theorem genPinInRay_ok (p : Position) (ok : BoardOK p.board) (hs : p.side ≤ 1) (hk : kingSq p.board p.side < 64) (r : Nat) (hr : r < 8) (pin : Nat)
    (h : genPinInRay (BBs.of p) p.board p.side r = some pin) : PinOK p pin ∧ pinRay pin = r := by
  unfold genPinInRay at h
  simp only [] at h
  rw [ite_none_eq_some] at h
  obtain ⟨hmore, h⟩ := h
  rw [ite_none_eq_some] at h
  obtain ⟨hown, h⟩ := h
  rw [ite_none_eq_some] at h
  obtain ⟨_, h⟩ := h
  have hne : rays r (kingSq p.board p.side) &&& (BBs.of p).all ≠ 0 := by
    unfold moreThanOne at hmore
    simp only [Bool.and_eq_true, bne_iff_ne] at hmore
    exact hmore.1
  have hon := pick_on_ray _ r hk hr (BBs.of p).all hne
  have hownT := sqBB_and_testBit _ _ hown
  have hlt : (if r < 4 then lsb (rays r (kingSq p.board p.side) &&& (BBs.of p).all) else msb (rays r (kingSq p.board p.side) &&& (BBs.of p).all)) < 64 := by
    rw [color_testBit p p.side _ hs ok] at hownT
    simp only [Bool.and_eq_true, decide_eq_true_eq] at hownT
    exact hownT.1
  have hpin := (Option.some.inj h).symm
  obtain ⟨f1, f2, f3⟩ := pin_fields _ (kindOf (p.board.getD (if r < 4 then lsb (rays r (kingSq p.board p.side) &&& (BBs.of p).all) else msb (rays r (kingSq p.board p.side) &&& (BBs.of p).all)) 0)) r
    hlt (kindOf_lt8 _) hr
  rw [hpin]
  exact ⟨⟨by rw [f3]; exact hr, by rw [f1]; exact hlt, by rw [f1, f3]; exact hon, by rw [f1]; exact hownT, by rw [f2, f1]⟩, f3⟩

theorem mem_genPins (p : Position) (ok : BoardOK p.board) (hs : p.side ≤ 1) (hk : kingSq p.board p.side < 64) (pin : Nat)
    (h : pin ∈ genPins (BBs.of p) p.board p.side) : PinOK p pin := by
  unfold genPins at h
  rw [List.mem_filterMap] at h
  obtain ⟨r, hr, hp⟩ := h
  have hr8 : r < 8 := by simp at hr; omega
  exact (genPinInRay_ok p ok hs hk r hr8 pin hp).1

end Chess

namespace Chess

theorem nodup_of_map {α β : Type} (g : α → β) (l : List α) (h : (l.map g).Nodup) : l.Nodup := by
  induction l with
  | nil => exact List.Pairwise.nil
  | cons x xs ih =>
    have h' : List.Pairwise (· ≠ ·) (g x :: xs.map g) := h
    rw [List.pairwise_cons] at h'
    apply List.Pairwise.cons
    · intro y hy e
      exact h'.1 (g y) (List.mem_map.2 ⟨y, hy, rfl⟩) (by rw [e])
    · exact ih h'.2

theorem nodup_filterMap_key {α β γ : Type} (l : List α) (f : α → Option β) (g : β → γ) (hl : l.Nodup)
    (h : ∀ a, a ∈ l → ∀ b, b ∈ l → ∀ x y, f a = some x → f b = some y → g x = g y → a = b) : ((l.filterMap f).map g).Nodup := by
  induction l with
  | nil => exact List.Pairwise.nil
  | cons a as ih =>
    have hl' : List.Pairwise (· ≠ ·) (a :: as) := hl
    rw [List.pairwise_cons] at hl'
    have ih' := ih hl'.2 (fun a' ha b hb => h a' (List.mem_cons_of_mem _ ha) b (List.mem_cons_of_mem _ hb))
    rw [List.filterMap_cons]
    cases hfa : f a with
    | none => simpa using ih'
    | some x =>
      simp only [List.map_cons]
      apply List.Pairwise.cons
      · intro z hz e
        rw [List.mem_map] at hz
        obtain ⟨y, hy, rfl⟩ := hz
        rw [List.mem_filterMap] at hy
        obtain ⟨b, hb, hfb⟩ := hy
        have := h a List.mem_cons_self b (List.mem_cons_of_mem _ hb) x y hfa hfb e
        exact hl'.1 b hb this
      · exact ih'

theorem genPins_squares_nodup (p : Position) (ok : BoardOK p.board) (hs : p.side ≤ 1) (hk : kingSq p.board p.side < 64) :
    ((genPins (BBs.of p) p.board p.side).map pinSquare).Nodup := by
  unfold genPins
  apply nodup_filterMap_key _ _ _ (by decide)
  intro r1 hr1 r2 hr2 x y h1 h2 e
  have hr1' : r1 < 8 := by simp at hr1; omega
  have hr2' : r2 < 8 := by simp at hr2; omega
  obtain ⟨p1, q1⟩ := genPinInRay_ok p ok hs hk r1 hr1' x h1
  obtain ⟨p2, q2⟩ := genPinInRay_ok p ok hs hk r2 hr2' y h2
  apply Decidable.byContradiction
  intro hne
  have hdis := (rays_facts (kingSq p.board p.side) r1 hk hr1').2.2 r2 hr2' hne
  have t1 := p1.onRay
  have t2 := p2.onRay
  rw [q1] at t1
  rw [q2, ← e] at t2
  exact and_ne_zero_of_testBit _ _ _ t1 t2 hdis

theorem genPins_nodup (p : Position) (ok : BoardOK p.board) (hs : p.side ≤ 1) (hk : kingSq p.board p.side < 64) :
    (genPins (BBs.of p) p.board p.side).Nodup := nodup_of_map pinSquare _ (genPins_squares_nodup p ok hs hk)

/-- the pinned-squares bitboard the generator accumulates is exactly the set of squares named by the pins -/
theorem pinned_testBit (pins : List Nat) (acc : BB) (s : Nat) :
    (pins.foldl (fun acc pin => acc ||| sqBB (pinSquare pin)) acc).testBit s = true ↔ (acc.testBit s = true ∨ ∃ pin, pin ∈ pins ∧ pinSquare pin = s) := by
  induction pins generalizing acc with
  | nil => simp
  | cons x xs ih =>
    rw [List.foldl_cons, ih, Nat.testBit_or, sqBB_testBit]
    simp only [Bool.or_eq_true, decide_eq_true_eq, List.mem_cons]
    constructor
    · rintro ((h | h) | ⟨pin, hp, e⟩)
      · exact Or.inl h
      · exact Or.inr ⟨x, Or.inl rfl, h⟩
      · exact Or.inr ⟨pin, Or.inr hp, e⟩
    · rintro (h | ⟨pin, hp | hp, e⟩)
      · exact Or.inl (Or.inl h)
      · subst hp; exact Or.inl (Or.inr e)
      · exact Or.inr ⟨pin, hp, e⟩

end Chess
