/-
  Lemmas/KPKCert.lean — certificate checking for the KPK table (C12).

  `Wins` is the game-theoretic predicate "the pawn's side forces a win" as the least fixpoint described in Spec/KPK.lean.
  A table `T` (what the engine answers) together with a rank function `R` is a CERTIFICATE when two local conditions
  hold at every legal position:
    (A) where T says win: White to move has a winning step (safe promotion, or a legal successor that T calls won with a
        smaller rank); Black to move is mated, or cannot take the pawn, has a move, and every move reaches a legal T-won
        position of smaller rank;
    (B) where T says no win: White to move has no safe promotion and no legal successor that T calls won; Black to move is
        not mated and can take the pawn, or has no move (stalemate), or has a move to a position T calls not won.
  Then T = Wins on every legal position: (A) gives soundness by induction on the rank, (B) completeness by induction on
  the derivation of Wins.  Both conditions are decidable and are evaluated by the kernel (Props/C12gen).
-/
import ChessVerif.Spec.KPK
namespace Chess.Spec.KPK

/-- a position of the KPK game: `legal` plus a proper side to move -/
def legalP (q : Pos) : Bool := legal q && decide (q.stm ≤ 1) && decide (q.wk < 64) && decide (q.bk < 64)

def mated (q : Pos) : Bool :=
  (blackMoves q).1.isEmpty && !(blackMoves q).2 && (pawnAttacks q.wp).contains q.bk

/-- the pawn's side can force a win from q (least fixpoint) -/
inductive Wins : Pos → Prop
  | promo (q : Pos) : q.stm = 0 → legalP q = true → (whiteMoves q).2 = true → Wins q
  | whiteStep (q s : Pos) : q.stm = 0 → legalP q = true → s ∈ (whiteMoves q).1 → legalP s = true → Wins s → Wins q
  | mate (q : Pos) : q.stm = 1 → legalP q = true → mated q = true → Wins q
  | blackAll (q : Pos) : q.stm = 1 → legalP q = true → (blackMoves q).2 = false → (blackMoves q).1 ≠ [] →
      (∀ s, s ∈ (blackMoves q).1 → Wins s) → Wins q

/-- condition (A) at q -/
def condA (T : Pos → Bool) (R : Pos → Nat) (q : Pos) : Bool :=
  if q.stm = 0 then
    (whiteMoves q).2 || (whiteMoves q).1.any (fun s => legalP s && T s && decide (R s < R q))
  else
    mated q || (!(blackMoves q).2 && !(blackMoves q).1.isEmpty && (blackMoves q).1.all (fun s => legalP s && T s && decide (R s < R q)))

/-- condition (B) at q -/
def condB (T : Pos → Bool) (q : Pos) : Bool :=
  if q.stm = 0 then
    !(whiteMoves q).2 && (whiteMoves q).1.all (fun s => !(legalP s && T s))
  else
    !mated q && ((blackMoves q).2 || (blackMoves q).1.isEmpty || (blackMoves q).1.any (fun s => !T s))

/-- the whole local check at q -/
def certOK (T : Pos → Bool) (R : Pos → Nat) (q : Pos) : Bool :=
  !legalP q || (if T q then condA T R q else condB T q)

theorem stm_cases (q : Pos) (h : legalP q = true) : q.stm = 0 ∨ q.stm = 1 := by
  unfold legalP at h
  simp only [Bool.and_eq_true, decide_eq_true_eq] at h
  have := h.1.1.2
  omega

theorem sound (T : Pos → Bool) (R : Pos → Nat) (h : ∀ q, legalP q = true → T q = true → condA T R q = true) :
    ∀ n q, R q < n → legalP q = true → T q = true → Wins q := by
  intro n
  induction n with
  | zero => intro q hq; omega
  | succ n ih =>
    intro q hq hl ht
    have hA := h q hl ht
    unfold condA at hA
    rcases stm_cases q hl with h0 | h1
    · rw [if_pos h0] at hA
      simp only [Bool.or_eq_true, List.any_eq_true, Bool.and_eq_true, decide_eq_true_eq] at hA
      rcases hA with hp | ⟨s, hs, ⟨⟨hls, hts⟩, hr⟩⟩
      · exact Wins.promo q h0 hl hp
      · exact Wins.whiteStep q s h0 hl hs hls (ih s (by omega) hls hts)
    · have hne : ¬ q.stm = 0 := by omega
      rw [if_neg hne] at hA
      simp only [Bool.or_eq_true, Bool.and_eq_true, Bool.not_eq_true', List.all_eq_true, decide_eq_true_eq] at hA
      rcases hA with hm | ⟨⟨hc, hne'⟩, hall⟩
      · exact Wins.mate q h1 hl hm
      · apply Wins.blackAll q h1 hl hc
        · intro he; rw [he] at hne'; simp at hne'
        · intro s hs
          obtain ⟨⟨hls, hts⟩, hr⟩ := hall s hs
          exact ih s (by omega) hls hts

theorem complete (T : Pos → Bool) (h : ∀ q, legalP q = true → T q = false → condB T q = true) :
    ∀ q, Wins q → T q = true := by
  intro q hw
  induction hw with
  | promo q h0 hl hp =>
    cases ht : T q with
    | true => rfl
    | false =>
      have hB := h q hl ht
      unfold condB at hB
      rw [if_pos h0] at hB
      simp only [Bool.and_eq_true, Bool.not_eq_true'] at hB
      rw [hp] at hB
      exact absurd hB.1 (by decide)
  | whiteStep q s h0 hl hs hls _ ih =>
    cases ht : T q with
    | true => rfl
    | false =>
      have hB := h q hl ht
      unfold condB at hB
      rw [if_pos h0] at hB
      simp only [Bool.and_eq_true, Bool.not_eq_true', List.all_eq_true, Bool.and_eq_false_iff] at hB
      have := hB.2 s hs
      rcases this with h1 | h1
      · rw [hls] at h1; exact absurd h1 (by decide)
      · rw [ih] at h1; exact absurd h1 (by decide)
  | mate q h1 hl hm =>
    cases ht : T q with
    | true => rfl
    | false =>
      have hB := h q hl ht
      unfold condB at hB
      have hne : ¬ q.stm = 0 := by omega
      rw [if_neg hne] at hB
      simp only [Bool.and_eq_true, Bool.not_eq_true'] at hB
      rw [hm] at hB
      exact absurd hB.1 (by decide)
  | blackAll q h1 hl hc hne' _ ih =>
    cases ht : T q with
    | true => rfl
    | false =>
      have hB := h q hl ht
      unfold condB at hB
      have hne : ¬ q.stm = 0 := by omega
      rw [if_neg hne] at hB
      simp only [Bool.and_eq_true, Bool.not_eq_true', Bool.or_eq_true, List.any_eq_true] at hB
      rcases hB.2 with (hcc | hemp) | ⟨s, hs, hts⟩
      · rw [hc] at hcc; exact absurd hcc (by decide)
      · exfalso; apply hne'
        cases hl2 : (blackMoves q).1 with
        | nil => rfl
        | cons a b => rw [hl2] at hemp; simp at hemp
      · rw [ih s hs] at hts; exact absurd hts (by decide)

/-- a certificate pins the table to the game-theoretic truth -/
theorem cert_correct (T : Pos → Bool) (R : Pos → Nat) (h : ∀ q, certOK T R q = true) (q : Pos) (hl : legalP q = true) :
    T q = true ↔ Wins q := by
  have hA : ∀ q, legalP q = true → T q = true → condA T R q = true := by
    intro q hl ht
    have := h q
    unfold certOK at this
    rw [hl, ht] at this
    simpa using this
  have hB : ∀ q, legalP q = true → T q = false → condB T q = true := by
    intro q hl ht
    have := h q
    unfold certOK at this
    rw [hl, ht] at this
    simpa using this
  exact ⟨fun ht => sound T R hA (R q + 1) q (by omega) hl ht, fun hw => complete T hB q hw⟩

end Chess.Spec.KPK
