/-
  Lemmas/SingleCheckLegal.lean — in a single check, an ordinary non-king pseudo-legal move is legal exactly when its mover is not
  pinned and its destination is a bit of the generator's evasion masks (capture mask ∪ push mask).
-/
import ChessVerif.Lemmas.SingleCheckMask
import ChessVerif.Lemmas.ExactNoCheck
namespace Chess

theorem single_check_legal_iff (p : Position) (hwf : Spec.wf (absPos p) = true) (k cs : Nat) (hking : KingAt p.board p.side k)
    (hbit : (checkersBB (BBs.of p) p.board p.side).testBit cs = true)
    (hone : ∀ c, (checkersBB (BBs.of p) p.board p.side).testBit c = true → c = cs)
    (m : Spec.SMove) (hm : m ∈ Spec.pseudoMoves (absPos p))
    (hnc : Spec.isCastle p.board m = false) (hnep : Spec.isEpCapture (absPos p) m = false)
    (hnk : kindOf (p.board.getD m.src 0) ≠ KING) :
    m ∈ Spec.legalMoves (absPos p) ↔
      ((pinnedBB p).testBit m.src = false ∧ (checkersBB (BBs.of p) p.board p.side ||| pushMaskOf p k cs).testBit m.dst = true) := by
  obtain ⟨hbo, hside, _, _, _⟩ := wf_board_hyps _ hwf
  have ok : BoardOK p.board := hbo
  have hs : p.side ≤ 1 := hside
  have sok := stepOK_of_pseudo _ hwf m hm
  have hsrc : m.src < 64 := sok.src
  have hdst : m.dst < 64 := sok.dst
  have hne : m.src ≠ m.dst := sok.ne
  obtain ⟨k0, k', hk0, k1, k6, hsk, hcol, hiff⟩ := ordinary_legal_iff' p hwf m hm hnc hnep hnk
  have ek : k = k0 := hk0.only k hking.lt hking.here
  subst ek
  have hks : kingSq p.board p.side = k := kingSq_eq p.board p.side k ok.len hking
  have hcs : Checks p k cs := checks_of_bit p k cs hking.lt hks hbit
  obtain ⟨pmiff, _⟩ := pushMask_iff p ok hs k cs hking.lt hcs m.dst hdst
  rw [hiff]
  constructor
  · intro hsafe
    constructor
    · apply Bool.eq_false_iff.2
      intro hpin
      unfold pinnedBB at hpin
      rw [pinned_testBit] at hpin
      rcases hpin with h0 | ⟨pin, hpm, hps⟩
      · simp at h0
      · obtain ⟨r, s, rest, hpa, _, ha64, _⟩ := pin_scan_of_mem p ok hs k hking pin hpm
        rw [hps] at hpa
        have := pinned_in_check_exposed p k r m.src s rest m.dst k' cs hs ok hpa hsrc hdst hne ⟨k1, k6⟩ hking hcs
        rw [hsafe] at this; cases this
    · apply Decidable.byContradiction
      intro hT
      have hT' : (checkersBB (BBs.of p) p.board p.side ||| pushMaskOf p k cs).testBit m.dst = false := by simpa using hT
      rw [Nat.testBit_or] at hT'
      simp only [Bool.or_eq_false_iff] at hT'
      have hnot : m.dst ≠ cs ∧ ∀ r, r < 8 → cs ∈ rayList k r → thru (rayList k r) m.dst cs = true →
          (((BBs.of p).ck (1 - p.side) PAWN).testBit cs = true ∨ ((BBs.of p).ck (1 - p.side) KNIGHT).testBit cs = true) := by
        refine ⟨fun e => by rw [e, hbit] at hT'; exact Bool.noConfusion hT'.1, ?_⟩
        intro r hr hmem hth
        apply Decidable.byContradiction
        intro hno
        simp only [not_or, Bool.not_eq_true] at hno
        have := pmiff.2 ⟨r, hr, hmem, hth, hno.1, hno.2⟩
        rw [hT'.2] at this; cases this
      have := single_check_exposed p m.src m.dst k' k cs hs ok hsrc hdst hne ⟨k1, k6⟩ hking.lt hcol hcs hnot
      rw [hsafe] at this; cases this
  · rintro ⟨hunp, hT⟩
    have hneut : m.dst = cs ∨ ∃ r, r < 8 ∧ cs ∈ rayList k r ∧ thru (rayList k r) m.dst cs = true ∧
        ((BBs.of p).ck (1 - p.side) PAWN).testBit cs = false ∧ ((BBs.of p).ck (1 - p.side) KNIGHT).testBit cs = false := by
      rw [Nat.testBit_or] at hT
      simp only [Bool.or_eq_true] at hT
      rcases hT with h | h
      · exact Or.inl (hone _ h)
      · exact Or.inr (pmiff.1 h)
    exact single_check_safe p m.src m.dst k' k cs hs ok hsrc hdst hne ⟨k1, k6⟩ hcol hking hsk hone (unpinned_of_bit p m.src hunp) hneut

end Chess
