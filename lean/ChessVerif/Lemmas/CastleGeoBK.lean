/- back-rank geometry table of one castling, evaluated in the kernel (see Lemmas/GivesCheckCastle.lean: castleGeoB) -/
import ChessVerif.Lemmas.GivesCheckCastle
namespace Chess
theorem castleGeo_BK : castleGeoB 60 62 61 63 = true := by decide +kernel
end Chess
