/-
  Lemmas/EvalTotal.lean — the bound of the general (non-endgame) evaluation on well-formed positions.
-/
import ChessVerif.Lemmas.EvalSide
import ChessVerif.Lemmas.Attack
import ChessVerif.Lemmas.Refine
namespace Chess

/-- both sides' pawns (≤ 8 each) and pieces (≤ 10 knights, bishops, rooks, ≤ 9 queens each) -/
def totalB : Int := (8 * pawnB + 8 * pawnB) + (piecesB 10 10 10 9 + piecesB 10 10 10 9)

theorem side_lengths (p : Position) (hwf : Spec.wf (absPos p) = true) (side : Nat) (hs : side ≤ 1) :
    (bitsOf ((BBs.of p).ck side PAWN)).length ≤ 8 ∧ (bitsOf ((BBs.of p).ck side KNIGHT)).length ≤ 10 ∧
    (bitsOf ((BBs.of p).ck side BISHOP)).length ≤ 10 ∧ (bitsOf ((BBs.of p).ck side ROOK)).length ≤ 10 ∧
    (bitsOf ((BBs.of p).ck side QUEEN)).length ≤ 9 := by
  obtain ⟨hlen, w1, w2, w3, w4, w5, b1, b2, b3, b4, b5⟩ := wf_material _ hwf
  have hlen' : p.board.length = 64 := hlen
  rw [ck_eq p side PAWN hs (by decide), ck_eq p side KNIGHT hs (by decide), ck_eq p side BISHOP hs (by decide),
      ck_eq p side ROOK hs (by decide), ck_eq p side QUEEN hs (by decide)]
  rw [bitsOf_bbOfPiece_length _ _ hlen', bitsOf_bbOfPiece_length _ _ hlen', bitsOf_bbOfPiece_length _ _ hlen',
      bitsOf_bbOfPiece_length _ _ hlen', bitsOf_bbOfPiece_length _ _ hlen']
  have : side = 0 ∨ side = 1 := by omega
  rcases this with rfl | rfl
  · exact ⟨w1, w2, w3, w4, w5⟩
  · exact ⟨b1, b2, b3, b4, b5⟩

theorem evalWith_bound (p : Position) (hwf : Spec.wf (absPos p) = true) :
    -totalB ≤ evalWith p (pawnScore (BBs.of p)) ∧ evalWith p (pawnScore (BBs.of p)) ≤ totalB := by
  obtain ⟨p0, n0, b0, r0, q0⟩ := side_lengths p hwf 0 (by omega)
  obtain ⟨p1, n1, b1, r1, q1⟩ := side_lengths p hwf 1 (by omega)
  have hpawn : (pawnScore (BBs.of p)).within (8 * pawnB + 8 * pawnB) := by
    unfold pawnScore
    exact within_sub (scorePawns_within _ 0 8 p0) (scorePawns_within _ 1 8 p1)
  have hpieces := within_sub
    (scorePieces_within (BBs.of p) p.board p.castling 0 (setupSide (BBs.of p) p.board 0) (setupSide (BBs.of p) p.board 1) 10 10 10 9 n0 b0 r0 q0)
    (scorePieces_within (BBs.of p) p.board p.castling 1 (setupSide (BBs.of p) p.board 1) (setupSide (BBs.of p) p.board 0) 10 10 10 9 n1 b1 r1 q1)
  have hsum := within_add hpawn hpieces
  have hph := phase_bounds p.board
  have hc := combine_bound _ _ _ hsum hph.1 hph.2
  unfold evalWith totalB
  simp only []
  split <;> omega

end Chess
