/-
  Lemmas/PawnExact2.lean — direction "listed by the rules ⇒ generated" for pawn moves other than en passant, with the masks of the
  not-in-check branch.
-/
import ChessVerif.Lemmas.PawnExact
namespace Chess

abbrev genP (p : Position) (pawns : BB) : List Nat :=
  genPawnMoves p.side pawns (bnot (BBs.of p).all) (bnot (BBs.of p).all) ((BBs.of p).color (1 - p.side))

theorem w_push1 (p : Position) (e : p.side = 0) (ok : BoardOK p.board) (pawns : BB) (s k : Nat) (h8 : s + 8 < 64) (hpawn : pawns.testBit s = true)
    (hz : Spec.pcAt p.board (s + 8) = 0) (hk : (s / 8 = 6 ∧ (k = 5 ∨ k = 4 ∨ k = 3 ∨ k = 2)) ∨ (s / 8 ≠ 6 ∧ k = 0)) :
    mkPromotion s (s + 8) k ∈ genP p pawns := by
  have he := bnot_all_of_empty p ok (s + 8) h8 hz
  rcases hk with ⟨hr, hk⟩ | ⟨hr, hk⟩
  · exact pawn_gen_white p e pawns _ _ _ 2 s (s + 8) k (by decide) (by omega) h8 hpawn (by simp [pawnOff]) (by simp; exact ⟨hk, hr⟩)
      (by simp [pawnOff]) (by simp [pawnOff]) (by simp [pawnOff]) (fun _ => ⟨he, he⟩) (by simp)
  · exact pawn_gen_white p e pawns _ _ _ 5 s (s + 8) k (by decide) (by omega) h8 hpawn (by simp [pawnOff]) (by simp; exact ⟨hk, hr⟩)
      (by simp [pawnOff]) (by simp [pawnOff]) (by simp [pawnOff]) (fun _ => ⟨he, he⟩) (by simp)

theorem w_push2 (p : Position) (e : p.side = 0) (ok : BoardOK p.board) (pawns : BB) (s : Nat) (hr : s / 8 = 1) (hpawn : pawns.testBit s = true)
    (hz1 : Spec.pcAt p.board (s + 8) = 0) (hz2 : Spec.pcAt p.board (s + 16) = 0) : mkPromotion s (s + 16) 0 ∈ genP p pawns := by
  have he1 := bnot_all_of_empty p ok (s + 8) (by omega) hz1
  have he2 := bnot_all_of_empty p ok (s + 16) (by omega) hz2
  exact pawn_gen_white p e pawns _ _ _ 6 s (s + 16) 0 (by decide) (by omega) (by omega) hpawn (by simp [pawnOff]) (by simp; omega)
    (by simp [pawnOff]) (by simp [pawnOff]) (by simp [pawnOff]) (fun _ => ⟨he2, he2⟩) (fun _ => ⟨hr, he1⟩)

theorem w_cap9 (p : Position) (e : p.side = 0) (ok : BoardOK p.board) (pawns : BB) (s k : Nat) (h9 : s + 9 < 64) (hf : s % 8 ≠ 7) (hpawn : pawns.testBit s = true)
    (hen : Spec.isEnemy (Spec.pcAt p.board (s + 9)) p.side = true) (hk : (s / 8 = 6 ∧ (k = 5 ∨ k = 4 ∨ k = 3 ∨ k = 2)) ∨ (s / 8 ≠ 6 ∧ k = 0)) :
    mkPromotion s (s + 9) k ∈ genP p pawns := by
  have hc := color_of_isEnemy p ok (by omega) (s + 9) h9 hen
  rcases hk with ⟨hr, hk⟩ | ⟨hr, hk⟩
  · exact pawn_gen_white p e pawns _ _ _ 0 s (s + 9) k (by decide) (by omega) h9 hpawn (by simp [pawnOff]) (by simp; exact ⟨hk, hr⟩)
      (fun _ => hf) (by simp [pawnOff]) (fun _ => hc) (by simp [pawnOff]) (by simp)
  · exact pawn_gen_white p e pawns _ _ _ 3 s (s + 9) k (by decide) (by omega) h9 hpawn (by simp [pawnOff]) (by simp; exact ⟨hk, hr⟩)
      (fun _ => hf) (by simp [pawnOff]) (fun _ => hc) (by simp [pawnOff]) (by simp)

theorem w_cap7 (p : Position) (e : p.side = 0) (ok : BoardOK p.board) (pawns : BB) (s k : Nat) (h7 : s + 7 < 64) (hf : s % 8 ≠ 0) (hpawn : pawns.testBit s = true)
    (hen : Spec.isEnemy (Spec.pcAt p.board (s + 7)) p.side = true) (hk : (s / 8 = 6 ∧ (k = 5 ∨ k = 4 ∨ k = 3 ∨ k = 2)) ∨ (s / 8 ≠ 6 ∧ k = 0)) :
    mkPromotion s (s + 7) k ∈ genP p pawns := by
  have hc := color_of_isEnemy p ok (by omega) (s + 7) h7 hen
  rcases hk with ⟨hr, hk⟩ | ⟨hr, hk⟩
  · exact pawn_gen_white p e pawns _ _ _ 1 s (s + 7) k (by decide) (by omega) h7 hpawn (by simp [pawnOff]) (by simp; exact ⟨hk, hr⟩)
      (by simp [pawnOff]) (fun _ => hf) (fun _ => hc) (by simp [pawnOff]) (by simp)
  · exact pawn_gen_white p e pawns _ _ _ 4 s (s + 7) k (by decide) (by omega) h7 hpawn (by simp [pawnOff]) (by simp; exact ⟨hk, hr⟩)
      (by simp [pawnOff]) (fun _ => hf) (fun _ => hc) (by simp [pawnOff]) (by simp)

theorem b_push1 (p : Position) (e : p.side = 1) (ok : BoardOK p.board) (pawns : BB) (s k : Nat) (hs64 : s < 64) (h8 : 8 ≤ s) (hpawn : pawns.testBit s = true)
    (hz : Spec.pcAt p.board (s - 8) = 0) (hk : (s / 8 = 1 ∧ (k = 5 ∨ k = 4 ∨ k = 3 ∨ k = 2)) ∨ (s / 8 ≠ 1 ∧ k = 0)) :
    mkPromotion s (s - 8) k ∈ genP p pawns := by
  have he := bnot_all_of_empty p ok (s - 8) (by omega) hz
  rcases hk with ⟨hr, hk⟩ | ⟨hr, hk⟩
  · exact pawn_gen_black p e pawns _ _ _ 2 s (s - 8) k (by decide) hs64 (by omega) hpawn (by simp [pawnOff]; omega) (by simp; exact ⟨hk, hr⟩)
      (by simp [pawnOff]) (by simp [pawnOff]) (by simp [pawnOff]) (fun _ => ⟨he, he⟩) (by simp)
  · exact pawn_gen_black p e pawns _ _ _ 5 s (s - 8) k (by decide) hs64 (by omega) hpawn (by simp [pawnOff]; omega) (by simp; exact ⟨hk, hr⟩)
      (by simp [pawnOff]) (by simp [pawnOff]) (by simp [pawnOff]) (fun _ => ⟨he, he⟩) (by simp)

theorem b_push2 (p : Position) (e : p.side = 1) (ok : BoardOK p.board) (pawns : BB) (s : Nat) (hr : s / 8 = 6) (hpawn : pawns.testBit s = true)
    (hz1 : Spec.pcAt p.board (s - 8) = 0) (hz2 : Spec.pcAt p.board (s - 16) = 0) : mkPromotion s (s - 16) 0 ∈ genP p pawns := by
  have he1 := bnot_all_of_empty p ok (s - 8) (by omega) hz1
  have he2 := bnot_all_of_empty p ok (s - 16) (by omega) hz2
  exact pawn_gen_black p e pawns _ _ _ 6 s (s - 16) 0 (by decide) (by omega) (by omega) hpawn (by simp [pawnOff]; omega) (by simp; omega)
    (by simp [pawnOff]) (by simp [pawnOff]) (by simp [pawnOff]) (fun _ => ⟨he2, he2⟩) (fun _ => ⟨hr, he1⟩)

theorem b_cap9 (p : Position) (e : p.side = 1) (ok : BoardOK p.board) (pawns : BB) (s k : Nat) (hs64 : s < 64) (h9 : 9 ≤ s) (hf : s % 8 ≠ 0) (hpawn : pawns.testBit s = true)
    (hen : Spec.isEnemy (Spec.pcAt p.board (s - 9)) p.side = true) (hk : (s / 8 = 1 ∧ (k = 5 ∨ k = 4 ∨ k = 3 ∨ k = 2)) ∨ (s / 8 ≠ 1 ∧ k = 0)) :
    mkPromotion s (s - 9) k ∈ genP p pawns := by
  have hc := color_of_isEnemy p ok (by omega) (s - 9) (by omega) hen
  rcases hk with ⟨hr, hk⟩ | ⟨hr, hk⟩
  · exact pawn_gen_black p e pawns _ _ _ 0 s (s - 9) k (by decide) hs64 (by omega) hpawn (by simp [pawnOff]; omega) (by simp; exact ⟨hk, hr⟩)
      (fun _ => hf) (by simp [pawnOff]) (fun _ => hc) (by simp [pawnOff]) (by simp)
  · exact pawn_gen_black p e pawns _ _ _ 3 s (s - 9) k (by decide) hs64 (by omega) hpawn (by simp [pawnOff]; omega) (by simp; exact ⟨hk, hr⟩)
      (fun _ => hf) (by simp [pawnOff]) (fun _ => hc) (by simp [pawnOff]) (by simp)

theorem b_cap7 (p : Position) (e : p.side = 1) (ok : BoardOK p.board) (pawns : BB) (s k : Nat) (hs64 : s < 64) (h7 : 7 ≤ s) (hf : s % 8 ≠ 7) (hpawn : pawns.testBit s = true)
    (hen : Spec.isEnemy (Spec.pcAt p.board (s - 7)) p.side = true) (hk : (s / 8 = 1 ∧ (k = 5 ∨ k = 4 ∨ k = 3 ∨ k = 2)) ∨ (s / 8 ≠ 1 ∧ k = 0)) :
    mkPromotion s (s - 7) k ∈ genP p pawns := by
  have hc := color_of_isEnemy p ok (by omega) (s - 7) (by omega) hen
  rcases hk with ⟨hr, hk⟩ | ⟨hr, hk⟩
  · exact pawn_gen_black p e pawns _ _ _ 1 s (s - 7) k (by decide) hs64 (by omega) hpawn (by simp [pawnOff]; omega) (by simp; exact ⟨hk, hr⟩)
      (by simp [pawnOff]) (fun _ => hf) (fun _ => hc) (by simp [pawnOff]) (by simp)
  · exact pawn_gen_black p e pawns _ _ _ 4 s (s - 7) k (by decide) hs64 (by omega) hpawn (by simp [pawnOff]; omega) (by simp; exact ⟨hk, hr⟩)
      (by simp [pawnOff]) (fun _ => hf) (fun _ => hc) (by simp [pawnOff]) (by simp)

end Chess

namespace Chess

theorem promo_of_rank (t : Nat) (last : Int) (k : Nat) (r6 : Prop)
    (hk : (Spec.rankI t = last ∧ (k = 5 ∨ k = 4 ∨ k = 3 ∨ k = 2)) ∨ (Spec.rankI t ≠ last ∧ k = 0)) (hr : Spec.rankI t = last ↔ r6) :
    (r6 ∧ (k = 5 ∨ k = 4 ∨ k = 3 ∨ k = 2)) ∨ (¬ r6 ∧ k = 0) := by
  rcases hk with ⟨a, b⟩ | ⟨a, b⟩
  · exact Or.inl ⟨hr.1 a, b⟩
  · exact Or.inr ⟨fun h => a (hr.2 h), b⟩

/-- LISTED ⇒ GENERATED (white) -/
theorem pawn_listed_gen_white (p : Position) (e : p.side = 0) (ok : BoardOK p.board) (pawns : BB) (s : Nat) (hs64 : s < 64)
    (hpawn : pawns.testBit s = true) (m : Spec.SMove) (hm : m ∈ Spec.pawnMoves (absPos p) s)
    (hnep : ¬ (p.ep ≠ 64 ∧ m.dst = p.ep ∧ Spec.isEnemy (Spec.pcAt p.board m.dst) p.side = false ∧ Spec.fileI s ≠ Spec.fileI m.dst)) :
    m.src = s ∧ mkPromotion s m.dst m.promo ∈ genP p pawns := by
  unfold Spec.pawnMoves at hm
  simp only [] at hm
  have hside : (absPos p).side = p.side := rfl
  have hboard : (absPos p).board = p.board := rfl
  have hepd : (absPos p).ep = p.ep := rfl
  rw [hside, hboard, hepd, e] at hm
  simp only [if_true, List.mem_append] at hm
  rcases hm with (h1 | h2) | h3
  · by_cases c : (Spec.onBoard (Spec.fileI s) (Spec.rankI s + 1) && decide (Spec.pcAt p.board (Spec.sqOf (Spec.fileI s) (Spec.rankI s + 1)) = 0)) = true
    · rw [if_pos c] at h1
      simp only [Bool.and_eq_true, decide_eq_true_eq] at c
      obtain ⟨hon, hz⟩ := c
      have hon' : Spec.onBoard (Spec.fileI s + 0) (Spec.rankI s + 1) = true := by simpa using hon
      obtain ⟨v1, v2, _, _, _, _⟩ := sqOf_val s hs64 0 1 hon'
      have et : Spec.sqOf (Spec.fileI s) (Spec.rankI s + 1) = s + 8 := by
        have : Spec.sqOf (Spec.fileI s + 0) (Spec.rankI s + 1) = s + 8 := by omega
        simpa using this
      rw [et] at h1 hz
      obtain ⟨a, b, hk⟩ := mem_mk s (s + 8) 7 m h1
      have hr : Spec.rankI (s + 8) = 7 ↔ s / 8 = 6 := by unfold Spec.rankI; omega
      refine ⟨a, ?_⟩
      rw [b]
      exact w_push1 p e ok pawns s m.promo (by omega) hpawn hz (promo_of_rank _ _ _ _ hk hr)
    · rw [if_neg c] at h1; simp at h1
  · by_cases c : (decide (Spec.rankI s = 1) && decide (Spec.pcAt p.board (Spec.sqOf (Spec.fileI s) (Spec.rankI s + 1)) = 0) &&
        decide (Spec.pcAt p.board (Spec.sqOf (Spec.fileI s) (Spec.rankI s + 2 * 1)) = 0)) = true
    · rw [if_pos c] at h2
      simp only [Bool.and_eq_true, decide_eq_true_eq] at c
      obtain ⟨⟨hr1, hz1⟩, hz2⟩ := c
      have hr1' : s / 8 = 1 := by unfold Spec.rankI at hr1; omega
      have et1 : Spec.sqOf (Spec.fileI s) (Spec.rankI s + 1) = s + 8 := by unfold Spec.sqOf Spec.fileI Spec.rankI; omega
      have et2 : Spec.sqOf (Spec.fileI s) (Spec.rankI s + 2 * 1) = s + 16 := by unfold Spec.sqOf Spec.fileI Spec.rankI; omega
      rw [et1] at hz1
      rw [et2] at hz2 h2
      simp only [List.mem_singleton] at h2
      subst h2
      exact ⟨rfl, w_push2 p e ok pawns s hr1' hpawn hz1 hz2⟩
    · rw [if_neg c] at h2; simp at h2
  · simp only [List.flatMap_cons, List.flatMap_nil, List.append_nil, List.mem_append] at h3
    rcases h3 with h3 | h3
    · by_cases hon : Spec.onBoard (Spec.fileI s - 1) (Spec.rankI s + 1) = true
      · rw [if_pos hon] at h3
        have hon' : Spec.onBoard (Spec.fileI s + -1) (Spec.rankI s + 1) = true := hon
        obtain ⟨v1, v2, v3, _, _, _⟩ := sqOf_val s hs64 (-1) 1 hon'
        have et : Spec.sqOf (Spec.fileI s - 1) (Spec.rankI s + 1) = s + 7 := by
          have : Spec.sqOf (Spec.fileI s + -1) (Spec.rankI s + 1) = s + 7 := by omega
          exact this
        rw [et] at h3
        by_cases hen : Spec.isEnemy (Spec.pcAt p.board (s + 7)) 0 = true
        · rw [if_pos hen] at h3
          obtain ⟨a, b, hk⟩ := mem_mk s (s + 7) 7 m h3
          have hr : Spec.rankI (s + 7) = 7 ↔ s / 8 = 6 := by unfold Spec.rankI; omega
          refine ⟨a, ?_⟩
          rw [b]
          exact w_cap7 p e ok pawns s m.promo (by omega) (by omega) hpawn (by rw [e]; exact hen) (promo_of_rank _ _ _ _ hk hr)
        · rw [if_neg hen] at h3
          exfalso
          by_cases hep : (decide (p.ep ≠ 64) && decide (s + 7 = p.ep)) = true
          · rw [if_pos hep] at h3
            simp only [List.mem_singleton] at h3
            simp only [Bool.and_eq_true, decide_eq_true_eq] at hep
            have hd : m.dst = s + 7 := by rw [h3]
            apply hnep
            rw [hd, e]
            refine ⟨hep.1, hep.2, by simpa using hen, ?_⟩
            unfold Spec.fileI; omega
          · rw [if_neg hep] at h3; simp at h3
      · rw [if_neg hon] at h3; simp at h3
    · by_cases hon : Spec.onBoard (Spec.fileI s + 1) (Spec.rankI s + 1) = true
      · rw [if_pos hon] at h3
        obtain ⟨v1, v2, _, v4, _, _⟩ := sqOf_val s hs64 1 1 hon
        have et : Spec.sqOf (Spec.fileI s + 1) (Spec.rankI s + 1) = s + 9 := by omega
        rw [et] at h3
        by_cases hen : Spec.isEnemy (Spec.pcAt p.board (s + 9)) 0 = true
        · rw [if_pos hen] at h3
          obtain ⟨a, b, hk⟩ := mem_mk s (s + 9) 7 m h3
          have hr : Spec.rankI (s + 9) = 7 ↔ s / 8 = 6 := by unfold Spec.rankI; omega
          refine ⟨a, ?_⟩
          rw [b]
          exact w_cap9 p e ok pawns s m.promo (by omega) (by omega) hpawn (by rw [e]; exact hen) (promo_of_rank _ _ _ _ hk hr)
        · rw [if_neg hen] at h3
          exfalso
          by_cases hep : (decide (p.ep ≠ 64) && decide (s + 9 = p.ep)) = true
          · rw [if_pos hep] at h3
            simp only [List.mem_singleton] at h3
            simp only [Bool.and_eq_true, decide_eq_true_eq] at hep
            have hd : m.dst = s + 9 := by rw [h3]
            apply hnep
            rw [hd, e]
            refine ⟨hep.1, hep.2, by simpa using hen, ?_⟩
            unfold Spec.fileI; omega
          · rw [if_neg hep] at h3; simp at h3
      · rw [if_neg hon] at h3; simp at h3

/-- LISTED ⇒ GENERATED (black) -/
theorem pawn_listed_gen_black (p : Position) (e : p.side = 1) (ok : BoardOK p.board) (pawns : BB) (s : Nat) (hs64 : s < 64)
    (hpawn : pawns.testBit s = true) (m : Spec.SMove) (hm : m ∈ Spec.pawnMoves (absPos p) s)
    (hnep : ¬ (p.ep ≠ 64 ∧ m.dst = p.ep ∧ Spec.isEnemy (Spec.pcAt p.board m.dst) p.side = false ∧ Spec.fileI s ≠ Spec.fileI m.dst)) :
    m.src = s ∧ mkPromotion s m.dst m.promo ∈ genP p pawns := by
  unfold Spec.pawnMoves at hm
  simp only [] at hm
  have hside : (absPos p).side = p.side := rfl
  have hboard : (absPos p).board = p.board := rfl
  have hepd : (absPos p).ep = p.ep := rfl
  rw [hside, hboard, hepd, e] at hm
  have h10 : ¬ ((1 : Nat) = 0) := by decide
  simp only [h10, if_false, List.mem_append] at hm
  rcases hm with (h1 | h2) | h3
  · by_cases c : (Spec.onBoard (Spec.fileI s) (Spec.rankI s + -1) && decide (Spec.pcAt p.board (Spec.sqOf (Spec.fileI s) (Spec.rankI s + -1)) = 0)) = true
    · rw [if_pos c] at h1
      simp only [Bool.and_eq_true, decide_eq_true_eq] at c
      obtain ⟨hon, hz⟩ := c
      have hon' : Spec.onBoard (Spec.fileI s + 0) (Spec.rankI s + -1) = true := by simpa using hon
      obtain ⟨v1, v2, _, _, _, _⟩ := sqOf_val s hs64 0 (-1) hon'
      have et : Spec.sqOf (Spec.fileI s) (Spec.rankI s + -1) = s - 8 := by
        have : Spec.sqOf (Spec.fileI s + 0) (Spec.rankI s + -1) = s - 8 := by omega
        simpa using this
      rw [et] at h1 hz
      obtain ⟨a, b, hk⟩ := mem_mk s (s - 8) 0 m h1
      have hr : Spec.rankI (s - 8) = 0 ↔ s / 8 = 1 := by unfold Spec.rankI; omega
      refine ⟨a, ?_⟩
      rw [b]
      exact b_push1 p e ok pawns s m.promo hs64 (by omega) hpawn hz (promo_of_rank _ _ _ _ hk hr)
    · rw [if_neg c] at h1; simp at h1
  · by_cases c : (decide (Spec.rankI s = 6) && decide (Spec.pcAt p.board (Spec.sqOf (Spec.fileI s) (Spec.rankI s + -1)) = 0) &&
        decide (Spec.pcAt p.board (Spec.sqOf (Spec.fileI s) (Spec.rankI s + 2 * -1)) = 0)) = true
    · rw [if_pos c] at h2
      simp only [Bool.and_eq_true, decide_eq_true_eq] at c
      obtain ⟨⟨hr1, hz1⟩, hz2⟩ := c
      have hr1' : s / 8 = 6 := by unfold Spec.rankI at hr1; omega
      have et1 : Spec.sqOf (Spec.fileI s) (Spec.rankI s + -1) = s - 8 := by unfold Spec.sqOf Spec.fileI Spec.rankI; omega
      have et2 : Spec.sqOf (Spec.fileI s) (Spec.rankI s + 2 * -1) = s - 16 := by unfold Spec.sqOf Spec.fileI Spec.rankI; omega
      rw [et1] at hz1
      rw [et2] at hz2 h2
      simp only [List.mem_singleton] at h2
      subst h2
      exact ⟨rfl, b_push2 p e ok pawns s hr1' hpawn hz1 hz2⟩
    · rw [if_neg c] at h2; simp at h2
  · simp only [List.flatMap_cons, List.flatMap_nil, List.append_nil, List.mem_append] at h3
    rcases h3 with h3 | h3
    · by_cases hon : Spec.onBoard (Spec.fileI s - 1) (Spec.rankI s + -1) = true
      · rw [if_pos hon] at h3
        have hon' : Spec.onBoard (Spec.fileI s + -1) (Spec.rankI s + -1) = true := hon
        obtain ⟨v1, v2, v3, _, _, _⟩ := sqOf_val s hs64 (-1) (-1) hon'
        have et : Spec.sqOf (Spec.fileI s - 1) (Spec.rankI s + -1) = s - 9 := by
          have : Spec.sqOf (Spec.fileI s + -1) (Spec.rankI s + -1) = s - 9 := by omega
          exact this
        rw [et] at h3
        by_cases hen : Spec.isEnemy (Spec.pcAt p.board (s - 9)) 1 = true
        · rw [if_pos hen] at h3
          obtain ⟨a, b, hk⟩ := mem_mk s (s - 9) 0 m h3
          have hr : Spec.rankI (s - 9) = 0 ↔ s / 8 = 1 := by unfold Spec.rankI; omega
          refine ⟨a, ?_⟩
          rw [b]
          exact b_cap9 p e ok pawns s m.promo hs64 (by omega) (by omega) hpawn (by rw [e]; exact hen) (promo_of_rank _ _ _ _ hk hr)
        · rw [if_neg hen] at h3
          exfalso
          by_cases hep : (decide (p.ep ≠ 64) && decide (s - 9 = p.ep)) = true
          · rw [if_pos hep] at h3
            simp only [List.mem_singleton] at h3
            simp only [Bool.and_eq_true, decide_eq_true_eq] at hep
            have hd : m.dst = s - 9 := by rw [h3]
            apply hnep
            rw [hd, e]
            refine ⟨hep.1, hep.2, by simpa using hen, ?_⟩
            unfold Spec.fileI; omega
          · rw [if_neg hep] at h3; simp at h3
      · rw [if_neg hon] at h3; simp at h3
    · by_cases hon : Spec.onBoard (Spec.fileI s + 1) (Spec.rankI s + -1) = true
      · rw [if_pos hon] at h3
        obtain ⟨v1, v2, _, v4, _, _⟩ := sqOf_val s hs64 1 (-1) hon
        have et : Spec.sqOf (Spec.fileI s + 1) (Spec.rankI s + -1) = s - 7 := by omega
        rw [et] at h3
        by_cases hen : Spec.isEnemy (Spec.pcAt p.board (s - 7)) 1 = true
        · rw [if_pos hen] at h3
          obtain ⟨a, b, hk⟩ := mem_mk s (s - 7) 0 m h3
          have hr : Spec.rankI (s - 7) = 0 ↔ s / 8 = 1 := by unfold Spec.rankI; omega
          refine ⟨a, ?_⟩
          rw [b]
          exact b_cap7 p e ok pawns s m.promo hs64 (by omega) (by omega) hpawn (by rw [e]; exact hen) (promo_of_rank _ _ _ _ hk hr)
        · rw [if_neg hen] at h3
          exfalso
          by_cases hep : (decide (p.ep ≠ 64) && decide (s - 7 = p.ep)) = true
          · rw [if_pos hep] at h3
            simp only [List.mem_singleton] at h3
            simp only [Bool.and_eq_true, decide_eq_true_eq] at hep
            have hd : m.dst = s - 7 := by rw [h3]
            apply hnep
            rw [hd, e]
            refine ⟨hep.1, hep.2, by simpa using hen, ?_⟩
            unfold Spec.fileI; omega
          · rw [if_neg hep] at h3; simp at h3
      · rw [if_neg hon] at h3; simp at h3


end Chess
