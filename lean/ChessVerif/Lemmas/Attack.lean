/-
  Lemmas/Attack.lean — "is the king attacked" on bitboards (the engine's `is_in_check`) equals the rules-level
  definition on the board (pawn / knight / king steps and ray walks to the first piece).
-/
import ChessVerif.Spec.Near
import ChessVerif.Lemmas.Bridge
import ChessVerif.Lemmas.PawnUnion
import ChessVerif.Props.C11
import ChessVerif.Spec.Rules
namespace Chess

-- the per-piece bitboards computed in one pass are the per-piece bitboards ------------------------------------
theorem getD_set_list (l : List BB) (i j : Nat) (v : BB) :
    (l.set i v).getD j 0 = if i = j ∧ i < l.length then v else l.getD j 0 := by
  by_cases h : i = j
  · subst h
    by_cases hl : i < l.length
    · simp [List.getD, hl]
    · simp [List.getD, hl]
  · simp [List.getD, h]

theorem pieceBBs_fold (pc : Nat) (l : List Nat) (acc : List BB) (i j : Nat) (hpc : pc < acc.length) :
    (((l.foldl (fun (a : List BB × Nat) x => (a.1.set x (a.1.getD x 0 ||| sqBB a.2), a.2 + 1)) (acc, i)).1).getD pc 0).testBit j =
      ((acc.getD pc 0).testBit j || (decide (i ≤ j) && decide (j < i + l.length) && decide (l.getD (j - i) 0 = pc))) := by
  induction l generalizing acc i with
  | nil => simp; intro h1 h2; omega
  | cons x xs ih =>
    simp only [List.foldl_cons]
    rw [ih _ _ (by simp; exact hpc), getD_set_list]
    by_cases hx : x = pc
    · subst hx
      rw [if_pos ⟨rfl, hpc⟩, Nat.testBit_or, sqBB_testBit]
      by_cases hij : i = j
      · subst hij; simp
      · have : ¬ (i + 1 ≤ j) ∨ i + 1 ≤ j := by omega
        rcases this with h | h
        · have : ¬ i ≤ j := by omega
          simp [hij, h, this]
        · have h1 : i ≤ j := by omega
          have e : j - i = (j - (i + 1)) + 1 := by omega
          simp only [hij, decide_false, Bool.or_false, h, h1, decide_true, Bool.true_and, List.length_cons]
          rw [e, List.getD_cons_succ]
          have e2 : i + 1 + xs.length = i + (xs.length + 1) := by omega
          rw [e2]
    · rw [if_neg (by intro h; exact hx h.1)]
      by_cases hij : i = j
      · subst hij
        have : ¬ (i + 1 ≤ i) := by omega
        simp [this, hx]
      · have : ¬ (i + 1 ≤ j) ∨ i + 1 ≤ j := by omega
        rcases this with h | h
        · have : ¬ i ≤ j := by omega
          simp [h, this]
        · have h1 : i ≤ j := by omega
          have e : j - i = (j - (i + 1)) + 1 := by omega
          simp only [h, h1, decide_true, Bool.true_and, List.length_cons]
          rw [e, List.getD_cons_succ]
          have e2 : i + 1 + xs.length = i + (xs.length + 1) := by omega
          rw [e2]

theorem pieceBBs_eq (board : List Nat) (pc : Nat) (hpc : pc < 13) : (pieceBBs board).getD pc 0 = bbOfPiece board pc := by
  apply Nat.eq_of_testBit_eq
  intro j
  unfold pieceBBs
  rw [pieceBBs_fold pc board _ 0 j (by simp; exact hpc), bbOfPiece_testBit]
  have h0 : (List.replicate 13 (0 : BB)).getD pc 0 = 0 := by
    rw [List.getD_eq_getElem?_getD, List.getElem?_replicate]; split <;> rfl
  rw [h0]
  simp

theorem ck_eq (p : Position) (c k : Nat) (hc : c ≤ 1) (hk : k ≤ 6) :
    (BBs.of p).ck c k = bbOfPiece p.board (mkPiece c k) := by
  unfold BBs.ck BBs.of
  apply pieceBBs_eq
  unfold mkPiece; split <;> omega

/-- board well-formedness the bitboard view needs: 64 squares, piece codes 0..12 -/
structure BoardOK (b : List Nat) : Prop where
  len : b.length = 64
  codes : ∀ s, b.getD s 0 ≤ 12

theorem ck_testBit (p : Position) (c k s : Nat) (hc : c ≤ 1) (hk : k ≤ 6) (ok : BoardOK p.board) :
    ((BBs.of p).ck c k).testBit s = (decide (s < 64) && decide (p.board.getD s 0 = mkPiece c k)) := by
  rw [ck_eq p c k hc hk, bbOfPiece_testBit, ok.len]

theorem mkPiece_inj (c k c' k' : Nat) (_hc : c ≤ 1) (_hc' : c' ≤ 1) (hk : 1 ≤ k ∧ k ≤ 6) (hk' : 1 ≤ k' ∧ k' ≤ 6)
    (h : mkPiece c k = mkPiece c' k') : c = c' ∧ k = k' := by
  unfold mkPiece at h
  rw [if_neg (by omega), if_neg (by omega)] at h
  omega

theorem color_testBit (p : Position) (c s : Nat) (hc : c ≤ 1) (ok : BoardOK p.board) :
    ((BBs.of p).color c).testBit s = (decide (s < 64) && decide (p.board.getD s 0 ≠ 0 ∧ colorOf (p.board.getD s 0) = c)) := by
  unfold BBs.color
  simp only [Nat.testBit_or, ck_testBit p c _ s hc (by decide : (1:Nat) ≤ 6) ok, ck_testBit p c _ s hc (by decide : (2:Nat) ≤ 6) ok,
    ck_testBit p c _ s hc (by decide : (3:Nat) ≤ 6) ok, ck_testBit p c _ s hc (by decide : (4:Nat) ≤ 6) ok,
    ck_testBit p c _ s hc (by decide : (5:Nat) ≤ 6) ok, ck_testBit p c _ s hc (by decide : (6:Nat) ≤ 6) ok]
  have hcode := ok.codes s
  generalize p.board.getD s 0 = x at *
  have hc01 : c = 0 ∨ c = 1 := by omega
  have hx : x = 0 ∨ x = 1 ∨ x = 2 ∨ x = 3 ∨ x = 4 ∨ x = 5 ∨ x = 6 ∨ x = 7 ∨ x = 8 ∨ x = 9 ∨ x = 10 ∨ x = 11 ∨ x = 12 := by omega
  by_cases hs : s < 64
  · simp only [hs, decide_true, Bool.true_and]
    rcases hc01 with rfl | rfl
    · rcases hx with rfl | rfl | rfl | rfl | rfl | rfl | rfl | rfl | rfl | rfl | rfl | rfl | rfl <;> decide
    · rcases hx with rfl | rfl | rfl | rfl | rfl | rfl | rfl | rfl | rfl | rfl | rfl | rfl | rfl <;> decide
  · have hd : decide (s < 64) = false := by simp [hs]
    rw [hd]; rfl

end Chess

namespace Chess

theorem all_testBit (p : Position) (s : Nat) (ok : BoardOK p.board) :
    ((BBs.of p).all).testBit s = (decide (s < 64) && decide (p.board.getD s 0 ≠ 0)) := by
  unfold BBs.all
  rw [Nat.testBit_or, color_testBit p 0 s (by decide) ok, color_testBit p 1 s (by decide) ok]
  have hcode := ok.codes s
  generalize p.board.getD s 0 = x at *
  have hx : x = 0 ∨ x = 1 ∨ x = 2 ∨ x = 3 ∨ x = 4 ∨ x = 5 ∨ x = 6 ∨ x = 7 ∨ x = 8 ∨ x = 9 ∨ x = 10 ∨ x = 11 ∨ x = 12 := by omega
  by_cases hs : s < 64
  · simp only [hs, decide_true, Bool.true_and]
    rcases hx with rfl | rfl | rfl | rfl | rfl | rfl | rfl | rfl | rfl | rfl | rfl | rfl | rfl <;> decide
  · have hd : decide (s < 64) = false := by simp [hs]
    rw [hd]; rfl

-- leapers ------------------------------------------------------------------------------------------------
/-- a leaper set meets X iff one of the on-board target squares is in X -/
theorem leaper_meets (offs : List (Int × Int)) (sq : Nat) (X acc : BB) :
    ((offs.foldl (fun acc d =>
        let f := ((sq % 8 : Nat) : Int) + d.1
        let r := ((sq / 8 : Nat) : Int) + d.2
        if 0 ≤ f ∧ f < 8 ∧ 0 ≤ r ∧ r < 8 then acc ||| sqBB (r * 8 + f).toNat else acc) acc) &&& X ≠ 0) ↔
    (acc &&& X ≠ 0 ∨ offs.any (fun d => Spec.onBoard (Spec.fileI sq + d.1) (Spec.rankI sq + d.2) &&
        X.testBit (Spec.sqOf (Spec.fileI sq + d.1) (Spec.rankI sq + d.2))) = true) := by
  induction offs generalizing acc with
  | nil => simp
  | cons d ds ih =>
    simp only [List.foldl_cons, List.any_cons, Bool.or_eq_true]
    rw [ih]
    have hon : Spec.onBoard (Spec.fileI sq + d.1) (Spec.rankI sq + d.2) = true ↔
        (0 ≤ ((sq % 8 : Nat) : Int) + d.1 ∧ ((sq % 8 : Nat) : Int) + d.1 < 8 ∧ 0 ≤ ((sq / 8 : Nat) : Int) + d.2 ∧ ((sq / 8 : Nat) : Int) + d.2 < 8) := by
      unfold Spec.onBoard Spec.fileI Spec.rankI
      simp only [Bool.and_eq_true, decide_eq_true_eq]
      constructor
      · rintro ⟨⟨⟨a, b⟩, c⟩, d⟩; exact ⟨a, b, c, d⟩
      · rintro ⟨a, b, c, d⟩; exact ⟨⟨⟨a, b⟩, c⟩, d⟩
    by_cases hb : (0 ≤ ((sq % 8 : Nat) : Int) + d.1 ∧ ((sq % 8 : Nat) : Int) + d.1 < 8 ∧ 0 ≤ ((sq / 8 : Nat) : Int) + d.2 ∧ ((sq / 8 : Nat) : Int) + d.2 < 8)
    · simp only [hb, and_self, if_true]
      have hon' := hon.2 hb
      rw [or_and_ne_zero, sqBB_and_ne_zero, hon']
      have : Spec.sqOf (Spec.fileI sq + d.1) (Spec.rankI sq + d.2) = ((((sq / 8 : Nat) : Int) + d.2) * 8 + (((sq % 8 : Nat) : Int) + d.1)).toNat := rfl
      rw [this]
      simp only [Bool.true_and]
      constructor
      · rintro ((h | h) | h)
        · exact Or.inl h
        · exact Or.inr (Or.inl h)
        · exact Or.inr (Or.inr h)
      · rintro (h | h | h)
        · exact Or.inl (Or.inl h)
        · exact Or.inl (Or.inr h)
        · exact Or.inr h
    · have hon' : Spec.onBoard (Spec.fileI sq + d.1) (Spec.rankI sq + d.2) = false := by
        apply Bool.eq_false_iff.2; intro h; exact hb (hon.1 h)
      rw [if_neg hb, hon']
      simp

theorem leaperSet_meets (offs : List (Int × Int)) (sq : Nat) (X : BB) :
    (Spec.leaperSet offs sq &&& X ≠ 0) ↔
      offs.any (fun d => Spec.onBoard (Spec.fileI sq + d.1) (Spec.rankI sq + d.2) &&
        X.testBit (Spec.sqOf (Spec.fileI sq + d.1) (Spec.rankI sq + d.2))) = true := by
  unfold Spec.leaperSet
  rw [leaper_meets]
  simp

-- sliders ------------------------------------------------------------------------------------------------
/-- first occupied square of a ray -/
def firstOcc : List Nat → BB → Option Nat
  | [], _ => none
  | s :: rest, occ => if occ.testBit s then some s else firstOcc rest occ

/-- a ray walk meets a set of pieces (all of which are on occupied squares) iff the first occupied square holds one -/
theorem walk_meets (L : List Nat) (occ X : BB) (hsub : ∀ s, X.testBit s = true → occ.testBit s = true) :
    (Spec.walk L occ &&& X ≠ 0) ↔ ∃ s, firstOcc L occ = some s ∧ X.testBit s = true := by
  induction L with
  | nil => simp [Spec.walk, firstOcc]
  | cons s rest ih =>
    unfold Spec.walk firstOcc
    by_cases ho : occ.testBit s = true
    · rw [if_pos ho, if_pos ho, Nat.or_zero, sqBB_and_ne_zero]
      simp
    · rw [if_neg ho, if_neg ho, or_and_ne_zero, ih, sqBB_and_ne_zero]
      have : ¬ X.testBit s = true := fun h => ho (hsub s h)
      simp [this]

/-- the rules-level walk to the first piece is the first occupied square of the coordinate ray -/
theorem firstPiece_eq (b : List Nat) (occ : BB) (d : Int × Int) (n : Nat) (f r : Int)
    (hocc : ∀ s, s < 64 → (occ.testBit s = true ↔ b.getD s 0 ≠ 0)) :
    Spec.firstPiece b d n f r = (firstOcc (Spec.rayCoords d.1 d.2 n f r) occ).map (fun s => (b.getD s 0, s)) := by
  induction n generalizing f r with
  | zero => rfl
  | succ n ih =>
    unfold Spec.firstPiece Spec.rayCoords
    simp only []
    have hon : Spec.onBoard (f + d.1) (r + d.2) = true ↔ (0 ≤ f + d.1 ∧ f + d.1 < 8 ∧ 0 ≤ r + d.2 ∧ r + d.2 < 8) := by
      unfold Spec.onBoard
      simp only [Bool.and_eq_true, decide_eq_true_eq]
      constructor
      · rintro ⟨⟨⟨a, b⟩, c⟩, d⟩; exact ⟨a, b, c, d⟩
      · rintro ⟨a, b, c, d⟩; exact ⟨⟨⟨a, b⟩, c⟩, d⟩
    by_cases hb : (0 ≤ f + d.1 ∧ f + d.1 < 8 ∧ 0 ≤ r + d.2 ∧ r + d.2 < 8)
    · rw [if_pos (hon.2 hb), if_pos hb]
      have hsq : Spec.sqOf (f + d.1) (r + d.2) = ((r + d.2) * 8 + (f + d.1)).toNat := rfl
      have hlt : ((r + d.2) * 8 + (f + d.1)).toNat < 64 := by omega
      unfold firstOcc
      rw [hsq]
      by_cases hz : b.getD ((r + d.2) * 8 + (f + d.1)).toNat 0 ≠ 0
      · have : Spec.pcAt b ((r + d.2) * 8 + (f + d.1)).toNat ≠ 0 := hz
        rw [if_pos this, if_pos ((hocc _ hlt).2 hz)]
        rfl
      · have : ¬ Spec.pcAt b ((r + d.2) * 8 + (f + d.1)).toNat ≠ 0 := hz
        rw [if_neg this, if_neg (fun h => hz ((hocc _ hlt).1 h))]
        exact ih _ _
    · rw [if_neg (fun h => hb (hon.1 h)), if_neg hb]
      rfl

end Chess

namespace Chess

theorem pcAt_eq' (b : List Nat) (s : Nat) : Spec.pcAt b s = b.getD s 0 := rfl

theorem mkPc_eq' (c k : Nat) (hk : k ≠ 0) : Spec.mkPc c k = mkPiece c k := by simp [Spec.mkPc, mkPiece, hk]

/-- bit test of an own-piece bitboard at an on-board coordinate -/
theorem ck_at (p : Position) (c k : Nat) (f r : Int) (hc : c ≤ 1) (hk : 1 ≤ k ∧ k ≤ 6) (ok : BoardOK p.board) :
    (Spec.onBoard f r && ((BBs.of p).ck c k).testBit (Spec.sqOf f r)) =
    (Spec.onBoard f r && decide (Spec.pcAt p.board (Spec.sqOf f r) = Spec.mkPc c k)) := by
  rw [ck_testBit p c k _ hc hk.2 ok, mkPc_eq' c k (by omega), pcAt_eq']
  by_cases h : Spec.onBoard f r = true
  · have : Spec.sqOf f r < 64 := by
      unfold Spec.onBoard at h
      simp only [Bool.and_eq_true, decide_eq_true_eq] at h
      unfold Spec.sqOf; omega
    simp [h, this]
  · have : Spec.onBoard f r = false := by simpa using h
    rw [this]; rfl

/-- the four diagonal (or orthogonal) walks meet X iff one of them does -/
theorem walkDirs4_meets (d1 d2 d3 d4 : Int × Int) (sq : Nat) (occ X : BB) :
    (Spec.walkDirs [d1, d2, d3, d4] sq occ &&& X ≠ 0) ↔
      (Spec.walk (Spec.raySquares sq d1.1 d1.2) occ &&& X ≠ 0 ∨ Spec.walk (Spec.raySquares sq d2.1 d2.2) occ &&& X ≠ 0 ∨
       Spec.walk (Spec.raySquares sq d3.1 d3.2) occ &&& X ≠ 0 ∨ Spec.walk (Spec.raySquares sq d4.1 d4.2) occ &&& X ≠ 0) := by
  unfold Spec.walkDirs
  simp only [List.foldl_cons, List.foldl_nil, Nat.zero_or]
  rw [or_and_ne_zero, or_and_ne_zero, or_and_ne_zero]
  constructor
  · rintro (((h | h) | h) | h)
    · exact Or.inl h
    · exact Or.inr (Or.inl h)
    · exact Or.inr (Or.inr (Or.inl h))
    · exact Or.inr (Or.inr (Or.inr h))
  · rintro (h | h | h | h)
    · exact Or.inl (Or.inl (Or.inl h))
    · exact Or.inl (Or.inl (Or.inr h))
    · exact Or.inl (Or.inr h)
    · exact Or.inr h

/-- one ray: the walk meets the two slider kinds iff the first piece met is one of them -/
theorem ray_meets (p : Position) (opp k1 k2 : Nat) (sq : Nat) (d : Int × Int) (ho : opp ≤ 1)
    (hk1 : 1 ≤ k1 ∧ k1 ≤ 6) (hk2 : 1 ≤ k2 ∧ k2 ≤ 6) (ok : BoardOK p.board) :
    (Spec.walk (Spec.raySquares sq d.1 d.2) (BBs.of p).all &&& ((BBs.of p).ck opp k1 ||| (BBs.of p).ck opp k2) ≠ 0) ↔
      (match Spec.firstPiece p.board d 7 (Spec.fileI sq) (Spec.rankI sq) with
       | some (pc, _) => (decide (pc = Spec.mkPc opp k1) || decide (pc = Spec.mkPc opp k2))
       | none => false) = true := by
  have hsub : ∀ s, ((BBs.of p).ck opp k1 ||| (BBs.of p).ck opp k2).testBit s = true → (BBs.of p).all.testBit s = true := by
    intro s hs
    rw [Nat.testBit_or, ck_testBit p opp k1 s ho hk1.2 ok, ck_testBit p opp k2 s ho hk2.2 ok] at hs
    rw [all_testBit p s ok]
    simp only [Bool.or_eq_true, Bool.and_eq_true, decide_eq_true_eq] at hs ⊢
    rcases hs with ⟨a, b⟩ | ⟨a, b⟩
    · exact ⟨a, by rw [b]; unfold mkPiece; rw [if_neg (by omega)]; omega⟩
    · exact ⟨a, by rw [b]; unfold mkPiece; rw [if_neg (by omega)]; omega⟩
  rw [walk_meets _ _ _ hsub]
  have hocc : ∀ s, s < 64 → ((BBs.of p).all.testBit s = true ↔ p.board.getD s 0 ≠ 0) := by
    intro s hs
    rw [all_testBit p s ok]
    simp [hs]
  rw [firstPiece_eq p.board (BBs.of p).all d 7 (Spec.fileI sq) (Spec.rankI sq) hocc]
  have hray : Spec.raySquares sq d.1 d.2 = Spec.rayCoords d.1 d.2 7 (Spec.fileI sq) (Spec.rankI sq) := rfl
  rw [hray]
  cases hf : firstOcc (Spec.rayCoords d.1 d.2 7 (Spec.fileI sq) (Spec.rankI sq)) (BBs.of p).all with
  | none => simp
  | some s =>
    simp only [Option.map_some, Option.some.injEq, exists_eq_left']
    rw [Nat.testBit_or, ck_testBit p opp k1 s ho hk1.2 ok, ck_testBit p opp k2 s ho hk2.2 ok, mkPc_eq' opp k1 (by omega), mkPc_eq' opp k2 (by omega)]
    by_cases hs : s < 64
    · simp [hs]
    · have hz : p.board.getD s 0 = 0 := by
        rw [List.getD_eq_getElem?_getD, List.getElem?_eq_none (by rw [ok.len]; omega)]; rfl
      have n1 : ¬ (0 = mkPiece opp k1) := by unfold mkPiece; rw [if_neg (by omega)]; omega
      have n2 : ¬ (0 = mkPiece opp k2) := by unfold mkPiece; rw [if_neg (by omega)]; omega
      have hz' : p.board[s]?.getD 0 = 0 := by rw [← List.getD_eq_getElem?_getD]; exact hz
      simp [hs, hz', n1, n2]

end Chess

namespace Chess

/-- the engine's four bitboard tests around a square -/
def attackedBB (p : Position) (k side : Nat) : Bool :=
  let b := BBs.of p
  let opp := 1 - side
  (pawnAttacks side (sqBB k) &&& b.ck opp PAWN) ≠ 0 ||
  (knightMask k &&& b.ck opp KNIGHT) ≠ 0 ||
  (bishopAttack k b.all &&& (b.ck opp BISHOP ||| b.ck opp QUEEN)) ≠ 0 ||
  (rookAttack k b.all &&& (b.ck opp ROOK ||| b.ck opp QUEEN)) ≠ 0

theorem isInCheck_eq_attackedBB (p : Position) (side : Nat) : isInCheck p side = attackedBB p (kingSq p.board side) side := rfl

def pawnLeapers (side : Nat) : List (Int × Int) := if side = 0 then [(-1, 1), (1, 1)] else [(-1, -1), (1, -1)]

theorem pawnAttacks_single (side k : Nat) (hs : side ≤ 1) (hk : k < 64) :
    pawnAttacks side (sqBB k) = Spec.leaperSet (pawnLeapers side) k := by
  have h := Props.pawnLeaperOK_true
  simp only [Props.pawnLeaperOK, List.all_eq_true, List.mem_range, Bool.and_eq_true, beq_iff_eq] at h
  unfold pawnLeapers
  have : side = 0 ∨ side = 1 := by omega
  rcases this with rfl | rfl
  · exact (h k hk).1
  · exact (h k hk).2

/-- ATTACK EQUIVALENCE: for every square, the engine's bitboard tests plus the adjacent-king test say exactly what the
    rules-level definition says (pawn captures, knight jumps, king steps, ray walks to the first piece) -/
theorem attacked_eq (p : Position) (k side : Nat) (hs : side ≤ 1) (hk : k < 64) (ok : BoardOK p.board) :
    (attackedBB p k side || kingNear p.board k (1 - side)) = Spec.attacked p.board k (1 - side) := by
  have ho : 1 - side ≤ 1 := by omega
  apply Bool.eq_iff_iff.2
  unfold attackedBB Spec.attacked
  simp only [Bool.or_eq_true, decide_eq_true_eq]
  -- pawn term
  have hpawn : (pawnAttacks side (sqBB k) &&& (BBs.of p).ck (1 - side) PAWN ≠ 0) ↔
      ([Spec.fileI k - 1, Spec.fileI k + 1].any (fun pf =>
        Spec.onBoard pf (if 1 - side = 0 then Spec.rankI k - 1 else Spec.rankI k + 1) &&
        decide (Spec.pcAt p.board (Spec.sqOf pf (if 1 - side = 0 then Spec.rankI k - 1 else Spec.rankI k + 1)) = Spec.mkPc (1 - side) 1))) = true := by
    rw [pawnAttacks_single side k hs hk, leaperSet_meets]
    have e1 : Spec.fileI k + -1 = Spec.fileI k - 1 := by omega
    have e2 : Spec.rankI k + -1 = Spec.rankI k - 1 := by omega
    have : side = 0 ∨ side = 1 := by omega
    rcases this with rfl | rfl
    · simp only [pawnLeapers, if_true, List.any_cons, List.any_nil, Bool.or_false, e1,
        ck_at p (1 - 0) PAWN _ _ (by decide) (by decide) ok]
      simp [PAWN]
      constructor
      · rintro (⟨a, b⟩ | ⟨a, b⟩)
        · exact Or.inl ⟨a, of_decide_eq_true b⟩
        · exact Or.inr ⟨a, of_decide_eq_true b⟩
      · rintro (⟨a, b⟩ | ⟨a, b⟩)
        · exact Or.inl ⟨a, decide_eq_true b⟩
        · exact Or.inr ⟨a, decide_eq_true b⟩
    · simp only [pawnLeapers, show (1:Nat) ≠ 0 by decide, if_false, List.any_cons, List.any_nil, Bool.or_false, e1, e2,
        ck_at p (1 - 1) PAWN _ _ (by decide) (by decide) ok]
      simp [PAWN]
  -- knight term
  have hknight : (knightMask k &&& (BBs.of p).ck (1 - side) KNIGHT ≠ 0) ↔
      (Spec.knightOffs.any (fun d => Spec.onBoard (Spec.fileI k + d.1) (Spec.rankI k + d.2) &&
        decide (Spec.pcAt p.board (Spec.sqOf (Spec.fileI k + d.1) (Spec.rankI k + d.2)) = Spec.mkPc (1 - side) 2))) = true := by
    rw [(Props.C11_leapers k hk).1]
    unfold Spec.knightSet
    rw [leaperSet_meets]
    have : Spec.knightJumps = Spec.knightOffs := rfl
    rw [this]
    simp only [ck_at p (1 - side) KNIGHT _ _ ho (by decide) ok]
    rfl
  -- diagonal sliders
  have hdiag : (bishopAttack k (BBs.of p).all &&& ((BBs.of p).ck (1 - side) BISHOP ||| (BBs.of p).ck (1 - side) QUEEN) ≠ 0) ↔
      (Spec.diagDirs.any (fun d => match Spec.firstPiece p.board d 7 (Spec.fileI k) (Spec.rankI k) with
        | some (pc, _) => (decide (pc = Spec.mkPc (1 - side) 3) || decide (pc = Spec.mkPc (1 - side) 5))
        | none => false)) = true := by
    have hb : bishopAttack k (BBs.of p).all = Spec.bishopWalk k (BBs.of p).all := by
      have := Props.C11_slider BISHOP k hk (BBs.of p).all
      simpa [sliderAttack, Spec.rayWalk] using this
    rw [hb]
    unfold Spec.bishopWalk Spec.bishopDirs Spec.diagDirs
    rw [walkDirs4_meets]
    simp only [List.any_cons, List.any_nil, Bool.or_false, Bool.or_eq_true]
    rw [ray_meets p (1 - side) BISHOP QUEEN k (-1, 1) ho (by decide) (by decide) ok,
        ray_meets p (1 - side) BISHOP QUEEN k (1, 1) ho (by decide) (by decide) ok,
        ray_meets p (1 - side) BISHOP QUEEN k (1, -1) ho (by decide) (by decide) ok,
        ray_meets p (1 - side) BISHOP QUEEN k (-1, -1) ho (by decide) (by decide) ok]
    constructor
    · rintro (h | h | h | h)
      · exact Or.inr (Or.inl h)
      · exact Or.inl h
      · exact Or.inr (Or.inr (Or.inl h))
      · exact Or.inr (Or.inr (Or.inr h))
    · rintro (h | h | h | h)
      · exact Or.inr (Or.inl h)
      · exact Or.inl h
      · exact Or.inr (Or.inr (Or.inl h))
      · exact Or.inr (Or.inr (Or.inr h))
  -- orthogonal sliders
  have hortho : (rookAttack k (BBs.of p).all &&& ((BBs.of p).ck (1 - side) ROOK ||| (BBs.of p).ck (1 - side) QUEEN) ≠ 0) ↔
      (Spec.orthoDirs.any (fun d => match Spec.firstPiece p.board d 7 (Spec.fileI k) (Spec.rankI k) with
        | some (pc, _) => (decide (pc = Spec.mkPc (1 - side) 4) || decide (pc = Spec.mkPc (1 - side) 5))
        | none => false)) = true := by
    have hb : rookAttack k (BBs.of p).all = Spec.rookWalk k (BBs.of p).all := by
      have := Props.C11_slider ROOK k hk (BBs.of p).all
      simpa [sliderAttack, Spec.rayWalk, ROOK, BISHOP] using this
    rw [hb]
    unfold Spec.rookWalk Spec.rookDirs Spec.orthoDirs
    rw [walkDirs4_meets]
    simp only [List.any_cons, List.any_nil, Bool.or_false, Bool.or_eq_true]
    rw [ray_meets p (1 - side) ROOK QUEEN k (0, 1) ho (by decide) (by decide) ok,
        ray_meets p (1 - side) ROOK QUEEN k (1, 0) ho (by decide) (by decide) ok,
        ray_meets p (1 - side) ROOK QUEEN k (0, -1) ho (by decide) (by decide) ok,
        ray_meets p (1 - side) ROOK QUEEN k (-1, 0) ho (by decide) (by decide) ok]
    constructor
    · rintro (h | h | h | h)
      · exact Or.inl h
      · exact Or.inr (Or.inr (Or.inl h))
      · exact Or.inr (Or.inl h)
      · exact Or.inr (Or.inr (Or.inr h))
    · rintro (h | h | h | h)
      · exact Or.inl h
      · exact Or.inr (Or.inr (Or.inl h))
      · exact Or.inr (Or.inl h)
      · exact Or.inr (Or.inr (Or.inr h))
  rw [hpawn, hknight, hdiag, hortho]
  unfold kingNear
  constructor
  · rintro ((((h | h) | h) | h) | h)
    · exact Or.inl (Or.inl (Or.inl (Or.inl h)))
    · exact Or.inl (Or.inl (Or.inl (Or.inr h)))
    · exact Or.inl (Or.inr h)
    · exact Or.inr h
    · exact Or.inl (Or.inl (Or.inr h))
  · rintro ((((h | h) | h) | h) | h)
    · exact Or.inl (Or.inl (Or.inl (Or.inl h)))
    · exact Or.inl (Or.inl (Or.inl (Or.inr h)))
    · exact Or.inr h
    · exact Or.inl (Or.inl (Or.inr h))
    · exact Or.inl (Or.inr h)

end Chess

namespace Chess

/-- exactly one king of colour c, on square k -/
structure KingAt (b : List Nat) (c k : Nat) : Prop where
  lt : k < 64
  here : b.getD k 0 = mkPiece c KING
  only : ∀ s, s < 64 → b.getD s 0 = mkPiece c KING → s = k

def lsbSqOK : Bool := (List.range 64).all (fun k => lsb (sqBB k) == k)
theorem lsbSqOK_true : lsbSqOK = true := by decide +kernel

theorem kingSq_eq (b : List Nat) (c k : Nat) (hl : b.length = 64) (h : KingAt b c k) : kingSq b c = k := by
  unfold kingSq
  have : bbOfPiece b (mkPiece c KING) = sqBB k := by
    apply Nat.eq_of_testBit_eq
    intro s
    rw [bbOfPiece_testBit, sqBB_testBit, hl]
    by_cases hs : s = k
    · subst hs
      have hh : b[s]?.getD 0 = mkPiece c KING := by rw [← List.getD_eq_getElem?_getD]; exact h.here
      simp [h.lt, hh]
    · have : ¬ (s < 64 ∧ b.getD s 0 = mkPiece c KING) := fun hh => hs (h.only s hh.1 hh.2)
      have hks : ¬ k = s := fun e => hs e.symm
      simp only [hks, decide_false]
      simp only [Bool.and_eq_false_iff, decide_eq_false_iff_not]
      by_cases h64 : s < 64
      · right; exact fun e => this ⟨h64, e⟩
      · left; exact h64
  rw [this]
  have hh := lsbSqOK_true
  simp only [lsbSqOK, List.all_eq_true, List.mem_range, beq_iff_eq] at hh
  exact hh k h.lt

theorem find?_unique (l : List Nat) (P : Nat → Bool) (k : Nat) (hk : k ∈ l) (hP : P k = true)
    (hu : ∀ s, s ∈ l → P s = true → s = k) : l.find? P = some k := by
  induction l with
  | nil => simp at hk
  | cons x xs ih =>
    rw [List.find?_cons]
    by_cases hx : P x = true
    · rw [hx]
      have := hu x (by simp) hx
      simp [this]
    · have hx' : P x = false := by simpa using hx
      rw [hx']
      have hne : k ≠ x := by intro e; rw [e] at hP; exact hx hP
      have hk' : k ∈ xs := by
        simp at hk
        rcases hk with hk | hk
        · exact absurd hk hne
        · exact hk
      exact ih hk' (fun s hs hps => hu s (by simp [hs]) hps)

theorem findKing_eq (b : List Nat) (c k : Nat) (h : KingAt b c k) : Spec.findKing b c = k := by
  unfold Spec.findKing
  have hm : mkPiece c KING = Spec.mkPc c 6 := (mkPc_eq' c 6 (by decide)).symm
  have hP : (fun s => decide (Spec.pcAt b s = Spec.mkPc c 6)) k = true := by
    show decide (b.getD k 0 = Spec.mkPc c 6) = true
    rw [← hm, h.here]; simp
  rw [find?_unique (List.range 64) _ k (by simp [h.lt]) hP
    (by intro s hs hp
        have hs' : s < 64 := by simpa using hs
        have hp' : b.getD s 0 = Spec.mkPc c 6 := of_decide_eq_true hp
        exact h.only s hs' (by rw [hm]; exact hp'))]
  rfl

/-- CHECK EQUIVALENCE (C07): with one own king and no enemy king beside it, the engine's `is_in_check` on bitboards is
    the rules-level "the king's square is attacked" -/
theorem isInCheck_eq (p : Position) (side k : Nat) (hs : side ≤ 1) (ok : BoardOK p.board) (hk : KingAt p.board side k)
    (hnear : kingNear p.board k (1 - side) = false) :
    isInCheck p side = Spec.inCheck p.board side := by
  rw [isInCheck_eq_attackedBB, kingSq_eq p.board side k ok.len hk]
  unfold Spec.inCheck
  rw [findKing_eq p.board side k hk, ← attacked_eq p k side hs hk.lt ok, hnear, Bool.or_false]

end Chess
