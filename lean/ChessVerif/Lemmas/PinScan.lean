/-
  Lemmas/PinScan.lean — the bit scans of `generate_pin_in_ray` (lsb/msb of the occupancy on a ray, then of the rest) return the first
  two occupied squares of the ray walked outwards from the king.  Finite tables over (king square, ray, subset of the ray), evaluated in
  the kernel and lifted to every occupancy.
-/
import ChessVerif.Lemmas.GenPins
import ChessVerif.Lemmas.GivesCheckCastle
namespace Chess

/-- the direction of ray index r in file/rank steps -/
def rayDirI (r : Nat) : Int × Int :=
  match r with
  | 0 => (-1, 1) | 1 => (0, 1) | 2 => (1, 1) | 3 => (1, 0) | 4 => (1, -1) | 5 => (0, -1) | 6 => (-1, -1) | _ => (-1, 0)

def rayList (k r : Nat) : List Nat := Spec.raySquares k (rayDirI r).1 (rayDirI r).2

/-- the ray bitboard is the set of the squares of the ray list -/
def raysListOK : Bool :=
  (List.range 64).all fun k => (List.range 8).all fun r => (List.range 64).all fun x => (rays r k).testBit x == (rayList k r).contains x
theorem raysListOK_true : raysListOK = true := by decide +kernel

def rayListNodupOK : Bool := (List.range 64).all fun k => (List.range 8).all fun r => decide (rayList k r).Nodup && (rayList k r).all (· < 64)
theorem rayListNodupOK_true : rayListNodupOK = true := by decide +kernel

/-- the two scans against the first two occupied squares of the list, for every subset of the ray -/
def pinScanOK : Bool :=
  (List.range 64).all fun k => (List.range 8).all fun r =>
    forallSubsets (fun sub =>
      match (rayList k r).filter (fun x => sub.testBit x) with
      | a :: b :: _ => moreThanOne sub && ((if r < 4 then lsb sub else msb sub) == a) &&
          ((if r < 4 then lsb (sub &&& (sub - 1)) else msb (sub &&& bnot (sqBB (if r < 4 then lsb sub else msb sub)))) == b)
      | _ => !moreThanOne sub) (bitsOf (rays r k)) 0
theorem pinScanOK_true : pinScanOK = true := by decide +kernel

theorem rayList_mem (k r x : Nat) (hk : k < 64) (hr : r < 8) (hx : x ∈ rayList k r) : x < 64 ∧ (rays r k).testBit x = true := by
  have h := rayListNodupOK_true
  simp only [rayListNodupOK, List.all_eq_true, List.mem_range, Bool.and_eq_true, decide_eq_true_eq] at h
  have hx64 := (h k hk r hr).2 x hx
  have h2 := raysListOK_true
  simp only [raysListOK, List.all_eq_true, List.mem_range, beq_iff_eq] at h2
  have := h2 k hk r hr x hx64
  rw [this]
  exact ⟨hx64, by simpa using hx⟩

theorem rayList_nodup (k r : Nat) (hk : k < 64) (hr : r < 8) : (rayList k r).Nodup := by
  have h := rayListNodupOK_true
  simp only [rayListNodupOK, List.all_eq_true, List.mem_range, Bool.and_eq_true, decide_eq_true_eq] at h
  exact (h k hk r hr).1

theorem filter_congr_mem {α : Type} (L : List α) (p q : α → Bool) (h : ∀ x, x ∈ L → p x = q x) : L.filter p = L.filter q := by
  induction L with
  | nil => rfl
  | cons x xs ih =>
    rw [List.filter_cons, List.filter_cons, h x List.mem_cons_self, ih (fun y hy => h y (List.mem_cons_of_mem _ hy))]

/-- the scans of the generator on any occupancy whose first two occupied squares of the ray are a and b -/
theorem pinScan_first_two (k r : Nat) (hk : k < 64) (hr : r < 8) (occ : BB) (a b : Nat) (rest : List Nat)
    (h : (rayList k r).filter (fun x => occ.testBit x) = a :: b :: rest) :
    moreThanOne (rays r k &&& occ) = true ∧ (if r < 4 then lsb (rays r k &&& occ) else msb (rays r k &&& occ)) = a ∧
    (if r < 4 then lsb ((rays r k &&& occ) &&& ((rays r k &&& occ) - 1))
      else msb ((rays r k &&& occ) &&& bnot (sqBB (if r < 4 then lsb (rays r k &&& occ) else msb (rays r k &&& occ))))) = b := by
  have ht := pinScanOK_true
  simp only [pinScanOK, List.all_eq_true, List.mem_range] at ht
  have := forallSubsets_sound _ _ 0 (ht k hk r hr) occ
  rw [Nat.zero_or, restrict_bitsOf _ _ (rays_facts k r hk hr).1, Nat.and_comm] at this
  have hf : (rayList k r).filter (fun x => (rays r k &&& occ).testBit x) = (rayList k r).filter (fun x => occ.testBit x) := by
    apply filter_congr_mem
    intro x hx
    rw [Nat.testBit_and, (rayList_mem k r x hk hr hx).2, Bool.true_and]
  rw [hf, h] at this
  simp only [Bool.and_eq_true, beq_iff_eq] at this
  exact ⟨this.1.1, this.1.2, this.2⟩

end Chess

namespace Chess

theorem dir_ray_bishop (d : Int × Int) (h : d ∈ Spec.bishopDirs) : ∃ r, r < 8 ∧ r % 2 = 0 ∧ rayDirI r = d := by
  simp [Spec.bishopDirs] at h
  rcases h with rfl | rfl | rfl | rfl
  · exact ⟨0, by decide, by decide, rfl⟩
  · exact ⟨2, by decide, by decide, rfl⟩
  · exact ⟨4, by decide, by decide, rfl⟩
  · exact ⟨6, by decide, by decide, rfl⟩
theorem dir_ray_rook (d : Int × Int) (h : d ∈ Spec.rookDirs) : ∃ r, r < 8 ∧ r % 2 = 1 ∧ rayDirI r = d := by
  simp [Spec.rookDirs] at h
  rcases h with rfl | rfl | rfl | rfl
  · exact ⟨1, by decide, by decide, rfl⟩
  · exact ⟨3, by decide, by decide, rfl⟩
  · exact ⟨5, by decide, by decide, rfl⟩
  · exact ⟨7, by decide, by decide, rfl⟩

/-- a square reached through the lifted f (and not through t): on the old occupancy the first two occupied squares of the ray are
    f and that square -/
theorem walk_thru_filter (L : List Nat) (occ : BB) (f t s : Nat) (hnd : L.Nodup) (hf : occ.testBit f = true) (hs : occ.testBit s = true)
    (hw : (Spec.walk L ((occ ^^^ sqBB f) ||| sqBB t)).testBit s = true) (h1 : thru L f s = true) :
    ∃ rest, L.filter (fun x => occ.testBit x) = f :: s :: rest := by
  induction L with
  | nil => simp [thru] at h1
  | cons x xs ih =>
    have hnd' : List.Pairwise (· ≠ ·) (x :: xs) := hnd
    rw [List.pairwise_cons] at hnd'
    unfold thru at h1
    by_cases hxs : x = s
    · rw [if_pos hxs] at h1; cases h1
    · rw [if_neg hxs] at h1
      unfold Spec.walk at hw
      rw [Nat.testBit_or, sqBB_testBit] at hw
      have hd : decide (x = s) = false := by simp [hxs]
      rw [hd, Bool.false_or] at hw
      by_cases ho' : ((occ ^^^ sqBB f) ||| sqBB t).testBit x = true
      · rw [if_pos ho'] at hw; simp at hw
      · rw [if_neg ho'] at hw
        rw [Nat.testBit_or, Nat.testBit_xor, sqBB_testBit, sqBB_testBit] at ho'
        by_cases hxf : x = f
        · rw [if_pos hxf] at h1
          subst hxf
          -- the rest of the ray: s is the first occupied square
          have hrest : ∀ (ys : List Nat), x ∉ ys → (Spec.walk ys ((occ ^^^ sqBB x) ||| sqBB t)).testBit s = true →
              ∃ rest, ys.filter (fun y => occ.testBit y) = s :: rest := by
            intro ys
            induction ys with
            | nil => intro _ h; simp [Spec.walk] at h
            | cons y ys ih2 =>
              intro hnot hwy
              have hyx : y ≠ x := fun e => hnot (by rw [e]; exact List.mem_cons_self)
              unfold Spec.walk at hwy
              rw [Nat.testBit_or, sqBB_testBit] at hwy
              by_cases hys : y = s
              · subst hys
                exact ⟨ys.filter (fun y => occ.testBit y), by rw [List.filter_cons, if_pos hs]⟩
              · have hd2 : decide (y = s) = false := by simp [hys]
                rw [hd2, Bool.false_or] at hwy
                by_cases hoy : ((occ ^^^ sqBB x) ||| sqBB t).testBit y = true
                · rw [if_pos hoy] at hwy; simp at hwy
                · rw [if_neg hoy] at hwy
                  rw [Nat.testBit_or, Nat.testBit_xor, sqBB_testBit, sqBB_testBit] at hoy
                  have hxy : decide (x = y) = false := by simp; exact fun e => hyx e.symm
                  rw [hxy] at hoy
                  have hocc : occ.testBit y = false := by
                    simp only [Bool.bne_false, Bool.or_eq_true, decide_eq_true_eq, not_or] at hoy
                    simpa using hoy.1
                  obtain ⟨rest, hr⟩ := ih2 (fun hm => hnot (List.mem_cons_of_mem _ hm)) hwy
                  exact ⟨rest, by rw [List.filter_cons, if_neg (by simp [hocc]), hr]⟩
          obtain ⟨rest, hr⟩ := hrest xs (fun hm => hnd'.1 x hm rfl) hw
          exact ⟨rest, by rw [List.filter_cons, if_pos hf, hr]⟩
        · rw [if_neg hxf] at h1
          have hfx : decide (f = x) = false := by simp; exact fun e => hxf e.symm
          rw [hfx] at ho'
          have hocc : occ.testBit x = false := by
            simp only [Bool.bne_false, Bool.or_eq_true, decide_eq_true_eq, not_or] at ho'
            simpa using ho'.1
          obtain ⟨rest, hr⟩ := ih hnd'.2 hw h1
          exact ⟨rest, by rw [List.filter_cons, if_neg (by simp [hocc]), hr]⟩

end Chess
